import DaeVerif.C13.Tracker
/-! Helper lemmas for the tuple tracker (C13 b). -/
namespace DaeVerif.C13.Tracker

/-- refs mirror the ghost owner count; a deleting entry has no owner. -/
def EntOk (s : St) (k : Key) : Prop :=
  match s.ent k with
  | none => s.own k = 0
  | some e => if e.deleting then e.refs = 0 ∧ s.own k = 0 else e.refs = s.own k ∧ 1 ≤ e.refs

/-- a goroutine that is parked and not yet broadcast waits on an entry that is being deleted
(so the pending `FinalizeRelease` will wake it). -/
def WaitOk (s : St) : Prop :=
  ∀ w ∈ s.waiting, w.woken = false → ∃ e, s.ent w.key = some e ∧ e.deleting = true

/-- under the discipline only `retain` ever parks (`forget` is issued by a holder, and a held key
is not being deleted). -/
def OnlyRetainWaits (s : St) : Prop := ∀ w ∈ s.waiting, w.kind = .retain

def Inv (s : St) : Prop := (∀ k, EntOk s k) ∧ WaitOk s ∧ OnlyRetainWaits s

theorem inv_init : Inv init := by
  refine ⟨?_, ?_, ?_⟩
  · intro k; simp [EntOk, init]
  · intro w hw; simp [init] at hw
  · intro w hw; simp [init] at hw

@[simp] theorem setEnt_ent (s : St) (k k' : Key) (e) : (setEnt s k e).ent k' = if k' = k then e else s.ent k' := rfl
@[simp] theorem setEnt_own (s : St) (k : Key) (e) : (setEnt s k e).own = s.own := rfl
@[simp] theorem setEnt_waiting (s : St) (k : Key) (e) : (setEnt s k e).waiting = s.waiting := rfl
@[simp] theorem setEnt_kdel (s : St) (k : Key) (e) : (setEnt s k e).kdel = s.kdel := rfl
@[simp] theorem addOwn_ent (s : St) (k : Key) : (addOwn s k).ent = s.ent := rfl
@[simp] theorem addOwn_own (s : St) (k k' : Key) : (addOwn s k).own k' = if k' = k then s.own k + 1 else s.own k' := rfl
@[simp] theorem addOwn_waiting (s : St) (k : Key) : (addOwn s k).waiting = s.waiting := rfl
@[simp] theorem addOwn_kdel (s : St) (k : Key) : (addOwn s k).kdel = s.kdel := rfl
@[simp] theorem subOwn_ent (s : St) (k : Key) : (subOwn s k).ent = s.ent := rfl
@[simp] theorem subOwn_own (s : St) (k k' : Key) : (subOwn s k).own k' = if k' = k then s.own k - 1 else s.own k' := rfl
@[simp] theorem subOwn_waiting (s : St) (k : Key) : (subOwn s k).waiting = s.waiting := rfl
@[simp] theorem subOwn_kdel (s : St) (k : Key) : (subOwn s k).kdel = s.kdel := rfl
@[simp] theorem wake_ent (s : St) (k : Key) : (wake s k).ent = s.ent := rfl
@[simp] theorem wake_own (s : St) (k : Key) : (wake s k).own = s.own := rfl
@[simp] theorem wake_kdel (s : St) (k : Key) : (wake s k).kdel = s.kdel := rfl

/-- `EntOk` only looks at `ent` and `own`. -/
theorem entOk_congr {s t : St} (he : s.ent = t.ent) (ho : s.own = t.own) (k : Key) :
    EntOk s k ↔ EntOk t k := by
  unfold EntOk; rw [he, ho]

/-! #### retain -/

theorem retainBody_some_entOk {s s' : St} {k : Key} (h : ∀ k, EntOk s k)
    (hb : retainBody s k = some s') : ∀ k', EntOk s' k' := by
  intro k'
  have hk := h k
  have hk' := h k'
  unfold retainBody at hb
  unfold EntOk at hk hk' ⊢
  split at hb
  · rename_i hnone
    injection hb with hb; subst hb
    by_cases hkk : k' = k
    · subst hkk; simp_all
    · simp_all
  · rename_i e hsome
    split at hb
    · cases hb
    · rename_i hnd
      injection hb with hb; subst hb
      by_cases hkk : k' = k
      · subst hkk; simp_all
      · simp_all

theorem retainBody_waiting {s s' : St} {k : Key} (hb : retainBody s k = some s') :
    s'.waiting = s.waiting ∧ s'.kdel = s.kdel := by
  unfold retainBody at hb
  split at hb
  · injection hb with hb; subst hb; simp
  · split at hb
    · cases hb
    · injection hb with hb; subst hb; simp

/-- a completed `retain` keeps deleting entries deleting (needed for `WaitOk`). -/
theorem retainBody_keeps_deleting {s s' : St} {k : Key} (hb : retainBody s k = some s')
    (k' : Key) (e : Entry) (he : s.ent k' = some e) (hd : e.deleting = true) :
    s'.ent k' = some e := by
  unfold retainBody at hb
  split at hb
  · rename_i hnone
    injection hb with hb; subst hb
    by_cases hkk : k' = k
    · subst hkk; simp_all
    · simp [hkk, he]
  · rename_i e0 hsome
    split at hb
    · cases hb
    · rename_i hnd
      injection hb with hb; subst hb
      by_cases hkk : k' = k
      · subst hkk; rw [he] at hsome; injection hsome with hsome; subst hsome; simp_all
      · simp [hkk, he]

theorem retainBody_none_iff {s : St} {k : Key} :
    retainBody s k = none ↔ ∃ e, s.ent k = some e ∧ e.deleting = true := by
  unfold retainBody
  split
  · simp_all
  · rename_i e he
    split <;> simp_all

/-! #### forget -/

theorem forgetBody_some_entOk {s s' : St} {k : Key} (h : ∀ k, EntOk s k)
    (hb : forgetBody s k = some s') (hown : 1 ≤ s.own k) : ∀ k', EntOk s' k' := by
  intro k'
  have hk := h k
  have hk' := h k'
  unfold forgetBody at hb
  unfold EntOk at hk hk' ⊢
  split at hb
  · injection hb with hb; subst hb; exact hk'
  · rename_i e hsome
    split at hb
    · cases hb
    · split at hb
      · injection hb with hb; subst hb
        by_cases hkk : k' = k
        · subst hkk; simp_all <;> omega
        · simp_all
      · injection hb with hb; subst hb
        by_cases hkk : k' = k
        · subst hkk; simp_all <;> omega
        · simp_all

theorem forgetBody_waiting {s s' : St} {k : Key} (hb : forgetBody s k = some s') :
    s'.waiting = s.waiting ∧ s'.kdel = s.kdel := by
  unfold forgetBody at hb
  split at hb
  · injection hb with hb; subst hb; simp
  · split at hb
    · cases hb
    · split at hb <;> (injection hb with hb; subst hb; simp)

theorem forgetBody_keeps_deleting {s s' : St} {k : Key} (hb : forgetBody s k = some s')
    (k' : Key) (e : Entry) (he : s.ent k' = some e) (hd : e.deleting = true) :
    s'.ent k' = some e := by
  unfold forgetBody at hb
  split at hb
  · injection hb with hb; subst hb; exact he
  · rename_i e0 hsome
    split at hb
    · cases hb
    · rename_i hnd
      have hne : k' ≠ k := by
        intro hkk; subst hkk; rw [he] at hsome; injection hsome with hsome; subst hsome; simp_all
      split at hb <;> (injection hb with hb; subst hb; simp [hne, he])

/-- under the discipline `forget` never has to wait. -/
theorem forgetBody_isSome {s : St} {k : Key} (h : ∀ k, EntOk s k) (hown : 1 ≤ s.own k) :
    ∃ s', forgetBody s k = some s' := by
  have hk := h k
  unfold EntOk at hk
  unfold forgetBody
  split
  · exact ⟨_, rfl⟩
  · rename_i e he
    rw [he] at hk
    by_cases hd : e.deleting = true
    · simp [hd] at hk; omega
    · simp [hd]; split <;> exact ⟨_, rfl⟩

/-! #### BeginRelease -/

theorem beginOne_spec {s : St} {k : Key} (h : ∀ k, EntOk s k) (hown : 1 ≤ s.own k) :
    (∀ k', EntOk (beginOne s k).1 k') ∧
    ((beginOne s k).2 = true ↔ s.own k = 1) ∧
    (∀ k', (beginOne s k).1.own k' = if k' = k then s.own k - 1 else s.own k') ∧
    (beginOne s k).1.waiting = s.waiting ∧ (beginOne s k).1.kdel = s.kdel ∧
    (∀ k' e, s.ent k' = some e → e.deleting = true → (beginOne s k).1.ent k' = some e) := by
  have hk := h k
  unfold EntOk at hk
  unfold beginOne
  split
  · rename_i hnone; rw [hnone] at hk; omega
  · rename_i e he
    rw [he] at hk
    by_cases hd : e.deleting = true
    · simp [hd] at hk; omega
    · have hd' : e.deleting = false := by simpa using hd
      simp only [hd', Bool.false_eq_true, if_false] at hk ⊢
      obtain ⟨hk1, hk2⟩ := hk
      have hne : ∀ k' e', s.ent k' = some e' → e'.deleting = true → k' ≠ k := by
        intro k' e' he' hd'' hkk; subst hkk; rw [he] at he'; injection he' with he'; subst he'; exact hd hd''
      by_cases h1 : e.refs > 1
      · simp only [h1, if_true]
        refine ⟨?_, ?_, ?_, rfl, rfl, ?_⟩
        · intro k'
          have hk' := h k'
          unfold EntOk at hk' ⊢
          by_cases hkk : k' = k
          · subst hkk; simp; omega
          · simpa [hkk] using hk'
        · simp; omega
        · intro k'; simp
        · intro k' e' he' hd''; simp [hne k' e' he' hd'', he']
      · have h1' : e.refs = 1 := by omega
        simp only [h1, if_false, h1', if_true]
        refine ⟨?_, ?_, ?_, rfl, rfl, ?_⟩
        · intro k'
          have hk' := h k'
          unfold EntOk at hk' ⊢
          by_cases hkk : k' = k
          · subst hkk; simp; omega
          · simpa [hkk] using hk'
        · simp; omega
        · intro k'; simp
        · intro k' e' he' hd''; simp [hne k' e' he' hd'', he']

theorem beginOne_kdel (s : St) (k : Key) : (beginOne s k).1.kdel = s.kdel := by
  unfold beginOne
  split
  · rfl
  · split
    · rfl
    · split
      · rfl
      · split <;> rfl

theorem beginLoop_kdel : ∀ (ks : List Key) (s : St), (beginLoop s ks).1.kdel = s.kdel := by
  intro ks
  induction ks with
  | nil => intro s; rfl
  | cons k ks ih => intro s; simp only [beginLoop]; rw [ih, beginOne_kdel]

theorem beginLoop_spec : ∀ (ks : List Key) (s : St), (∀ k, EntOk s k) → ks.Nodup →
    (∀ k ∈ ks, 1 ≤ s.own k) →
    (∀ k', EntOk (beginLoop s ks).1 k') ∧
    (∀ k, k ∈ (beginLoop s ks).2 ↔ k ∈ ks ∧ s.own k = 1) ∧
    (∀ k', (beginLoop s ks).1.own k' = if k' ∈ ks then s.own k' - 1 else s.own k') ∧
    (beginLoop s ks).1.waiting = s.waiting ∧ (beginLoop s ks).1.kdel = s.kdel ∧
    (∀ k' e, s.ent k' = some e → e.deleting = true → (beginLoop s ks).1.ent k' = some e) := by
  intro ks
  induction ks with
  | nil => intro s h _ _; simp [beginLoop]; exact ⟨h, fun _ _ he _ => he⟩
  | cons k ks ih =>
    intro s h hnd hown
    have hk1 : 1 ≤ s.own k := hown k (List.mem_cons_self)
    obtain ⟨b1, b2, b3, b4, b5, b6⟩ := beginOne_spec h hk1
    have hnd' := (List.nodup_cons.mp hnd)
    have hown' : ∀ k' ∈ ks, 1 ≤ (beginOne s k).1.own k' := by
      intro k' hk'
      rw [b3]
      have : k' ≠ k := by intro hkk; subst hkk; exact hnd'.1 hk'
      simp [this]; exact hown k' (List.mem_cons_of_mem _ hk')
    obtain ⟨c1, c2, c3, c4, c5, c6⟩ := ih (beginOne s k).1 b1 hnd'.2 hown'
    simp only [beginLoop]
    refine ⟨c1, ?_, ?_, by rw [c4, b4], by rw [c5, b5], ?_⟩
    · intro x
      by_cases hx : x = k
      · subst hx
        have hnot : x ∉ (beginLoop (beginOne s x).1 ks).2 := by
          intro hm; exact hnd'.1 ((c2 x).mp hm).1
        by_cases hb : (beginOne s x).2 = true
        · simp [hb]; exact b2.mp hb
        · simp [hb, hnot]; intro h1; exact hb (b2.mpr h1)
      · have : (beginOne s k).1.own x = s.own x := by rw [b3]; simp [hx]
        by_cases hb : (beginOne s k).2 = true
        · simp [hb, hx, c2, this]
        · simp [hb, hx, c2, this]
    · intro k'
      rw [c3]
      by_cases hk' : k' = k
      · subst hk'; simp [hnd'.1, b3]
      · simp [hk', b3]
    · intro k' e he hd
      exact c6 k' e (b6 k' e he hd) hd

/-! #### FinalizeRelease -/

theorem wake_waiting_kind (s : St) (k : Key) (h : OnlyRetainWaits s) : OnlyRetainWaits (wake s k) := by
  intro w hw
  simp only [wake, List.mem_map] at hw
  obtain ⟨w0, hw0, rfl⟩ := hw
  have := h w0 hw0
  split <;> simp [this]

theorem finalizeOne_waiting (s : St) (k : Key) : (finalizeOne s k).waiting = (wake s k).waiting := by
  unfold finalizeOne; split
  · split <;> rfl
  · rfl

theorem finalizeOne_spec {s : St} {k : Key} (h : Inv s) :
    Inv (finalizeOne s k) ∧ (finalizeOne s k).own = s.own ∧ (finalizeOne s k).kdel = s.kdel := by
  obtain ⟨h1, h2, h3⟩ := h
  have wakeOk : ∀ t : St, t.own = s.own → t.waiting = s.waiting →
      (∀ k', EntOk t k') →
      (∀ k', k' ≠ k → t.ent k' = s.ent k') → Inv (wake t k) := by
    intro t ho hw he hent
    refine ⟨fun k' => (entOk_congr rfl rfl k').mpr (he k'), ?_, ?_⟩
    · intro w hw' hwok
      simp only [wake, List.mem_map] at hw'
      obtain ⟨w0, hw0, rfl⟩ := hw'
      by_cases hkk : w0.key = k
      · simp [hkk] at hwok
      · simp only [hkk, if_false] at hwok ⊢
        rw [hw] at hw0
        obtain ⟨e, he1, he2⟩ := h2 w0 hw0 hwok
        exact ⟨e, by rw [wake_ent, hent _ hkk]; exact he1, he2⟩
    · apply wake_waiting_kind
      intro w hw'; rw [hw] at hw'; exact h3 w hw'
  unfold finalizeOne
  split
  · rename_i e he
    by_cases hd : e.deleting = true
    · simp only [hd, if_true]
      refine ⟨wakeOk _ rfl rfl ?_ ?_, rfl, rfl⟩
      · intro k'
        have hk' := h1 k'
        unfold EntOk at hk' ⊢
        by_cases hkk : k' = k
        · subst hkk; simp_all
        · simp_all
      · intro k' hkk; simp [hkk]
    · simp only [hd]
      exact ⟨wakeOk s rfl rfl h1 (fun _ _ => rfl), rfl, rfl⟩
  · exact ⟨wakeOk s rfl rfl h1 (fun _ _ => rfl), rfl, rfl⟩

theorem finalizeLoop_inv : ∀ (ks : List Key) (s : St), Inv s →
    Inv (finalizeLoop s ks) ∧ (finalizeLoop s ks).own = s.own ∧ (finalizeLoop s ks).kdel = s.kdel := by
  intro ks
  induction ks with
  | nil => intro s h; exact ⟨h, rfl, rfl⟩
  | cons k ks ih =>
    intro s h
    obtain ⟨a1, a2, a3⟩ := finalizeOne_spec (k := k) h
    obtain ⟨b1, b2, b3⟩ := ih _ a1
    exact ⟨b1, by simp only [finalizeLoop]; rw [b2, a2], by simp only [finalizeLoop]; rw [b3, a3]⟩

theorem finalizeLoop_ent_notin : ∀ (ks : List Key) (t : St) (k : Key), k ∉ ks →
    (finalizeLoop t ks).ent k = t.ent k := by
  intro ks
  induction ks with
  | nil => intro t k _; rfl
  | cons x xs ihx =>
    intro t k hnot
    simp only [finalizeLoop]
    rw [ihx _ k (fun h => hnot (List.mem_cons_of_mem _ h))]
    have hx : k ≠ x := fun h => hnot (h ▸ List.mem_cons_self)
    unfold finalizeOne
    split
    · split <;> simp [hx]
    · simp

/-- after `FinalizeRelease(ks)` no entry under a key of `ks` is still marked deleting. -/
theorem finalizeLoop_clears : ∀ (ks : List Key) (s : St) (k : Key), k ∈ ks →
    ∀ e, (finalizeLoop s ks).ent k = some e → e.deleting = false := by
  intro ks
  induction ks with
  | nil => intro s k hk; cases hk
  | cons k0 ks ih =>
    intro s k hk e he
    simp only [finalizeLoop] at he
    by_cases hin : k ∈ ks
    · exact ih _ k hin e he
    · have hk0 : k = k0 := by
        cases hk with
        | head => rfl
        | tail _ h => exact absurd h hin
      subst hk0
      rw [finalizeLoop_ent_notin ks _ k hin] at he
      unfold finalizeOne at he
      split at he
      · rename_i e0 he0
        by_cases hd : e0.deleting = true
        · simp [hd] at he
        · simp [hd] at he; rw [he0] at he; injection he with he; subst he; simpa using hd
      · rename_i hnone; simp [hnone] at he

theorem finalizeLoop_mono : ∀ (ks : List Key) (t : St) (w : Waiter), w ∈ (finalizeLoop t ks).waiting →
    ∃ w0 ∈ t.waiting, w0.key = w.key ∧ (w0.woken = true → w.woken = true) := by
  intro ks
  induction ks with
  | nil => intro t w hw; exact ⟨w, hw, rfl, id⟩
  | cons x xs ihx =>
    intro t w hw
    simp only [finalizeLoop] at hw
    obtain ⟨w1, hw1, hk1, hwk1⟩ := ihx _ w hw
    rw [finalizeOne_waiting] at hw1
    simp only [wake, List.mem_map] at hw1
    obtain ⟨w0, hw0, rfl⟩ := hw1
    refine ⟨w0, hw0, ?_, ?_⟩
    · rw [← hk1]; split <;> rfl
    · intro h0; apply hwk1; split <;> simp [h0]

/-- every goroutine parked on a key of `ks` has been broadcast after `FinalizeRelease(ks)`. -/
theorem finalizeLoop_wakes : ∀ (ks : List Key) (s : St),
    ∀ w ∈ (finalizeLoop s ks).waiting, w.key ∈ ks → w.woken = true := by
  intro ks
  induction ks with
  | nil => intro s w _ hk; cases hk
  | cons k0 ks ih =>
    intro s w hw hk
    simp only [finalizeLoop] at hw
    by_cases hin : w.key ∈ ks
    · exact ih _ w hw hin
    · have hk0 : w.key = k0 := by
        cases hk with
        | head => rfl
        | tail _ h => exact absurd h hin
      obtain ⟨w1, hw1, hk1, hwk1⟩ := finalizeLoop_mono ks _ w hw
      rw [finalizeOne_waiting] at hw1
      simp only [wake, List.mem_map] at hw1
      obtain ⟨w0, hw0, rfl⟩ := hw1
      apply hwk1
      have : w0.key = k0 := by
        rw [← hk0, ← hk1]; split <;> rfl
      simp [this]

/-! #### list helper -/

theorem mem_removeNth {α} : ∀ (l : List α) (i : Nat) (x : α), x ∈ removeNth l i → x ∈ l := by
  intro l
  induction l with
  | nil => intro i x h; cases h
  | cons a l ih =>
    intro i x h
    cases i with
    | zero => exact List.mem_cons_of_mem _ h
    | succ n =>
      simp only [removeNth] at h
      cases h with
      | head => exact List.mem_cons_self
      | tail _ h => exact List.mem_cons_of_mem _ (ih n x h)

/-! #### the step preserves the invariant -/

theorem waitOk_of_keeps {s s' : St} (hw : WaitOk s) (hwait : s'.waiting = s.waiting)
    (keep : ∀ k' e, s.ent k' = some e → e.deleting = true → s'.ent k' = some e) : WaitOk s' := by
  intro w hmem hwok
  rw [hwait] at hmem
  obtain ⟨e, he, hd⟩ := hw w hmem hwok
  exact ⟨e, keep _ _ he hd, hd⟩

theorem onlyRetain_of_eq {s s' : St} (h : OnlyRetainWaits s) (hwait : s'.waiting = s.waiting) :
    OnlyRetainWaits s' := by
  intro w hw; rw [hwait] at hw; exact h w hw

theorem step_inv {s : St} {op : Op} (h : Inv s) (hok : okOp s op) : Inv (step s op).1 := by
  obtain ⟨h1, h2, h3⟩ := h
  cases op with
  | retain k =>
    simp only [step]
    split
    · rename_i s' hb
      exact ⟨retainBody_some_entOk h1 hb,
        waitOk_of_keeps h2 (retainBody_waiting hb).1 (retainBody_keeps_deleting hb),
        onlyRetain_of_eq h3 (retainBody_waiting hb).1⟩
    · rename_i hb
      refine ⟨fun k' => (entOk_congr rfl rfl k').mp (h1 k'), ?_, ?_⟩
      · intro w hmem hwok
        simp only [List.mem_append, List.mem_singleton] at hmem
        cases hmem with
        | inl hm => exact h2 w hm hwok
        | inr hm =>
          subst hm
          obtain ⟨e, he, hd⟩ := retainBody_none_iff.mp hb
          exact ⟨e, he, hd⟩
      · intro w hmem
        simp only [List.mem_append, List.mem_singleton] at hmem
        cases hmem with
        | inl hm => exact h3 w hm
        | inr hm => subst hm; rfl
  | forget k =>
    simp only [step]
    have hown : 1 ≤ s.own k := hok
    obtain ⟨s', hb⟩ := forgetBody_isSome h1 hown
    rw [hb]
    exact ⟨forgetBody_some_entOk h1 hb hown,
      waitOk_of_keeps h2 (forgetBody_waiting hb).1 (forgetBody_keeps_deleting hb),
      onlyRetain_of_eq h3 (forgetBody_waiting hb).1⟩
  | «begin» ks =>
    simp only [step]
    obtain ⟨hnd, hown⟩ : ks.Nodup ∧ ∀ k ∈ ks, 1 ≤ s.own k := hok
    obtain ⟨c1, _, _, c4, _, c6⟩ := beginLoop_spec ks s h1 hnd hown
    exact ⟨fun k' => (entOk_congr rfl rfl k').mp (c1 k'), waitOk_of_keeps h2 c4 c6,
      onlyRetain_of_eq h3 c4⟩
  | finalize ks =>
    simp only [step]
    exact (finalizeLoop_inv ks s ⟨h1, h2, h3⟩).1
  | resume i =>
    simp only [step]
    split
    · exact ⟨h1, h2, h3⟩
    · rename_i w hw
      split
      · exact ⟨h1, h2, h3⟩
      · have hmemw : w ∈ s.waiting := List.mem_of_getElem? hw
        have h2' : WaitOk { s with waiting := removeNth s.waiting i } := by
          intro w' hm hwok
          exact h2 w' (mem_removeNth _ _ _ hm) hwok
        have h3' : OnlyRetainWaits { s with waiting := removeNth s.waiting i } := by
          intro w' hm
          exact h3 w' (mem_removeNth _ _ _ hm)
        have h1' : ∀ k, EntOk { s with waiting := removeNth s.waiting i } k :=
          fun k => (entOk_congr rfl rfl k).mp (h1 k)
        have hk : w.kind = .retain := h3 w hmemw
        rw [hk]
        simp only
        split
        · rename_i s' hb
          exact ⟨retainBody_some_entOk h1' hb,
            waitOk_of_keeps h2' (retainBody_waiting hb).1 (retainBody_keeps_deleting hb),
            onlyRetain_of_eq h3' (retainBody_waiting hb).1⟩
        · rename_i hb
          refine ⟨fun k' => (entOk_congr rfl rfl k').mp (h1 k'), ?_, ?_⟩
          · intro w' hmem hwok
            simp only [List.mem_append, List.mem_singleton] at hmem
            cases hmem with
            | inl hm => exact h2' w' hm hwok
            | inr hm =>
              subst hm
              obtain ⟨e, he, hd⟩ := retainBody_none_iff.mp hb
              exact ⟨e, he, hd⟩
          · intro w' hmem
            simp only [List.mem_append, List.mem_singleton] at hmem
            cases hmem with
            | inl hm => exact h3' w' hm
            | inr hm => subst hm; rfl

theorem run_inv : ∀ (ops : List Op) (s : St), Inv s → Valid s ops → Inv (run s ops) := by
  intro ops
  induction ops with
  | nil => intro s h _; exact h
  | cons op ops ih =>
    intro s h hv
    exact ih _ (step_inv h hv.1) hv.2

/-- only `begin` issues kernel deletes. -/
theorem step_kdel (s : St) (op : Op) :
    (step s op).1.kdel = s.kdel ++ (match op with | .begin _ => (step s op).2 | _ => []) := by
  cases op with
  | retain k =>
    simp only [step]; split
    · rename_i hb; simp [(retainBody_waiting hb).2]
    · simp
  | forget k =>
    simp only [step]; split
    · rename_i hb; simp [(forgetBody_waiting hb).2]
    · simp
  | «begin» ks => simp [step, beginLoop_kdel]
  | finalize ks =>
    simp only [step]
    have : ∀ (ks : List Key) (s : St), (finalizeLoop s ks).kdel = s.kdel := by
      intro ks; induction ks with
      | nil => intro s; rfl
      | cons k ks ih =>
        intro s; simp only [finalizeLoop]; rw [ih]
        unfold finalizeOne; split
        · split <;> rfl
        · rfl
    simp [this]
  | resume i =>
    simp only [step]
    split
    · simp
    · split
      · simp
      · split
        · split
          · rename_i hb; simp [(retainBody_waiting hb).2]
          · simp
        · split
          · rename_i hb; simp [(forgetBody_waiting hb).2]
          · simp

end DaeVerif.C13.Tracker
