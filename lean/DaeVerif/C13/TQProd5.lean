import DaeVerif.C13.TQProd
/-! C13 (a) — invariant preservation: the `enqueue` critical section -/
namespace DaeVerif.C13.TQ

structure EnqSpec (s s1 : St) (q t : Nat) : Prop where
  map : s1.map = s.map
  nq : s1.nq = s.nq
  np : s1.np = s.np
  prods : s1.prods = s.prods
  pool : s1.pool = s.pool
  nch : s1.nch = s.nch
  accepted : s1.accepted = s.accepted
  done : s1.done = s.done
  qs_other : ∀ q', q' ≠ q → s1.qs q' = s.qs q'
  key : (s1.qs q).key = (s.qs q).key
  ch : (s1.qs q).ch = (s.qs q).ch
  refs : (s1.qs q).refs = (s.qs q).refs
  cpc : (s1.qs q).cpc = (s.qs q).cpc
  chans_other : ∀ c, c ≠ (s.qs q).ch → s1.chans c = s.chans c
  content : ((s.qs q).ovfMode = false → (s.qs q).ovf = []) →
    s1.chans (s.qs q).ch ++ (s1.qs q).ovf = s.chans (s.qs q).ch ++ (s.qs q).ovf ++ [t] ∧
    ((s1.qs q).ovfMode = false → (s1.qs q).ovf = [])
  len : (s1.chans (s.qs q).ch).length + (s1.qs q).ovf.length
    = (s.chans (s.qs q).ch).length + (s.qs q).ovf.length + 1

theorem enqueue_spec (cfg : Cfg) (s : St) (q t : Nat) : EnqSpec s (enqueue cfg s q t) q t := by
  unfold enqueue
  by_cases hm : (s.qs q).ovfMode = true
  · simp only [hm, if_true]
    exact { map := rfl, nq := rfl, np := rfl, prods := rfl, pool := rfl, nch := rfl, accepted := rfl,
            done := rfl,
            qs_other := by intro q' hq'; simp [hq'],
            key := by simp, ch := by simp, refs := by simp, cpc := by simp,
            chans_other := by intro c _; simp,
            content := by intro _; simp [hm],
            len := by simp; omega }
  · have hm' : (s.qs q).ovfMode = false := by simpa using hm
    simp only [hm', Bool.false_eq_true, if_false]
    by_cases hl : (s.chans (s.qs q).ch).length < cfg.cap
    · simp only [hl, if_true]
      exact { map := rfl, nq := rfl, np := rfl, prods := rfl, pool := rfl, nch := rfl, accepted := rfl,
              done := rfl,
              qs_other := by intro q' _; simp,
              key := by simp, ch := by simp, refs := by simp, cpc := by simp,
              chans_other := by intro c hc; simp [hc],
              content := by intro hov; simp [hov hm', hm'],
              len := by simp; omega }
    · simp only [hl, if_false]
      exact { map := rfl, nq := rfl, np := rfl, prods := rfl, pool := rfl, nch := rfl, accepted := rfl,
              done := rfl,
              qs_other := by intro q' hq'; simp [hq'],
              key := by simp, ch := by simp, refs := by simp, cpc := by simp,
              chans_other := by intro c _; simp,
              content := by intro _; simp,
              len := by simp; omega }

/-- `q.enqueue(task)`: the producer's reference now stands for the queued task -/
theorem inv_enqueue (cfg : Cfg) {s : St} (h : Inv s) (p : Nat) (hp : p < s.np) (q : Nat)
    (hpc : (s.prods p).pc = .enq q) :
    Inv (setPc (logAccept (enqueue cfg s q p) (s.prods p).key p) p (.rel q)) := by
  have g := h.g
  have hP := h.p p hp
  have hPq := hP.pc_q q (by rw [hpc]; simp [PcQ])
  have hQ := h.q q hPq.1
  have E := enqueue_spec cfg s q p
  have hh1 : 1 ≤ holders s q := holders_pos hp hpc
  have hr0 : 0 ≤ (s.qs q).refs := by
    by_cases hlt : (s.qs q).refs < 0
    · have := (hQ.claimed_hold hlt).1; omega
    · omega
  have hmapq : s.map (s.prods p).key = some q := by rw [← hPq.2]; exact hQ.live_map hr0
  have hne : (s.qs q).cpc ≠ .exited := by
    intro e
    have := hQ.phase.mpr (by rw [e]; simp [Claimed]); omega
  obtain ⟨hcont, hmode'⟩ := E.content hQ.mode
  -- abbreviations
  have hprods : ∀ i, ((setPc (logAccept (enqueue cfg s q p) (s.prods p).key p) p (.rel q)).prods i)
      = if i = p then { s.prods p with pc := .rel q } else s.prods i := by
    intro i; simp [E.prods]
  have hhold : ∀ q', holders (setPc (logAccept (enqueue cfg s q p) (s.prods p).key p) p (.rel q)) q' + (if q' = q then 1 else 0)
      = holders s q' := by
    intro q'
    have := holders_upd s (setPc (logAccept (enqueue cfg s q p) (s.prods p).key p) p (.rel q)) p q' hp
      (by simp [E.np]) (by intro i hi; simp [hi, E.prods])
    simp only [hpc, setPc_prods, if_true, PPC.enq.injEq] at this
    simp at this
    by_cases hqq : q' = q
    · subst hqq; simpa using this
    · have : ¬ q = q' := fun h => hqq h.symm
      simp_all
  -- other live queues do not share q's channel
  have hch_other : ∀ q', q' < s.nq → q' ≠ q → (s.qs q').cpc ≠ .exited → (s.qs q').ch ≠ (s.qs q).ch :=
    fun q' hq' hqq he => g.ch_inj q' q hq' hPq.1 hqq he hne
  refine ⟨?_, ?_, ?_⟩
  · intro q' hq'
    have hq0 : q' < s.nq := by simpa [E.nq] using hq'
    by_cases hqq : q' = q
    · subst hqq
      constructor
      · simp [E.ch, E.nch]; exact hQ.ch_lt
      · simp [E.refs, E.cpc]; exact hQ.phase
      · simp [E.refs, E.key, E.map]; exact hQ.live_map
      · simp [E.cpc, E.key, E.map]; exact hQ.gone
      · simp [E.cpc]; exact hQ.no_restore
      · simp [E.cpc, E.ch, E.pool]; exact hQ.ch_pool
      · intro _
        have h1 := hhold q'
        have h2 := hQ.refs_ge hr0
        have h3 := E.len
        simp only [setPc_qs, setPc_chans, logAccept_qs, logAccept_chans, E.ch, E.refs, E.cpc]
        simp at h1
        omega
      · simp only [setPc_qs, logAccept_qs, E.refs]; intro hlt; omega
      · simp only [setPc_qs, logAccept_qs, E.refs]; intro hlt; omega
      · simpa using hmode'
    · apply (h.q q' hq0).frame
      · simp [E.qs_other q' hqq]
      · simp [E.nch]
      · simp [E.map]
      · intro _ hin; simpa [E.pool] using hin
      · have := hhold q'; simp [hqq] at this; exact this
      · intro he
        simp [E.chans_other _ (hch_other q' hq0 hqq he)]
  · intro i hi
    have hi' : i < s.np := by simpa [E.np] using hi
    by_cases hip : i = p
    · subst hip
      constructor
      · intro q' hq'; rw [hprods] at hq' ⊢; simp [PcQ] at hq' ⊢; subst hq'
        simp [E.nq, E.key]; exact hPq
      · intro c hc; rw [hprods] at hc; simp [PcC] at hc
      · intro q' hq'; rw [hprods] at hq'; simp at hq'
      · intro q' r hc; rw [hprods] at hc; simp at hc
      · intro q' hq'; rw [hprods] at hq'; simp at hq'
    · have hkeys : ∀ q', ((setPc (logAccept (enqueue cfg s q p) (s.prods p).key p) p (.rel q)).qs q').key = (s.qs q').key := by
        intro q'; by_cases hqq : q' = q
        · subst hqq; simp [E.key]
        · simp [E.qs_other q' hqq]
      have hcpcs : ∀ q', ((setPc (logAccept (enqueue cfg s q p) (s.prods p).key p) p (.rel q)).qs q').cpc = (s.qs q').cpc := by
        intro q'; by_cases hqq : q' = q
        · subst hqq; simp [E.cpc]
        · simp [E.qs_other q' hqq]
      have hchs : ∀ q', ((setPc (logAccept (enqueue cfg s q p) (s.prods p).key p) p (.rel q)).qs q').ch = (s.qs q').ch := by
        intro q'; by_cases hqq : q' = q
        · subst hqq; simp [E.ch]
        · simp [E.qs_other q' hqq]
      have hrefss : ∀ q', ((setPc (logAccept (enqueue cfg s q p) (s.prods p).key p) p (.rel q)).qs q').refs = (s.qs q').refs := by
        intro q'; by_cases hqq : q' = q
        · subst hqq; simp [E.refs]
        · simp [E.qs_other q' hqq]
      apply PInv.frame (h.p i hi')
      · rw [hprods]; simp [hip]
      · simp [E.nq]
      · intro q' _; exact hkeys q'
      · simp [E.nch]
      · intro c _ hin; simpa [E.pool] using hin
      · intro c hc
        have : c ≠ (s.qs q).ch := fun e => ((h.p i hi').pc_c c hc).2.2.2 q hPq.1 hne e.symm
        simp [E.chans_other c this]
      · intro c _ q' hq' he heq
        rw [hcpcs] at he; rw [hchs] at heq
        exact ⟨by simpa [E.nq] using hq', he, heq⟩
      · intro q' _; exact hcpcs q'
      · intro q' _ hlt; rw [hrefss]; exact hlt
  · have hkeys : ∀ q', ((setPc (logAccept (enqueue cfg s q p) (s.prods p).key p) p (.rel q)).qs q').key = (s.qs q').key := by
      intro q'; by_cases hqq : q' = q
      · subst hqq; simp [E.key]
      · simp [E.qs_other q' hqq]
    have hcpcs : ∀ q', ((setPc (logAccept (enqueue cfg s q p) (s.prods p).key p) p (.rel q)).qs q').cpc = (s.qs q').cpc := by
      intro q'; by_cases hqq : q' = q
      · subst hqq; simp [E.cpc]
      · simp [E.qs_other q' hqq]
    have hchs : ∀ q', ((setPc (logAccept (enqueue cfg s q p) (s.prods p).key p) p (.rel q)).qs q').ch = (s.qs q').ch := by
      intro q'; by_cases hqq : q' = q
      · subst hqq; simp [E.ch]
      · simp [E.qs_other q' hqq]
    have hpnot : ∀ k, p ∉ s.accepted k := by
      intro k hin
      have := (g.acc k p hin).2.2
      rw [hpc] at this; simp [Enqueued] at this
    apply g.frame
    · simp [E.nq]
    · intro k q' hm; simpa [E.map] using hm
    · exact hkeys
    · exact hchs
    · intro q' he; rw [hcpcs] at he; exact he
    · intro c hc
      have : c ∈ s.pool := by simpa [E.pool] using hc
      simpa [E.nch] using g.pool_lt c this
    · simpa [E.pool] using g.pool_nodup
    · intro c hc
      have hc' : c ∈ s.pool := by simpa [E.pool] using hc
      have : c ≠ (s.qs q).ch := fun e => hQ.ch_pool hne (e ▸ hc')
      simp [E.chans_other c this]; exact g.pool_empty c hc'
    · intro i i' hi hi' c hc hc'
      have hi0 : i < s.np := by simpa [E.np] using hi
      have hi0' : i' < s.np := by simpa [E.np] using hi'
      rw [hprods] at hc hc'
      by_cases hip : i = p
      · subst hip; simp [PcC] at hc
      · by_cases hip' : i' = p
        · subst hip'; simp [PcC] at hc'
        · simp [hip] at hc; simp [hip'] at hc'; exact g.held_uniq i i' hi0 hi0' c hc hc'
    · intro i i' hi hi' q' hq hq'
      have hi0 : i < s.np := by simpa [E.np] using hi
      have hi0' : i' < s.np := by simpa [E.np] using hi'
      rw [hprods] at hq hq'
      by_cases hip : i = p
      · subst hip; simp at hq
      · by_cases hip' : i' = p
        · subst hip'; simp at hq'
        · simp [hip] at hq; simp [hip'] at hq'; exact g.addref_uniq i i' hi0 hi0' q' hq hq'
    · intro k
      show (enqueue cfg s q p).done k ++ pending (setPc (logAccept (enqueue cfg s q p) (s.prods p).key p) p (.rel q)) k
        = (if k = (s.prods p).key then (enqueue cfg s q p).accepted (s.prods p).key ++ [p] else (enqueue cfg s q p).accepted k)
      rw [E.done, E.accepted]
      by_cases hk : k = (s.prods p).key
      · simp only [hk, if_true]
        have hold := g.main (s.prods p).key
        have h1 : pending s (s.prods p).key = cur (s.qs q) ++ s.chans (s.qs q).ch ++ (s.qs q).ovf := by
          unfold pending; rw [hmapq]
        have h2 : pending (setPc (logAccept (enqueue cfg s q p) (s.prods p).key p) p (.rel q)) (s.prods p).key
            = cur (s.qs q) ++ (s.chans (s.qs q).ch ++ (s.qs q).ovf ++ [p]) := by
          unfold pending
          simp only [setPc_map, logAccept_map, E.map, hmapq, setPc_qs, logAccept_qs, setPc_chans, logAccept_chans, E.ch]
          have : cur ((enqueue cfg s q p).qs q) = cur (s.qs q) := by unfold cur; rw [E.cpc]
          rw [this, List.append_assoc, hcont]
        rw [h2, ← hold, h1]; simp
      · simp only [hk, if_false]
        have : pending (setPc (logAccept (enqueue cfg s q p) (s.prods p).key p) p (.rel q)) k = pending s k := by
          refine pending_frame ?_ ?_
          · simp [E.map]
          · intro q' hmk
            obtain ⟨a, b⟩ := g.map_lt k q' hmk
            have hqq : q' ≠ q := by intro e; subst e; exact hk (b.symm.trans hPq.2)
            have he' : (s.qs q').cpc ≠ .exited := by
              intro e
              exact (h.q q' a).gone (by rw [e]; simp [Gone]) (by rw [b]; exact hmk)
            refine ⟨by simp [E.qs_other q' hqq], ?_⟩
            simp [E.chans_other _ (hch_other q' a hqq he')]
        rw [this]; exact g.main k
    · intro k t ht
      have ht' : t ∈ (if k = (s.prods p).key then s.accepted (s.prods p).key ++ [p] else s.accepted k) := by
        simpa [E.accepted] using ht
      by_cases hk : k = (s.prods p).key
      · simp only [hk, if_true, List.mem_append, List.mem_singleton] at ht'
        cases ht' with
        | inl hin =>
          obtain ⟨a, b, c⟩ := g.acc _ t hin
          have htp : t ≠ p := by intro e; subst e; exact hpnot _ hin
          refine ⟨by simpa [E.np] using a, ?_, ?_⟩
          · rw [hprods]; simp [htp]; rw [hk]; exact b
          · rw [hprods]; simp [htp]; exact c
        | inr he =>
          subst he
          refine ⟨by simpa [E.np] using hp, ?_, ?_⟩
          · rw [hprods]; simp [hk]
          · rw [hprods]; simp [Enqueued]
      · simp only [hk, if_false] at ht'
        obtain ⟨a, b, c⟩ := g.acc k t ht'
        have htp : t ≠ p := by intro e; subst e; exact hpnot _ ht'
        refine ⟨by simpa [E.np] using a, ?_, ?_⟩
        · rw [hprods]; simp [htp]; exact b
        · rw [hprods]; simp [htp]; exact c
    · intro k
      show (if k = (s.prods p).key then (enqueue cfg s q p).accepted (s.prods p).key ++ [p] else (enqueue cfg s q p).accepted k).Nodup
      rw [E.accepted]
      by_cases hk : k = (s.prods p).key
      · simp only [hk, if_true]
        rw [List.nodup_append]
        refine ⟨g.acc_nodup _, by simp, ?_⟩
        intro a ha b hb
        simp at hb; subst hb
        intro e; subst e; exact hpnot _ ha
      · simp only [hk, if_false]; exact g.acc_nodup k

end DaeVerif.C13.TQ
