import DaeVerif.C13.Proofs
/-!
# C13 — property theorems

UDP flows: ordered exactly-once task handling over one stable, leak-free endpoint.
Only the statements a reader should audit live here; every theorem is followed by a non-vacuity
`example`.  Models: `TQ` (a), `Tracker` (b), `Drain` (c), `Keys` (d, pure part), `EP` (d).
-/
namespace DaeVerif.C13.Props
open DaeVerif.C13

/-! ## (a) per-flow task queues — all interleavings of the atomic steps of `udp_task_pool.go` -/
section TaskQueue
open TQ

/-- **Headline.**  In every reachable state of the repaired protocol — whatever the interleaving of
producers (`EmitTask`: table load, refs CAS, pool Get, LoadOrStore, CompareAndDelete, enqueue) with
every queue's convoy (channel poll, overflow pop, task execution, idle timer, emptiness check,
claiming CAS, table removal, channel recycling) and whatever the channel capacity — the tasks
finished for a flow followed by the tasks still queued for it (running task, channel, overflow of
the queue the table maps the flow to) are exactly the tasks accepted for the flow, in acceptance
order.  Nothing is lost, duplicated, reordered or stranded in a queue the table no longer knows. -/
theorem tq_exactly_once_in_order (cfg : Cfg) (hcfg : cfg.Repaired) (s : St) (hr : Reachable cfg s)
    (k : Nat) : s.done k ++ pending s k = s.accepted k :=
  (inv_reachable hcfg hr).g.main k

/-- a reachable, non-trivial state: two tasks of flow 0 accepted, the first one finished, the second
one queued -/
def exSched : List Act :=
  [ .spawn 0, .prod 0 none, .prod 0 none, .prod 0 none, .prod 0 none, .prod 0 none, .prod 0 none,
    .conv 0 .recv, .conv 0 .recv,
    .spawn 0, .prod 1 none, .prod 1 none, .prod 1 none, .prod 1 none ]

example : ∃ s, Reachable fixedCfg s ∧ s.done 0 = [0] ∧ pending s 0 = [1] ∧ s.accepted 0 = [0, 1] := by
  cases h : run fixedCfg init exSched with
  | none => exact absurd h (by decide)
  | some s =>
    refine ⟨s, reachable_of_run fixedCfg exSched init s Reachable.init h, ?_, ?_, ?_⟩
    · have : (run fixedCfg init exSched).map (fun s => s.done 0) = some [0] := by decide
      rw [h] at this; simpa using this
    · have : (run fixedCfg init exSched).map (fun s => pending s 0) = some [1] := by decide
      rw [h] at this; simpa using this
    · have : (run fixedCfg init exSched).map (fun s => s.accepted 0) = some [0, 1] := by decide
      rw [h] at this; simpa using this

/-- Every accepted task is accepted once, for the flow it was emitted for; hence (with the headline)
every finished task was emitted for the flow whose queue ran it — no task runs under another
flow's queue — and finishes at most once. -/
theorem tq_no_duplicate_no_cross_flow (cfg : Cfg) (hcfg : cfg.Repaired) (s : St)
    (hr : Reachable cfg s) (k : Nat) :
    (s.accepted k).Nodup ∧ (s.done k ++ pending s k).Nodup ∧
    ∀ t, t ∈ s.done k → t < s.np ∧ (s.prods t).key = k := by
  have hI := inv_reachable hcfg hr
  refine ⟨hI.g.acc_nodup k, by rw [hI.g.main k]; exact hI.g.acc_nodup k, ?_⟩
  intro t ht
  have : t ∈ s.accepted k := by rw [← hI.g.main k]; exact List.mem_append_left _ ht
  exact ⟨(hI.g.acc k t this).1, (hI.g.acc k t this).2.1⟩

example : ∃ s, Reachable fixedCfg s ∧ s.done 0 ≠ [] := by
  cases h : run fixedCfg init exSched with
  | none => exact absurd h (by decide)
  | some s =>
    refine ⟨s, reachable_of_run fixedCfg exSched init s Reachable.init h, ?_⟩
    have : (run fixedCfg init exSched).map (fun s => s.done 0) = some [0] := by decide
    rw [h] at this; simp at this; rw [this]; simp

/-- Tasks of one flow run one at a time: two convoys that are executing a task at the same moment
belong to queues of different flows. -/
theorem tq_one_at_a_time (cfg : Cfg) (hcfg : cfg.Repaired) (s : St) (hr : Reachable cfg s)
    (q1 q2 : Nat) (h1 : q1 < s.nq) (h2 : q2 < s.nq)
    (e1 : executing s q1 = true) (e2 : executing s q2 = true)
    (hk : (s.qs q1).key = (s.qs q2).key) : q1 = q2 := by
  have hI := inv_reachable hcfg hr
  have live : ∀ q, q < s.nq → executing s q = true → s.map (s.qs q).key = some q := by
    intro q hq he
    have hnc : ¬ Claimed (s.qs q).cpc := by
      unfold executing at he
      cases hc : (s.qs q).cpc <;> simp_all [Claimed]
    exact (hI.q q hq).live_map (unclaimed_nonneg (hI.q q hq) hnc)
  have a := live q1 h1 e1
  have b := live q2 h2 e2
  rw [hk, b] at a
  injection a with a; exact a.symm

example : ∃ s q, Reachable fixedCfg s ∧ q < s.nq ∧ executing s q = true := by
  cases h : run fixedCfg init (exSched.take 8) with
  | none => exact absurd h (by decide)
  | some s =>
    refine ⟨s, 0, reachable_of_run fixedCfg _ init s Reachable.init h, ?_, ?_⟩
    · have : (run fixedCfg init (exSched.take 8)).map (fun s => decide (0 < s.nq)) = some true := by decide
      rw [h] at this; simpa using this
    · have : (run fixedCfg init (exSched.take 8)).map (fun s => executing s 0) = some true := by decide
      rw [h] at this; simpa using this

/-- A channel in the pool — recycled by an idle queue, or put back unused — is empty: a queue
created later never inherits another flow's task. -/
theorem tq_recycled_channel_empty (cfg : Cfg) (hcfg : cfg.Repaired) (s : St) (hr : Reachable cfg s)
    (c : Nat) (hc : c ∈ s.pool) : s.chans c = [] :=
  (inv_reachable hcfg hr).g.pool_empty c hc

/-- the idle GC schedule: one task run, idle timer, emptiness check, claim, delete, recycle -/
def gcSched : List Act :=
  [ .spawn 0, .prod 0 none, .prod 0 none, .prod 0 none, .prod 0 none, .prod 0 none, .prod 0 none,
    .conv 0 .recv, .conv 0 .recv, .conv 0 .recv, .conv 0 .recv, .conv 0 .timer,
    .conv 0 .recv, .conv 0 .recv, .conv 0 .recv, .conv 0 .recv, .conv 0 .recv, .conv 0 .recv ]

example : ∃ s, Reachable fixedCfg s ∧ s.pool = [0] ∧ s.map 0 = none := by
  cases h : run fixedCfg init gcSched with
  | none => exact absurd h (by decide)
  | some s =>
    refine ⟨s, reachable_of_run fixedCfg _ init s Reachable.init h, ?_, ?_⟩
    · have : (run fixedCfg init gcSched).map (fun s => s.pool) = some [0] := by decide
      rw [h] at this; simpa using this
    · have : (run fixedCfg init gcSched).map (fun s => s.map 0) = some none := by decide
      rw [h] at this; simpa using this

/-- Queued work is never stranded: while a flow has a queued or running task, the table maps the
flow to a queue that has not been claimed for deletion, whose `refs` is positive (so the idle GC
cannot claim it), and whose convoy has not exited. -/
theorem tq_never_stranded (cfg : Cfg) (hcfg : cfg.Repaired) (s : St) (hr : Reachable cfg s) (k : Nat)
    (hp : pending s k ≠ []) :
    ∃ q, s.map k = some q ∧ q < s.nq ∧ 0 < (s.qs q).refs ∧ ¬ Claimed (s.qs q).cpc := by
  have hI := inv_reachable hcfg hr
  unfold pending at hp
  cases hm : s.map k with
  | none => simp [hm] at hp
  | some q =>
    simp only [hm] at hp
    obtain ⟨hq, hkey⟩ := hI.g.map_lt k q hm
    have hQ := hI.q q hq
    have hne : (s.qs q).cpc ≠ .exited := mapped_not_exited hI hm
    by_cases hlt : (s.qs q).refs < 0
    · exfalso
      apply hp
      have hcl := hQ.phase.mp hlt
      have : cur (s.qs q) = [] := by
        unfold cur; cases hc : (s.qs q).cpc <;> simp_all [Claimed]
      simp [this, hQ.claimed_chan hlt hne, (hQ.claimed_hold hlt).2]
    · have h0 : 0 ≤ (s.qs q).refs := by omega
      have hge := hQ.refs_ge h0
      refine ⟨q, rfl, hq, ?_, fun hc => hlt (hQ.phase.mpr hc)⟩
      have : 0 < (s.chans (s.qs q).ch).length + (s.qs q).ovf.length + execN (s.qs q).cpc := by
        by_cases hc : cur (s.qs q) = []
        · have hp' : s.chans (s.qs q).ch ++ (s.qs q).ovf ≠ [] := by
            intro e; apply hp; rw [hc]; simpa using e
          have : 0 < (s.chans (s.qs q).ch ++ (s.qs q).ovf).length := List.length_pos_iff.mpr hp'
          simp at this; omega
        · unfold cur at hc
          cases hcp : (s.qs q).cpc <;> simp_all [execN]
      omega

example : ∃ s, Reachable fixedCfg s ∧ pending s 0 ≠ [] := by
  cases h : run fixedCfg init exSched with
  | none => exact absurd h (by decide)
  | some s =>
    refine ⟨s, reachable_of_run fixedCfg exSched init s Reachable.init h, ?_⟩
    have : (run fixedCfg init exSched).map (fun s => pending s 0) = some [1] := by decide
    rw [h] at this; simp at this; rw [this]; simp

/-- … and a convoy that has not exited and is not blocked in its `select` always has an enabled
step; in its `select` the idle timer is always enabled (so a live convoy never deadlocks). -/
theorem tq_convoy_can_step (cfg : Cfg) (s : St) (q : Nat) (hq : q < s.nq)
    (h1 : (s.qs q).cpc ≠ .idle) (h2 : (s.qs q).cpc ≠ .exited) :
    ∃ s', stepConv cfg s q .timer = some s' := by
  unfold stepConv
  simp only [hq, if_true]
  cases hc : (s.qs q).cpc <;> simp_all
  all_goals (first | (split <;> simp) | skip)
  all_goals (first | (split <;> (first | simp | (split <;> simp))) | skip)

/-- **Bounded progress (no fairness assumption beyond "the convoy gets scheduled").**  In every reachable
state in which flow `k` has a waiting task `t` at the head of its queue and the flow's convoy is not
running a task, EVERY continuation schedule — any steps of any producers and of any other convoys, idle
timer firings and spurious wake-ups at any moment — that contains five steps of the flow's convoy passes
through a state in which the convoy runs `t`, before the convoy has made more than five steps.  The
idle-GC path cannot take the queue away in between: its re-checks fail and its claiming CAS fails. -/
theorem tq_head_runs_within_five_convoy_steps (cfg : Cfg) (hcfg : cfg.Repaired) (s : St)
    (hr : Reachable cfg s) (k q t : Nat) (rest : List Nat) (hm : s.map k = some q)
    (hidle : executing s q = false) (hp : pending s k = t :: rest)
    (as : List Act) (s' : St) (hrun : run cfg s as = some s') (h5 : 5 ≤ convSteps q as) :
    ∃ as₁ as₂ s₁, as = as₁ ++ as₂ ∧ run cfg s as₁ = some s₁ ∧ (s₁.qs q).cpc = .exec t ∧
      convSteps q as₁ ≤ 5 := by
  have hne : ∀ t', (s.qs q).cpc ≠ .exec t' := by
    intro t' hc; unfold executing at hidle; rw [hc] at hidle; cases hidle
  have hh := head_of_pending hm hne hp
  obtain ⟨a1, a2, s1, e, r, x, b⟩ := head_runs hcfg k q t as s s' (inv_reachable hcfg hr) hh
    (Nat.le_trans (rank_le_five _) h5) hrun
  exact ⟨a1, a2, s1, e, r, x, Nat.le_trans b (rank_le_five _)⟩

/-- … and a running task is finished (appended to its flow's completion log) by the convoy's next step,
after which the next waiting task is the head (`tq_exactly_once_in_order`). -/
theorem tq_running_task_finishes_next_step (cfg : Cfg) (hcfg : cfg.Repaired) (s : St) (q t : Nat)
    (hq : q < s.nq) (hc : (s.qs q).cpc = .exec t) (sel : Sel) :
    ∃ s', stepConv cfg s q sel = some s' ∧ s'.done (s.qs q).key = s.done (s.qs q).key ++ [t] ∧
      (s'.qs q).cpc = .top :=
  exec_finishes hcfg hq hc sel

/-- the convoy sits in its idle check (`chk2`: it has just seen `refs = 0`) when task 1 is emitted and
enqueued; its next two steps (`len(ch) > 0`: back to the loop top; channel poll) start task 1 -/
def exProgress : List Act :=
  [ .spawn 0, .prod 0 none, .prod 0 none, .prod 0 none, .prod 0 none, .prod 0 none, .prod 0 none,
    .conv 0 .recv, .conv 0 .recv, .conv 0 .recv, .conv 0 .recv, .conv 0 .timer, .conv 0 .timer,
    .spawn 0, .prod 1 none, .prod 1 none, .prod 1 none, .prod 1 none ]

example : ∃ s, Reachable fixedCfg s ∧ s.map 0 = some 0 ∧ executing s 0 = false ∧ pending s 0 = [1] ∧
    (s.qs 0).cpc = .chk2 ∧
    (run fixedCfg s [.conv 0 .timer, .conv 0 .timer]).map
      (fun s' => (s'.qs 0).cpc) = some (.exec 1) := by
  cases h : run fixedCfg init exProgress with
  | none => exact absurd h (by decide)
  | some s =>
    refine ⟨s, reachable_of_run fixedCfg exProgress init s Reachable.init h, ?_, ?_, ?_, ?_, ?_⟩
    · have : (run fixedCfg init exProgress).map (fun s => s.map 0) = some (some 0) := by decide
      rw [h] at this; simpa using this
    · have : (run fixedCfg init exProgress).map (fun s => executing s 0) = some false := by decide
      rw [h] at this; simpa using this
    · have : (run fixedCfg init exProgress).map (fun s => pending s 0) = some [1] := by decide
      rw [h] at this; simpa using this
    · have : (run fixedCfg init exProgress).map (fun s => (s.qs 0).cpc) = some .chk2 := by decide
      rw [h] at this; simpa using this
    · have : ((run fixedCfg init exProgress).bind fun s =>
          (run fixedCfg s [.conv 0 .timer, .conv 0 .timer]).map
            (fun s' => (s'.qs 0).cpc)) = some (.exec 1) := by decide
      rw [h] at this; simpa using this

/-! ### the protocol before the two fixes (witnesses; the harness replays these schedules on the
real code on every run as revert tests) -/

/-- protocol before fix 4640436 (EmitTask released its reference right after enqueueing) -/
def legacyGC : Cfg := ⟨128, false, true⟩
/-- protocol before fix 351fba0 (popOverflowTask did not re-poll the channel); capacity 1 keeps the
witness short — the real capacity needs 128 more tasks, as the harness' schedule does -/
def legacyPop : Cfg := ⟨1, true, false⟩

/-- the idle-GC ABA schedule: a complete `EmitTask` between the convoy's emptiness check and its
claiming CAS -/
def schedF1 : List Act :=
  [ .spawn 0,
    .prod 0 none, .prod 0 none, .prod 0 none, .prod 0 none, .prod 0 none, .prod 0 none,
    .conv 0 .recv, .conv 0 .recv, .conv 0 .recv, .conv 0 .recv,
    .conv 0 .timer, .conv 0 .recv, .conv 0 .recv, .conv 0 .recv,      -- emptiness check passed
    .spawn 0, .prod 1 none, .prod 1 none, .prod 1 none, .prod 1 none, .prod 1 none,  -- EmitTask(0, task 1) completes
    .conv 0 .recv, .conv 0 .recv, .conv 0 .recv ]                     -- claim, delete, recycle

/-- **Witness (legacy).** Under the old protocol the schedule ends with task 1 accepted but not
finished, not pending in any queue of the table, and sitting inside the recycled channel. -/
theorem legacy_gc_loses_task :
    (run legacyGC init schedF1).map (fun s => (s.done 0, s.accepted 0, s.map 0, s.pool, s.chans 0))
      = some ([0], [0, 1], none, [0], [1]) := by decide

/-- the same schedule under the repaired protocol: the claim fails, nothing is lost -/
theorem repaired_gc_schedule_ok :
    (run fixedCfg init schedF1).map (fun s => (s.done 0 ++ pending s 0, s.accepted 0, s.map 0, s.pool))
      = some ([0, 1], [0, 1], some 0, []) := by decide

/-- overflow overtakes channel: the convoy between its lock-free channel poll and
`popOverflowTask` while the channel fills and spills -/
def schedF2 : List Act :=
  [ .spawn 0,
    .prod 0 none, .prod 0 none, .prod 0 none, .prod 0 none, .prod 0 none, .prod 0 none,
    .conv 0 .recv, .conv 0 .recv,
    .conv 0 .recv,                                                     -- poll: channel empty
    .spawn 0, .prod 1 none, .prod 1 none, .prod 1 none, .prod 1 none, .prod 1 none,  -- task 1 → channel
    .spawn 0, .prod 2 none, .prod 2 none, .prod 2 none, .prod 2 none, .prod 2 none,  -- task 2 → overflow
    .conv 0 .recv, .conv 0 .recv, .conv 0 .recv, .conv 0 .recv, .conv 0 .recv, .conv 0 .recv ]

/-- **Witness (legacy).** Task 2 runs before task 1. -/
theorem legacy_pop_reorders :
    (run legacyPop init schedF2).map (fun s => (s.done 0, s.accepted 0)) = some ([0, 2, 1], [0, 1, 2]) := by
  decide

theorem repaired_pop_schedule_ok :
    (run ⟨1, true, true⟩ init schedF2).map (fun s => (s.done 0 ++ pending s 0, s.accepted 0))
      = some ([0, 1, 2], [0, 1, 2]) := by decide

end TaskQueue

/-! ## (b) the conn-state tuple tracker (`udp_conn_state_tracker.go`) -/
section TupleTracker
open Tracker

/-- For every history of tracker operations in which callers release / hand over only keys they
hold (`Valid`, the discipline `UdpEndpoint` follows): an entry exists exactly for the keys that
have an owner or are being deleted, its `refs` is the number of owners, and an entry marked
`deleting` has no owner. -/
theorem trk_refs_equal_owners (ops : List Op) (hv : Valid init ops) (k : Nat) :
    match (run init ops).ent k with
    | none => (run init ops).own k = 0
    | some e => if e.deleting then e.refs = 0 ∧ (run init ops).own k = 0
                else e.refs = (run init ops).own k ∧ 1 ≤ e.refs :=
  (run_inv ops init inv_init hv).1 k

/-- a valid non-trivial history: two owners of key 1, one of key 2, one release of key 1 -/
def exOps : List Op := [.retain 1, .retain 2, .retain 1, .begin [1], .finalize []]

example : Valid init exOps ∧ ((run init exOps).ent 1).map (·.refs) = some 1 := by decide

/-- **Kernel deletes are issued exactly when the last owner goes away.**  `BeginRelease(ks)` returns
key `k` (the caller then deletes the kernel tuples of `k`) iff `k` is released and the caller was
its only owner; afterwards every released key has one owner fewer. -/
theorem trk_delete_exactly_when_last_owner_leaves (ops : List Op) (hv : Valid init ops)
    (ks : List Nat) (hok : okOp (run init ops) (.begin ks)) :
    (∀ k, k ∈ (step (run init ops) (.begin ks)).2 ↔ k ∈ ks ∧ (run init ops).own k = 1) ∧
    (∀ k, (step (run init ops) (.begin ks)).1.own k
        = if k ∈ ks then (run init ops).own k - 1 else (run init ops).own k) := by
  have hI := run_inv ops init inv_init hv
  obtain ⟨hnd, hown⟩ : ks.Nodup ∧ ∀ k ∈ ks, 1 ≤ (run init ops).own k := hok
  obtain ⟨_, c2, c3, _, _, _⟩ := beginLoop_spec ks (run init ops) hI.1 hnd hown
  simp only [step]
  exact ⟨c2, c3⟩

example : Valid init [.retain 1, .retain 1, .retain 2] ∧
    okOp (run init [.retain 1, .retain 1, .retain 2]) (.begin [1, 2]) ∧
    (step (run init [.retain 1, .retain 1, .retain 2]) (.begin [1, 2])).2 = [2] := by decide

/-- **The kernel map.**  `ReleaseUdpConnStateTuples(ks)` (BeginRelease, batch delete of the returned
keys from the conn-state map, FinalizeRelease) removes a tuple from the kernel map exactly when it
is released by its only owner: tuples another endpoint still owns, and tuples not released, stay;
afterwards no entry of the tracker is left in the deleting state for these keys. -/
theorem trk_kernel_entry_removed_iff_last_owner (ops : List Op) (hv : Valid init ops) (kern ks : List Nat)
    (hok : okOp (run init ops) (.begin ks)) (k : Nat) :
    (k ∈ (releaseKernel (run init ops) kern ks).2 ↔
      k ∈ kern ∧ ¬ (k ∈ ks ∧ (run init ops).own k = 1)) ∧
    (k ∈ ks → ∀ e, (releaseKernel (run init ops) kern ks).1.ent k = some e → e.deleting = false) := by
  have h := (trk_delete_exactly_when_last_owner_leaves ops hv ks hok).1 k
  unfold releaseKernel
  constructor
  · simp only [List.mem_filter, Bool.not_eq_true', List.contains_eq_mem, decide_eq_false_iff_not]
    rw [h]
  · intro hk e he
    -- keys of ks that BeginRelease did not return are not deleting afterwards either:
    -- they were decremented (refs ≥ 1 left), skipped ones cannot occur under the discipline
    have hI := run_inv ops init inv_init hv
    obtain ⟨hnd, hown⟩ : ks.Nodup ∧ ∀ k ∈ ks, 1 ≤ (run init ops).own k := hok
    obtain ⟨c1, c2, c3, _, _, _⟩ := beginLoop_spec ks (run init ops) hI.1 hnd hown
    by_cases hr : k ∈ (step (run init ops) (.begin ks)).2
    · exact finalizeLoop_clears _ _ k hr e (by simpa [step] using he)
    · -- not returned: the finalize loop does not touch k, and after BeginRelease k still has an owner
      simp only [step] at he hr
      rw [finalizeLoop_ent_notin _ _ k hr] at he
      have hek := c1 k
      unfold EntOk at hek
      rw [he] at hek
      cases hd : e.deleting with
      | false => rfl
      | true =>
        simp [hd] at hek
        have ho := c3 k
        simp only [hk, if_true] at ho
        have h1 : ¬ (run init ops).own k = 1 := fun h1 => hr ((c2 k).mpr ⟨hk, h1⟩)
        have := hown k hk
        omega

example : (releaseKernel (run init [.retain 1, .retain 1, .retain 2]) [1, 2, 3] [1, 2]).2 = [1, 3] := by decide

/-- Nothing but `BeginRelease` ever issues a kernel delete: `retain`, `forget` (reload hand-over),
`FinalizeRelease` and resumed waiters leave the delete log untouched. -/
theorem trk_only_release_deletes (s : St) (op : Op) :
    (step s op).1.kdel = s.kdel ++ (match op with | .begin _ => (step s op).2 | _ => []) :=
  step_kdel s op

example : (step (run init [.retain 1]) (.forget 1)).1.kdel = [] ∧
    (step (run init [.retain 1]) (.forget 1)).1.ent 1 = none := by decide

/-- While the kernel tuples of `k` are being deleted (between `BeginRelease` and `FinalizeRelease`)
no `retain(k)` completes: the caller parks, the owner count stays 0 — the delete cannot remove
tuples a new owner relies on. -/
theorem trk_no_retain_during_delete (s : St) (k : Nat) (e : Entry) (he : s.ent k = some e)
    (hd : e.deleting = true) :
    (step s (.retain k)).1.own = s.own ∧ (step s (.retain k)).1.ent = s.ent ∧
    (step s (.retain k)).1.waiting = s.waiting ++ [⟨.retain, k, false⟩] := by
  have : retainBody s k = none := retainBody_none_iff.mpr ⟨e, he, hd⟩
  simp [step, this]

example : ∃ e, (run init [.retain 1, .begin [1]]).ent 1 = some e ∧ e.deleting = true :=
  ⟨⟨0, true⟩, by decide, rfl⟩

/-- `FinalizeRelease(ks)` removes the deleted entries and wakes every goroutine parked on a key of
`ks`; the invariant survives, so a woken `retain` finds no entry (or a live one) and gets its
reference. -/
theorem trk_finalize_wakes_waiters (ops : List Op) (ks : List Nat) :
    (∀ w ∈ (step (run init ops) (.finalize ks)).1.waiting, w.key ∈ ks → w.woken = true) ∧
    (∀ k ∈ ks, ∀ e, (step (run init ops) (.finalize ks)).1.ent k = some e → e.deleting = false) := by
  simp only [step]
  exact ⟨finalizeLoop_wakes ks _, fun k hk => finalizeLoop_clears ks _ k hk⟩

example : (run init [.retain 1, .begin [1], .retain 1, .finalize [1], .resume 0]).ent 1 = some ⟨1, false⟩ ∧
    (run init [.retain 1, .begin [1], .retain 1, .finalize [1], .resume 0]).waiting = [] := by decide

/-- **Reload hand-over never deletes kernel tuples.**  Transferring a held key from the previous
generation's tracker to the current one (`Retain` there, `Forget` here) issues no kernel delete in
either tracker, and the previous tracker's owner count drops by exactly one. -/
theorem trk_handover_never_deletes (cur prev : St) (k : Nat) (hp : Inv prev) (hown : 1 ≤ prev.own k) :
    (transferOne cur prev k).1.kdel = cur.kdel ∧ (transferOne cur prev k).2.kdel = prev.kdel ∧
    (transferOne cur prev k).2.own k = prev.own k - 1 ∧ Inv (transferOne cur prev k).2 := by
  unfold transferOne
  refine ⟨by simpa using step_kdel cur (.retain k), by simpa using step_kdel prev (.forget k), ?_,
    step_inv hp (show okOp prev (.forget k) from hown)⟩
  obtain ⟨s', hb⟩ := forgetBody_isSome hp.1 hown
  simp only [step, hb]
  unfold forgetBody at hb
  split at hb
  · rename_i hnone
    have := hp.1 k; unfold EntOk at this; rw [hnone] at this; omega
  · rename_i e he
    split at hb
    · cases hb
    · split at hb <;> (injection hb with hb; subst hb; simp)

example : Inv (run init [.retain 1]) ∧ 1 ≤ (run init [.retain 1]).own 1 :=
  ⟨run_inv _ init inv_init (by decide), by decide⟩

end TupleTracker

/-! ## (c) drain tickets (`control_plane_drain.go`) -/
section DrainTickets
open Drain

/-- For every sequence of `Acquire` / release-closure calls (closures may be called any number of
times, in any order): `active` is the number of tickets whose closure has not run yet, and the idle
channel is closed exactly when that number is 0. -/
theorem drain_count_is_live_tickets (ops : List Op) :
    (run init ops).active = outstanding (run init ops) ∧
    ((run init ops).idleClosed = true ↔ (run init ops).active = 0) :=
  run_inv ops init inv_init

example : (run init [.acquire, .acquire, .release 0, .release 0]).active = 1 ∧
    (run init [.acquire, .acquire, .release 0, .release 0]).idleClosed = false := by decide

/-- a ticket's closure is idempotent (`sync.Once`) -/
theorem drain_release_once (s : St) (i : Nat) : release (release s i) i = release s i := by
  have fired : ∀ t : St, t.released[i]? = some true → release t i = t := by
    intro t ht; unfold release; simp [ht]
  cases h : s.released[i]? with
  | none => unfold release; simp [h]
  | some b =>
    cases b with
    | true => rw [fired s h]; exact fired s h
    | false =>
      apply fired
      have hlt : i < s.released.length := (List.getElem?_eq_some_iff.mp h).1
      unfold release
      simp only [h]
      split <;> simp [List.getElem?_set, hlt]

example : release (release (acquire init) 0) 0 = release (acquire init) 0 ∧
    (release (acquire init) 0).active = 0 := by decide

end DrainTickets

/-! ## (d, pure part) endpoint keys (`udp_flow.go`) -/
section EndpointKeys
open Keys

/-- The key an endpoint is created under is a function of the client source, the routing scope
and — for destination-bound flows only — the destination: two packets *of the same
destination-bound / source-only class* (`hs`) agree on the key iff they agree on those.  What
happens when the class changes between packets of one flow is `handlePkt`'s business:
`same_flow_same_endpoint` below. -/
theorem key_same_source_same_key (dom force : Bool) (sc1 sc2 : Scope) (d1 d2 : Decision)
    (hs : dialSymmetric dom force d1 = dialSymmetric dom force d2) :
    dialKey dom sc1 force d1 = dialKey dom sc2 force d2 ↔
      d1.src = d2.src ∧ sc1 = sc2 ∧ (dialSymmetric dom force d1 = true → d1.dst = d2.dst) := by
  unfold dialKey symKey coneKey
  unfold dialSymmetric at hs ⊢
  cases h1 : (force || dom || d1.confirmed) with
  | true =>
    have h2 : (force || dom || d2.confirmed) = true := by rw [← hs]; exact h1
    simp only [h2, if_true]
    constructor
    · intro h; injection h with a b c; exact ⟨a, c, fun _ => b⟩
    · rintro ⟨a, c, b⟩; rw [a, c, b trivial]
  | false =>
    have h2 : (force || dom || d2.confirmed) = false := by rw [← hs]; exact h1
    simp only [h2, Bool.false_eq_true, if_false]
    constructor
    · intro h; injection h with a b c; exact ⟨a, c, fun hh => absurd hh (by simp)⟩
    · rintro ⟨a, c, _⟩; rw [a, c]

example : dialKey false Scope.zero false ⟨⟨true, 1, 1000⟩, ⟨true, 9, 80⟩, false, false, false⟩
    = dialKey false Scope.zero false ⟨⟨true, 1, 1000⟩, ⟨true, 7, 53⟩, false, false, false⟩ := by decide

/-- A later packet of the same flow with the same classification probes the key the endpoint was
created under: either the initial lookup key or its fallback equals the dial key (for a sniffed
domain the flow is on a sniff-eligible port). -/
theorem key_lookup_finds_dial_key (dom force : Bool) (sc : Scope) (d : Decision)
    (hdom : dom = true → d.allowsSniffing = true) :
    lookupKey sc force d = dialKey dom sc force d ∨
    lookupFallback sc force d = some (dialKey dom sc force d) := by
  unfold lookupKey lookupFallback dialKey Decision.confirmed
  cases force <;> cases dom <;> cases hq : d.isQuicInitial <;> cases hsn : d.hasSniffer <;>
    cases ha : d.allowsSniffing <;> simp_all

example : lookupFallback Scope.zero false ⟨⟨true, 1, 1000⟩, ⟨true, 9, 443⟩, false, false, true⟩
    = some (dialKey false Scope.zero false ⟨⟨true, 1, 1000⟩, ⟨true, 9, 443⟩, false, false, true⟩) := by
  decide

/-- Flows routed by the control plane (`OutboundControlPlaneRouting`) are destination-bound and
their scope carries dscp / process name / MAC; all other flows share a scope per (outbound, mark). -/
theorem key_scope_fields (r : Routing) :
    (needsDestinationAffinity (some r) = true ↔ r.outbound = outboundControlPlaneRouting) ∧
    (r.outbound ≠ outboundControlPlaneRouting → newRouteScope (some r) = ⟨r.outbound, r.mark, 0, 0, 0⟩) ∧
    (r.outbound = outboundControlPlaneRouting → newRouteScope (some r) = ⟨r.outbound, r.mark, r.dscp, r.pname, r.mac⟩) := by
  unfold needsDestinationAffinity newRouteScope
  refine ⟨by simp, ?_, ?_⟩ <;> intro h <;> simp [h]

example : newRouteScope (some ⟨0xFD, 5, 3, 7, 9⟩) = ⟨0xFD, 5, 3, 7, 9⟩ ∧
    newRouteScope (some ⟨2, 5, 3, 7, 9⟩) = ⟨2, 5, 0, 0, 0⟩ := by decide

end EndpointKeys

/-! ## (d) the endpoint pool (`udp_endpoint_pool.go`), sequential life cycle -/
section EndpointPool
open EP

/-- **Reuse iff live.**  `GetOrCreate` hands out an existing endpoint exactly when the pool maps the
key to it and it is usable: not a failure marker, not dead (retired after a read / write / handler
error or by a health invalidation), and either of the dialer's current generation or already
carrying traffic.  `Get` obeys the same rule. -/
theorem ep_handout_iff_usable (s : St) (k : Nat) (sym : Bool) (nat : Nat) (owner drain : Option Nat)
    (d : Nat) (out : DialOutcome) (e : Nat) :
    ((getOrCreate s k sym nat owner drain d out).2 = .hit e ↔
      s.pool k = some e ∧ (s.eps e).failed = false ∧ (s.eps e).dead = false ∧
        (genCurrent s (s.eps e) = true ∨ (s.eps e).survives = true)) ∧
    (EP.get s k = some e ↔
      s.pool k = some e ∧ (s.eps e).failed = false ∧ (s.eps e).dead = false ∧
        (genCurrent s (s.eps e) = true ∨ (s.eps e).survives = true)) := by
  have hu : ∀ E : Ep, usable s E = true ↔
      E.failed = false ∧ E.dead = false ∧ (genCurrent s E = true ∨ E.survives = true) := by
    intro E; unfold usable; cases E.failed <;> cases E.dead <;> simp
  have hr : reuseOf s k = some e ↔ s.pool k = some e ∧ usable s (s.eps e) = true := by
    unfold reuseOf
    cases hp : s.pool k with
    | none => simp
    | some e' =>
      by_cases hus : usable s (s.eps e') = true
      · simp only [hus, if_true, Option.some.injEq]
        constructor
        · intro h; subst h; exact ⟨rfl, hus⟩
        · intro h; exact h.1
      · simp only [hus, if_false]
        constructor
        · intro h; cases h
        · rintro ⟨h1, h2⟩; injection h1 with h1; subst h1; exact absurd h2 hus
  refine ⟨?_, by unfold EP.get; rw [hr, hu]⟩
  rw [← hu, ← hr]
  unfold getOrCreate
  by_cases hb : blockedBy s k = true
  · simp only [hb, if_true]
    constructor
    · intro h; cases h
    · intro h
      -- a blocking failure marker is not usable
      exfalso
      obtain ⟨hp, hus⟩ := hr.mp h
      unfold blockedBy at hb
      rw [hp] at hb
      have hf : (s.eps e).failed = true := by
        cases hfe : (s.eps e).failed <;> simp_all
      have := (hu (s.eps e)).mp hus
      rw [hf] at this; exact absurd this.1 (by simp)
  · simp only [hb, if_false]
    cases hre : reuseOf s k with
    | some e' => simp
    | none =>
      simp only
      cases out <;> simp

example : (getOrCreate (getOrCreate init 0 false 1000 none none 0 .ok).1 0 false 1000 none none 0 .ok).2 = .hit 0 := by
  decide

/-- **A recent dial failure is remembered.**  While the 2-second failure marker under a key has not
expired, `GetOrCreate` answers `ErrEndpointFailed` and changes nothing — in particular it does
not dial. -/
theorem ep_recent_failure_blocks_dial (s : St) (k e : Nat) (sym : Bool) (nat : Nat)
    (owner drain : Option Nat) (d : Nat) (out : DialOutcome)
    (hp : s.pool k = some e) (hf : (s.eps e).failed = true) (hx : (s.eps e).isExpired s.now = false) :
    getOrCreate s k sym nat owner drain d out = (s, .errFailed) := by
  unfold getOrCreate
  have : blockedBy s k = true := by unfold blockedBy; rw [hp]; simp [hf, hx]
  simp [this]

example : (getOrCreate (getOrCreate init 0 false 1000 none none 0 .failGeneric).1 0 false 1000 none none 0 .ok).2
    = .errFailed := by decide

/-- A created endpoint is a brand-new object: `GetOrCreate` never "creates" an endpoint that
existed before. -/
theorem ep_created_is_fresh (s : St) (k : Nat) (sym : Bool) (nat : Nat) (owner drain : Option Nat)
    (d : Nat) (out : DialOutcome) (e : Nat)
    (h : (getOrCreate s k sym nat owner drain d out).2 = .created e) : s.neps ≤ e := by
  unfold getOrCreate at h
  split at h
  · cases h
  · split at h
    · cases h
    · cases out with
      | failNoAlive => cases h
      | failGeneric => cases h
      | ok =>
        simp only at h
        injection h with h
        subst h
        unfold prepCreate
        exact (Good.trans (dropStale_good s k)
          (Good.trans (epochCounter_good _ d) (acquireTicket_good _ drain))).2.1

example : (getOrCreate init 3 true 1000 none none 0 .ok).2 = .created 0 := by decide

/-- **Dead is final, closed is final.**  Along every history of pool operations an endpoint that is
dead stays dead, one that is closed stays closed, and an endpoint's key and kind never change. -/
theorem ep_dead_and_closed_are_final (s : St) (ops : List Op) (e : Nat) (he : e < s.neps) :
    ((s.eps e).dead = true → ((run s ops).eps e).dead = true) ∧
    ((s.eps e).closed = true → ((run s ops).eps e).closed = true) ∧
    ((run s ops).eps e).failed = (s.eps e).failed ∧ ((run s ops).eps e).key = (s.eps e).key :=
  (run_good ops s).2.2 e he

/-- … hence an endpoint that was retired (read error, write error, short write, handler error,
health invalidation before it carried traffic) or that is a failure marker is **never handed out
again**, whatever happens afterwards. -/
theorem ep_never_handed_out_again (s : St) (e : Nat) (he : e < s.neps)
    (hd : (s.eps e).dead = true ∨ (s.eps e).failed = true) (ops : List Op)
    (k : Nat) (sym : Bool) (nat : Nat) (owner drain : Option Nat) (d : Nat) (out : DialOutcome) :
    (getOrCreate (run s ops) k sym nat owner drain d out).2 ≠ .hit e ∧ EP.get (run s ops) k ≠ some e := by
  obtain ⟨h1, _, h3, _⟩ := ep_dead_and_closed_are_final s ops e he
  have hiff := ep_handout_iff_usable (run s ops) k sym nat owner drain d out e
  constructor
  · intro h
    obtain ⟨_, hf, hdd, _⟩ := hiff.1.mp h
    cases hd with
    | inl hd => rw [h1 hd] at hdd; cases hdd
    | inr hd => rw [h3, hd] at hf; cases hf
  · intro h
    obtain ⟨_, hf, hdd, _⟩ := hiff.2.mp h
    cases hd with
    | inl hd => rw [h1 hd] at hdd; cases hdd
    | inr hd => rw [h3, hd] at hf; cases hf

example : ∃ s : St, 0 < s.neps ∧ (s.eps 0).dead = true :=
  ⟨run init [.goc 0 false 1000 none none 0 .ok, .write 0 .err], by decide, by decide⟩

/-- **Invalidated before carrying traffic ⇒ not handed out, already inside the invalidation
window.**  Right after the epoch bump of `InvalidateDialerNetworkType(d)` — before any endpoint has
been retired — an endpoint of dialer `d` that was of the current generation and has neither sent
nor received is refused by `GetOrCreate` (it dials a replacement or fails) and by `Get`, although
it is still alive and pooled.  The exception is part of the code's rule and of `usable`: a handler
that already holds the pointer and completes a write (or an accepted reply arrives) makes the
endpoint an established session, which is handed out again and which `Invalidate` no longer
retires — "before carrying traffic" is evaluated at hand-out time (`ep_handout_iff_usable`, which
holds in every state, gives the exact condition along any history). -/
theorem ep_stale_generation_not_handed_out (s : St) (d c e : Nat)
    (hc : s.curCtr d = some c) (he : (s.eps e).ctr = c) (hf : (s.eps e).failed = false)
    (hg : (s.eps e).gen = s.ctrVal c) (hs : (s.eps e).survives = false)
    (k : Nat) (sym : Bool) (nat : Nat) (owner drain : Option Nat) (d' : Nat) (out : DialOutcome) :
    (getOrCreate (invalBump s d) k sym nat owner drain d' out).2 ≠ .hit e ∧ EP.get (invalBump s d) k ≠ some e := by
  have hst : invalBump s d = bumpEpoch s c := by
    unfold invalBump epochCounter; rw [hc]
  have hgen : genCurrent (invalBump s d) ((invalBump s d).eps e) = false := by
    rw [hst]
    show genCurrent (bumpEpoch s c) (s.eps e) = false
    unfold genCurrent bumpEpoch
    simp [hf, hg, he]
  have hsv : ((invalBump s d).eps e).survives = false := by rw [hst]; exact hs
  have hiff := ep_handout_iff_usable (invalBump s d) k sym nat owner drain d' out e
  constructor
  · intro h
    obtain ⟨_, _, _, h4⟩ := hiff.1.mp h
    cases h4 with
    | inl h4 => rw [hgen] at h4; cases h4
    | inr h4 => rw [hsv] at h4; cases h4
  · intro h
    obtain ⟨_, _, _, h4⟩ := hiff.2.mp h
    cases h4 with
    | inl h4 => rw [hgen] at h4; cases h4
    | inr h4 => rw [hsv] at h4; cases h4

example : (getOrCreate (invalBump (getOrCreate init 0 false 1000 none none 0 .ok).1 0) 0 false 1000 none none 0 .ok).2
    = .created 1 := by decide

/-- **A handed-out endpoint is open.**  Along every history of pool operations — the split steps of
`InvalidateDialerNetworkType`, `retire` and a creation included — in which callers use `Remove(key,
ue)` with the key `ue` is (or was) pooled under and a bare `Close()` only on an endpoint that has
left the table (`WfRun`; this is what `handlePkt` and the pool's own paths do), the table maps a
key only to an open endpoint of that key; hence whatever `GetOrCreate` or `Get` hands out has not
been closed. -/
theorem ep_handed_out_is_open (ops : List Op) (hw : WfRun init ops)
    (k : Nat) (sym : Bool) (nat : Nat) (owner drain : Option Nat) (d : Nat) (out : DialOutcome) (e : Nat)
    (h : (getOrCreate (run init ops) k sym nat owner drain d out).2 = .hit e ∨ EP.get (run init ops) k = some e) :
    ((run init ops).eps e).closed = false ∧ ((run init ops).eps e).key = k := by
  have hP := run_poolOk ops init poolOk_init hw
  have hiff := ep_handout_iff_usable (run init ops) k sym nat owner drain d out e
  have hp : (run init ops).pool k = some e := by
    cases h with
    | inl h => exact (hiff.1.mp h).1
    | inr h => exact (hiff.2.mp h).1
  exact ⟨(hP k e hp).2.2, (hP k e hp).2.1⟩

example : WfRun init [.goc 0 false 1000 none none 0 .ok, .write 0 .err, .goc 0 false 1000 none none 0 .ok, .remove 0 1] ∧
    EP.get (run init [.goc 0 false 1000 none none 0 .ok, .write 0 .err, .goc 0 false 1000 none none 0 .ok]) 0 = some 1 := by
  decide

/-- **The reverse indexes hold only open endpoints.**  Along every history in which an endpoint is
registered while it is still open (`RegRun`: the code registers inside the critical section of the
table write, so nobody can have closed the endpoint yet), whatever sits in a dialer's or a
transport's bucket has not been closed: `Close()` always takes the endpoint out again, nothing is
left behind for `InvalidateDialerNetworkType` to find after the endpoint is gone. -/
theorem ep_index_holds_only_open_endpoints (ops : List Op) (hr : RegRun init ops) (e : Nat)
    (h : ((run init ops).eps e).registered = true) : ((run init ops).eps e).closed = false :=
  run_idxOk ops init idxOk_init hr e h

example : RegRun init [.prepCreate 0 none 0, .publish { createRecord init 0 false 1000 none none 0 with registered := false },
    .register 0, .write 0 .err] ∧
    ((run init [.prepCreate 0 none 0, .publish { createRecord init 0 false 1000 none none 0 with registered := false },
      .register 0]).eps 0).registered = true := by decide

/-- Registering *after* the table write (a separate step, as the code did before the fix) is not
safe: a write through the freshly published endpoint fails and closes it, the creator registers it
afterwards, and the closed endpoint stays in its dialer's bucket. -/
theorem late_registration_leaks :
    ((run init [.prepCreate 0 none 0, .publish { createRecord init 0 false 1000 none none 0 with registered := false },
      .write 0 .err, .register 0]).eps 0).registered = true ∧
    ((run init [.prepCreate 0 none 0, .publish { createRecord init 0 false 1000 none none 0 with registered := false },
      .write 0 .err, .register 0]).eps 0).closed = true := by decide

/-- **The end of a transport retires everything riding on it.**  In every reachable state, when the
transport of dialer `d` ends, every registered endpoint whose conn rides on it — traffic or not — is
dead and closed afterwards and the table no longer points to it. -/
theorem ep_transport_end_retires_riders (ops : List Op) (hw : WfRun init ops) (d e : Nat)
    (he : e < (run init ops).neps) (hr : ((run init ops).eps e).registered = true)
    (ht : ((run init ops).eps e).transport = transportId (run init ops) d) :
    ((transportDone (run init ops) d).eps e).dead = true ∧ ((transportDone (run init ops) d).eps e).closed = true ∧
    ∀ k, (transportDone (run init ops) d).pool k ≠ some e :=
  transportDone_spec (run_poolOk ops init poolOk_init hw) d e he hr ht

example : ((run init [.goc 0 false 1000 none none 0 .ok, .write 0 .ok]).eps 0).transport
    = transportId (run init [.goc 0 false 1000 none none 0 .ok, .write 0 .ok]) 0 ∧
    ((run init [.goc 0 false 1000 none none 0 .ok, .write 0 .ok]).eps 0).registered = true ∧
    (run init [.goc 0 false 1000 none none 0 .ok, .write 0 .ok, .transportDone 0]).pool 0 = none ∧
    -- the next endpoint of the dialer rides on a new transport
    ((run init [.goc 0 false 1000 none none 0 .ok, .write 0 .ok, .transportDone 0, .goc 0 false 1000 none none 0 .ok]).eps 1).transport
      ≠ ((run init [.goc 0 false 1000 none none 0 .ok, .write 0 .ok]).eps 0).transport := by decide

/-- An endpoint that is registered only after its transport has ended is retired on the spot (the
watcher of the bucket it enters fires at once). -/
theorem ep_register_on_ended_transport_retires (s : St) (e : Nat)
    (h : (s.eps e).transport ≠ transportId s (s.eps e).dialer) :
    ((register s e).eps e).dead = true ∧ ((register s e).eps e).closed = true := by
  unfold register
  rw [if_neg h]
  exact ⟨(retire_spec _ e).1, (retire_spec _ e).2.1⟩

/-- `retire()` leaves the endpoint dead and closed, and the pool no longer maps its key to it. -/
theorem ep_retire_spec (s : St) (e : Nat) :
    ((retire s e).eps e).dead = true ∧ ((retire s e).eps e).closed = true ∧
    (retire s e).pool (s.eps e).key ≠ some e :=
  retire_spec s e

example : (retire (getOrCreate init 0 false 1000 none none 0 .ok).1 0).pool 0 = none := by decide

/-- **Closed exactly once, together with its transport.**  In every state reachable by pool
operations, every endpoint that was dialled has had its transport closed exactly once if it is
closed and not at all while it is open (failure markers have no transport). -/
theorem ep_transport_closed_once_with_endpoint (ops : List Op) (e : Nat) (he : e < (run init ops).neps) :
    (((run init ops).eps e).closed = false → ((run init ops).eps e).connCloses = 0) ∧
    (((run init ops).eps e).closed = true →
      ((run init ops).eps e).connCloses = if ((run init ops).eps e).failed then 0 else 1) :=
  (run_good ops init).1 allOk_init e he

example : ((run init [.goc 0 false 1000 none none 0 .ok, .write 0 .err, .close 0, .remove 0 0]).eps 0).connCloses = 1 := by
  decide

/-- A second `Close` does nothing, and the first one releases exactly the tuples the endpoint
registered, in one `BeginRelease` / `FinalizeRelease` round on its owner's tracker.  (The drain
ticket is released by the same `closeEp` — see `EP.releaseDrain` — but that is not part of this
statement; the tie compares both drain counts after every operation.) -/
theorem ep_close_releases_once (s : St) (e : Nat) :
    closeEp (closeEp s e) e = closeEp s e ∧
    ((s.eps e).closed = false → (s.eps e).csClosed = false → ∀ o, (s.eps e).owner = some o →
      (s.eps e).tuples ≠ [] → (closeEp s e).trk o = releaseTuples (s.trk o) (s.eps e).tuples) := by
  constructor
  · have : ((closeEp s e).eps e).closed = true := by
      rw [closeEp_eps_self]; by_cases hc : (s.eps e).closed = true <;> simp [hc, closedRecord]
    have h2 : closeEp (closeEp s e) e = closeEp s e := by
      generalize closeEp s e = t at this ⊢
      unfold closeEp; simp [this]
    exact h2
  · intro hc hcs o ho ht
    unfold closeEp
    simp only [hc, Bool.false_eq_true, if_false]
    show (releaseDrain (releaseCs s e) e).trk o = _
    have h1 : (releaseDrain (releaseCs s e) e).trk = (releaseCs s e).trk := by
      unfold releaseDrain; split <;> rfl
    rw [h1]
    unfold releaseCs
    simp [hcs, ho, ht, setTrk]

example : ((run init [.goc 0 false 1000 (some 0) none 0 .ok, .track 0 1, .close 0]).trk 0).kdel = [2, 3] := by
  decide

/-- **Concurrent packets of one source cause one dial per endpoint generation.**  In every
interleaving of any number of `GetOrCreate` calls for one key (fast path under the read lock,
creation mutex, re-check, dial, publish — each a critical section of the real code) with dials that
may fail and with the published endpoint being retired at arbitrary moments, the number of transport
dials is: one per retired endpoint, one per failed dial, one for the live endpoint if there is one,
and one for the creator that has dialled and not yet published.  In particular no dial ever happens
for a key whose endpoint is live, and in a fault-free window (nothing retired, no dial failed) at
most one dial happens however many first packets race. -/
theorem ep_single_dial (s : EPC.St) (hr : EPC.Reachable s) :
    s.dials ≤ s.retires + s.fails + 1 ∧ (s.pool = true → s.dials = s.retires + s.fails + 1) ∧
    (s.retires = 0 → s.fails = 0 → s.dials ≤ 1) := by
  have hI := EPC.inv_reachable hr
  have hc := hI.count
  have hpd : EPC.pendingDial s ≤ 1 := by
    unfold EPC.pendingDial; split
    · split <;> omega
    · omega
  by_cases hp : s.pool = true
  · have h0 : EPC.pendingDial s = 0 := by
      unfold EPC.pendingDial
      cases hl : s.lock with
      | none => rfl
      | some t => simp [hI.excl hp t hl]
    rw [h0, hp] at hc
    simp only [if_true] at hc
    exact ⟨by omega, fun _ => by omega, fun _ _ => by omega⟩
  · have hp' : s.pool = false := by simpa using hp
    rw [hp'] at hc
    simp only [Bool.false_eq_true, if_false] at hc
    refine ⟨by omega, ?_, fun _ _ => by omega⟩
    intro h; rw [hp'] at h; cases h

/-- a dial fails, the next caller dials again; the endpoint is retired, the next caller dials again -/
example : ∃ s, EPC.Reachable s ∧ s.dials = 3 ∧ s.fails = 1 ∧ s.retires = 1 ∧ s.pool = true :=
  ⟨_, EPC.reachable_of_run [.spawn, .step 0, .step 0, .step 0, .failDial 0,
      .spawn, .step 1, .step 1, .step 1, .step 1, .step 1, .retire,
      .spawn, .step 2, .step 2, .step 2, .step 2, .step 2] EPC.init _ EPC.Reachable.init rfl,
   by decide, by decide, by decide, by decide⟩

/-- three concurrent callers, the slowest interleaving: all miss the fast path before anyone dials -/
def exFirstPackets : List EPC.Act :=
  [.spawn, .spawn, .spawn, .step 0, .step 1, .step 2, .step 1, .step 1, .step 1, .step 1, .step 0,
   .step 0, .step 2, .step 2]

example : ∃ s, EPC.Reachable s ∧ s.n = 3 ∧ s.pool = true ∧ s.dials = 1 := by
  cases h : EPC.run EPC.init exFirstPackets with
  | none => exact absurd h (by decide)
  | some s =>
    refine ⟨s, EPC.reachable_of_run _ EPC.init s EPC.Reachable.init h, ?_, ?_, ?_⟩
    · have : (EPC.run EPC.init exFirstPackets).map (·.n) = some 3 := by decide
      rw [h] at this; simpa using this
    · have : (EPC.run EPC.init exFirstPackets).map (·.pool) = some true := by decide
      rw [h] at this; simpa using this
    · have : (EPC.run EPC.init exFirstPackets).map (·.dials) = some 1 := by decide
      rw [h] at this; simpa using this

end EndpointPool

/-! ## (d) `handlePkt`: one flow, one endpoint (`udp.go`; model `Route`) -/
section HandlePkt
open Route Keys

/-- **Same flow, same endpoint — whatever the classification.**  Let `e` be the flow's endpoint
(`Carries`: live, open, pooled under the flow's symmetric key or — unless the scope forces
symmetry — its source-only key, dialled for this destination, no live sibling under the symmetric
key).  Then every later packet of the same client source, destination and routing scope on a
sniff-eligible port — plain, QUIC Initial, with or without a sniffer session, in any order — whose
transport write succeeds is carried by `e`, and handling it dials nothing and changes nothing (so
the statement holds for any number of packets).  This is what the two cross-probes and the two
`foundUeKey` overrides of `handlePkt` are for. -/
theorem same_flow_same_endpoint (s : Route.St) (p p' : Pkt) (e : Nat) (h : Carries s p e)
    (hf : SameFlow p p') (hal : p'.d.allowsSniffing = true) (hport : p'.d.dst.port ≠ 0)
    (ws : List Bool) (hw : ws.headD true = true) :
    handle s p' ws = (s, some e) :=
  handle_of_carries h hf hal hport ws hw

/-- **The first packet of a flow dials exactly one endpoint, which becomes the flow's endpoint.** -/
theorem first_packet_establishes_endpoint (s : Route.St) (p : Pkt)
    (hwf : ∀ k c, s.pool k = some c → c < s.neps) (h : lookup s p = none)
    (hal : p.d.allowsSniffing = true) (hport : p.d.dst.port ≠ 0) (ws : List Bool)
    (hw : ws.headD true = true) :
    (handle s p ws).2 = some s.neps ∧ (handle s p ws).1.dials = s.dials + 1 ∧
    Carries (handle s p ws).1 p s.neps :=
  handle_establishes hwf h hal hport ws hw

/-- a plain first packet on :443 (source-only endpoint), then a QUIC Initial, then a packet with a
sniffer session, then a plain one: one dial, all four carried by endpoint 0 -/
def exFlow (qi hs : Bool) : Pkt := ⟨⟨⟨true, 1, 4000⟩, ⟨true, 9, 443⟩, hs, qi, true⟩, none, false⟩

example :
    let s1 := (handle Route.init (exFlow false false) []).1
    let s2 := (handle s1 (exFlow true false) []).1
    let s3 := (handle s2 (exFlow false true) []).1
    ((handle Route.init (exFlow false false) []).2, (handle s1 (exFlow true false) []).2,
     (handle s2 (exFlow false true) []).2, (handle s3 (exFlow false false) []).2, s3.dials)
      = (some 0, some 0, some 0, some 0, 1) := by decide

/-- **The stream's function is the theorems' function.**  The `c13_hp` stream is compared with `handleD`
(scripted dial outcomes, negative cache, time); with no dial scripted to fail and an empty negative cache it
is `handle`, the function `same_flow_same_endpoint` and `first_packet_establishes_endpoint` are about. -/
theorem route_scripted_dials_refine_handle (s : Route.St) (p : Pkt) (ws : List Bool) (hm : s.markers = []) :
    handleD s p ws [] = handle s p ws :=
  handleD_eq_handle s p ws hm

/-- **A recent dial failure is remembered by `handlePkt` too.**  A packet whose look-up finds nothing and
whose dial key carries an unexpired failure marker is dropped without a dial and without any state change,
whatever the scripted outcomes would have been. -/
theorem route_recent_dial_failure_drops_without_dial (s : Route.St) (p : Pkt) (ws ds : List Bool) (t : Nat)
    (h : lookup s p = none) (hg : Route.get s (dialKey false p.scope p.force p.d) = none)
    (hm : markerOf s (dialKey false p.scope p.force p.d) = some t) (hlt : s.now < t) :
    handleD s p ws ds = (s, none) :=
  handleD_blocked ws ds t h hg hm hlt

/-- a failed dial (marker for 2 s), the next packet 1.999 s later is dropped without a dial, the one after
the marker's expiry dials again -/
def exFail1 : Route.St := (handleD Route.init (exFlow false false) [] [false]).1
def exFail2 : Route.St := Route.advance exFail1 1999000000
def exFail3 : Route.St := Route.advance exFail2 1000000

example : exFail1.fails = 1 ∧ exFail1.dials = 0 ∧
    (handleD exFail2 (exFlow false false) [] []).2 = none ∧ (handleD exFail2 (exFlow false false) [] []).1.dials = 0 ∧
    (handleD exFail2 (exFlow false false) [] []).1.fails = 1 ∧
    (handleD exFail3 (exFlow false false) [] []).1.dials = 1 ∧ (handleD exFail3 (exFlow false false) [] []).2 = some 0 := by
  decide

end HandlePkt

/-! ## ingress batches (`udp_ingress_batch.go`) -/
section Ingress
open Ingress

/-- **From the socket to the queues: per-flow execution order = the order the datagrams were read.**
One reader goroutine (the `for` loop of `Serve`: its `EmitTask` calls happen one after the other) in front
of the task queues, convoys interleaving freely with it: in every reachable state, for every flow `k`, the
tasks finished for `k` followed by the tasks still waiting for `k` are exactly the ordered datagrams of `k`
whose `enqueue` has run, each once, in arrival order (`arrivals[i] = k` for increasing `i`). -/
theorem ingress_runs_in_arrival_order (cfg : TQ.Cfg) (hcfg : cfg.Repaired) (s : Sys.St)
    (hr : Sys.Reachable cfg s) (k : Nat) :
    s.tq.done k ++ TQ.pending s.tq k = Sys.idsUpTo s.arrivals k (Sys.enqCount s.tq) ∧
    (Sys.idsUpTo s.arrivals k (Sys.enqCount s.tq)).Pairwise (· < ·) ∧
    s.tq.np - 1 ≤ Sys.enqCount s.tq := by
  refine ⟨?_, ?_, ?_⟩
  · rw [tq_exactly_once_in_order cfg hcfg s.tq (Sys.tq_reachable hr) k]
    exact (Sys.j_reachable hr).acc k
  · unfold Sys.idsUpTo
    exact List.Pairwise.filter _ (List.pairwise_lt_range)
  · unfold Sys.enqCount
    split
    · omega
    · split <;> omega

/-- two datagrams of flow 0 with one of flow 1 in between; the first task has finished -/
def exIngress : List Sys.Act :=
  [ .arrive 0, .reader none, .reader none, .reader none, .reader none, .reader none, .reader none,
    .conv 0 .recv, .conv 0 .recv,
    .arrive 1, .reader none, .reader none, .reader none, .reader none, .reader none, .reader none,
    .arrive 0, .reader none, .reader none, .reader none, .reader none ]

theorem sys_reachable_of_run (cfg : TQ.Cfg) : ∀ (as : List Sys.Act) (s s' : Sys.St), Sys.Reachable cfg s →
    Sys.run cfg s as = some s' → Sys.Reachable cfg s' := by
  intro as
  induction as with
  | nil => intro s s' hr h; simp [Sys.run] at h; subst h; exact hr
  | cons a as ih =>
    intro s s' hr h
    simp only [Sys.run] at h
    cases hs : Sys.step cfg s a with
    | none => simp [hs] at h
    | some s1 => simp only [hs] at h; exact ih s1 s' (Sys.Reachable.step a hr hs) h

example : ∃ s, Sys.Reachable TQ.fixedCfg s ∧ s.arrivals = [0, 1, 0] ∧ s.tq.done 0 = [0] ∧
    TQ.pending s.tq 0 = [2] ∧ Sys.idsUpTo s.arrivals 0 (Sys.enqCount s.tq) = [0, 2] := by
  cases h : Sys.run TQ.fixedCfg Sys.init exIngress with
  | none => exact absurd h (by decide)
  | some s =>
    refine ⟨s, sys_reachable_of_run _ exIngress Sys.init s Sys.Reachable.init h, ?_, ?_, ?_, ?_⟩
    · have : (Sys.run TQ.fixedCfg Sys.init exIngress).map (fun s => s.arrivals) = some [0, 1, 0] := by decide
      rw [h] at this; simpa using this
    · have : (Sys.run TQ.fixedCfg Sys.init exIngress).map (fun s => s.tq.done 0) = some [0] := by decide
      rw [h] at this; simpa using this
    · have : (Sys.run TQ.fixedCfg Sys.init exIngress).map (fun s => TQ.pending s.tq 0) = some [2] := by decide
      rw [h] at this; simpa using this
    · have : (Sys.run TQ.fixedCfg Sys.init exIngress).map
          (fun s => Sys.idsUpTo s.arrivals 0 (Sys.enqCount s.tq)) = some [0, 2] := by decide
      rw [h] at this; simpa using this

/-- the reader never starts the next datagram's `EmitTask` inside the previous one: a second arrival is
refused until the first call has returned (this is what "one goroutine" means in `Sys`) -/
example : Sys.run TQ.fixedCfg Sys.init [.arrive 0, .reader none, .arrive 0] = none := by decide

/-- **A flow is dispatched one way.**  The dispatch strategy and the queue key are functions of the
converged source and destination: datagrams with the same flow key are either all handed to that flow's
queue or all run directly, and an IPv4 peer seen through the dual-stack socket (IPv4-mapped IPv6) has the
same flow key as the same peer seen as IPv4. -/
theorem ingress_flow_dispatched_one_way (direct : List (Nat × Nat)) (d d' : Dgram)
    (h : flowKey d = flowKey d') : ordered direct d = ordered direct d' := by
  unfold flowKey at h
  injection h with h1 h2
  unfold ordered; rw [h1, h2]

theorem ingress_mapped_peer_same_flow (x port : Nat) (hx : x < 2 ^ 32) :
    converge ⟨true, v6Tag + 0xffff * 2 ^ 32 + x, port⟩ = ⟨true, v4Tag + x, port⟩ ∧
    converge ⟨true, v4Tag + x, port⟩ = ⟨true, v4Tag + x, port⟩ := by
  constructor
  · unfold converge is4In6 v6Tag v4Tag
    have h1 : (6 * 16 ^ 32 + 0xffff * 2 ^ 32 + x) / 16 ^ 32 = 6 := by omega
    have h2 : (6 * 16 ^ 32 + 0xffff * 2 ^ 32 + x) % 16 ^ 32 / 2 ^ 32 = 0xffff := by omega
    have h3 : (6 * 16 ^ 32 + 0xffff * 2 ^ 32 + x) % 2 ^ 32 = x := by omega
    simp [h1, h2, h3]
  · unfold converge is4In6 v4Tag
    have h1 : (4 * 16 ^ 8 + x) / 16 ^ 32 = 0 := by omega
    simp [h1]

example : ordered Keys.directPortsDefault ⟨⟨true, v4Tag + 1, 4000⟩, ⟨true, v4Tag + 9, 443⟩⟩ = true ∧
    ordered Keys.directPortsDefault ⟨⟨true, v4Tag + 1, 4000⟩, ⟨true, v4Tag + 9, 53⟩⟩ = false ∧
    ordered Keys.directPortsDefault ⟨⟨true, v4Tag + 1, 5061⟩, ⟨true, v4Tag + 9, 5003⟩⟩ = true ∧
    flowKey ⟨⟨true, v6Tag + 0xffff * 2 ^ 32 + 1, 4000⟩, ⟨true, v4Tag + 9, 443⟩⟩
      = flowKey ⟨⟨true, v4Tag + 1, 4000⟩, ⟨true, v4Tag + 9, 443⟩⟩ := by decide

/-- the specification the stream `c13_ing` is compared with lists, for a flow, exactly the positions of
its ordered datagrams, in increasing order -/
theorem ingress_spec_flow_order (direct : List (Nat × Nat)) (s : Spec.St) (key : Keys.AP × Keys.AP) :
    (Spec.flowOrder direct s key).Pairwise (· < ·) ∧
    ∀ i, i ∈ Spec.flowOrder direct s key ↔
      ∃ d, s.arrived[i]? = some d ∧ ordered direct d = true ∧ flowKey d = key :=
  Spec.flowOrder_spec direct s key

example : Spec.flowOrder Keys.directPortsDefault
    ⟨[⟨⟨true, v4Tag + 1, 4000⟩, ⟨true, v4Tag + 9, 443⟩⟩, ⟨⟨true, v4Tag + 1, 4000⟩, ⟨true, v4Tag + 9, 53⟩⟩,
      ⟨⟨true, v6Tag + 0xffff * 2 ^ 32 + 1, 4000⟩, ⟨true, v4Tag + 9, 443⟩⟩]⟩
    (⟨true, v4Tag + 1, 4000⟩, ⟨true, v4Tag + 9, 443⟩) = [0, 2] := by decide

end Ingress


section IngressBatch
open Batch

/-- **One exclusive buffer per packet.**  After any sequence of `ReadBatch` / `Take` calls, a buffer
that `Take` handed to a packet's task is never written by a later `ReadBatch` (the slot was given a
fresh buffer), and the buffers the slots own stay pairwise different: a task that waits in its flow's
queue forwards the bytes of its own datagram. -/
theorem ingress_taken_buffer_never_rewritten (n : Nat) (ops : List Op) (pkts : List (List Nat)) (b : Nat)
    (hb : b ∈ (run (init n) ops).taken) :
    (readBatch (run (init n) ops) pkts).bufs b = (run (init n) ops).bufs b ∧
    (owned (run (init n) ops).slots).Nodup :=
  ⟨readBatch_keeps_taken (run_inv ops _ (inv_init n)) pkts b hb, (run_inv ops _ (inv_init n)).2.1⟩

example : (run (init 2) [.read [[7], [8]], .take 0, .read [[9], [10]]]).bufs 0 = [7] ∧
    (run (init 2) [.read [[7], [8]], .take 0, .read [[9], [10]]]).taken = [0] := by decide

end IngressBatch

end DaeVerif.C13.Props
