import DaeVerif.C13.Tracker
import DaeVerif.C13.Drain
import DaeVerif.C13.Keys
import DaeVerif.C13.TQ
import DaeVerif.C13.EP
import DaeVerif.C13.EPC
import DaeVerif.C13.Route
import DaeVerif.C13.Batch
import DaeVerif.C13.Ingress
/-!
# C13 — executable models (core Lean only)

* `Tracker` — (b) conn-state tuple tracker (`udp_conn_state_tracker.go`)
* `Drain`   — (c) drain tickets (`control_plane_drain.go`)
* `Keys`    — (d, pure part) endpoint-key choice (`udp_flow.go`)
* `TQ`      — (a) per-flow task queues as an interleaving transition system (`udp_task_pool.go`)
* `EP`      — (d) endpoint pool life cycle (`udp_endpoint_pool.go`), sequential specification
* `Route`   — (d) which endpoint carries a packet: the endpoint part of `handlePkt` (`udp.go`)
* `Batch`   — ingress batch reader: one exclusive buffer per packet (`udp_ingress_batch.go`)
* `Ingress` — from the socket to the task queues: address convergence, flow key, dispatch strategy, and the
  composition of ONE reader goroutine with `TQ` (`control_plane.go`, `Serve`)
* `EPC`     — (d) the lock structure of `GetOrCreate` for one key (transition system, with its invariant)
-/
