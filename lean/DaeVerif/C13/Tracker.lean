/-!
# C13 (b) — the UDP conn-state tuple tracker (`control/udp_conn_state_tracker.go`)

`udpConnStateTracker` reference-counts the kernel conn-state tuples (`bpfTuplesKey`) that live
UDP endpoints registered.  One mutex guards everything, so every exported method is one atomic
section, except that `retain`/`forget` *wait* (`sync.Cond`) while the entry is being deleted and
that the caller of `BeginRelease` deletes the kernel entries *outside* the mutex before calling
`FinalizeRelease` (`controlPlaneCore.ReleaseUdpConnStateTuples`).  The model is therefore a
transition system over the operations

* `retain k`      — one iteration of `(*udpConnStateTracker).retain`
* `begin ks`      — `BeginRelease(ks)`; the returned keys are the kernel deletes the caller issues
* `finalize ks`   — `FinalizeRelease` of the releases returned by an earlier `begin`
* `forget k`      — one iteration of `forget` (reload hand-over: drop ownership, no kernel delete)
* `resume i`      — the `i`-th goroutine parked in `entry.waiters.Wait()` re-runs its loop after a
                    `Broadcast`

Keys are natural numbers (the harness numbers the `bpfTuplesKey`s it uses).  Core Lean only.
-/
namespace DaeVerif.C13.Tracker

abbrev Key := Nat

/-- `udpConnStateTrackerEntry` (the `waiters` cond is represented by the `waiting` list of the state). -/
structure Entry where
  refs : Nat
  deleting : Bool
  deriving DecidableEq, Repr

/-- which loop a parked goroutine is in -/
inductive WKind | retain | forget
  deriving DecidableEq, Repr

/-- a goroutine parked in `waiters.Wait()`; `woken` = its entry's cond was broadcast. -/
structure Waiter where
  kind : WKind
  key : Key
  woken : Bool
  deriving DecidableEq, Repr

structure St where
  ent : Key → Option Entry
  waiting : List Waiter
  /-- ghost: number of owners that currently hold `k` (completed retains − releases − forgets). -/
  own : Key → Nat
  /-- ghost: the kernel deletes issued so far (keys returned by `BeginRelease`), oldest first. -/
  kdel : List Key

def init : St := { ent := fun _ => none, waiting := [], own := fun _ => 0, kdel := [] }

def setEnt (s : St) (k : Key) (e : Option Entry) : St :=
  { s with ent := fun k' => if k' = k then e else s.ent k' }

def addOwn (s : St) (k : Key) : St :=
  { s with own := fun k' => if k' = k then s.own k + 1 else s.own k' }

def subOwn (s : St) (k : Key) : St :=
  { s with own := fun k' => if k' = k then s.own k - 1 else s.own k' }

inductive Op
  | retain (k : Key)
  | begin (ks : List Key)
  | finalize (ks : List Key)
  | forget (k : Key)
  | resume (i : Nat)
  deriving DecidableEq, Repr

/-- one pass through the `for` loop of `retain`; `none` = the goroutine went to `Wait()`. -/
def retainBody (s : St) (k : Key) : Option St :=
  match s.ent k with
  | none => some (addOwn (setEnt s k (some ⟨1, false⟩)) k)
  | some e =>
    if e.deleting then none
    else some (addOwn (setEnt s k (some ⟨e.refs + 1, false⟩)) k)

/-- one pass through the `for` loop of `forget`. -/
def forgetBody (s : St) (k : Key) : Option St :=
  match s.ent k with
  | none => some s
  | some e =>
    if e.deleting then none
    else if e.refs > 1 then some (subOwn (setEnt s k (some ⟨e.refs - 1, false⟩)) k)
    else some (subOwn (setEnt s k none) k)

/-- `BeginRelease`: the loop body for one key; returns whether the key is to be deleted from the kernel. -/
def beginOne (s : St) (k : Key) : St × Bool :=
  match s.ent k with
  | none => (s, false)
  | some e =>
    if e.deleting then (s, false)
    else if e.refs > 1 then (subOwn (setEnt s k (some ⟨e.refs - 1, false⟩)) k, false)
    else if e.refs = 1 then (subOwn (setEnt s k (some ⟨0, true⟩)) k, true)
    else (setEnt s k (some ⟨0, false⟩), false)

def beginLoop : St → List Key → St × List Key
  | s, [] => (s, [])
  | s, k :: ks =>
    let (s1, del) := beginOne s k
    let (s2, rest) := beginLoop s1 ks
    (s2, if del then k :: rest else rest)

def wake (s : St) (k : Key) : St :=
  { s with waiting := s.waiting.map fun w => if w.key = k then { w with woken := true } else w }

/-- `FinalizeRelease`, loop body for one release.  The pointer test `entry != release.entry` is
the test "the entry under this key is the one marked deleting": a deleting entry is never
replaced (everybody waits or skips it) and a non-deleting one is never the released one. -/
def finalizeOne (s : St) (k : Key) : St :=
  match s.ent k with
  | some e => if e.deleting then wake (setEnt s k none) k else wake s k
  | none => wake s k

def finalizeLoop : St → List Key → St
  | s, [] => s
  | s, k :: ks => finalizeLoop (finalizeOne s k) ks

def removeNth : List α → Nat → List α
  | [], _ => []
  | _ :: xs, 0 => xs
  | x :: xs, n + 1 => x :: removeNth xs n

/-- the transition function; the second component is what the call returns / how it ends:
`some ks` for `begin` (the kernel deletes), `blocked` is reported through `waiting`. -/
def step (s : St) : Op → St × List Key
  | .retain k =>
    match retainBody s k with
    | some s' => (s', [])
    | none => ({ s with waiting := s.waiting ++ [⟨.retain, k, false⟩] }, [])
  | .forget k =>
    match forgetBody s k with
    | some s' => (s', [])
    | none => ({ s with waiting := s.waiting ++ [⟨.forget, k, false⟩] }, [])
  | .begin ks =>
    let (s', rels) := beginLoop s ks
    ({ s' with kdel := s'.kdel ++ rels }, rels)
  | .finalize ks => (finalizeLoop s ks, [])
  | .resume i =>
    match s.waiting[i]? with
    | none => (s, [])
    | some w =>
      if !w.woken then (s, [])
      else
        let s0 := { s with waiting := removeNth s.waiting i }
        match w.kind with
        | .retain =>
          match retainBody s0 w.key with
          | some s' => (s', [])
          | none => ({ s0 with waiting := s0.waiting ++ [⟨.retain, w.key, false⟩] }, [])
        | .forget =>
          match forgetBody s0 w.key with
          | some s' => (s', [])
          | none => ({ s0 with waiting := s0.waiting ++ [⟨.forget, w.key, false⟩] }, [])

def run : St → List Op → St
  | s, [] => s
  | s, op :: ops => run (step s op).1 ops

/-! ### The client discipline under which the tracker is used

`UdpEndpoint` keeps the set of keys it retained (`udpConnStateTuples`) and releases or hands over
each of them exactly once (`udpConnStateClosed`), see the endpoint model.  At tracker level this
reads: `begin`/`forget` are only issued for keys the caller holds (`begin` gets the keys of a Go
map, hence without repetition), `finalize` gets releases that `begin` returned. -/

def okOp (s : St) : Op → Prop
  | .retain _ => True
  | .begin ks => ks.Nodup ∧ ∀ k ∈ ks, 1 ≤ s.own k
  | .finalize ks => ∀ k ∈ ks, (s.ent k).map (·.deleting) = some true
  | .forget k => 1 ≤ s.own k
  | .resume _ => True

instance (s : St) (op : Op) : Decidable (okOp s op) := by
  cases op <;> unfold okOp <;> infer_instance

/-- every operation of the history respects the discipline at the state it is issued in. -/
def Valid : St → List Op → Prop
  | _, [] => True
  | s, op :: ops => okOp s op ∧ Valid (step s op).1 ops

instance : ∀ (ops : List Op) (s : St), Decidable (Valid s ops)
  | [], _ => by unfold Valid; infer_instance
  | op :: ops, s => by
    unfold Valid
    have := instDecidableValid ops (step s op).1
    infer_instance

/-! ### the kernel side: `controlPlaneCore.ReleaseUdpConnStateTuples` -/

/-- `BeginRelease(ks)`; `BpfMapBatchDelete(ConnStateMap, released keys)`; `FinalizeRelease`.
`kern` = the tuples present in the kernel conn-state map.  Returns the tracker and the map. -/
def releaseKernel (s : St) (kern : List Key) (ks : List Key) : St × List Key :=
  ((step (step s (.begin ks)).1 (.finalize (step s (.begin ks)).2)).1,
   kern.filter fun k => !(step s (.begin ks)).2.contains k)

/-! ### hand-over between two trackers (`TransferRetainedUdpConnStateTuplesFrom`) -/

/-- `currentTracker.Retain(keys); previousTracker.Forget(keys)` for one key, when the two
generations do not share a tracker. -/
def transferOne (cur prev : St) (k : Key) : St × St :=
  ((step cur (.retain k)).1, (step prev (.forget k)).1)

end DaeVerif.C13.Tracker
