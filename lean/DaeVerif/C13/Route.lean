import DaeVerif.C13.Keys
/-!
# C13 (d) — which endpoint carries a packet: the endpoint part of `handlePkt` (`control/udp.go`)

`handlePkt` composes the key functions of `udp_flow.go` with the pool: initial look-up, the two
cross-probes ("otherwise we fork a second UdpEndpoint for the same 4-tuple"), the fallback key, the
dial key with its two `foundUeKey` overrides, the local fast reuse, `GetOrCreate`, the write, and the
`Remove` + retry loop (`MaxRetry`).  This model covers the path taken with sniffing switched off for
the packet (`skipSniffing`, or an endpoint already exists), an empty sniffed domain, a non-DNS
destination port, and a dialer group whose health check admits the endpoint (a single healthy dialer
in the harness, fixed or Random policy).  The pool is reduced to what that logic needs: table, dead / closed flags, dial target.

Core Lean only.
-/
namespace DaeVerif.C13.Route
open Keys

structure REp where
  key : EKey
  dead : Bool
  closed : Bool
  /-- `DialTarget` (always the packet's real destination) -/
  target : AP
  deriving DecidableEq, Repr

structure St where
  pool : EKey → Option Nat
  neps : Nat
  eps : Nat → REp
  dials : Nat
  /-- `MaxRetry`: a tuning constant of the code (the harness reports the value in use) -/
  maxRetry : Nat := 2
  /-- virtual time (ns) -/
  now : Nat := 0
  /-- negative-cache entries (`cacheFailureLocked`): key ↦ expiry.  In the code the marker occupies the key's
  table slot (`failed` entry, no conn); here it is kept apart, with the invariant that a key never has both
  a marker and a table entry (a dial failure happens only after the slot was emptied; a successful dial
  replaces the marker) -/
  markers : List (EKey × Nat) := []
  /-- lifetime of a marker and the janitor's period (tuning constants read off the code) -/
  failTtl : Nat := 2000000000
  janitorIv : Nat := 250000000
  nextJanitor : Nat := 250000000
  /-- ghost: transport dials that failed -/
  fails : Nat := 0

def dummy : REp := ⟨⟨AP.zero, AP.zero, Scope.zero⟩, true, true, AP.zero⟩
def init : St := { pool := fun _ => none, neps := 0, eps := fun _ => dummy, dials := 0 }

/-- one ingress packet as `handlePkt` sees it -/
structure Pkt where
  d : Decision
  routing : Option Routing
  /-- `c.udpRouteScopeSensitive` -/
  scopeSensitive : Bool
  deriving DecidableEq, Repr

def Pkt.scope (p : Pkt) : Scope := if p.scopeSensitive then newRouteScope p.routing else Scope.zero
def Pkt.force (p : Pkt) : Bool := p.scopeSensitive && needsDestinationAffinity p.routing

def setEp (s : St) (e : Nat) (E : REp) : St := { s with eps := fun i => if i = e then E else s.eps i }
def setPool (s : St) (k : EKey) (v : Option Nat) : St := { s with pool := fun i => if i = k then v else s.pool i }

/-- `Get(key)`: only a live endpoint is handed out -/
def get (s : St) (k : EKey) : Option Nat :=
  match s.pool k with
  | some e => if (s.eps e).dead then none else some e
  | none => none

/-- `retire()` -/
def retire (s : St) (e : Nat) : St :=
  let s1 := setEp s e { (s.eps e) with dead := true, closed := true }
  if s1.pool (s.eps e).key = some e then setPool s1 (s.eps e).key none else s1

/-- `Remove(key, ue)` -/
def remove (s : St) (k : EKey) (e : Nat) : St :=
  let s1 := if s.pool k = some e then setPool s k none else s
  setEp s1 e { (s1.eps e) with closed := true }

/-- `GetOrCreate(key)` with a dial that succeeds: (state, endpoint, isNew) -/
def getOrCreate (s : St) (k : EKey) (target : AP) : St × Nat × Bool :=
  match get s k with
  | some e => (s, e, false)
  | none =>
    -- a dead entry still under the key is dropped and closed
    let s1 := match s.pool k with
      | some e => setEp (setPool s k none) e { (s.eps e) with closed := true }
      | none => s
    (setPool (setEp { s1 with neps := s1.neps + 1, dials := s1.dials + 1 } s1.neps ⟨k, false, false, target⟩) k (some s1.neps),
     s1.neps, true)

structure Found where
  key : EKey
  e : Nat
  deriving DecidableEq, Repr

/-- a cross-probe: another key of the same flow, accepted only if that endpoint dials the same remote -/
def probe (s : St) (p : Pkt) (k0 k1 : EKey) : Option Found :=
  if k1 = k0 then none
  else match get s k1 with
    | some c => if (s.eps c).target = p.d.dst then some ⟨k1, c⟩ else none
    | none => none

/-- initial look-up, cross-probe, fallback -/
def lookup (s : St) (p : Pkt) : Option Found :=
  let k0 := lookupKey p.scope p.force p.d
  match get s k0 with
  | some e => some ⟨k0, e⟩
  | none =>
    let pr : Option Found :=
      if p.force then none
      else if k0.dst.port ≠ 0 then probe s p k0 (coneKey p.d p.scope)
      else probe s p k0 (symKey p.d p.scope)
    match pr with
    | some f => some f
    | none =>
      match lookupFallback p.scope p.force p.d with
      | some kf => (get s kf).map fun e => ⟨kf, e⟩
      | none => none

/-- the key this attempt dials / reuses under: `EndpointKeyForDialWithScope` and the two overrides
that keep an endpoint found under the flow's other key -/
def attemptKey (s : St) (p : Pkt) (found : Option Found) (ue : Option Nat) : EKey :=
  let k := dialKey false p.scope p.force p.d
  match found, ue with
  | some f, some u =>
    if f.key.dst.port ≠ 0 ∧ k.dst.port = 0 then f.key
    else if f.key.dst.port = 0 ∧ k.dst.port ≠ 0 ∧ (s.eps u).target = p.d.dst then f.key
    else k
  | _, _ => k

/-- does the write on endpoint u succeed (`w` = what the transport answers) -/
def writeOk (s : St) (u : Nat) (w : Bool) : Bool := w && !(s.eps u).dead && !(s.eps u).closed

/-- a failed `WriteTo` retires a live endpoint; then `handlePkt` calls `Remove(ueKey, ue)` -/
def afterFailedWrite (s : St) (k : EKey) (u : Nat) : St :=
  remove (if (s.eps u).dead then s else retire s u) k u

/-- the `getNew:` loop; `ws` = outcome of each transport write in order (missing = success).
Returns the state and the endpoint that carried the packet. -/
def attempts : Nat → St → Pkt → Option Found → Option Nat → Nat → List Bool → St × Option Nat
  | 0, s, _, _, _, _, _ => (s, none)
  | fuel + 1, s, p, found, ue, retry, ws =>
    if retry > s.maxRetry then (s, none)
    else
      let k := attemptKey s p found ue
      let r : St × Nat × Bool :=
        match found, ue with
        | some f, some u => if retry = 0 ∧ k = f.key then (s, u, false) else getOrCreate s k p.d.dst
        | _, _ => getOrCreate s k p.d.dst
      let s1 := r.1
      let u := r.2.1
      let w := ws.headD true
      if writeOk s1 u w then (s1, some u)
      else attempts fuel (afterFailedWrite s1 k u) p found (some u) (retry + 1) ws.tail

/-- `handlePkt` (endpoint part) -/
def handle (s : St) (p : Pkt) (ws : List Bool) : St × Option Nat :=
  attempts (s.maxRetry + 2) s p (lookup s p) ((lookup s p).map (·.e)) 0 ws

/-! ### dial failures, the negative cache and time

`attemptsD` is `attempts` with the outcome of every transport dial scripted (`ds`, missing = success) and the
negative cache consulted: a failed dial leaves a marker under the key for `failTtl`, and while it has not
expired `GetOrCreate` answers `ErrEndpointFailed` without dialling (`handlePkt` drops the packet silently).
`handleD_eq_handle` (RouteProofs): without markers and with every dial succeeding it is `attempts`. -/

def markerOf (s : St) (k : EKey) : Option Nat := (s.markers.find? fun m => m.1 == k).map (·.2)

def clearMarker (s : St) (k : EKey) : St := { s with markers := s.markers.filter fun m => !(m.1 == k) }

/-- `GetOrCreate(key)`: `none` = an error came back (unexpired failure marker, or the dial failed) -/
def getOrCreateD (s : St) (k : EKey) (target : AP) (dialOk : Bool) : St × Option (Nat × Bool) :=
  match get s k with
  | some e => (s, some (e, false))
  | none =>
    match markerOf s k with
    | some t =>
      if s.now < t then (s, none)        -- ErrEndpointFailed
      else
        -- expired marker: dropped, then as on a miss
        let s0 := clearMarker s k
        if dialOk then let r := getOrCreate s0 k target; (r.1, some (r.2.1, r.2.2))
        else ({ s0 with markers := s0.markers ++ [(k, s0.now + s0.failTtl)], fails := s0.fails + 1 }, none)
    | none =>
      if dialOk then let r := getOrCreate s k target; (r.1, some (r.2.1, r.2.2))
      else
        -- the dead entry still under the key is dropped and closed, the marker takes the slot
        let s1 := match s.pool k with
          | some e => setEp (setPool s k none) e { (s.eps e) with closed := true }
          | none => s
        ({ s1 with markers := s1.markers ++ [(k, s1.now + s1.failTtl)], fails := s1.fails + 1 }, none)

def attemptsD : Nat → St → Pkt → Option Found → Option Nat → Nat → List Bool → List Bool → St × Option Nat
  | 0, s, _, _, _, _, _, _ => (s, none)
  | fuel + 1, s, p, found, ue, retry, ws, ds =>
    if retry > s.maxRetry then (s, none)
    else
      let k := attemptKey s p found ue
      let reuse : Bool := match found, ue with
        | some f, some _ => retry = 0 ∧ k = f.key
        | _, _ => false
      let r : St × Option (Nat × Bool) :=
        match found, ue with
        | some f, some u => if retry = 0 ∧ k = f.key then (s, some (u, false)) else getOrCreateD s k p.d.dst (ds.headD true)
        | _, _ => getOrCreateD s k p.d.dst (ds.headD true)
      -- a dial outcome is consumed only when a dial was attempted
      let dialled : Bool := !reuse && (get s k).isNone && !(match markerOf s k with | some t => decide (s.now < t) | none => false)
      let ds' := if dialled then ds.tail else ds
      match r.2 with
      | none => (r.1, none)
      | some (u, _) =>
        let s1 := r.1
        let w := ws.headD true
        if writeOk s1 u w then (s1, some u)
        else attemptsD fuel (afterFailedWrite s1 k u) p found (some u) (retry + 1) ws.tail ds'

def handleD (s : St) (p : Pkt) (ws ds : List Bool) : St × Option Nat :=
  attemptsD (s.maxRetry + 2) s p (lookup s p) ((lookup s p).map (·.e)) 0 ws ds

/-- the janitor's pass at tick time `t`: expired markers leave the table (endpoints of this stream never
reach their NAT timeout: the harness keeps a sequence shorter than the shortest one) -/
def janitorAt (s : St) (t : Nat) : St := { s with markers := s.markers.filter fun m => !(m.2 ≤ t) }

def runJanitors (target : Nat) : Nat → St → St
  | 0, s => s
  | fuel + 1, s =>
    if s.nextJanitor ≤ target then
      runJanitors target fuel { janitorAt s s.nextJanitor with nextJanitor := s.nextJanitor + s.janitorIv }
    else s

/-- `time.Sleep(dt)` -/
def advance (s : St) (dt : Nat) : St :=
  { runJanitors (s.now + dt) (dt / (s.janitorIv + 1) + 2) s with now := s.now + dt }

/-- the transport of endpoint e reports a hard read error (the read loop retires the endpoint) -/
def readError (s : St) (e : Nat) : St := if (s.eps e).closed then s else retire s e

end DaeVerif.C13.Route
