import DaeVerif.C13.TrackerProofs
import DaeVerif.C13.DrainProofs
import DaeVerif.C13.KeysProofs
import DaeVerif.C13.TQStep
import DaeVerif.C13.EPProofs
import DaeVerif.C13.EPPool
import DaeVerif.C13.EPIndex
import DaeVerif.C13.EPC
import DaeVerif.C13.RouteProofs
import DaeVerif.C13.BatchProofs
import DaeVerif.C13.TQProgress
import DaeVerif.C13.IngressProofs
/-!
# C13 — helper lemmas (index)

* `TrackerProofs` — invariant of the tuple tracker under the client discipline
* `DrainProofs`   — `active` = outstanding tickets, idle channel closed iff none
* `KeysProofs`    — shape of the endpoint keys
* `TQBasic`, `TQProd*`, `TQConv*`, `TQStep` — the inductive invariant of the repaired task-queue
  protocol: one preservation lemma per atomic step, `inv_reachable` at the end
* `TQProgress`    — bounded progress: the head task of a flow runs within five steps of its convoy
* `IngressProofs` — one reader goroutine + task queues: acceptance order = arrival order
* `EPProofs`      — endpoint pool: closing discipline (`CloseOk`) and monotone facts (`Later`) for every
  operation, lifted to histories
-/
