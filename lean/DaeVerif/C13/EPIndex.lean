import DaeVerif.C13.EPPool
/-! C13 (d) — the pool's reverse indexes (dialer buckets / transport buckets) hold no closed
endpoint, provided an endpoint is registered while nobody else can have closed it yet (the table
write and the registration are one critical section).  With the registration *after* the table
write a closed endpoint can be registered and is then never unregistered (`late_registration_leaks`). -/
namespace DaeVerif.C13.EP

/-- whatever a bucket holds is an open endpoint -/
def IdxOk (s : St) : Prop := ∀ e, (s.eps e).registered = true → (s.eps e).closed = false

theorem idxOk_init : IdxOk init := by intro e h; simp [init, dummyEp] at h

theorem IdxOk.of_eps {s s' : St} (h : IdxOk s) (he : s'.eps = s.eps) : IdxOk s' := by
  intro e; rw [he]; exact h e

theorem IdxOk.setEp {s : St} (h : IdxOk s) (e : Nat) (E : Ep) (hE : E.registered = true → E.closed = false) :
    IdxOk (setEp s e E) := by
  intro i
  simp only [setEp_eps]
  by_cases hi : i = e
  · simp only [hi, if_true]; exact hE
  · simp only [hi, if_false]; exact h i

/-- a rewrite that keeps the two flags -/
theorem IdxOk.setEp_same {s : St} (h : IdxOk s) (e : Nat) (E : Ep) (hr : E.registered = (s.eps e).registered)
    (hc : E.closed = (s.eps e).closed) : IdxOk (EP.setEp s e E) :=
  IdxOk.setEp h e E (by rw [hr, hc]; exact h e)

theorem closeEp_idxOk {s : St} (h : IdxOk s) (e : Nat) : IdxOk (closeEp s e) := by
  unfold closeEp
  split
  · exact h
  · apply IdxOk.setEp
    · exact IdxOk.of_eps h (by rw [(releaseDrain_good _ e).1, (releaseCs_good s e).1])
    · intro hr; simp [closedRecord] at hr

theorem markDead_idxOk {s : St} (h : IdxOk s) (e : Nat) : IdxOk (markDead s e) := by
  unfold markDead; exact IdxOk.setEp_same h e _ rfl rfl

theorem selfRemove_idxOk {s : St} (h : IdxOk s) (e : Nat) : IdxOk (selfRemove s e) := by
  unfold selfRemove; split
  · exact IdxOk.of_eps h rfl
  · exact h

theorem retire_idxOk {s : St} (h : IdxOk s) (e : Nat) : IdxOk (retire s e) := by
  unfold retire; exact closeEp_idxOk (selfRemove_idxOk (markDead_idxOk h e) e) e

theorem foldl_idxOk {α} (f : St → α → St) (hf : ∀ s a, IdxOk s → IdxOk (f s a)) :
    ∀ (l : List α) (s : St), IdxOk s → IdxOk (l.foldl f s) := by
  intro l; induction l with
  | nil => intro s h; exact h
  | cons a l ih => intro s h; exact ih _ (hf s a h)

theorem dropStale_idxOk {s : St} (h : IdxOk s) (k : Nat) : IdxOk (dropStale s k) := by
  unfold dropStale
  split
  · exact closeEp_idxOk (IdxOk.of_eps (s' := setPool s k none) h rfl) _
  · exact h

theorem epochCounter_idxOk {s : St} (h : IdxOk s) (d : Nat) : IdxOk (epochCounter s d).1 := by
  unfold epochCounter; split
  · exact h
  · exact IdxOk.of_eps h rfl

theorem acquireTicket_idxOk {s : St} (h : IdxOk s) (dr : Option Nat) : IdxOk (acquireTicket s dr).1 := by
  unfold acquireTicket; split
  · exact IdxOk.of_eps h rfl
  · exact h

theorem publishEp_idxOk {s : St} (h : IdxOk s) (E : Ep) (hc : E.closed = false) : IdxOk (publishEp s E) := by
  intro i
  have heps : (publishEp s E).eps i = if i = s.neps then E else s.eps i := rfl
  rw [heps]
  by_cases hi : i = s.neps
  · simp only [hi, if_true]; intro _; exact hc
  · simp only [hi, if_false]; exact h i

theorem allocEp_idxOk {s : St} (h : IdxOk s) (E : Ep) (hc : E.closed = false) : IdxOk (allocEp s E) := by
  rw [allocEp_split]
  exact publishEp_idxOk (IdxOk.of_eps (s' := countDial s) h rfl) E hc

theorem adopt_idxOk {s : St} (h : IdxOk s) (e : Nat) (o dr : Option Nat) : IdxOk (adopt s e o dr) := by
  unfold adopt
  split
  · exact h
  · have h1 : IdxOk (adoptOwner s e o) := by
      unfold adoptOwner
      cases o with
      | none => exact h
      | some o =>
        simp only
        have key : ∀ t : St, t.eps = s.eps → IdxOk (EP.setEp t e { (s.eps e) with owner := some o }) := by
          intro t c
          exact IdxOk.setEp_same (IdxOk.of_eps h c) e _ (by rw [c]) (by rw [c])
        split
        · split
          · exact key _ rfl
          · exact key _ rfl
        · exact key _ rfl
    unfold adoptDrain
    cases dr with
    | none => exact h1
    | some d =>
      simp only
      split
      · exact h1
      · have c : (releaseDrain (setDrn (adoptOwner s e o) d (Drain.step ((adoptOwner s e o).drn d) .acquire)) e).eps
            = (adoptOwner s e o).eps := by rw [(releaseDrain_good _ e).1]; rfl
        exact IdxOk.setEp_same (IdxOk.of_eps h1 c) e _ (by rw [c]) (by rw [c])

theorem refreshTtl_reg (tmin : Nat) (E : Ep) (now : Nat) : (refreshTtl tmin E now).registered = E.registered := by
  unfold refreshTtl
  split
  · rfl
  · simp only
    split <;> (split <;> rfl)

theorem preWrite_reg (tmin : Nat) (E : Ep) (now : Nat) : (preWrite tmin E now).registered = E.registered := by
  unfold preWrite; rw [refreshTtl_reg]

theorem onReply_reg (tmin : Nat) (E : Ep) (now : Nat) : (onReply tmin E now).registered = E.registered := by
  unfold onReply; split
  · rfl
  · exact refreshTtl_reg tmin E now

theorem getOrCreate_idxOk {s : St} (h : IdxOk s) (k : Nat) (sym : Bool) (nat : Nat) (o dr : Option Nat) (d : Nat)
    (out : DialOutcome) : IdxOk (getOrCreate s k sym nat o dr d out).1 := by
  unfold getOrCreate
  split
  · exact h
  · split
    · rename_i e _
      apply adopt_idxOk
      apply IdxOk.setEp_same h
      · unfold updateNatTimeout; split <;> rfl
      · unfold updateNatTimeout; split <;> rfl
    · cases out with
      | failNoAlive => exact dropStale_idxOk h k
      | failGeneric => exact allocEp_idxOk (dropStale_idxOk h k) _ (by simp [failureEntry])
      | ok =>
        exact allocEp_idxOk (acquireTicket_idxOk (epochCounter_idxOk (dropStale_idxOk h k) d) dr) _
          (by simp [createRecord, freshEp])

/-- the registration discipline: an endpoint is registered only while it is still open (the code
registers inside the critical section of the table write, before anybody else can reach it) -/
def RegOp (s : St) : Op → Prop
  | .register e => (s.eps e).closed = false
  | _ => True

instance (s : St) (op : Op) : Decidable (RegOp s op) := by
  cases op <;> unfold RegOp <;> infer_instance

theorem step_idxOk {s : St} (h : IdxOk s) (op : Op) (hw : RegOp s op) : IdxOk (step s op) := by
  cases op with
  | goc k sym nat o dr d out => exact getOrCreate_idxOk h k sym nat o dr d out
  | write e out =>
    show IdxOk (writeTo s e out).1
    unfold writeTo
    obtain ⟨a, _, _, _, _⟩ := preWrite_fields s.ttlMin (s.eps e) s.now
    have r := preWrite_reg s.ttlMin (s.eps e) s.now
    split
    · exact h
    · cases out with
      | err => exact retire_idxOk (IdxOk.setEp_same h e _ r a) e
      | ok => exact IdxOk.setEp_same h e { (preWrite s.ttlMin (s.eps e) s.now) with hasSent := true } r a
      | short => exact retire_idxOk (IdxOk.setEp_same h e { (preWrite s.ttlMin (s.eps e) s.now) with hasSent := true } r a) e
  | reply e ok =>
    show IdxOk (reply s e ok)
    unfold reply
    obtain ⟨a, _, _, _, _⟩ := onReply_fields s.ttlMin (s.eps e) s.now
    have r := onReply_reg s.ttlMin (s.eps e) s.now
    split
    · exact h
    · split
      · exact h
      · split
        · exact IdxOk.setEp_same h e _ r a
        · exact retire_idxOk (IdxOk.setEp_same h e _ r a) e
  | readErr e =>
    show IdxOk (readError s e)
    unfold readError; split
    · exact h
    · exact retire_idxOk h e
  | remove k e =>
    show IdxOk (remove s k e)
    unfold remove
    split
    · exact closeEp_idxOk (IdxOk.of_eps (s' := setPool s k none) h rfl) e
    · exact closeEp_idxOk h e
  | close e => exact closeEp_idxOk h e
  | advance dt =>
    show IdxOk (advance nkeys _ s dt)
    unfold advance
    have hj : ∀ (t : Nat) (u : St) (ke : Nat × Nat), IdxOk u → IdxOk (janitorOne t u ke) := by
      intro t u ke hu
      unfold janitorOne
      split
      · exact closeEp_idxOk (IdxOk.of_eps (s' := setPool u ke.1 none) hu rfl) _
      · exact hu
    have ht : ∀ u : St, IdxOk u → IdxOk (tickJanitor nkeys u) := by
      intro u hu
      unfold tickJanitor janitor
      exact IdxOk.of_eps (foldl_idxOk (janitorOne u.nextJanitor) (hj u.nextJanitor) _ _
        (IdxOk.of_eps (s' := { u with now := u.nextJanitor }) hu rfl)) rfl
    have hr : ∀ (fuel : Nat) (u : St), IdxOk u → IdxOk (runJanitors nkeys (s.now + dt) fuel u) := by
      intro fuel
      induction fuel with
      | zero => intro u hu; exact hu
      | succ f ih =>
        intro u hu
        simp only [runJanitors]
        split
        · exact ih _ (ht u hu)
        · exact hu
    exact IdxOk.of_eps (hr _ s h) rfl
  | invalidate d =>
    show IdxOk (invalidate s d).1
    unfold invalidate
    simp only
    apply foldl_idxOk retire (fun u e hu => retire_idxOk hu e)
    unfold invalBump
    exact IdxOk.of_eps (s' := bumpEpoch _ _) (epochCounter_idxOk h d) rfl
  | reset =>
    show IdxOk (reset nkeys s)
    unfold reset
    refine IdxOk.of_eps (s := clearIndex _) ?_ rfl
    intro e he
    simp [clearIndex] at he
  | track e j =>
    show IdxOk (track s e j)
    unfold track
    split
    · exact h
    · split
      · exact h
      · split
        · exact h
        · exact IdxOk.of_eps (IdxOk.setEp_same h e { (s.eps e) with tuples := (s.eps e).tuples ++ newTupleKeys (s.eps e) j } rfl rfl) rfl
  | invalBump d =>
    show IdxOk (invalBump s d)
    unfold invalBump
    exact IdxOk.of_eps (s' := bumpEpoch _ _) (epochCounter_idxOk h d) rfl
  | markDead e => exact markDead_idxOk h e
  | selfRemove e => exact selfRemove_idxOk h e
  | prepCreate k dr d =>
    show IdxOk (countDial (prepCreate s k dr d))
    unfold prepCreate
    exact IdxOk.of_eps (acquireTicket_idxOk (epochCounter_idxOk (dropStale_idxOk h k) d) dr) rfl
  | publish E =>
    show IdxOk (if E.closed = false ∧ E.connCloses = 0 ∧ E.tuples = [] then publishEp s E else s)
    split
    · rename_i hc; exact publishEp_idxOk h E hc.1
    · exact h
  | register e =>
    show IdxOk (register s e)
    have hs : IdxOk (setEp s e { (s.eps e) with registered := true }) := IdxOk.setEp h e _ (fun _ => hw)
    unfold register
    split
    · exact hs
    · exact retire_idxOk hs e
  | transportDone d =>
    show IdxOk (transportDone s d)
    unfold transportDone
    exact IdxOk.of_eps (foldl_idxOk retire (fun u e hu => retire_idxOk hu e) _ _ h) rfl

/-- every registration in the history happens while the endpoint is open -/
def RegRun : St → List Op → Prop
  | _, [] => True
  | s, op :: ops => RegOp s op ∧ RegRun (step s op) ops

instance : ∀ (ops : List Op) (s : St), Decidable (RegRun s ops)
  | [], _ => by unfold RegRun; infer_instance
  | op :: ops, s => by
    unfold RegRun
    have := instDecidableRegRun ops (step s op)
    infer_instance

theorem run_idxOk : ∀ (ops : List Op) (s : St), IdxOk s → RegRun s ops → IdxOk (run s ops) := by
  intro ops
  induction ops with
  | nil => intro s h _; exact h
  | cons op ops ih => intro s h hw; exact ih _ (step_idxOk h op hw.1) hw.2

/-- after retiring a list of endpoints each of them is dead and closed -/
theorem foldl_retire_mem : ∀ (l : List Nat) (s : St) (e : Nat), e ∈ l → e < s.neps →
    ((l.foldl retire s).eps e).dead = true ∧ ((l.foldl retire s).eps e).closed = true := by
  intro l
  induction l with
  | nil => intro s e h; cases h
  | cons a l ih =>
    intro s e hm he
    simp only [List.foldl_cons]
    by_cases hea : e = a
    · subst hea
      have sp := retire_spec s e
      have hn : e < (retire s e).neps := Nat.lt_of_lt_of_le he (retire_good s e).2.1
      have lt := ((foldl_good retire retire_good l (retire s e)).2.2 e hn)
      exact ⟨lt.1 sp.1, lt.2.1 sp.2.1⟩
    · have hm' : e ∈ l := by
        cases hm with
        | head => exact absurd rfl hea
        | tail _ h => exact h
      exact ih (retire s a) e hm' (Nat.lt_of_lt_of_le he (retire_good s a).2.1)

theorem mem_tvictims {s : St} {d e : Nat} (h : e ∈ tvictims s d) :
    e < s.neps ∧ (s.eps e).registered = true ∧ (s.eps e).transport = transportId s d := by
  unfold tvictims at h
  simp only [List.mem_filter, List.mem_range, Bool.and_eq_true, beq_iff_eq] at h
  exact ⟨h.1, h.2.1, h.2.2⟩

/-- the end of a transport: every registered endpoint riding on it is dead, closed and out of the table -/
theorem transportDone_spec {s : St} (hP : PoolOk s) (d e : Nat) (he : e < s.neps)
    (hr : (s.eps e).registered = true) (ht : (s.eps e).transport = transportId s d) :
    ((transportDone s d).eps e).dead = true ∧ ((transportDone s d).eps e).closed = true ∧
    ∀ k, (transportDone s d).pool k ≠ some e := by
  have hm : e ∈ tvictims s d := by
    unfold tvictims
    simp only [List.mem_filter, List.mem_range, Bool.and_eq_true, beq_iff_eq]
    exact ⟨he, hr, ht⟩
  have h1 := foldl_retire_mem (tvictims s d) s e hm he
  have hP' : PoolOk ((tvictims s d).foldl retire s) := foldl_poolOk retire (fun u e hu => retire_poolOk hu e) _ _ hP
  refine ⟨h1.1, h1.2, ?_⟩
  intro k hk
  have := (hP' k e hk).2.2
  rw [h1.2] at this; cases this

end DaeVerif.C13.EP
