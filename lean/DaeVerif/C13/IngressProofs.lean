import DaeVerif.C13.Ingress
import DaeVerif.C13.TQStep
/-!
# C13 — ingress: one reader in front of the task queues (proofs)

`Sys` is a restriction of `TQ` (every `Sys` step is a `TQ` step), so every `TQ` theorem holds for it; on top
of that the reader being ONE goroutine makes `TQ`'s acceptance order the arrival order.
-/
namespace DaeVerif.C13.Ingress.Sys
open TQ

/-! ### what one step of a thread does to the producers and the acceptance log -/

theorem stepConv_frame {cfg : Cfg} {s s' : TQ.St} {q : Nat} {sel : Sel}
    (h : stepConv cfg s q sel = some s') :
    s'.np = s.np ∧ s'.prods = s.prods ∧ s'.accepted = s.accepted := by
  unfold stepConv at h
  by_cases hq : q < s.nq
  · simp only [hq, if_true] at h
    cases hc : (s.qs q).cpc <;> simp only [hc] at h
    all_goals (try cases sel)
    all_goals (repeat' split at h)
    all_goals first
      | (cases h; done)
      | (injection h with h; subst h; simp [setCpc])
  · simp [hq] at h

theorem enqueue_frame (cfg : Cfg) (s : TQ.St) (q t : Nat) :
    (enqueue cfg s q t).np = s.np ∧ (enqueue cfg s q t).prods = s.prods ∧
    (enqueue cfg s q t).accepted = s.accepted := by
  unfold enqueue
  simp only []
  split
  · simp
  · split <;> simp

/-- a producer step other than `enqueue` leaves the acceptance log alone and does not cross the
enqueue point; the `enqueue` step appends the producer to its flow's log -/
theorem stepProd_frame {cfg : Cfg} {s s' : TQ.St} {p : Nat} {c : Option Nat}
    (h : stepProd cfg s p c = some s') :
    p < s.np ∧ s'.np = s.np ∧ (∀ i, i ≠ p → s'.prods i = s.prods i) ∧ (s'.prods p).key = (s.prods p).key ∧
    ((∀ q, (s.prods p).pc ≠ .enq q) → s'.accepted = s.accepted ∧
        enqueuedB (s'.prods p).pc = enqueuedB (s.prods p).pc) ∧
    (∀ q, (s.prods p).pc = .enq q →
        (∀ k, s'.accepted k = if k = (s.prods p).key then s.accepted k ++ [p] else s.accepted k) ∧
        enqueuedB (s.prods p).pc = false ∧ enqueuedB (s'.prods p).pc = true) := by
  unfold stepProd at h
  by_cases hp : p < s.np
  · simp only [hp, if_true] at h
    refine ⟨hp, ?_⟩
    cases hpc : (s.prods p).pc <;> simp only [hpc] at h
    case enq q =>
      injection h with h; subst h
      obtain ⟨e1, e2, e3⟩ := enqueue_frame cfg s q p
      refine ⟨by simp [e1], ?_, by simp [e2], ?_, ?_⟩
      · intro i hi; simp [hi, e2]
      · intro hne; exact absurd rfl (hne q)
      · intro q' _; refine ⟨?_, by simp [enqueuedB], by simp [enqueuedB]⟩
        intro k; simp only [setPc_accepted, logAccept_accepted, e3]
        by_cases hk : k = (s.prods p).key <;> simp [hk]
    all_goals (try cases c)
    all_goals (repeat' split at h)
    all_goals first
      | (cases h; done)
      | (injection h with h; subst h
         refine ⟨by simp [setRefs], ?_, by simp [setRefs], ?_, ?_⟩
         · intro i hi; simp [setRefs, hi]
         · intro _; simp [setRefs, enqueuedB]
         · intro q hq; simp_all)
  · simp [hp] at h

/-! ### the invariant of the composed system -/

structure J (s : St) : Prop where
  len : s.arrivals.length = s.tq.np
  key : ∀ p, p < s.tq.np → s.arrivals[p]? = some (s.tq.prods p).key
  /-- one reader: every `EmitTask` call but the last has returned -/
  seq : ∀ p, p + 1 < s.tq.np → (s.tq.prods p).pc = .done
  /-- the acceptance log of flow `k` = the ordered datagrams of `k` in arrival order (those whose
  `enqueue` has run) -/
  acc : ∀ k, s.tq.accepted k = idsUpTo s.arrivals k (enqCount s.tq)

theorem j_init : J init := by
  constructor <;> simp [init, TQ.init, idsUpTo, enqCount]

theorem idsUpTo_succ (arr : List Nat) (k n : Nat) :
    idsUpTo arr k (n + 1) = idsUpTo arr k n ++ (if arr[n]? == some k then [n] else []) := by
  unfold idsUpTo
  rw [List.range_succ, List.filter_append]
  simp only [List.filter_cons, List.filter_nil]

theorem idsUpTo_append (arr : List Nat) (x k n : Nat) (hn : n ≤ arr.length) :
    idsUpTo (arr ++ [x]) k n = idsUpTo arr k n := by
  unfold idsUpTo
  apply List.filter_congr
  intro i hi
  have : i < arr.length := by
    have := List.mem_range.mp hi; omega
  simp [List.getElem?_append_left this]

theorem j_step {cfg : Cfg} {s s' : St} (a : Act) (h : J s) (hs : step cfg s a = some s') : J s' := by
  cases a with
  | arrive k =>
    simp only [step] at hs
    by_cases hi : readerIdle s.tq = true
    · simp only [hi, if_true] at hs; injection hs with hs; subst hs
      have hidle : s.tq.np = 0 ∨ (s.tq.prods (s.tq.np - 1)).pc = .done := by
        simpa [readerIdle] using hi
      refine ⟨by simp [h.len], ?_, ?_, ?_⟩
      · intro p hp
        simp only [addProd_np] at hp
        simp only [addProd_prods]
        by_cases hpn : p = s.tq.np
        · subst hpn; simp [← h.len]
        · have hlt : p < s.tq.np := by omega
          have hl : p < s.arrivals.length := by rw [h.len]; exact hlt
          simp only [hpn, if_false]
          rw [List.getElem?_append_left hl]; exact h.key p hlt
      · intro p hp
        simp only [addProd_np] at hp
        simp only [addProd_prods]
        have hpn : p ≠ s.tq.np := by omega
        simp only [hpn, if_false]
        by_cases hl : p + 1 < s.tq.np
        · exact h.seq p hl
        · have : p = s.tq.np - 1 := by omega
          subst this
          rcases hidle with h0 | hd
          · omega
          · exact hd
      · intro k'
        have he : enqCount (addProd s.tq k) = s.tq.np := by
          simp [enqCount, enqueuedB]
        have he' : enqCount s.tq = s.tq.np := by
          unfold enqCount
          rcases hidle with h0 | hd
          · simp [h0]
          · by_cases h0 : s.tq.np = 0
            · simp [h0]
            · simp [h0, hd, enqueuedB]
        rw [he, addProd_accepted, h.acc k', he', idsUpTo_append _ _ _ _ (by rw [h.len]; exact Nat.le_refl _)]
    · simp [hi] at hs
  | reader c =>
    simp only [step] at hs
    by_cases h0 : s.tq.np = 0
    · simp [h0] at hs
    · simp only [h0, if_false] at hs
      cases hst : stepProd cfg s.tq (s.tq.np - 1) c with
      | none => simp [hst] at hs
      | some t =>
        simp only [hst] at hs; injection hs with hs; subst hs
        obtain ⟨hp, hnp, hoth, hkey, hne, henq⟩ := stepProd_frame hst
        refine ⟨by simp only [hnp]; exact h.len, ?_, ?_, ?_⟩
        · intro p hp'
          rw [hnp] at hp'
          by_cases hpl : p = s.tq.np - 1
          · subst hpl; rw [hkey]; exact h.key _ hp'
          · rw [hoth p hpl]; exact h.key p hp'
        · intro p hp'
          rw [hnp] at hp'
          have hpl : p ≠ s.tq.np - 1 := by omega
          rw [hoth p hpl]; exact h.seq p hp'
        · intro k
          by_cases hq : ∃ q, (s.tq.prods (s.tq.np - 1)).pc = .enq q
          · obtain ⟨q, hq⟩ := hq
            obtain ⟨hacc, hb0, hb1⟩ := henq q hq
            obtain ⟨m, hm⟩ := Nat.exists_eq_succ_of_ne_zero h0
            have hm1 : s.tq.np - 1 = m := by omega
            rw [hm1] at hacc hb0 hb1 hp
            have e1 : enqCount t = m + 1 := by
              unfold enqCount; rw [hnp, hm1]; simp [h0, hb1, hm]
            have e0 : enqCount s.tq = m := by
              unfold enqCount; rw [hm1]; simp [h0, hb0, hm]
            show t.accepted k = idsUpTo s.arrivals k (enqCount t)
            have hacc0 := h.acc k
            rw [e0] at hacc0
            rw [hacc k, e1, idsUpTo_succ, ← hacc0, h.key m hp]
            by_cases hk : k = (s.tq.prods m).key
            · subst hk; simp
            · have : ((some (s.tq.prods m).key : Option Nat) == some k) = false := by
                simp; exact fun h => hk h.symm
              simp [hk, this]
          · have hq' : ∀ q, (s.tq.prods (s.tq.np - 1)).pc ≠ .enq q := fun q hq' => hq ⟨q, hq'⟩
            obtain ⟨hacc, hb⟩ := hne hq'
            have e : enqCount t = enqCount s.tq := by
              unfold enqCount; rw [hnp, hb]
            show t.accepted k = idsUpTo s.arrivals k (enqCount t)
            rw [hacc, e]; exact h.acc k
  | conv q sel =>
    simp only [step] at hs
    cases hst : stepConv cfg s.tq q sel with
    | none => simp [hst] at hs
    | some t =>
      simp only [hst] at hs; injection hs with hs; subst hs
      obtain ⟨hnp, hpr, hacc⟩ := stepConv_frame hst
      have e : enqCount t = enqCount s.tq := by unfold enqCount; rw [hnp, hpr]
      exact ⟨by simp only [hnp]; exact h.len, by intro p hp; rw [hnp] at hp; rw [hpr]; exact h.key p hp,
        by intro p hp; rw [hnp] at hp; rw [hpr]; exact h.seq p hp,
        by intro k; show t.accepted k = idsUpTo s.arrivals k (enqCount t); rw [hacc, e]; exact h.acc k⟩

theorem j_reachable {cfg : Cfg} {s : St} (hr : Reachable cfg s) : J s := by
  induction hr with
  | init => exact j_init
  | step a _ hs ih => exact j_step a ih hs

/-- every state of the composed system is a state of the task-queue system (`Sys` only restricts who may
start an `EmitTask` call and when) -/
theorem tq_reachable {cfg : Cfg} {s : St} (hr : Reachable cfg s) : TQ.Reachable cfg s.tq := by
  induction hr with
  | init => exact TQ.Reachable.init
  | step a _ hs ih =>
    cases a with
    | arrive k =>
      simp only [step] at hs
      split at hs
      · injection hs with hs; subst hs
        exact TQ.Reachable.step (.spawn k) ih rfl
      · cases hs
    | reader c =>
      simp only [step] at hs
      split at hs
      · cases hs
      · split at hs
        · rename_i t ht
          injection hs with hs; subst hs
          exact TQ.Reachable.step (.prod _ c) ih ht
        · cases hs
    | conv q sel =>
      simp only [step] at hs
      split at hs
      · rename_i t ht
        injection hs with hs; subst hs
        exact TQ.Reachable.step (.conv q sel) ih ht
      · cases hs

end DaeVerif.C13.Ingress.Sys

namespace DaeVerif.C13.Ingress.Spec

theorem idsOf_spec (direct : List (Nat × Nat)) (key : Keys.AP × Keys.AP) :
    ∀ (ds : List Dgram) (n : Nat),
      (idsOf direct key ds n).Pairwise (· < ·) ∧
      ∀ i, i ∈ idsOf direct key ds n ↔
        n ≤ i ∧ ∃ d, ds[i - n]? = some d ∧ ordered direct d = true ∧ flowKey d = key := by
  intro ds
  induction ds with
  | nil => intro n; simp [idsOf]
  | cons d ds ih =>
    intro n
    obtain ⟨ihp, ihm⟩ := ih (n + 1)
    have tail : ∀ i, i ∈ idsOf direct key ds (n + 1) ↔
        n + 1 ≤ i ∧ ∃ d', (d :: ds)[i - n]? = some d' ∧ ordered direct d' = true ∧ flowKey d' = key := by
      intro i
      rw [ihm i]
      constructor
      · rintro ⟨hle, d', hd, ho, hk⟩
        refine ⟨hle, d', ?_, ho, hk⟩
        have : i - n = (i - (n + 1)) + 1 := by omega
        rw [this, List.getElem?_cons_succ]; exact hd
      · rintro ⟨hle, d', hd, ho, hk⟩
        refine ⟨hle, d', ?_, ho, hk⟩
        have : i - n = (i - (n + 1)) + 1 := by omega
        rw [this, List.getElem?_cons_succ] at hd; exact hd
    unfold idsOf
    by_cases hc : (ordered direct d && decide (flowKey d = key)) = true
    · simp only [hc, if_true]
      have hc' : ordered direct d = true ∧ flowKey d = key := by simpa using hc
      refine ⟨?_, ?_⟩
      · rw [List.pairwise_cons]
        exact ⟨fun j hj => by have := ((ihm j).mp hj).1; omega, ihp⟩
      · intro i
        rw [List.mem_cons, tail i]
        constructor
        · rintro (rfl | ⟨hle, h⟩)
          · exact ⟨Nat.le_refl _, d, by simp, hc'.1, hc'.2⟩
          · exact ⟨by omega, h⟩
        · rintro ⟨hle, d', hd, ho, hk⟩
          by_cases hin : i = n
          · left; exact hin
          · right; exact ⟨by omega, d', hd, ho, hk⟩
    · simp only [hc, Bool.false_eq_true, if_false]
      refine ⟨ihp, ?_⟩
      intro i
      rw [tail i]
      constructor
      · rintro ⟨hle, h⟩; exact ⟨by omega, h⟩
      · rintro ⟨hle, d', hd, ho, hk⟩
        by_cases hin : i = n
        · subst hin
          simp at hd; subst hd
          exfalso; apply hc; simp [ho, hk]
        · exact ⟨by omega, d', hd, ho, hk⟩

theorem flowOrder_spec (direct : List (Nat × Nat)) (s : St) (key : Keys.AP × Keys.AP) :
    (flowOrder direct s key).Pairwise (· < ·) ∧
    ∀ i, i ∈ flowOrder direct s key ↔
      ∃ d, s.arrived[i]? = some d ∧ ordered direct d = true ∧ flowKey d = key := by
  obtain ⟨hp, hm⟩ := idsOf_spec direct key s.arrived 0
  refine ⟨hp, ?_⟩
  intro i
  unfold flowOrder
  rw [hm i]
  simp

end DaeVerif.C13.Ingress.Spec
