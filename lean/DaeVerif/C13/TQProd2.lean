import DaeVerif.C13.TQProd
/-! C13 (a) — invariant preservation: producer steps that touch the pool, the table or a queue -/
namespace DaeVerif.C13.TQ

/-- `queueChPool.Get()` hands out a recycled channel -/
theorem inv_takeChan {s : St} (h : Inv s) (p : Nat) (hp : p < s.np) (hpc : (s.prods p).pc = .create)
    (c : Nat) (hc : c ∈ s.pool) :
    Inv (setPc (setPool s (s.pool.erase c)) p (.los c)) := by
  have g := h.g
  have hsub : ∀ x, x ∈ s.pool.erase c → x ∈ s.pool := fun x hx => List.mem_of_mem_erase hx
  have hcnot : c ∉ s.pool.erase c := by
    intro hin
    exact (List.Nodup.mem_erase_iff g.pool_nodup).mp hin |>.1 rfl
  refine ⟨?_, ?_, ?_⟩
  · intro q hq
    have hq' : q < s.nq := hq
    apply (h.q q hq').frame
    · rfl
    · exact Nat.le_refl _
    · exact Iff.rfl
    · intro _ hin; exact hsub _ hin
    · have := holders_upd s (setPc (setPool s (s.pool.erase c)) p (.los c)) p q hp rfl
        (by intro i hi; simp [hi])
      simpa [hpc] using this
    · intro _; rfl
  · intro i hi
    have hi' : i < s.np := hi
    by_cases hip : i = p
    · subst hip
      constructor
      · intro q hq; simp [PcQ] at hq
      · intro c' hc'
        simp [PcC] at hc'; subst hc'
        refine ⟨g.pool_lt _ hc, hcnot, g.pool_empty _ hc, ?_⟩
        intro q hq he heq
        have hq0 : q < s.nq := hq
        have := (h.q q hq0).ch_pool he
        simp at heq; rw [heq] at this; exact this hc
      · intro q hq; simp at hq
      · intro q r hcc; simp at hcc
      · intro q hq; simp at hq
    · apply PInv.frame (h.p i hi')
      · simp [hip]
      · exact Nat.le_refl _
      · intro q _; rfl
      · exact Nat.le_refl _
      · intro c' _ hin; exact hsub _ hin
      · intro c' _; rfl
      · intro c' _ q hq he heq; exact ⟨hq, he, heq⟩
      · intro q _; rfl
      · intro q _ hr; exact hr
  · apply g.frame
    · rfl
    · intro k q hm; exact hm
    · intro q; rfl
    · intro q; rfl
    · intro q he; exact he
    · refine pool_lt_of g ?_ ?_
      · exact Nat.le_refl _
      · exact hsub
    · exact g.pool_nodup.erase c
    · refine pool_empty_of g ?_ ?_
      · exact hsub
      · intro _ _; rfl
    · intro i i' hi hi' c' hc1 hc2
      have hi0 : i < s.np := hi
      have hi0' : i' < s.np := hi'
      simp only [setPc_prods] at hc1 hc2
      by_cases hip : i = p
      · by_cases hip' : i' = p
        · rw [hip, hip']
        · subst hip
          simp [PcC] at hc1; subst hc1
          simp [hip'] at hc2
          exact absurd hc ((h.p i' hi0').pc_c _ hc2).2.1
      · by_cases hip' : i' = p
        · subst hip'
          simp [PcC] at hc2; subst hc2
          simp [hip] at hc1
          exact absurd hc ((h.p i hi0).pc_c _ hc1).2.1
        · simp [hip] at hc1; simp [hip'] at hc2
          exact g.held_uniq i i' hi0 hi0' c' hc1 hc2
    · refine addref_uniq_of g ?_ ?_
      · rfl
      intro i q hi hq
      simp only [setPc_prods] at hq
      by_cases hip : i = p
      · subst hip; simp at hq
      · simpa [hip] using hq
    · refine main_frame g ?_ ?_ ?_
      · rfl
      · rfl
      intro k
      refine pending_frame ?_ ?_
      · rfl
      intro q _; exact ⟨rfl, rfl⟩
    · refine acc_frame g ?_ ?_ ?_ ?_
      · rfl
      · exact Nat.le_refl _
      · intro t _; simp only [setPc_prods]; by_cases htp : t = p
        · subst htp; simp
        · simp [htp]
      · intro t _ hE; simp only [setPc_prods]; by_cases htp : t = p
        · subst htp; rw [hpc] at hE; exact absurd hE (by simp [Enqueued])
        · simpa [htp] using hE
    · exact g.acc_nodup

/-- `LoadOrStore` found an existing queue: the private channel goes back to the pool -/
theorem inv_putBack {s : St} (h : Inv s) (p : Nat) (hp : p < s.np) (c q : Nat)
    (hpc : (s.prods p).pc = .putBack c q) :
    Inv (setPc (setPool s (s.pool ++ [c])) p (.slowRead q)) := by
  have g := h.g
  have hP := h.p p hp
  obtain ⟨hc1, hc2, hc3, hc4⟩ := hP.pc_c c (by rw [hpc]; simp [PcC])
  have hPq := hP.pc_q q (by rw [hpc]; simp [PcQ])
  refine ⟨?_, ?_, ?_⟩
  · intro q' hq'
    have hq0 : q' < s.nq := hq'
    apply (h.q q' hq0).frame
    · rfl
    · exact Nat.le_refl _
    · exact Iff.rfl
    · intro he hin
      simp at hin
      cases hin with
      | inl h1 => exact h1
      | inr h1 => exact absurd h1 (hc4 q' hq0 he)
    · have := holders_upd s (setPc (setPool s (s.pool ++ [c])) p (.slowRead q)) p q' hp rfl
        (by intro i hi; simp [hi])
      simpa [hpc] using this
    · intro _; rfl
  · intro i hi
    have hi' : i < s.np := hi
    by_cases hip : i = p
    · subst hip
      constructor
      · intro q' hq'; simp [PcQ] at hq'; subst hq'; simpa using hPq
      · intro c' hc'; simp [PcC] at hc'
      · intro q' hq'; simp at hq'
      · intro q' r hcc; simp at hcc
      · intro q' hq'; simp at hq'
    · apply PInv.frame (h.p i hi')
      · simp [hip]
      · exact Nat.le_refl _
      · intro q' _; rfl
      · exact Nat.le_refl _
      · intro c' hc' hin
        simp at hin
        cases hin with
        | inl h1 => exact h1
        | inr h1 =>
          subst h1
          exact absurd (g.held_uniq i p hi' hp c' hc' (by rw [hpc]; simp [PcC])) hip
      · intro c' _; rfl
      · intro c' _ q' hq' he heq; exact ⟨hq', he, heq⟩
      · intro q' _; rfl
      · intro q' _ hr; exact hr
  · apply g.frame
    · rfl
    · intro k q' hm; exact hm
    · intro q'; rfl
    · intro q'; rfl
    · intro q' he; exact he
    · intro x hx
      simp at hx
      cases hx with
      | inl h1 => exact g.pool_lt x h1
      | inr h1 => subst h1; exact hc1
    · show (s.pool ++ [c]).Nodup
      rw [List.nodup_append]
      refine ⟨g.pool_nodup, by simp, ?_⟩
      intro a ha b hb
      simp at hb; subst hb
      intro hab; subst hab; exact hc2 ha
    · intro x hx
      simp at hx
      cases hx with
      | inl h1 => exact g.pool_empty x h1
      | inr h1 => subst h1; exact hc3
    · refine held_uniq_of g ?_ ?_
      · rfl
      intro i c' hi hcc
      simp only [setPc_prods] at hcc
      by_cases hip : i = p
      · subst hip; simp [PcC] at hcc
      · simpa [hip] using hcc
    · refine addref_uniq_of g ?_ ?_
      · rfl
      intro i q' hi hq
      simp only [setPc_prods] at hq
      by_cases hip : i = p
      · subst hip; simp at hq
      · simpa [hip] using hq
    · refine main_frame g ?_ ?_ ?_
      · rfl
      · rfl
      intro k
      refine pending_frame ?_ ?_
      · rfl
      intro q' _; exact ⟨rfl, rfl⟩
    · refine acc_frame g ?_ ?_ ?_ ?_
      · rfl
      · exact Nat.le_refl _
      · intro t _; simp only [setPc_prods]; by_cases htp : t = p
        · subst htp; simp
        · simp [htp]
      · intro t _ hE; simp only [setPc_prods]; by_cases htp : t = p
        · subst htp; rw [hpc] at hE; exact absurd hE (by simp [Enqueued])
        · simpa [htp] using hE
    · exact g.acc_nodup

end DaeVerif.C13.TQ
