/-!
# C13 (c) — drain tickets (`control/control_plane_drain.go`)

`controlPlaneDrainTracker` counts the sessions (one ticket per live UDP endpoint or accepted TCP
connection) that keep a retired generation alive.  `Acquire` returns a release closure guarded by
a `sync.Once`; `IdleCh()` is closed exactly while no ticket is outstanding.  Everything runs under
one mutex, so each method is one atomic step.  Core Lean only.
-/
namespace DaeVerif.C13.Drain

structure St where
  active : Nat
  /-- the current `idleCh` is closed -/
  idleClosed : Bool
  /-- how many times a fresh `idleCh` was made (a waiter holding an older channel sees it closed) -/
  gen : Nat
  /-- per ticket (in order of `Acquire`): has its `sync.Once` fired -/
  released : List Bool
  deriving DecidableEq, Repr

/-- `newControlPlaneDrainTracker()` -/
def init : St := { active := 0, idleClosed := true, gen := 0, released := [] }

inductive Op
  | acquire
  | release (i : Nat)     -- call the closure returned by the `i`-th `Acquire`
  deriving DecidableEq, Repr

def acquire (s : St) : St :=
  { active := s.active + 1,
    idleClosed := if s.active = 0 then false else s.idleClosed,
    gen := if s.active = 0 then s.gen + 1 else s.gen,
    released := s.released ++ [false] }

def release (s : St) (i : Nat) : St :=
  match s.released[i]? with
  | none => s                       -- no such ticket
  | some true => s                  -- `once.Do` already ran
  | some false =>
    let s1 := { s with released := s.released.set i true }
    if s1.active = 0 then s1        -- the defensive `if t.active == 0 { return }`
    else
      { s1 with active := s1.active - 1, idleClosed := if s1.active - 1 = 0 then true else s1.idleClosed }

def step (s : St) : Op → St
  | .acquire => acquire s
  | .release i => release s i

def run : St → List Op → St
  | s, [] => s
  | s, op :: ops => run (step s op) ops

def cntFalse : List Bool → Nat
  | [] => 0
  | b :: bs => (if b then 0 else 1) + cntFalse bs

/-- number of tickets whose closure has not run yet -/
def outstanding (s : St) : Nat := cntFalse s.released

end DaeVerif.C13.Drain
