import DaeVerif.C13.Drain
namespace DaeVerif.C13.Drain

def Inv (s : St) : Prop := s.active = outstanding s ∧ (s.idleClosed = true ↔ s.active = 0)

theorem inv_init : Inv init := by simp [Inv, init, outstanding, cntFalse]

theorem cntFalse_append_false : ∀ (l : List Bool), cntFalse (l ++ [false]) = cntFalse l + 1 := by
  intro l
  induction l with
  | nil => simp [cntFalse]
  | cons b l ih => simp [cntFalse, ih]; omega

theorem cntFalse_set_true : ∀ (l : List Bool) (i : Nat), l[i]? = some false →
    cntFalse (l.set i true) + 1 = cntFalse l := by
  intro l
  induction l with
  | nil => intro i h; simp at h
  | cons b l ih =>
    intro i h
    cases i with
    | zero =>
      simp at h; subst h; simp [List.set, cntFalse]; omega
    | succ n =>
      simp at h
      have := ih n h
      simp [List.set, cntFalse]; omega

theorem step_inv {s : St} (h : Inv s) (op : Op) : Inv (step s op) := by
  obtain ⟨h1, h2⟩ := h
  cases op with
  | acquire =>
    simp only [step, acquire, Inv, outstanding]
    refine ⟨by rw [cntFalse_append_false]; simp [outstanding] at h1; omega, ?_⟩
    by_cases h0 : s.active = 0
    · simp [h0]
    · have : s.idleClosed = false := by
        cases hc : s.idleClosed
        · rfl
        · exact absurd (h2.mp hc) h0
      simp [h0, this]
  | release i =>
    simp only [step, release]
    split
    · exact ⟨h1, h2⟩
    · exact ⟨h1, h2⟩
    · rename_i hi
      have hset := cntFalse_set_true s.released i hi
      simp only [outstanding] at h1
      by_cases h0 : s.active = 0
      · exfalso; omega
      · simp only [h0, if_false, Inv, outstanding]
        refine ⟨by omega, ?_⟩
        by_cases h1' : s.active - 1 = 0
        · simp [h1']
        · have : s.idleClosed = false := by
            cases hc : s.idleClosed
            · rfl
            · exact absurd (h2.mp hc) h0
          simp [h1', this]

theorem run_inv : ∀ (ops : List Op) (s : St), Inv s → Inv (run s ops) := by
  intro ops
  induction ops with
  | nil => intro s h; exact h
  | cons op ops ih => intro s h; exact ih _ (step_inv h op)

end DaeVerif.C13.Drain
