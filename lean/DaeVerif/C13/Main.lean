import DaeVerif.C13.Model
import DaeVerif.Common.Proto
/-! Line-protocol driver for C13 (op grammar: harness/overlay/control/c13_test.go). -/
open DaeVerif DaeVerif.Proto DaeVerif.C13

def natList? (tok : String) : Option (List Nat) :=
  if tok = "-" then some [] else (tok.splitOn ",").mapM String.toNat?

def joinNat (l : List Nat) : String := if l.isEmpty then "-" else ",".intercalate (l.map toString)

/-! ## tracker -/
namespace TrkDrv
open Tracker

def keysShown : List Nat := List.range 12

def digest (s : St) : String :=
  let ents := keysShown.filterMap fun k =>
    match s.ent k with
    | some e => some s!"{k}:{e.refs}:{boolStr e.deleting}"
    | none => none
  let e := if ents.isEmpty then "-" else ",".intercalate ents
  s!"e={e} blocked={s.waiting.length}"

/-- after a `finalize` the harness lets every woken goroutine re-run its loop before the next
operation; the driver does the same (order is irrelevant, see `Props`). -/
def resumeAll (fuel : Nat) (s : St) : St :=
  match fuel with
  | 0 => s
  | fuel + 1 =>
    match s.waiting.findIdx? (·.woken) with
    | some i => resumeAll fuel (step s (.resume i)).1
    | none => s

end TrkDrv

/-! ## task queues -/
namespace TqDrv
open TQ

def ppcName : PPC → String
  | .start => "emit.start"
  | .fastRead _ => "acquire.beforeLoadRefs"
  | .fastCas _ _ => "acquire.betweenLoadAndCAS"
  | .create => "acquire.createNew"
  | .los _ => "acquire.beforeLoadOrStore"
  | .putBack _ _ => "acquire.putBack"
  | .slowRead _ => "acquire.slowBeforeLoadRefs"
  | .slowCas _ _ => "acquire.slowBetweenLoadAndCAS"
  | .slowDel _ => "acquire.beforeCompareAndDelete"
  | .addRef _ => "acquire.afterStoreBeforeAddRef"
  | .enq _ => "emit.beforeEnqueue"
  | .rel _ => "emit.afterEnqueue"
  | .done => "emit.return"

def cpcName : CPC → String
  | .idle => "convoy.notStarted"
  | .top => "convoy.loopTop"
  | .popOvf => "convoy.betweenChanPollAndOverflowPop"
  | .exec t => s!"task.running:{t}"
  | .wait => "convoy.select"
  | .chk1 => "convoy.timerFired"
  | .chk2 => "convoy.chk2"
  | .chk3 => "convoy.chk3"
  | .claim => "convoy.afterEmptyCheck"
  | .del => "convoy.afterClaimCAS"
  | .recycle => "convoy.beforeRecycle"
  | .loadChk => "convoy.loadCheck"
  | .restore => "convoy.restore"
  | .exited => "convoy.exit"

def ppcQueue : PPC → Option QId
  | .fastRead q | .fastCas q _ | .putBack _ q | .slowRead q | .slowCas q _ | .slowDel q
  | .addRef q | .enq q | .rel q => some q
  | _ => none

/-- producers park at every pc except the ones without a yield point -/
def ppcParks : PPC → Bool
  | .create | .putBack _ _ => false
  | _ => true

def qDigest (s : St) (q : QId) : String :=
  let Q := s.qs q
  let inmap := decide (s.map Q.key = some q)
  let refs := if Q.refs < 0 then "claimed" else toString Q.refs
  s!"refs={refs} ch={(s.chans Q.ch).length} ovf={Q.ovf.length} mode={boolStr Q.ovfMode} inmap={boolStr inmap}"

def prodLine (s : St) (p : PId) : String :=
  let pc := (s.prods p).pc
  let d := match pc with
    | .los c => s!" chan={c}"
    | _ => ""
  s!"at={ppcName pc}{d}"

def convLine (s : St) (q : QId) : String := s!"at={cpcName (s.qs q).cpc}"

/-- run producer p from its park to its next park -/
def runProd (cfg : Cfg) (fuel : Nat) (s : St) (p : PId) (c : Option ChId) : Option St :=
  match fuel with
  | 0 => some s
  | fuel + 1 =>
    match stepProd cfg s p c with
    | none => none
    | some s' => if ppcParks (s'.prods p).pc then some s' else runProd cfg fuel s' p c

/-- convoy pcs that have no yield point: the goroutine runs through them -/
def cpcRunsThrough (prev : CPC) : CPC → Bool
  | .chk2 | .chk3 | .loadChk | .restore => true
  | .recycle => prev == .loadChk
  | _ => false

def runConv (cfg : Cfg) (fuel : Nat) (s : St) (q : QId) (sel : Sel) : Option St :=
  match fuel with
  | 0 => some s
  | fuel + 1 =>
    let prev := (s.qs q).cpc
    match stepConv cfg s q sel with
    | none => none
    | some s' => if cpcRunsThrough prev (s'.qs q).cpc then runConv cfg fuel s' q sel else some s'

def mapLine (s : St) : String :=
  let es := (List.range 16).filterMap fun k => match s.map k with
    | some q => some s!"{k}:q{q}" | none => none
  if es.isEmpty then "map=-" else "map=" ++ ",".intercalate es

end TqDrv

/-! ## endpoint pool -/
namespace EpDrv
open EP

def nkeys : Nat := 6
def ms (n : Nat) : Nat := n * 1000000

def optTok? (tok : String) : Option (Option Nat) :=
  if tok = "-" then some none else tok.toNat?.map some

def epLine (s : St) (e : Nat) : String :=
  let E := s.eps e
  let x := if E.expiresAt ≤ 1 then toString E.expiresAt else toString (E.expiresAt / 1000000) ++ "ms"
  let tup := (E.tuples.toArray.qsort (· < ·)).toList
  -- expiry, NAT timeout and the traffic flags matter only while somebody can still reach the endpoint
  -- (it is in the table, or it is an open endpoint a holder may write to)
  let visible := s.pool E.key == some e || (!E.failed && !E.closed)
  if visible then
    s!"{e}:f{boolStr E.failed}d{boolStr E.dead}c{E.connCloses}x{x}s{boolStr E.hasSent}r{boolStr E.hasReply}n{E.natTimeout / 1000000}t{joinNat tup}"
  else
    s!"{e}:f{boolStr E.failed}d{boolStr E.dead}c{E.connCloses}t{joinNat tup}"

/-- digest without times (for replays that run on the real clock) -/
def digestNoTime (s : St) : String :=
  let pool := (List.range nkeys).filterMap fun k => (s.pool k).map fun e => s!"{k}:{e}"
  let p := if pool.isEmpty then "-" else ",".intercalate pool
  let eps := (List.range s.neps).map fun e =>
    let E := s.eps e
    s!"{e}:f{boolStr E.failed}d{boolStr E.dead}c{E.connCloses}s{boolStr E.hasSent}r{boolStr E.hasReply}"
  let e := if eps.isEmpty then "-" else " ".intercalate eps
  s!"pool={p} dials={s.dials} eps={e}"

def digest (s : St) : String :=
  let pool := (List.range nkeys).filterMap fun k => (s.pool k).map fun e => s!"{k}:{e}"
  let p := if pool.isEmpty then "-" else ",".intercalate pool
  let eps := (List.range s.neps).map (epLine s)
  let e := if eps.isEmpty then "-" else " ".intercalate eps
  let reg := (List.range s.neps).filter fun e => (s.eps e).registered
  let rg := if reg.isEmpty then "-" else joinNat reg
  s!"pool={p} dials={s.dials} drn={(s.drn 0).active},{(s.drn 1).active} trk0[{TrkDrv.digest (s.trk 0)}] trk1[{TrkDrv.digest (s.trk 1)}] reg={rg} eps={e}"

end EpDrv

structure DrvSt where
  trk : List Tracker.St := [Tracker.init, Tracker.init]
  drn : Drain.St := Drain.init
  tqCfg : TQ.Cfg := TQ.fixedCfg
  tq : TQ.St := TQ.init
  ep : EP.St := EP.init
  epc : EPC.St := EPC.init
  hp : Route.St := Route.init
  ib : Batch.St := Batch.init 8
  /-- kernel stream: per core its tracker and the tuples in its conn-state map; `shared` = both
  generations use one bpf object (one tracker, one map) -/
  krnShared : Bool := false
  krnT : List Tracker.St := [Tracker.init, Tracker.init]
  krnK : List (List Nat) := [[], []]
  /-- a release parked inside its deleting window: the keys BeginRelease returned -/
  krnRels : List Nat := []
  /-- split `InvalidateDialerNetworkType`: the bucket snapshot and the number of retires so far -/
  epSnap : List Nat := []
  epInvalN : Nat := 0
  /-- split creation: the endpoint object dialled but not published yet -/
  epPending : Option EP.Ep := none
  epLastPub : Nat := 0
  /-- tuning constants reported by the harness (`key consts`, `hp consts`) -/
  sniffPorts : List (Nat × Nat) := Keys.sniffPortsDefault
  directPorts : List (Nat × Nat) := Keys.directPortsDefault
  hpMaxRetry : Nat := 2
  hpFailTtl : Nat := 2000000000
  hpJanitorIv : Nat := 250000000
  /-- conn-state registration done by `handlePkt`: (endpoint, "src>dst") pairs held by open endpoints -/
  hpTuples : List (Nat × String) := []
  /-- the creation in progress has registered its endpoint already (inside the table write's critical section) -/
  epRegDone : Bool := false
  /-- ingress stream: datagrams in the order the socket delivered them -/
  ing : Ingress.Spec.St := {}

def boolTok? : String → Option Bool
  | "1" => some true | "0" => some false | _ => none

def apTok? (tok : String) : Option Keys.AP :=
  if tok = "-" then some Keys.AP.zero else
  match tok.splitOn "/" with
  | [ip, port] => do let i ← hexToNat? ip; let p ← port.toNat?; pure ⟨true, i, p⟩
  | _ => none

def apStr (a : Keys.AP) : String := if a.valid then s!"{a.ip}/{a.port}" else "-"
def scopeStr (s : Keys.Scope) : String := s!"{s.outbound}.{s.mark}.{s.dscp}.{s.pname}.{s.mac}"
def ekeyStr (k : Keys.EKey) : String := s!"[{apStr k.src} {apStr k.dst} {scopeStr k.scope}]"
def oekeyStr : Option Keys.EKey → String | some k => ekeyStr k | none => "none"

def routingTok? (toks : List String) : Option (Option Keys.Routing) :=
  match toks with
  | ["nil"] => some none
  | [a, b, c, d, e] => do
    let a ← a.toNat?; let b ← b.toNat?; let c ← c.toNat?; let d ← hexToNat? d; let e ← hexToNat? e
    pure (some ⟨a, b, c, d, e⟩)
  | _ => none

def handleTrk (st : DrvSt) (toks : List String) : DrvSt × String :=
  let getT (i : Nat) := st.trk.getD i Tracker.init
  let setT (i : Nat) (t : Tracker.St) := { st with trk := st.trk.set i t }
  match toks with
  | ["reset"] => ({ st with trk := [Tracker.init, Tracker.init] }, "ok")
  | ["retain", t, k] =>
    match t.toNat?, k.toNat? with
    | some t, some k =>
      let s' := (Tracker.step (getT t) (.retain k)).1
      (setT t s', TrkDrv.digest s')
    | _, _ => (st, "bad-op")
  | ["forget", t, k] =>
    match t.toNat?, k.toNat? with
    | some t, some k =>
      let s' := (Tracker.step (getT t) (.forget k)).1
      (setT t s', TrkDrv.digest s')
    | _, _ => (st, "bad-op")
  | ["begin", t, ks] =>
    match t.toNat?, natList? ks with
    | some t, some ks =>
      let r := Tracker.step (getT t) (.begin ks)
      (setT t r.1, s!"rel={joinNat r.2} " ++ TrkDrv.digest r.1)
    | _, _ => (st, "bad-op")
  | ["finalize", t, ks] =>
    match t.toNat?, natList? ks with
    | some t, some ks =>
      let s1 := (Tracker.step (getT t) (.finalize ks)).1
      let s2 := TrkDrv.resumeAll (s1.waiting.length + 1) s1
      (setT t s2, TrkDrv.digest s2)
    | _, _ => (st, "bad-op")
  | ["transfer", cur, prev, ks] =>
    match cur.toNat?, prev.toNat?, natList? ks with
    | some c, some p, some ks =>
      let sc := ks.foldl (fun s k => (Tracker.step s (.retain k)).1) (getT c)
      let sp := ks.foldl (fun s k => (Tracker.step s (.forget k)).1) (getT p)
      let st1 := { st with trk := (st.trk.set c sc).set p sp }
      (st1, s!"cur {TrkDrv.digest sc} prev {TrkDrv.digest sp}")
    | _, _, _ => (st, "bad-op")
  | _ => (st, "bad-op")

def hpDigest (s : Route.St) : String :=
  let entries := (List.range s.neps).filterMap fun e =>
    if s.pool (s.eps e).key = some e then some s!"{ekeyStr (s.eps e).key}={e}" else none
  -- negative-cache markers occupy their key's table slot (no conn: shown as -1)
  let entries := entries ++ s.markers.map fun m => s!"{ekeyStr m.1}=-1"
  let sorted := (entries.toArray.qsort (· < ·)).toList
  let p := if sorted.isEmpty then "-" else ",".intercalate sorted
  let eps := (List.range s.neps).map fun e => s!"{e}:d{boolStr (s.eps e).dead}c{boolStr (s.eps e).closed}"
  let es := if eps.isEmpty then "-" else " ".intercalate eps
  s!"dials={s.dials} fails={s.fails} eps={es} pool={p}"

/-- `443,8443` / `53,3478,5004-5060` / `-` -/
def rangesTok? (tok : String) : Option (List (Nat × Nat)) :=
  if tok = "-" then some [] else
  (tok.splitOn ",").mapM fun part =>
    match part.splitOn "-" with
    | [a] => a.toNat?.map fun a => (a, a)
    | [a, b] => do let a ← a.toNat?; let b ← b.toNat?; pure (a, b)
    | _ => none

def handleHp (st : DrvSt) (toks : List String) : DrvSt × String :=
  let s := st.hp
  -- the packet's (source, destination) pair is registered with the endpoint that carries it (both directions);
  -- a closed endpoint has released what it held.  `trk=<tracked tuples>:<holdings>`
  let live (s' : Route.St) (t : List (Nat × String)) := t.filter fun x => !(s'.eps x.1).closed
  let trk (t : List (Nat × String)) :=
    s!"trk={2 * (t.map (·.2)).eraseDups.length}:{2 * t.length}"
  match toks with
  | ["reset"] =>
    ({ st with hp := { Route.init with maxRetry := st.hpMaxRetry, failTtl := st.hpFailTtl, janitorIv := st.hpJanitorIv,
                                       nextJanitor := st.hpJanitorIv }, hpTuples := [] }, "ok")
  | ["consts", mr, sniff, jiv, fttl] =>
    match mr.toNat?, rangesTok? sniff, jiv.toNat?, fttl.toNat? with
    | some mr, some sn, some j, some f =>
      ({ st with hpMaxRetry := mr, sniffPorts := sn, hpFailTtl := EpDrv.ms f, hpJanitorIv := EpDrv.ms j,
                 hp := { st.hp with maxRetry := mr } }, "ok")
    | _, _, _, _ => (st, "bad-op")
  | ["adv", dt] =>
    match dt.toNat? with
    | some dt =>
      let s' := Route.advance s (EpDrv.ms dt)
      ({ st with hp := s' }, s!"{hpDigest s'} {trk st.hpTuples}")
    | none => (st, "bad-op")
  | ["classify", src, dst, payload] =>
    match apTok? src, apTok? dst with
    | some src, some dst =>
      let al := Keys.flowAllowsSniffingIn st.sniffPorts src dst
      (st, s!"al={boolStr al} qi={boolStr (al && payload == "quic")} hs=0 sameKey=1")
    | _, _ => (st, "bad-op")
  | ["inval"] => (st, s!"removed=0 {hpDigest s} {trk st.hpTuples}")   -- every endpoint of this stream has carried traffic: it survives
  | "pkt" :: src :: dst :: hs :: qi :: al :: sens :: ws :: ds :: rest =>
    match apTok? src, apTok? dst, boolTok? hs, boolTok? qi, boolTok? al, boolTok? sens, routingTok? rest with
    | some src, some dst, some hs, some qi, some al, some sens, some r =>
      let wl : List Bool := if ws = "-" then [] else ws.toList.map (· == '1')
      let dl : List Bool := if ds = "-" then [] else ds.toList.map (· == '1')
      -- `handleD` = `handle` (the function of the theorems) when no dial fails and no marker exists
      -- (RouteProofs.handleD_eq_handle)
      let res := Route.handleD s ⟨⟨src, dst, hs, qi, al⟩, r, sens⟩ wl dl
      let c := match res.2 with | some e => s!"e{e}" | none => "none"
      let pair := s!"{apStr src}>{apStr dst}"
      let t1 := match res.2 with
        | some e => if st.hpTuples.contains (e, pair) then st.hpTuples else st.hpTuples ++ [(e, pair)]
        | none => st.hpTuples
      let t2 := live res.1 t1
      ({ st with hp := res.1, hpTuples := t2 }, s!"carried={c} {hpDigest res.1} {trk t2}")
    | _, _, _, _, _, _, _ => (st, "bad-op")
  | ["kill", e] =>
    match e.toNat? with
    | some e =>
      let s' := Route.readError s e
      let t := live s' st.hpTuples
      ({ st with hp := s', hpTuples := t }, s!"{hpDigest s'} {trk t}")
    | none => (st, "bad-op")
  | _ => (st, "bad-op")

/-- stream `c13_ing`: the production ingress statements of `Serve` (batch loop, `processPacket`) in front of the
real task pool.  `ing dgram i src dst` — datagram `i` as the socket delivered it: which flow key its task
got, who ran the task (`by=` the queue of which flow / `direct`), how often; `ing log src dst` — execution
order of the tasks that ran under the queue of that flow; `ing direct` — the datagrams run on goroutines
of their own. -/
def handleIng (st : DrvSt) (toks : List String) : DrvSt × String :=
  let keyStr (k : Keys.AP × Keys.AP) := s!"{apStr k.1}|{apStr k.2}"
  match toks with
  | ["consts", direct] =>
    match rangesTok? direct with
    | some di => ({ st with directPorts := di }, "ok")
    | none => (st, "bad-op")
  | ["reset"] => ({ st with ing := {} }, "ok")
  | ["dgram", i, src, dst] =>
    match i.toNat?, apTok? src, apTok? dst with
    | some i, some src, some dst =>
      if i ≠ st.ing.arrived.length then (st, "bad-op") else
      let d : Ingress.Dgram := ⟨src, dst⟩
      let s' := Ingress.Spec.arrive st.ing d
      let by_ := match Ingress.Spec.runsUnder st.directPorts s' i with
        | some (some k) => keyStr k
        | some none => "direct"
        | none => "?"
      ({ st with ing := s' }, s!"key={keyStr (Ingress.flowKey d)} by={by_} runs=1")
    | _, _, _ => (st, "bad-op")
  | ["log", src, dst] =>
    match apTok? src, apTok? dst with
    | some src, some dst => (st, joinNat (Ingress.Spec.flowOrder st.directPorts st.ing (src, dst)))
    | _, _ => (st, "bad-op")
  | ["direct"] =>
    let ids := (List.range st.ing.arrived.length).filter fun i =>
      match st.ing.arrived[i]? with
      | some d => !Ingress.ordered st.directPorts d
      | none => false
    (st, joinNat ids)
  | _ => (st, "bad-op")

def handleIb (st : DrvSt) (toks : List String) : DrvSt × String :=
  let s := st.ib
  match toks with
  | ["reset", n] =>
    match n.toNat? with
    | some n => ({ st with ib := Batch.init n }, "ok")
    | none => (st, "bad-op")
  | "read" :: pk =>
    -- one token per datagram: comma separated payload bytes
    match pk.mapM natList? with
    | some pkts => let s' := Batch.readBatch s pkts; ({ st with ib := s' }, s!"n={s'.have_}")
    | none => (st, "bad-op")
  | ["take", i] =>
    match i.toNat? with
    | some i =>
      if i < s.have_ then
        match Batch.take s i with
        | (s', some (_, data)) =>
          -- a buffer handed out is fresh: never aliased with one a task still holds; the held ones keep their bytes
          -- (and it comes with the control message of the same datagram: the fake socket derives it from the payload)
          ({ st with ib := s' }, s!"ok data={joinNat data} oob={data.headD 0},{data.length},77 alias=0 held_ok=1")
        | (_, none) => (st, "none")
      else (st, "none")
    | none => (st, "bad-op")
  | _ => (st, "bad-op")

def handleKrn (st : DrvSt) (toks : List String) : DrvSt × String :=
  let ix (c : Nat) := if st.krnShared then 0 else c
  let getT (c : Nat) := st.krnT.getD (ix c) Tracker.init
  let getK (c : Nat) := st.krnK.getD (ix c) []
  let put (st : DrvSt) (c : Nat) (t : Tracker.St) (k : List Nat) : DrvSt :=
    { st with krnT := st.krnT.set (ix c) t, krnK := st.krnK.set (ix c) k }
  let sorted (l : List Nat) := (l.toArray.qsort (· < ·)).toList
  let show_ (st : DrvSt) :=
    let i1 := if st.krnShared then 0 else 1
    s!"t0[{TrkDrv.digest (st.krnT.getD 0 Tracker.init)}] k0={joinNat (sorted (st.krnK.getD 0 []))} " ++
    s!"t1[{TrkDrv.digest (st.krnT.getD i1 Tracker.init)}] k1={joinNat (sorted (st.krnK.getD i1 []))}"
  match toks with
  | ["close", _] =>
    -- the old generation's core is closed after the hand-over: the shared tracker (and the map) live on
    (st, show_ st)
  | ["reset", mode] =>
    let st1 := { st with krnShared := mode == "shared", krnT := [Tracker.init, Tracker.init], krnK := [[], []] }
    (st1, "ok")
  | ["flow", c, k] =>
    match c.toNat?, k.toNat? with
    | some c, some k =>
      let kk := if (getK c).contains k then getK c else k :: getK c
      let st1 := put st c (Tracker.step (getT c) (.retain k)).1 kk
      (st1, show_ st1)
    | _, _ => (st, "bad-op")
  | ["retain", c, k] =>
    match c.toNat?, k.toNat? with
    | some c, some k => let st1 := put st c (Tracker.step (getT c) (.retain k)).1 (getK c); (st1, show_ st1)
    | _, _ => (st, "bad-op")
  | ["release", c, ks] =>
    match c.toNat?, natList? ks with
    | some c, some ks =>
      let r := Tracker.releaseKernel (getT c) (getK c) ks
      let st1 := put st c r.1 r.2
      (st1, show_ st1)
    | _, _ => (st, "bad-op")
  -- ReleaseUdpConnStateTuples step by step (yield points releaseConnState.afterBeginRelease / afterKernelDelete)
  | ["rbegin", c, ks] =>
    match c.toNat?, natList? ks with
    | some c, some ks =>
      let r := Tracker.step (getT c) (.begin ks)
      let st1 := { (put st c r.1 (getK c)) with krnRels := r.2 }
      (st1, show_ st1)
    | _, _ => (st, "bad-op")
  | ["rdelete", c] =>
    match c.toNat? with
    | some c => let st1 := put st c (getT c) ((getK c).filter fun k => !st.krnRels.contains k); (st1, show_ st1)
    | none => (st, "bad-op")
  | ["rfinal", c] =>
    match c.toNat? with
    | some c =>
      let s1 := (Tracker.step (getT c) (.finalize st.krnRels)).1
      let s2 := TrkDrv.resumeAll (s1.waiting.length + 1) s1
      let st1 := { (put st c s2 (getK c)) with krnRels := [] }
      (st1, show_ st1)
    | none => (st, "bad-op")
  | ["transfer", cur, prev, ks] =>
    match cur.toNat?, prev.toNat?, natList? ks with
    | some c, some p, some ks =>
      if st.krnShared || c == p then (st, show_ st)      -- same tracker: nothing to hand over
      else
        let sc := ks.foldl (fun s k => (Tracker.step s (.retain k)).1) (getT c)
        let sp := ks.foldl (fun s k => (Tracker.step s (.forget k)).1) (getT p)
        let st1 := put (put st c sc (getK c)) p sp (getK p)
        (st1, show_ st1)
    | _, _, _ => (st, "bad-op")
  | _ => (st, "bad-op")

def handleDrn (st : DrvSt) (toks : List String) : DrvSt × String :=
  let show_ (d : Drain.St) := s!"active={d.active} idle={boolStr d.idleClosed} gen={d.gen}"
  match toks with
  | ["reset"] => ({ st with drn := Drain.init }, show_ Drain.init)
  | ["acquire"] => let d := Drain.step st.drn .acquire; ({ st with drn := d }, show_ d)
  | ["release", i] =>
    match i.toNat? with
    | some i => let d := Drain.step st.drn (.release i); ({ st with drn := d }, show_ d)
    | none => (st, "bad-op")
  | _ => (st, "bad-op")

def handleKey (st : DrvSt) (toks : List String) : String :=
  match toks with
  | "flow" :: src :: dst :: hs :: qi :: al :: dom :: rest =>
    match apTok? src, apTok? dst, boolTok? hs, boolTok? qi, boolTok? al, boolTok? dom, routingTok? rest with
    | some src, some dst, some hs, some qi, some al, some dom, some r =>
      let d : Keys.Decision := ⟨src, dst, hs, qi, al⟩
      let sc := Keys.newRouteScope r
      let force := Keys.needsDestinationAffinity r
      s!"scope={scopeStr sc} force={boolStr force} lookup={ekeyStr (Keys.lookupKey sc force d)} " ++
      s!"fallback={oekeyStr (Keys.lookupFallback sc force d)} dial={ekeyStr (Keys.dialKey dom sc force d)} " ++
      s!"cached={ekeyStr (Keys.cachedRoutingKey d)} cachedfb={oekeyStr (Keys.cachedRoutingFallback d)} " ++
      s!"quicnat={boolStr (Keys.natTimeoutIsQuic dom d)}"
    | _, _, _, _, _, _, _ => "bad-op"
  | ["ports", sp, dp] =>
    match sp.toNat?, dp.toNat? with
    | some sp, some dp =>
      s!"allows={boolStr (Keys.flowAllowsSniffingIn st.sniffPorts ⟨true, 0, sp⟩ ⟨true, 0, dp⟩)} direct={boolStr (Keys.goroutineDirectlyIn st.directPorts sp dp)} ordered={boolStr (Keys.orderedIngressIn st.directPorts sp dp)}"
    | _, _ => "bad-op"
  | _ => "bad-op"

def parseThread (tok : String) : Option (Bool × Nat) :=
  match tok.toList with
  | 'p' :: r => (String.ofList r).toNat?.map fun n => (true, n)
  | 'c' :: r => (String.ofList r).toNat?.map fun n => (false, n)
  | _ => none

def handleTq (st : DrvSt) (toks : List String) : DrvSt × String :=
  let s := st.tq
  let cfg := st.tqCfg
  match toks with
  | ["reset", cap, gc, pop] =>
    match cap.toNat?, boolTok? gc, boolTok? pop with
    | some cap, some gc, some pop => ({ st with tqCfg := ⟨cap, gc, pop⟩, tq := TQ.init }, "ok")
    | _, _, _ => (st, "bad-op")
  | ["spawn", k] =>
    match k.toNat? with
    | some k =>
      match TQ.step cfg s (.spawn k) with
      | some s' => ({ st with tq := s' }, s!"p={s.np}")
      | none => (st, "disabled")
    | none => (st, "bad-op")
  | ["run", th, ch] =>
    match parseThread th with
    | some (true, p) =>
      let c : Option (Option Nat) :=
        if ch = "-" then some none
        else match ch.toNat? with
          | some c => if c = s.nch then some none else some (some c)
          | none => none
      match c with
      | none => (st, "bad-op")
      | some c =>
        match TqDrv.runProd cfg 8 s p c with
        | some s' => ({ st with tq := s' }, TqDrv.prodLine s' p)
        | none => (st, "disabled")
    | some (false, q) =>
      if (s.qs q).cpc = .wait then (st, "disabled")
      else match TqDrv.runConv cfg 8 s q .recv with
        | some s' => ({ st with tq := s' }, TqDrv.convLine s' q)
        | none => (st, "disabled")
    | none => (st, "bad-op")
  | ["auto", th, sel] =>
    match parseThread th, (match sel with | "recv" => some TQ.Sel.recv | "wake" => some .wake | "timer" => some .timer | _ => none) with
    | some (false, q), some sel =>
      if (s.qs q).cpc ≠ .wait then (st, "disabled")
      else match TqDrv.runConv cfg 8 s q sel with
        | some s' => ({ st with tq := s' }, TqDrv.convLine s' q)
        | none => (st, "disabled")
    | _, _ => (st, "bad-op")
  | ["log", k] =>
    match k.toNat? with
    | some k => (st, s!"done={joinNat (s.done k)} accepted={joinNat (s.accepted k)}")
    | none => (st, "bad-op")
  | ["map"] => (st, TqDrv.mapLine s)
  | ["q", q] =>
    match q.toNat? with
    | some q => if q < s.nq then (st, TqDrv.qDigest s q) else (st, "no-such-queue")
    | none => (st, "bad-op")
  | _ => (st, "bad-op")

def handleEp (st : DrvSt) (toks : List String) : DrvSt × String :=
  let s := st.ep
  let upd (s' : EP.St) (out : String) : DrvSt × String := ({ st with ep := s' }, out)
  match toks with
  | ["reset"] => upd EP.init "ok"
  -- the tuning constants of the real pool, in ms: janitor period, TTL-refresh throttle, negative-cache lifetime
  | ["consts", j, t, f] =>
    match j.toNat?, t.toNat?, f.toNat? with
    | some j, some t, some f =>
      upd { s with janitorIv := EpDrv.ms j, ttlMin := EpDrv.ms t, failTtl := EpDrv.ms f,
                   nextJanitor := s.now + EpDrv.ms j } "ok"
    | _, _, _ => (st, "bad-op")
  | ["st"] => (st, EpDrv.digest s)
  | ["stx"] => (st, EpDrv.digestNoTime s)
  -- kernel conn-state entries of tuples no endpoint owns any more (after everything is closed): none
  | ["kleft"] => (st, "0")
  | ["goc", k, sym, nat, owner, drain, d, "notpkt"] =>
    -- the dial succeeds but the transport can not carry datagrams: it is closed again, no endpoint, no
    -- negative-cache entry (the stale entry of the key, if any, has been dropped before the dial)
    match k.toNat?, boolTok? sym, nat.toNat?, EpDrv.optTok? owner, EpDrv.optTok? drain, d.toNat? with
    | some k, some sym, some nat, some owner, some drain, some d =>
      let r := EP.getOrCreate s k sym (EpDrv.ms nat) owner drain d .failNoAlive
      match r.2 with
      | .errDial => upd (EP.countDial r.1) "err-dial"
      | .hit e => upd r.1 s!"hit {e}"
      | .created e => upd r.1 s!"new {e}"
      | .errFailed => upd r.1 "err-failed"
    | _, _, _, _, _, _ => (st, "bad-op")
  | ["goc", k, sym, nat, owner, drain, d, "transient"] =>
    -- the dial fails with a transient local error (EADDRINUSE …): neither reported nor remembered
    match k.toNat?, boolTok? sym, nat.toNat?, EpDrv.optTok? owner, EpDrv.optTok? drain, d.toNat? with
    | some k, some sym, some nat, some owner, some drain, some d =>
      let r := EP.getOrCreate s k sym (EpDrv.ms nat) owner drain d .failNoAlive
      match r.2 with
      | .errDial => upd (EP.countDial r.1) "err-dial"
      | .hit e => upd r.1 s!"hit {e}"
      | .created e => upd r.1 s!"new {e}"
      | .errFailed => upd r.1 "err-failed"
    | _, _, _, _, _, _ => (st, "bad-op")
  | ["goc", k, sym, nat, owner, drain, d, out] =>
    if out.startsWith "unreach+" then
      -- the first dial finds the network unreachable (one dial counted, nothing remembered), then
      -- `createEndpointLocked` selects again and dials once more inside the same call: the outcome of the
      -- call is the outcome of that second attempt (composition of the model's own steps)
      let cs := out.toList.drop 8
      let snd := String.ofList cs
      let kind := if snd = "noalive" then "noalive" else String.ofList cs.dropLast
      let d2? : Option Nat := if snd = "noalive" then d.toNat? else cs.getLast?.map fun c => c.toNat - '0'.toNat
      match k.toNat?, boolTok? sym, nat.toNat?, EpDrv.optTok? owner, EpDrv.optTok? drain, d2? with
      | some k, some sym, some nat, some owner, some drain, some d2 =>
        let dial? : Option (EP.DialOutcome × Nat) := match kind with
          | "ok" => some (.ok, 1) | "gen" => some (.failGeneric, 1) | "noalive" => some (.failNoAlive, 1)
          | "unreach" => some (.failNoAlive, 2) | "transient" => some (.failNoAlive, 2) | _ => none
        match dial? with
        | some (o, extra) =>
          let r := EP.getOrCreate s k sym (EpDrv.ms nat) owner drain d2 o
          let bump (x : EP.St) := if extra = 2 then EP.countDial (EP.countDial x) else EP.countDial x
          (match r.2 with
            | .hit e => upd r.1 s!"hit {e}"
            | .errFailed => upd r.1 "err-failed"
            | .created e => upd (bump r.1) s!"new {e}"
            | .errDial => upd (bump r.1) "err-dial")
        | none => (st, "bad-op")
      | _, _, _, _, _, _ => (st, "bad-op")
    else
    match k.toNat?, boolTok? sym, nat.toNat?, EpDrv.optTok? owner, EpDrv.optTok? drain, d.toNat?,
      (match out with | "ok" => some EP.DialOutcome.ok | "gen" => some .failGeneric | "noalive" => some .failNoAlive | _ => none) with
    | some k, some sym, some nat, some owner, some drain, some d, some out =>
      let r := EP.getOrCreate s k sym (EpDrv.ms nat) owner drain d out
      upd r.1 (match r.2 with
        | .hit e => s!"hit {e}" | .created e => s!"new {e}" | .errFailed => "err-failed" | .errDial => "err-dial")
    | _, _, _, _, _, _, _ => (st, "bad-op")
  | ["get", k] =>
    match k.toNat? with
    | some k => (st, match EP.get s k with | some e => s!"e{e}" | none => "none")
    | none => (st, "bad-op")
  | ["write", e, out] =>
    match e.toNat?, (match out with | "ok" => some EP.WriteOutcome.ok | "err" => some .err | "short" => some .short | _ => none) with
    | some e, some out => let r := EP.writeTo s e out; upd r.1 (if r.2 then "ok" else "fail")
    | _, _ => (st, "bad-op")
  | ["reply", e, ok] =>
    match e.toNat?, boolTok? ok with
    | some e, some ok => upd (EP.reply s e ok) "ok"
    | _, _ => (st, "bad-op")
  | ["readerr", e] =>
    match e.toNat? with
    | some e => upd (EP.readError s e) "ok"
    | none => (st, "bad-op")
  | ["remove", k, e] =>
    match k.toNat?, e.toNat? with
    | some k, some e => upd (EP.remove s k e) "ok"   -- (what `Remove` returns is not part of the property: callers ignore it)
    | _, _ => (st, "bad-op")
  | ["close", e] =>
    match e.toNat? with
    | some e => upd (EP.closeEp s e) "ok"
    | none => (st, "bad-op")
  | ["adv", dt] =>
    match dt.toNat? with
    | some dt => upd (EP.advance EpDrv.nkeys (EpDrv.ms dt / (s.janitorIv + 1) + 2) s (EpDrv.ms dt)) "ok"
    | none => (st, "bad-op")
  | ["inval", d] =>
    match d.toNat? with
    | some d => let r := EP.invalidate s d; upd r.1 s!"removed={r.2}"
    | none => (st, "bad-op")
  | ["resetpool"] => upd (EP.reset EpDrv.nkeys s) "ok"
  -- InvalidateDialerNetworkType step by step (parked at invalidate.afterEpochBump / retire.afterMarkDead)
  | ["ibump", d] =>
    match d.toNat? with
    | some d => upd (EP.invalBump s d) "ok"
    | none => (st, "bad-op")
  | ["isnap", d] =>
    match d.toNat? with
    | some d => ({ st with epSnap := EP.bucket s d, epInvalN := 0 }, "ok")
    | none => (st, "bad-op")
  | ["markdead", e] =>
    match e.toNat? with
    | some e =>
      -- the loop retires a snapshot member only if it carried no traffic at that moment
      if st.epSnap.contains e && !(s.eps e).survives then
        ({ st with ep := EP.markDead s e, epInvalN := st.epInvalN + 1 }, "ok")
      else (st, "model-would-not-retire")
    | none => (st, "bad-op")
  | ["retirefin", e] =>
    match e.toNat? with
    | some e => upd (EP.closeEp (EP.selfRemove s e) e) "ok"
    | none => (st, "bad-op")
  | ["iend"] =>
    -- `survives` only ever turns true, so a member that is untouched now was untouched when the loop saw it
    let missed := st.epSnap.filter fun e => !(s.eps e).dead && !(s.eps e).closed && !(s.eps e).survives
    if missed.isEmpty then ({ st with epSnap := [] }, s!"removed={st.epInvalN}")
    else (st, s!"model-would-also-retire={joinNat missed}")
  -- one janitor pass step by step (parked at janitor.beforeClose): the tick, the table removals, the closes
  | ["jtick", ms] =>
    match ms.toNat? with
    | some ms => upd { s with now := s.now + EpDrv.ms ms, nextJanitor := s.nextJanitor + s.janitorIv } "ok"
    | none => (st, "bad-op")
  | ["jremove", k, e] =>
    match k.toNat?, e.toNat? with
    | some k, some e =>
      let E := s.eps e
      if s.pool k = some e && (E.isExpired s.now || (!EP.genCurrent s E && !E.survives)) then
        upd (EP.setPool s k none) "ok"
      else (st, "model-would-not-expire")
    | _, _ => (st, "bad-op")
  | ["jclose", e] =>
    match e.toNat? with
    | some e => upd (EP.closeEp s e) "ok"
    | none => (st, "bad-op")
  | ["jend"] =>
    let left := (List.range EpDrv.nkeys).filter fun k => match s.pool k with
      | some e => (s.eps e).isExpired s.now || (!EP.genCurrent s (s.eps e) && !(s.eps e).survives)
      | none => false
    (st, if left.isEmpty then "ok" else s!"model-would-also-expire={joinNat left}")
  -- GetOrCreate's creation step by step (parked at create.beforePublish)
  | ["gocprep", k, sym, nat, owner, drain, d] =>
    match k.toNat?, boolTok? sym, nat.toNat?, EpDrv.optTok? owner, EpDrv.optTok? drain, d.toNat? with
    | some k, some sym, some nat, some owner, some drain, some d =>
      if EP.blockedBy s k || (EP.reuseOf s k).isSome then (st, "model-would-not-create")
      else
        ({ st with ep := EP.countDial (EP.prepCreate s k drain d),
                   epPending := some (EP.createRecord s k sym (EpDrv.ms nat) owner drain d) }, "ok")
    | _, _, _, _, _, _ => (st, "bad-op")
  | ["gocpub"] =>
    match st.epPending with
    | some E =>
      -- the table write only; the endpoint enters the dialer's / transport's bucket when the creator goes on
      ({ st with ep := EP.publishEp s { E with registered := false }, epPending := none, epLastPub := s.neps,
                 epRegDone := false }, s!"new {s.neps}")
    | none => (st, "bad-op")
  | ["gocpubreg"] =>
    match st.epPending with
    | some E =>
      -- table write and registration in one critical section
      ({ st with ep := EP.register (EP.publishEp s { E with registered := false }) s.neps, epPending := none,
                 epLastPub := s.neps, epRegDone := true }, s!"new {s.neps}")
    | none => (st, "bad-op")
  | ["gocret"] =>
    if st.epRegDone then (st, s!"new {st.epLastPub}")
    else ({ st with ep := EP.register s st.epLastPub }, s!"new {st.epLastPub}")
  | ["tdone", d] =>
    match d.toNat? with
    | some d => upd (EP.transportDone s d) "ok"
    | none => (st, "bad-op")
  | ["track", e, j] =>
    match e.toNat?, j.toNat? with
    | some e, some j => upd (EP.track s e j) "ok"
    | _, _ => (st, "bad-op")
  | _ => (st, "bad-op")

def epcPcName : EPC.PC → String
  | .fast => "start"
  | .wantLock => "getOrCreate.afterFastPathMiss"
  | .recheck => "recheck"
  | .dial => "getOrCreate.afterRecheckMiss"
  | .publish => "create.beforePublish"
  | .done c => if c then "return.new" else "return.hit"

def handleEpc (st : DrvSt) (toks : List String) : DrvSt × String :=
  let s := st.epc
  let show_ (s : EPC.St) (t : Nat) := s!"at={epcPcName (s.pc t)} dials={s.dials} pool={boolStr s.pool}"
  match toks with
  | ["reset"] => ({ st with epc := EPC.init }, "ok")
  | ["spawn"] =>
    match EPC.step s .spawn with
    | some s' => ({ st with epc := s' }, s!"t={s.n}")
    | none => (st, "disabled")
  | ["step", t] =>
    match t.toNat? with
    | some t =>
      match EPC.step s (.step t) with
      | none => (st, "disabled")
      | some s1 =>
        -- there is no yield point between `createMu.Lock()` and the re-check
        let s2 := if s1.pc t = .recheck then (EPC.step s1 (.step t)).getD s1 else s1
        ({ st with epc := s2 }, show_ s2 t)
    | none => (st, "bad-op")
  | _ => (st, "bad-op")

def handle (st : DrvSt) (line : String) : DrvSt × String :=
  match words line with
  | "trk" :: rest => handleTrk st rest
  | "drn" :: rest => handleDrn st rest
  | "krn" :: rest => handleKrn st rest
  | "hp" :: rest => handleHp st rest
  | "ib" :: rest => handleIb st rest
  | "ing" :: rest => handleIng st rest
  | ["key", "consts", sniff, direct] =>
    match rangesTok? sniff, rangesTok? direct with
    | some sn, some di => ({ st with sniffPorts := sn, directPorts := di }, "ok")
    | _, _ => (st, "bad-op")
  | "key" :: rest => (st, handleKey st rest)
  | "tq" :: rest => handleTq st rest
  | "ep" :: rest => handleEp st rest
  | "epc" :: rest => handleEpc st rest
  | _ => (st, "bad-op")

def main : IO Unit := lineLoopS ({} : DrvSt) handle
