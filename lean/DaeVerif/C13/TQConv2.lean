import DaeVerif.C13.TQConv
/-! C13 (a) — invariant preservation: the convoy takes a task / finishes a task -/
namespace DaeVerif.C13.TQ

theorem mapped_not_exited {s : St} (h : Inv s) {k q : Nat} (hm : s.map k = some q) :
    (s.qs q).cpc ≠ .exited := by
  obtain ⟨a, b⟩ := h.g.map_lt k q hm
  intro e
  exact (h.q q a).gone (by rw [e]; simp [Gone]) (by rw [b]; exact hm)

theorem unclaimed_nonneg {s : St} {q : Nat} (hQ : QInv s q) (hc : ¬ Claimed (s.qs q).cpc) :
    0 ≤ (s.qs q).refs := by
  by_cases hlt : (s.qs q).refs < 0
  · exact absurd (hQ.phase.mp hlt) hc
  · omega

/-- the convoy receives the head of its channel (lock-free poll, re-poll under `enqueueMu`, or in
the `select`) and starts running it -/
theorem inv_popChan {s : St} (h : Inv s) (q : Nat) (hq : q < s.nq) (t : Nat) (rest : List Nat)
    (hch : s.chans (s.qs q).ch = t :: rest)
    (hnc : ¬ Claimed (s.qs q).cpc) (hexec0 : execN (s.qs q).cpc = 0) (hidle : (s.qs q).cpc ≠ .idle) :
    Inv (setCpc (setChan s (s.qs q).ch rest) q (.exec t)) := by
  have g := h.g
  have hQ := h.q q hq
  have hr0 := unclaimed_nonneg hQ hnc
  have hne : (s.qs q).cpc ≠ .exited := by intro e; rw [e] at hnc; simp [Claimed] at hnc
  have hmapq := hQ.live_map hr0
  have hhold : ∀ q', holders (setCpc (setChan s (s.qs q).ch rest) q (.exec t)) q' = holders s q' :=
    fun q' => holders_same _ _ _ rfl (fun _ _ => rfl)
  have hother : ∀ q', q' < s.nq → q' ≠ q → (s.qs q').cpc ≠ .exited → (s.qs q').ch ≠ (s.qs q).ch :=
    fun q' hq' hqq he => g.ch_inj q' q hq' hq hqq he hne
  refine ⟨?_, ?_, ?_⟩
  · intro q' hq'
    have hq0 : q' < s.nq := hq'
    by_cases hqq : q' = q
    · subst hqq
      constructor
      · simp [setCpc]; exact hQ.ch_lt
      · simp [setCpc, Claimed]; omega
      · simp [setCpc]; exact hQ.live_map
      · simp [setCpc, Gone]
      · simp [setCpc]
      · simp [setCpc]; exact hQ.ch_pool hne
      · intro _
        rw [hhold]
        have := hQ.refs_ge hr0
        simp [setCpc, hch, hexec0, execN] at this ⊢
        omega
      · simp [setCpc]; intro hlt; omega
      · simp [setCpc]; intro hlt; omega
      · simp [setCpc]; exact hQ.mode
    · apply (h.q q' hq0).frame
      · simp [setCpc, hqq]
      · exact Nat.le_refl _
      · exact Iff.rfl
      · exact fun _ x => x
      · exact hhold q'
      · intro he; simp [setCpc, hother q' hq0 hqq he]
  · intro i hi
    have hi' : i < s.np := hi
    refine (h.p i hi').frame (s' := setCpc (setChan s (s.qs q).ch rest) q (.exec t)) rfl (Nat.le_refl _) ?_
      (Nat.le_refl _) (fun _ _ x => x) ?_ ?_ ?_ ?_
    · intro q' _; simp only [setCpc, setQ_qs, setChan_qs]; by_cases hqq : q' = q
      · subst hqq; simp
      · simp [hqq]
    · intro c hc
      have : c ≠ (s.qs q).ch := fun e => ((h.p i hi').pc_c c hc).2.2.2 q hq hne e.symm
      simp [setCpc, this]
    · intro c _ q' hq' he heq
      simp only [setCpc, setQ_qs, setChan_qs] at he heq
      by_cases hqq : q' = q
      · subst hqq; simp at heq; exact ⟨hq', hne, heq⟩
      · simp [hqq] at he heq; exact ⟨hq', he, heq⟩
    · intro q' hq'
      have : q' ≠ q := by intro e; subst e; exact hidle ((h.p i hi').addref_idle q' hq')
      simp [setCpc, this]
    · intro q' _ hlt
      simp only [setCpc, setQ_qs, setChan_qs]; by_cases hqq : q' = q
      · subst hqq; simpa using hlt
      · simpa [hqq] using hlt
  · apply g.frame
    · rfl
    · intro k q' hm; exact hm
    · intro q'; simp only [setCpc, setQ_qs, setChan_qs]; by_cases hqq : q' = q
      · subst hqq; simp
      · simp [hqq]
    · intro q'; simp only [setCpc, setQ_qs, setChan_qs]; by_cases hqq : q' = q
      · subst hqq; simp
      · simp [hqq]
    · intro q' he; simp only [setCpc, setQ_qs, setChan_qs] at he; by_cases hqq : q' = q
      · subst hqq; exact hne
      · simpa [hqq] using he
    · exact g.pool_lt
    · exact g.pool_nodup
    · intro c hc
      have : c ≠ (s.qs q).ch := fun e => hQ.ch_pool hne (e ▸ hc)
      simp [setCpc, this]; exact g.pool_empty c hc
    · exact g.held_uniq
    · exact g.addref_uniq
    · intro k
      show s.done k ++ pending (setCpc (setChan s (s.qs q).ch rest) q (.exec t)) k = s.accepted k
      by_cases hk : k = (s.qs q).key
      · have hold := g.main k
        have h1 : pending s k = s.chans (s.qs q).ch ++ (s.qs q).ovf := by
          unfold pending; rw [hk, hmapq]; simp [cur_nil_of_execN hexec0]
        have h2 : pending (setCpc (setChan s (s.qs q).ch rest) q (.exec t)) k = [t] ++ rest ++ (s.qs q).ovf := by
          unfold pending; simp [setCpc, hk, hmapq, cur]
        rw [h2, ← hold, h1, hch]; simp
      · have : pending (setCpc (setChan s (s.qs q).ch rest) q (.exec t)) k = pending s k := by
          refine pending_frame ?_ ?_
          · rfl
          · intro q' hmk
            obtain ⟨a, b⟩ := g.map_lt k q' hmk
            have hqq : q' ≠ q := by intro e; subst e; exact hk b.symm
            refine ⟨by simp [setCpc, hqq], ?_⟩
            simp [setCpc, hother q' a hqq (mapped_not_exited h hmk)]
        rw [this]; exact g.main k
    · exact g.acc
    · exact g.acc_nodup

/-- `popOverflowTask` takes the head of the overflow list (the channel is empty) -/
theorem inv_popOvf {s : St} (h : Inv s) (q : Nat) (hq : q < s.nq) (t : Nat) (rest : List Nat)
    (hovf : (s.qs q).ovf = t :: rest) (hch : s.chans (s.qs q).ch = [])
    (hnc : ¬ Claimed (s.qs q).cpc) (hexec0 : execN (s.qs q).cpc = 0) (hidle : (s.qs q).cpc ≠ .idle) :
    Inv (setQ s q { s.qs q with ovf := rest, ovfMode := if rest = [] then false else (s.qs q).ovfMode,
                                cpc := .exec t }) := by
  have g := h.g
  have hQ := h.q q hq
  have hr0 := unclaimed_nonneg hQ hnc
  have hne : (s.qs q).cpc ≠ .exited := by intro e; rw [e] at hnc; simp [Claimed] at hnc
  have hmapq := hQ.live_map hr0
  refine ⟨?_, ?_, ?_⟩
  · intro q' hq'
    have hq0 : q' < s.nq := hq'
    by_cases hqq : q' = q
    · subst hqq
      constructor
      · simp; exact hQ.ch_lt
      · simp [Claimed]; omega
      · simp; exact hQ.live_map
      · simp [Gone]
      · simp
      · simp; exact hQ.ch_pool hne
      · intro _
        rw [holders_setQ]
        have := hQ.refs_ge hr0
        simp [hovf, hexec0, execN] at this ⊢
        omega
      · simp; intro hlt; omega
      · simp; intro hlt; omega
      · simp
        intro hmf
        by_cases hr : rest = []
        · exact hr
        · simp [hr] at hmf
          have := hQ.mode hmf
          rw [hovf] at this; simp at this
    · apply (h.q q' hq0).frame
      · simp [hqq]
      · exact Nat.le_refl _
      · exact Iff.rfl
      · exact fun _ x => x
      · exact holders_setQ _ _ _ _
      · intro _; rfl
  · intro i hi
    have hi' : i < s.np := hi
    refine (h.p i hi').frame_setQ q _ rfl rfl ?_ ?_ ?_ ?_
    · intro _; exact hne
    · intro e; exact absurd e hidle
    · intro _ q' hq' e
      subst e
      exact hidle ((h.p i hi').addref_idle q' hq')
    · intro hlt; exact hlt
  · apply g.frame
    · rfl
    · intro k q' hm'; exact hm'
    · intro q'; simp only [setQ_qs]; by_cases hqq : q' = q
      · subst hqq; simp
      · simp [hqq]
    · intro q'; simp only [setQ_qs]; by_cases hqq : q' = q
      · subst hqq; simp
      · simp [hqq]
    · intro q' he; simp only [setQ_qs] at he; by_cases hqq : q' = q
      · subst hqq; exact hne
      · simpa [hqq] using he
    · exact g.pool_lt
    · exact g.pool_nodup
    · exact g.pool_empty
    · exact g.held_uniq
    · exact g.addref_uniq
    · intro k
      by_cases hk : k = (s.qs q).key
      · have hold := g.main k
        have h1 : pending s k = t :: rest := by
          unfold pending; rw [hk, hmapq]; simp [cur_nil_of_execN hexec0, hch, hovf]
        have h2 : pending (setQ s q { s.qs q with ovf := rest, ovfMode := if rest = [] then false else (s.qs q).ovfMode, cpc := .exec t }) k
            = t :: rest := by
          unfold pending; simp [hk, hmapq, cur, hch]
        show s.done k ++ _ = s.accepted k
        rw [h2, ← h1]; exact hold
      · have : pending (setQ s q { s.qs q with ovf := rest, ovfMode := if rest = [] then false else (s.qs q).ovfMode, cpc := .exec t }) k
            = pending s k := by
          refine pending_frame ?_ ?_
          · rfl
          · intro q' hmk
            obtain ⟨a, b⟩ := g.map_lt k q' hmk
            have hqq : q' ≠ q := by intro e; subst e; exact hk b.symm
            exact ⟨by simp [hqq], rfl⟩
        show s.done k ++ _ = s.accepted k
        rw [this]; exact g.main k
    · exact g.acc
    · exact g.acc_nodup

/-- the running task returns and the convoy drops the task's reference -/
theorem inv_execEnd {s : St} (h : Inv s) (q : Nat) (hq : q < s.nq) (t : Nat)
    (hcpc : (s.qs q).cpc = .exec t) :
    Inv (setQ (logDone s (s.qs q).key t) q { s.qs q with refs := (s.qs q).refs - 1, cpc := .top }) := by
  have g := h.g
  have hQ := h.q q hq
  have hnc : ¬ Claimed (s.qs q).cpc := by rw [hcpc]; simp [Claimed]
  have hr0 := unclaimed_nonneg hQ hnc
  have hne : (s.qs q).cpc ≠ .exited := by rw [hcpc]; simp
  have hmapq := hQ.live_map hr0
  have hr1 : 1 ≤ (s.qs q).refs := by
    have := hQ.refs_ge hr0
    rw [hcpc] at this; simp [execN] at this; omega
  have hhold : ∀ q', holders (setQ (logDone s (s.qs q).key t) q { s.qs q with refs := (s.qs q).refs - 1, cpc := .top }) q'
      = holders s q' := fun q' => holders_same _ _ _ rfl (fun _ _ => rfl)
  refine ⟨?_, ?_, ?_⟩
  · intro q' hq'
    have hq0 : q' < s.nq := hq'
    by_cases hqq : q' = q
    · subst hqq
      constructor
      · simp; exact hQ.ch_lt
      · simp [Claimed]; omega
      · simp; intro _; exact hmapq
      · simp [Gone]
      · simp
      · simp; exact hQ.ch_pool hne
      · intro _
        rw [hhold]
        have := hQ.refs_ge hr0
        rw [hcpc] at this
        simp [execN] at this ⊢
        omega
      · simp; intro hlt; omega
      · simp; intro hlt; omega
      · simp; exact hQ.mode
    · apply (h.q q' hq0).frame
      · simp [hqq]
      · exact Nat.le_refl _
      · exact Iff.rfl
      · exact fun _ x => x
      · exact hhold q'
      · intro _; rfl
  · intro i hi
    have hi' : i < s.np := hi
    have hidle : (s.qs q).cpc ≠ .idle := by rw [hcpc]; simp
    refine (h.p i hi').frame (s' := setQ (logDone s (s.qs q).key t) q { s.qs q with refs := (s.qs q).refs - 1, cpc := .top })
      rfl (Nat.le_refl _) ?_ (Nat.le_refl _) (fun _ _ x => x) (fun _ _ => rfl) ?_ ?_ ?_
    · intro q' _; simp only [setQ_qs, logDone_qs]; by_cases hqq : q' = q
      · subst hqq; simp
      · simp [hqq]
    · intro c _ q' hq' he heq
      simp only [setQ_qs, logDone_qs] at he heq
      by_cases hqq : q' = q
      · subst hqq; simp at heq; exact ⟨hq', hne, heq⟩
      · simp [hqq] at he heq; exact ⟨hq', he, heq⟩
    · intro q' hq'
      have : q' ≠ q := by intro e; subst e; exact hidle ((h.p i hi').addref_idle q' hq')
      simp [this]
    · intro q' _ hlt
      simp only [setQ_qs, logDone_qs]; by_cases hqq : q' = q
      · subst hqq; omega
      · simpa [hqq] using hlt
  · apply g.frame
    · rfl
    · intro k q' hm'; exact hm'
    · intro q'; simp only [setQ_qs, logDone_qs]; by_cases hqq : q' = q
      · subst hqq; simp
      · simp [hqq]
    · intro q'; simp only [setQ_qs, logDone_qs]; by_cases hqq : q' = q
      · subst hqq; simp
      · simp [hqq]
    · intro q' he; simp only [setQ_qs, logDone_qs] at he; by_cases hqq : q' = q
      · subst hqq; exact hne
      · simpa [hqq] using he
    · exact g.pool_lt
    · exact g.pool_nodup
    · exact g.pool_empty
    · exact g.held_uniq
    · exact g.addref_uniq
    · intro k
      show (if k = (s.qs q).key then s.done (s.qs q).key ++ [t] else s.done k)
        ++ pending (setQ (logDone s (s.qs q).key t) q { s.qs q with refs := (s.qs q).refs - 1, cpc := .top }) k
        = s.accepted k
      by_cases hk : k = (s.qs q).key
      · have hold := g.main k
        have h1 : pending s k = [t] ++ s.chans (s.qs q).ch ++ (s.qs q).ovf := by
          unfold pending; rw [hk, hmapq]; simp [cur, hcpc]
        have h2 : pending (setQ (logDone s (s.qs q).key t) q { s.qs q with refs := (s.qs q).refs - 1, cpc := .top }) k
            = s.chans (s.qs q).ch ++ (s.qs q).ovf := by
          unfold pending; simp [hk, hmapq, cur]
        rw [h2]; simp only [hk, if_true]
        rw [← hk, ← hold, h1]; simp
      · have : pending (setQ (logDone s (s.qs q).key t) q { s.qs q with refs := (s.qs q).refs - 1, cpc := .top }) k
            = pending s k := by
          refine pending_frame ?_ ?_
          · rfl
          · intro q' hmk
            obtain ⟨a, b⟩ := g.map_lt k q' hmk
            have hqq : q' ≠ q := by intro e; subst e; exact hk b.symm
            exact ⟨by simp [hqq], rfl⟩
        rw [this]; simp only [hk, if_false]; exact g.main k
    · exact g.acc
    · exact g.acc_nodup

end DaeVerif.C13.TQ
