import DaeVerif.C13.TQProd
/-! C13 (a) — invariant preservation: `LoadOrStore` stores a new queue; `refs.Add(1)`+`go convoy()` -/
namespace DaeVerif.C13.TQ

/-- `LoadOrStore` finds no queue for the key and stores the new one -/
theorem inv_store {s : St} (h : Inv s) (p : Nat) (hp : p < s.np) (c : Nat)
    (hpc : (s.prods p).pc = .los c) (hm : s.map (s.prods p).key = none) :
    Inv (setPc (addQueue s (s.prods p).key c) p (.addRef s.nq)) := by
  have g := h.g
  have hP := h.p p hp
  obtain ⟨hc1, hc2, hc3, hc4⟩ := hP.pc_c c (by rw [hpc]; simp [PcC])
  -- nobody refers to the not-yet-existing queue id
  have hnoq : ∀ i, i < s.np → ∀ q, PcQ (s.prods i).pc q → q ≠ s.nq := by
    intro i hi q hq; have := ((h.p i hi).pc_q q hq).1; omega
  have hhold : ∀ q, holders (setPc (addQueue s (s.prods p).key c) p (.addRef s.nq)) q = holders s q := by
    intro q
    have := holders_upd s (setPc (addQueue s (s.prods p).key c) p (.addRef s.nq)) p q hp rfl
      (by intro i hi; simp [hi])
    simpa [hpc] using this
  refine ⟨?_, ?_, ?_⟩
  · intro q hq
    have hq' : q < s.nq + 1 := hq
    by_cases hqn : q = s.nq
    · subst hqn
      have hh0 : holders s s.nq = 0 := by
        apply cnt_zero_of
        intro i hi
        simp only [decide_eq_false_iff_not]
        intro he
        exact hnoq i hi s.nq (by rw [he]; simp [PcQ]) rfl
      constructor
      · simp; exact hc1
      · simp [Claimed]
      · simp
      · simp [Gone]
      · simp
      · simp; exact hc2
      · intro _; rw [hhold]; simp [hh0, hc3, execN]
      · simp
      · simp
      · simp
    · have hq0 : q < s.nq := by omega
      apply (h.q q hq0).frame
      · simp [hqn]
      · exact Nat.le_refl _
      · simp only [setPc_map, addQueue_map]
        by_cases hk : (s.qs q).key = (s.prods p).key
        · simp [hk, hm]; omega
        · simp [hk]
      · intro _ x; exact x
      · exact hhold q
      · intro _; rfl
  · intro i hi
    have hi' : i < s.np := hi
    by_cases hip : i = p
    · subst hip
      constructor
      · intro q hq; simp [PcQ] at hq; subst hq; simp
      · intro c' hc'; simp [PcC] at hc'
      · intro q hq; simp at hq; subst hq; simp
      · intro q r hcc; simp at hcc
      · intro q hq; simp at hq
    · apply PInv.frame (h.p i hi')
      · simp [hip]
      · show s.nq ≤ s.nq + 1; omega
      · intro q hq; have : q ≠ s.nq := by omega
        simp [this]
      · exact Nat.le_refl _
      · intro c' _ x; exact x
      · intro c' _; rfl
      · intro c' hc' q hq he heq
        have hq' : q < s.nq + 1 := hq
        by_cases hqn : q = s.nq
        · subst hqn
          simp at heq; subst heq
          exact absurd (g.held_uniq i p hi' hp _ hc' (by rw [hpc]; simp [PcC])) hip
        · simp [hqn] at he heq
          exact ⟨by omega, he, heq⟩
      · intro q hq
        have : q ≠ s.nq := hnoq i hi' q (by rw [hq]; simp [PcQ])
        simp [this]
      · intro q hq hr
        have : q ≠ s.nq := hnoq i hi' q (by rw [hq]; simp [PcQ])
        simpa [this] using hr
  · constructor
    · intro k q hmk
      simp only [setPc_map, addQueue_map] at hmk
      by_cases hk : k = (s.prods p).key
      · simp [hk] at hmk; subst hmk; subst hk; simp
      · simp [hk] at hmk
        obtain ⟨a, b⟩ := g.map_lt k q hmk
        have : q ≠ s.nq := by omega
        refine ⟨by show q < s.nq + 1; omega, by simp [this]; exact b⟩
    · exact g.pool_lt
    · exact g.pool_nodup
    · exact g.pool_empty
    · intro q1 q2 h1 h2 hne e1 e2
      have h1' : q1 < s.nq + 1 := h1
      have h2' : q2 < s.nq + 1 := h2
      simp only [setPc_qs, addQueue_qs] at e1 e2 ⊢
      by_cases hq1 : q1 = s.nq
      · have hq2 : q2 ≠ s.nq := fun e => hne (hq1.trans e.symm)
        simp [hq1, hq2] at e2 ⊢
        exact fun e => hc4 q2 (by omega) e2 e.symm
      · by_cases hq2 : q2 = s.nq
        · simp [hq1, hq2] at e1 ⊢
          exact hc4 q1 (by omega) e1
        · simp [hq1, hq2] at e1 e2 ⊢
          exact g.ch_inj q1 q2 (by omega) (by omega) hne e1 e2
    · refine held_uniq_of g ?_ ?_
      · rfl
      intro i c' hi hcc
      simp only [setPc_prods] at hcc
      by_cases hip : i = p
      · subst hip; simp [PcC] at hcc
      · simpa [hip] using hcc
    · intro i i' hi hi' q hq hq'
      have hi0 : i < s.np := hi
      have hi0' : i' < s.np := hi'
      simp only [setPc_prods] at hq hq'
      by_cases hip : i = p
      · by_cases hip' : i' = p
        · rw [hip, hip']
        · subst hip
          simp at hq; subst hq
          simp [hip'] at hq'
          exact absurd rfl (hnoq i' hi0' s.nq (by rw [hq']; simp [PcQ]))
      · by_cases hip' : i' = p
        · subst hip'
          simp at hq'; subst hq'
          simp [hip] at hq
          exact absurd rfl (hnoq i hi0 s.nq (by rw [hq]; simp [PcQ]))
        · simp [hip] at hq; simp [hip'] at hq'
          exact g.addref_uniq i i' hi0 hi0' q hq hq'
    · intro k
      show s.done k ++ pending (setPc (addQueue s (s.prods p).key c) p (.addRef s.nq)) k = s.accepted k
      by_cases hk : k = (s.prods p).key
      · have hold := g.main k
        have : pending s k = [] := by unfold pending; rw [hk, hm]
        rw [this] at hold
        have : pending (setPc (addQueue s (s.prods p).key c) p (.addRef s.nq)) k = [] := by
          unfold pending
          simp [hk, cur, hc3]
        rw [this]; exact hold
      · have : pending (setPc (addQueue s (s.prods p).key c) p (.addRef s.nq)) k = pending s k := by
          refine pending_frame ?_ ?_
          · simp [hk]
          · intro q hmk
            have := (g.map_lt k q hmk).1
            have : q ≠ s.nq := by omega
            simp [this]
        rw [this]; exact g.main k
    · refine acc_frame g ?_ ?_ ?_ ?_
      · rfl
      · exact Nat.le_refl _
      · intro t _; simp only [setPc_prods]; by_cases htp : t = p
        · subst htp; simp
        · simp [htp]
      · intro t _ hE; simp only [setPc_prods]; by_cases htp : t = p
        · subst htp; rw [hpc] at hE; exact absurd hE (by simp [Enqueued])
        · simpa [htp] using hE
    · exact g.acc_nodup

end DaeVerif.C13.TQ
