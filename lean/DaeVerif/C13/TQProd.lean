import DaeVerif.C13.TQBasic
/-! C13 (a) — invariant preservation: producer steps (repaired protocol) -/
namespace DaeVerif.C13.TQ

/-- frame for every producer other than the one that moved, when only `prods p`, and possibly
refs/cpc-free parts, changed -/
theorem PInv.frame_same {s s' : St} {i : Nat} (h : PInv s i) (hp : s'.prods i = s.prods i)
    (hnq : s'.nq = s.nq) (hqs : s'.qs = s.qs) (hnch : s'.nch = s.nch) (hpool : s'.pool = s.pool)
    (hch : s'.chans = s.chans) : PInv s' i := by
  apply h.frame hp (by omega) (by intro q _; rw [hqs]) (by omega)
  · intro c _ hin; rw [hpool] at hin; exact hin
  · intro c _; rw [hch]
  · intro c _ q hq he heq; rw [hqs] at he heq; exact ⟨by omega, he, heq⟩
  · intro q _; rw [hqs]
  · intro q _ hr; rw [hqs]; exact hr

/-- a producer step that only moves the producer's program counter -/
theorem inv_setPc_plain {s : St} (h : Inv s) (p : Nat) (hp : p < s.np) (pc' : PPC)
    (hold_enq : ∀ q, (s.prods p).pc ≠ .enq q)
    (hnew_q : ∀ q, PcQ pc' q → q < s.nq ∧ (s.qs q).key = (s.prods p).key)
    (hnew_c : ∀ c, PcC pc' c → PcC (s.prods p).pc c)
    (hnew_enq : ∀ q, pc' ≠ .enq q)
    (hnew_add : ∀ q, pc' ≠ .addRef q)
    (hnew_cas : ∀ q r, (pc' = .fastCas q r ∨ pc' = .slowCas q r) → 0 ≤ r)
    (hnew_del : ∀ q, pc' = .slowDel q → (s.qs q).refs < 0)
    (henq : Enqueued (s.prods p).pc → Enqueued pc') :
    Inv (setPc s p pc') := by
  have hold : ∀ q, holders (setPc s p pc') q = holders s q := by
    intro q
    have := holders_upd s (setPc s p pc') p q hp rfl (by intro i hi; simp [hi])
    simp [hold_enq q, hnew_enq q] at this
    exact this
  refine ⟨?_, ?_, ?_⟩
  · intro q hq
    exact (h.q q hq).frame rfl (Nat.le_refl _) Iff.rfl (fun _ x => x) (hold q) (fun _ => rfl)
  · intro i hi
    by_cases hip : i = p
    · subst hip
      have hP := h.p i hi
      constructor
      · intro q hq; simp at hq ⊢; exact hnew_q q hq
      · intro c hc; simp at hc ⊢; exact hP.pc_c c (hnew_c c hc)
      · intro q hq; simp at hq; exact absurd hq (hnew_add q)
      · intro q r hc; simp at hc; exact hnew_cas q r hc
      · intro q hq; simp at hq; exact hnew_del q hq
    · exact (h.p i hi).frame_same (by simp [hip]) rfl rfl rfl rfl rfl
  · have g := h.g
    constructor
    · exact g.map_lt
    · exact g.pool_lt
    · exact g.pool_nodup
    · exact g.pool_empty
    · exact g.ch_inj
    · intro i i' hi hi' c hc hc'
      simp only [setPc_prods] at hc hc'
      have e1 : PcC (s.prods i).pc c := by
        by_cases hip : i = p
        · subst hip; simp at hc; exact hnew_c c hc
        · simp [hip] at hc; exact hc
      have e2 : PcC (s.prods i').pc c := by
        by_cases hip : i' = p
        · subst hip; simp at hc'; exact hnew_c c hc'
        · simp [hip] at hc'; exact hc'
      exact g.held_uniq i i' hi hi' c e1 e2
    · intro i i' hi hi' q hq hq'
      simp only [setPc_prods] at hq hq'
      by_cases hip : i = p
      · subst hip; simp at hq; exact absurd hq (hnew_add q)
      · by_cases hip' : i' = p
        · subst hip'; simp at hq'; exact absurd hq' (hnew_add q)
        · simp [hip] at hq; simp [hip'] at hq'; exact g.addref_uniq i i' hi hi' q hq hq'
    · intro k
      have : pending (setPc s p pc') k = pending s k := pending_frame rfl (fun _ _ => ⟨rfl, rfl⟩)
      rw [this]; exact g.main k
    · intro k t ht
      obtain ⟨a, b, c⟩ := g.acc k t ht
      refine ⟨a, ?_, ?_⟩
      · simp only [setPc_prods]; by_cases hip : t = p
        · subst hip; simp; exact b
        · simp [hip]; exact b
      · simp only [setPc_prods]; by_cases hip : t = p
        · subst hip; simp; exact henq c
        · simp [hip]; exact c
    · exact g.acc_nodup

/-- transfer of the global facts across a step that creates no queue and no producer -/
theorem GInv.frame {s s' : St} (g : GInv s)
    (hnq : s'.nq = s.nq)
    (hmap : ∀ k q, s'.map k = some q → s.map k = some q)
    (hkey : ∀ q, (s'.qs q).key = (s.qs q).key) (hch : ∀ q, (s'.qs q).ch = (s.qs q).ch)
    (hex : ∀ q, (s'.qs q).cpc ≠ .exited → (s.qs q).cpc ≠ .exited)
    (hpool_lt : ∀ c, c ∈ s'.pool → c < s'.nch)
    (hpool_nd : s'.pool.Nodup)
    (hpool_empty : ∀ c, c ∈ s'.pool → s'.chans c = [])
    (hheld : ∀ p p', p < s'.np → p' < s'.np → ∀ c, PcC (s'.prods p).pc c → PcC (s'.prods p').pc c → p = p')
    (hadd : ∀ p p', p < s'.np → p' < s'.np → ∀ q, (s'.prods p).pc = .addRef q →
      (s'.prods p').pc = .addRef q → p = p')
    (hmain : ∀ k, s'.done k ++ pending s' k = s'.accepted k)
    (hacc : ∀ k t, t ∈ s'.accepted k → t < s'.np ∧ (s'.prods t).key = k ∧ Enqueued (s'.prods t).pc)
    (hnd : ∀ k, (s'.accepted k).Nodup) : GInv s' := by
  constructor
  · intro k q hm
    obtain ⟨a, b⟩ := g.map_lt k q (hmap k q hm)
    exact ⟨by rw [hnq]; exact a, by rw [hkey]; exact b⟩
  · exact hpool_lt
  · exact hpool_nd
  · exact hpool_empty
  · intro q1 q2 h1 h2 hne e1 e2
    rw [hch, hch]
    exact g.ch_inj q1 q2 (by omega) (by omega) hne (hex q1 e1) (hex q2 e2)
  · exact hheld
  · exact hadd
  · exact hmain
  · exact hacc
  · exact hnd

/-- the three pool facts when the pool is unchanged (or shrinks) -/
theorem pool_lt_of {s s' : St} (g : GInv s) (hn : s.nch ≤ s'.nch) (hsub : ∀ c, c ∈ s'.pool → c ∈ s.pool) :
    ∀ c, c ∈ s'.pool → c < s'.nch :=
  fun c hc => Nat.lt_of_lt_of_le (g.pool_lt c (hsub c hc)) hn

theorem pool_empty_of {s s' : St} (g : GInv s) (hsub : ∀ c, c ∈ s'.pool → c ∈ s.pool)
    (hch : ∀ c, c ∈ s.pool → s'.chans c = s.chans c) : ∀ c, c ∈ s'.pool → s'.chans c = [] :=
  fun c hc => by rw [hch c (hsub c hc)]; exact g.pool_empty c (hsub c hc)

theorem held_uniq_of {s s' : St} (g : GInv s) (hnp : s'.np = s.np)
    (hC : ∀ i c, i < s.np → PcC (s'.prods i).pc c → PcC (s.prods i).pc c) :
    ∀ p p', p < s'.np → p' < s'.np → ∀ c, PcC (s'.prods p).pc c → PcC (s'.prods p').pc c → p = p' := by
  intro i i' hi hi' c hc hc'
  rw [hnp] at hi hi'
  exact g.held_uniq i i' hi hi' c (hC i c hi hc) (hC i' c hi' hc')

theorem addref_uniq_of {s s' : St} (g : GInv s) (hnp : s'.np = s.np)
    (hA : ∀ i q, i < s.np → (s'.prods i).pc = .addRef q → (s.prods i).pc = .addRef q) :
    ∀ p p', p < s'.np → p' < s'.np → ∀ q, (s'.prods p).pc = .addRef q →
      (s'.prods p').pc = .addRef q → p = p' := by
  intro i i' hi hi' q hq hq'
  rw [hnp] at hi hi'
  exact g.addref_uniq i i' hi hi' q (hA i q hi hq) (hA i' q hi' hq')

/-- `main` when logs and pending lists are unchanged -/
theorem main_frame {s s' : St} (g : GInv s) (ha : s'.accepted = s.accepted) (hd : s'.done = s.done)
    (hp : ∀ k, pending s' k = pending s k) : ∀ k, s'.done k ++ pending s' k = s'.accepted k := by
  intro k; rw [ha, hd, hp k]; exact g.main k

/-- the pc of producer `p` after `setPc` on any state -/
theorem setPc_pc_self (s : St) (p : Nat) (pc : PPC) : ((setPc s p pc).prods p).pc = pc := by simp

theorem setPc_pc_other (s : St) (p i : Nat) (pc : PPC) (h : i ≠ p) :
    (setPc s p pc).prods i = s.prods i := by simp [h]

/-- `acc` when `accepted` is unchanged -/
theorem acc_frame {s s' : St} (g : GInv s) (ha : s'.accepted = s.accepted) (hnp : s.np ≤ s'.np)
    (hk : ∀ t, t < s.np → (s'.prods t).key = (s.prods t).key)
    (hE : ∀ t, t < s.np → Enqueued (s.prods t).pc → Enqueued (s'.prods t).pc) :
    ∀ k t, t ∈ s'.accepted k → t < s'.np ∧ (s'.prods t).key = k ∧ Enqueued (s'.prods t).pc := by
  intro k t ht
  rw [ha] at ht
  obtain ⟨a, b, c⟩ := g.acc k t ht
  exact ⟨Nat.lt_of_lt_of_le a hnp, by rw [hk t a]; exact b, hE t a c⟩

/-- CAS success in `acquireQueue`: refs r → r+1, the producer now holds a reference -/
theorem inv_cas {s : St} (h : Inv s) (p : Nat) (hp : p < s.np) (q : Nat) (r : Int)
    (hpc : (s.prods p).pc = .fastCas q r ∨ (s.prods p).pc = .slowCas q r)
    (hr : (s.qs q).refs = r) :
    Inv (setPc (setRefs s q (r + 1)) p (.enq q)) := by
  have hPq := (h.p p hp).pc_q q (by cases hpc <;> simp_all [PcQ])
  have hr0 : 0 ≤ r := (h.p p hp).cas_nonneg q r hpc
  have hnotenq : ∀ q', (s.prods p).pc ≠ .enq q' := by intro q'; cases hpc <;> simp_all
  have hnotC : ∀ c, ¬ PcC (s.prods p).pc c := by intro c; cases hpc <;> simp_all [PcC]
  have hnotE : ¬ Enqueued (s.prods p).pc := by cases hpc <;> simp_all [Enqueued]
  have hhold : ∀ q', holders (setPc (setRefs s q (r + 1)) p (.enq q)) q' = holders s q' + (if q' = q then 1 else 0) := by
    intro q'
    have := holders_upd s (setPc (setRefs s q (r + 1)) p (.enq q)) p q' hp rfl (by intro i hi; simp [setRefs, hi])
    simp only [hnotenq q', if_false, Nat.add_zero, setPc_prods, if_true, PPC.enq.injEq] at this
    rw [this]
    by_cases hqq : q' = q
    · subst hqq; simp
    · have : ¬ q = q' := fun h => hqq h.symm
      simp [this, hqq]
  have hQ := h.q q hPq.1
  refine ⟨?_, ?_, ?_⟩
  · intro q' hq'
    by_cases hqq : q' = q
    · subst hqq
      have hnc : ¬ Claimed (s.qs q').cpc := fun hc => by have := hQ.phase.mpr hc; omega
      constructor
      · simp [setRefs]; exact hQ.ch_lt
      · simp [setRefs]; constructor
        · intro hlt; omega
        · intro hc; exact absurd hc hnc
      · simp [setRefs]; intro _; exact hQ.live_map (by omega)
      · simp [setRefs]; exact hQ.gone
      · simp [setRefs]; exact hQ.no_restore
      · simp [setRefs]; exact hQ.ch_pool
      · intro _
        rw [hhold q']
        have := hQ.refs_ge (by omega)
        simp [setRefs] at this ⊢
        omega
      · simp [setRefs]; intro hlt; omega
      · simp [setRefs]; intro hlt; omega
      · simp [setRefs]; exact hQ.mode
    · apply (h.q q' hq').frame
      · simp [setRefs, hqq]
      · exact Nat.le_refl _
      · exact Iff.rfl
      · exact fun _ x => x
      · rw [hhold q']; simp [hqq]
      · intro _; rfl
  · intro i hi
    by_cases hip : i = p
    · subst hip
      constructor
      · intro q' hq'; simp [PcQ] at hq'; subst hq'; simp [setRefs]; exact hPq
      · intro c hc; simp [PcC] at hc
      · intro q' hq'; simp at hq'
      · intro q' r' hc; simp at hc
      · intro q' hq'; simp at hq'
    · apply PInv.frame (h.p i hi)
      · simp [hip, setRefs]
      · exact Nat.le_refl _
      · intro q' _; simp only [setPc_qs, setRefs, setQ_qs]; by_cases hqq : q' = q
        · subst hqq; simp
        · simp [hqq]
      · exact Nat.le_refl _
      · intro c _ hin; exact hin
      · intro c _; rfl
      · intro c _ q' hq' he heq
        simp only [setPc_qs, setRefs, setQ_qs] at he heq
        by_cases hqq : q' = q
        · subst hqq; simp at he heq; exact ⟨hq', he, heq⟩
        · simp [hqq] at he heq; exact ⟨hq', he, heq⟩
      · intro q' _; simp only [setPc_qs, setRefs, setQ_qs]; by_cases hqq : q' = q
        · subst hqq; simp
        · simp [hqq]
      · intro q' _ hlt; simp only [setPc_qs, setRefs, setQ_qs]; by_cases hqq : q' = q
        · subst hqq; omega
        · simpa [hqq] using hlt
  · have g := h.g
    have hkey : ∀ q', ((setPc (setRefs s q (r + 1)) p (.enq q)).qs q').key = (s.qs q').key := by
      intro q'; simp only [setPc_qs, setRefs, setQ_qs]; by_cases hqq : q' = q
      · subst hqq; simp
      · simp [hqq]
    have hcpc : ∀ q', ((setPc (setRefs s q (r + 1)) p (.enq q)).qs q').cpc = (s.qs q').cpc := by
      intro q'; simp only [setPc_qs, setRefs, setQ_qs]; by_cases hqq : q' = q
      · subst hqq; simp
      · simp [hqq]
    have hch : ∀ q', ((setPc (setRefs s q (r + 1)) p (.enq q)).qs q').ch = (s.qs q').ch := by
      intro q'; simp only [setPc_qs, setRefs, setQ_qs]; by_cases hqq : q' = q
      · subst hqq; simp
      · simp [hqq]
    constructor
    · intro k q' hm; rw [hkey]; exact g.map_lt k q' hm
    · exact g.pool_lt
    · exact g.pool_nodup
    · exact g.pool_empty
    · intro q1 q2 h1 h2 hne e1 e2; rw [hcpc] at e1 e2; rw [hch, hch]; exact g.ch_inj q1 q2 h1 h2 hne e1 e2
    · intro i i' hi hi' c hc hc'
      simp only [setPc_prods] at hc hc'
      by_cases hip : i = p
      · subst hip; simp [PcC] at hc
      · by_cases hip' : i' = p
        · subst hip'; simp [PcC] at hc'
        · simp [hip] at hc; simp [hip'] at hc'; exact g.held_uniq i i' hi hi' c hc hc'
    · intro i i' hi hi' q' hq hq'
      simp only [setPc_prods] at hq hq'
      by_cases hip : i = p
      · subst hip; simp at hq
      · by_cases hip' : i' = p
        · subst hip'; simp at hq'
        · simp [hip] at hq; simp [hip'] at hq'; exact g.addref_uniq i i' hi hi' q' hq hq'
    · intro k
      have : pending (setPc (setRefs s q (r + 1)) p (.enq q)) k = pending s k := by
        unfold pending
        simp only [setPc_map, setPc_qs, setPc_chans, setRefs, setQ_map, setQ_chans]
        cases s.map k with
        | none => rfl
        | some q' =>
          simp only [setQ_qs]
          by_cases hqq : q' = q
          · subst hqq; simp [cur]
          · simp [hqq]
      rw [this]; exact g.main k
    · intro k t ht
      obtain ⟨a, b, c⟩ := g.acc k t ht
      have htp : t ≠ p := by intro e; subst e; exact hnotE c
      refine ⟨a, ?_, ?_⟩ <;> simp [htp] <;> assumption
    · exact g.acc_nodup

/-- `queueChPool.Get()` makes a fresh channel (`New`) -/
theorem inv_newChan {s : St} (h : Inv s) (p : Nat) (hp : p < s.np) (hpc : (s.prods p).pc = .create) :
    Inv (setPc (newChan s) p (.los s.nch)) := by
  have g := h.g
  refine ⟨?_, ?_, ?_⟩
  · intro q hq
    have hq' : q < s.nq := hq
    have hQ := h.q q hq'
    apply hQ.frame
    · rfl
    · show s.nch ≤ s.nch + 1; omega
    · exact Iff.rfl
    · exact fun _ x => x
    · have := holders_upd s (setPc (newChan s) p (.los s.nch)) p q hp rfl
        (by intro i hi; simp [hi])
      simpa [hpc] using this
    · intro _
      have : (s.qs q).ch ≠ s.nch := Nat.ne_of_lt hQ.ch_lt
      simp [this]
  · intro i hi
    have hi' : i < s.np := hi
    by_cases hip : i = p
    · subst hip
      constructor
      · intro q hq; simp [PcQ] at hq
      · intro c hc
        simp [PcC] at hc; subst hc
        refine ⟨by simp, ?_, by simp, ?_⟩
        · intro hin; have := g.pool_lt _ hin; simp at this
        · intro q hq _ heq
          have hq0 : q < s.nq := hq
          have := (h.q q hq0).ch_lt
          simp at heq; omega
      · intro q hq; simp at hq
      · intro q r hc; simp at hc
      · intro q hq; simp at hq
    · apply PInv.frame (h.p i hi')
      · simp [hip]
      · exact Nat.le_refl _
      · intro q _; rfl
      · show s.nch ≤ s.nch + 1; omega
      · intro c _ hin; exact hin
      · intro c hc
        have := ((h.p i hi').pc_c c hc).1
        have : c ≠ s.nch := Nat.ne_of_lt this
        simp [this]
      · intro c _ q hq he heq; exact ⟨hq, he, heq⟩
      · intro q _; rfl
      · intro q _ hr; exact hr
  · apply g.frame
    · rfl
    · intro k q hm; exact hm
    · intro q; rfl
    · intro q; rfl
    · intro q he; exact he
    · refine pool_lt_of g ?_ ?_
      · show s.nch ≤ s.nch + 1; omega
      · exact fun _ x => x
    · exact g.pool_nodup
    · refine pool_empty_of g ?_ ?_
      · exact fun _ x => x
      intro c hc
      have : c ≠ s.nch := Nat.ne_of_lt (g.pool_lt c hc)
      simp [this]
    · intro i i' hi hi' c hc hc'
      have hi0 : i < s.np := hi
      have hi0' : i' < s.np := hi'
      simp only [setPc_prods] at hc hc'
      by_cases hip : i = p
      · by_cases hip' : i' = p
        · rw [hip, hip']
        · subst hip
          simp [PcC] at hc; subst hc
          simp [hip'] at hc'
          have := ((h.p i' hi0').pc_c _ hc').1
          omega
      · by_cases hip' : i' = p
        · subst hip'
          simp [PcC] at hc'; subst hc'
          simp [hip] at hc
          have := ((h.p i hi0).pc_c _ hc).1
          omega
        · simp [hip] at hc; simp [hip'] at hc'
          exact g.held_uniq i i' hi0 hi0' c hc hc'
    · refine addref_uniq_of g ?_ ?_
      · rfl
      intro i q hi hq
      simp only [setPc_prods] at hq
      by_cases hip : i = p
      · subst hip; simp at hq
      · simpa [hip] using hq
    · refine main_frame g ?_ ?_ ?_
      · rfl
      · rfl
      intro k
      refine pending_frame ?_ ?_
      · rfl
      intro q hm
      refine ⟨rfl, ?_⟩
      have := (h.q q (g.map_lt k q hm).1).ch_lt
      have : (s.qs q).ch ≠ s.nch := Nat.ne_of_lt this
      simp [this]
    · refine acc_frame g ?_ ?_ ?_ ?_
      · rfl
      · exact Nat.le_refl _
      · intro t _; simp only [setPc_prods]; by_cases htp : t = p
        · subst htp; simp
        · simp [htp]
      · intro t _ hE; simp only [setPc_prods]; by_cases htp : t = p
        · subst htp; rw [hpc] at hE; exact absurd hE (by simp [Enqueued])
        · simpa [htp] using hE
    · exact g.acc_nodup

end DaeVerif.C13.TQ
