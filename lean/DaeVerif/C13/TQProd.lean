import DaeVerif.C13.TQBasic
/-! C13 (a) — invariant preservation: producer steps (repaired protocol) -/
namespace DaeVerif.C13.TQ

/-- frame for every producer other than the one that moved, when only `prods p`, and possibly
refs/cpc-free parts, changed -/
theorem PInv.frame_same {s s' : St} {i : PId} (h : PInv s i) (hp : s'.prods i = s.prods i)
    (hnq : s'.nq = s.nq) (hqs : s'.qs = s.qs) (hnch : s'.nch = s.nch) (hpool : s'.pool = s.pool)
    (hch : s'.chans = s.chans) : PInv s' i := by
  apply h.frame hp (by omega) (by intro q _; rw [hqs]) (by omega)
  · intro c _ hin; rw [hpool] at hin; exact hin
  · intro c _; rw [hch]
  · intro c _ q hq he heq; rw [hqs] at he heq; exact ⟨by omega, he, heq⟩
  · intro q _; rw [hqs]

/-- a producer step that only moves the producer's program counter -/
theorem inv_setPc_plain {s : St} (h : Inv s) (p : PId) (hp : p < s.np) (pc' : PPC)
    (hold_enq : ∀ q, (s.prods p).pc ≠ .enq q)
    (hnew_q : ∀ q, PcQ pc' q → q < s.nq ∧ (s.qs q).key = (s.prods p).key)
    (hnew_c : ∀ c, PcC pc' c → PcC (s.prods p).pc c)
    (hnew_enq : ∀ q, pc' ≠ .enq q)
    (hnew_add : ∀ q, pc' ≠ .addRef q)
    (hnew_cas : ∀ q r, (pc' = .fastCas q r ∨ pc' = .slowCas q r) → 0 ≤ r)
    (henq : Enqueued (s.prods p).pc → Enqueued pc') :
    Inv (setPc s p pc') := by
  have hold : ∀ q, holders (setPc s p pc') q = holders s q := by
    intro q
    have := holders_upd s (setPc s p pc') p q hp rfl (by intro i hi; simp [hi])
    simp [hold_enq q, hnew_enq q] at this
    exact this
  refine ⟨?_, ?_, ?_⟩
  · intro q hq
    exact (h.q q hq).frame rfl (Nat.le_refl _) Iff.rfl (fun _ x => x) (hold q) (fun _ => rfl)
  · intro i hi
    by_cases hip : i = p
    · subst hip
      have hP := h.p i hi
      constructor
      · intro q hq; simp at hq ⊢; exact hnew_q q hq
      · intro c hc; simp at hc ⊢; exact hP.pc_c c (hnew_c c hc)
      · intro q hq; simp at hq; exact absurd hq (hnew_add q)
      · intro q r hc; simp at hc; exact hnew_cas q r hc
    · exact (h.p i hi).frame_same (by simp [hip]) rfl rfl rfl rfl rfl
  · have g := h.g
    constructor
    · exact g.map_lt
    · exact g.pool_lt
    · exact g.pool_nodup
    · exact g.pool_empty
    · exact g.ch_inj
    · intro i i' hi hi' c hc hc'
      simp only [setPc_prods] at hc hc'
      have e1 : PcC (s.prods i).pc c := by
        by_cases hip : i = p
        · subst hip; simp at hc; exact hnew_c c hc
        · simp [hip] at hc; exact hc
      have e2 : PcC (s.prods i').pc c := by
        by_cases hip : i' = p
        · subst hip; simp at hc'; exact hnew_c c hc'
        · simp [hip] at hc'; exact hc'
      exact g.held_uniq i i' hi hi' c e1 e2
    · intro i i' hi hi' q hq hq'
      simp only [setPc_prods] at hq hq'
      by_cases hip : i = p
      · subst hip; simp at hq; exact absurd hq (hnew_add q)
      · by_cases hip' : i' = p
        · subst hip'; simp at hq'; exact absurd hq' (hnew_add q)
        · simp [hip] at hq; simp [hip'] at hq'; exact g.addref_uniq i i' hi hi' q hq hq'
    · intro k
      have : pending (setPc s p pc') k = pending s k := pending_frame rfl (fun _ _ => ⟨rfl, rfl⟩)
      rw [this]; exact g.main k
    · intro k t ht
      obtain ⟨a, b, c⟩ := g.acc k t ht
      refine ⟨a, ?_, ?_⟩
      · simp only [setPc_prods]; by_cases hip : t = p
        · subst hip; simp; exact b
        · simp [hip]; exact b
      · simp only [setPc_prods]; by_cases hip : t = p
        · subst hip; simp; exact henq c
        · simp [hip]; exact c
    · exact g.acc_nodup

end DaeVerif.C13.TQ
