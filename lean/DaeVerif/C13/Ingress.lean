import DaeVerif.C13.TQ
import DaeVerif.C13.Keys
/-!
# C13 — UDP ingress: from the listener socket to the per-flow task queues
(`control/control_plane.go`, `(*ControlPlane).Serve`: the `processPacket` closure and the batch-read loop)

For every datagram the reader goroutine

1. takes the original destination from the control message and converges both addresses
   (`common.ConvergeAddrPort`: an IPv4-mapped IPv6 address becomes the IPv4 address),
2. classifies the flow (`ClassifyUdpFlow`: flow key = converged source and destination),
3. dispatches the packet task: `DefaultUdpTaskPool.EmitTask(flowDecision.Key, task)` for ordered flows,
   `go task()` for the direct-dispatch ports (DNS, SIP/RTP, STUN).

`Spec` is the sequential specification the harness stream `c13_ing` is compared with (which queue ran a
datagram's task, per-flow execution order).  `Sys` composes ONE reader goroutine — `EmitTask` calls one
after the other, as the single `for`-loop of `Serve` makes them — with the task-queue transition system
`TQ` (convoys interleave freely); the theorem about it (`ingress_runs_in_arrival_order`) is what connects
"the order the datagrams were read from the socket" to `TQ`'s acceptance order.

Core Lean only.
-/
namespace DaeVerif.C13.Ingress
open Keys

/-! ### addresses: the harness numbers an address as hex("4" ++ 4 bytes) or hex("6" ++ 16 bytes) -/

def v4Tag : Nat := 4 * 16 ^ 8
def v6Tag : Nat := 6 * 16 ^ 32

/-- `netip.Addr.Is4In6` on that numbering: family 6 and the upper 96 bits are `::ffff:0:0/96` -/
def is4In6 (ip : Nat) : Bool := ip / 16 ^ 32 == 6 && (ip % 16 ^ 32) / 2 ^ 32 == 0xffff

/-- `common.ConvergeAddrPort` -/
def converge (a : AP) : AP :=
  if a.valid && is4In6 a.ip then ⟨true, v4Tag + a.ip % 2 ^ 32, a.port⟩ else a

/-- a datagram as the socket delivers it -/
structure Dgram where
  /-- peer address reported by the socket -/
  src : AP
  /-- original destination carried by the control message (`RetrieveOriginalDest`) -/
  dst : AP
  deriving DecidableEq, Repr

/-- `UdpFlowKey` handed to `EmitTask`: `ClassifyUdpFlow(converge src, converge dst, _).Key` -/
def flowKey (d : Dgram) : AP × AP := (converge d.src, converge d.dst)

/-- `flowDecision.DispatchStrategy()`: `true` = `StrategyOrderedIngress` (per-flow queue),
`false` = `StrategyDirectGoroutine`.  `direct` is the direct-dispatch port set read off the code. -/
def ordered (direct : List (Nat × Nat)) (d : Dgram) : Bool :=
  orderedIngressIn direct (converge d.src).port (converge d.dst).port

/-! ### sequential specification (what stream `c13_ing` is compared with) -/

namespace Spec

structure St where
  /-- datagrams in the order the socket delivered them; a datagram's id is its position -/
  arrived : List Dgram := []

def arrive (s : St) (d : Dgram) : St := { s with arrived := s.arrived ++ [d] }

/-- who runs datagram `i`'s task: `some key` = the convoy of the queue of flow `key`, `none` = a goroutine
of its own -/
def runsUnder (direct : List (Nat × Nat)) (s : St) (i : Nat) : Option (Option (AP × AP)) :=
  match s.arrived[i]? with
  | some d => some (if ordered direct d then some (flowKey d) else none)
  | none => none

/-- ids of the ordered datagrams of flow `key`, in arrival order -/
def idsOf (direct : List (Nat × Nat)) (key : AP × AP) : List Dgram → Nat → List Nat
  | [], _ => []
  | d :: ds, i => if ordered direct d && decide (flowKey d = key) then i :: idsOf direct key ds (i + 1)
                  else idsOf direct key ds (i + 1)

/-- the order in which the tasks of flow `key` must run: the order their datagrams were read -/
def flowOrder (direct : List (Nat × Nat)) (s : St) (key : AP × AP) : List Nat := idsOf direct key s.arrived 0

end Spec

/-! ### one reader goroutine in front of the task queues -/

namespace Sys
open TQ

structure St where
  tq : TQ.St
  /-- ghost: task-queue key of the i-th ordered datagram the reader dispatched (i = its `EmitTask` call =
  its task id in `TQ`) -/
  arrivals : List Nat

def init : St := ⟨TQ.init, []⟩

/-- the reader is between two datagrams: its previous `EmitTask` call has returned -/
def readerIdle (s : TQ.St) : Bool :=
  s.np == 0 || decide ((s.prods (s.np - 1)).pc = .done)

inductive Act
  /-- the reader takes the next ordered datagram (flow `k`) from the batch and calls `EmitTask(k, task)` -/
  | arrive (k : Nat)
  /-- the reader's next shared access inside `EmitTask` (`c`: what `queueChPool.Get()` hands out) -/
  | reader (c : Option Nat)
  /-- a convoy's next shared access -/
  | conv (q : Nat) (sel : Sel)
  deriving DecidableEq, Repr

def step (cfg : Cfg) (s : St) : Act → Option St
  | .arrive k => if readerIdle s.tq then some ⟨addProd s.tq k, s.arrivals ++ [k]⟩ else none
  | .reader c =>
    if s.tq.np = 0 then none
    else match stepProd cfg s.tq (s.tq.np - 1) c with
      | some t => some ⟨t, s.arrivals⟩
      | none => none
  | .conv q sel =>
    match stepConv cfg s.tq q sel with
    | some t => some ⟨t, s.arrivals⟩
    | none => none

inductive Reachable (cfg : Cfg) : St → Prop
  | init : Reachable cfg init
  | step {s s' : St} (a : Act) : Reachable cfg s → step cfg s a = some s' → Reachable cfg s'

def run (cfg : Cfg) : St → List Act → Option St
  | s, [] => some s
  | s, a :: as => match step cfg s a with
    | some s' => run cfg s' as
    | none => none

/-- the reader's current `EmitTask` call has passed its `enqueue` -/
def enqueuedB : PPC → Bool
  | .rel _ | .done => true
  | _ => false

/-- number of `EmitTask` calls whose `enqueue` has run -/
def enqCount (s : TQ.St) : Nat :=
  if s.np = 0 then 0 else if enqueuedB (s.prods (s.np - 1)).pc then s.np else s.np - 1

/-- ids (= positions in the arrival order) of the first `n` ordered datagrams that belong to flow `k` -/
def idsUpTo (arr : List Nat) (k : Nat) (n : Nat) : List Nat :=
  (List.range n).filter fun i => arr[i]? == some k

end Sys

end DaeVerif.C13.Ingress
