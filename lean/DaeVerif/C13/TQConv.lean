import DaeVerif.C13.TQProd
/-! C13 (a) — invariant preservation: convoy steps (repaired protocol) -/
namespace DaeVerif.C13.TQ

theorem cur_nil_of_execN {Q : Queue} (h : execN Q.cpc = 0) : cur Q = [] := by
  unfold cur; cases hc : Q.cpc <;> simp_all [execN]

/-- holders do not change when no producer moves -/
theorem holders_setQ (s : St) (q : Nat) (Q : Queue) (q' : Nat) : holders (setQ s q Q) q' = holders s q' :=
  holders_same _ _ _ rfl (fun _ _ => rfl)

/-- frame for the producers when only queue q's record changed, keeping key, ch, and refs' sign -/
theorem PInv.frame_setQ {s : St} {i : Nat} (h : PInv s i) (q : Nat) (Q : Queue)
    (hkey : Q.key = (s.qs q).key) (hch : Q.ch = (s.qs q).ch)
    (hex : Q.cpc ≠ .exited → (s.qs q).cpc ≠ .exited)
    (hidle : (s.qs q).cpc = .idle → Q.cpc = .idle)
    (hnotidle : (s.qs q).cpc ≠ .idle → ∀ q', (s.prods i).pc = .addRef q' → q' ≠ q)
    (hrefs : (s.qs q).refs < 0 → Q.refs < 0) : PInv (setQ s q Q) i := by
  refine h.frame (s' := setQ s q Q) rfl (Nat.le_refl _) ?_ (Nat.le_refl _) (fun _ _ x => x)
    (fun _ _ => rfl) ?_ ?_ ?_
  · intro q' _
    simp only [setQ_qs]
    by_cases hqq : q' = q
    · subst hqq; simp [hkey]
    · simp [hqq]
  · intro c _ q' hq' he heq
    simp only [setQ_qs] at he heq
    by_cases hqq : q' = q
    · subst hqq; simp at he heq; exact ⟨hq', hex he, by rw [← hch]; exact heq⟩
    · simp [hqq] at he heq; exact ⟨hq', he, heq⟩
  · intro q' hq'
    simp only [setQ_qs]
    by_cases hqq : q' = q
    · subst hqq
      simp
      by_cases hi : (s.qs q').cpc = .idle
      · rw [hidle hi, hi]
      · exact absurd rfl (hnotidle hi q' hq')
    · simp [hqq]
  · intro q' _ hlt
    simp only [setQ_qs]
    by_cases hqq : q' = q
    · subst hqq; simp; exact hrefs hlt
    · simpa [hqq] using hlt

/-- a convoy step that only moves the convoy's program counter (and possibly clears
`overflowMode` of an empty overflow list) inside its current phase -/
theorem inv_setCpc_plain {s : St} (h : Inv s) (q : Nat) (hq : q < s.nq) (c' : CPC) (m : Bool)
    (hcl : Claimed c' ↔ Claimed (s.qs q).cpc)
    (hgone : Gone c' → s.map (s.qs q).key ≠ some q)
    (hres : c' ≠ .restore)
    (hex : c' ≠ .exited) (hne : (s.qs q).cpc ≠ .exited)
    (hexec : execN c' = 0) (hexec0 : execN (s.qs q).cpc = 0)
    (hidle : (s.qs q).cpc ≠ .idle)
    (hm : m = (s.qs q).ovfMode ∨ (s.qs q).ovf = []) :
    Inv (setQ s q { s.qs q with ovfMode := m, cpc := c' }) := by
  have g := h.g
  have hQ := h.q q hq
  refine ⟨?_, ?_, ?_⟩
  · intro q' hq'
    have hq0 : q' < s.nq := hq'
    by_cases hqq : q' = q
    · subst hqq
      constructor
      · simp; exact hQ.ch_lt
      · simp; rw [hcl]; exact hQ.phase
      · simp; exact hQ.live_map
      · simp; exact hgone
      · simp; exact hres
      · simp; intro _; exact hQ.ch_pool hne
      · intro h0
        rw [holders_setQ]
        have h0' : 0 ≤ (s.qs q').refs := by simpa using h0
        have := hQ.refs_ge h0'
        simp [hexec, hexec0] at this ⊢
        exact this
      · rw [holders_setQ]; simp; exact hQ.claimed_hold
      · simp; intro hlt _; exact hQ.claimed_chan hlt hne
      · simp; intro hmf
        cases hm with
        | inl e => exact hQ.mode (by rw [← e]; exact hmf)
        | inr e => exact e
    · apply (h.q q' hq0).frame
      · simp [hqq]
      · exact Nat.le_refl _
      · exact Iff.rfl
      · exact fun _ x => x
      · exact holders_setQ _ _ _ _
      · intro _; rfl
  · intro i hi
    have hi' : i < s.np := hi
    refine (h.p i hi').frame_setQ q _ rfl rfl ?_ ?_ ?_ ?_
    · intro _; exact hne
    · intro e; exact absurd e hidle
    · intro _ q' hq' e
      subst e
      exact hidle ((h.p i hi').addref_idle q' hq')
    · intro hlt; exact hlt
  · apply g.frame
    · rfl
    · intro k q' hm'; exact hm'
    · intro q'; simp only [setQ_qs]; by_cases hqq : q' = q
      · subst hqq; simp
      · simp [hqq]
    · intro q'; simp only [setQ_qs]; by_cases hqq : q' = q
      · subst hqq; simp
      · simp [hqq]
    · intro q' he; simp only [setQ_qs] at he; by_cases hqq : q' = q
      · subst hqq; exact hne
      · simpa [hqq] using he
    · exact g.pool_lt
    · exact g.pool_nodup
    · exact g.pool_empty
    · exact g.held_uniq
    · exact g.addref_uniq
    · refine main_frame g ?_ ?_ ?_
      · rfl
      · rfl
      intro k
      unfold pending
      simp only [setQ_map, setQ_chans]
      cases s.map k with
      | none => rfl
      | some q' =>
        simp only [setQ_qs]
        by_cases hqq : q' = q
        · subst hqq
          have e1 : cur { (s.qs q') with ovfMode := m, cpc := c' } = [] := cur_nil_of_execN hexec
          have e2 : cur (s.qs q') = [] := cur_nil_of_execN hexec0
          simp [e1, e2]
        · simp [hqq]
    · exact g.acc
    · exact g.acc_nodup

end DaeVerif.C13.TQ
