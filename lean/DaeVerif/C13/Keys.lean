/-!
# C13 (d, pure part) — the endpoint-key choice of `control/udp_flow.go`

Which pool key a packet's endpoint is looked up / created under.  Pure functions of the flow
classification (`UdpFlowDecision`) and the routing scope.  Core Lean only.
-/
namespace DaeVerif.C13.Keys

/-- `netip.AddrPort`; the zero value `netip.AddrPort{}` is `⟨false, 0, 0⟩`. `ip` numbers the
address (family included), so equal `AP` ⇔ equal `netip.AddrPort`. -/
structure AP where
  valid : Bool
  ip : Nat
  port : Nat
  deriving DecidableEq, Repr

def AP.zero : AP := ⟨false, 0, 0⟩

/-- `udpEndpointRouteScope` -/
structure Scope where
  outbound : Nat
  mark : Nat
  dscp : Nat
  pname : Nat
  mac : Nat
  deriving DecidableEq, Repr

def Scope.zero : Scope := ⟨0, 0, 0, 0, 0⟩

/-- `UdpEndpointKey` -/
structure EKey where
  src : AP
  dst : AP
  scope : Scope
  deriving DecidableEq, Repr

/-- the fields of `bpfRoutingResult` that matter here -/
structure Routing where
  outbound : Nat
  mark : Nat
  dscp : Nat
  pname : Nat
  mac : Nat
  deriving DecidableEq, Repr

/-- `consts.OutboundControlPlaneRouting` -/
def outboundControlPlaneRouting : Nat := 0xFD

/-- `newUdpEndpointRouteScope` (`none` = nil result) -/
def newRouteScope : Option Routing → Scope
  | none => Scope.zero
  | some r =>
    if r.outbound = outboundControlPlaneRouting then ⟨r.outbound, r.mark, r.dscp, r.pname, r.mac⟩
    else ⟨r.outbound, r.mark, 0, 0, 0⟩

/-- `udpRouteScopeNeedsDestinationAffinity` -/
def needsDestinationAffinity : Option Routing → Bool
  | none => false
  | some r => r.outbound = outboundControlPlaneRouting

/-- `UdpFlowDecision` (the fields the key functions read) -/
structure Decision where
  src : AP
  dst : AP
  hasSniffer : Bool
  isQuicInitial : Bool
  allowsSniffing : Bool
  deriving DecidableEq, Repr

def portAllowsSniffing (p : Nat) : Bool := p = 443 || p = 8443

/-- `udpFlowAllowsSniffing` -/
def flowAllowsSniffing (src dst : AP) : Bool := portAllowsSniffing dst.port || portAllowsSniffing src.port

def Decision.confirmed (d : Decision) : Bool := d.isQuicInitial || d.hasSniffer

def symKey (d : Decision) (sc : Scope) : EKey := ⟨d.src, d.dst, sc⟩
def coneKey (d : Decision) (sc : Scope) : EKey := ⟨d.src, AP.zero, sc⟩

/-- `EndpointKeyForInitialLookupWithScope` -/
def lookupKey (sc : Scope) (force : Bool) (d : Decision) : EKey :=
  if force || d.confirmed || d.allowsSniffing then symKey d sc else coneKey d sc

/-- `InitialLookupFallbackKeyWithScope` -/
def lookupFallback (sc : Scope) (force : Bool) (d : Decision) : Option EKey :=
  if force then none
  else if d.allowsSniffing && !d.confirmed then some (coneKey d sc) else none

/-- `EndpointKeyForDialWithScope` (`dom` = the sniffed domain is non-empty) -/
def dialKey (dom : Bool) (sc : Scope) (force : Bool) (d : Decision) : EKey :=
  if force || dom || d.confirmed then symKey d sc else coneKey d sc

/-- the flow is destination-bound when it dials -/
def dialSymmetric (dom force : Bool) (d : Decision) : Bool := force || dom || d.confirmed

/-- `CachedRoutingEndpointKey` / `CachedRoutingFallbackKey` (no scope) -/
def cachedRoutingKey (d : Decision) : EKey :=
  if d.confirmed then symKey d Scope.zero else coneKey d Scope.zero

def cachedRoutingFallback (d : Decision) : Option EKey :=
  if d.allowsSniffing && !d.confirmed then some (symKey d Scope.zero) else none

/-- `NatTimeoutForDial`: true = `QuicNatTimeout`, false = `DefaultNatTimeout` -/
def natTimeoutIsQuic (dom : Bool) (d : Decision) : Bool := dom || d.confirmed

/-- `ShouldUseGoroutineDirectly`: DNS, SIP, RTP range, STUN bypass the ordered task pool. -/
def goroutineDirectly (srcPort dstPort : Nat) : Bool :=
  (dstPort = 53 || srcPort = 53) ||
  (dstPort = 5060 || srcPort = 5060) ||
  ((5004 ≤ dstPort && dstPort ≤ 5060) || (5004 ≤ srcPort && srcPort ≤ 5060)) ||
  (dstPort = 3478 || srcPort = 3478)

/-- `ShouldUseOrderedIngress` -/
def orderedIngress (srcPort dstPort : Nat) : Bool := !goroutineDirectly srcPort dstPort

/-! The two port sets are tuning constants of the code, not part of the property: the driver takes
them from the harness (which reads them off the production predicates, port by port) and checks the
*rule*: a flow is sniff-eligible / dispatched directly iff one of its two ports is in the set, and
ordered ingress is the complement of direct dispatch. -/

/-- port sets as lists of inclusive ranges -/
def inRanges (rs : List (Nat × Nat)) (p : Nat) : Bool := rs.any fun r => r.1 ≤ p && p ≤ r.2

def sniffPortsDefault : List (Nat × Nat) := [(443, 443), (8443, 8443)]
def directPortsDefault : List (Nat × Nat) := [(53, 53), (3478, 3478), (5004, 5060)]

def flowAllowsSniffingIn (rs : List (Nat × Nat)) (src dst : AP) : Bool := inRanges rs dst.port || inRanges rs src.port
def goroutineDirectlyIn (rs : List (Nat × Nat)) (srcPort dstPort : Nat) : Bool := inRanges rs dstPort || inRanges rs srcPort
def orderedIngressIn (rs : List (Nat × Nat)) (srcPort dstPort : Nat) : Bool := !goroutineDirectlyIn rs srcPort dstPort

end DaeVerif.C13.Keys
