/-!
# C13 — ingress batch reader (`control/udp_ingress_batch.go`): one exclusive buffer per packet

`ReadBatch` reads up to `len(slots)` datagrams into the slots' buffers; `Take(i)` hands the i-th
datagram's buffer to the packet's task (which may sit in a per-flow queue for a long time) and
empties the slot, so the next `ReadBatch` must give that slot a fresh buffer.  Buffers are numbered
in order of allocation (`pool.GetFullCap`).  Core Lean only.
-/
namespace DaeVerif.C13.Batch

structure St where
  /-- per slot: the buffer it currently owns -/
  slots : List (Option Nat)
  /-- content of every buffer ever allocated -/
  bufs : Nat → List Nat
  nbuf : Nat
  /-- how many datagrams the last `ReadBatch` delivered -/
  have_ : Nat
  /-- buffers handed out by `Take` (owned by tasks from then on) -/
  taken : List Nat

def init (n : Nat) : St := { slots := List.replicate n none, bufs := fun _ => [], nbuf := 0, have_ := 0, taken := [] }

/-- give every empty slot a fresh buffer -/
def fill : List (Option Nat) → Nat → List (Option Nat) × Nat
  | [], n => ([], n)
  | some b :: rest, n => let r := fill rest n; (some b :: r.1, r.2)
  | none :: rest, n => let r := fill rest (n + 1); (some n :: r.1, r.2)

/-- write datagram payloads into the first slots' buffers -/
def store (bufs : Nat → List Nat) : List (Option Nat) → List (List Nat) → Nat → List Nat
  | some b :: slots, p :: ps, x => if x = b then p else store bufs slots ps x
  | _, _, x => bufs x

/-- `ReadBatch()` receiving the datagrams `pkts` (at most one per slot) -/
def readBatch (s : St) (pkts : List (List Nat)) : St :=
  let r := fill s.slots s.nbuf
  { s with slots := r.1, nbuf := r.2, bufs := store s.bufs r.1 (pkts.take s.slots.length),
           have_ := min pkts.length s.slots.length }

/-- `Take(i)`: (buffer, payload) of datagram i, the slot is emptied -/
def take (s : St) (i : Nat) : St × Option (Nat × List Nat) :=
  match s.slots[i]? with
  | some (some b) => ({ s with slots := s.slots.set i none, taken := b :: s.taken }, some (b, s.bufs b))
  | _ => (s, none)

inductive Op
  | read (pkts : List (List Nat))
  | take (i : Nat)
  deriving DecidableEq, Repr

def step (s : St) : Op → St
  | .read pkts => readBatch s pkts
  | .take i => (take s i).1

def run : St → List Op → St
  | s, [] => s
  | s, op :: ops => run (step s op) ops

end DaeVerif.C13.Batch
