import DaeVerif.C13.EPProofs
/-! C13 (d) — endpoint pool: whatever the table maps a key to is an open endpoint of that key
(over all histories of well-formed operations, split steps included) -/
namespace DaeVerif.C13.EP

/-- the table only ever points to open endpoints stored under their own key -/
def PoolOk (s : St) : Prop :=
  ∀ k e, s.pool k = some e → e < s.neps ∧ (s.eps e).key = k ∧ (s.eps e).closed = false

theorem poolOk_init : PoolOk init := by intro k e h; simp [init] at h

/-- under `PoolOk` an endpoint is pooled at most under its own key -/
theorem not_pooled_of {s : St} (h : PoolOk s) {e : Nat} (hk : s.pool (s.eps e).key ≠ some e) :
    ∀ k, s.pool k ≠ some e := by
  intro k hp
  have := (h k e hp).2.1
  rw [← this] at hp; exact hk hp

theorem PoolOk.of_eq {s s' : St} (h : PoolOk s) (hp : s'.pool = s.pool) (hn : s'.neps = s.neps)
    (he : s'.eps = s.eps) : PoolOk s' := by
  intro k e hk; rw [hp] at hk; rw [hn, he]; exact h k e hk

/-- rewriting a record, keeping key and closed flag -/
theorem PoolOk.setEp {s : St} (h : PoolOk s) (e : Nat) (E : Ep) (h1 : E.key = (s.eps e).key)
    (h2 : E.closed = (s.eps e).closed) : PoolOk (setEp s e E) := by
  intro k x hk
  have := h k x hk
  refine ⟨this.1, ?_, ?_⟩ <;> (simp only [setEp_eps]; by_cases hx : x = e)
  · subst hx; simp [h1, this.2.1]
  · simp [hx, this.2.1]
  · subst hx; simp [h2, this.2.2]
  · simp [hx, this.2.2]

/-- rewriting the record of an endpoint the table does not point to -/
theorem clearIndex_poolOk {s : St} (h : PoolOk s) : PoolOk (clearIndex s) := by
  intro k e hk; exact h k e hk

theorem PoolOk.setEp_unpooled {s : St} (h : PoolOk s) (e : Nat) (E : Ep) (hu : ∀ k, s.pool k ≠ some e) :
    PoolOk (EP.setEp s e E) := by
  intro k x hk
  have hx : x ≠ e := by intro e'; subst e'; exact hu k hk
  have := h k x hk
  simp only [setEp_eps, hx, if_false]; exact this

theorem PoolOk.setPool_none {s : St} (h : PoolOk s) (k : Nat) : PoolOk (setPool s k none) := by
  intro k' e hk
  simp only [setPool_pool] at hk
  by_cases hkk : k' = k
  · simp [hkk] at hk
  · simp only [hkk, if_false] at hk; exact h k' e hk

theorem closeEp_poolOk {s : St} (h : PoolOk s) (e : Nat) (hu : ∀ k, s.pool k ≠ some e) : PoolOk (closeEp s e) := by
  unfold closeEp
  split
  · exact h
  · apply PoolOk.setEp_unpooled
    · exact PoolOk.of_eq h (by rw [(releaseDrain_good _ e).2.2, (releaseCs_good s e).2.2])
        (by rw [(releaseDrain_good _ e).2.1, (releaseCs_good s e).2.1])
        (by rw [(releaseDrain_good _ e).1, (releaseCs_good s e).1])
    · intro k; rw [(releaseDrain_good _ e).2.2, (releaseCs_good s e).2.2]; exact hu k

/-- take the entry out of the table, then close it -/
theorem dropClose_poolOk {s : St} (h : PoolOk s) (k e : Nat) (hp : s.pool k = some e) :
    PoolOk (closeEp (setPool s k none) e) := by
  apply closeEp_poolOk (PoolOk.setPool_none h k)
  intro k' hk'
  simp only [setPool_pool] at hk'
  by_cases hkk : k' = k
  · simp [hkk] at hk'
  · simp only [hkk, if_false] at hk'
    have a := (h k' e hk').2.1
    have b := (h k e hp).2.1
    exact hkk (a.symm.trans b)

theorem markDead_poolOk {s : St} (h : PoolOk s) (e : Nat) : PoolOk (markDead s e) := by
  unfold markDead; exact PoolOk.setEp h e _ rfl rfl

theorem selfRemove_poolOk {s : St} (h : PoolOk s) (e : Nat) :
    PoolOk (selfRemove s e) ∧ (selfRemove s e).pool (s.eps e).key ≠ some e ∧ (selfRemove s e).eps = s.eps := by
  unfold selfRemove
  split
  · exact ⟨PoolOk.setPool_none h _, by simp, rfl⟩
  · rename_i hn; exact ⟨h, hn, rfl⟩

theorem retire_poolOk {s : St} (h : PoolOk s) (e : Nat) : PoolOk (retire s e) := by
  unfold retire
  have h1 := markDead_poolOk h e
  obtain ⟨h2, h3, h4⟩ := selfRemove_poolOk h1 e
  apply closeEp_poolOk h2
  apply not_pooled_of h2
  rw [h4]; exact h3

theorem foldl_poolOk {α} (f : St → α → St) (hf : ∀ s a, PoolOk s → PoolOk (f s a)) :
    ∀ (l : List α) (s : St), PoolOk s → PoolOk (l.foldl f s) := by
  intro l; induction l with
  | nil => intro s h; exact h
  | cons a l ih => intro s h; exact ih _ (hf s a h)

theorem dropStale_poolOk {s : St} (h : PoolOk s) (k : Nat) : PoolOk (dropStale s k) ∧ (dropStale s k).pool k = none := by
  unfold dropStale
  cases hp : s.pool k with
  | none => exact ⟨h, hp⟩
  | some e => exact ⟨dropClose_poolOk h k e hp, by rw [closeEp_pool]; simp⟩

theorem epochCounter_poolOk {s : St} (h : PoolOk s) (d : Nat) : PoolOk (epochCounter s d).1 := by
  unfold epochCounter; split
  · exact h
  · exact PoolOk.of_eq h rfl rfl rfl

theorem acquireTicket_poolOk {s : St} (h : PoolOk s) (dr : Option Nat) : PoolOk (acquireTicket s dr).1 := by
  unfold acquireTicket; split
  · exact PoolOk.of_eq h rfl rfl rfl
  · exact h

/-- publishing an open record under its own key -/
theorem publishEp_poolOk {s : St} (h : PoolOk s) (E : Ep) (hc : E.closed = false) : PoolOk (publishEp s E) := by
  intro k e hk
  have heps : ∀ i, (publishEp s E).eps i = if i = s.neps then E else s.eps i := fun _ => rfl
  have hn : (publishEp s E).neps = s.neps + 1 := rfl
  have hpool : (publishEp s E).pool k = if k = E.key then some s.neps else s.pool k := rfl
  rw [hpool] at hk
  rw [hn, heps]
  by_cases hkk : k = E.key
  · simp only [hkk, if_true, Option.some.injEq] at hk
    subst hk; simp [hkk, hc]
  · simp only [hkk, if_false] at hk
    have := h k e hk
    have hne : e ≠ s.neps := Nat.ne_of_lt this.1
    simp only [hne, if_false]
    exact ⟨by omega, this.2.1, this.2.2⟩

theorem allocEp_poolOk {s : St} (h : PoolOk s) (E : Ep) (hc : E.closed = false) : PoolOk (allocEp s E) := by
  rw [allocEp_split]
  exact publishEp_poolOk (PoolOk.of_eq (s' := countDial s) h rfl rfl rfl) E hc

theorem adopt_poolOk {s : St} (h : PoolOk s) (e : Nat) (o dr : Option Nat) : PoolOk (adopt s e o dr) := by
  unfold adopt
  split
  · exact h
  · have h1 : PoolOk (adoptOwner s e o) := by
      unfold adoptOwner
      cases o with
      | none => exact h
      | some o =>
        simp only
        have key : ∀ t : St, t.pool = s.pool → t.neps = s.neps → t.eps = s.eps →
            PoolOk (EP.setEp t e { (s.eps e) with owner := some o }) := by
          intro t a b c
          exact PoolOk.setEp (PoolOk.of_eq h a b c) e _ (by rw [c]) (by rw [c])
        split
        · split
          · exact key _ rfl rfl rfl
          · exact key _ rfl rfl rfl
        · exact key _ rfl rfl rfl
    unfold adoptDrain
    cases dr with
    | none => exact h1
    | some d =>
      simp only
      split
      · exact h1
      · have a : (releaseDrain (setDrn (adoptOwner s e o) d (Drain.step ((adoptOwner s e o).drn d) .acquire)) e).pool
            = (adoptOwner s e o).pool := by rw [(releaseDrain_good _ e).2.2]; rfl
        have b : (releaseDrain (setDrn (adoptOwner s e o) d (Drain.step ((adoptOwner s e o).drn d) .acquire)) e).neps
            = (adoptOwner s e o).neps := by rw [(releaseDrain_good _ e).2.1]; rfl
        have c : (releaseDrain (setDrn (adoptOwner s e o) d (Drain.step ((adoptOwner s e o).drn d) .acquire)) e).eps
            = (adoptOwner s e o).eps := by rw [(releaseDrain_good _ e).1]; rfl
        exact PoolOk.setEp (PoolOk.of_eq h1 a b c) e _ (by rw [c]) (by rw [c])

/-- the operations a caller of the pool may issue in a state: `Remove(key, ue)` with the key `ue` is
(or was) pooled under, and a bare `Close()` only on an endpoint that has left the table — what
`handlePkt` and the pool's own paths do -/
def WfOp (s : St) : Op → Prop
  | .remove k e => s.pool k = some e ∨ s.pool (s.eps e).key ≠ some e
  | .close e => s.pool (s.eps e).key ≠ some e
  | _ => True

instance (s : St) (op : Op) : Decidable (WfOp s op) := by
  cases op <;> unfold WfOp <;> infer_instance

theorem getOrCreate_poolOk {s : St} (h : PoolOk s) (k : Nat) (sym : Bool) (nat : Nat) (o dr : Option Nat) (d : Nat)
    (out : DialOutcome) : PoolOk (getOrCreate s k sym nat o dr d out).1 := by
  unfold getOrCreate
  split
  · exact h
  · split
    · rename_i e _
      apply adopt_poolOk
      apply PoolOk.setEp h
      · unfold updateNatTimeout; split <;> rfl
      · unfold updateNatTimeout; split <;> rfl
    · cases out with
      | failNoAlive => exact (dropStale_poolOk h k).1
      | failGeneric => exact allocEp_poolOk (dropStale_poolOk h k).1 _ (by simp [failureEntry])
      | ok =>
        exact allocEp_poolOk (acquireTicket_poolOk (epochCounter_poolOk (dropStale_poolOk h k).1 d) dr) _
          (by simp [createRecord, freshEp])

theorem step_poolOk {s : St} (h : PoolOk s) (op : Op) (hw : WfOp s op) : PoolOk (step s op) := by
  cases op with
  | goc k sym nat o dr d out => exact getOrCreate_poolOk h k sym nat o dr d out
  | write e out =>
    show PoolOk (writeTo s e out).1
    unfold writeTo
    obtain ⟨a, _, _, d, _⟩ := preWrite_fields s.ttlMin (s.eps e) s.now
    split
    · exact h
    · cases out with
      | err => exact retire_poolOk (PoolOk.setEp h e _ d a) e
      | ok => exact PoolOk.setEp h e { (preWrite s.ttlMin (s.eps e) s.now) with hasSent := true } d a
      | short => exact retire_poolOk (PoolOk.setEp h e { (preWrite s.ttlMin (s.eps e) s.now) with hasSent := true } d a) e
  | reply e ok =>
    show PoolOk (reply s e ok)
    unfold reply
    obtain ⟨a, _, _, d, _⟩ := onReply_fields s.ttlMin (s.eps e) s.now
    split
    · exact h
    · split
      · exact h
      · split
        · exact PoolOk.setEp h e _ d a
        · exact retire_poolOk (PoolOk.setEp h e _ d a) e
  | readErr e =>
    show PoolOk (readError s e)
    unfold readError; split
    · exact h
    · exact retire_poolOk h e
  | remove k e =>
    show PoolOk (remove s k e)
    unfold remove
    split
    · rename_i hp; exact dropClose_poolOk h k e hp
    · rename_i hp
      cases hw with
      | inl x => exact absurd x hp
      | inr x => exact closeEp_poolOk h e (not_pooled_of h x)
  | close e => exact closeEp_poolOk h e (not_pooled_of h hw)
  | advance dt =>
    show PoolOk (advance nkeys _ s dt)
    unfold advance
    have hj : ∀ (t : Nat) (u : St) (ke : Nat × Nat), PoolOk u → PoolOk (janitorOne t u ke) := by
      intro t u ke hu
      unfold janitorOne
      split
      · rename_i hc; exact dropClose_poolOk hu ke.1 ke.2 hc.1
      · exact hu
    have ht : ∀ u : St, PoolOk u → PoolOk (tickJanitor nkeys u) := by
      intro u hu
      unfold tickJanitor janitor
      exact PoolOk.of_eq (foldl_poolOk (janitorOne u.nextJanitor) (hj u.nextJanitor) _ _
        (PoolOk.of_eq (s' := { u with now := u.nextJanitor }) hu rfl rfl rfl)) rfl rfl rfl
    have hr : ∀ (fuel : Nat) (u : St), PoolOk u → PoolOk (runJanitors nkeys (s.now + dt) fuel u) := by
      intro fuel
      induction fuel with
      | zero => intro u hu; exact hu
      | succ f ih =>
        intro u hu
        simp only [runJanitors]
        split
        · exact ih _ (ht u hu)
        · exact hu
    exact PoolOk.of_eq (hr _ s h) rfl rfl rfl
  | invalidate d =>
    show PoolOk (invalidate s d).1
    unfold invalidate
    simp only
    apply foldl_poolOk retire (fun u e hu => retire_poolOk hu e)
    unfold invalBump
    exact PoolOk.of_eq (s' := bumpEpoch _ _) (epochCounter_poolOk h d) rfl rfl rfl
  | reset =>
    show PoolOk (reset nkeys s)
    unfold reset
    refine PoolOk.of_eq (s := clearIndex _) (clearIndex_poolOk (foldl_poolOk resetOne ?_ _ _ h)) rfl rfl rfl
    intro u ke hu
    unfold resetOne
    split
    · rename_i hc; exact dropClose_poolOk hu ke.1 ke.2 hc
    · exact hu
  | track e j =>
    show PoolOk (track s e j)
    unfold track
    split
    · exact h
    · split
      · exact h
      · split
        · exact h
        · exact PoolOk.of_eq (PoolOk.setEp h e { (s.eps e) with tuples := (s.eps e).tuples ++ newTupleKeys (s.eps e) j } rfl rfl)
            rfl rfl rfl
  | invalBump d =>
    show PoolOk (invalBump s d)
    unfold invalBump
    exact PoolOk.of_eq (s' := bumpEpoch _ _) (epochCounter_poolOk h d) rfl rfl rfl
  | markDead e => exact markDead_poolOk h e
  | selfRemove e => exact (selfRemove_poolOk h e).1
  | prepCreate k dr d =>
    show PoolOk (countDial (prepCreate s k dr d))
    unfold prepCreate
    exact PoolOk.of_eq (acquireTicket_poolOk (epochCounter_poolOk (dropStale_poolOk h k).1 d) dr) rfl rfl rfl
  | publish E =>
    show PoolOk (if E.closed = false ∧ E.connCloses = 0 ∧ E.tuples = [] then publishEp s E else s)
    split
    · rename_i hc; exact publishEp_poolOk h E hc.1
    · exact h
  | register e =>
    show PoolOk (register s e)
    unfold register
    split
    · exact PoolOk.setEp h e _ rfl rfl
    · exact retire_poolOk (PoolOk.setEp h e { (s.eps e) with registered := true } rfl rfl) e
  | transportDone d =>
    show PoolOk (transportDone s d)
    unfold transportDone
    exact PoolOk.of_eq (foldl_poolOk retire (fun u e hu => retire_poolOk hu e) _ _ h) rfl rfl rfl

/-- every operation of the history is well-formed in the state it is issued in -/
def WfRun : St → List Op → Prop
  | _, [] => True
  | s, op :: ops => WfOp s op ∧ WfRun (step s op) ops

instance : ∀ (ops : List Op) (s : St), Decidable (WfRun s ops)
  | [], _ => by unfold WfRun; infer_instance
  | op :: ops, s => by
    unfold WfRun
    have := instDecidableWfRun ops (step s op)
    infer_instance

theorem run_poolOk : ∀ (ops : List Op) (s : St), PoolOk s → WfRun s ops → PoolOk (run s ops) := by
  intro ops
  induction ops with
  | nil => intro s h _; exact h
  | cons op ops ih => intro s h hw; exact ih _ (step_poolOk h op hw.1) hw.2

end DaeVerif.C13.EP
