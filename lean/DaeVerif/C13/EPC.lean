/-!
# C13 (d) — the lock structure of `UdpEndpointPool.GetOrCreate` for one key

Threads calling `GetOrCreate(key, …)` concurrently: read-locked fast path, the shard's creation
mutex, re-check under the write lock, dial, publish.  Fault-free window (the dial succeeds, nothing
retires the endpoint meanwhile) — the situation of "concurrent first packets of one source".
Each action is one critical section of the real code.  Core Lean only.
-/
namespace DaeVerif.C13.EPC

inductive PC
  | fast            -- before `shard.mu.RLock(); ue, ok := shard.pool[key]`
  | wantLock        -- fast path missed, before `shard.createMu.Lock()`
  | recheck         -- holds createMu, before the re-check under `shard.mu.Lock()`
  | dial            -- holds createMu, before `Dialer.DialContext`
  | publish         -- holds createMu, dialled, before `shard.pool[key] = ue`
  | done (created : Bool)
  deriving DecidableEq, Repr

structure St where
  /-- the pool maps the key to a live endpoint -/
  pool : Bool
  /-- holder of the creation mutex -/
  lock : Option Nat
  dials : Nat
  n : Nat
  pc : Nat → PC
  /-- ghost: how often a published endpoint was retired (write failure, invalidation, expiry, …) -/
  retires : Nat := 0
  /-- ghost: dials that failed -/
  fails : Nat := 0

def init : St := { pool := false, lock := none, dials := 0, n := 0, pc := fun _ => .done false }

/-- the shared part of a step: new pool flag, lock holder, dial count; thread t moves to p -/
def upd (s : St) (pool : Bool) (lock : Option Nat) (dials : Nat) (t : Nat) (p : PC) : St :=
  { pool := pool, lock := lock, dials := dials, n := s.n, pc := fun i => if i = t then p else s.pc i,
    retires := s.retires, fails := s.fails }

inductive Act
  | spawn
  | step (t : Nat)
  /-- somebody retires the published endpoint (any time) -/
  | retire
  /-- the dial of thread t fails: no endpoint, the creation mutex is released -/
  | failDial (t : Nat)
  deriving DecidableEq, Repr

def step (s : St) : Act → Option St
  | .spawn => some { s with n := s.n + 1, pc := fun i => if i = s.n then .fast else s.pc i }
  | .step t =>
    if t < s.n then
      match s.pc t with
      | .fast =>
        if s.pool then some (upd s s.pool s.lock s.dials t (.done false))
        else some (upd s s.pool s.lock s.dials t .wantLock)
      | .wantLock => if s.lock = none then some (upd s s.pool (some t) s.dials t .recheck) else none
      | .recheck =>
        if s.pool then some (upd s s.pool none s.dials t (.done false))
        else some (upd s s.pool s.lock s.dials t .dial)
      | .dial => some (upd s s.pool s.lock (s.dials + 1) t .publish)
      | .publish => some (upd s true none s.dials t (.done true))
      | .done _ => none
    else none
  | .retire => if s.pool then some { s with pool := false, retires := s.retires + 1 } else none
  | .failDial t =>
    if t < s.n ∧ s.pc t = .dial then
      some { upd s s.pool none (s.dials + 1) t (.done false) with fails := s.fails + 1 }
    else none

inductive Reachable : St → Prop
  | init : Reachable init
  | step {s s' : St} (a : Act) : Reachable s → step s a = some s' → Reachable s'

def holds : PC → Bool
  | .recheck | .dial | .publish => true
  | _ => false

/-- dials so far = endpoints published + the dial of the current lock holder, if it has dialled -/
def pendingDial (s : St) : Nat :=
  match s.lock with
  | some t => if s.pc t = .publish then 1 else 0
  | none => 0

structure Inv (s : St) : Prop where
  holder : ∀ t, t < s.n → holds (s.pc t) = true → s.lock = some t
  locked : ∀ t, s.lock = some t → t < s.n ∧ holds (s.pc t) = true
  count : s.dials = s.retires + s.fails + (if s.pool then 1 else 0) + pendingDial s
  excl : s.pool = true → ∀ t, s.lock = some t → s.pc t = .recheck

theorem inv_init : Inv init := by
  constructor <;> simp [init, pendingDial]

/-- a thread that does not hold the lock moves between lock-free pcs -/
theorem inv_free {s : St} (h : Inv s) (t : Nat) (p : PC) (h0 : holds (s.pc t) = false)
    (h1 : holds p = false) : Inv (upd s s.pool s.lock s.dials t p) := by
  have hne : ∀ u, s.lock = some u → u ≠ t := by
    intro u hl e; subst e; have := (h.locked u hl).2; rw [h0] at this; cases this
  constructor
  · intro u hu hhu
    show s.lock = some u
    have hhu' : holds (if u = t then p else s.pc u) = true := hhu
    by_cases hut : u = t
    · rw [if_pos hut, h1] at hhu'; cases hhu'
    · rw [if_neg hut] at hhu'; exact h.holder u hu hhu'
  · intro u hl
    have hl' : s.lock = some u := hl
    obtain ⟨a, b⟩ := h.locked u hl'
    refine ⟨a, ?_⟩
    show holds (if u = t then p else s.pc u) = true
    rw [if_neg (hne u hl')]; exact b
  · show s.dials = s.retires + s.fails + (if s.pool then 1 else 0) + pendingDial (upd s s.pool s.lock s.dials t p)
    have : pendingDial (upd s s.pool s.lock s.dials t p) = pendingDial s := by
      unfold pendingDial
      show (match s.lock with | some u => if (if u = t then p else s.pc u) = PC.publish then 1 else 0 | none => 0) = _
      cases hl : s.lock with
      | none => rfl
      | some u => simp only [if_neg (hne u hl)]
    rw [this]; exact h.count
  · intro hp u hl
    have hl' : s.lock = some u := hl
    show (if u = t then p else s.pc u) = PC.recheck
    rw [if_neg (hne u hl')]; exact h.excl hp u hl'

theorem inv_step {s s' : St} (h : Inv s) (a : Act) (hs : step s a = some s') : Inv s' := by
  cases a with
  | spawn =>
    simp only [step] at hs; injection hs with hs; subst hs
    have hne : ∀ u, s.lock = some u → u ≠ s.n := fun u hl => Nat.ne_of_lt (h.locked u hl).1
    constructor
    · intro t ht hh
      have ht' : t < s.n + 1 := ht
      have hh' : holds (if t = s.n then PC.fast else s.pc t) = true := hh
      show s.lock = some t
      by_cases htn : t = s.n
      · rw [if_pos htn] at hh'; cases hh'
      · rw [if_neg htn] at hh'; exact h.holder t (by omega) hh'
    · intro t hl
      have hl' : s.lock = some t := hl
      obtain ⟨a, b⟩ := h.locked t hl'
      refine ⟨by show t < s.n + 1; omega, ?_⟩
      show holds (if t = s.n then PC.fast else s.pc t) = true
      rw [if_neg (hne t hl')]; exact b
    · show s.dials = s.retires + s.fails + (if s.pool then 1 else 0) + _
      have : pendingDial { s with n := s.n + 1, pc := fun i => if i = s.n then PC.fast else s.pc i } = pendingDial s := by
        unfold pendingDial
        show (match s.lock with | some u => if (if u = s.n then PC.fast else s.pc u) = PC.publish then 1 else 0 | none => 0) = _
        cases hl : s.lock with
        | none => rfl
        | some u => simp only [if_neg (hne u hl)]
      rw [this]; exact h.count
    · intro hp t hl
      have hl' : s.lock = some t := hl
      show (if t = s.n then PC.fast else s.pc t) = PC.recheck
      rw [if_neg (hne t hl')]; exact h.excl hp t hl'
  | step t =>
    simp only [step] at hs
    by_cases ht : t < s.n
    · rw [if_pos ht] at hs
      cases hpc : s.pc t with
      | fast =>
        rw [hpc] at hs
        have h0 : holds (s.pc t) = false := by rw [hpc]; rfl
        by_cases hp : s.pool = true
        · simp only [hp, if_true] at hs; injection hs with hs; subst hs
          have := inv_free h t (.done false) h0 rfl; rw [hp] at this; exact this
        · have hp' : s.pool = false := by simpa using hp
          simp only [hp', Bool.false_eq_true, if_false] at hs; injection hs with hs; subst hs
          have := inv_free h t .wantLock h0 rfl; rw [hp'] at this; exact this
      | wantLock =>
        rw [hpc] at hs
        by_cases hl : s.lock = none
        · simp only [hl, if_true] at hs; injection hs with hs; subst hs
          constructor
          · intro u hu hhu
            have hhu' : holds (if u = t then PC.recheck else s.pc u) = true := hhu
            show some t = some u
            by_cases hut : u = t
            · rw [hut]
            · rw [if_neg hut] at hhu'
              have := h.holder u hu hhu'; rw [hl] at this; cases this
          · intro u hl'
            have : some t = some u := hl'
            injection this with this; subst this
            exact ⟨ht, by show holds (if t = t then PC.recheck else s.pc t) = true; rw [if_pos rfl]; rfl⟩
          · show s.dials = s.retires + s.fails + (if s.pool then 1 else 0) + _
            have : pendingDial (upd s s.pool (some t) s.dials t .recheck) = 0 := by
              unfold pendingDial
              show (if (if t = t then PC.recheck else s.pc t) = PC.publish then 1 else 0) = 0
              rw [if_pos rfl]; rfl
            rw [this, h.count]; unfold pendingDial; rw [hl]
          · intro _ u hl'
            have : some t = some u := hl'
            injection this with this; subst this
            show (if t = t then PC.recheck else s.pc t) = PC.recheck
            rw [if_pos rfl]
        · simp only [hl, if_false] at hs; cases hs
      | recheck =>
        rw [hpc] at hs
        have hlock : s.lock = some t := h.holder t ht (by rw [hpc]; rfl)
        have hpd : pendingDial s = 0 := by unfold pendingDial; rw [hlock]; simp [hpc]
        by_cases hp : s.pool = true
        · simp only [hp, if_true] at hs; injection hs with hs; subst hs
          constructor
          · intro u hu hhu
            have hhu' : holds (if u = t then PC.done false else s.pc u) = true := hhu
            by_cases hut : u = t
            · rw [if_pos hut] at hhu'; cases hhu'
            · rw [if_neg hut] at hhu'
              have := h.holder u hu hhu'; rw [hlock] at this; injection this with this
              exact absurd this.symm hut
          · intro u hl'; cases hl'
          · show s.dials = s.retires + s.fails + (if true then 1 else 0) + 0
            rw [h.count, hpd, hp]
          · intro _ u hl'; cases hl'
        · have hp' : s.pool = false := by simpa using hp
          simp only [hp', Bool.false_eq_true, if_false] at hs; injection hs with hs; subst hs
          constructor
          · intro u hu hhu
            have hhu' : holds (if u = t then PC.dial else s.pc u) = true := hhu
            show s.lock = some u
            by_cases hut : u = t
            · rw [hut]; exact hlock
            · rw [if_neg hut] at hhu'; exact h.holder u hu hhu'
          · intro u hl'
            have hl'' : s.lock = some u := hl'
            rw [hlock] at hl''; injection hl'' with e; subst e
            exact ⟨ht, by show holds (if t = t then PC.dial else s.pc t) = true; rw [if_pos rfl]; rfl⟩
          · show s.dials = s.retires + s.fails + (if false then 1 else 0) + _
            have : pendingDial (upd s false s.lock s.dials t .dial) = 0 := by
              unfold pendingDial
              show (match s.lock with | some u => if (if u = t then PC.dial else s.pc u) = PC.publish then 1 else 0 | none => 0) = 0
              rw [hlock]; simp
            rw [this, h.count, hpd, hp']
          · intro hpp; cases hpp
      | dial =>
        rw [hpc] at hs; injection hs with hs; subst hs
        have hlock : s.lock = some t := h.holder t ht (by rw [hpc]; rfl)
        have hpd : pendingDial s = 0 := by unfold pendingDial; rw [hlock]; simp [hpc]
        have hpf : s.pool = false := by
          cases hp : s.pool with
          | false => rfl
          | true => have := h.excl hp t hlock; rw [hpc] at this; cases this
        constructor
        · intro u hu hhu
          have hhu' : holds (if u = t then PC.publish else s.pc u) = true := hhu
          show s.lock = some u
          by_cases hut : u = t
          · rw [hut]; exact hlock
          · rw [if_neg hut] at hhu'; exact h.holder u hu hhu'
        · intro u hl'
          have hl'' : s.lock = some u := hl'
          rw [hlock] at hl''; injection hl'' with e; subst e
          exact ⟨ht, by show holds (if t = t then PC.publish else s.pc t) = true; rw [if_pos rfl]; rfl⟩
        · show s.dials + 1 = s.retires + s.fails + (if s.pool then 1 else 0) + _
          have : pendingDial (upd s s.pool s.lock (s.dials + 1) t .publish) = 1 := by
            unfold pendingDial
            show (match s.lock with | some u => if (if u = t then PC.publish else s.pc u) = PC.publish then 1 else 0 | none => 0) = 1
            rw [hlock]; simp
          rw [this, h.count, hpd, hpf]
        · intro hpp
          have : s.pool = true := hpp
          rw [hpf] at this; cases this
      | publish =>
        rw [hpc] at hs; injection hs with hs; subst hs
        have hlock : s.lock = some t := h.holder t ht (by rw [hpc]; rfl)
        have hpd : pendingDial s = 1 := by unfold pendingDial; rw [hlock]; simp [hpc]
        have hpf : s.pool = false := by
          cases hp : s.pool with
          | false => rfl
          | true => have := h.excl hp t hlock; rw [hpc] at this; cases this
        constructor
        · intro u hu hhu
          have hhu' : holds (if u = t then PC.done true else s.pc u) = true := hhu
          by_cases hut : u = t
          · rw [if_pos hut] at hhu'; cases hhu'
          · rw [if_neg hut] at hhu'
            have := h.holder u hu hhu'; rw [hlock] at this; injection this with this
            exact absurd this.symm hut
        · intro u hl'; cases hl'
        · show s.dials = s.retires + s.fails + (if true then 1 else 0) + 0
          rw [h.count, hpd, hpf]; rfl
        · intro _ u hl'; cases hl'
      | done c => rw [hpc] at hs; cases hs
    · rw [if_neg ht] at hs; cases hs

  | retire =>
    simp only [step] at hs
    by_cases hp : s.pool = true
    · rw [if_pos hp] at hs; injection hs with hs; subst hs
      constructor
      · intro t ht hh; exact h.holder t ht hh
      · intro t hl; exact h.locked t hl
      · show s.dials = s.retires + 1 + s.fails + (if false then 1 else 0) + pendingDial s
        have hc := h.count
        rw [hp] at hc
        simp only [if_true] at hc
        simp only [Bool.false_eq_true, if_false]
        have : pendingDial { s with pool := false, retires := s.retires + 1 } = pendingDial s := rfl
        omega
      · intro hpp; cases hpp
    · rw [if_neg hp] at hs; cases hs
  | failDial t =>
    simp only [step] at hs
    by_cases hc : t < s.n ∧ s.pc t = .dial
    · rw [if_pos hc] at hs; injection hs with hs; subst hs
      obtain ⟨ht, hpc⟩ := hc
      have hlock : s.lock = some t := h.holder t ht (by rw [hpc]; rfl)
      have hpd : pendingDial s = 0 := by unfold pendingDial; rw [hlock]; simp [hpc]
      have hpf : s.pool = false := by
        cases hp : s.pool with
        | false => rfl
        | true => have := h.excl hp t hlock; rw [hpc] at this; cases this
      constructor
      · intro u hu hhu
        have hhu' : holds (if u = t then PC.done false else s.pc u) = true := hhu
        by_cases hut : u = t
        · rw [if_pos hut] at hhu'; cases hhu'
        · rw [if_neg hut] at hhu'
          have := h.holder u hu hhu'; rw [hlock] at this; injection this with this
          exact absurd this.symm hut
      · intro u hl'; cases hl'
      · show s.dials + 1 = s.retires + (s.fails + 1) + (if s.pool then 1 else 0) + 0
        have hcnt := h.count
        rw [hpd, hpf] at hcnt
        rw [hpf]
        simp only [Bool.false_eq_true, if_false] at hcnt ⊢
        omega
      · intro _ u hl'; cases hl'
    · rw [if_neg hc] at hs; cases hs

theorem inv_reachable {s : St} (hr : Reachable s) : Inv s := by
  induction hr with
  | init => exact inv_init
  | step a _ hs ih => exact inv_step ih a hs

def run : St → List Act → Option St
  | s, [] => some s
  | s, a :: as => match step s a with
    | some s' => run s' as
    | none => none

theorem reachable_of_run : ∀ (as : List Act) (s s' : St), Reachable s → run s as = some s' → Reachable s' := by
  intro as
  induction as with
  | nil => intro s s' hr h; simp [run] at h; subst h; exact hr
  | cons a as ih =>
    intro s s' hr h
    simp only [run] at h
    cases hs : step s a with
    | none => simp [hs] at h
    | some s1 => simp only [hs] at h; exact ih s1 s' (Reachable.step a hr hs) h

end DaeVerif.C13.EPC
