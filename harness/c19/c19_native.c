/*
 * C19 native harness: compiles the UNMODIFIED control/kern/tproxy.c (through the shim headers in
 * /verif/harness/c) into an ordinary x86-64 program and answers, one line per op on stdin, with what
 * the kernel program's own code computes:
 *
 *   clayout <rec> | cdec le <rec> <hex> | cconst <name> | cmap <name>      (generated, c19_gen.inc)
 *   ctuples le <v4|v6> <src hex> <dst hex> <sport> <dport> <proto>   get_tuples + copy_reversed_tuples
 *   cconn <outbound> <l4proto> <dport> <v4 0/1>                      wan_outbound_is_alive: map key used
 *   clisten <l4proto> <v6 0/1>                                       assign_listener: map key used
 *   croute le <saddr16> <daddr16> <mac16>                            route(): domain_routing_map / LPM keys
 *   cmacsite le <lan|wan_tcp|wan_udp> <mac6>                          the three callers of route(): MAC LPM key
 *   creadidx le <hex16> | creadpr le <hex16>                         match_set->index / port_range
 *
 * BPF helpers are stubs; bpf_map_lookup_elem records the key it is given.  croute reports the keys by
 * map identity (first domain key; LPM key per trie index), not the number or order of lookups.
 */
#include <stdio.h>
#include <stdlib.h>
#include <string.h>
#include <stdint.h>

#include C19_TPROXY

/* ------------------------------------------------------------------ helper stubs */
static unsigned char g_keys[64][64];
static unsigned g_keylen[64];
static void *g_keymap[64];
static unsigned g_nkeys;
static int g_lpm_token;
static struct match_set g_rules[8];
static __u32 g_rules_len;
static __u32 g_one = 1;
static struct route_ctx g_route_ctx;
static unsigned char g_scratch[4096];
/* per-CPU scratch maps of the kernel program: one static buffer per map */
static struct { void *map; unsigned char buf[4096] __attribute__((aligned(16))); } g_percpu[16];
static unsigned char g_pkt[256];
static unsigned g_pktlen;

static void *percpu_buf(void *map)
{
	for (unsigned i = 0; i < 16; i++) {
		if (g_percpu[i].map == map) return g_percpu[i].buf;
		if (!g_percpu[i].map) { g_percpu[i].map = map; return g_percpu[i].buf; }
	}
	return NULL;
}

static void rec_key(void *map, const void *key, unsigned len)
{
	if (g_nkeys < 64) {
		memcpy(g_keys[g_nkeys], key, len);
		g_keylen[g_nkeys] = len;
		g_keymap[g_nkeys] = map;
		g_nkeys++;
	}
}

void *bpf_map_lookup_elem(void *map, const void *key)
{
	if (map == &routing_meta_map)
		return &g_rules_len;
	if (map == &routing_map) {
		__u32 i = *(const __u32 *)key;
		return i < g_rules_len ? &g_rules[i] : NULL;
	}
	if (map == &route_ctx_scratch_map)
		return &g_route_ctx;
	if (map == &outbound_connectivity_map) {
		rec_key(map, key, sizeof(__u32));
		return &g_one;
	}
	if (map == &listen_socket_map) {
		rec_key(map, key, sizeof(__u32));
		return NULL;
	}
	if (map == &lpm_array_map) {
		rec_key(map, key, sizeof(__u32));
		return &g_lpm_token;
	}
	if (map == &g_lpm_token) {
		rec_key(map, key, sizeof(struct lpm_key));
		return NULL;
	}
	if (map == &domain_routing_map) {
		rec_key(map, key, 16);
		return NULL;
	}
	if (map == &conn_state_map || map == &routing_handoff_map || map == &redirect_track || map == &cookie_pid_map ||
	    map == &fast_sock || map == &bpf_stats_map || map == &event_ringbuf)
		return NULL; /* hash / stats maps: "no entry" */
	/* every other map (the per-CPU scratch maps, also ones added later) gets a zeroed static buffer */
	return percpu_buf(map);
}
long bpf_map_update_elem(void *map, const void *key, const void *value, __u64 flags) { return 0; }
long bpf_map_delete_elem(void *map, const void *key) { return 0; }
__u64 bpf_ktime_get_ns(void) { return 1; }
long bpf_skb_load_bytes(const void *skb, __u32 offset, void *to, __u32 len)
{
	if ((unsigned long)offset + len > g_pktlen) return -14;
	memcpy(to, g_pkt + offset, len);
	return 0;
}
long bpf_skb_store_bytes(void *skb, __u32 offset, const void *from, __u32 len, __u64 flags) { return -1; }
long bpf_skb_pull_data(void *skb, __u32 len) { return -1; }
long bpf_skb_change_type(void *skb, __u32 type) { return 0; }
long bpf_skb_change_head(void *skb, __u32 len, __u64 flags) { return 0; }
long bpf_redirect(__u32 ifindex, __u64 flags) { return 0; }
long bpf_redirect_peer(__u32 ifindex, __u64 flags) { return 0; }
__u64 bpf_get_socket_cookie(void *ctx) { return 0; }
__u64 bpf_get_current_pid_tgid(void) { return 0; }
__u64 bpf_get_current_task(void) { return 0; }
long bpf_get_current_comm(void *buf, __u32 size_of_buf) { return 0; }
long bpf_loop(__u32 nr_loops, void *callback_fn, void *callback_ctx, __u64 flags)
{
	long (*cb)(__u32, void *) = (long (*)(__u32, void *))callback_fn;
	__u32 i;

	for (i = 0; i < nr_loops; i++)
		if (cb(i, callback_ctx))
			return i + 1;
	return i;
}
struct bpf_sock *bpf_skc_lookup_tcp(void *ctx, struct bpf_sock_tuple *tuple, __u32 tuple_size, __u64 netns, __u64 flags) { return NULL; }
struct bpf_sock *bpf_sk_lookup_udp(void *ctx, struct bpf_sock_tuple *tuple, __u32 tuple_size, __u64 netns, __u64 flags) { return NULL; }
struct bpf_sock *bpf_sk_fullsock(struct bpf_sock *sk) { return NULL; }
long bpf_sk_release(void *sock) { return 0; }
long bpf_sk_assign(void *ctx, void *sk, __u64 flags) { return 0; }
long bpf_ringbuf_output(void *ringbuf, void *data, __u64 size, __u64 flags) { return 0; }
long bpf_msg_redirect_hash(void *msg, void *map, void *key, __u64 flags) { return 0; }
long bpf_sock_hash_update(void *skops, void *map, void *key, __u64 flags) { return 0; }
long bpf_sock_map_update(void *skops, void *map, void *key, __u64 flags) { return 0; }
__u32 bpf_get_prandom_u32(void) { return 4; }
long bpf_core_read_user_str(void *dst, __u32 sz, const void *src) { return 0; }

/* ------------------------------------------------------------------ generated part */
#define C19_U(x) ((unsigned long long)(sizeof(x) == 1 ? (uint8_t)(x) : sizeof(x) == 2 ? (uint16_t)(x) : sizeof(x) == 4 ? (uint32_t)(x) : (uint64_t)(x)))
#define C19_CLS(x) (__builtin_types_compatible_p(__typeof__(x), _Bool) ? "bool" : ((((__typeof__(x))-1) < (__typeof__(x))0) ? "sint" : "uint"))
#define C19_MAP_KEY(m) sizeof(*(m).key)
#define C19_MAP_VAL(m) sizeof(*(m).value)
#include "c19_gen.inc"

static void set_probe_rules(void)
{
	memset(g_rules, 0, sizeof(g_rules));
	g_rules[0].type = MatchType_DomainSet;   g_rules[0].outbound = 2;
	g_rules[1].type = MatchType_IpSet;       g_rules[1].outbound = 2; g_rules[1].index = 5;
	g_rules[2].type = MatchType_SourceIpSet; g_rules[2].outbound = 2; g_rules[2].index = 6;
	g_rules[3].type = MatchType_Mac;         g_rules[3].outbound = 2; g_rules[3].index = 7;
	g_rules[4].type = MatchType_Fallback;    g_rules[4].outbound = 0;
	g_rules_len = 5;
}

/* the LPM key looked up in the trie whose index (lpm_array_map key) is `want` */
static const unsigned char *lpm_key_for(__u32 want)
{
	__u32 last_idx = 0xffffffff;

	for (unsigned i = 0; i < g_nkeys; i++) {
		if (g_keymap[i] == &lpm_array_map) last_idx = *(__u32 *)g_keys[i];
		else if (g_keymap[i] == &g_lpm_token && last_idx == want) return g_keys[i];
	}
	return NULL;
}

/* ------------------------------------------------------------------ ops */
static int hexval(int c)
{
	if (c >= '0' && c <= '9') return c - '0';
	if (c >= 'a' && c <= 'f') return c - 'a' + 10;
	if (c >= 'A' && c <= 'F') return c - 'A' + 10;
	return -1;
}
static long unhex(const char *s, unsigned char *out, unsigned long cap)
{
	unsigned long n = 0;

	while (s[0] && s[1]) {
		int a = hexval(s[0]), b = hexval(s[1]);

		if (a < 0 || b < 0 || n >= cap) return -1;
		out[n++] = (unsigned char)(a * 16 + b);
		s += 2;
	}
	return s[0] ? -1 : (long)n;
}
static void puthex(const void *p, unsigned long n)
{
	const unsigned char *b = p;

	for (unsigned long i = 0; i < n; i++) printf("%02x", b[i]);
}

int main(void)
{
	static char line[1 << 16];
	static unsigned char img[1 << 15];

	while (fgets(line, sizeof(line), stdin)) {
		char *tok[12];
		int nt = 0;

		for (char *p = strtok(line, " \r\n"); p && nt < 12; p = strtok(NULL, " \r\n")) tok[nt++] = p;
		if (nt == 0) { printf("bad-op\n"); continue; }
		g_nkeys = 0;
		if (!strcmp(tok[0], "clayout") && nt == 2) {
			if (!c19_record(tok[1], 0, NULL, 0)) printf("none");
		} else if (!strcmp(tok[0], "cdec") && nt == 4) {
			long n = unhex(tok[3], img, sizeof(img));

			if (n < 0 || !c19_record(tok[2], 1, img, (unsigned long)n)) printf("bad-op");
		} else if (!strcmp(tok[0], "cconst") && nt == 2) {
			long long v;

			if (c19_const(tok[1], &v)) printf("%lld", v); else printf("none");
		} else if (!strcmp(tok[0], "cmap") && nt == 2) {
			if (!c19_map(tok[1])) printf("none");
		} else if (!strcmp(tok[0], "ctuples") && nt == 8) {
			struct __sk_buff skb;
			struct tuples tuples;
			struct tuples_key rev;
			struct iphdr iph;
			struct ipv6hdr ipv6h;
			struct tcphdr tcph;
			struct udphdr udph;
			unsigned char s[16], d[16];
			int v4 = !strcmp(tok[2], "v4");
			long ns = unhex(tok[3], s, 16), nd = unhex(tok[4], d, 16);
			unsigned sport = (unsigned)atoi(tok[5]), dport = (unsigned)atoi(tok[6]), proto = (unsigned)atoi(tok[7]);

			memset(&skb, 0, sizeof(skb)); memset(&iph, 0, sizeof(iph)); memset(&ipv6h, 0, sizeof(ipv6h));
			memset(&tcph, 0, sizeof(tcph)); memset(&udph, 0, sizeof(udph));
			memset(&tuples, 0xAA, sizeof(tuples)); memset(&rev, 0xAA, sizeof(rev));
			if ((v4 && (ns != 4 || nd != 4)) || (!v4 && (ns != 16 || nd != 16))) { printf("bad-op\n"); continue; }
			if (v4) {
				iph.version = 4; iph.ihl = 5;
				memcpy(&iph.saddr, s, 4); memcpy(&iph.daddr, d, 4);
			} else {
				memcpy(&ipv6h.saddr, s, 16); memcpy(&ipv6h.daddr, d, 16);
			}
			/* ports as they are on the wire */
			tcph.source = bpf_htons(sport); tcph.dest = bpf_htons(dport);
			udph.source = bpf_htons(sport); udph.dest = bpf_htons(dport);
			if (proto == IPPROTO_TCP) { udph.source = 0; udph.dest = 0; } else { tcph.source = 0; tcph.dest = 0; }
			get_tuples(&skb, &tuples, &iph, &ipv6h, &tcph, &udph, (__u8)proto);
			copy_reversed_tuples(&tuples.five, &rev);
			printf("key="); puthex(&tuples.five, sizeof(tuples.five));
			printf(" rev="); puthex(&rev, sizeof(rev));
		} else if (!strcmp(tok[0], "cconn") && nt == 5) {
			struct __sk_buff skb;

			memset(&skb, 0, sizeof(skb));
			skb.protocol = atoi(tok[4]) ? bpf_htons(ETH_P_IP) : bpf_htons(ETH_P_IPV6);
			(void)wan_outbound_is_alive(&skb, (__u8)atoi(tok[1]), (__u8)atoi(tok[2]), bpf_htons((unsigned)atoi(tok[3])));
			if (g_nkeys == 1 && g_keymap[0] == &outbound_connectivity_map) printf("%u", *(__u32 *)g_keys[0]);
			else printf("none");
		} else if (!strcmp(tok[0], "clisten") && nt == 3) {
			struct __sk_buff skb;

			memset(&skb, 0, sizeof(skb));
			skb.protocol = atoi(tok[2]) ? bpf_htons(ETH_P_IPV6) : bpf_htons(ETH_P_IP);
			(void)assign_listener(&skb, (__u8)atoi(tok[1]));
			if (g_nkeys == 1 && g_keymap[0] == &listen_socket_map) printf("%u", *(__u32 *)g_keys[0]);
			else printf("none");
		} else if (!strcmp(tok[0], "croute") && nt == 5) {
			unsigned char s[16], d[16], m[16];
			__u32 flag[8];
			struct tcphdr tcph;
			__be32 sa[4], da[4], ma[4];

			if (unhex(tok[2], s, 16) != 16 || unhex(tok[3], d, 16) != 16 || unhex(tok[4], m, 16) != 16) { printf("bad-op\n"); continue; }
			memcpy(sa, s, 16); memcpy(da, d, 16); memcpy(ma, m, 16);
			memset(flag, 0, sizeof(flag)); memset(&tcph, 0, sizeof(tcph));
			flag[0] = L4ProtoType_TCP; flag[1] = IpVersionType_6;
			tcph.source = bpf_htons(1000); tcph.dest = bpf_htons(2000);
			set_probe_rules();
			(void)route(flag, &tcph, sa, da, ma);
			/* The property speaks about the KEYS, not about how often or in which order route() looks
			 * them up: take the first domain_routing_map key, and for each LPM lookup the trie index
			 * that was fetched from lpm_array_map just before it (5 = daddr, 6 = saddr, 7 = mac). */
			{
				const unsigned char *dom = NULL, *kd = NULL, *ks = NULL, *km = NULL;
				__u32 last_idx = 0xffffffff;

				for (unsigned i = 0; i < g_nkeys; i++) {
					if (g_keymap[i] == &domain_routing_map && !dom) dom = g_keys[i];
					else if (g_keymap[i] == &lpm_array_map) last_idx = *(__u32 *)g_keys[i];
					else if (g_keymap[i] == &g_lpm_token) {
						if (last_idx == 5 && !kd) kd = g_keys[i];
						else if (last_idx == 6 && !ks) ks = g_keys[i];
						else if (last_idx == 7 && !km) km = g_keys[i];
					}
				}
				if (dom && kd && ks && km) {
					printf("dom="); puthex(dom, 16);
					printf(" lpm_d="); puthex(kd, sizeof(struct lpm_key));
					printf(" lpm_s="); puthex(ks, sizeof(struct lpm_key));
					printf(" lpm_m="); puthex(km, sizeof(struct lpm_key));
				} else {
					printf("missing-lookups n=%u dom=%d d=%d s=%d m=%d", g_nkeys, !!dom, !!kd, !!ks, !!km);
				}
			}
		} else if (!strcmp(tok[0], "cmacsite") && nt == 4) {
			/* the three callers of route() that pack the source MAC into mac_be:
			 *   lan      do_tproxy_lan_ingress()      on an Ethernet/IPv4/UDP frame (parsed by the real slow path)
			 *   wan_tcp  do_tproxy_wan_egress_tcp()   on a SYN
			 *   wan_udp  do_tproxy_wan_egress_udp()
			 * reported: the LPM key route() looks up for the mac() rule */
			unsigned char mac[6];
			struct __sk_buff skb;
			const unsigned char *km;

			if (unhex(tok[3], mac, 6) != 6) { printf("bad-op\n"); continue; }
			memset(&skb, 0, sizeof(skb));
			skb.protocol = bpf_htons(ETH_P_IP);
			set_probe_rules();
			if (!strcmp(tok[2], "lan")) {
				struct ethhdr *eth = (struct ethhdr *)g_pkt;
				struct iphdr *ip = (struct iphdr *)(g_pkt + 14);
				struct udphdr *udp = (struct udphdr *)(g_pkt + 34);

				memset(g_pkt, 0, sizeof(g_pkt));
				memset(eth->h_dest, 0x02, 6); memcpy(eth->h_source, mac, 6); eth->h_proto = bpf_htons(ETH_P_IP);
				ip->version = 4; ip->ihl = 5; ip->ttl = 64; ip->protocol = IPPROTO_UDP; ip->tot_len = bpf_htons(28);
				ip->saddr = bpf_htonl(0x0a000001); ip->daddr = bpf_htonl(0x08080808);
				udp->source = bpf_htons(40000); udp->dest = bpf_htons(4000); udp->len = bpf_htons(8);
				g_pktlen = 42; skb.len = 42;
				(void)do_tproxy_lan_ingress(&skb, 14);
			} else {
				struct tuples tuples;
				struct ethhdr ethh;
				struct tcphdr tcph;
				struct udphdr udph;

				memset(&tuples, 0, sizeof(tuples)); memset(&ethh, 0, sizeof(ethh));
				memset(&tcph, 0, sizeof(tcph)); memset(&udph, 0, sizeof(udph));
				memcpy(ethh.h_source, mac, 6); ethh.h_proto = bpf_htons(ETH_P_IP);
				tuples.five.sip.u6_addr32[2] = bpf_htonl(0xffff); tuples.five.sip.u6_addr32[3] = bpf_htonl(0x0a000001);
				tuples.five.dip.u6_addr32[2] = bpf_htonl(0xffff); tuples.five.dip.u6_addr32[3] = bpf_htonl(0x08080808);
				tuples.five.sport = bpf_htons(40000); tuples.five.dport = bpf_htons(4000);
				if (!strcmp(tok[2], "wan_tcp")) {
					tuples.five.l4proto = IPPROTO_TCP;
					tcph.syn = 1; tcph.source = tuples.five.sport; tcph.dest = tuples.five.dport;
					(void)do_tproxy_wan_egress_tcp(&skb, 14, &tuples, &ethh, &tcph);
				} else if (!strcmp(tok[2], "wan_udp")) {
					tuples.five.l4proto = IPPROTO_UDP;
					udph.source = tuples.five.sport; udph.dest = tuples.five.dport;
					(void)do_tproxy_wan_egress_udp(&skb, 14, &tuples, &ethh, &udph);
				} else { printf("bad-op\n"); continue; }
			}
			km = lpm_key_for(7);
			if (km) puthex(km, sizeof(struct lpm_key)); else printf("route-not-reached n=%u", g_nkeys);
		} else if (!strcmp(tok[0], "creadidx") && nt == 3) {
			struct match_set ms;

			memset(&ms, 0, sizeof(ms));
			if (unhex(tok[2], (unsigned char *)&ms, 16) != 16) { printf("bad-op\n"); continue; }
			printf("%u", ms.index);
		} else if (!strcmp(tok[0], "creadpr") && nt == 3) {
			struct match_set ms;

			memset(&ms, 0, sizeof(ms));
			if (unhex(tok[2], (unsigned char *)&ms, 16) != 16) { printf("bad-op\n"); continue; }
			printf("%u-%u", ms.port_range.port_start, ms.port_range.port_end);
		} else {
			printf("bad-op");
		}
		printf("\n");
	}
	return 0;
}
