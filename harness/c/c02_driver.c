/* C02 native driver: /repo's control/kern/tproxy.c compiled UNMODIFIED (it is #included below; the
 * check passes -I<repo>/control/kern), its route() called directly on the byte images the Go control
 * plane code emitted.  Reads the shared op stream (the same file the Lean driver c02drv reads) on
 * stdin and prints one answer per line:
 *
 *   lpm <slot> <nkeys> {<prefixlen>:<32 hex data>}*              lpm_array_map[slot] = new LPM trie  -> ok
 *   lpmdel <slot>                                                lpm_array_map delete               -> ok | err=<rc>
 *   rset <n> {<idx>:<48 hex>}*n  routing_map[idx] = struct match_set image                          -> ok
 *   meta <len>                 routing_meta_map[0] = len                                            -> ok
 *   dom <32 hex addr> <256 hex bitmap>   domain_routing_map[addr] = struct domain_routing image      -> ok
 *   domdel <32 hex addr>       -> ok | err=<rc>
 *   pkt <64 hex flag[8] memory> <sport> <dport> <32 hex saddr> <32 hex daddr> <32 hex mac> ..        -> k=<route() result>
 *   const <name>               -> =<value as compiled into the kernel program>
 *   anything else              -> -          (lines meant for the Go side / the Lean driver only)
 */
#include <stdio.h>
#include <stdlib.h>
#include <string.h>
#include <stdint.h>
#include "bpf_shim.h"
#include "tproxy.c"

static int hexval(int c)
{
	if (c >= '0' && c <= '9')
		return c - '0';
	if (c >= 'a' && c <= 'f')
		return c - 'a' + 10;
	if (c >= 'A' && c <= 'F')
		return c - 'A' + 10;
	return -1;
}

/* decode exactly n bytes of hex from s; returns 0 on success */
static int unhex(const char *s, unsigned char *out, size_t n)
{
	size_t i;

	if (!s || strlen(s) != 2 * n)
		return -1;
	for (i = 0; i < n; i++) {
		int a = hexval(s[2 * i]), b = hexval(s[2 * i + 1]);

		if (a < 0 || b < 0)
			return -1;
		out[i] = (unsigned char)(a * 16 + b);
	}
	return 0;
}

static struct shim_map *m_routing, *m_meta, *m_lpm_array, *m_domain;

struct cdef {
	const char *name;
	long long v;
};
#define K(x) { #x, (long long)(x) }
static const struct cdef consts_tbl[] = {
	K(MatchType_DomainSet), K(MatchType_IpSet), K(MatchType_SourceIpSet), K(MatchType_Port),
	K(MatchType_SourcePort), K(MatchType_L4Proto), K(MatchType_IpVersion), K(MatchType_Mac),
	K(MatchType_ProcessName), K(MatchType_Dscp), K(MatchType_Fallback), K(MatchType_MustRules),
	K(MatchType_Upstream), K(MatchType_QType),
	K(OUTBOUND_DIRECT), K(OUTBOUND_BLOCK), K(OUTBOUND_MUST_RULES), K(OUTBOUND_CONTROL_PLANE_ROUTING),
	K(OUTBOUND_LOGICAL_OR), K(OUTBOUND_LOGICAL_AND), K(OUTBOUND_LOGICAL_MASK),
	K(L4ProtoType_TCP), K(L4ProtoType_UDP), K(L4ProtoType_X),
	K(IpVersionType_4), K(IpVersionType_6), K(IpVersionType_X),
	K(MAX_MATCH_SET_LEN), K(MAX_LPM_NUM), K(TASK_COMM_LEN), K(IPV6_BYTE_LENGTH),
	{ "sizeof_match_set", sizeof(struct match_set) },
	{ "off_match_set_not", offsetof(struct match_set, not) },
	{ "off_match_set_type", offsetof(struct match_set, type) },
	{ "off_match_set_outbound", offsetof(struct match_set, outbound) },
	{ "off_match_set_must", offsetof(struct match_set, must) },
	{ "off_match_set_mark", offsetof(struct match_set, mark) },
	{ "sizeof_port_range", sizeof(struct port_range) },
	{ "off_port_range_end", offsetof(struct port_range, port_end) },
	{ "sizeof_lpm_key", sizeof(struct lpm_key) },
	{ "off_lpm_key_data", offsetof(struct lpm_key, data) },
	{ "sizeof_domain_routing", sizeof(struct domain_routing) },
	{ "sizeof_match_type", sizeof(enum MatchType) },
	{ "sizeof_l4proto_type", sizeof(enum L4ProtoType) },
	{ "ENOEXEC", ENOEXEC }, { "EFAULT", EFAULT }, { "EINVAL", EINVAL }, { "EPERM", EPERM },
};

#define MAXTOK 4200
static char *toks[MAXTOK];

static int split(char *line)
{
	int n = 0;
	char *p = line;

	while (*p) {
		while (*p == ' ')
			p++;
		if (!*p)
			break;
		if (n < MAXTOK)
			toks[n++] = p;
		while (*p && *p != ' ')
			p++;
		if (*p)
			*p++ = 0;
	}
	return n;
}

int main(void)
{
	char *line = NULL;
	size_t cap = 0;
	ssize_t len;

	shim_strict = 1;
	m_routing = SHIM_REG_KV(routing_map);
	m_meta = SHIM_REG_KV(routing_meta_map);
	m_domain = SHIM_REG_KV(domain_routing_map);
	m_lpm_array = SHIM_REG_SZ(lpm_array_map);
	SHIM_REG_KV(route_ctx_scratch_map);

	while ((len = getline(&line, &cap, stdin)) > 0) {
		int n;

		while (len > 0 && (line[len - 1] == '\n' || line[len - 1] == '\r'))
			line[--len] = 0;
		n = split(line);
		if (n == 0) {
			puts("-");
			continue;
		}
		if (!strcmp(toks[0], "lpm") && n >= 3) {
			uint32_t slot = (uint32_t)strtoul(toks[1], NULL, 10);
			int nk = atoi(toks[2]), i, bad = 0;
			struct shim_map *inner = shim_map_create("lpm", BPF_MAP_TYPE_LPM_TRIE,
								 sizeof(struct lpm_key), sizeof(__u32), MAX_LPM_SIZE);

			if (n != 3 + nk)
				bad = 1;
			for (i = 0; !bad && i < nk; i++) {
				struct lpm_key key;
				__u32 one = 1;
				char *colon = strchr(toks[3 + i], ':');

				if (!colon) {
					bad = 1;
					break;
				}
				*colon = 0;
				key.prefixlen = (uint32_t)strtoul(toks[3 + i], NULL, 10);
				if (unhex(colon + 1, (unsigned char *)key.data, 16))
					bad = 1;
				else if (shim_map_update(inner, &key, &one, BPF_ANY))
					bad = 1;
			}
			if (bad) {
				shim_map_free(inner);
				puts("bad-op");
			} else {
				long rc = shim_map_set_inner(m_lpm_array, slot, inner);

				if (rc)
					printf("err=%ld\n", rc);
				else
					puts("ok");
			}
		} else if (!strcmp(toks[0], "lpmdel") && n == 2) {
			uint32_t slot = (uint32_t)strtoul(toks[1], NULL, 10);
			long rc = shim_map_set_inner(m_lpm_array, slot, NULL);

			if (rc)
				printf("err=%ld\n", rc);
			else
				puts("ok");
		} else if (!strcmp(toks[0], "rset") && n >= 2) {
			int nr = atoi(toks[1]), i, bad = (n != 2 + nr);

			for (i = 0; !bad && i < nr; i++) {
				struct match_set ms;
				char *colon = strchr(toks[2 + i], ':');
				__u32 k;

				if (!colon) {
					bad = 1;
					break;
				}
				*colon = 0;
				k = (__u32)strtoul(toks[2 + i], NULL, 10);
				if (unhex(colon + 1, (unsigned char *)&ms, sizeof(ms)))
					bad = 1;
				else if (shim_map_update(m_routing, &k, &ms, BPF_ANY))
					bad = 1;
			}
			puts(bad ? "bad-op" : "ok");
		} else if (!strcmp(toks[0], "meta") && n == 2) {
			__u32 v = (__u32)strtoul(toks[1], NULL, 10), k = 0;

			shim_map_update(m_meta, &k, &v, BPF_ANY);
			puts("ok");
		} else if (!strcmp(toks[0], "dom") && n == 3) {
			__be32 key[4];
			struct domain_routing dr;

			if (unhex(toks[1], (unsigned char *)key, 16) || unhex(toks[2], (unsigned char *)&dr, sizeof(dr)))
				puts("bad-op");
			else {
				long rc = shim_map_update(m_domain, key, &dr, BPF_ANY);

				if (rc)
					printf("err=%ld\n", rc);
				else
					puts("ok");
			}
		} else if (!strcmp(toks[0], "domdel") && n == 2) {
			__be32 key[4];

			if (unhex(toks[1], (unsigned char *)key, 16))
				puts("bad-op");
			else {
				long rc = shim_map_delete(m_domain, key);

				if (rc)
					printf("err=%ld\n", rc);
				else
					puts("ok");
			}
		} else if ((!strcmp(toks[0], "pkt") || !strcmp(toks[0], "kpkt")) && n >= 7) {
			__u32 flag[8];
			__be32 saddr[4], daddr[4], mac[4];
			/* both header types start with source, dest (network order); use a buffer that
			 * is large enough for either so that the sanitizers see valid memory */
			union {
				struct tcphdr t;
				struct udphdr u;
			} l4;
			unsigned sport = (unsigned)strtoul(toks[2], NULL, 10), dport = (unsigned)strtoul(toks[3], NULL, 10);

			memset(&l4, 0, sizeof(l4));
			if (unhex(toks[1], (unsigned char *)flag, 32) || unhex(toks[4], (unsigned char *)saddr, 16) ||
			    unhex(toks[5], (unsigned char *)daddr, 16) || unhex(toks[6], (unsigned char *)mac, 16)) {
				puts("bad-op");
				continue;
			}
			if (flag[0] == L4ProtoType_TCP) {
				l4.t.source = bpf_htons(sport);
				l4.t.dest = bpf_htons(dport);
			} else {
				l4.u.source = bpf_htons(sport);
				l4.u.dest = bpf_htons(dport);
			}
			printf("k=%lld\n", (long long)route(flag, &l4, saddr, daddr, mac));
		} else if (!strcmp(toks[0], "const") && n == 2) {
			size_t i;
			int found = 0;

			for (i = 0; i < sizeof(consts_tbl) / sizeof(consts_tbl[0]); i++)
				if (!strcmp(consts_tbl[i].name, toks[1])) {
					printf("=%lld\n", consts_tbl[i].v);
					found = 1;
					break;
				}
			if (!found)
				puts("=?");
		} else {
			puts("-");
		}
	}
	free(line);
	fflush(stdout);
	return 0;
}
