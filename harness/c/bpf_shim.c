/* /verif native BPF shim — see bpf_shim.h.  Plain C, no dependency on tproxy.c. */
#include <errno.h>
#include <stdio.h>
#include <stdlib.h>
#include <string.h>
#include <linux/bpf.h>
#include "bpf_shim.h"

uint64_t shim_ktime_ns = 1000000000ull;
int shim_strict = 0;
uint64_t shim_loop_calls = 0;

struct shim_node {
	struct shim_node *hnext;        /* bucket chain */
	struct shim_node *prev, *next;  /* insertion / recency order */
	uint32_t hash;
	unsigned char kv[] __attribute__((aligned(8))); /* key bytes, then (8-aligned) value bytes */
};

struct shim_map {
	void *handle;
	char name[48];
	int type;
	uint32_t key_size, value_size, max_entries;
	uint32_t voff; /* offset of the value inside shim_node.kv */
	/* array */
	unsigned char *arr;
	struct shim_map **inner; /* ARRAY_OF_MAPS */
	/* hash / lpm */
	struct shim_node **buckets;
	uint32_t nbuckets, count;
	struct shim_node *head, *tail;
};

#define SHIM_MAX_MAPS 256
static struct shim_map *registry[SHIM_MAX_MAPS];
static int nregistry;

static int is_array(int t)
{
	return t == BPF_MAP_TYPE_ARRAY || t == BPF_MAP_TYPE_PERCPU_ARRAY;
}
static int is_hash(int t)
{
	return t == BPF_MAP_TYPE_HASH || t == BPF_MAP_TYPE_LRU_HASH || t == BPF_MAP_TYPE_PERCPU_HASH ||
	       t == BPF_MAP_TYPE_LRU_PERCPU_HASH;
}
static int is_lru(int t)
{
	return t == BPF_MAP_TYPE_LRU_HASH || t == BPF_MAP_TYPE_LRU_PERCPU_HASH;
}

static struct shim_map *map_new(const char *name, int type, uint32_t ks, uint32_t vs, uint32_t max)
{
	struct shim_map *m = calloc(1, sizeof(*m));

	if (!m)
		abort();
	snprintf(m->name, sizeof(m->name), "%s", name ? name : "?");
	m->type = type;
	m->key_size = ks;
	m->value_size = vs;
	m->max_entries = max;
	m->voff = (ks + 7u) & ~7u;
	if (is_array(type)) {
		m->arr = calloc(max ? max : 1, vs ? vs : 1);
		if (!m->arr)
			abort();
	} else if (type == BPF_MAP_TYPE_ARRAY_OF_MAPS) {
		m->inner = calloc(max ? max : 1, sizeof(*m->inner));
		if (!m->inner)
			abort();
	} else if (is_hash(type) || type == BPF_MAP_TYPE_LPM_TRIE) {
		m->nbuckets = 64;
		m->buckets = calloc(m->nbuckets, sizeof(*m->buckets));
		if (!m->buckets)
			abort();
	}
	return m;
}

struct shim_map *shim_map_register(void *handle, const char *name, int type, uint32_t ks, uint32_t vs,
				   uint32_t max)
{
	struct shim_map *m;

	if (nregistry >= SHIM_MAX_MAPS)
		abort();
	m = map_new(name, type, ks, vs, max);
	m->handle = handle;
	registry[nregistry++] = m;
	return m;
}

struct shim_map *shim_map_create(const char *name, int type, uint32_t ks, uint32_t vs, uint32_t max)
{
	struct shim_map *m = map_new(name, type, ks, vs, max);

	m->handle = m; /* an inner map is its own handle */
	return m;
}

struct shim_map *shim_map_find(const void *handle)
{
	int i;

	for (i = 0; i < nregistry; i++)
		if (registry[i]->handle == handle)
			return registry[i];
	return NULL;
}

/* the inner-map handles are not in the registry: recognise them by the self pointer */
static struct shim_map *resolve(const void *handle)
{
	struct shim_map *m = shim_map_find(handle);
	int i;
	uint32_t j;

	if (m)
		return m;
	for (i = 0; i < nregistry; i++) {
		struct shim_map *o = registry[i];

		if (o->type != BPF_MAP_TYPE_ARRAY_OF_MAPS)
			continue;
		for (j = 0; j < o->max_entries; j++)
			if (o->inner[j] == handle)
				return o->inner[j];
	}
	return NULL;
}

static uint32_t fnv(const unsigned char *p, uint32_t n)
{
	uint32_t h = 2166136261u;

	while (n--) {
		h ^= *p++;
		h *= 16777619u;
	}
	return h;
}

static void order_unlink(struct shim_map *m, struct shim_node *n)
{
	if (n->prev)
		n->prev->next = n->next;
	else
		m->head = n->next;
	if (n->next)
		n->next->prev = n->prev;
	else
		m->tail = n->prev;
	n->prev = n->next = NULL;
}

static void order_append(struct shim_map *m, struct shim_node *n)
{
	n->prev = m->tail;
	n->next = NULL;
	if (m->tail)
		m->tail->next = n;
	else
		m->head = n;
	m->tail = n;
}

static void grow(struct shim_map *m)
{
	uint32_t nb = m->nbuckets * 4, i;
	struct shim_node **b = calloc(nb, sizeof(*b));
	struct shim_node *n;

	if (!b)
		abort();
	for (n = m->head; n; n = n->next) {
		i = n->hash & (nb - 1);
		n->hnext = b[i];
		b[i] = n;
	}
	free(m->buckets);
	m->buckets = b;
	m->nbuckets = nb;
}

static struct shim_node *hash_find(struct shim_map *m, const void *key, uint32_t h)
{
	struct shim_node *n;

	for (n = m->buckets[h & (m->nbuckets - 1)]; n; n = n->hnext)
		if (n->hash == h && memcmp(n->kv, key, m->key_size) == 0)
			return n;
	return NULL;
}

static void node_remove(struct shim_map *m, struct shim_node *n)
{
	struct shim_node **pp = &m->buckets[n->hash & (m->nbuckets - 1)];

	while (*pp && *pp != n)
		pp = &(*pp)->hnext;
	if (*pp)
		*pp = n->hnext;
	order_unlink(m, n);
	m->count--;
	free(n);
}

void shim_map_clear(struct shim_map *m)
{
	uint32_t i;

	if (!m)
		return;
	if (m->arr)
		memset(m->arr, 0, (size_t)(m->max_entries ? m->max_entries : 1) * (m->value_size ? m->value_size : 1));
	if (m->inner)
		for (i = 0; i < m->max_entries; i++)
			if (m->inner[i]) {
				shim_map_free(m->inner[i]);
				m->inner[i] = NULL;
			}
	while (m->head)
		node_remove(m, m->head);
}

void shim_map_free(struct shim_map *m)
{
	if (!m)
		return;
	shim_map_clear(m);
	free(m->arr);
	free(m->inner);
	free(m->buckets);
	free(m);
}

uint32_t shim_map_count(struct shim_map *m)
{
	return m ? m->count : 0;
}

int shim_map_entry(struct shim_map *m, uint32_t idx, const void **key, void **value)
{
	struct shim_node *n;

	if (!m)
		return 0;
	for (n = m->head; n && idx; n = n->next)
		idx--;
	if (!n)
		return 0;
	if (key)
		*key = n->kv;
	if (value)
		*value = n->kv + m->voff;
	return 1;
}

/* LPM: most significant bit of data[0] first, as the kernel's lpm_trie.c (longest_prefix_match) */
static uint32_t lpm_common_bits(const unsigned char *a, const unsigned char *b, uint32_t limit)
{
	uint32_t i;

	for (i = 0; i < limit; i++) {
		unsigned char x = (a[i / 8] >> (7 - i % 8)) & 1, y = (b[i / 8] >> (7 - i % 8)) & 1;

		if (x != y)
			break;
	}
	return i;
}

static struct shim_node *lpm_lookup(struct shim_map *m, const void *key)
{
	uint32_t plen, best_len = 0, data_bits = (m->key_size - 4) * 8;
	struct shim_node *n, *best = NULL;

	memcpy(&plen, key, 4);
	if (plen > data_bits)
		plen = data_bits; /* the kernel rejects such a probe with NULL for lookups: keep it total */
	for (n = m->head; n; n = n->next) {
		uint32_t nl;

		memcpy(&nl, n->kv, 4);
		if (nl > plen)
			continue;
		if (lpm_common_bits(n->kv + 4, (const unsigned char *)key + 4, nl) < nl)
			continue;
		if (!best || nl > best_len) {
			best = n;
			best_len = nl;
		}
	}
	return best;
}

void *shim_map_lookup(struct shim_map *m, const void *key)
{
	uint32_t idx;
	struct shim_node *n;

	if (!m)
		return NULL;
	if (is_array(m->type)) {
		memcpy(&idx, key, 4);
		if (idx >= m->max_entries)
			return NULL;
		return m->arr + (size_t)idx * m->value_size;
	}
	if (m->type == BPF_MAP_TYPE_ARRAY_OF_MAPS) {
		memcpy(&idx, key, 4);
		if (idx >= m->max_entries)
			return NULL;
		return m->inner[idx];
	}
	if (is_hash(m->type)) {
		n = hash_find(m, key, fnv(key, m->key_size));
		if (!n)
			return NULL;
		if (is_lru(m->type)) {
			order_unlink(m, n);
			order_append(m, n);
		}
		return n->kv + m->voff;
	}
	if (m->type == BPF_MAP_TYPE_LPM_TRIE) {
		n = lpm_lookup(m, key);
		return n ? n->kv + m->voff : NULL;
	}
	return NULL;
}

long shim_map_update(struct shim_map *m, const void *key, const void *value, uint64_t flags)
{
	uint32_t idx, h;
	struct shim_node *n;

	if (!m)
		return -EBADF;
	if (is_array(m->type)) {
		memcpy(&idx, key, 4);
		if (idx >= m->max_entries)
			return -E2BIG;
		if (flags == BPF_NOEXIST)
			return -EEXIST;
		memcpy(m->arr + (size_t)idx * m->value_size, value, m->value_size);
		return 0;
	}
	if (!(is_hash(m->type) || m->type == BPF_MAP_TYPE_LPM_TRIE))
		return -EINVAL;
	if (m->type == BPF_MAP_TYPE_LPM_TRIE) {
		uint32_t plen;

		memcpy(&plen, key, 4);
		if (plen > (m->key_size - 4) * 8)
			return -EINVAL;
	}
	h = fnv(key, m->key_size);
	n = hash_find(m, key, h);
	if (n) {
		if (flags == BPF_NOEXIST)
			return -EEXIST;
		memcpy(n->kv + m->voff, value, m->value_size);
		if (is_lru(m->type)) {
			order_unlink(m, n);
			order_append(m, n);
		}
		return 0;
	}
	if (flags == BPF_EXIST)
		return -ENOENT;
	if (m->max_entries && m->count >= m->max_entries) {
		if (!is_lru(m->type))
			return m->type == BPF_MAP_TYPE_LPM_TRIE ? -ENOSPC : -E2BIG;
		node_remove(m, m->head);
	}
	n = calloc(1, sizeof(*n) + m->voff + m->value_size);
	if (!n)
		abort();
	n->hash = h;
	memcpy(n->kv, key, m->key_size);
	memcpy(n->kv + m->voff, value, m->value_size);
	if (m->count + 1 > m->nbuckets * 2)
		grow(m);
	n->hnext = m->buckets[h & (m->nbuckets - 1)];
	m->buckets[h & (m->nbuckets - 1)] = n;
	order_append(m, n);
	m->count++;
	return 0;
}

long shim_map_delete(struct shim_map *m, const void *key)
{
	struct shim_node *n;

	if (!m)
		return -EBADF;
	if (is_array(m->type))
		return -EINVAL;
	if (m->type == BPF_MAP_TYPE_ARRAY_OF_MAPS) {
		uint32_t idx;

		memcpy(&idx, key, 4);
		return shim_map_set_inner(m, idx, NULL);
	}
	if (!(is_hash(m->type) || m->type == BPF_MAP_TYPE_LPM_TRIE))
		return -EINVAL;
	n = hash_find(m, key, fnv(key, m->key_size));
	if (!n)
		return -ENOENT;
	node_remove(m, n);
	return 0;
}

long shim_map_set_inner(struct shim_map *outer, uint32_t idx, struct shim_map *inner)
{
	if (!outer || outer->type != BPF_MAP_TYPE_ARRAY_OF_MAPS)
		return -EINVAL;
	if (idx >= outer->max_entries)
		return -E2BIG;
	if (!inner && !outer->inner[idx])
		return -ENOENT;
	if (outer->inner[idx])
		shim_map_free(outer->inner[idx]);
	outer->inner[idx] = inner;
	return 0;
}

/* ------------------------------------------------------------------ the BPF helpers */

static struct shim_map *need(const void *handle, const char *what)
{
	struct shim_map *m = resolve(handle);

	if (!m && shim_strict) {
		fprintf(stderr, "bpf_shim: %s on an unregistered map %p\n", what, handle);
		abort();
	}
	return m;
}

void *bpf_map_lookup_elem(void *map, const void *key)
{
	return shim_map_lookup(need(map, "lookup"), key);
}

long bpf_map_update_elem(void *map, const void *key, const void *value, uint64_t flags)
{
	return shim_map_update(need(map, "update"), key, value, flags);
}

long bpf_map_delete_elem(void *map, const void *key)
{
	return shim_map_delete(need(map, "delete"), key);
}

/* kernel/bpf/bpf_iter.c bpf_loop(): -E2BIG above BPF_MAX_LOOPS (8M), stops when the callback
 * returns non-zero, returns the number of iterations performed. */
long bpf_loop(uint32_t nr_loops, void *callback_fn, void *callback_ctx, uint64_t flags)
{
	long (*cb)(uint32_t, void *) = (long (*)(uint32_t, void *))callback_fn;
	int (*cbi)(uint32_t, void *) = (int (*)(uint32_t, void *))callback_fn;
	uint32_t i;

	(void)cb;
	if (flags)
		return -EINVAL;
	if (nr_loops > (8u << 20))
		return -E2BIG;
	for (i = 0; i < nr_loops; i++) {
		shim_loop_calls++;
		if (cbi(i, callback_ctx))
			return i + 1;
	}
	return i;
}

uint64_t bpf_ktime_get_ns(void)
{
	return shim_ktime_ns;
}

/* Everything below is a weak default so that a driver needing real behaviour (C03: skb access,
 * socket lookup, redirects) can provide a strong definition. */
#define WEAK __attribute__((weak))
WEAK long bpf_skb_load_bytes(const void *skb, uint32_t offset, void *to, uint32_t len) { (void)skb; (void)offset; memset(to, 0, len); return -EFAULT; }
WEAK long bpf_skb_store_bytes(void *skb, uint32_t offset, const void *from, uint32_t len, uint64_t flags) { (void)skb; (void)offset; (void)from; (void)len; (void)flags; return -EFAULT; }
WEAK long bpf_skb_pull_data(void *skb, uint32_t len) { (void)skb; (void)len; return 0; }
WEAK long bpf_skb_change_type(void *skb, uint32_t type) { (void)skb; (void)type; return 0; }
WEAK long bpf_skb_change_head(void *skb, uint32_t len, uint64_t flags) { (void)skb; (void)len; (void)flags; return 0; }
WEAK long bpf_redirect(uint32_t ifindex, uint64_t flags) { (void)ifindex; (void)flags; return 7; /* TC_ACT_REDIRECT */ }
WEAK long bpf_redirect_peer(uint32_t ifindex, uint64_t flags) { (void)ifindex; (void)flags; return 7; }
WEAK uint64_t bpf_get_socket_cookie(void *ctx) { (void)ctx; return 0; }
WEAK uint64_t bpf_get_current_pid_tgid(void) { return 0; }
WEAK uint64_t bpf_get_current_task(void) { return 0; }
WEAK long bpf_get_current_comm(void *buf, uint32_t size) { memset(buf, 0, size); return 0; }
WEAK long bpf_core_read_user_str(void *dst, uint32_t sz, const void *src) { (void)src; if (sz) *(char *)dst = 0; return 1; }
struct bpf_sock;
struct bpf_sock_tuple;
WEAK struct bpf_sock *bpf_skc_lookup_tcp(void *ctx, struct bpf_sock_tuple *t, uint32_t sz, uint64_t netns, uint64_t flags) { (void)ctx; (void)t; (void)sz; (void)netns; (void)flags; return NULL; }
WEAK struct bpf_sock *bpf_sk_lookup_udp(void *ctx, struct bpf_sock_tuple *t, uint32_t sz, uint64_t netns, uint64_t flags) { (void)ctx; (void)t; (void)sz; (void)netns; (void)flags; return NULL; }
WEAK struct bpf_sock *bpf_sk_fullsock(struct bpf_sock *sk) { return sk; }
WEAK long bpf_sk_release(void *sock) { (void)sock; return 0; }
WEAK long bpf_sk_assign(void *ctx, void *sk, uint64_t flags) { (void)ctx; (void)sk; (void)flags; return 0; }
WEAK long bpf_ringbuf_output(void *rb, void *data, uint64_t size, uint64_t flags) { (void)rb; (void)data; (void)size; (void)flags; return 0; }
WEAK long bpf_msg_redirect_hash(void *msg, void *map, void *key, uint64_t flags) { (void)msg; (void)map; (void)key; (void)flags; return 0; }
WEAK long bpf_sock_hash_update(void *skops, void *map, void *key, uint64_t flags) { (void)skops; (void)map; (void)key; (void)flags; return 0; }
WEAK long bpf_sock_map_update(void *skops, void *map, void *key, uint64_t flags) { (void)skops; (void)map; (void)key; (void)flags; return 0; }
WEAK uint32_t bpf_get_prandom_u32(void) { return 4; }
WEAK int verif_printk(const char *fmt, ...) { (void)fmt; return 0; }
