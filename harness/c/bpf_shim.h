/* /verif native BPF shim: in-memory implementations of the BPF map types and helpers that
 * control/kern/tproxy.c uses, so that its functions can be called in-process from a native
 * (clang, ASan/UBSan) harness.  Shared by the C02 and C03 drivers.
 *
 * Usage (in a driver .c that `#include`s tproxy.c):
 *
 *     #include "bpf_shim.h"
 *     #include "tproxy.c"
 *     ...
 *     SHIM_REG_KV(routing_map);            // maps declared with __type(key, ..)/__type(value, ..)
 *     SHIM_REG_SZ(lpm_array_map, 4, 0);    // maps declared with __uint(key_size, ..)
 *
 * A map is identified by the ADDRESS of the global the BPF program passes to the helpers, exactly
 * like the kernel identifies it by the fd/pointer relocated into the instruction.  Inner maps of an
 * ARRAY_OF_MAPS are `struct shim_map` objects created with shim_map_create(); the pointer returned
 * by looking up the outer map is the inner map's handle.
 *
 * Semantics implemented (each mirrors the kernel's documented behaviour, independently of the Lean
 * model):
 *   ARRAY / PERCPU_ARRAY : max_entries zero-initialised slots, lookup(idx >= max) = NULL,
 *                          delete = -EINVAL, update(idx >= max) = -E2BIG
 *   HASH / LRU_HASH      : exact key match, BPF_NOEXIST / BPF_EXIST flags, -E2BIG when full
 *                          (LRU evicts the least recently updated/looked-up element instead)
 *   LPM_TRIE             : key = u32 prefixlen + data bytes; lookup returns the value of the stored
 *                          key with the LONGEST prefixlen whose first prefixlen bits (most
 *                          significant bit of data[0] first) equal the probe's, among keys with
 *                          prefixlen <= probe prefixlen
 *   ARRAY_OF_MAPS        : slots hold inner map handles, lookup of an empty slot = NULL
 */
#ifndef VERIF_BPF_SHIM_H
#define VERIF_BPF_SHIM_H
#include <stdint.h>
#include <stddef.h>

struct shim_map;

/* type = enum bpf_map_type value (from <linux/bpf.h>) */
struct shim_map *shim_map_register(void *handle, const char *name, int type, uint32_t key_size,
				   uint32_t value_size, uint32_t max_entries);
struct shim_map *shim_map_create(const char *name, int type, uint32_t key_size, uint32_t value_size,
				 uint32_t max_entries);
void shim_map_free(struct shim_map *m);
struct shim_map *shim_map_find(const void *handle); /* NULL when not registered */
void shim_map_clear(struct shim_map *m);
void *shim_map_lookup(struct shim_map *m, const void *key);
long shim_map_update(struct shim_map *m, const void *key, const void *value, uint64_t flags);
long shim_map_delete(struct shim_map *m, const void *key);
uint32_t shim_map_count(struct shim_map *m);
/* iterate a hash map: idx in [0, count) in insertion order; returns 0 when out of range */
int shim_map_entry(struct shim_map *m, uint32_t idx, const void **key, void **value);
/* ARRAY_OF_MAPS: install / remove an inner map (the previous inner map is freed) */
long shim_map_set_inner(struct shim_map *outer, uint32_t idx, struct shim_map *inner);

/* knobs */
extern uint64_t shim_ktime_ns;   /* value returned by bpf_ktime_get_ns() (settable) */
extern int shim_strict;          /* 1: abort on a helper call with an unregistered map */
extern uint64_t shim_loop_calls; /* number of bpf_loop callback invocations (statistics) */

/* registration helpers for maps declared in the BPF source */
#define SHIM_ARRLEN(p) (sizeof(*(p)) / sizeof(int))
#define SHIM_REG_KV(m)                                                                      \
	shim_map_register(&(m), #m, (int)SHIM_ARRLEN((m).type), (uint32_t)sizeof(*(m).key),   \
			  (uint32_t)sizeof(*(m).value), (uint32_t)SHIM_ARRLEN((m).max_entries))
#define SHIM_REG_SZ(m)                                                                      \
	shim_map_register(&(m), #m, (int)SHIM_ARRLEN((m).type),                               \
			  (uint32_t)SHIM_ARRLEN((m).key_size), 0, (uint32_t)SHIM_ARRLEN((m).max_entries))

#endif
