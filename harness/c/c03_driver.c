/* C03 native driver: /repo's control/kern/tproxy.c compiled UNMODIFIED (it is #included below; the
 * check passes -I<repo>/control/kern) and its TC entry points tproxy_{lan,wan}_{ingress,egress}_l{2,3},
 * parse_transport_fast and parse_transport_slow called in-process on generated frames, with the
 * in-memory maps of bpf_shim.c and the controllable helpers defined here (strong definitions that
 * replace bpf_shim.c's weak defaults).
 *
 * Reads the op stream the Go harness generated (the same file the Lean driver c03drv reads) on
 * stdin and prints one answer per line:
 *
 *   caps <conn> <handoff> <rtrack>      FIRST line: max_entries of conn_state_map / routing_handoff_map /
 *                                       redirect_track for this process                         -> ok
 *   reset                               clear every map, PARAM := 0, clock := 1e9              -> ok
 *   param <ctlpid> <sockmark> <dae0if> <usepeer> <peermac 12hex> [<netns>]                     -> ok
 *   paramimg <hex>                      PARAM := these bytes (the image the control plane's struct literal serialises to);
 *                                       -> port= pid= dae0= netns= mac= peer= task= mark= size=  as the programs read them
 *   clock <ns>                          bpf_ktime_get_ns() := ns                               -> ok
 *   rules <n> {<48hex>}*n | meta <n> | dom <32hex> <256hex> | domdel <32hex>   (as the C02 driver) -> ok
 *   lpm <slot> <nkeys> {<prefixlen>:<32hex>}*   lpm_array_map[slot] = new LPM trie with these keys  -> ok
 *   alive <key> <val>                   outbound_connectivity_map[key] = val                   -> ok
 *   cookie <cookie> <pid> <pname 32hex> cookie_pid_map[cookie] = {now, pid, pname}              -> ok
 *   cookiedel <cookie>                                                                         -> ok | err=<rc>
 *   conndel <80hex key>                 userspace janitor removes a conn_state entry           -> ok | err=<rc>
 *   frame <hook> <l2> <proto> <lin> <pull> <ingressif> <ifindex> <mark> <cookie> <sk> <hex>
 *         hook = li | le | wi | we ; l2 = 1 (link_h_len 14) | 0 ; proto = ethertype of skb->protocol
 *         (decimal); lin = linear bytes (data_end - data) ; pull = 1: bpf_skb_pull_data succeeds ;
 *         sk = - | <proto>:<mark>:<state>:<netns>:<tuple hex>  the one relevant socket of the host: the lookup
 *              helpers return it only when asked for that protocol, struct bpf_sock_tuple image and netns
 *       -> v=<ret> mark=<skb mark> cb=<cb0>:<cb1> redir=<-|ifindex:flags:peer> pkt=<=|hex>
 *          conn=[..] ho=[..] rt=[..] ck=[..] ev=[..] ovf=<udp>:<tcp>
 *          ([..] = entries of that map the program added/changed (+key:value) or removed (-key),
 *          sorted by key bytes)
 *   peer <mask>                         tproxy_dae0peer_ingress on the skb the last frame op left; mask = filled
 *                                       slots of listen_socket_map   -> v= mark= ptype=<-|n> assign=<-|slot>
 *   d0 <proto> <lin> <pull> <hex>       tproxy_dae0_ingress on an Ethernet frame -> v= redir=<-|if:flags> ptype= pkt= rt=[..]
 *   parse <l2> <proto> <lin> <pull> <hex>  -> f=<parse_transport_fast> s=<parse_transport_slow> t=<parse_transport>
 *                                          each <ret> or <ret>:<consumed fields>
 *   retr ...                            -> full raw dump of conn_state_map and routing_handoff_map
 *                                          (the Go side loads them into kernel maps and runs the real
 *                                          RetrieveRoutingResult)
 *   jan <aggressive> <age>              -> the same raw dump (the Go side runs the real janitors on it)
 *   cg <prog> <cookie> <tgid> <hastask> <comm hex|=|-> <args hex|=|->
 *                                       one of the cgroup programs (prog = create | release | connect4 | connect6 |
 *                                       sendmsg4 | sendmsg6) runs for socket cookie <cookie> in the context of a task
 *                                       with that tgid, comm (`-`: bpf_get_current_comm fails) and command line at
 *                                       mm->arg_start (`-`: the user read faults; `=`: empty string);
 *                                       PARAM.has_bpf_get_current_task := hastask          -> rc=<ret> ck=[..]
 *   jan4 <aggr> <age> <staleago> | jsnap <aggr> <age> <staleago> | jdel
 *                                       -> raw dump of conn_state_map, routing_handoff_map, redirect_track and
 *                                          cookie_pid_map (the Go side runs the real janitors on them)
 *   const <name>                        -> =<value compiled into the kernel program>
 *   anything else                       -> -
 */
#define _GNU_SOURCE
#include <stdio.h>
#include <stdlib.h>
#include <string.h>
#include <stdint.h>
#include <stdarg.h>
#include <unistd.h>
#include <sys/mman.h>
#include "bpf_shim.h"
#include "tproxy.c"

/* ------------------------------------------------------------------ skb emulation */

#define FRAME_MAX 2048
static unsigned char *pkt_area;   /* MAP_32BIT region */
static unsigned char *pkt_data;   /* == (void *)(long)skb->data */
static uint32_t pkt_len;          /* skb->len */
static uint32_t pkt_lin;          /* linear bytes */
static int pull_ok;
static uint64_t cur_cookie;
static int sk_present;
static struct bpf_sock sk_obj;
/* the one socket of the host's table relevant for this frame: found only by the right helper, under
 * the right struct bpf_sock_tuple image and netns */
static int sk_proto;               /* IPPROTO_TCP / IPPROTO_UDP */
static uint64_t sk_netns;
static unsigned char sk_tuple[40];
static uint32_t sk_tuple_len;
static int redir_set;
static uint32_t redir_ifindex;
static uint64_t redir_flags;
static int redir_peer;
static int sk_refs;

struct ev_rec {
	uint32_t type, pid;
	uint8_t outbound, l4proto;
};
static struct ev_rec evs[16];
static int nevs;

long bpf_skb_load_bytes(const void *skb, __u32 offset, void *to, __u32 len)
{
	(void)skb;
	if (offset > 0x7fffffffu || (uint64_t)offset + len > pkt_len) {
		memset(to, 0, len);
		return -EFAULT;
	}
	memcpy(to, pkt_data + offset, len);
	return 0;
}

long bpf_skb_store_bytes(void *skb, __u32 offset, const void *from, __u32 len, __u64 flags)
{
	(void)skb;
	(void)flags;
	if ((uint64_t)offset + len > pkt_len)
		return -EFAULT;
	memcpy(pkt_data + offset, from, len);
	return 0;
}

long bpf_skb_pull_data(void *skb, __u32 len)
{
	(void)skb;
	(void)len;
	return pull_ok ? 0 : -ENOMEM;
}

long bpf_skb_change_head(void *skbp, __u32 len, __u64 flags)
{
	struct __sk_buff *skb = skbp;

	(void)flags;
	if (pkt_len + len > FRAME_MAX)
		return -ENOMEM;
	memmove(pkt_data + len, pkt_data, pkt_len);
	memset(pkt_data, 0, len);
	pkt_len += len;
	pkt_lin += len;
	skb->len = pkt_len;
	skb->data_end = skb->data + pkt_lin;
	return 0;
}

static int chtype_set;
static uint32_t chtype_val;
static int assign_set;
static uint64_t assign_val;

long bpf_skb_change_type(void *skb, __u32 type)
{
	(void)skb;
	chtype_set = 1;
	chtype_val = type;
	return 0;
}

/* listen_socket_map holds, under key k, the value 1000 + k: that is "the socket" bpf_sk_assign receives */
long bpf_sk_assign(void *ctx, void *sk, __u64 flags)
{
	(void)ctx;
	assign_set = 1;
	assign_val = flags ? 999999 : *(uint64_t *)sk;
	sk_refs++; /* the sockmap lookup took a reference; assign_listener must release it */
	return 0;
}

long bpf_redirect(__u32 ifindex, __u64 flags)
{
	redir_set = 1;
	redir_ifindex = ifindex;
	redir_flags = flags;
	redir_peer = 0;
	return TC_ACT_REDIRECT;
}

long bpf_redirect_peer(__u32 ifindex, __u64 flags)
{
	redir_set = 1;
	redir_ifindex = ifindex;
	redir_flags = flags;
	redir_peer = 1;
	return TC_ACT_REDIRECT;
}

__u64 bpf_get_socket_cookie(void *ctx)
{
	(void)ctx;
	return cur_cookie;
}

/* ---- the current task as the cgroup programs see it */
static uint64_t cur_pid_tgid;
static int comm_ok;
static char cur_comm[16];
static int args_ok;
static char cur_args[512]; /* NUL-terminated command line in "user memory" */
static struct mm_struct cur_mm;
static struct task_struct cur_task;

__u64 bpf_get_current_pid_tgid(void)
{
	return cur_pid_tgid;
}

__u64 bpf_get_current_task(void)
{
	cur_mm.arg_start = (unsigned long)cur_args;
	cur_task.mm = &cur_mm;
	return (__u64)(uintptr_t)&cur_task;
}

/* kernel: strscpy_pad of task->comm; on failure the buffer is zeroed and a negative value returned */
long bpf_get_current_comm(void *buf, __u32 size)
{
	if (!comm_ok) {
		memset(buf, 0, size);
		return -EINVAL;
	}
	memset(buf, 0, size);
	memcpy(buf, cur_comm, size < sizeof(cur_comm) ? size : sizeof(cur_comm));
	return 0;
}

/* kernel (bpf_probe_read_user_str): copies at most sz-1 bytes plus the NUL, returns the length including the
 * NUL; the rest of the buffer is NOT padded (filled with junk here so that a read beyond the NUL shows);
 * on a fault the buffer is zeroed and -EFAULT returned */
long bpf_core_read_user_str(void *dst, __u32 sz, const void *src)
{
	size_t n;

	if (!sz)
		return 0;
	if (!args_ok || !src) {
		memset(dst, 0, sz);
		return -EFAULT;
	}
	n = strlen((const char *)src);
	if (n > sz - 1)
		n = sz - 1;
	memset(dst, 0x5A, sz);
	memcpy(dst, src, n);
	((char *)dst)[n] = 0;
	return (long)n + 1;
}

static struct bpf_sock *sock_table_lookup(int proto, struct bpf_sock_tuple *t, __u32 sz, __u64 netns, __u64 flags)
{
	if (!sk_present || flags != 0 || proto != sk_proto || netns != sk_netns || sz != sk_tuple_len ||
	    memcmp(t, sk_tuple, sz) != 0)
		return NULL;
	sk_refs++;
	return &sk_obj;
}

struct bpf_sock *bpf_skc_lookup_tcp(void *ctx, struct bpf_sock_tuple *t, __u32 sz, __u64 netns, __u64 flags)
{
	(void)ctx;
	return sock_table_lookup(IPPROTO_TCP, t, sz, netns, flags);
}

struct bpf_sock *bpf_sk_lookup_udp(void *ctx, struct bpf_sock_tuple *t, __u32 sz, __u64 netns, __u64 flags)
{
	(void)ctx;
	return sock_table_lookup(IPPROTO_UDP, t, sz, netns, flags);
}

struct bpf_sock *bpf_sk_fullsock(struct bpf_sock *sk)
{
	return sk;
}

long bpf_sk_release(void *sock)
{
	(void)sock;
	sk_refs--;
	return 0;
}

long bpf_ringbuf_output(void *rb, void *data, __u64 size, __u64 flags)
{
	struct dae_event *e = data;

	(void)rb; (void)flags;
	if (size == sizeof(*e) && nevs < 16) {
		evs[nevs].type = e->type;
		evs[nevs].pid = e->pid;
		evs[nevs].outbound = e->outbound;
		evs[nevs].l4proto = e->l4proto;
		nevs++;
	}
	return 0;
}

/* ------------------------------------------------------------------ utilities */

static int hexval(int c)
{
	if (c >= '0' && c <= '9')
		return c - '0';
	if (c >= 'a' && c <= 'f')
		return c - 'a' + 10;
	if (c >= 'A' && c <= 'F')
		return c - 'A' + 10;
	return -1;
}

static int unhex(const char *s, unsigned char *out, size_t n)
{
	size_t i;

	if (!s || strlen(s) != 2 * n)
		return -1;
	for (i = 0; i < n; i++) {
		int a = hexval(s[2 * i]), b = hexval(s[2 * i + 1]);

		if (a < 0 || b < 0)
			return -1;
		out[i] = (unsigned char)(a * 16 + b);
	}
	return 0;
}

static void puthex(const unsigned char *p, size_t n)
{
	static const char d[] = "0123456789abcdef";
	size_t i;

	for (i = 0; i < n; i++) {
		putchar(d[p[i] >> 4]);
		putchar(d[p[i] & 15]);
	}
}

#define MAXTOK 4200
static char *toks[MAXTOK];

static int split(char *line)
{
	int n = 0;
	char *p = line;

	while (*p) {
		while (*p == ' ')
			p++;
		if (!*p)
			break;
		if (n < MAXTOK)
			toks[n++] = p;
		while (*p && *p != ' ')
			p++;
		if (*p)
			*p++ = 0;
	}
	return n;
}

/* ------------------------------------------------------------------ map snapshots / diffs */

struct snap {
	uint32_t n, ks, vs;
	unsigned char *buf; /* n * (ks + vs) */
};

static void snap_take(struct shim_map *m, uint32_t ks, uint32_t vs, struct snap *s)
{
	uint32_t i, n = shim_map_count(m);

	s->n = n;
	s->ks = ks;
	s->vs = vs;
	s->buf = malloc((size_t)(n ? n : 1) * (ks + vs));
	for (i = 0; i < n; i++) {
		const void *k;
		void *v;

		shim_map_entry(m, i, &k, &v);
		memcpy(s->buf + (size_t)i * (ks + vs), k, ks);
		memcpy(s->buf + (size_t)i * (ks + vs) + ks, v, vs);
	}
}

static int snap_cmp_ks;
static int snap_cmp(const void *a, const void *b)
{
	return memcmp(a, b, snap_cmp_ks);
}

static unsigned char *snap_find(struct snap *s, const unsigned char *key)
{
	uint32_t i;

	for (i = 0; i < s->n; i++)
		if (!memcmp(s->buf + (size_t)i * (s->ks + s->vs), key, s->ks))
			return s->buf + (size_t)i * (s->ks + s->vs);
	return NULL;
}

/* prints name=[+k:v;-k;...] : entries of `after` that are new or changed, then entries removed */
static void snap_diff(const char *name, struct snap *before, struct snap *after)
{
	uint32_t i, w = before->ks + before->vs;
	int first = 1;

	snap_cmp_ks = before->ks;
	qsort(before->buf, before->n, w, snap_cmp);
	qsort(after->buf, after->n, w, snap_cmp);
	printf(" %s=[", name);
	/* merged walk in key order */
	{
		uint32_t a = 0, b = 0;

		while (a < after->n || b < before->n) {
			unsigned char *ea = a < after->n ? after->buf + (size_t)a * w : NULL;
			unsigned char *eb = b < before->n ? before->buf + (size_t)b * w : NULL;
			int c = !ea ? 1 : !eb ? -1 : memcmp(ea, eb, before->ks);

			if (c < 0) { /* added */
				if (!first) putchar(';');
				first = 0;
				putchar('+');
				puthex(ea, before->ks);
				putchar(':');
				puthex(ea + before->ks, before->vs);
				a++;
			} else if (c > 0) { /* removed */
				if (!first) putchar(';');
				first = 0;
				putchar('-');
				puthex(eb, before->ks);
				b++;
			} else {
				if (memcmp(ea + before->ks, eb + before->ks, before->vs)) {
					if (!first) putchar(';');
					first = 0;
					putchar('+');
					puthex(ea, before->ks);
					putchar(':');
					puthex(ea + before->ks, before->vs);
				}
				a++;
				b++;
			}
		}
	}
	putchar(']');
	(void)snap_find;
	(void)i;
}

static void snap_dump(const char *name, struct shim_map *m, uint32_t ks, uint32_t vs)
{
	struct snap s;
	uint32_t i, w = ks + vs;

	snap_take(m, ks, vs, &s);
	snap_cmp_ks = ks;
	qsort(s.buf, s.n, w, snap_cmp);
	printf("%s=[", name);
	for (i = 0; i < s.n; i++) {
		if (i) putchar(';');
		puthex(s.buf + (size_t)i * w, ks);
		putchar(':');
		puthex(s.buf + (size_t)i * w + ks, vs);
	}
	putchar(']');
	free(s.buf);
}

/* ------------------------------------------------------------------ maps */

static struct shim_map *m_routing, *m_meta, *m_lpm_array, *m_domain, *m_alive, *m_rtrack, *m_handoff,
	*m_cookie, *m_conn, *m_stats, *m_parse, *m_pkt, *m_routectx, *m_wanscratch, *m_ctargs, *m_listen;

static struct dae_param *param_rw(void)
{
	static int unprotected;
	uintptr_t a = (uintptr_t)&PARAM, pg = (uintptr_t)sysconf(_SC_PAGESIZE);

	if (!unprotected) {
		uintptr_t start = a & ~(pg - 1), end = (a + sizeof(PARAM) + pg - 1) & ~(pg - 1);

		if (mprotect((void *)start, end - start, PROT_READ | PROT_WRITE)) {
			perror("mprotect PARAM");
			exit(3);
		}
		unprotected = 1;
	}
	/* hide the provenance: a store to an object declared const would otherwise be dropped */
	__asm__ volatile("" : "+r"(a));
	return (struct dae_param *)a;
}

static void reset_all(void)
{
	shim_map_clear(m_routing);
	shim_map_clear(m_meta);
	shim_map_clear(m_lpm_array);
	shim_map_clear(m_domain);
	shim_map_clear(m_alive);
	shim_map_clear(m_rtrack);
	shim_map_clear(m_handoff);
	shim_map_clear(m_cookie);
	shim_map_clear(m_conn);
	shim_map_clear(m_stats);
	shim_map_clear(m_parse);
	shim_map_clear(m_pkt);
	shim_map_clear(m_routectx);
	shim_map_clear(m_wanscratch);
	shim_map_clear(m_ctargs);
	shim_map_clear(m_listen);
	memset(param_rw(), 0, sizeof(struct dae_param));
	shim_ktime_ns = 1000000000ull;
}

struct cdef {
	const char *name;
	long long v;
};
#define K(x) { #x, (long long)(x) }
static const struct cdef consts_tbl[] = {
	K(OUTBOUND_DIRECT), K(OUTBOUND_BLOCK), K(OUTBOUND_MUST_RULES), K(OUTBOUND_CONTROL_PLANE_ROUTING),
	K(TPROXY_MARK), K(TC_ACT_OK), K(TC_ACT_SHOT), K(TC_ACT_PIPE), K(TC_ACT_REDIRECT),
	K(UDP_CONN_STATE_TIMEOUT_NS), K(UDP_CONN_STATE_UPDATE_INTERVAL_NS),
	K(TCP_CONN_STATE_ESTABLISHED_TIMEOUT_NS), K(TCP_CONN_STATE_CLOSING_TIMEOUT_NS),
	K(TCP_CONN_STATE_UPDATE_INTERVAL_NS), K(HEADER_PULL_SIZE), K(IPV6_MAX_EXTENSIONS), K(PARSE_FRAGMENT),
	K(NDP_REDIRECT), K(TCP_STATE_ACTIVE), K(TCP_STATE_CLOSING), K(BPF_TCP_LISTEN),
	K(DAE_EVENT_BLOCKED), K(DAE_EVENT_UDP_CONN_OVERFLOW), K(DAE_EVENT_TCP_CONN_OVERFLOW),
	{ "sizeof_tuples_key", sizeof(struct tuples_key) },
	{ "off_tuples_key_sip", offsetof(struct tuples_key, sip) },
	{ "off_tuples_key_dip", offsetof(struct tuples_key, dip) },
	{ "off_tuples_key_sport", offsetof(struct tuples_key, sport) },
	{ "off_tuples_key_dport", offsetof(struct tuples_key, dport) },
	{ "off_tuples_key_l4proto", offsetof(struct tuples_key, l4proto) },
	{ "sizeof_conn_state", sizeof(struct conn_state) },
	{ "off_conn_state_is_wan_ingress_direction", offsetof(struct conn_state, is_wan_ingress_direction) },
	{ "off_conn_state_state", offsetof(struct conn_state, state) },
	{ "off_conn_state_last_seen_ns", offsetof(struct conn_state, last_seen_ns) },
	{ "off_conn_state_meta", offsetof(struct conn_state, meta) },
	{ "off_conn_state_mac", offsetof(struct conn_state, mac) },
	{ "off_conn_state_pname", offsetof(struct conn_state, pname) },
	{ "off_conn_state_pid", offsetof(struct conn_state, pid) },
	{ "off_meta_mark", offsetof(union routing_meta, data.mark) },
	{ "off_meta_outbound", offsetof(union routing_meta, data.outbound) },
	{ "off_meta_must", offsetof(union routing_meta, data.must) },
	{ "off_meta_dscp", offsetof(union routing_meta, data.dscp) },
	{ "off_meta_has_routing", offsetof(union routing_meta, data.has_routing) },
	{ "sizeof_routing_result", sizeof(struct routing_result) },
	{ "off_routing_result_mark", offsetof(struct routing_result, mark) },
	{ "off_routing_result_must", offsetof(struct routing_result, must) },
	{ "off_routing_result_mac", offsetof(struct routing_result, mac) },
	{ "off_routing_result_outbound", offsetof(struct routing_result, outbound) },
	{ "off_routing_result_pname", offsetof(struct routing_result, pname) },
	{ "off_routing_result_pid", offsetof(struct routing_result, pid) },
	{ "off_routing_result_dscp", offsetof(struct routing_result, dscp) },
	{ "sizeof_routing_handoff_entry", sizeof(struct routing_handoff_entry) },
	{ "off_routing_handoff_entry_last_seen_ns", offsetof(struct routing_handoff_entry, last_seen_ns) },
	{ "off_routing_handoff_entry_result", offsetof(struct routing_handoff_entry, result) },
	{ "sizeof_redirect_tuple", sizeof(struct redirect_tuple) },
	{ "sizeof_redirect_entry", sizeof(struct redirect_entry) },
	{ "sizeof_pid_pname", sizeof(struct pid_pname) },
	{ "connectivity_max_entries", (long long)SHIM_ARRLEN(outbound_connectivity_map.max_entries) },
};

/* the fields of the parsed-header context that any later code reads */
static void print_consumed(int ret, const struct parse_transport_ctx *c)
{
	printf("%d", ret);
	if (ret < 0)
		return;
	putchar(':');
	printf("%u:", (unsigned)bpf_ntohs(c->ethh.h_proto));
	puthex(c->ethh.h_source, 6);
	putchar(':');
	puthex(c->ethh.h_dest, 6);
	printf(":%u:", (unsigned)(c->iph.version == 4));
	puthex((const unsigned char *)&c->iph.saddr, 4);
	putchar(':');
	puthex((const unsigned char *)&c->iph.daddr, 4);
	printf(":%u:", (unsigned)c->iph.tos);
	puthex((const unsigned char *)&c->ipv6h.saddr, 16);
	putchar(':');
	puthex((const unsigned char *)&c->ipv6h.daddr, 16);
	printf(":%u:%u:%u:", (unsigned)ipv6_get_dscp(&c->ipv6h), (unsigned)c->l4proto, (unsigned)c->listener_l4proto);
	printf("%u:%u:%u%u%u%u:", (unsigned)bpf_ntohs(c->tcph.source), (unsigned)bpf_ntohs(c->tcph.dest),
	       (unsigned)c->tcph.syn, (unsigned)c->tcph.ack, (unsigned)c->tcph.fin, (unsigned)c->tcph.rst);
	printf("%u:%u:%u", (unsigned)bpf_ntohs(c->udph.source), (unsigned)bpf_ntohs(c->udph.dest),
	       (unsigned)c->icmp6h.icmp6_type);
}

static struct __sk_buff skb;

/* place the frame; returns 0 on success */
static int load_frame(int l2, unsigned proto, unsigned lin, int pull, const char *hex)
{
	size_t n = strlen(hex) / 2;

	if (!strcmp(hex, "-"))
		n = 0;
	else if (strlen(hex) % 2 || n > FRAME_MAX - 64)
		return -1;
	/* 16-aligned base; L2 frames at +2 (NET_IP_ALIGN), L3 frames at +16 so that the IP header is
	 * 4-aligned in both cases */
	memset(pkt_area, 0xA5, 4096);
	pkt_data = pkt_area + 1024 + (l2 ? 2 : 16);
	if (n && unhex(hex, pkt_data, n))
		return -1;
	pkt_len = (uint32_t)n;
	if (lin > n)
		return -1;
	pkt_lin = lin;
	pull_ok = pull;
	memset(&skb, 0, sizeof(skb));
	skb.len = pkt_len;
	skb.protocol = bpf_htons((uint16_t)proto);
	skb.data = (uint32_t)(uintptr_t)pkt_data;
	skb.data_end = skb.data + pkt_lin;
	return 0;
}

int main(void)
{
	char *line = NULL;
	size_t cap = 0;
	ssize_t len;
	int have_caps = 0;

	pkt_area = mmap(NULL, 8192, PROT_READ | PROT_WRITE, MAP_PRIVATE | MAP_ANONYMOUS | MAP_32BIT, -1, 0);
	if (pkt_area == MAP_FAILED) {
		perror("mmap MAP_32BIT");
		return 3;
	}

	while ((len = getline(&line, &cap, stdin)) > 0) {
		int n;

		while (len > 0 && (line[len - 1] == '\n' || line[len - 1] == '\r'))
			line[--len] = 0;
		n = split(line);
		if (n == 0) {
			puts("-");
			continue;
		}
		if (!have_caps) {
			uint32_t c1 = MAX_CONN_STATE_NUM, c2 = MAX_ROUTING_HANDOFF_NUM, c3 = MAX_REDIRECT_TRACK_NUM;
			uint32_t c4 = (uint32_t)SHIM_ARRLEN(cookie_pid_map.max_entries);

			if (!strcmp(toks[0], "caps") && (n == 4 || n == 5)) {
				c1 = (uint32_t)strtoul(toks[1], NULL, 10);
				c2 = (uint32_t)strtoul(toks[2], NULL, 10);
				c3 = (uint32_t)strtoul(toks[3], NULL, 10);
				if (n == 5)
					c4 = (uint32_t)strtoul(toks[4], NULL, 10);
			}
			shim_strict = 1;
			m_routing = SHIM_REG_KV(routing_map);
			m_meta = SHIM_REG_KV(routing_meta_map);
			m_domain = SHIM_REG_KV(domain_routing_map);
			m_lpm_array = SHIM_REG_SZ(lpm_array_map);
			m_routectx = SHIM_REG_KV(route_ctx_scratch_map);
			m_alive = SHIM_REG_KV(outbound_connectivity_map);
			m_cookie = shim_map_register(&cookie_pid_map, "cookie_pid_map", (int)SHIM_ARRLEN(cookie_pid_map.type),
						     sizeof(__u64), sizeof(struct pid_pname), c4);
			m_stats = SHIM_REG_KV(bpf_stats_map);
			m_parse = SHIM_REG_KV(parse_ctx_scratch_map);
			m_pkt = SHIM_REG_KV(pkt_scratch_map);
			m_wanscratch = SHIM_REG_KV(wan_egress_route_scratch_map);
			m_ctargs = SHIM_REG_KV(conntrack_args_map);
			m_conn = shim_map_register(&conn_state_map, "conn_state_map", BPF_MAP_TYPE_HASH,
						   sizeof(struct tuples_key), sizeof(struct conn_state), c1);
			m_handoff = shim_map_register(&routing_handoff_map, "routing_handoff_map", BPF_MAP_TYPE_HASH,
						      sizeof(struct tuples_key), sizeof(struct routing_handoff_entry), c2);
			m_rtrack = shim_map_register(&redirect_track, "redirect_track", BPF_MAP_TYPE_HASH,
						     sizeof(struct redirect_tuple), sizeof(struct redirect_entry), c3);
			/* the sockmap as a 3-slot table: a slot that was not filled has no socket */
			m_listen = shim_map_register(&listen_socket_map, "listen_socket_map", BPF_MAP_TYPE_HASH,
						     sizeof(__u32), sizeof(__u64), 3);
			/* declared map types must be what the registration above assumes */
			if (SHIM_ARRLEN(conn_state_map.type) != BPF_MAP_TYPE_HASH ||
			    SHIM_ARRLEN(routing_handoff_map.type) != BPF_MAP_TYPE_HASH ||
			    SHIM_ARRLEN(redirect_track.type) != BPF_MAP_TYPE_HASH) {
				puts("map-type-changed");
				return 4;
			}
			reset_all();
			have_caps = 1;
			if (!strcmp(toks[0], "caps")) {
				puts("ok");
				continue;
			}
		}
		if (!strcmp(toks[0], "reset") && n == 1) {
			reset_all();
			puts("ok");
		} else if (!strcmp(toks[0], "param") && (n == 6 || n == 7)) {
			struct dae_param *p = param_rw();
			unsigned char mac[6];

			if (unhex(toks[5], mac, 6)) {
				puts("bad-op");
				continue;
			}
			p->control_plane_pid = (uint32_t)strtoul(toks[1], NULL, 10);
			p->dae_socket_mark = (uint32_t)strtoul(toks[2], NULL, 10);
			p->dae0_ifindex = (uint32_t)strtoul(toks[3], NULL, 10);
			p->use_redirect_peer = (uint8_t)strtoul(toks[4], NULL, 10);
			memcpy(p->dae0peer_mac, mac, 6);
			p->dae_netns_id = n == 7 ? (uint32_t)strtoul(toks[6], NULL, 10) : 0;
			puts("ok");
		} else if (!strcmp(toks[0], "paramimg") && n == 2) {
			unsigned char img[256];
			size_t ln = strlen(toks[1]) / 2;
			struct dae_param *p = param_rw();

			if (strlen(toks[1]) % 2 || ln > sizeof(img) || unhex(toks[1], img, ln)) {
				puts("bad-op");
				continue;
			}
			if (ln != sizeof(struct dae_param)) {
				/* cilium/ebpf refuses a value whose size differs from the variable's */
				printf("size-mismatch go=%zu c=%zu\n", ln, sizeof(struct dae_param));
				continue;
			}
			memcpy(p, img, ln);
			printf("port=%u pid=%u dae0=%u netns=%u mac=", PARAM.tproxy_port, PARAM.control_plane_pid, PARAM.dae0_ifindex,
			       PARAM.dae_netns_id);
			puthex((const unsigned char *)PARAM.dae0peer_mac, 6);
			printf(" peer=%u task=%u mark=%u size=%zu\n", (unsigned)PARAM.use_redirect_peer,
			       (unsigned)PARAM.has_bpf_get_current_task, PARAM.dae_socket_mark, sizeof(struct dae_param));
		} else if (!strcmp(toks[0], "clock") && n == 2) {
			shim_ktime_ns = strtoull(toks[1], NULL, 10);
			puts("ok");
		} else if (!strcmp(toks[0], "rules") && n >= 2) {
			int nr = atoi(toks[1]), i, bad = (n != 2 + nr);

			for (i = 0; !bad && i < nr; i++) {
				struct match_set ms;
				__u32 k = (__u32)i;

				if (unhex(toks[2 + i], (unsigned char *)&ms, sizeof(ms)))
					bad = 1;
				else if (shim_map_update(m_routing, &k, &ms, BPF_ANY))
					bad = 1;
			}
			puts(bad ? "bad-op" : "ok");
		} else if (!strcmp(toks[0], "lpm") && n >= 3) {
			/* lpm <slot> <nkeys> {<prefixlen>:<32 hex data>}*  : lpm_array_map[slot] = new LPM trie */
			uint32_t slot = (uint32_t)strtoul(toks[1], NULL, 10);
			int nk = atoi(toks[2]), i, bad = (n != 3 + nk);
			struct shim_map *inner = shim_map_create("lpm", BPF_MAP_TYPE_LPM_TRIE, sizeof(struct lpm_key),
								 sizeof(__u32), MAX_LPM_SIZE);

			for (i = 0; !bad && i < nk; i++) {
				struct lpm_key key;
				__u32 one = 1;
				char *colon = strchr(toks[3 + i], ':');

				if (!colon) {
					bad = 1;
					break;
				}
				*colon = 0;
				key.prefixlen = (uint32_t)strtoul(toks[3 + i], NULL, 10);
				if (unhex(colon + 1, (unsigned char *)key.data, 16) || shim_map_update(inner, &key, &one, BPF_ANY))
					bad = 1;
			}
			if (bad) {
				shim_map_free(inner);
				puts("bad-op");
			} else {
				long rc = shim_map_set_inner(m_lpm_array, slot, inner);

				if (rc)
					printf("err=%ld\n", rc);
				else
					puts("ok");
			}
		} else if (!strcmp(toks[0], "meta") && n == 2) {
			__u32 v = (__u32)strtoul(toks[1], NULL, 10), k = 0;

			shim_map_update(m_meta, &k, &v, BPF_ANY);
			puts("ok");
		} else if (!strcmp(toks[0], "dom") && n == 3) {
			__be32 key[4];
			struct domain_routing dr;

			if (unhex(toks[1], (unsigned char *)key, 16) || unhex(toks[2], (unsigned char *)&dr, sizeof(dr)))
				puts("bad-op");
			else {
				long rc = shim_map_update(m_domain, key, &dr, BPF_ANY);

				if (rc)
					printf("err=%ld\n", rc);
				else
					puts("ok");
			}
		} else if (!strcmp(toks[0], "domdel") && n == 2) {
			__be32 key[4];

			if (unhex(toks[1], (unsigned char *)key, 16))
				puts("bad-op");
			else {
				long rc = shim_map_delete(m_domain, key);

				if (rc)
					printf("err=%ld\n", rc);
				else
					puts("ok");
			}
		} else if (!strcmp(toks[0], "alive") && n == 3) {
			__u32 k = (__u32)strtoul(toks[1], NULL, 10), v = (__u32)strtoul(toks[2], NULL, 10);
			long rc = shim_map_update(m_alive, &k, &v, BPF_ANY);

			if (rc)
				printf("err=%ld\n", rc);
			else
				puts("ok");
		} else if (!strcmp(toks[0], "cookie") && n == 4) {
			__u64 ck = strtoull(toks[1], NULL, 10);
			struct pid_pname v;

			memset(&v, 0, sizeof(v));
			v.last_seen_ns = shim_ktime_ns;
			v.pid = (uint32_t)strtoul(toks[2], NULL, 10);
			if (unhex(toks[3], (unsigned char *)v.pname, 16)) {
				puts("bad-op");
				continue;
			}
			shim_map_update(m_cookie, &ck, &v, BPF_ANY);
			puts("ok");
		} else if (!strcmp(toks[0], "cookiedel") && n == 2) {
			__u64 ck = strtoull(toks[1], NULL, 10);
			long rc = shim_map_delete(m_cookie, &ck);

			if (rc)
				printf("err=%ld\n", rc);
			else
				puts("ok");
		} else if (!strcmp(toks[0], "conndel") && n == 2) {
			struct tuples_key k;

			if (unhex(toks[1], (unsigned char *)&k, sizeof(k)))
				puts("bad-op");
			else {
				long rc = shim_map_delete(m_conn, &k);

				if (rc)
					printf("err=%ld\n", rc);
				else
					puts("ok");
			}
		} else if (!strcmp(toks[0], "frame") && n == 12) {
			const char *hook = toks[1];
			int l2 = atoi(toks[2]), ret, i;
			struct snap b_conn, b_ho, b_rt, b_ck, a_conn, a_ho, a_rt, a_ck;
			unsigned char before[FRAME_MAX];
			uint32_t before_len;
			__u32 k0 = 0, k1 = 1;
			__u64 *ovu, *ovt;

			if (load_frame(l2, (unsigned)strtoul(toks[3], NULL, 10), (unsigned)strtoul(toks[4], NULL, 10),
				       atoi(toks[5]), toks[11])) {
				puts("bad-op");
				continue;
			}
			skb.ingress_ifindex = (uint32_t)strtoul(toks[6], NULL, 10);
			skb.ifindex = (uint32_t)strtoul(toks[7], NULL, 10);
			skb.mark = (uint32_t)strtoul(toks[8], NULL, 10);
			cur_cookie = strtoull(toks[9], NULL, 10);
			sk_present = 0;
			memset(&sk_obj, 0, sizeof(sk_obj));
			if (strcmp(toks[10], "-")) {
				/* <proto>:<mark>:<state>:<netns>:<tuple hex> */
				char *f[5];
				int nf = 0;
				char *q = toks[10];

				while (nf < 5) {
					f[nf++] = q;
					q = strchr(q, ':');
					if (!q)
						break;
					*q++ = 0;
				}
				if (nf != 5 || strlen(f[4]) % 2 || strlen(f[4]) / 2 > sizeof(sk_tuple) ||
				    unhex(f[4], sk_tuple, strlen(f[4]) / 2)) {
					puts("bad-op");
					continue;
				}
				sk_present = 1;
				sk_proto = atoi(f[0]);
				sk_obj.mark = (uint32_t)strtoul(f[1], NULL, 10);
				sk_obj.state = (uint32_t)strtoul(f[2], NULL, 10);
				sk_netns = strtoull(f[3], NULL, 10);
				sk_tuple_len = (uint32_t)(strlen(f[4]) / 2);
			}
			redir_set = 0;
			nevs = 0;
			sk_refs = 0;
			memcpy(before, pkt_data, pkt_len);
			before_len = pkt_len;
			snap_take(m_conn, sizeof(struct tuples_key), sizeof(struct conn_state), &b_conn);
			snap_take(m_handoff, sizeof(struct tuples_key), sizeof(struct routing_handoff_entry), &b_ho);
			snap_take(m_rtrack, sizeof(struct redirect_tuple), sizeof(struct redirect_entry), &b_rt);
			snap_take(m_cookie, sizeof(__u64), sizeof(struct pid_pname), &b_ck);

			if (!strcmp(hook, "li"))
				ret = l2 ? tproxy_lan_ingress_l2(&skb) : tproxy_lan_ingress_l3(&skb);
			else if (!strcmp(hook, "le"))
				ret = l2 ? tproxy_lan_egress_l2(&skb) : tproxy_lan_egress_l3(&skb);
			else if (!strcmp(hook, "wi"))
				ret = l2 ? tproxy_wan_ingress_l2(&skb) : tproxy_wan_ingress_l3(&skb);
			else if (!strcmp(hook, "we"))
				ret = l2 ? tproxy_wan_egress_l2(&skb) : tproxy_wan_egress_l3(&skb);
			else {
				puts("bad-op");
				continue;
			}

			snap_take(m_conn, sizeof(struct tuples_key), sizeof(struct conn_state), &a_conn);
			snap_take(m_handoff, sizeof(struct tuples_key), sizeof(struct routing_handoff_entry), &a_ho);
			snap_take(m_rtrack, sizeof(struct redirect_tuple), sizeof(struct redirect_entry), &a_rt);
			snap_take(m_cookie, sizeof(__u64), sizeof(struct pid_pname), &a_ck);

			printf("v=%d mark=%u cb=%u:%u", ret, skb.mark, skb.cb[0], skb.cb[1]);
			if (redir_set)
				printf(" redir=%u:%llu:%d", redir_ifindex, (unsigned long long)redir_flags, redir_peer);
			else
				printf(" redir=-");
			if (pkt_len == before_len && !memcmp(before, pkt_data, pkt_len))
				printf(" pkt==");
			else {
				printf(" pkt=");
				puthex(pkt_data, pkt_len);
			}
			snap_diff("conn", &b_conn, &a_conn);
			snap_diff("ho", &b_ho, &a_ho);
			snap_diff("rt", &b_rt, &a_rt);
			snap_diff("ck", &b_ck, &a_ck);
			printf(" ev=[");
			for (i = 0; i < nevs; i++)
				printf("%s%u:%u:%u:%u", i ? ";" : "", evs[i].type, evs[i].pid, evs[i].outbound, evs[i].l4proto);
			ovu = shim_map_lookup(m_stats, &k0);
			ovt = shim_map_lookup(m_stats, &k1);
			printf("] ovf=%llu:%llu", (unsigned long long)(ovu ? *ovu : 0), (unsigned long long)(ovt ? *ovt : 0));
			if (sk_refs)
				printf(" SOCKET-REF-LEAK=%d", sk_refs);
			putchar('\n');
			free(b_conn.buf); free(b_ho.buf); free(b_rt.buf); free(b_ck.buf);
			free(a_conn.buf); free(a_ho.buf); free(a_rt.buf); free(a_ck.buf);
		} else if (!strcmp(toks[0], "peer") && n == 2) {
			/* tproxy_dae0peer_ingress on the skb exactly as the last frame op left it (cb[], mark,
			 * protocol, rewritten frame): after a redirect this is the handed-over frame arriving in
			 * dae's netns */
			unsigned mask = (unsigned)strtoul(toks[1], NULL, 10);
			__u32 k;
			int ret;

			shim_map_clear(m_listen);
			for (k = 0; k < 3; k++)
				if (mask >> k & 1) {
					__u64 v = 1000 + k;

					shim_map_update(m_listen, &k, &v, BPF_ANY);
				}
			chtype_set = assign_set = 0;
			sk_refs = 0;
			ret = tproxy_dae0peer_ingress(&skb);
			printf("v=%d mark=%u ptype=", ret, skb.mark);
			if (chtype_set)
				printf("%u", chtype_val);
			else
				putchar('-');
			printf(" assign=");
			if (assign_set)
				printf("%llu", (unsigned long long)(assign_val - 1000));
			else
				putchar('-');
			if (sk_refs)
				printf(" SOCKET-REF-LEAK=%d", sk_refs);
			putchar('\n');
		} else if (!strcmp(toks[0], "d0") && n == 5) {
			/* tproxy_dae0_ingress: a frame dae sends back towards a captured client */
			struct snap b_rt, a_rt;
			unsigned char before[FRAME_MAX];
			uint32_t before_len;
			int ret;

			if (load_frame(1, (unsigned)strtoul(toks[1], NULL, 10), (unsigned)strtoul(toks[2], NULL, 10),
				       atoi(toks[3]), toks[4])) {
				puts("bad-op");
				continue;
			}
			redir_set = 0;
			chtype_set = 0;
			memcpy(before, pkt_data, pkt_len);
			before_len = pkt_len;
			snap_take(m_rtrack, sizeof(struct redirect_tuple), sizeof(struct redirect_entry), &b_rt);
			ret = tproxy_dae0_ingress(&skb);
			snap_take(m_rtrack, sizeof(struct redirect_tuple), sizeof(struct redirect_entry), &a_rt);
			printf("v=%d redir=", ret);
			if (redir_set)
				printf("%u:%llu", redir_ifindex, (unsigned long long)redir_flags);
			else
				putchar('-');
			printf(" ptype=");
			if (chtype_set)
				printf("%u", chtype_val);
			else
				putchar('-');
			if (pkt_len == before_len && !memcmp(before, pkt_data, pkt_len))
				printf(" pkt==");
			else {
				printf(" pkt=");
				puthex(pkt_data, pkt_len);
			}
			snap_diff("rt", &b_rt, &a_rt);
			putchar('\n');
			free(b_rt.buf);
			free(a_rt.buf);
		} else if (!strcmp(toks[0], "parse") && n == 6) {
			int l2 = atoi(toks[1]), rf, rs, rt;
			unsigned proto = (unsigned)strtoul(toks[2], NULL, 10), lin = (unsigned)strtoul(toks[3], NULL, 10);
			int pull = atoi(toks[4]);
			static struct parse_transport_ctx cf, cs, ct;

			if (load_frame(l2, proto, lin, pull, toks[5])) {
				puts("bad-op");
				continue;
			}
			memset(&cf, 0, sizeof(cf));
			rf = parse_transport_fast(&skb, l2 ? 14 : 0, &cf);
			load_frame(l2, proto, lin, pull, toks[5]);
			memset(&cs, 0, sizeof(cs));
			rs = parse_transport_slow(&skb, l2 ? 14 : 0, &cs);
			load_frame(l2, proto, lin, pull, toks[5]);
			memset(&ct, 0xEE, sizeof(ct));
			rt = parse_transport(&skb, l2 ? 14 : 0, &ct);
			printf("f=");
			print_consumed(rf, &cf);
			printf(" s=");
			print_consumed(rs, &cs);
			printf(" t=");
			print_consumed(rt, &ct);
			putchar('\n');
		} else if (!strcmp(toks[0], "retr") || !strcmp(toks[0], "dump") || !strcmp(toks[0], "jan") || !strcmp(toks[0], "use")) {
			snap_dump("conn", m_conn, sizeof(struct tuples_key), sizeof(struct conn_state));
			putchar(' ');
			snap_dump("ho", m_handoff, sizeof(struct tuples_key), sizeof(struct routing_handoff_entry));
			printf(" now=%llu\n", (unsigned long long)shim_ktime_ns);
		} else if (!strcmp(toks[0], "rel") && n == 5) {
			/* the control plane releases a UDP pair (endpoint teardown): dump first (the Go side runs the real
			 * UdpEndpoint.Close -> ReleaseUdpConnStateTuples on it), then both directions leave conn_state_map */
			struct tuples_key k, r;

			memset(&k, 0, sizeof(k));
			if (unhex(toks[1], (unsigned char *)&k.sip, 16) || unhex(toks[3], (unsigned char *)&k.dip, 16)) {
				puts("bad-op");
				continue;
			}
			k.sport = bpf_htons((uint16_t)strtoul(toks[2], NULL, 10));
			k.dport = bpf_htons((uint16_t)strtoul(toks[4], NULL, 10));
			k.l4proto = IPPROTO_UDP;
			memset(&r, 0, sizeof(r));
			r.sip = k.dip;
			r.dip = k.sip;
			r.sport = k.dport;
			r.dport = k.sport;
			r.l4proto = IPPROTO_UDP;
			snap_dump("conn", m_conn, sizeof(struct tuples_key), sizeof(struct conn_state));
			putchar(' ');
			snap_dump("ho", m_handoff, sizeof(struct tuples_key), sizeof(struct routing_handoff_entry));
			printf(" now=%llu\n", (unsigned long long)shim_ktime_ns);
			shim_map_delete(m_conn, &k);
			shim_map_delete(m_conn, &r);
		} else if (!strcmp(toks[0], "cg") && n == 7) {
			struct snap b_ck, a_ck;
			struct bpf_sock sk_ctx;
			struct bpf_sock_addr sa_ctx;
			int ret, bad = 0;
			size_t ln;

			memset(&sk_ctx, 0, sizeof(sk_ctx));
			memset(&sa_ctx, 0, sizeof(sa_ctx));
			cur_cookie = strtoull(toks[2], NULL, 10);
			cur_pid_tgid = (strtoull(toks[3], NULL, 10) << 32) | 0x1234; /* low half: the thread id */
			param_rw()->has_bpf_get_current_task = (uint8_t)strtoul(toks[4], NULL, 10);
			memset(cur_comm, 0, sizeof(cur_comm));
			comm_ok = strcmp(toks[5], "-") != 0;
			if (comm_ok && strcmp(toks[5], "=")) {
				ln = strlen(toks[5]) / 2;
				if (strlen(toks[5]) % 2 || ln > sizeof(cur_comm) || unhex(toks[5], (unsigned char *)cur_comm, ln))
					bad = 1;
			}
			memset(cur_args, 0, sizeof(cur_args));
			args_ok = strcmp(toks[6], "-") != 0;
			if (args_ok && strcmp(toks[6], "=")) {
				ln = strlen(toks[6]) / 2;
				if (strlen(toks[6]) % 2 || ln >= sizeof(cur_args) || unhex(toks[6], (unsigned char *)cur_args, ln))
					bad = 1;
			}
			if (bad) {
				puts("bad-op");
				continue;
			}
			snap_take(m_cookie, sizeof(__u64), sizeof(struct pid_pname), &b_ck);
			if (!strcmp(toks[1], "create"))
				ret = tproxy_wan_cg_sock_create(&sk_ctx);
			else if (!strcmp(toks[1], "release"))
				ret = tproxy_wan_cg_sock_release(&sk_ctx);
			else if (!strcmp(toks[1], "connect4"))
				ret = tproxy_wan_cg_connect4(&sa_ctx);
			else if (!strcmp(toks[1], "connect6"))
				ret = tproxy_wan_cg_connect6(&sa_ctx);
			else if (!strcmp(toks[1], "sendmsg4"))
				ret = tproxy_wan_cg_sendmsg4(&sa_ctx);
			else if (!strcmp(toks[1], "sendmsg6"))
				ret = tproxy_wan_cg_sendmsg6(&sa_ctx);
			else {
				free(b_ck.buf);
				puts("bad-op");
				continue;
			}
			snap_take(m_cookie, sizeof(__u64), sizeof(struct pid_pname), &a_ck);
			printf("rc=%d", ret);
			snap_diff("ck", &b_ck, &a_ck);
			putchar('\n');
			free(b_ck.buf);
			free(a_ck.buf);
		} else if ((!strcmp(toks[0], "jan4") && n == 4) || (!strcmp(toks[0], "jsnap") && n == 4) || (!strcmp(toks[0], "jdel") && n == 1)) {
			snap_dump("conn", m_conn, sizeof(struct tuples_key), sizeof(struct conn_state));
			putchar(' ');
			snap_dump("ho", m_handoff, sizeof(struct tuples_key), sizeof(struct routing_handoff_entry));
			putchar(' ');
			snap_dump("rt", m_rtrack, sizeof(struct redirect_tuple), sizeof(struct redirect_entry));
			putchar(' ');
			snap_dump("ck", m_cookie, sizeof(__u64), sizeof(struct pid_pname));
			printf(" now=%llu\n", (unsigned long long)shim_ktime_ns);
		} else if (!strcmp(toks[0], "const") && n == 2) {
			size_t i;
			int found = 0;

			for (i = 0; i < sizeof(consts_tbl) / sizeof(consts_tbl[0]); i++)
				if (!strcmp(consts_tbl[i].name, toks[1])) {
					printf("=%lld\n", consts_tbl[i].v);
					found = 1;
					break;
				}
			if (!found)
				puts("=?");
		} else {
			puts("-");
		}
	}
	free(line);
	fflush(stdout);
	return 0;
}
