/* /verif shim for control/kern/headers/vmlinux.h (the real one is an empty git submodule here).
 * Kernel types come from the UAPI headers; the few non-UAPI ones are declared by hand.
 * Used (a) natively to run tproxy.c's functions in-process, (b) with -target bpf -fsyntax-only
 * -Xclang -fdump-record-layouts to obtain the BPF-ABI struct layouts. */
#ifndef VERIF_VMLINUX_H
#define VERIF_VMLINUX_H
#include <stddef.h>
#include <stdbool.h>
#include <linux/types.h>
#include <linux/bpf.h>
#include <linux/if_ether.h>
#include <linux/ip.h>
#include <linux/ipv6.h>
#include <linux/in.h>
#include <linux/in6.h>
#include <linux/tcp.h>
#include <linux/udp.h>
#include <linux/icmpv6.h>
#include <linux/pkt_cls.h>
#include <errno.h>

typedef __u8 u8;
typedef __u16 u16;
typedef __u32 u32;
typedef __u64 u64;
typedef __s8 s8;
typedef __s16 s16;
typedef __s32 s32;
typedef __s64 s64;

#ifndef AF_INET
#define AF_INET 2
#endif
#ifndef AF_INET6
#define AF_INET6 10
#endif
#ifndef PACKET_HOST
#define PACKET_HOST 0
#define PACKET_OTHERHOST 3
#endif
#ifndef ETH_P_IP
#define ETH_P_IP 0x0800
#define ETH_P_IPV6 0x86DD
#endif
#ifndef NEXTHDR_HOP
#define NEXTHDR_HOP 0
#define NEXTHDR_TCP 6
#define NEXTHDR_UDP 17
#define NEXTHDR_ROUTING 43
#define NEXTHDR_FRAGMENT 44
#define NEXTHDR_ICMP 58
#define NEXTHDR_NONE 59
#define NEXTHDR_DEST 60
#define NEXTHDR_AUTH 51
#endif

struct frag_hdr {
	__u8 nexthdr;
	__u8 reserved;
	__be16 frag_off;
	__be32 identification;
};

/* minimal stubs of kernel-internal types reached through bpf_core_read in the pname lookup */
struct mm_struct {
	unsigned long arg_start;
	unsigned long arg_end;
};
struct task_struct {
	struct mm_struct *mm;
	int tgid;
	int pid;
};
#endif
