/* /verif shim for libbpf's bpf_helpers.h / bpf_endian.h / bpf_core_read.h: the section, map and
 * inlining macros, and the BPF helpers as ordinary C prototypes (implemented in bpf_shim.c for the
 * native harness; prototypes suffice for -fsyntax-only layout dumps). */
#ifndef VERIF_BPF_HELPERS_H
#define VERIF_BPF_HELPERS_H

#define SEC(name) __attribute__((section(name), used))
#define __uint(name, val) int(*name)[val]
#define __type(name, val) typeof(val) *name
#define __array(name, val) typeof(val) *name[]
#ifndef __always_inline
#define __always_inline inline __attribute__((always_inline))
#endif
#ifndef __noinline
#define __noinline __attribute__((noinline))
#endif
#ifndef __weak
#define __weak __attribute__((weak))
#endif
#ifndef barrier
#define barrier() asm volatile("" ::: "memory")
#endif
#ifndef barrier_var
#define barrier_var(var) asm volatile("" : "+r"(var))
#endif
#ifndef __ksym
#define __ksym
#endif
#ifndef __kconfig
#define __kconfig
#endif
#ifndef offsetof
#define offsetof(TYPE, MEMBER) __builtin_offsetof(TYPE, MEMBER)
#endif
#ifndef NULL
#define NULL ((void *)0)
#endif

/* byte order (host is little endian in this sandbox; BPF target bpfel as shipped for amd64/arm64) */
#define bpf_htons(x) ((__be16)__builtin_bswap16((__u16)(x)))
#define bpf_ntohs(x) ((__u16)__builtin_bswap16((__u16)(x)))
#define bpf_htonl(x) ((__be32)__builtin_bswap32((__u32)(x)))
#define bpf_ntohl(x) ((__u32)__builtin_bswap32((__u32)(x)))

#ifdef VERIF_TRACE_PRINTK
int verif_printk(const char *fmt, ...);
#define bpf_printk(fmt, ...) verif_printk(fmt, ##__VA_ARGS__)
#else
#define bpf_printk(fmt, ...) ((void)0)
#endif

/* CO-RE reads become plain reads / copies */
#define bpf_core_read(dst, sz, src) (__builtin_memcpy((dst), (src), (sz)), 0)
#define BPF_CORE_READ(src, a, b) ((src)->a->b)
#define LIBBPF_PIN_BY_NAME 1
long bpf_core_read_user_str(void *dst, __u32 sz, const void *src);
#define bpf_probe_read_kernel(dst, sz, src) (__builtin_memcpy((dst), (src), (sz)), 0)

/* helpers */
void *bpf_map_lookup_elem(void *map, const void *key);
long bpf_map_update_elem(void *map, const void *key, const void *value, __u64 flags);
long bpf_map_delete_elem(void *map, const void *key);
__u64 bpf_ktime_get_ns(void);
long bpf_skb_load_bytes(const void *skb, __u32 offset, void *to, __u32 len);
long bpf_skb_store_bytes(void *skb, __u32 offset, const void *from, __u32 len, __u64 flags);
long bpf_skb_pull_data(void *skb, __u32 len);
long bpf_skb_change_type(void *skb, __u32 type);
long bpf_skb_change_head(void *skb, __u32 len, __u64 flags);
long bpf_redirect(__u32 ifindex, __u64 flags);
long bpf_redirect_peer(__u32 ifindex, __u64 flags);
__u64 bpf_get_socket_cookie(void *ctx);
__u64 bpf_get_current_pid_tgid(void);
__u64 bpf_get_current_task(void);
long bpf_get_current_comm(void *buf, __u32 size_of_buf);
long bpf_loop(__u32 nr_loops, void *callback_fn, void *callback_ctx, __u64 flags);
struct bpf_sock *bpf_skc_lookup_tcp(void *ctx, struct bpf_sock_tuple *tuple, __u32 tuple_size, __u64 netns, __u64 flags);
struct bpf_sock *bpf_sk_lookup_udp(void *ctx, struct bpf_sock_tuple *tuple, __u32 tuple_size, __u64 netns, __u64 flags);
struct bpf_sock *bpf_sk_fullsock(struct bpf_sock *sk);
long bpf_sk_release(void *sock);
long bpf_sk_assign(void *ctx, void *sk, __u64 flags);
long bpf_ringbuf_output(void *ringbuf, void *data, __u64 size, __u64 flags);
long bpf_msg_redirect_hash(void *msg, void *map, void *key, __u64 flags);
long bpf_sock_hash_update(void *skops, void *map, void *key, __u64 flags);
long bpf_sock_map_update(void *skops, void *map, void *key, __u64 flags);
__u32 bpf_get_prandom_u32(void);
#endif
