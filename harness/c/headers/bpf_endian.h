/* shim: provided by vmlinux.h / bpf_helpers.h shims */
