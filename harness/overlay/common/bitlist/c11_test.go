package bitlist

// C11 correspondence harness, layer 1: the real CompactBitList (Set/Get/Append/Tighten over
// anybuffer) against the Lean model `BitList` (driver c11drv, op `bl`).  One line = one script on a
// fresh list; the answer is every Get result incl. a full read-back (compared); the raw uint16 buffer
// follows after ` | ` as a layout DIAGNOSTIC only.

import (
	"fmt"
	"reflect"
	"strconv"
	"strings"
	"testing"

	"github.com/daeuniverse/dae/pkg/anybuffer"
)

func c11Val(r *VRand, unit int, stats *VStats, allowBad bool) uint64 {
	var max uint64
	if unit >= 64 {
		max = ^uint64(0)
	} else {
		max = (uint64(1) << uint(unit)) - 1
	}
	switch r.Intn(10) {
	case 0:
		return 0
	case 1:
		return max
	case 2:
		if unit == 0 {
			return 0
		}
		return uint64(1) << uint(unit-1)
	case 3:
		return 0xAAAAAAAAAAAAAAAA & max
	case 4:
		return 0x5555555555555555 & max
	case 5:
		if allowBad && unit < 64 && r.Chance(0.3) { // out of range: Set panics before touching anything
			stats.Inc("bl.value.out_of_range")
			return max + 1 + uint64(r.Intn(3))
		}
		return r.U64() & max
	default:
		return r.U64() & max
	}
}

// layout dump: DIAGNOSTIC only (the check compares the Get results, not the buffer layout)
func c11Dump(m *CompactBitList) (out string) {
	defer func() {
		if recover() != nil {
			out = "unavailable"
		}
	}()
	v := reflect.ValueOf(m).Elem()
	buf := v.FieldByName("b").Elem().FieldByName("buf")
	parts := make([]string, buf.Len())
	for i := 0; i < buf.Len(); i++ {
		parts[i] = strconv.FormatUint(buf.Index(i).Uint(), 16)
	}
	return fmt.Sprintf("%d/%d/%s", v.FieldByName("unitBitSize").Int(), v.FieldByName("unitNum").Int(), strings.Join(parts, "."))
}

func TestVerifC11BitList(t *testing.T) {
	r := NewVRand(VSeed())
	stats := NewVStats()
	st := VOpenStream("c11bl")
	defer st.Close()
	scripts := 1500
	if VThorough() {
		scripts = 12000
	}
	for n := 0; n < scripts; n++ {
		var unit int
		switch {
		case n < 65*4:
			unit = n % 65 // every unit size 0..64 several times
		case r.Chance(0.3):
			unit = []int{1, 2, 6, 7, 8, 15, 16, 17, 31, 32, 33, 48, 63, 64}[r.Intn(14)]
		default:
			unit = r.Intn(65)
		}
		stats.Inc(fmt.Sprintf("bl.unit.%02d", unit/8*8))
		// scripts outside the domain the property needs (unit size 0; values that do not fit: Set panics)
		// are emitted as `blx`: a difference there is a diagnostic, not a violation
		misuse := unit == 0 || r.Chance(0.12)
		if misuse {
			stats.Inc("bl.script.misuse_class")
		}
		m := NewCompactBitList(unit)
		units := 0 // highest written unit index + 1 (tracked here, not read from the struct)
		nops := r.Range(1, 40)
		ops := []string{}
		outs := []string{}
		for k := 0; k < nops; k++ {
			switch r.Intn(10) {
			case 0, 1, 2: // set
				i := r.Intn(12)
				if r.Chance(0.15) {
					i = r.Intn(200)
				}
				v := c11Val(r, unit, stats, misuse)
				ops = append(ops, fmt.Sprintf("s%d:%x", i, v))
				res := VRecover(func() string { m.Set(i, v); return "" })
				if res != "" {
					outs = append(outs, "panic")
				} else if i+1 > units {
					units = i + 1
				}
				stats.Inc("bl.op.set")
			case 3, 4, 5: // append
				v := c11Val(r, unit, stats, misuse)
				ops = append(ops, fmt.Sprintf("a:%x", v))
				res := VRecover(func() string { m.Append(v); return "" })
				if res != "" {
					outs = append(outs, "panic")
				} else {
					units++
				}
				stats.Inc("bl.op.append")
			case 9:
				ops = append(ops, "t")
				m.Tighten()
				stats.Inc("bl.op.tighten")
			default: // get
				i := r.Intn(units + 3)
				if r.Chance(0.1) {
					i = r.Intn(300)
				}
				ops = append(ops, fmt.Sprintf("g%d", i))
				res := VRecover(func() string { return strconv.FormatUint(m.Get(i), 16) })
				if strings.HasPrefix(res, "crash:") {
					res = "panic"
					stats.Inc("bl.get.panic")
				}
				outs = append(outs, res)
				stats.Inc("bl.op.get")
			}
		}
		// read everything back: the behavioural equivalent of comparing the buffer
		for i := 0; i < units+2 && i < 320; i++ {
			ops = append(ops, fmt.Sprintf("g%d", i))
			res := VRecover(func() string { return strconv.FormatUint(m.Get(i), 16) })
			if strings.HasPrefix(res, "crash:") {
				res = "panic"
			}
			outs = append(outs, res)
		}
		opName := "bl"
		if misuse {
			opName = "blx"
		}
		op := fmt.Sprintf("%s %d %s", opName, unit, strings.Join(ops, " "))
		st.Emit(op, fmt.Sprintf("g=%s | st=%s", strings.Join(outs, ","), c11Dump(m)))
		stats.Sample(op)
	}
	c11AnyBuffer(st, stats, r)
	stats.Write("c11bl")
}

func c11Fnv(s string) uint64 {
	h := uint64(14695981039346656037)
	for i := 0; i < len(s); i++ {
		h ^= uint64(s[i])
		h *= 1099511628211
	}
	return h
}

// the storage under CompactBitList, driven directly (op `ab`): NewBuffer(size), Extend past the capacity
// (re-slice without clearing vs. allocate 2*cap+n and copy), writes through Slice(), NewBufferFrom (what Tighten
// does), and — never used by CompactBitList, modelled all the same — Truncate, after which Extend exposes the
// old contents.  Compared: number of panics, Len and the visible contents; Cap follows as a diagnostic.
func c11AnyBuffer(st *VStream, stats *VStats, r *VRand) {
	scripts := 400
	if VThorough() {
		scripts = 4000
	}
	for n := 0; n < scripts; n++ {
		size := []int{0, 1, 2, 8, 8, 8, 16, 64, 100}[r.Intn(9)]
		b := anybuffer.NewBuffer[uint16](size)
		withTrunc := n%4 == 3
		ops := []string{}
		panics := 0
		nops := r.Range(1, 30)
		for k := 0; k < nops; k++ {
			switch c := r.Intn(12); {
			case c < 5:
				e := r.Intn(12)
				switch r.Intn(8) {
				case 0:
					e = 0
				case 1:
					e = b.Cap() - b.Len() // exactly the spare capacity
				case 2:
					e = b.Cap() - b.Len() + 1 // one more
				case 3:
					e = r.Range(50, 700)
				}
				ops = append(ops, fmt.Sprintf("e%d", e))
				b.Extend(e)
				stats.Inc("ab.op.extend")
			case c < 10:
				i := 0
				if b.Len() > 0 {
					i = r.Intn(b.Len())
				}
				if r.Chance(0.1) {
					i = b.Len() + r.Intn(3) // out of range: panics, nothing changes
				}
				v := uint16(r.U64())
				ops = append(ops, fmt.Sprintf("w%d:%x", i, v))
				if strings.HasPrefix(VRecover(func() string { b.Slice()[i] = v; return "" }), "crash:") {
					panics++
				}
				stats.Inc("ab.op.write")
			case c == 10:
				a := make([]uint16, b.Len())
				copy(a, b.Slice())
				b = anybuffer.NewBufferFrom(a)
				ops = append(ops, "f")
				stats.Inc("ab.op.from")
			default:
				if !withTrunc {
					continue
				}
				tn := 0
				if b.Len() > 0 && r.Chance(0.7) {
					tn = r.Intn(b.Len() + 1)
				}
				if r.Chance(0.1) {
					tn = b.Len() + 1 + r.Intn(2)
				}
				ops = append(ops, fmt.Sprintf("t%d", tn))
				if strings.HasPrefix(VRecover(func() string { b.Truncate(tn); return "" }), "crash:") {
					panics++
				}
				stats.Inc("ab.op.truncate")
			}
		}
		sl := b.Slice()
		parts := make([]string, len(sl))
		for i, w := range sl {
			parts[i] = strconv.FormatUint(uint64(w), 16)
		}
		body := strings.Join(parts, ".")
		if len(sl) > 64 {
			body = fmt.Sprintf("fnv:%x", c11Fnv(body))
		}
		if withTrunc {
			stats.Inc("ab.script.with_truncate")
		}
		stats.Inc("ab.scripts")
		if b.Cap() > stats.C["ab.cap.max"] {
			stats.C["ab.cap.max"] = b.Cap()
		}
		st.Emit(fmt.Sprintf("ab %d %s", size, strings.Join(ops, " ")), fmt.Sprintf("p=%d len=%d s=%s | cap=%d", panics, b.Len(), body, b.Cap()))
	}
}
