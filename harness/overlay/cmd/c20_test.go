package cmd

// C20 correspondence harness — reload requests are serialised, answered, and never leave dae wedged.
//
// Dynamic half of the tie.  The REAL functions of package cmd
//   tryQueueReloadRequest (via reloadManager.queueReloadRequest), clearReloadPending,
//   clearRejectedReloadProgress, restoreRejectedReloadProgress, releaseReloadPendingAfterRetirement,
//   finishReloadSuccess / finishReloadFailure, beginHandoff, coalesceReloadRequest,
//   startControlPlaneRetirement (+ its retirement goroutine), waitReloadReadyOrSignal,
//   writeReloadSendAndSignal, the progress-file reader/writer, and the real suppression counter of
//   component/outbound/dialer
// are run on separate goroutines for the main loop (M), the reload worker (W) and the release
// goroutines (G) that the real code spawns.  The four hook variables of package cmd
// (set/getRunSignalProgress, begin/endReloadProxyFailureSuppression) are wrapped with gates, so
// the harness decides which goroutine runs its next atomic section; after every section the
// observable state is printed and compared with the Lean model (c20drv) stepping the same schedule.
//
// The statement sequences of the worker body and of the run-state handler (which need a live
// control plane and cannot be run) are the paths extracted from cmd/run.go by c20_paths_test.go;
// the harness replays them statement by statement against the real manager.

import (
	"errors"
	"fmt"
	"io"
	"net/http"
	"os"
	"path/filepath"
	"runtime"
	"strconv"
	"strings"
	"sync"
	"sync/atomic"
	"syscall"
	"testing"
	"time"

	"github.com/daeuniverse/dae/common/consts"
	outbounddialer "github.com/daeuniverse/dae/component/outbound/dialer"
	"github.com/daeuniverse/dae/control"
	"github.com/sirupsen/logrus"
)

func c20GID() uint64 {
	var buf [64]byte
	n := runtime.Stack(buf[:], false)
	f := strings.Fields(string(buf[:n]))
	id, _ := strconv.ParseUint(f[1], 10, 64)
	return id
}

type c20Park struct {
	gid    uint64
	kind   string // begin | end | get | set
	resume chan struct{}
}

type c20Call struct {
	name string
	fn   func()
}

type c20Thread struct {
	name       string
	gid        uint64
	pendingSig string // M only: "r"/"s" — signal taken, queueReloadRequest not started yet
	calls      []c20Call
	park       *c20Park
	done       chan struct{}
	sigWork    bool // M only: the call in progress is queueReloadRequest
	waitOut    string
}

type c20G struct {
	ret     int
	gid     uint64
	park    *c20Park
	blocked bool
	gone    bool
}

type c20Ret struct {
	release  chan struct{}
	released bool
	done     <-chan struct{}
}

// generous: only a goroutine that never reaches its next hook waits this long (the machine may be heavily loaded)
const c20Timeout = 60 * time.Second

type c20World struct {
	t        *testing.T
	m        *reloadManager
	log      *logrus.Logger
	progPath string
	parkCh   chan *c20Park
	afterCh  chan uint64
	mu       sync.Mutex
	gids     map[uint64]*c20Thread
	M, W     *c20Thread
	gs       []*c20G
	rets     []*c20Ret
	curRet   int
	exited   bool
	desync   string
	pprof    *http.Server
	// ready wait
	waitSigs  chan os.Signal
	waitReady chan bool
	waitRes   chan reloadReadyWaitResult
	waitGid   atomic.Uint64
	wAbort    bool // abort decision of the request the worker received last
	regions   *c20Regions
	r         *VRand
	st        *VStats
	silent    bool
	// fault injection: the next progress-file operation of goroutine failGid (inside a hook), or of the
	// next replayed `prog=` statement (failStmt), is made to fail — by the REAL reader/writer, pointed at
	// a directory that does not exist
	badPath   string
	failGid   atomic.Uint64
	failStmt  bool
	faultErrs int
	hadFault  bool
}

var c20Cur *c20World

func c20InstallHooks() {
	setRunSignalProgress = func(code byte, content string) error {
		w := c20Cur
		w.gate("set")
		err := writeSignalProgressFile(w.ioPath(), code, content)
		w.after()
		return err
	}
	getRunSignalProgress = func() (byte, string, error) {
		w := c20Cur
		w.gate("get")
		c, s, err := readSignalProgressFile(w.ioPath())
		w.after()
		return c, s, err
	}
	beginReloadProxyFailureSuppression = func() {
		w := c20Cur
		w.gate("begin")
		outbounddialer.BeginReloadProxyFailureSuppression()
		w.after()
	}
	endReloadProxyFailureSuppression = func() {
		w := c20Cur
		w.gate("end")
		outbounddialer.EndReloadProxyFailureSuppression()
		w.after()
	}
}

// ioPath: the progress file — or, when a fault is due for the calling goroutine, a path under a
// directory that does not exist, so that the real writer (os.CreateTemp) / reader (os.ReadFile) fails.
func (w *c20World) ioPath() string {
	gid := c20GID()
	if gid != 0 && w.failGid.CompareAndSwap(gid, 0) {
		w.faultErrs++
		return w.badPath
	}
	return w.progPath
}

func (w *c20World) gate(kind string) {
	p := &c20Park{gid: c20GID(), kind: kind, resume: make(chan struct{})}
	w.parkCh <- p
	<-p.resume
}

func (w *c20World) after() { w.afterCh <- c20GID() }

func c20NewWorld(t *testing.T, dir string, regions *c20Regions, r *VRand, st *VStats) *c20World {
	log := logrus.New()
	log.SetOutput(io.Discard)
	w := &c20World{t: t, log: log, progPath: filepath.Join(dir, "dae.progress"),
		parkCh: make(chan *c20Park), afterCh: make(chan uint64), gids: map[uint64]*c20Thread{},
		curRet: -1, regions: regions, r: r, st: st, badPath: filepath.Join(dir, "no-such-dir", "dae.progress")}
	w.m = newReloadManager(make(chan reloadRequest, 1), make(chan struct{}, 1), nil)
	w.M = &c20Thread{name: "M"}
	w.W = &c20Thread{name: "W"}
	outbounddialer.VerifC20ResetSuppression()
	_ = os.Remove(AbortFile)
	// start-up: the ready goroutine of Run writes Done ""
	if err := writeSignalProgressFile(w.progPath, consts.ReloadDone, ""); err != nil {
		t.Fatal(err)
	}
	c20Cur = w
	return w
}

// ---------------------------------------------------------------- scheduling primitives

func (w *c20World) fail(msg string) {
	if w.desync == "" {
		w.desync = msg
	}
}

func (w *c20World) startCall(th *c20Thread, fn func()) {
	th.done = make(chan struct{})
	reg := make(chan struct{})
	go func() {
		w.mu.Lock()
		th.gid = c20GID()
		w.gids[th.gid] = th
		w.mu.Unlock()
		close(reg)
		fn()
		close(th.done)
	}()
	<-reg
}

// await waits until thread th has parked again or finished its call, and until `newG` parks of
// goroutines the real code spawned (release goroutines) have been seen.
func (w *c20World) await(th *c20Thread, newG []*c20G) {
	needTh := th != nil
	tm := time.NewTimer(c20Timeout)
	defer tm.Stop()
	for needTh || len(newG) > 0 {
		var done chan struct{}
		if needTh {
			done = th.done
		}
		select {
		case p := <-w.parkCh:
			w.mu.Lock()
			owner := w.gids[p.gid]
			w.mu.Unlock()
			switch {
			case owner != nil:
				owner.park = p
				if owner == th {
					needTh = false
				}
			default:
				var g *c20G
				for _, x := range w.gs {
					if x.gid == p.gid && !x.gone {
						g = x
					}
				}
				if g == nil {
					if len(newG) == 0 {
						w.fail("unexpected goroutine at hook " + p.kind)
						// let it run, ungated, so that nothing leaks
						close(p.resume)
						go func() { <-w.afterCh }()
						continue
					}
					g = newG[0]
					newG = newG[1:]
					g.gid = p.gid
				} else {
					for i, x := range newG {
						if x == g {
							newG = append(newG[:i:i], newG[i+1:]...)
							break
						}
					}
				}
				g.park = p
			}
		case <-done:
			th.park = nil
			th.done = nil
			needTh = false
		case <-tm.C:
			w.fail("timeout waiting for a goroutine to reach its next hook")
			return
		}
	}
}

func (w *c20World) resume(p *c20Park) bool {
	close(p.resume)
	select {
	case <-w.afterCh:
		return true
	case <-time.After(c20Timeout):
		w.fail("timeout inside hook")
		return false
	}
}

// faultable: the next section of th contains a progress-file operation (it is parked at the set / get
// hook, or its next replayed statement is a progress write).
func (w *c20World) faultable(th *c20Thread) string {
	switch {
	case th.park != nil && (th.park.kind == "set" || th.park.kind == "get"):
		return "@" + th.park.kind
	case th.park == nil && th.pendingSig == "" && len(th.calls) > 0 && strings.HasPrefix(th.calls[0].name, "prog="):
		return ":" + th.calls[0].name
	}
	return ""
}

// stepThread runs the next atomic section of M or W (fault: its progress-file operation fails).
func (w *c20World) stepThread(th *c20Thread, fault bool) (spawnedRunning bool) {
	var newG []*c20G
	if fault {
		w.hadFault = true
		before := w.faultErrs
		defer func() {
			if w.faultErrs != before+1 || w.failGid.Load() != 0 || w.failStmt {
				w.fail("the injected progress-file fault was not consumed by this section")
			}
		}()
		if th.park != nil {
			w.failGid.Store(th.park.gid)
		} else {
			w.failStmt = true
		}
	}
	if th.park != nil {
		p := th.park
		th.park = nil
		if !w.resume(p) {
			return false
		}
		w.await(th, nil)
	} else if th.pendingSig != "" {
		k := th.pendingSig
		th.pendingSig = ""
		th.sigWork = true
		w.startCall(th, func() {
			// the dispatch of the main select (extracted: `takeabort queue:…`): the request takes
			// the abort marker with it
			w.m.queueReloadRequest(w.log, c20MkRequest(k == "s", c20TakeAbort()))
		})
		w.await(th, nil)
	} else if len(th.calls) > 0 {
		c := th.calls[0]
		th.calls = th.calls[1:]
		if c.name == "finishsucc" || c.name == "finishfail" {
			newG = w.expectRelease()
			if w.busy(w.W) {
				w.st.Inc("finishsucc_with_worker_busy")
			}
		}
		w.startCall(th, c.fn)
		w.await(th, newG)
		spawnedRunning = len(newG) > 0
	}
	if th.done == nil && th.park == nil {
		th.sigWork = false
	}
	return
}

// expectRelease predicts, from the real manager state, what finishReloadSuccess is about to do
// with pendingRetirementDone: nothing, a release goroutine blocked on the open channel, or one
// that runs straight to its first hook.
func (w *c20World) expectRelease() []*c20G {
	w.m.mu.Lock()
	ch := w.m.pendingRetirementDone
	w.m.mu.Unlock()
	if ch == nil {
		return nil
	}
	g := &c20G{ret: w.curRet}
	w.gs = append(w.gs, g)
	select {
	case <-ch:
		return []*c20G{g}
	default:
		g.blocked = true
		return nil
	}
}

func (w *c20World) busy(th *c20Thread) bool {
	return th.park != nil || th.pendingSig != "" || len(th.calls) > 0
}

func (w *c20World) pos(th *c20Thread) string {
	switch {
	case th.park != nil:
		return th.park.kind
	case th.pendingSig != "":
		return "entry"
	case len(th.calls) > 0:
		return "stmt"
	}
	return "-"
}

// ---------------------------------------------------------------- observable state

func c20ProgClass(path string) string {
	code, content, err := readSignalProgressFile(path)
	if err != nil {
		return "unreadable"
	}
	switch code {
	case consts.ReloadSend:
		return "send"
	case consts.ReloadProcessing:
		return "processing"
	case consts.ReloadDone:
		if content == "" {
			return "doneClr"
		}
		if content == "OK" {
			return "doneOK"
		}
		return "done?" + content
	case consts.ReloadError:
		return "error"
	case consts.ReloadBusy:
		switch content {
		case reloadBusyActiveMessage:
			return "busyActive"
		case reloadBusyRetiringMessage:
			return "busyRetiring"
		}
		return "busy?" + content
	}
	return fmt.Sprintf("code?%d", code)
}

func c20B(b bool) string {
	if b {
		return "1"
	}
	return "0"
}

func (w *c20World) gCounts() (blocked, end, get, set int) {
	for _, g := range w.gs {
		switch {
		case g.gone:
		case g.blocked:
			blocked++
		case g.park != nil && g.park.kind == "end":
			end++
		case g.park != nil && g.park.kind == "get":
			get++
		case g.park != nil && g.park.kind == "set":
			set++
		}
	}
	return
}

func (w *c20World) retState() string {
	w.m.mu.Lock()
	ch := w.m.pendingRetirementDone
	w.m.mu.Unlock()
	if ch == nil {
		return "nil"
	}
	select {
	case <-ch:
		return "closed"
	default:
		return "open"
	}
}

func (w *c20World) state() string {
	if w.desync != "" {
		return "desync:" + w.desync
	}
	b, e, g, s := w.gCounts()
	_, aerr := os.Stat(AbortFile)
	return fmt.Sprintf("p=%s a=%s r=%s s=%d f=%s q=%d e=%s st=%s rd=%s n=%d x=%s ab=%s wa=%s M=%s W=%s g=%d,0,%d,%d,%d",
		c20B(w.m.reloadPending.Load()), c20B(w.m.reloadActive.Load()), c20B(w.m.reloading.Load()),
		outbounddialer.VerifC20Suppression(), c20ProgClass(w.progPath), len(w.m.reloadReqs),
		c20B(w.m.reloadError() != nil), c20B(w.m.currentPendingStagedHandoff() != nil), w.retState(),
		len(w.m.runStateChanges), c20B(w.exited), c20B(aerr == nil), c20B(w.wAbort), w.pos(w.M), w.pos(w.W), b, e, g, s)
}

// ---------------------------------------------------------------- path statements → real calls

func (w *c20World) writeProg(code byte, msg string) {
	// the statement in cmd/run.go is `_ = setRunSignalProgress(…)`: the error is dropped
	path := w.progPath
	if w.failStmt {
		w.failStmt = false
		path = w.badPath
		if err := writeSignalProgressFile(path, code, msg); err != nil {
			w.faultErrs++
		}
		return
	}
	_ = writeSignalProgressFile(path, code, msg)
}

func (w *c20World) doWaitStart(outcome string) {
	if w.waitRes != nil {
		return
	}
	w.waitSigs = make(chan os.Signal)
	w.waitReady = make(chan bool, 1)
	w.waitRes = make(chan reloadReadyWaitResult, 1)
	timeout := time.Hour
	if outcome == "timeout" {
		timeout = 60 * time.Millisecond
	}
	sigs, ready, res := w.waitSigs, w.waitReady, w.waitRes
	started := make(chan struct{})
	go func() {
		w.waitGid.Store(c20GID())
		close(started)
		r, _ := waitReloadReadyOrSignal(w.log, sigs, ready, timeout)
		res <- r
	}()
	<-started
}

func (w *c20World) doWait(outcome string) {
	w.doWaitStart(outcome)
	want := reloadReadyWaitReady
	switch outcome {
	case "ready":
		w.waitReady <- true
	case "failed":
		w.waitReady <- false
		want = reloadReadyWaitFailed
	case "timeout":
		want = reloadReadyWaitTimeout
	case "term":
		select {
		case w.waitSigs <- syscall.SIGTERM:
		case <-time.After(c20Timeout):
			w.fail("wait did not take SIGTERM")
		}
		want = reloadReadyWaitSignal
	}
	select {
	case got := <-w.waitRes:
		if got != want {
			w.fail(fmt.Sprintf("waitReloadReadyOrSignal returned %d, want %d", got, want))
		}
	case <-time.After(c20Timeout):
		w.fail("waitReloadReadyOrSignal did not return")
	}
	w.waitRes = nil
}

func (w *c20World) swallow(k string, fault bool) {
	w.doWaitStart(w.M.waitOut)
	if fault {
		w.hadFault = true
		before := w.faultErrs
		w.failGid.Store(w.waitGid.Load())
		defer func() {
			if w.faultErrs != before+1 || w.failGid.Load() != 0 {
				w.fail("the injected progress-file fault was not consumed by the ready wait")
			}
			w.failGid.Store(0)
		}()
	}
	sig := syscall.SIGUSR1
	if k == "s" {
		sig = syscall.SIGUSR2
	}
	select {
	case w.waitSigs <- sig:
	case <-time.After(c20Timeout):
		w.fail("wait did not consume the reload signal")
		return
	}
	// The wait goroutine now handles the signal.  Fixed code (926f7bd) writes a busy report through
	// the setRunSignalProgress hook (a gate).  A following SIGHUP (which the loop ignores) is taken
	// only once the loop is back in its select, so "SIGHUP consumed" = the handling is over,
	// whether or not it wrote anything; no timeout is involved in telling the two apart.
	hup := make(chan struct{})
	sigs := w.waitSigs
	go func() {
		sigs <- syscall.SIGHUP
		close(hup)
	}()
	tm := time.NewTimer(c20Timeout)
	defer tm.Stop()
	for {
		select {
		case p := <-w.parkCh:
			if p.gid != w.waitGid.Load() {
				w.fail("unexpected goroutine at hook " + p.kind + " while the ready wait handles a signal")
			}
			close(p.resume)
			select {
			case <-w.afterCh:
			case <-time.After(c20Timeout):
				w.fail("timeout inside hook")
				return
			}
		case <-hup:
			return
		case <-tm.C:
			w.fail("ready wait did not return to its select")
			return
		}
	}
}

// callsFor turns an extracted token path into the list of real calls (one per statement).
func (w *c20World) callsFor(th *c20Thread, toks []string, term string) []c20Call {
	var out []c20Call
	add := func(n string, f func()) { out = append(out, c20Call{n, f}) }
	m := w.m
	outcome := "ready"
	for _, t := range toks {
		if t == "term=1" {
			outcome = "term"
		}
		if t == "notready=1" {
			outcome = []string{"failed", "timeout"}[w.r.Intn(2)]
			if w.r.Intn(4) != 0 {
				outcome = "failed"
			}
		}
	}
	th.waitOut = outcome
	for _, t := range toks {
		switch {
		case t == "active=1" || t == "active=0":
			v := t == "active=1"
			add(t, func() { m.reloadActive.Store(v) })
		case t == "reloading:=0" || t == "reloading:=1":
			v := t == "reloading:=1"
			add(t, func() { m.reloading.Store(v) })
		case t == "coalesce":
			add(t, func() { m.coalesceReloadRequest(reloadRequest{requestedAt: time.Now()}) })
		case t == "prog=1":
			add(t, func() { w.writeProg(consts.ReloadProcessing, "") })
		case t == "prog=3":
			add(t, func() { w.writeProg(consts.ReloadError, "some error") })
		case t == "prog=2ok":
			add(t, func() { w.writeProg(consts.ReloadDone, "OK") })
		case t == "prog=2":
			add(t, func() { w.writeProg(consts.ReloadDone, "") })
		case t == "err=0":
			add(t, func() { m.setReloadError(nil) })
		case t == "err=1":
			add(t, func() { m.setReloadError(errors.New("reload error")) })
		case t == "resetproxy":
			add(t, func() { resetReloadProxyRuntimeState() })
		case t == "clearpending":
			add(t, func() { clearReloadPending(&m.reloadPending) })
		case t == "setstaged":
			add(t, func() { m.setPendingStagedHandoff(&stagedReloadHandoff{}, time.Now(), 0) })
		case t == "clearstaged":
			add(t, func() { m.clearPendingStagedHandoff() })
		case t == "clearret":
			add(t, func() { m.clearPendingRetirement() })
		case t == "setmeta":
			add(t, func() { m.setPendingReloadMetadata(time.Now(), 0) })
		case t == "beginhandoff":
			add(t, func() { m.beginHandoff() })
		case t == "startret":
			add(t, func() { w.startRet() })
		case t == "pprof":
			add(t, func() { m.refreshPprofServer(w.log, &w.pprof, 0) })
		case t == "hooks":
			add(t, func() { m.installPreparedDNSHandoffHooks(w.log, nil, nil) })
		case t == "notify":
			add(t, func() { notifyRunStateChange(m.runStateChanges) })
		case t == "wait":
			add(t, func() { w.doWait(th.waitOut) })
		case t == "finishsucc":
			add(t, func() { m.finishReloadSuccess() })
		case t == "finishfail":
			add(t, func() { m.finishReloadFailure() })
		case t == "fatal":
			add(t, func() { w.exited = true })
		case strings.HasPrefix(t, "lit{"):
			// a goroutine is spawned; what it does (a later notification) is the `spur` action
		case strings.Contains(t, "=") && !strings.HasPrefix(t, "prog=") && !strings.HasPrefix(t, "?"):
			// guard: evaluated by the real code, no statement of its own
		default:
			// unknown statement: nothing the harness can run; the model does not know the path either
			add(t, func() {})
		}
	}
	if term == "break" {
		add("exit", func() { w.exited = true })
	}
	return out
}

func (w *c20World) startRet() {
	ret := &c20Ret{release: make(chan struct{})}
	w.rets = append(w.rets, ret)
	w.curRet = len(w.rets) - 1
	w.m.startControlPlaneRetirement(w.log, &control.ControlPlane{}, nil, func() { <-ret.release }, false, false)
	w.m.mu.Lock()
	ret.done = w.m.pendingRetirementDone
	w.m.mu.Unlock()
}

func (w *c20World) releaseRet(i int) {
	ret := w.rets[i]
	if !ret.released {
		ret.released = true
		close(ret.release)
	}
	select {
	case <-ret.done:
	case <-time.After(c20Timeout):
		w.fail("retirement goroutine did not finish")
	}
}

// ---------------------------------------------------------------- actions

type c20Action struct {
	name string // sig r|sig s|swallow r|swallow s|cli|term|m|w|wake|wstart|closemgr|closeg|gend|gread|gwrite
	path *c20Path
}

func (w *c20World) cliAccepts() bool {
	// the pre-check of the `dae reload` command, as extracted from the cobra closure in
	// cmd/reload.go (c20ExtractCLI): it goes on to signal iff the file is unreadable or its code is
	// one of the extracted ones
	code, _, err := readSignalProgressFile(w.progPath)
	if err != nil {
		return false // the harness never removes the file; treat as "not our case"
	}
	name := map[byte]string{consts.ReloadSend: "ReloadSend", consts.ReloadProcessing: "ReloadProcessing",
		consts.ReloadDone: "ReloadDone", consts.ReloadError: "ReloadError", consts.ReloadBusy: "ReloadBusy"}[code]
	return w.regions.cliAccept[name]
}

func c20PathOp(p *c20Path) string { return strings.Join(p.toks, " ") + " !" + p.term }

func c20HasTok(p *c20Path, t string) bool {
	for _, x := range p.toks {
		if x == t {
			return true
		}
	}
	return false
}

// handlerChoices lists the extracted handler paths that the real state admits right now.
func (w *c20World) handlerChoices() []*c20Path {
	var out []*c20Path
	rel := "reloading=" + c20B(w.m.reloading.Load())
	errnil := "errnil=" + c20B(w.m.reloadError() == nil)
	for i := range w.regions.handler {
		p := &w.regions.handler[i]
		if len(p.toks) < 2 || p.toks[0] != rel {
			continue
		}
		ok := true
		for _, t := range p.toks {
			if strings.HasPrefix(t, "errnil=") && t != errnil {
				ok = false
			}
		}
		if ok {
			out = append(out, p)
		}
	}
	return out
}

func (w *c20World) gAt(kind string) *c20G {
	for _, g := range w.gs {
		if !g.gone && !g.blocked && g.park != nil && g.park.kind == kind {
			return g
		}
	}
	return nil
}

func (w *c20World) gBlocked() *c20G {
	for _, g := range w.gs {
		if !g.gone && g.blocked {
			return g
		}
	}
	return nil
}

// enabled lists what can happen next, as the harness sees the real state.
func (w *c20World) enabled() (internal []string, external []string) {
	if w.exited {
		return nil, nil
	}
	external = append(external, "mark", "spur")
	mIdle := !w.busy(w.M)
	if w.faultable(w.M) != "" {
		external = append(external, "mf")
	}
	if w.faultable(w.W) != "" {
		external = append(external, "wf")
	}
	if w.gAt("get") != nil {
		external = append(external, "greadf")
	}
	if w.gAt("set") != nil {
		external = append(external, "gwritef")
	}
	if mIdle {
		external = append(external, "sig r", "sig s", "term")
		if w.cliAccepts() {
			external = append(external, "cli", "clifail")
		}
		if len(w.m.runStateChanges) > 0 {
			internal = append(internal, "wake")
		}
	} else {
		internal = append(internal, "m")
		if w.M.park == nil && w.M.pendingSig == "" && len(w.M.calls) > 0 && w.M.calls[0].name == "wait" && w.M.waitOut != "timeout" {
			external = append(external, "swallow r", "swallow s", "swallowf r", "swallowf s")
		}
	}
	if w.busy(w.W) {
		internal = append(internal, "w")
	} else if len(w.m.reloadReqs) > 0 {
		internal = append(internal, "wstart")
	}
	if w.retState() == "open" {
		internal = append(internal, "closemgr")
	}
	if w.gBlocked() != nil {
		internal = append(internal, "closeg")
	}
	for _, k := range []string{"end", "get", "set"} {
		if w.gAt(k) != nil {
			internal = append(internal, map[string]string{"end": "gend", "get": "gread", "set": "gwrite"}[k])
		}
	}
	return
}

// do performs one action on the real code and returns the op line for the model.
func (w *c20World) do(a c20Action) string {
	op := a.name
	switch a.name {
	case "sig r", "sig s":
		w.M.pendingSig = a.name[4:]
	case "swallow r", "swallow s":
		w.swallow(a.name[8:], false)
	case "swallowf r", "swallowf s":
		w.swallow(a.name[9:], true)
	case "clifail":
		// the real client helper with a kill(2) that fails: it must put back exactly what it found
		before, _ := os.ReadFile(w.progPath)
		err := writeReloadSendAndSignal(w.progPath, 1, func(int, syscall.Signal) error { return syscall.ESRCH })
		after, _ := os.ReadFile(w.progPath)
		if err == nil {
			w.fail("writeReloadSendAndSignal reported success although kill failed")
		}
		if string(before) != string(after) {
			w.st.Inc("CLIFAIL_NOT_RESTORED")
		}
	case "mf":
		w.st.Inc("fault:M" + w.faultable(w.M))
		w.stepThread(w.M, true)
	case "wf":
		w.st.Inc("fault:W" + w.faultable(w.W))
		w.stepThread(w.W, true)
	case "term":
		w.exited = true
	case "mark":
		// what `dae reload -a` / `dae suspend -a` do just before they signal
		if f, err := os.Create(AbortFile); err == nil {
			_ = f.Close()
		} else {
			w.fail("cannot create the abort marker: " + err.Error())
		}
	case "spur":
		// a Serve goroutine ends (the `lit{notify}` of the handler paths / the start-up goroutine)
		notifyRunStateChange(w.m.runStateChanges)
	case "cli":
		// the real client helper: write ReloadSend, then signal (the signal itself is the next op)
		if err := writeReloadSendAndSignal(w.progPath, 1, func(int, syscall.Signal) error { return nil }); err != nil {
			w.fail("writeReloadSendAndSignal: " + err.Error())
		}
	case "m":
		// finishReloadSuccess on an already closed channel: the goroutine it spawns stores
		// pending=false and reaches its first hook without any gate in between
		if w.stepThread(w.M, false) {
			op = "m ; gstore"
		}
	case "w":
		if w.stepThread(w.W, false) {
			op = "w ; gstore"
		}
	case "wake":
		select {
		case <-w.m.runStateChanges:
		default:
			w.fail("wake without notification")
		}
		w.M.calls = w.callsFor(w.M, a.path.toks[2:], a.path.term)
		op = "wake " + c20PathOp(a.path)
	case "wstart":
		select {
		case req := <-w.m.reloadReqs:
			w.wAbort = c20RequestAbort(req)
		default:
			w.fail("wstart without request")
		}
		w.W.calls = w.callsFor(w.W, a.path.toks, a.path.term)
		op = "wstart " + c20PathOp(a.path)
	case "closemgr":
		w.releaseRet(w.curRet)
	case "closeg":
		// the retirement completes; the release goroutine wakes up, stores pending=false and
		// reaches its first hook (the two model actions closeG ; gStore cannot be separated on the
		// real code: there is no hook between the channel receive and the store)
		g := w.gBlocked()
		if g == nil {
			w.fail("no release goroutine is waiting for a retirement")
			return "closeg ; gstore"
		}
		g.blocked = false
		ret := w.rets[g.ret]
		if !ret.released {
			ret.released = true
			close(ret.release)
		}
		w.await(nil, []*c20G{g})
		op = "closeg ; gstore"
	case "gend", "gread", "gwrite", "greadf", "gwritef":
		kind := map[string]string{"gend": "end", "gread": "get", "gwrite": "set", "greadf": "get", "gwritef": "set"}[a.name]
		g := w.gAt(kind)
		if g == nil {
			w.fail("no release goroutine is parked at hook " + kind)
			return op
		}
		p := g.park
		g.park = nil
		fault := strings.HasSuffix(a.name, "f")
		expectPark := kind == "end" || (kind == "get" && !fault && strings.HasPrefix(c20ProgClass(w.progPath), "busy"))
		if fault {
			w.hadFault = true
			w.st.Inc("fault:G@" + kind)
			before := w.faultErrs
			w.failGid.Store(p.gid)
			defer func() {
				if w.faultErrs != before+1 || w.failGid.Load() != 0 {
					w.fail("the injected progress-file fault was not consumed by the release goroutine")
				}
				w.failGid.Store(0)
			}()
		}
		if w.resume(p) {
			if expectPark {
				w.await(nil, []*c20G{g})
			} else {
				g.gone = true
			}
		}
	}
	return op
}

// drainQuiet finishes everything on the real side without recording (after an exit, so that no
// goroutine of this world survives into the next one).
func (w *c20World) drainQuiet() {
	w.exited = false
	for i := 0; i < 400; i++ {
		in, _ := w.enabled()
		if len(in) == 0 || w.desync != "" {
			break
		}
		a := c20Action{name: in[0]}
		if a.name == "wake" {
			ch := w.handlerChoices()
			a.path = ch[0]
			for _, p := range ch {
				if p.term == "next" {
					a.path = p
					break
				}
			}
		}
		if a.name == "wstart" {
			a.path = &w.regions.worker[0]
		}
		w.do(a)
		w.exited = false
	}
	for i := range w.rets {
		w.releaseRet(i)
	}
	w.exited = true
}

// ---------------------------------------------------------------- sequences

type c20Seq struct {
	mfirst bool
	w      *c20World
	out    *VStream
	nOps   int
	label  string
	stages map[string]int
}

func (s *c20Seq) emit(a c20Action) {
	w := s.w
	// classification for the distribution report
	switch a.name {
	case "sig r", "sig s":
		stage := "idle"
		switch {
		case len(w.m.reloadReqs) > 0:
			stage = "queued"
		case w.busy(w.W) && len(w.W.calls) > 0 && w.W.park == nil:
			stage = "worker:" + w.W.calls[0].name
		case w.busy(w.W) && w.W.park != nil:
			stage = "worker@" + w.W.park.kind
		case w.m.reloading.Load():
			stage = "handoff"
		case w.busy(w.M) && w.m.reloadPending.Load():
			stage = "handler"
		case w.gBlocked() != nil:
			stage = "retiring"
		case w.gAt("end") != nil || w.gAt("get") != nil || w.gAt("set") != nil:
			stage = "releasing"
		case w.m.reloadPending.Load():
			stage = "pending-other"
		}
		w.st.Inc("signal_at:" + stage)
	}
	w.st.Inc("op:" + strings.SplitN(a.name, " ", 2)[0])
	op := w.do(a)
	s.out.Emit(op, w.state())
	s.nOps++
}

func (s *c20Seq) pick(name string) c20Action {
	w := s.w
	a := c20Action{name: name}
	switch name {
	case "wake":
		ch := w.handlerChoices()
		if len(ch) == 0 {
			w.fail("no handler path admits the real state")
			return a
		}
		// leaving the loop is rare
		for tries := 0; tries < 4; tries++ {
			a.path = ch[w.r.Intn(len(ch))]
			if a.path.term != "break" {
				break
			}
		}
		w.st.Inc("handler_path:" + c20PathOp(a.path))
	case "wstart":
		for tries := 0; tries < 3; tries++ {
			a.path = &w.regions.worker[w.r.Intn(len(w.regions.worker))]
			if a.path.term != "exit" {
				break
			}
		}
		w.st.Inc("worker_path:" + c20PathOp(a.path))
	}
	return a
}

// settle runs internal actions (random order) until nothing is enabled, then asks both sides
// whether the system is quiescent and whether anything is stuck.
func (s *c20Seq) settle() {
	w := s.w
	for i := 0; i < 300 && w.desync == ""; i++ {
		in, _ := w.enabled()
		if len(in) == 0 {
			break
		}
		s.emit(s.pick(in[w.r.Intn(len(in))]))
	}
	s.quiet()
}

func (s *c20Seq) quiet() {
	w := s.w
	in, _ := w.enabled()
	q := len(in) == 0
	f := c20ProgClass(w.progPath)
	stuck := q && !w.exited && (w.m.reloadPending.Load() || outbounddialer.VerifC20Suppression() != 0 ||
		w.m.reloadActive.Load() || w.m.reloading.Load())
	stale := q && !w.exited && strings.HasPrefix(f, "busy")
	if w.desync != "" {
		s.out.Emit("quiet?", "desync:"+w.desync)
	} else {
		s.out.Emit("quiet?", fmt.Sprintf("quiescent=%s stuck=%s stale=%s", c20B(q), c20B(stuck), c20B(stale)))
	}
	s.nOps++
	if q && !w.exited {
		w.st.Inc("settled_sequences")
		if !w.cliAccepts() && f != "send" {
			w.st.Inc("settled_but_cli_refuses")
		}
	}
	if stuck {
		w.st.Inc("STUCK")
	}
	if stale && !w.hadFault {
		w.st.Inc("STALE_BUSY")
	}
	if q && !w.exited && w.hadFault {
		w.st.Inc("settled_sequences_with_io_fault")
		if stale {
			w.st.Inc("stale_busy_after_io_fault")
		}
	}
}

var c20Desyncs int

func c20RunSeq(t *testing.T, out *VStream, dir string, regions *c20Regions, r *VRand, st *VStats, body func(s *c20Seq)) int {
	defer os.Remove(AbortFile)
	if c20Desyncs >= 2 {
		// the real goroutines do not follow the model's sections any more; two replays are enough
		st.Inc("sequences_skipped_after_desync")
		return 1000
	}
	w := c20NewWorld(t, dir, regions, r, st)
	s := &c20Seq{w: w, out: out}
	out.Emit("reset", w.state())
	s.nOps++
	func() {
		defer func() {
			if e := recover(); e != nil {
				w.fail(fmt.Sprint("harness panic: ", e))
				out.Emit("quiet?", w.state())
				s.nOps++
			}
		}()
		body(s)
	}()
	func() {
		defer func() { _ = recover() }()
		w.drainQuiet()
	}()
	if w.desync != "" {
		st.Inc("DESYNC")
		c20Desyncs++
	}
	st.Inc("sequences")
	out.ops.Flush()
	out.impl.Flush()
	return s.nOps
}

// accept queues one request on an idle daemon.
func (s *c20Seq) accept(kind string) {
	s.emit(c20Action{name: "sig " + kind})
	for s.w.M.sigWork || s.w.M.pendingSig != "" {
		s.emit(c20Action{name: "m"})
		if s.w.desync != "" {
			return
		}
	}
}

// defaultNext is the deterministic "canonical" policy used by the systematic schedules.
func (s *c20Seq) defaultNext(excludeM bool) (string, bool) {
	in, _ := s.w.enabled()
	has := map[string]bool{}
	for _, x := range in {
		has[x] = true
	}
	order := []string{"w", "wstart", "wake", "m", "closeg", "gend", "gread", "gwrite", "closemgr"}
	if s.mfirst {
		// the main loop's handler overtakes the worker's tail whenever it can
		order = []string{"wake", "m", "w", "wstart", "closeg", "gend", "gread", "gwrite", "closemgr"}
	}
	for _, n := range order {
		if has[n] && !(n == "m" && excludeM) {
			return n, true
		}
	}
	return "", false
}

// systematic: one request, worker path wp, handler choice hsel, a second signal injected before
// canonical step inj; the refuser's sections are spread with `gap` foreign steps in between.
//
// faultAt >= 0: the faultAt-th section (in schedule order) that contains a progress-file operation runs
// with that operation failing.  Returns the number of canonical steps and of such sections seen.
func c20Systematic(s *c20Seq, wp *c20Path, hsel int, inj int, kind string, gap int, faultAt int) (steps int, nFaultable int) {
	w := s.w
	s.accept("r")
	injected := false
	hold := 0
	// withFault turns action n into its failing variant when its turn has come
	withFault := func(n string) string {
		fa := ""
		switch n {
		case "m":
			if w.faultable(w.M) != "" {
				fa = "mf"
			}
		case "w":
			if w.faultable(w.W) != "" {
				fa = "wf"
			}
		case "gread":
			fa = "greadf"
		case "gwrite":
			fa = "gwritef"
		case "swallow r", "swallow s":
			fa = "swallowf" + n[7:]
		}
		if fa == "" {
			return n
		}
		nFaultable++
		if nFaultable-1 == faultAt {
			return fa
		}
		return n
	}
	for steps = 0; steps < 200 && w.desync == "" && !w.exited; steps++ {
		if steps == inj && !injected {
			injected = true
			_, ext := w.enabled()
			can := map[string]bool{}
			for _, e := range ext {
				can[e] = true
			}
			switch {
			case can["sig "+kind]:
				s.emit(c20Action{name: "sig " + kind})
				s.emit(c20Action{name: "m"})
				hold = gap
			case can["swallow "+kind]:
				s.emit(c20Action{name: withFault("swallow " + kind)})
			}
		}
		mSig := w.M.sigWork || w.M.pendingSig != ""
		var n string
		ok := true
		if mSig && hold <= 0 {
			n = "m"
		} else {
			n, ok = s.defaultNext(mSig)
			if !ok && mSig {
				n, ok = "m", true
			}
		}
		if !ok {
			break
		}
		if mSig {
			if n == "m" {
				hold = gap
			} else {
				hold--
			}
		}
		a := c20Action{name: withFault(n)}
		switch n {
		case "wstart":
			a.path = wp
			w.st.Inc("worker_path:" + c20PathOp(wp))
		case "wake":
			ch := w.handlerChoices()
			if len(ch) == 0 {
				w.fail("no handler path admits the real state")
				return
			}
			a.path = ch[hsel%len(ch)]
			w.st.Inc("handler_path:" + c20PathOp(a.path))
		}
		s.emit(a)
	}
	s.quiet()
	if w.exited || w.desync != "" {
		return
	}
	// "accepts a new request again": the next request must be queued, and must settle as well
	s.accept("s")
	if !(w.m.reloadPending.Load() && len(w.m.reloadReqs) == 1) {
		w.st.Inc("SECOND_REQUEST_NOT_ACCEPTED")
	} else {
		w.st.Inc("second_request_accepted")
		if w.hadFault {
			w.st.Inc("second_request_accepted_after_io_fault")
		}
	}
	s.settle()
	return
}

func c20Random(s *c20Seq, n int) {
	w := s.w
	for i := 0; i < n && w.desync == "" && !w.exited; i++ {
		in, ext := w.enabled()
		var choices []string
		for _, x := range in {
			// retirements complete late: keep the "old generation still retiring" stage long
			if x == "closemgr" || x == "closeg" {
				if w.r.Intn(3) == 0 {
					choices = append(choices, x)
				}
				continue
			}
			choices = append(choices, x, x, x)
		}
		if len(choices) == 0 {
			choices = append(choices, in...)
		}
		for _, e := range ext {
			switch e {
			case "term":
				if w.r.Intn(60) == 0 {
					choices = append(choices, e)
				}
			case "cli":
				if w.r.Intn(3) == 0 {
					choices = append(choices, e)
				}
			case "mark", "spur":
				if w.r.Intn(4) == 0 {
					choices = append(choices, e)
				}
			case "mf", "wf", "greadf", "gwritef", "swallowf r", "swallowf s":
				// a failing progress-file operation instead of a working one
				if w.r.Intn(3) == 0 {
					choices = append(choices, e)
				}
			case "clifail":
				if w.r.Intn(8) == 0 {
					choices = append(choices, e)
				}
			default:
				choices = append(choices, e)
			}
		}
		if len(choices) == 0 {
			break
		}
		name := choices[w.r.Intn(len(choices))]
		if name == "cli" {
			s.emit(c20Action{name: "cli"})
			s.emit(c20Action{name: "sig r"})
			continue
		}
		s.emit(s.pick(name))
	}
	if !w.exited {
		s.settle()
	}
}

// TestVerifC20Consts prints the time constants compiled into this binary (the model's Gen.lean is
// generated from them).
func TestVerifC20Consts(t *testing.T) {
	b := fmt.Sprintf(`{"total": %d, "quiesce": %d, "ready": %d, "prepare": %d}`, int64(reloadTotalSwitchBudget),
		int64(outbounddialer.VerifC20Quiesce()), int64(reloadReadyTimeout), int64(reloadPrepareTimeout))
	if err := os.WriteFile(filepath.Join(VOutDir(), "c20.consts.json"), []byte(b), 0o644); err != nil {
		t.Fatal(err)
	}
}

func TestVerifC20(t *testing.T) {
	// the abort marker lives in this run's temp dir (cmd/cmd.go is overlaid: AbortFile is a variable)
	AbortFile = filepath.Join(t.TempDir(), "dae.abort")
	regions, err := c20ExtractRegions(c20RepoDir())
	if err != nil {
		t.Fatal(err)
	}
	st := NewVStats()
	// ---- static stream: extracted paths against the model's tables
	ps := VOpenStream("c20paths")
	for _, reg := range []struct {
		name string
		p    []c20Path
	}{{"worker", regions.worker}, {"handler", regions.handler}, {"signals", regions.signals},
		{"drain", regions.drain}, {"retire", regions.retire}, {"startret", regions.startret}, {"retgo", regions.retgo},
		{"facts", regions.facts}} {
		for i := range reg.p {
			ps.Emit("path "+reg.name+" "+c20PathOp(&reg.p[i]), "known")
			st.Inc("extracted_paths:" + reg.name)
		}
		ps.Emit("endpaths "+reg.name, "missing=0")
	}
	ps.Close()
	for k, v := range regions.stats {
		st.Add("extractor:"+k, v)
	}

	// ---- retirement under virtual time (plain hooks), before the gated hooks are installed
	nRet := c20RetireStream(t, st, NewVRand(VSeed()).Fork())
	st.Add("ret_ops_total", nRet)

	// ---- dynamic stream
	c20InstallHooks()
	dir := t.TempDir()
	out := VOpenStream("c20")
	r := NewVRand(VSeed())
	total := 0
	budget := VEnvInt("VERIF_C20_OPS", 45000)
	if VThorough() {
		budget = VEnvInt("VERIF_C20_OPS", 300000)
	}

	// (1) the regression schedule of fix 4876faa, verbatim
	total += c20RunSeq(t, out, dir, regions, r.Fork(), st, func(s *c20Seq) {
		c20StaleBusy(s, regions)
	})

	// (1') directed schedules with one failing progress-file operation around a refusal and the release's
	// clean-up (what such a failure can leave behind: a stale busy report; what it cannot touch: the flags)
	for v := 0; v < 5; v++ {
		total += c20RunSeq(t, out, dir, regions, r.Fork(), st, func(s *c20Seq) {
			c20FaultDirected(s, regions, v)
		})
	}

	// (2) systematic single injections
	kinds := []string{"r", "s"}
	gaps := []int{0, 1, 2, 3, 5}
	stride := 3
	if !VThorough() {
		stride = 11
	}
	cnt := 0
	fcnt, faultOps := 0, 0
	fstride := 1
	if !VThorough() {
		fstride = 4
	}
	for wi := range regions.worker {
		wp := &regions.worker[wi]
		for hsel := 0; hsel < 6; hsel++ {
			// length of the uninjected run
			n, nF := 0, 0
			total += c20RunSeq(t, out, dir, regions, r.Fork(), st, func(s *c20Seq) {
				n, nF = c20Systematic(s, wp, hsel, -1, "r", 0, -1)
			})
			for inj := 0; inj <= n; inj++ {
				for _, gap := range gaps {
					cnt++
					if cnt%stride != 0 {
						continue
					}
					if total-faultOps > budget*55/100 {
						continue
					}
					kind := kinds[cnt%2]
					mf := (cnt/stride)%3 == 0
					total += c20RunSeq(t, out, dir, regions, r.Fork(), st, func(s *c20Seq) {
						s.mfirst = mf
						c20Systematic(s, wp, hsel, inj, kind, gap, -1)
					})
					if mf {
						st.Inc("systematic_mfirst_sequences")
					}
					st.Inc("systematic_sequences")
				}
			}
			// (2') the same with one failing progress-file operation: every section of the plain run that
			// touches the file, and — with a second signal injected — the refuser's own sections
			for fi := 0; fi < nF+4; fi++ {
				for _, inj := range []int{-1, 1 + (fcnt*7)%(n+1), 1 + (fcnt*13+5)%(n+1)} {
					fcnt++
					if inj < 0 && fi >= nF {
						continue
					}
					if fcnt%fstride != 0 || faultOps > budget*15/100 {
						continue
					}
					kind := kinds[fcnt%2]
					gap := gaps[(fcnt/2)%len(gaps)]
					mf := (fcnt/fstride)%3 == 0
					got := 0
					nops := c20RunSeq(t, out, dir, regions, r.Fork(), st, func(s *c20Seq) {
						s.mfirst = mf
						_, got = c20Systematic(s, wp, hsel, inj, kind, gap, fi)
					})
					total += nops
					faultOps += nops
					if got > fi {
						st.Inc("systematic_fault_sequences")
					}
				}
			}
		}
	}
	// (3) random schedules
	for total < budget {
		total += c20RunSeq(t, out, dir, regions, r.Fork(), st, func(s *c20Seq) {
			c20Random(s, 20+r.Intn(100))
		})
		st.Inc("random_sequences")
	}
	out.Close()
	st.Add("ops_total", total)
	st.Write("c20")
}

// c20FaultDirected: a request succeeded and its old generation is retiring; a second request is refused;
// then, depending on the variant, one progress-file operation fails:
//
//	0  the release goroutine's clean-up READ fails after the refusal wrote its busy report   (stale busy)
//	1  the release goroutine's clean-up WRITE fails                                           (stale busy)
//	2  the refusal's busy report cannot be written                                            (nothing at all)
//	3  4876faa schedule, the refuser's own re-check READ fails                                (stale busy)
//	4  4876faa schedule, the refuser's own clean-up WRITE fails                               (stale busy)
//
// afterwards the next request must be accepted and its release cleans the file up again.
func c20FaultDirected(s *c20Seq, regions *c20Regions, variant int) {
	w := s.w
	var wp, hp *c20Path
	for i := range regions.worker {
		p := &regions.worker[i]
		if c20HasTok(p, "startret") && !c20HasTok(p, "err=1") && c20HasTok(p, "clearstaged") {
			wp = p
		}
	}
	for i := range regions.handler {
		p := &regions.handler[i]
		if c20HasTok(p, "finishsucc") && c20HasTok(p, "lnil=0") && c20HasTok(p, "staged=0") && c20HasTok(p, "errnil=1") {
			hp = p
		}
	}
	if wp == nil || hp == nil {
		w.st.Inc("fault_directed_unavailable")
		return
	}
	s.accept("r")
	s.emit(c20Action{name: "wstart", path: wp})
	for w.busy(w.W) && w.desync == "" {
		s.emit(c20Action{name: "w"})
	}
	s.emit(c20Action{name: "wake", path: hp})
	for w.busy(w.M) && w.desync == "" {
		s.emit(c20Action{name: "m"})
	}
	if w.gBlocked() == nil || w.desync != "" {
		w.st.Inc("fault_directed_unavailable")
		return
	}
	s.emit(c20Action{name: "sig s"})
	s.emit(c20Action{name: "m"}) // CAS fails; parked before the busy report
	switch variant {
	case 0, 1:
		s.emit(c20Action{name: "m"}) // busy report written, the request is still pending: done
		s.emit(c20Action{name: "closeg"})
		s.emit(c20Action{name: "gend"})
		if variant == 0 {
			s.emit(c20Action{name: "greadf"})
		} else {
			s.emit(c20Action{name: "gread"})
			s.emit(c20Action{name: "gwritef"})
		}
	case 2:
		s.emit(c20Action{name: "mf"})
	case 3, 4:
		s.emit(c20Action{name: "closeg"})
		s.emit(c20Action{name: "gend"})
		s.emit(c20Action{name: "gread"}) // sees Done: nothing to clear
		s.emit(c20Action{name: "m"})     // busy report; pending already false: re-check, parked at the read
		if variant == 3 {
			s.emit(c20Action{name: "mf"})
		} else {
			s.emit(c20Action{name: "m"})
			s.emit(c20Action{name: "mf"})
		}
	}
	s.settle()
	if w.desync != "" || w.exited {
		return
	}
	w.st.Inc(fmt.Sprintf("fault_directed:%d", variant))
	if strings.HasPrefix(c20ProgClass(w.progPath), "busy") {
		w.st.Inc("fault_directed_left_stale_busy")
	}
	// the daemon still takes the next request, and that request's release clears the left-over report
	s.accept("r")
	if w.m.reloadPending.Load() && len(w.m.reloadReqs) == 1 {
		w.st.Inc("second_request_accepted_after_io_fault")
	} else {
		w.st.Inc("SECOND_REQUEST_NOT_ACCEPTED")
	}
	s.settle()
	if !strings.HasPrefix(c20ProgClass(w.progPath), "busy") {
		w.st.Inc("fault_directed_cleared_by_next_release")
	}
}

// c20StaleBusy: a request succeeded and its old generation is retiring; a second request is
// refused; the retirement completes and the release goroutine runs completely between the
// refuser's CAS and its busy report.
func c20StaleBusy(s *c20Seq, regions *c20Regions) {
	w := s.w
	var wp, hp *c20Path
	for i := range regions.worker {
		p := &regions.worker[i]
		if c20HasTok(p, "startret") && !c20HasTok(p, "err=1") && c20HasTok(p, "clearstaged") {
			wp = p
		}
	}
	for i := range regions.handler {
		p := &regions.handler[i]
		if c20HasTok(p, "finishsucc") && c20HasTok(p, "lnil=0") && c20HasTok(p, "staged=0") && c20HasTok(p, "errnil=1") {
			hp = p
		}
	}
	if wp == nil || hp == nil {
		w.st.Inc("stale_busy_schedule_unavailable")
		return
	}
	s.accept("r")
	s.emit(c20Action{name: "wstart", path: wp})
	for w.busy(w.W) && w.desync == "" {
		s.emit(c20Action{name: "w"})
	}
	s.emit(c20Action{name: "wake", path: hp})
	for w.busy(w.M) && w.desync == "" {
		s.emit(c20Action{name: "m"})
	}
	// old generation retiring: pending still set, worker and main loop idle
	s.emit(c20Action{name: "sig r"})
	s.emit(c20Action{name: "m"}) // CAS fails; parked before the busy report
	if w.gBlocked() != nil {
		s.emit(c20Action{name: "closeg"})
		s.emit(c20Action{name: "gend"})
		s.emit(c20Action{name: "gread"})
	}
	for w.busy(w.M) && w.desync == "" {
		s.emit(c20Action{name: "m"})
	}
	s.settle()
	w.st.Inc("stale_busy_schedule_run")
}
