package cmd

// C20 — static half of the tie: the reload worker closure and the run-state loop of
// (*Runner).Run in cmd/run.go cannot be executed without a live control plane, so their effect on
// the reload flags is extracted from the source of the tree under test with go/ast: every
// control-flow path through
//   worker  : body of `for req := range reloadManager.reloadReqs`
//   handler : body of `case <-runStateChanges:` of the labelled main loop
//   signals : body of `case sig := <-sigs:`   of the labelled main loop
// is reduced to its ordered list of *recognised effects* (stores to the reload flags, progress
// writes, pending release, hand-off, retirement ...) and *recognised guards*.  The Lean model
// carries the same table (DaeVerif.C20 workerPaths / handlerPaths / signalPaths); the driver
// answers `known` for a path of its table, and lists the table paths that were not extracted.
// Any call that touches the reload manager or the reload helpers and is not recognised yields a
// `?…` token, which no model path contains.

import (
	"bytes"
	"fmt"
	"go/ast"
	"go/parser"
	"go/printer"
	"go/token"
	"os"
	"path/filepath"
	"sort"
	"strings"
)

type c20Path struct {
	toks []string
	term string // "" (falls through) | next | break | return | exit
}

func (p c20Path) key() string { return strings.Join(p.toks, " ") + " !" + p.term }

type c20Extractor struct {
	fset *token.FileSet
	// local variable names of (*Runner).Run → the canonical names the recognisers use, so that
	// renaming a local does not change the extracted paths
	alias map[string]string
	// retirement functions: also report select cases, defers and goroutine spawns
	commTokens bool
	// pinned call-site arguments (time-outs), collected while walking
	pins []string
	// the guards the region being walked speaks about
	guards map[string]bool
	// functions declared in cmd/run.go and cmd/reload_manager.go (plain names), for callee resolution
	decls    map[string]*ast.FuncDecl
	callFuns map[*ast.SelectorExpr]bool
	inCallee map[string]bool
	// statistics
	nIf, nStmts int
}

// src prints a node on one line with the aliased identifiers renamed.
func (x *c20Extractor) src(n ast.Node) string {
	var b bytes.Buffer
	_ = printer.Fprint(&b, x.fset, n)
	out := strings.Join(strings.Fields(b.String()), " ")
	if len(x.alias) == 0 {
		return out
	}
	var sb strings.Builder
	isId := func(c byte) bool {
		return c == '_' || (c >= '0' && c <= '9') || (c >= 'a' && c <= 'z') || (c >= 'A' && c <= 'Z')
	}
	for i := 0; i < len(out); {
		if isId(out[i]) && (i == 0 || (!isId(out[i-1]) && out[i-1] != '.')) {
			j := i
			for j < len(out) && isId(out[j]) {
				j++
			}
			w := out[i:j]
			if a, ok := x.alias[w]; ok {
				w = a
			}
			sb.WriteString(w)
			i = j
			continue
		}
		sb.WriteByte(out[i])
		i++
	}
	return sb.String()
}

func (x *c20Extractor) aliasOf(name string) string {
	if a, ok := x.alias[name]; ok {
		return a
	}
	return name
}

func (x *c20Extractor) rawSrc(n ast.Node) string {
	var b bytes.Buffer
	_ = printer.Fprint(&b, x.fset, n)
	return strings.Join(strings.Fields(b.String()), " ")
}

// learnAliases finds the declarations that introduce the locals the recognisers refer to.
func (x *c20Extractor) learnAliases(body *ast.BlockStmt) {
	x.alias = map[string]string{}
	set := func(e ast.Expr, canon string) {
		if id, ok := e.(*ast.Ident); ok && id.Name != "_" && id.Name != canon {
			x.alias[id.Name] = canon
		}
	}
	ast.Inspect(body, func(n ast.Node) bool {
		switch v := n.(type) {
		case *ast.AssignStmt:
			if len(v.Rhs) != 1 {
				return true
			}
			call, ok := v.Rhs[0].(*ast.CallExpr)
			if !ok {
				return true
			}
			fun := x.rawSrc(call.Fun)
			switch {
			case fun == "newReloadManager" && len(v.Lhs) == 1 && len(call.Args) == 3:
				set(v.Lhs[0], "reloadManager")
				set(call.Args[0], "reloadReqs")
				set(call.Args[1], "runStateChanges")
				set(call.Args[2], "sigs")
			case fun == "waitReloadReadyOrSignal" && len(v.Lhs) == 2:
				set(v.Lhs[0], "waitResult")
				set(v.Lhs[1], "termSig")
			case strings.HasSuffix(fun, ".reloadError") && len(v.Lhs) == 1:
				set(v.Lhs[0], "reloadErr")
			case strings.HasSuffix(fun, ".currentPendingStagedHandoff") && len(v.Lhs) == 1:
				set(v.Lhs[0], "handoff")
			}
		case *ast.DeclStmt:
			if gd, ok := v.Decl.(*ast.GenDecl); ok {
				for _, sp := range gd.Specs {
					if vs, ok := sp.(*ast.ValueSpec); ok && vs.Type != nil && x.rawSrc(vs.Type) == "*control.Listener" && len(vs.Names) == 1 && len(x.alias) < 64 {
						if _, dup := x.alias["\x00listener"]; !dup {
							x.alias["\x00listener"] = "seen"
							if vs.Names[0].Name != "listener" {
								x.alias[vs.Names[0].Name] = "listener"
							}
						}
					}
				}
			}
		}
		return true
	})
	delete(x.alias, "\x00listener")
}



// pure reads of the manager: no token.
var c20PureReads = map[string]bool{
	"reloadManager.currentPendingStagedHandoff": true,
	"reloadManager.reloadError":                 true,
	"reloadManager.pendingDNSHandoffActive":     true,
	"reloadManager.reloading.Load":              true,
	"reloadManager.buildShutdownHandoff":        true,
}

func c20ProgCode(arg string) string {
	switch arg {
	case "consts.ReloadSend":
		return "0"
	case "consts.ReloadProcessing":
		return "1"
	case "consts.ReloadDone":
		return "2"
	case "consts.ReloadError":
		return "3"
	case "consts.ReloadBusy":
		return "4"
	}
	return "?" + arg
}

// callToken maps one call expression to an effect token ("" = irrelevant).
func (x *c20Extractor) callToken(c *ast.CallExpr) string {
	fun := x.src(c.Fun)
	arg := func(i int) string {
		if i < len(c.Args) {
			return x.src(c.Args[i])
		}
		return ""
	}
	boolArg := func(i int) string {
		switch arg(i) {
		case "true":
			return "1"
		case "false":
			return "0"
		}
		return "?" + arg(i)
	}
	switch fun {
	case "reloadManager.reloadActive.Store":
		return "active=" + boolArg(0)
	case "reloadManager.reloading.Store":
		return "reloading:=" + boolArg(0)
	case "reloadManager.coalesceReloadRequest":
		return "coalesce"
	case "setRunSignalProgress":
		tok := "prog=" + c20ProgCode(arg(0))
		if arg(0) == "consts.ReloadDone" {
			// Done "" (cleared) and Done "OK" are different observable answers
			// the property does not fix the text of the answer: any non-empty content is "Done with an answer"
			if arg(1) != `""` {
				tok += "ok"
			}
		}
		return tok
	case "reloadManager.setReloadError":
		if arg(0) == "nil" {
			return "err=0"
		}
		return "err=1"
	case "resetReloadProxyRuntimeState":
		return "resetproxy"
	case "clearReloadPending":
		if arg(0) == "&reloadManager.reloadPending" {
			return "clearpending"
		}
		return "?clearReloadPending(" + arg(0) + ")"
	case "reloadManager.setPendingStagedHandoff":
		return "setstaged"
	case "reloadManager.clearPendingStagedHandoff":
		return "clearstaged"
	case "reloadManager.clearPendingRetirement":
		return "clearret"
	case "reloadManager.setPendingReloadMetadata":
		return "setmeta"
	case "reloadManager.beginHandoff":
		return "beginhandoff"
	case "reloadManager.startControlPlaneRetirement":
		return "startret"
	case "reloadManager.refreshPprofServer":
		return "pprof"
	case "reloadManager.installPreparedDNSHandoffHooks":
		return "hooks"
	case "notifyRunStateChange":
		return "notify"
	case "reloadManager.finishReloadSuccess":
		return "finishsucc"
	case "reloadManager.finishReloadFailure":
		return "finishfail"
	case "waitReloadReadyOrSignal":
		// the timeout argument is pinned separately (`pins handler …`)
		x.pins = append(x.pins, "wait:"+arg(3))
		return "wait"
	case "reloadManager.queueReloadRequest":
		if cl, ok := c.Args[len(c.Args)-1].(*ast.CompositeLit); ok {
			for _, e := range cl.Elts {
				if kv, ok := e.(*ast.KeyValueExpr); ok && x.src(kv.Key) == "isSuspend" {
					switch x.src(kv.Value) {
					case "true":
						return "queue:suspend"
					case "false":
						return "queue:reload"
					}
				}
			}
		}
		return "?queueReloadRequest"
	case "rollbackStagedReloadHandoff":
		return "" // closes the staged generation; no reload flag involved
	case "takeAbortMarker":
		return "takeabort"
	case "os.Remove", "os.Create":
		if strings.Contains(arg(0), "AbortFile") {
			return "?abortfile:" + fun // only takeAbortMarker / the clients touch the marker
		}
		return ""
	}
	if x.commTokens {
		// retirement functions only (cmd/run.go waitForControlPlaneDrain /
		// retireControlPlaneConnections, cmd/reload_manager.go startControlPlaneRetirement); in the
		// worker / handler regions these calls are harmless and yield nothing
		if t := x.retireToken(fun, arg); t != "" {
			return t
		}
	}
	if c20PureReads[fun] {
		return ""
	}
	return x.fallbackToken(fun)
}

func (x *c20Extractor) retireToken(fun string, arg func(int) string) string {
	switch fun {
	case "time.NewTimer":
		return "timer:" + arg(0)
	case "time.NewTicker":
		return "ticker:" + arg(0)
	case "c.AbortConnections":
		return "abortconns"
	case "waitForControlPlaneDrain":
		return "drainwait:" + arg(3)
	case "retireControlPlaneConnections":
		return "retireconns:" + arg(5)
	case "remainingReloadRetirementBudget":
		return "budget:" + arg(1)
	case "oldControlPlane.MarkRetired":
		return "markretired"
	case "oldCancel":
		return "oldcancel"
	case "oldControlPlane.Close":
		return "closeplane"
	case "successor.RunReloadRetirementCleanup":
		return "cleanup"
	case "m.lastRetirementCancel":
		return "cancelprev"
	case "context.WithCancel":
		return "newctx"
	case "close":
		return "close:" + arg(0)
	}
	return ""
}

func (x *c20Extractor) fallbackToken(fun string) string {
	if strings.HasSuffix(fun, ".Fatalln") || strings.HasSuffix(fun, ".Fatalf") || strings.HasSuffix(fun, ".Fatal") || fun == "os.Exit" {
		return "fatal"
	}
	if strings.ContainsAny(fun, " {") {
		return "" // not a plain (selector) name, e.g. an immediately invoked function literal
	}
	if fd, ok := x.decls[fun]; ok && fd.Body != nil && !x.inCallee[fun] {
		// a helper declared in package cmd: what it does to the reload state counts at the call site
		if x.inCallee == nil {
			x.inCallee = map[string]bool{}
		}
		x.inCallee[fun] = true
		// parameters of type *reloadManager are the manager inside the callee
		saved := map[string]string{}
		if fd.Type.Params != nil {
			for _, fld := range fd.Type.Params.List {
				if x.rawSrc(fld.Type) == "*reloadManager" {
					for _, n := range fld.Names {
						if old, ok := x.alias[n.Name]; ok {
							saved[n.Name] = old
						} else {
							saved[n.Name] = ""
						}
						x.alias[n.Name] = "reloadManager"
					}
				}
			}
		}
		t := x.litToken(&ast.FuncLit{Body: fd.Body})
		for n, old := range saved {
			if old == "" {
				delete(x.alias, n)
			} else {
				x.alias[n] = old
			}
		}
		delete(x.inCallee, fun)
		if t != "" {
			return "call" + strings.TrimPrefix(t, "lit")
		}
	}
	low := strings.ToLower(fun)
	if strings.HasPrefix(fun, "reloadManager.") || strings.Contains(low, "reloadpending") ||
		strings.Contains(low, "reloadproxyfailuresuppression") || strings.Contains(low, "rejectedreload") ||
		strings.Contains(low, "reloadhandoff") || strings.Contains(low, "tryqueuereload") ||
		strings.Contains(low, "signalprogress") {
		return "?" + fun
	}
	return ""
}

// exprTokens lists the effect tokens of the calls inside n in source order, not descending into
// function literals (goroutines / callbacks run elsewhere).
func (x *c20Extractor) exprTokens(n ast.Node) []string {
	if n == nil {
		return nil
	}
	var out []string
	ast.Inspect(n, func(m ast.Node) bool {
		switch v := m.(type) {
		case *ast.FuncLit:
			// goroutines / callbacks run elsewhere, but what they may do to the reload state is part
			// of the path: the set of effect tokens found anywhere inside (nested literals included)
			if t := x.litToken(v); t != "" {
				out = append(out, t)
			}
			return false
		case *ast.CallExpr:
			if x.callFuns == nil {
				x.callFuns = map[*ast.SelectorExpr]bool{}
			}
			for fe := v.Fun; ; {
				se, ok := fe.(*ast.SelectorExpr)
				if !ok {
					break
				}
				x.callFuns[se] = true
				fe = se.X
			}
			if f := x.src(v.Fun); f == "context.WithTimeout" && !x.commTokens && len(v.Args) == 2 {
				x.pins = append(x.pins, "ctx:"+x.src(v.Args[1]))
			}
			// arguments are evaluated before the call itself
			for _, a := range v.Args {
				out = append(out, x.exprTokens(a)...)
			}
			out = append(out, x.exprTokens(v.Fun)...)
			if t := x.callToken(v); t != "" {
				out = append(out, t)
			}
			return false
		case *ast.SelectorExpr:
			// the manager's methods used as values (`f := reloadManager.finishReloadFailure`)
			if id, ok := v.X.(*ast.Ident); ok && !x.commTokens && x.aliasOf(id.Name) == "reloadManager" && !x.callFuns[v] {
				switch v.Sel.Name {
				case "reloadActive", "reloading", "reloadPending", "reloadReqs", "runStateChanges", "sigs":
				default:
					out = append(out, "?value:reloadManager."+v.Sel.Name)
				}
			}
		case *ast.AssignStmt:
			for i, l := range v.Lhs {
				if i < len(v.Rhs) && !x.commTokens {
					if id, ok := v.Rhs[i].(*ast.Ident); ok {
						if x.aliasOf(id.Name) == "reloadManager" {
							out = append(out, "?alias:reloadManager") // a second name for the manager hides its calls
						}
						if lid, ok2 := l.(*ast.Ident); ok2 && id.Name == "nil" && x.aliasOf(lid.Name) == "listener" {
							out = append(out, "?listener=nil") // makes the next wake-up take the exit branch
						}
					}
				}
			}
			// direct writes to manager fields are not expected anywhere
			for _, l := range v.Lhs {
				if s := x.src(l); strings.HasPrefix(s, "reloadManager.") {
					out = append(out, "?assign:"+s)
				} else if strings.HasPrefix(s, "m.") {
					out = append(out, "set:"+s)
				}
			}
		}
		return true
	})
	return out
}

// litToken: `lit{a,b}` = the distinct effect tokens inside a function literal (sorted), "" if none.
func (x *c20Extractor) litToken(fl *ast.FuncLit) string {
	set := map[string]bool{}
	savedPins := x.pins
	ast.Inspect(fl.Body, func(m ast.Node) bool {
		if c, ok := m.(*ast.CallExpr); ok {
			if t := x.callToken(c); t != "" {
				set[t] = true
			}
		}
		if a, ok := m.(*ast.AssignStmt); ok {
			for _, l := range a.Lhs {
				if s := x.src(l); strings.HasPrefix(s, "reloadManager.") {
					set["?assign:"+s] = true
				}
			}
		}
		return true
	})
	x.pins = savedPins
	if len(set) == 0 {
		return ""
	}
	var ts []string
	for t := range set {
		ts = append(ts, t)
	}
	sort.Strings(ts)
	return "lit{" + strings.Join(ts, ",") + "}"
}

func c20Dedupe(ps []c20Path) []c20Path {
	seen := map[string]bool{}
	var out []c20Path
	for _, p := range ps {
		k := p.key()
		if !seen[k] {
			seen[k] = true
			out = append(out, p)
		}
	}
	return out
}

func c20Cat(a []c20Path, b []c20Path) []c20Path {
	var out []c20Path
	for _, p := range a {
		if p.term != "" {
			out = append(out, p)
			continue
		}
		for _, q := range b {
			t := append(append([]string{}, p.toks...), q.toks...)
			out = append(out, c20Path{toks: t, term: q.term})
		}
	}
	return c20Dedupe(out)
}

func c20Prefix(toks []string, ps []c20Path) []c20Path {
	return c20Cat([]c20Path{{toks: toks}}, ps)
}

// opaqueLoop: a loop whose body has no effect on the reload state and no jump out is invisible;
// anything else is reported.
func (x *c20Extractor) opaqueLoop(body *ast.BlockStmt) []c20Path {
	for _, p := range x.block(body.List) {
		if len(p.toks) > 0 || (p.term != "" && p.term != "next" && p.term != "break") {
			return []c20Path{{toks: []string{"?loop"}}}
		}
	}
	return []c20Path{{}}
}

func (x *c20Extractor) block(stmts []ast.Stmt) []c20Path {
	cur := []c20Path{{}}
	for _, s := range stmts {
		cur = c20Cat(cur, x.stmt(s))
		if len(cur) > 4000 {
			panic("c20: path explosion")
		}
	}
	return cur
}

func (x *c20Extractor) stmt(s ast.Stmt) []c20Path {
	x.nStmts++
	switch v := s.(type) {
	case nil:
		return []c20Path{{}}
	case *ast.BlockStmt:
		return x.block(v.List)
	case *ast.LabeledStmt:
		return x.stmt(v.Stmt)
	case *ast.IfStmt:
		x.nIf++
		pre := x.exprTokens(v.Init)
		pre = append(pre, x.exprTokens(v.Cond)...)
		g, pol := x.guardOf(v.Cond)
		if x.guards != nil && !x.guards[g] {
			g = "" // a shape that means something in another region only
		}
		thenP := x.block(v.Body.List)
		var elseP []c20Path
		if v.Else != nil {
			elseP = x.stmt(v.Else)
		} else {
			elseP = []c20Path{{}}
		}
		if g != "" {
			yes, no := "=1", "=0"
			if !pol {
				yes, no = no, yes
			}
			thenP = c20Prefix([]string{g + yes}, thenP)
			elseP = c20Prefix([]string{g + no}, elseP)
		}
		return c20Prefix(pre, c20Dedupe(append(thenP, elseP...)))
	case *ast.SwitchStmt:
		pre := append(x.exprTokens(v.Init), x.exprTokens(v.Tag)...)
		var alts []c20Path
		hasDefault := false
		for _, cc := range v.Body.List {
			cl := cc.(*ast.CaseClause)
			label := "default"
			if cl.List == nil {
				hasDefault = true
			} else {
				var names []string
				for _, e := range cl.List {
					names = append(names, strings.TrimPrefix(x.src(e), "syscall."))
				}
				label = strings.Join(names, ",")
			}
			alts = append(alts, c20Prefix([]string{"case:" + label}, x.block(cl.Body))...)
		}
		if !hasDefault {
			alts = append(alts, c20Path{toks: []string{"case:none"}})
		}
		return c20Prefix(pre, c20Dedupe(alts))
	case *ast.SelectStmt:
		var alts []c20Path
		for _, cc := range v.Body.List {
			cl := cc.(*ast.CommClause)
			pre := x.exprTokens(cl.Comm)
			if x.commTokens {
				if cl.Comm == nil {
					pre = append(pre, "on:default")
				} else {
					pre = append(pre, "on:"+x.src(cl.Comm))
				}
			}
			alts = append(alts, c20Prefix(pre, x.block(cl.Body))...)
		}
		return c20Dedupe(alts)
	case *ast.ForStmt:
		if v.Init == nil && v.Cond == nil && v.Post == nil {
			// `for { … }`: one iteration; falling through the body means "go round again"
			ps := x.block(v.Body.List)
			for i := range ps {
				if ps[i].term == "" || ps[i].term == "next" {
					ps[i].term = "loop"
				}
			}
			return ps
		}
		return x.opaqueLoop(v.Body)
	case *ast.RangeStmt:
		return x.opaqueLoop(v.Body)
	case *ast.BranchStmt:
		switch v.Tok {
		case token.CONTINUE:
			return []c20Path{{term: "next"}}
		case token.BREAK:
			return []c20Path{{term: "break"}}
		case token.GOTO:
			return []c20Path{{toks: []string{"?goto"}}}
		}
		return []c20Path{{}}
	case *ast.ReturnStmt:
		toks := x.exprTokens(v)
		for _, r := range v.Results {
			if id, ok := r.(*ast.Ident); ok && strings.HasPrefix(id.Name, "controlPlaneDrain") {
				toks = append(toks, "ret:"+strings.ToLower(strings.TrimPrefix(id.Name, "controlPlaneDrain")))
			}
		}
		return []c20Path{{toks: toks, term: "return"}}
	case *ast.GoStmt:
		// the spawned function runs elsewhere; its arguments are evaluated here
		var toks []string
		for _, a := range v.Call.Args {
			toks = append(toks, x.exprTokens(a)...)
		}
		if x.commTokens {
			toks = append(toks, "spawn")
		} else if fl, ok := v.Call.Fun.(*ast.FuncLit); ok {
			if t := x.litToken(fl); t != "" {
				toks = append(toks, t)
			}
		}
		return []c20Path{{toks: toks}}
	case *ast.DeferStmt:
		if x.commTokens {
			return []c20Path{{toks: []string{"defer:" + x.src(v.Call)}}}
		}
		if len(x.exprTokens(v.Call)) == 0 {
			return []c20Path{{}} // a deferred call that touches nothing of the reload state
		}
		return []c20Path{{toks: []string{"?defer"}}}
	default:
		toks := x.exprTokens(s)
		for _, t := range toks {
			if t == "fatal" {
				// everything up to and including the fatal call, then the process is gone
				var cut []string
				for _, u := range toks {
					cut = append(cut, u)
					if u == "fatal" {
						break
					}
				}
				return []c20Path{{toks: cut, term: "exit"}}
			}
		}
		return []c20Path{{toks: toks}}
	}
}

type c20Regions struct {
	worker, handler, signals []c20Path
	// retirement: waitForControlPlaneDrain, retireControlPlaneConnections,
	// startControlPlaneRetirement and the body of its goroutine
	drain, retire, startret, retgo []c20Path
	// facts: constructor lines of Run, pinned call-site arguments, the CLI closures
	facts []c20Path
	// progress codes with which `dae reload` goes on to signal (extracted from cmd/reload.go)
	cliAccept map[string]bool
	stats                    map[string]int
}

func c20ExtractRegions(repo string) (*c20Regions, error) {
	fset := token.NewFileSet()
	f, err := parser.ParseFile(fset, filepath.Join(repo, "cmd", "run.go"), nil, 0)
	if err != nil {
		return nil, err
	}
	x := &c20Extractor{fset: fset, decls: map[string]*ast.FuncDecl{}}
	if fm0, err := parser.ParseFile(fset, filepath.Join(repo, "cmd", "reload_manager.go"), nil, 0); err == nil {
		for _, d := range fm0.Decls {
			if fd, ok := d.(*ast.FuncDecl); ok && fd.Recv == nil {
				x.decls[fd.Name.Name] = fd
			}
		}
	}
	for _, d := range f.Decls {
		if fd, ok := d.(*ast.FuncDecl); ok && fd.Recv == nil {
			x.decls[fd.Name.Name] = fd
		}
	}
	var run *ast.FuncDecl
	for _, d := range f.Decls {
		if fd, ok := d.(*ast.FuncDecl); ok && fd.Name.Name == "Run" && fd.Recv != nil {
			run = fd
		}
	}
	if run == nil {
		return nil, fmt.Errorf("(*Runner).Run not found")
	}
	x.learnAliases(run.Body)
	var workerBody, handlerBody, signalBody []ast.Stmt
	nWorker, nHandler, nSignal := 0, 0, 0
	ast.Inspect(run.Body, func(n ast.Node) bool {
		switch v := n.(type) {
		case *ast.RangeStmt:
			if x.src(v.X) == "reloadManager.reloadReqs" {
				workerBody = v.Body.List
				nWorker++
				if id, ok := v.Key.(*ast.Ident); ok && id.Name != "req" && id.Name != "_" {
					x.alias[id.Name] = "req"
				}
			}
		case *ast.CommClause:
			switch x.src(v.Comm) {
			case "<-runStateChanges":
				handlerBody = v.Body
				nHandler++
			case "sig := <-sigs":
				signalBody = v.Body
				nSignal++
			}
		}
		return true
	})
	if nWorker != 1 || nHandler != 1 || nSignal != 1 {
		return nil, fmt.Errorf("regions not found exactly once: worker=%d handler=%d signals=%d", nWorker, nHandler, nSignal)
	}
	r := &c20Regions{stats: map[string]int{}}
	norm := func(ps []c20Path, fallthroughTerm string) []c20Path {
		for i := range ps {
			if ps[i].term == "" {
				ps[i].term = fallthroughTerm
			}
		}
		ps = c20Dedupe(ps)
		sort.Slice(ps, func(i, j int) bool { return ps[i].key() < ps[j].key() })
		return ps
	}
	fact := func(text string) { r.facts = append(r.facts, c20Path{toks: strings.Fields(text), term: "fact"}) }
	pinLine := func(region string) {
		cnt := map[string]int{}
		for _, p := range x.pins {
			cnt[p]++
		}
		var ks []string
		for k, n := range cnt {
			ks = append(ks, fmt.Sprintf("%s*%d", k, n))
		}
		sort.Strings(ks)
		fact("pins " + region + " " + strings.Join(ks, " "))
		x.pins = nil
	}
	x.guards = map[string]bool{"retire": true}
	r.worker = norm(x.block(workerBody), "next")
	pinLine("worker")
	x.guards = map[string]bool{"reloading": true, "lnil": true, "staged": true, "errnil": true, "term": true, "notready": true}
	r.handler = norm(x.block(handlerBody), "next")
	pinLine("handler")
	x.guards = map[string]bool{}
	r.signals = norm(x.block(signalBody), "next")
	x.pins = nil
	// where the request's arrival time and abort decision come from and where they go
	fact("flow signals " + x.flowFact(signalBody))
	fact("flow worker " + x.flowFact(workerBody))
	fact("flow handler " + x.flowFact(handlerBody))
	// ---- constructor lines of Run (outside the three regions)
	startupSeen := false
	ast.Inspect(run.Body, func(n ast.Node) bool {
		switch v := n.(type) {
		case *ast.AssignStmt:
			if len(v.Lhs) == 1 && len(v.Rhs) == 1 {
				if call, ok := v.Rhs[0].(*ast.CallExpr); ok && x.rawSrc(call.Fun) == "make" && len(call.Args) >= 1 {
					if _, isChan := call.Args[0].(*ast.ChanType); isChan {
						name := x.src(v.Lhs[0])
						if name == "reloadReqs" || name == "runStateChanges" || name == "sigs" {
							capS := "0"
							if len(call.Args) == 2 {
								capS = x.rawSrc(call.Args[1])
							}
							fact("ctor " + name + " " + strings.ReplaceAll(x.rawSrc(call.Args[0]), " ", "") + " cap=" + capS)
						}
					}
				}
			}
		case *ast.CallExpr:
			if x.rawSrc(v.Fun) == "signal.Notify" && len(v.Args) >= 1 {
				var sg []string
				for _, a := range v.Args[1:] {
					sg = append(sg, strings.TrimPrefix(x.rawSrc(a), "syscall."))
				}
				sort.Strings(sg)
				fact("ctor notify " + x.src(v.Args[0]) + " " + strings.Join(sg, ","))
			}
		case *ast.GoStmt:
			// the first goroutine of Run: listen + serve + the start-up progress write
			if fl, ok := v.Call.Fun.(*ast.FuncLit); ok {
				inRegion := func(list []ast.Stmt) bool {
					return len(list) > 0 && fl.Pos() <= list[0].Pos() && list[len(list)-1].End() <= fl.End() ||
						len(list) > 0 && list[0].Pos() <= fl.Pos() && fl.End() <= list[len(list)-1].End()
				}
				if inRegion(workerBody) || inRegion(handlerBody) || inRegion(signalBody) {
					return true // the worker goroutine itself / literals inside the regions (path tokens)
				}
				if t := x.litToken(fl); t != "" {
					if !startupSeen && fl.Pos() < workerBody[0].Pos() {
						startupSeen = true
						fact("ctor startup " + t)
					} else {
						fact("ctor goroutine " + t) // any other goroutine of Run that touches the reload state
					}
				}
				return false
			}
		}
		return true
	})
	x.pins = nil
	// ---- retirement functions
	y := &c20Extractor{fset: fset, alias: map[string]string{}, commTokens: true,
		guards: map[string]bool{"nosession": true, "logevery": true, "nilplane": true, "hasprev": true, "hasoldcancel": true, "hassucc": true}}
	funcBody := func(file *ast.File, name string) *ast.BlockStmt {
		for _, d := range file.Decls {
			if fd, ok := d.(*ast.FuncDecl); ok && fd.Name.Name == name {
				return fd.Body
			}
		}
		return nil
	}
	fm, err := parser.ParseFile(fset, filepath.Join(repo, "cmd", "reload_manager.go"), nil, 0)
	if err != nil {
		return nil, err
	}
	drainB, retireB, startB := funcBody(f, "waitForControlPlaneDrain"), funcBody(f, "retireControlPlaneConnections"), funcBody(fm, "startControlPlaneRetirement")
	if drainB == nil || retireB == nil || startB == nil {
		return nil, fmt.Errorf("retirement functions not found")
	}
	r.drain = norm(y.block(drainB.List), "end")
	r.retire = norm(y.block(retireB.List), "end")
	r.startret = norm(y.block(startB.List), "end")
	var goBody *ast.BlockStmt
	ast.Inspect(startB, func(n ast.Node) bool {
		if g, ok := n.(*ast.GoStmt); ok {
			if fl, ok := g.Call.Fun.(*ast.FuncLit); ok {
				goBody = fl.Body
			}
		}
		return true
	})
	if goBody == nil {
		return nil, fmt.Errorf("retirement goroutine not found")
	}
	r.retgo = norm(y.block(goBody.List), "end")
	if err := c20ExtractCLI(repo, r, x); err != nil {
		return nil, err
	}
	r.stats["stmts_walked"] = x.nStmts + y.nStmts
	r.stats["ifs_walked"] = x.nIf
	return r, nil
}

// flowFact: the arguments that carry the request's arrival time and abort decision, with locals resolved
// to what they were defined as (`reloadStartedAt := req.requestedAt` → `req.requestedAt`), so that
// renaming a local does not change the fact while passing something else does:
//
//	queue{requestedAt:…,abort:…}          the request literal of reloadManager.queueReloadRequest
//	setmeta(a,b)                           reloadManager.setPendingReloadMetadata(a, b)
//	setstaged(a,b){abort:…,overlap:…}      reloadManager.setPendingStagedHandoff(&stagedReloadHandoff{…}, a, b)
//	startret(abort,overlap)                the last two arguments of reloadManager.startControlPlaneRetirement
func (x *c20Extractor) flowFact(body []ast.Stmt) string {
	defs := map[string]string{}
	record := func(name, rhs string) {
		if old, ok := defs[name]; ok && old != rhs {
			defs[name] = "?redefined(" + name + ")"
			return
		}
		defs[name] = rhs
	}
	canon := func(e ast.Expr) string {
		if id, ok := c20Unparen(e).(*ast.Ident); ok {
			if d, ok := defs[id.Name]; ok {
				return d
			}
		}
		return strings.ReplaceAll(x.src(e), " ", "")
	}
	cnt := map[string]int{}
	litField := func(e ast.Expr, names ...string) []string {
		out := make([]string, len(names))
		for i := range out {
			out[i] = "?missing"
		}
		if u, ok := c20Unparen(e).(*ast.UnaryExpr); ok {
			e = u.X
		}
		if cl, ok := c20Unparen(e).(*ast.CompositeLit); ok {
			for _, el := range cl.Elts {
				if kv, ok := el.(*ast.KeyValueExpr); ok {
					for i, n := range names {
						if x.rawSrc(kv.Key) == n {
							out[i] = canon(kv.Value)
						}
					}
				}
			}
		}
		return out
	}
	for _, st := range body {
		ast.Inspect(st, func(n ast.Node) bool {
			switch v := n.(type) {
			case *ast.AssignStmt:
				if len(v.Lhs) == len(v.Rhs) {
					for i, l := range v.Lhs {
						id, ok := l.(*ast.Ident)
						if !ok || id.Name == "_" {
							continue
						}
						switch rv := c20Unparen(v.Rhs[i]).(type) {
						case *ast.SelectorExpr:
							record(id.Name, strings.ReplaceAll(x.src(rv), " ", ""))
						case *ast.CallExpr:
							if se, ok := rv.Fun.(*ast.SelectorExpr); ok && se.Sel.Name == "InheritDialerHealthFrom" {
								record(id.Name, "InheritDialerHealthFrom")
							} else if _, known := defs[id.Name]; known {
								record(id.Name, "?"+strings.ReplaceAll(x.src(rv), " ", ""))
							}
						default:
							if _, known := defs[id.Name]; known {
								record(id.Name, "?"+strings.ReplaceAll(x.src(v.Rhs[i]), " ", ""))
							}
						}
					}
				}
			case *ast.CallExpr:
				switch x.src(v.Fun) {
				case "reloadManager.queueReloadRequest":
					if len(v.Args) >= 1 {
						f := litField(v.Args[len(v.Args)-1], "requestedAt", "abortConnections")
						cnt["queue{requestedAt:"+f[0]+",abort:"+f[1]+"}"]++
					}
				case "reloadManager.setPendingReloadMetadata":
					if len(v.Args) == 2 {
						cnt["setmeta("+canon(v.Args[0])+","+canon(v.Args[1])+")"]++
					}
				case "reloadManager.setPendingStagedHandoff":
					if len(v.Args) == 3 {
						f := litField(v.Args[0], "abortConnections", "hasOverlap")
						cnt["setstaged("+canon(v.Args[1])+","+canon(v.Args[2])+"){abort:"+f[0]+",overlap:"+f[1]+"}"]++
					}
				case "reloadManager.startControlPlaneRetirement":
					if len(v.Args) == 6 {
						cnt["startret("+canon(v.Args[4])+","+canon(v.Args[5])+")"]++
					} else {
						cnt["startret(?arity)"]++
					}
				}
			}
			return true
		})
	}
	var ks []string
	for k, n := range cnt {
		ks = append(ks, fmt.Sprintf("%s*%d", k, n))
	}
	sort.Strings(ks)
	if len(ks) == 0 {
		return "none"
	}
	return strings.Join(ks, " ")
}

// c20ExtractCLI: the `dae reload` / `dae suspend` cobra closures (cmd/reload.go, cmd/suspend.go).
func c20ExtractCLI(repo string, r *c20Regions, x *c20Extractor) error {
	fset := x.fset
	fr, err := parser.ParseFile(fset, filepath.Join(repo, "cmd", "reload.go"), nil, 0)
	if err != nil {
		return err
	}
	fs, err := parser.ParseFile(fset, filepath.Join(repo, "cmd", "suspend.go"), nil, 0)
	if err != nil {
		return err
	}
	fact := func(text string) { r.facts = append(r.facts, c20Path{toks: strings.Fields(text), term: "fact"}) }
	runLit := func(f *ast.File, varName string) *ast.FuncLit {
		var out *ast.FuncLit
		ast.Inspect(f, func(n ast.Node) bool {
			vs, ok := n.(*ast.ValueSpec)
			if !ok || len(vs.Names) != 1 || vs.Names[0].Name != varName {
				return true
			}
			ast.Inspect(vs, func(m ast.Node) bool {
				if kv, ok := m.(*ast.KeyValueExpr); ok && x.rawSrc(kv.Key) == "Run" {
					if fl, ok := kv.Value.(*ast.FuncLit); ok {
						out = fl
					}
				}
				return true
			})
			return false
		})
		return out
	}
	hasCall := func(n ast.Node, fun string, argSub string) bool {
		found := false
		ast.Inspect(n, func(m ast.Node) bool {
			if c, ok := m.(*ast.CallExpr); ok && x.rawSrc(c.Fun) == fun {
				if argSub == "" || strings.Contains(x.rawSrc(c), argSub) {
					found = true
				}
			}
			return true
		})
		return found
	}
	// leaves of an &&-conjunction / ||-disjunction
	var leaves func(e ast.Expr, op token.Token) []ast.Expr
	leaves = func(e ast.Expr, op token.Token) []ast.Expr {
		if p, ok := e.(*ast.ParenExpr); ok {
			return leaves(p.X, op)
		}
		if b, ok := e.(*ast.BinaryExpr); ok && b.Op == op {
			return append(leaves(b.X, op), leaves(b.Y, op)...)
		}
		return []ast.Expr{e}
	}
	codeCmp := func(e ast.Expr, op token.Token) (string, bool) {
		b, ok := e.(*ast.BinaryExpr)
		if !ok || b.Op != op {
			return "", false
		}
		l, rr := x.rawSrc(b.X), x.rawSrc(b.Y)
		if strings.HasPrefix(l, "consts.") {
			l, rr = rr, l
		}
		if l == "code" && strings.HasPrefix(rr, "consts.Reload") {
			return strings.TrimPrefix(rr, "consts."), true
		}
		return "", false
	}
	rl := runLit(fr, "reloadCmd")
	if rl == nil {
		return fmt.Errorf("reloadCmd.Run not found")
	}
	r.cliAccept = map[string]bool{}
	posAbort, posCheck, posSend := -1, -1, -1
	for i, st := range rl.Body.List {
		if hasCall(st, "os.Create", "AbortFile") && posAbort < 0 {
			posAbort = i
		}
		if hasCall(st, "writeReloadSendAndSignal", "") && posSend < 0 {
			posSend = i
		}
		ifs, ok := st.(*ast.IfStmt)
		if !ok || posCheck >= 0 || posSend >= 0 {
			continue
		}
		var acc []string
		readable, unknown, isCheck := "0", "", false
		for _, lf := range leaves(ifs.Cond, token.LAND) {
			if c, ok := codeCmp(lf, token.NEQ); ok {
				acc = append(acc, c)
				isCheck = true
			} else if s := x.rawSrc(lf); s == "err == nil" || s == "nil == err" {
				readable = "1"
			} else {
				unknown += "?" + strings.ReplaceAll(s, " ", "")
			}
		}
		if !isCheck {
			continue
		}
		posCheck = i
		sort.Strings(acc)
		for _, a := range acc {
			r.cliAccept[a] = true
		}
		refuses := "falls-through"
		if n := len(ifs.Body.List); n > 0 {
			if _, ok := ifs.Body.List[n-1].(*ast.ReturnStmt); ok && !hasCall(ifs.Body, "writeReloadSendAndSignal", "") && !hasCall(ifs.Body, "syscall.Kill", "") {
				refuses = "returns-without-signal"
			}
		}
		fact("cli reload precheck signals-only-on=" + strings.Join(acc, ",") + " needs-readable=" + readable + unknown + " else=" + refuses)
	}
	order := "none"
	switch {
	case posAbort >= 0 && posCheck >= 0 && posAbort < posCheck:
		order = "before-precheck"
	case posAbort >= 0 && posCheck >= 0 && posAbort > posCheck && (posSend < 0 || posAbort < posSend):
		order = "after-precheck"
	case posAbort >= 0:
		order = "elsewhere"
	}
	fact("cli reload abortmarker=" + order)
	// the codes on which the client stops waiting
	for _, d := range fr.Decls {
		if fd, ok := d.(*ast.FuncDecl); ok && fd.Name.Name == "waitReloadCompletion" {
			ast.Inspect(fd.Body, func(n ast.Node) bool {
				if ifs, ok := n.(*ast.IfStmt); ok {
					var term []string
					for _, lf := range leaves(ifs.Cond, token.LOR) {
						if c, ok := codeCmp(lf, token.EQL); ok {
							term = append(term, c)
						}
					}
					if len(term) > 0 {
						sort.Strings(term)
						fact("cli reload stops-waiting-on=" + strings.Join(term, ","))
					}
				}
				return true
			})
		}
	}
	sl := runLit(fs, "suspendCmd")
	if sl == nil {
		return fmt.Errorf("suspendCmd.Run not found")
	}
	reads := hasCall(sl, "readSignalProgressFile", "") || hasCall(sl, "waitReloadCompletion", "")
	fact("cli suspend reads-progress=" + c20B(reads) + " abortmarker=" + c20B(hasCall(sl, "os.Create", "AbortFile")))
	return nil
}

// ---- structural recognition of guards (go/ast shapes, not source text)

func c20Unparen(e ast.Expr) ast.Expr {
	for {
		p, ok := e.(*ast.ParenExpr)
		if !ok {
			return e
		}
		e = p.X
	}
}

// atom describes a leaf condition: `<subject> <op> <object>` with the subject printed under the alias
// map; comparisons with nil / a constant are put subject-first.
type c20Atom struct {
	subj, op, obj string
}

func (x *c20Extractor) atomOf(e ast.Expr) (c20Atom, bool) {
	e = c20Unparen(e)
	switch v := e.(type) {
	case *ast.BinaryExpr:
		switch v.Op {
		case token.EQL, token.NEQ, token.GTR, token.LSS, token.GEQ, token.LEQ:
			l, r := x.src(c20Unparen(v.X)), x.src(c20Unparen(v.Y))
			op := v.Op
			isConst := func(s string) bool {
				return s == "nil" || s == "0" || strings.HasPrefix(s, "reloadReadyWait") || strings.HasPrefix(s, "consts.")
			}
			if isConst(l) && !isConst(r) {
				l, r = r, l
				switch op {
				case token.GTR:
					op = token.LSS
				case token.LSS:
					op = token.GTR
				case token.GEQ:
					op = token.LEQ
				case token.LEQ:
					op = token.GEQ
				}
			}
			return c20Atom{l, op.String(), r}, true
		}
	case *ast.CallExpr:
		return c20Atom{x.src(v), "call", ""}, true
	case *ast.Ident:
		return c20Atom{x.src(v), "ident", ""}, true
	}
	return c20Atom{}, false
}

// flatten an &&- or ||-tree into its leaves
func c20Leaves(e ast.Expr, op token.Token) []ast.Expr {
	e = c20Unparen(e)
	if b, ok := e.(*ast.BinaryExpr); ok && b.Op == op {
		return append(c20Leaves(b.X, op), c20Leaves(b.Y, op)...)
	}
	return []ast.Expr{e}
}

// guardOf recognises the conditions the path tables speak about by their shape.  pol = false means
// the condition is the negation of the named guard.
func (x *c20Extractor) guardOf(cond ast.Expr) (name string, pol bool) {
	cond = c20Unparen(cond)
	if u, ok := cond.(*ast.UnaryExpr); ok && u.Op == token.NOT {
		n, p := x.guardOf(u.X)
		return n, !p
	}
	eqnil := func(a c20Atom, subj string) (match, isNil bool) {
		if a.subj == subj && a.obj == "nil" && (a.op == "==" || a.op == "!=") {
			return true, a.op == "=="
		}
		return false, false
	}
	if a, ok := x.atomOf(cond); ok {
		switch {
		case a.op == "call" && a.subj == "reloadManager.reloading.Load()":
			return "reloading", true
		case a.subj == "waitResult" && a.obj == "reloadReadyWaitReady" && (a.op == "!=" || a.op == "=="):
			return "notready", a.op == "!="
		case a.subj == "logEvery" && a.obj == "0" && (a.op == ">" || a.op == "<="):
			return "logevery", a.op == ">"
		}
		for subj, g := range map[string]struct {
			name  string
			onNil bool
		}{"listener": {"lnil", true}, "handoff": {"staged", false}, "reloadErr": {"errnil", true},
			"m.lastRetirementCancel": {"hasprev", false}, "oldCancel": {"hasoldcancel", false}, "successor": {"hassucc", false}} {
			if m, isNil := eqnil(a, subj); m {
				return g.name, isNil == g.onNil
			}
		}
	}
	// conjunctions / disjunctions, leaves in any order
	atoms := func(op token.Token) (out []c20Atom, ok bool) {
		ls := c20Leaves(cond, op)
		if len(ls) < 2 {
			return nil, false
		}
		for _, l := range ls {
			a, k := x.atomOf(l)
			if !k {
				return nil, false
			}
			out = append(out, a)
		}
		return out, true
	}
	has := func(as []c20Atom, subj, op, obj string) bool {
		for _, a := range as {
			if a.subj == subj && a.op == op && a.obj == obj {
				return true
			}
		}
		return false
	}
	if as, ok := atoms(token.LAND); ok && len(as) == 2 {
		switch {
		case has(as, "waitResult", "==", "reloadReadyWaitSignal") && has(as, "termSig", "!=", "nil"):
			return "term", true
		case has(as, "reloadManager.currentPendingStagedHandoff()", "==", "nil"):
			for _, a := range as {
				if a.obj == "nil" && a.op == "!=" && !strings.Contains(a.subj, "(") {
					return "retire", true // `<old generation> != nil && no staged hand-off`
				}
			}
		}
	}
	if as, ok := atoms(token.LOR); ok && len(as) == 2 {
		switch {
		case has(as, "c", "==", "nil") && has(as, "c.ActiveSessionCount()", "==", "0"):
			return "nosession", true
		case has(as, "m", "==", "nil") && has(as, "oldControlPlane", "==", "nil"):
			return "nilplane", true
		}
	}
	return "", true
}

func c20RepoDir() string {
	if d := os.Getenv("VERIF_REPO"); d != "" {
		return d
	}
	return "/repo"
}
