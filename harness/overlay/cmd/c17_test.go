package cmd

// C17 correspondence harness, part 4: cmd.readConfig — the only production call site of the
// composition Merger.Merge → config.New.  The two stages are tied to the Lean model separately
// (harness/overlay/config/c17_test.go); here the REAL readConfig is compared with the composition of
// the two real stages on generated directory trees, so that a readConfig that became lenient
// (falling back to the entry file alone, ignoring an include error, decoding before merging …) is
// seen.  Op `e <n>`: impl answers "same" (model: "same") or "differs: …".

import (
	"fmt"
	"os"
	"path/filepath"
	"reflect"
	"sort"
	"strings"
	"testing"

	"github.com/daeuniverse/dae/config"
)

func c17ReadConfigCase(r *VRand, root string, stats *VStats) (entry string) {
	write := func(rel, content string, perm os.FileMode) {
		p := filepath.Join(root, rel)
		_ = os.MkdirAll(filepath.Dir(p), 0o750)
		_ = os.WriteFile(p, []byte(content), perm)
		_ = os.Chmod(p, perm)
	}
	pick := func(xs ...string) string { return xs[r.Intn(len(xs))] }
	global := "global {\n  log_level: " + pick("info", "debug") + "\n  tproxy_port: " + pick("12345", "1", "12345", "8080", "70000") + "\n}\n"
	routing := "routing {\n  pname(curl) -> direct\n  fallback: " + pick("direct", "must_direct", "direct", "direct", "f(x) && g(y)") + "\n}\n"
	dns := "dns {\n  upstream {\n    g: 'udp://8.8.8.8:53'\n  }\n}\n"
	var inc []string
	entryBody := ""
	// where the required sections live: in the entry, in an included file, nowhere
	switch r.Intn(5) {
	case 0:
		entryBody += global + routing
		stats.Inc("e2e.required-in-entry")
	case 1:
		entryBody += global
		write("conf.d/routing.dae", routing, 0o600)
		inc = append(inc, "conf.d/routing.dae")
		stats.Inc("e2e.required-split")
	case 2:
		write("conf.d/global.dae", global, 0o600)
		write("conf.d/routing.dae", routing+dns, 0o640)
		inc = append(inc, "conf.d/*.dae")
		stats.Inc("e2e.required-only-in-includes")
	case 3:
		entryBody += global // routing missing everywhere
		stats.Inc("e2e.required-missing")
	default:
		entryBody += global + routing + global // duplicate section in one file: merged by Merger, not "last wins"
		stats.Inc("e2e.duplicate-section")
	}
	// a troublesome include
	switch r.Intn(9) {
	case 0:
		inc = append(inc, "config.dae")
		stats.Inc("e2e.include.self")
	case 1:
		write("../outside.dae", "node { 'x' }\n", 0o600)
		inc = append(inc, "../outside.dae")
		stats.Inc("e2e.include.outside")
	case 2:
		write("notes.txt", "node { 'x' }\n", 0o600)
		inc = append(inc, "notes.txt")
		stats.Inc("e2e.include.not-dae")
	case 3:
		write("broken.dae", "node { \n", 0o600)
		inc = append(inc, "broken.dae")
		stats.Inc("e2e.include.syntax-error")
	case 4:
		write("open.dae", "node { 'x' }\n", 0o644)
		inc = append(inc, "open.dae")
		stats.Inc("e2e.include.too-open")
	case 5:
		write("extra.dae", "nosuch { a: b }\n", 0o600)
		inc = append(inc, "extra.dae")
		stats.Inc("e2e.include.unknown-section")
	case 6:
		write("extra.dae", "global {\n  nosuch_key: 1\n}\n", 0o600)
		inc = append(inc, "extra.dae")
		stats.Inc("e2e.include.unknown-key")
	case 7:
		write("extra.dae", "node {\n  n1: 'ss://x'\n}\nglobal {\n  dial_mode: ip\n}\n", 0o600)
		inc = append(inc, "extra.dae")
		stats.Inc("e2e.include.good")
	}
	if len(inc) > 0 {
		entryBody = "include {\n  '" + strings.Join(inc, "'\n  '") + "'\n}\n" + entryBody
	}
	entryPerm := os.FileMode(0o600)
	if r.Chance(0.05) {
		entryPerm = 0o666
		stats.Inc("e2e.entry-too-open")
	}
	write("config.dae", entryBody, entryPerm)
	return filepath.Join(root, "config.dae")
}

func TestVerifC17ReadConfig(t *testing.T) {
	r := NewVRand(VSeed()*15485863 + 3)
	stats := NewVStats()
	st := VOpenStream("c17e0")
	defer func() { st.Close(); stats.Write("c17e0") }()
	n := VEnvInt("VERIF_C17_E2E_N", 300)
	if VThorough() {
		n = VEnvInt("VERIF_C17_E2E_N", 3000)
	}
	base, err := os.MkdirTemp("", "c17e")
	if err != nil {
		t.Fatal(err)
	}
	if rb, err := filepath.EvalSymlinks(base); err == nil {
		base = rb
	}
	defer os.RemoveAll(base)
	for i := 0; i < n; i++ {
		root := filepath.Join(base, fmt.Sprintf("t%d", i), "etc")
		entry := c17ReadConfigCase(r, root, stats)
		out := VRecover(func() string {
			conf, includes, err := readConfig(entry)
			// the composition of the two stages, each tied to the model by the config harness
			sections, entries, merr := config.NewMerger(entry).Merge()
			var want *config.Config
			werr := merr
			if merr == nil {
				want, werr = config.New(sections)
			}
			switch {
			case (err == nil) != (werr == nil):
				return fmt.Sprintf("differs: readConfig err=%v, Merge;New err=%v", err, werr)
			case err != nil:
				stats.Inc("e2e.result.rejected")
				return "same"
			}
			stats.Inc("e2e.result.accepted")
			sort.Strings(includes)
			sort.Strings(entries)
			if !reflect.DeepEqual(includes, entries) {
				return fmt.Sprintf("differs: includes %v vs %v", includes, entries)
			}
			a, e1 := conf.Marshal(2)
			b, e2 := want.Marshal(2)
			if e1 != nil || e2 != nil || string(a) != string(b) {
				return "differs: typed configuration (Marshal) of readConfig and of Merge;New"
			}
			return "same"
		})
		st.Emit(fmt.Sprintf("e %d", i), out)
		_ = os.RemoveAll(filepath.Join(base, fmt.Sprintf("t%d", i)))
	}
}
