package cmd

// C20 — the old generation's retirement, executed for real under virtual time (testing/synctest):
// remainingReloadRetirementBudget, waitForControlPlaneDrain, retireControlPlaneConnections and
// startControlPlaneRetirement (with its goroutine, ControlPlane.MarkRetired/AbortConnections/Close
// on a ControlPlane that carries only the real drain tracker), then finishReloadSuccess and the
// release goroutine down to the final pending / suppression / progress state.  Every line is
// compared with the model's retirement clock (remBudget / drainTime / retireDoneAt and the `tick`
// bound of the transition system).

import (
	"context"
	"encoding/json"
	"fmt"
	"io"
	"os"
	"path/filepath"
	"strings"
	"sync"
	"sync/atomic"
	"syscall"
	"testing"
	"testing/synctest"
	"time"

	"github.com/daeuniverse/dae/common/consts"
	outbounddialer "github.com/daeuniverse/dae/component/outbound/dialer"
	"github.com/daeuniverse/dae/control"
	"github.com/sirupsen/logrus"
)

const c20Never = time.Duration(-1)

// virtual watchdog: a call that has not returned by then is reported as `never`
const c20Watchdog = 6 * time.Hour

func c20Dur(d time.Duration) string {
	if d == c20Never {
		return "never"
	}
	return fmt.Sprint(int64(d))
}

func c20DiscardLog() *logrus.Logger {
	l := logrus.New()
	l.SetOutput(io.Discard)
	return l
}

type c20RetCase struct {
	zero     bool
	age      time.Duration
	abort    bool
	overlap  bool
	ends     []time.Duration // one per live session; c20Never = never ends
	cancelAt time.Duration   // c20Never = the next reload never comes
	succ     bool            // the new generation is passed as successor (its retirement clean-up runs)
}

func (c c20RetCase) idleAt() time.Duration {
	var last time.Duration
	for _, e := range c.ends {
		if e == c20Never {
			return c20Never
		}
		if e > last {
			last = e
		}
	}
	return last
}

func c20OpenSessions(plane *control.ControlPlane, ends []time.Duration) (timers []*time.Timer) {
	for _, e := range ends {
		rel := plane.VerifC20OpenSession()
		if e != c20Never {
			timers = append(timers, time.AfterFunc(e, rel))
		}
	}
	return
}

// c20Drain runs the real waitForControlPlaneDrain in a synctest bubble.
func c20Drain(t *testing.T, maxWait time.Duration, ends []time.Duration, cancelAt time.Duration) (string, string) {
	idle := c20RetCase{ends: ends}.idleAt()
	if len(ends) == 0 {
		idle = c20Never
	}
	cancelS := "none"
	if cancelAt != c20Never {
		cancelS = c20Dur(cancelAt)
	}
	op := fmt.Sprintf("drain mw=%d n=%d idle=%s cancel=%s", int64(maxWait), len(ends), c20Dur(idle), cancelS)
	var res string
	synctest.Test(t, func(t *testing.T) {
		plane := control.VerifC20NewDrainPlane()
		timers := c20OpenSessions(plane, ends)
		ctx, cancel := context.WithCancel(context.Background())
		if cancelAt == 0 {
			cancel()
		} else if cancelAt != c20Never {
			timers = append(timers, time.AfterFunc(cancelAt, cancel))
		}
		start := time.Now()
		ch := make(chan controlPlaneDrainWaitResult, 1)
		go func() { ch <- waitForControlPlaneDrain(c20DiscardLog(), ctx, plane, maxWait, controlPlaneRetirementLogEvery) }()
		wd := time.NewTimer(c20Watchdog)
		select {
		case r := <-ch:
			res = fmt.Sprintf("at=%d res=%s", int64(time.Since(start)), []string{"idle", "canceled", "timeout"}[r])
		case <-wd.C:
			res = "at=never res=none"
			cancel()
			<-ch
		}
		wd.Stop()
		cancel()
		for _, tm := range timers {
			tm.Stop()
		}
	})
	return op, res
}

// c20Retire runs the real startControlPlaneRetirement → retirement goroutine → finishReloadSuccess →
// release goroutine chain in a synctest bubble.
func c20Retire(t *testing.T, dir string, c c20RetCase) (string, string) {
	idle := c.idleAt()
	if len(c.ends) == 0 {
		idle = c20Never
	}
	cancelS := "none"
	if c.cancelAt != c20Never {
		cancelS = c20Dur(c.cancelAt)
	}
	op := fmt.Sprintf("retire zero=%s age=%d abort=%s overlap=%s n=%d idle=%s cancel=%s succ=%s",
		c20B(c.zero), int64(c.age), c20B(c.abort), c20B(c.overlap), len(c.ends), c20Dur(idle), cancelS, c20B(c.succ))
	var res string
	progPath := filepath.Join(dir, "dae.retire.progress")
	synctest.Test(t, func(t *testing.T) {
		log := c20DiscardLog()
		m := newReloadManager(make(chan reloadRequest, 1), make(chan struct{}, 1), nil)
		outbounddialer.VerifC20ResetSuppression()
		// a reload is in progress and about to succeed
		m.reloadPending.Store(true)
		m.reloadActive.Store(true)
		beginReloadProxyFailureSuppression()
		_ = writeSignalProgressFile(progPath, consts.ReloadDone, "OK")
		if c.zero {
			m.setPendingReloadMetadata(time.Time{}, 1)
		} else {
			m.setPendingReloadMetadata(time.Now().Add(-c.age), 1)
		}
		var succBuf strings.Builder
		var successor *control.ControlPlane
		if c.succ {
			sl := logrus.New()
			sl.SetLevel(logrus.DebugLevel)
			sl.SetOutput(&succBuf)
			successor = control.VerifC20NewSuccessor(sl)
		}
		plane := control.VerifC20NewDrainPlane()
		timers := c20OpenSessions(plane, c.ends)
		oldCancelled := false
		start := time.Now()
		m.startControlPlaneRetirement(log, plane, successor, func() { oldCancelled = true }, c.abort, c.overlap)
		m.mu.Lock()
		done := m.pendingRetirementDone
		m.mu.Unlock()
		m.finishReloadSuccess()
		if c.cancelAt != c20Never {
			// the next reload's startControlPlaneRetirement cancels this retirement first
			timers = append(timers, time.AfterFunc(c.cancelAt, func() {
				m.startControlPlaneRetirement(log, control.VerifC20NewDrainPlane(), nil, nil, true, false)
			}))
		}
		wd := time.NewTimer(c20Watchdog)
		at := "never"
		select {
		case <-done:
			at = fmt.Sprint(int64(time.Since(start)))
		case <-wd.C:
		}
		wd.Stop()
		synctest.Wait()
		code, content, _ := readSignalProgressFile(progPath)
		_ = content
		cleaned := strings.Contains(succBuf.String(), "No stale datapath state remained after generation retirement")
		res = fmt.Sprintf("done=%s aborted=%s oldcancel=%s cleanup=%s final=p=%s a=%s s=%d f=%s", at, c20B(plane.VerifC20Aborted()),
			c20B(oldCancelled), c20B(cleaned), c20B(m.reloadPending.Load()), c20B(m.reloadActive.Load()),
			outbounddialer.VerifC20Suppression(), c20ProgClass(progPath))
		if at != "never" {
			// the mute window: still muted right after the release and until reloadFailureQuiesce has
			// passed, not a nanosecond longer (real proxyFailureSuppressedForReload, virtual time)
			m0 := outbounddialer.VerifC20SuppressedNow()
			time.Sleep(outbounddialer.VerifC20Quiesce() - 1)
			m1 := outbounddialer.VerifC20SuppressedNow()
			time.Sleep(1)
			m2 := outbounddialer.VerifC20SuppressedNow()
			res += fmt.Sprintf(" mute=%s,%s,%s", c20B(m0), c20B(m1), c20B(m2))
		}
		_ = code
		// let every goroutine of this bubble finish
		m.lastRetirementMu.Lock()
		cancel := m.lastRetirementCancel
		m.lastRetirementMu.Unlock()
		if cancel != nil {
			cancel()
		}
		for _, tm := range timers {
			tm.Stop()
		}
		<-done
		synctest.Wait()
	})
	return op, res
}

// c20ReadyWait runs the real waitReloadReadyOrSignal in a synctest bubble: the Serve goroutine
// reports at reportAt (c20Never = never), a termination signal arrives at termAt, and reload / suspend
// / hang-up signals are delivered at the given times in between.
func c20ReadyWait(t *testing.T, timeout, reportAt time.Duration, reportOk bool, termAt time.Duration, swallow []time.Duration) (string, string) {
	opt := func(d time.Duration) string {
		if d == c20Never {
			return "none"
		}
		return c20Dur(d)
	}
	op := fmt.Sprintf("rwait timeout=%d report=%s ok=%s term=%s nsig=%d", int64(timeout), opt(reportAt), c20B(reportOk), opt(termAt), len(swallow))
	var res string
	synctest.Test(t, func(t *testing.T) {
		sigs := make(chan os.Signal) // unbuffered: a send returns when the wait has taken the signal
		ready := make(chan bool, 1)
		stop := make(chan struct{})
		deliver := func(at time.Duration, sg os.Signal) *time.Timer {
			return time.AfterFunc(at, func() {
				select {
				case sigs <- sg:
				case <-stop:
				}
			})
		}
		var timers []*time.Timer
		for i, at := range swallow {
			timers = append(timers, deliver(at, []os.Signal{syscall.SIGUSR1, syscall.SIGUSR2, syscall.SIGHUP}[i%3]))
		}
		if termAt != c20Never {
			timers = append(timers, deliver(termAt, syscall.SIGTERM))
		}
		if reportAt != c20Never {
			timers = append(timers, time.AfterFunc(reportAt, func() { ready <- reportOk }))
		}
		start := time.Now()
		type out struct {
			r reloadReadyWaitResult
		}
		ch := make(chan out, 1)
		go func() {
			r, _ := waitReloadReadyOrSignal(c20DiscardLog(), sigs, ready, timeout)
			ch <- out{r}
		}()
		wd := time.NewTimer(c20Watchdog)
		select {
		case o := <-ch:
			res = fmt.Sprintf("at=%d res=%s", int64(time.Since(start)), []string{"ready", "failed", "signal", "timeout"}[o.r])
		case <-wd.C:
			res = "at=never res=none"
			ready <- false
			<-ch
		}
		wd.Stop()
		close(stop)
		for _, tm := range timers {
			tm.Stop()
		}
		synctest.Wait()
	})
	return op, res
}

// c20WitnessForeignBusy is the DIRECTED witness of the open finding c20-foreign-busy-ends-client-wait:
// `dae reload` A is accepted and its client polls with the real waitReloadCompletion; while A is being
// processed a `dae suspend` B is refused by the real tryQueueReloadRequest; what does A's client read?
func c20WitnessForeignBusy(t *testing.T, progPath string) map[string]string {
	out := map[string]string{}
	synctest.Test(t, func(t *testing.T) {
		log := c20DiscardLog()
		m := newReloadManager(make(chan reloadRequest, 1), make(chan struct{}, 1), nil)
		outbounddialer.VerifC20ResetSuppression()
		_ = writeSignalProgressFile(progPath, consts.ReloadDone, "")
		accepted := false
		// client A: the real helper writes ReloadSend and "signals"; the main loop takes the signal
		if err := writeReloadSendAndSignal(progPath, 1, func(int, syscall.Signal) error {
			accepted = m.queueReloadRequest(log, c20MkRequest(false, c20TakeAbort()))
			return nil
		}); err != nil {
			out["error"] = err.Error()
			return
		}
		out["a_accepted"] = c20B(accepted)
		type res struct {
			code    byte
			content string
			err     error
		}
		ch := make(chan res, 1)
		go func() {
			c, s, e := waitReloadCompletion(progPath, 500*time.Millisecond, 200*time.Millisecond, reloadProgressWaitTimeout)
			ch <- res{c, s, e}
		}()
		// worker picks A up
		<-m.reloadReqs
		m.reloadActive.Store(true)
		_ = setRunSignalProgress(consts.ReloadProcessing, "")
		time.Sleep(300 * time.Millisecond)
		// `dae suspend` B (no pre-check): refused
		out["b_accepted"] = c20B(m.queueReloadRequest(log, c20MkRequest(true, c20TakeAbort())))
		// A keeps being processed for a while
		select {
		case r := <-ch:
			out["a_client_code"] = string([]byte{r.code})
			out["a_client_msg"] = r.content
			out["pending_when_a_client_returned"] = c20B(m.reloadPending.Load())
			out["active_when_a_client_returned"] = c20B(m.reloadActive.Load())
		case <-time.After(5 * time.Second):
			out["a_client_code"] = "still-waiting"
		}
		// A succeeds
		_ = setRunSignalProgress(consts.ReloadDone, "OK")
		m.reloadActive.Store(false)
		clearReloadPending(&m.reloadPending)
		if _, ok := out["a_client_msg"]; !ok {
			r := <-ch
			out["a_client_final_code"] = string([]byte{r.code})
		}
		synctest.Wait()
	})
	return out
}


// ---------------------------------------------------------------- a whole reload under a clock
//
// c20Chain runs, in one synctest bubble and on ONE manager, the production sequence of one or two
// reloads with the real functions on the request's way: queueReloadRequest (the request carries
// requestedAt = time.Now() and the abort marker taken at dispatch) → d1 in the queue → the worker's
// receive + coalesceReloadRequest → d2 (config load, prepare) → setPendingReloadMetadata /
// setPendingStagedHandoff with the request's time → startControlPlaneRetirement (by the worker, or by
// the run-state handler after the ready wait d3 for a staged hand-off) → waitReloadReadyOrSignal →
// finishReloadSuccess → release goroutine; then a second signal `probe` after the hand-off finished
// (refused "still retiring" / accepted), which becomes the second reload.  The old generation has a
// live session that never ends unless the round says otherwise, so the retirement's completion time
// shows which request time the real code used for the budget.

type c20Round struct {
	staged     bool
	d1, d2, d3 time.Duration
	overlap    bool
	ends       []time.Duration
}

func (r c20Round) op(sfx string) string {
	idle := c20RetCase{ends: r.ends}.idleAt()
	if len(r.ends) == 0 {
		idle = c20Never
	}
	return fmt.Sprintf("s%s=%s d1%s=%d d2%s=%d d3%s=%d o%s=%s n%s=%d i%s=%s", sfx, c20B(r.staged), sfx, int64(r.d1), sfx, int64(r.d2),
		sfx, int64(r.d3), sfx, c20B(r.overlap), sfx, len(r.ends), sfx, c20Dur(idle))
}

type c20ChainRun struct {
	m      *reloadManager
	log    *logrus.Logger
	timers []*time.Timer
	dones  []<-chan struct{}
}

func (c *c20ChainRun) round(r c20Round) string { return c.roundWithHook(r, nil) }

// roundWithHook: the request is in the queue; afterFinish (if any) is called when finishReloadSuccess has
// returned; returns the observable outcome of the request's retirement (after it completed).
func (c *c20ChainRun) roundWithHook(r c20Round, afterFinish func()) string {
	m, log := c.m, c.log
	time.Sleep(r.d1)
	// worker: head of the loop body
	req := <-m.reloadReqs
	m.reloadActive.Store(true)
	req = m.coalesceReloadRequest(req)
	_ = setRunSignalProgress(consts.ReloadProcessing, "")
	m.setReloadError(nil)
	abort := c20RequestAbort(req)
	time.Sleep(r.d2)
	plane := control.VerifC20NewDrainPlane()
	var retStart time.Time
	doneAt := c20Never
	startRet := func(ab, ov bool) {
		c.timers = append(c.timers, c20OpenSessions(plane, r.ends)...)
		retStart = time.Now()
		m.startControlPlaneRetirement(log, plane, nil, func() {}, ab, ov)
		m.mu.Lock()
		done := m.pendingRetirementDone
		m.mu.Unlock()
		c.dones = append(c.dones, done)
		go func() {
			<-done
			doneAt = time.Since(retStart)
		}()
	}
	if r.staged {
		m.setPendingStagedHandoff(&stagedReloadHandoff{abortConnections: abort, hasOverlap: r.overlap}, req.requestedAt, req.requestedAtMono)
	} else {
		m.clearPendingStagedHandoff()
		m.clearPendingRetirement()
		m.setPendingReloadMetadata(req.requestedAt, req.requestedAtMono)
		startRet(abort, r.overlap)
	}
	m.beginHandoff()
	notifyRunStateChange(m.runStateChanges)
	// run-state handler
	<-m.runStateChanges
	m.reloading.Store(false)
	ready := make(chan bool, 1)
	c.timers = append(c.timers, time.AfterFunc(r.d3, func() { ready <- true }))
	if res, _ := waitReloadReadyOrSignal(log, make(chan os.Signal), ready, reloadReadyTimeout); res != reloadReadyWaitReady {
		if afterFinish != nil {
			afterFinish()
		}
		return fmt.Sprintf("wait=%d", res)
	}
	if handoff := m.currentPendingStagedHandoff(); handoff != nil {
		m.clearPendingStagedHandoff()
		startRet(handoff.abortConnections, handoff.hasOverlap)
	}
	age := retStart.Sub(req.requestedAt)
	_ = setRunSignalProgress(consts.ReloadDone, "OK")
	m.finishReloadSuccess()
	if afterFinish != nil {
		afterFinish()
	}
	// the retirement's own completion time (watchdog: `never`)
	wd := time.NewTimer(c20Watchdog)
	select {
	case <-c.dones[len(c.dones)-1]:
	case <-wd.C:
	}
	wd.Stop()
	synctest.Wait()
	return fmt.Sprintf("age=%d done=%s aborted=%s", int64(age), c20Dur(doneAt), c20B(plane.VerifC20Aborted()))
}

func c20Chain(t *testing.T, dir string, mark bool, a c20Round, probe time.Duration, b *c20Round) (string, string) {
	op := fmt.Sprintf("chain mark=%s %s probe=%d", c20B(mark), a.op("a"), int64(probe))
	if b != nil {
		op += " " + b.op("b")
	} else {
		op += " sb=x"
	}
	var res string
	progPath := filepath.Join(dir, "dae.retire.progress")
	synctest.Test(t, func(t *testing.T) {
		c := &c20ChainRun{m: newReloadManager(make(chan reloadRequest, 1), make(chan struct{}, 1), nil), log: c20DiscardLog()}
		m := c.m
		outbounddialer.VerifC20ResetSuppression()
		_ = os.Remove(AbortFile)
		_ = writeSignalProgressFile(progPath, consts.ReloadDone, "")
		defer func() {
			// let every goroutine of this bubble finish
			m.lastRetirementMu.Lock()
			cancel := m.lastRetirementCancel
			m.lastRetirementMu.Unlock()
			if cancel != nil {
				cancel()
			}
			for _, tm := range c.timers {
				tm.Stop()
			}
			for _, d := range c.dones {
				<-d
			}
			synctest.Wait()
			_ = os.Remove(AbortFile)
		}()
		if mark {
			if f, err := os.Create(AbortFile); err == nil {
				_ = f.Close()
			}
		}
		// dispatch of the main select (extracted: `takeabort queue:reload`, flow fact: requestedAt = time.Now())
		if !m.queueReloadRequest(c.log, c20MkRequest(false, c20TakeAbort())) {
			res = "first-request-refused"
			return
		}
		// the round's clock starts when finishReloadSuccess returns; the retirement may take longer than the probe
		type rr struct{ out string }
		ch := make(chan rr, 1)
		fin := make(chan struct{})
		go func() {
			// round() returns after the retirement completed; the probe must not wait for that
			ch <- rr{c.roundWithHook(a, func() { close(fin) })}
		}()
		<-fin
		time.Sleep(probe)
		synctest.Wait()
		pendingBefore := m.reloadPending.Load()
		acc := m.queueReloadRequest(c.log, c20MkRequest(true, c20TakeAbort()))
		pr := "lost"
		switch {
		case acc:
			pr = "accepted"
		case pendingBefore:
			pr = "refused:" + c20ProgClass(progPath)
		}
		if b == nil || !acc {
			fin1 := fmt.Sprintf("final=p=%s a=%s s=%d f=%s", c20B(m.reloadPending.Load()), c20B(m.reloadActive.Load()),
				outbounddialer.VerifC20Suppression(), c20ProgClass(progPath))
			outA := (<-ch).out
			if b != nil {
				res = outA + " probe=" + pr + " second=not-run"
			} else {
				res = outA + " probe=" + pr + " " + fin1
			}
			if acc {
				// drain the accepted request so that nothing is left behind
				<-m.reloadReqs
				clearReloadPending(&m.reloadPending)
			}
			return
		}
		outA := (<-ch).out
		outB := c.round(*b)
		time.Sleep(reloadTotalSwitchBudget + 1)
		synctest.Wait()
		res = outA + " probe=" + pr + " second: " + outB + fmt.Sprintf(" final=p=%s a=%s s=%d f=%s", c20B(m.reloadPending.Load()),
			c20B(m.reloadActive.Load()), outbounddialer.VerifC20Suppression(), c20ProgClass(progPath))
	})
	return op, res
}


// ---------------------------------------------------------------- the scope counter under real concurrency
//
// c20ScopeStress: the REAL BeginReloadProxyFailureSuppression / EndReloadProxyFailureSuppression, ungated, on
// several goroutines at once (model: lean/DaeVerif/C20/Scope.lean, theorem scope_counter_balanced: every End
// that returns has decremented exactly once, balanced scopes leave the counter at 0).  Two shapes:
//   balanced   G goroutines, each `Begin; End` in a tight loop; at every barrier the counter must be 0
//   overlap    the release of request N (End on one goroutine) races the accept of request N+1 (Begin on
//              another), then N+1 is released: after every round the counter must be 0
// The oracle is on the implementation (counter at a quiescent point); nothing depends on wall-clock time.
func c20ScopeStress(t *testing.T, st *VStats) map[string]any {
	out := map[string]any{}
	outbounddialer.VerifC20ResetSuppression()
	// long enough chunks that the goroutines really overlap (a 2500-iteration loop is over before the next goroutine starts)
	workers, chunks, iters := 8, 8, 10000
	if VThorough() {
		chunks = 32
	}
	bad := ""
	total := 0
	for c := 0; c < chunks && bad == ""; c++ {
		var wg sync.WaitGroup
		start := make(chan struct{})
		for w := 0; w < workers; w++ {
			wg.Add(1)
			go func() {
				defer wg.Done()
				<-start
				for i := 0; i < iters; i++ {
					outbounddialer.BeginReloadProxyFailureSuppression()
					outbounddialer.EndReloadProxyFailureSuppression()
				}
			}()
		}
		close(start)
		wg.Wait()
		total += workers * iters
		if n := outbounddialer.VerifC20Suppression(); n != 0 {
			bad = fmt.Sprintf("balanced: after %d Begin/End pairs on %d goroutines (barrier %d) the scope counter is %d, not 0", total, workers, c+1, n)
		}
	}
	out["balanced_pairs"] = total
	st.Add("scope_balanced_pairs", total)
	// overlap: a spinning release goroutine, the main loop accepts the next request
	rounds := 200000
	if VThorough() {
		rounds = 800000
	}
	done := 0
	if bad == "" {
		outbounddialer.VerifC20ResetSuppression()
		var phase, ack atomic.Int64
		stop := make(chan struct{})
		go func() { // the release goroutine of request N: clearReloadPending has stored pending=false, now Ends
			for i := int64(1); ; i++ {
				for phase.Load() != i {
					select {
					case <-stop:
						return
					default:
					}
				}
				outbounddialer.EndReloadProxyFailureSuppression()
				ack.Store(i)
			}
		}()
		deadline := time.Now().Add(120 * time.Second)
		timedOut := false
		outbounddialer.BeginReloadProxyFailureSuppression() // request 0 accepted
		for i := int64(1); i <= int64(rounds) && bad == ""; i++ {
			phase.Store(i)                                      // request i-1 is released …
			outbounddialer.BeginReloadProxyFailureSuppression() // … while request i is accepted
			for ack.Load() != i {
				if i%4096 == 0 && time.Now().After(deadline) {
					timedOut = true
					break
				}
			}
			if timedOut {
				break
			}
			// quiescent: exactly request i is in progress
			if n := outbounddialer.VerifC20Suppression(); n != 1 {
				bad = fmt.Sprintf("overlap: round %d: the End of request %d raced the Begin of request %d; both returned and the scope counter is %d, not 1 — a scope was lost, node-failure reports stay muted for good", i, i-1, i, n)
			}
			done = int(i)
		}
		close(stop)
		if timedOut {
			out["timeout"] = true
		}
		if bad == "" {
			outbounddialer.EndReloadProxyFailureSuppression()
			if n := outbounddialer.VerifC20Suppression(); n != 0 {
				bad = fmt.Sprintf("overlap: after %d rounds and the last release the scope counter is %d, not 0", done, n)
			}
		}
	}
	out["overlap_rounds"] = done
	st.Add("scope_overlap_rounds", done)
	out["violation"] = bad
	if bad == "" {
		// and the window: muted right after the last End, not after reloadFailureQuiesce (virtual time)
		synctest.Test(t, func(t *testing.T) {
			outbounddialer.VerifC20ResetSuppression()
			outbounddialer.BeginReloadProxyFailureSuppression()
			outbounddialer.EndReloadProxyFailureSuppression()
			m0 := outbounddialer.VerifC20SuppressedNow()
			time.Sleep(outbounddialer.VerifC20Quiesce())
			m1 := outbounddialer.VerifC20SuppressedNow()
			out["mute"] = fmt.Sprintf("%s,%s", c20B(m0), c20B(m1))
		})
	}
	outbounddialer.VerifC20ResetSuppression()
	return out
}

func c20RetireStream(t *testing.T, st *VStats, r *VRand) int {
	out := VOpenStream("c20ret")
	defer out.Close()
	dir := t.TempDir()
	progPath := filepath.Join(dir, "dae.retire.progress")
	// plain (ungated) hooks for this stream
	setRunSignalProgress = func(code byte, content string) error { return writeSignalProgressFile(progPath, code, content) }
	getRunSignalProgress = func() (byte, string, error) { return readSignalProgressFile(progPath) }
	beginReloadProxyFailureSuppression = outbounddialer.BeginReloadProxyFailureSuppression
	endReloadProxyFailureSuppression = outbounddialer.EndReloadProxyFailureSuppression

	if b, err := json.Marshal(c20WitnessForeignBusy(t, progPath)); err == nil {
		_ = os.WriteFile(filepath.Join(VOutDir(), "c20.witness.json"), b, 0o644)
	}
	t0 := time.Now()
	sc := c20ScopeStress(t, st)
	sc["wall_ms"] = time.Since(t0).Milliseconds()
	if b, err := json.Marshal(sc); err == nil {
		_ = os.WriteFile(filepath.Join(VOutDir(), "c20.scope.json"), b, 0o644)
	}
	total := reloadTotalSwitchBudget
	n := 0
	emit := func(op, res string) {
		out.Emit(op, res)
		n++
		st.Inc("ret_op:" + strings.SplitN(op, " ", 2)[0])
	}
	emit("const total", fmt.Sprintf("total=%d", int64(total)))
	emit("const quiesce", fmt.Sprintf("quiesce=%d", int64(outbounddialer.VerifC20Quiesce())))
	emit("const readywait", fmt.Sprintf("positive=%s ns=%d", c20B(reloadReadyTimeout > 0), int64(reloadReadyTimeout)))
	emit("const preparewait", fmt.Sprintf("positive=%s ns=%d", c20B(reloadPrepareTimeout > 0), int64(reloadPrepareTimeout)))

	// (a) remainingReloadRetirementBudget
	ages := []time.Duration{-3 * time.Second, 0, 1, 2 * time.Second, total - time.Second, total - 1, total, total + 1, total + 5*time.Second}
	for _, b := range []time.Duration{-time.Second, -1, 0, 1, 5 * time.Second, total, 3 * total} {
		emit(fmt.Sprintf("budget 1 0 %d", int64(b)), fmt.Sprintf("rem=%d", int64(remainingReloadRetirementBudget(time.Time{}, b))))
		for _, age := range ages {
			var rem time.Duration
			synctest.Test(t, func(t *testing.T) {
				rem = remainingReloadRetirementBudget(time.Now().Add(-age), b)
			})
			emit(fmt.Sprintf("budget 0 %d %d", int64(age), int64(b)), fmt.Sprintf("rem=%d", int64(rem)))
		}
	}

	// (a') waitReloadReadyOrSignal: every time-out x report x termination x consumed signals
	for _, tmo := range []time.Duration{-time.Second, 0, 1, time.Second, reloadReadyTimeout} {
		ref := tmo
		if ref < time.Millisecond {
			ref = 3 * time.Second
		}
		for _, rep := range []struct {
			at time.Duration
			ok bool
		}{{c20Never, true}, {ref / 2, true}, {ref / 2, false}, {ref, true}, {ref + time.Second, false}} {
			for _, term := range []time.Duration{c20Never, ref / 3, ref + 2*time.Second} {
				for _, sw := range [][]time.Duration{nil, {ref / 5, ref / 4, ref/4 + 1}} {
					if tmo <= 0 && rep.at == c20Never && term == c20Never {
						// without a timer nothing ever ends this wait: one line is enough
						if sw != nil {
							continue
						}
					}
					op, res := c20ReadyWait(t, tmo, rep.at, rep.ok, term, sw)
					emit(op, res)
				}
			}
		}
	}

	// (b) waitForControlPlaneDrain, every budget x session behaviour x cancellation
	for _, mw := range []time.Duration{-5 * time.Second, -1, 0, 1, time.Millisecond, 3 * time.Second, total, total + 7*time.Second} {
		ref := mw
		if ref < time.Millisecond {
			ref = 2 * time.Second // reference point for "before/at/after" when the budget is (almost) nothing
		}
		for _, ns := range []int{0, 1, 4} {
			for _, pat := range []string{"before", "at", "after", "never"} {
				if ns == 0 && pat != "never" {
					continue
				}
				ends := c20Ends(ns, pat, ref)
				for _, cpat := range []string{"none", "zero", "before", "at", "after"} {
					cancelAt := c20Never
					switch cpat {
					case "zero":
						cancelAt = 0
					case "before":
						cancelAt = ref / 3
					case "at":
						cancelAt = ref
					case "after":
						cancelAt = ref + 3*time.Second
					}
					op, res := c20Drain(t, mw, ends, cancelAt)
					emit(op, res)
					st.Inc("drain_budget:" + c20BudgetClass(mw, total))
					st.Inc("drain_sessions:" + pat)
				}
			}
		}
	}

	// (c) the whole retirement
	var cases []c20RetCase
	for _, zero := range []bool{false, true} {
		for _, age := range ages {
			if zero && age != 0 {
				continue
			}
			budget := total - age
			if zero {
				budget = total
			}
			if budget < 0 {
				budget = 0
			}
			ref := budget
			if ref < time.Millisecond {
				ref = 2 * time.Second
			}
			for _, ns := range []int{0, 1, 5} {
				for _, pat := range []string{"before", "at", "after", "never", "mixed"} {
					if ns == 0 && pat != "never" {
						continue
					}
					if ns == 1 && pat == "mixed" {
						continue
					}
					for _, fl := range []struct{ abort, overlap bool }{{false, true}, {true, true}, {false, false}} {
						for _, cpat := range []string{"none", "before", "at", "after"} {
							cancelAt := c20Never
							switch cpat {
							case "before":
								cancelAt = ref/3 + 1
							case "at":
								cancelAt = ref
							case "after":
								cancelAt = ref + 3*time.Second
							}
							cases = append(cases, c20RetCase{zero: zero, age: age, abort: fl.abort, overlap: fl.overlap,
								ends: c20Ends(ns, pat, ref), cancelAt: cancelAt, succ: len(cases)%2 == 1})
						}
					}
				}
			}
		}
	}
	stride := 1
	if !VThorough() {
		stride = 3
	}
	off := r.Intn(stride)
	for i, c := range cases {
		// the wedge scenario of the seeded regression is always run: budget used up, live session
		// that never ends, no cancellation
		must := !c.abort && c.overlap && c.cancelAt == c20Never && len(c.ends) > 0 && c.idleAt() == c20Never && !c.zero && c.age >= total
		if !must && (i+off)%stride != 0 {
			continue
		}
		op, res := c20Retire(t, dir, c)
		emit(op, res)
		b := total - c.age
		if c.zero {
			b = total
		}
		st.Inc("retire_budget:" + c20BudgetClass(b, total))
		if c.succ {
			st.Inc("retire_with_successor")
		}
		if strings.HasPrefix(res, "done=never") {
			st.Inc("RETIREMENT_NEVER_DONE")
		}
	}
	// random scenarios
	extra := 150
	if VThorough() {
		extra = 1500
	}
	for i := 0; i < extra; i++ {
		age := time.Duration(r.Intn(int(2*total/time.Millisecond))) * time.Millisecond
		ns := r.Intn(4)
		var ends []time.Duration
		for j := 0; j < ns; j++ {
			if r.Intn(5) == 0 {
				ends = append(ends, c20Never)
			} else {
				ends = append(ends, time.Duration(1+r.Intn(int(15*time.Second/time.Millisecond)))*time.Millisecond)
			}
		}
		cancelAt := c20Never
		if r.Intn(3) == 0 {
			cancelAt = time.Duration(1+r.Intn(int(12*time.Second/time.Millisecond))) * time.Millisecond
		}
		c := c20RetCase{zero: r.Intn(12) == 0, age: age, abort: r.Intn(6) == 0, overlap: r.Intn(6) != 0, ends: ends, cancelAt: cancelAt, succ: r.Intn(2) == 0}
		op, res := c20Retire(t, dir, c)
		emit(op, res)
		st.Inc("retire_random")
	}

	// (d) whole reloads under a clock (one or two on the same manager)
	nev := []time.Duration{c20Never}
	var chains []struct {
		mark  bool
		a     c20Round
		probe time.Duration
		b     *c20Round
	}
	addChain := func(mark bool, a c20Round, probe time.Duration, b *c20Round) {
		chains = append(chains, struct {
			mark  bool
			a     c20Round
			probe time.Duration
			b     *c20Round
		}{mark, a, probe, b})
	}
	expDone := func(r c20Round, mark bool) time.Duration {
		age := r.d1 + r.d2
		if r.staged {
			age += r.d3
		}
		d := total - age
		if d < 0 || mark || !r.overlap || len(r.ends) == 0 {
			d = 0
		}
		if idle := (c20RetCase{ends: r.ends}).idleAt(); len(r.ends) > 0 && idle != c20Never && idle < d {
			d = idle
		}
		return d
	}
	for _, staged := range []bool{false, true} {
		for _, d1 := range []time.Duration{0, time.Millisecond, 2 * time.Second} {
			for _, d2 := range []time.Duration{0, 3 * time.Second, total - 2*time.Second - time.Millisecond - 1, total - 2*time.Second, total + time.Second} {
				for _, d3 := range []time.Duration{0, 700 * time.Millisecond, 4*time.Second + 3} {
					a := c20Round{staged: staged, d1: d1, d2: d2, d3: d3, overlap: true, ends: nev}
					e := expDone(a, false)
					// the retirement must not complete exactly when the ready wait ends / the probe comes
					if !staged && e == d3 {
						continue
					}
					rest := e
					if !staged {
						rest = e - d3
					}
					if rest > 2*time.Millisecond {
						addChain(false, a, rest/2, nil)
					}
					if rest < 0 {
						rest = 0
					}
					b := c20Round{staged: !staged, d1: d3, d2: d1 + time.Second, d3: 100 * time.Millisecond, overlap: true, ends: nev}
					addChain(false, a, rest+time.Second, &b)
				}
			}
		}
	}
	// abort marker, no overlap, sessions that end early, no session
	for _, staged := range []bool{false, true} {
		base := c20Round{staged: staged, d1: time.Millisecond, d2: 2 * time.Second, d3: 300 * time.Millisecond, overlap: true, ends: nev}
		b := c20Round{staged: staged, d1: 5, d2: time.Second, d3: 7, overlap: true, ends: nev}
		addChain(true, base, time.Second, &b) // -a: the old generation is aborted at once; the next request's is not
		x := base
		x.overlap = false
		addChain(false, x, time.Second, nil)
		x = base
		x.ends = []time.Duration{time.Second, 2500 * time.Millisecond}
		addChain(false, x, time.Second, nil)
		addChain(false, x, 4*time.Second, &b)
		x = base
		x.ends = nil
		addChain(false, x, time.Second, &b)
	}
	cstride := 1
	if !VThorough() {
		cstride = 2
	}
	coff := r.Intn(cstride)
	for i, c := range chains {
		if c.mark || c.b == nil || (i+coff)%cstride == 0 {
			op, res := c20Chain(t, dir, c.mark, c.a, c.probe, c.b)
			emit(op, res)
			if c.b != nil {
				st.Inc("chain_two_reloads")
			}
			if c.a.staged {
				st.Inc("chain_staged")
			}
			if strings.Contains(res, "probe=refused:busyRetiring") {
				st.Inc("chain_probe_refused_retiring")
			}
			if strings.Contains(res, "probe=accepted") {
				st.Inc("chain_probe_accepted")
			}
			if c.mark {
				st.Inc("chain_abort_marker")
			}
		}
	}
	// random chains
	nrc := 40
	if VThorough() {
		nrc = 400
	}
	for i := 0; i < nrc; i++ {
		rd := func(max time.Duration) time.Duration { return time.Duration(r.Intn(int(max/time.Millisecond))) * time.Millisecond }
		mk := func() c20Round {
			x := c20Round{staged: r.Intn(2) == 0, d1: rd(2 * time.Second), d2: rd(12 * time.Second), d3: rd(5*time.Second) + 1, overlap: r.Intn(5) != 0, ends: nev}
			switch r.Intn(5) {
			case 0:
				x.ends = nil
			case 1:
				x.ends = []time.Duration{rd(12*time.Second) + 3}
			}
			return x
		}
		a := mk()
		mark := r.Intn(6) == 0
		e := expDone(a, mark)
		rest := e
		if !a.staged {
			rest = e - a.d3
		}
		if rest < 0 {
			rest = 0
		}
		var probe time.Duration
		var b *c20Round
		if r.Intn(2) == 0 && rest > 4*time.Millisecond {
			probe = rest/2 + 1
		} else {
			probe = rest + time.Duration(1+r.Intn(3000))*time.Millisecond + 7
			bb := mk()
			b = &bb
		}
		if !a.staged && (e == a.d3) {
			continue
		}
		op, res := c20Chain(t, dir, mark, a, probe, b)
		emit(op, res)
		st.Inc("chain_random")
	}
	return n
}

func c20BudgetClass(b, total time.Duration) string {
	switch {
	case b < 0:
		return "negative"
	case b == 0:
		return "zero"
	case b == 1:
		return "1ns"
	case b < total:
		return "small"
	case b == total:
		return "total"
	}
	return "larger"
}

// c20Ends: end times of ns live sessions relative to the reference point (the budget).
func c20Ends(ns int, pat string, ref time.Duration) []time.Duration {
	var ends []time.Duration
	for i := 0; i < ns; i++ {
		last := i == ns-1
		switch pat {
		case "before":
			ends = append(ends, ref/2-time.Duration(i))
		case "at":
			if last {
				ends = append(ends, ref)
			} else {
				ends = append(ends, ref/2)
			}
		case "after":
			if last {
				ends = append(ends, ref+time.Second)
			} else {
				ends = append(ends, ref/2)
			}
		case "never":
			ends = append(ends, c20Never)
		case "mixed":
			if last {
				ends = append(ends, c20Never)
			} else {
				ends = append(ends, ref/2)
			}
		}
	}
	for i := range ends {
		if ends[i] != c20Never && ends[i] < 1 {
			ends[i] = 1
		}
	}
	return ends
}
