package main

// C19 correspondence harness for cmd/generators/gen_ebpf_sync: runs the REAL writeGo / writeHeader on
// (a) the checked-in spec — output must be byte-identical to the checked-in generated files — and
// (b) generated specs, reads the constants back out of the two generated files (Go: go/types constant
// evaluation; C header: the text) and prints them in the canonical form the Lean driver prints for
// `genGo spec` / `genC spec`.

import (
	"bytes"
	"encoding/json"
	"fmt"
	"go/ast"
	"go/constant"
	"go/parser"
	"go/token"
	"go/types"
	"os"
	"path/filepath"
	"regexp"
	"sort"
	"strings"
	"testing"
)

type c19kv struct {
	name string
	val  string
	pos  token.Pos
}

func c19Join(kvs []c19kv) string {
	p := make([]string, len(kvs))
	for i, kv := range kvs {
		p[i] = kv.name + "=" + kv.val
	}
	return strings.Join(p, ",")
}

// constants of the generated Go file grouped by their declared type, in source order; the derived
// constants the generator always appends (UserDefinedMin/Max, TCP_UDP alias) are not spec entries.
func c19ReadGo(path string) (string, error) {
	fset := token.NewFileSet()
	f, err := parser.ParseFile(fset, path, nil, 0)
	if err != nil {
		return "", err
	}
	info := &types.Info{Defs: map[*ast.Ident]types.Object{}}
	var firstErr error
	conf := types.Config{Error: func(e error) {
		if firstErr == nil {
			firstErr = e
		}
	}}
	if _, err := conf.Check("consts", fset, []*ast.File{f}, info); err != nil && firstErr == nil {
		firstErr = err
	}
	if firstErr != nil {
		return "", firstErr
	}
	groups := map[string][]c19kv{}
	for id, obj := range info.Defs {
		c, ok := obj.(*types.Const)
		if !ok {
			continue
		}
		switch id.Name {
		case "OutboundUserDefinedMin", "OutboundUserDefinedMax", "L4ProtoType_TCP_UDP":
			continue
		}
		tn := ""
		if n, ok := c.Type().(*types.Named); ok {
			tn = n.Obj().Name()
		}
		groups[tn] = append(groups[tn], c19kv{id.Name, constant.ToInt(c.Val()).ExactString(), id.Pos()})
	}
	for _, g := range groups {
		sort.Slice(g, func(i, j int) bool { return g[i].pos < g[j].pos })
	}
	return fmt.Sprintf("mt[%s] ob[%s] l4[%s] ip[%s]", c19Join(groups["MatchType"]), c19Join(groups["OutboundIndex"]),
		c19Join(groups["L4ProtoType"]), c19Join(groups["IpVersionType"])), nil
}

var c19DefineRe = regexp.MustCompile(`(?m)^#define (OUTBOUND_\w*) (0x[0-9A-Fa-f]+)$`)
var c19EnumRe = regexp.MustCompile(`(?s)enum (?:__attribute__\(\(packed\)\) )?(\w+) \{\n(.*?)\};`)
var c19EnumLineRe = regexp.MustCompile(`(?m)^\t(\w+) = (\d+),$`)

func c19ReadHeader(path string) (string, error) {
	b, err := os.ReadFile(path)
	if err != nil {
		return "", err
	}
	src := string(b)
	var ob []c19kv
	for _, m := range c19DefineRe.FindAllStringSubmatch(src, -1) {
		var v uint64
		fmt.Sscanf(m[2], "0x%X", &v)
		ob = append(ob, c19kv{name: m[1], val: fmt.Sprint(v)})
	}
	enums := map[string][]c19kv{}
	for _, m := range c19EnumRe.FindAllStringSubmatch(src, -1) {
		for _, l := range c19EnumLineRe.FindAllStringSubmatch(m[2], -1) {
			enums[m[1]] = append(enums[m[1]], c19kv{name: l[1], val: l[2]})
		}
	}
	return fmt.Sprintf("mt[%s] ob[%s] l4[%s] ip[%s]", c19Join(enums["MatchType"]), c19Join(ob), c19Join(enums["L4ProtoType"]),
		c19Join(enums["IpVersionType"])), nil
}

func c19SpecOp(s syncSpec) string {
	nv := func(l []namedValue) string {
		p := make([]string, len(l))
		for i, x := range l {
			p[i] = fmt.Sprintf("%s:%d", x.Name, x.Value)
		}
		return strings.Join(p, ",")
	}
	return fmt.Sprintf("gen mt=%s l4=%s ip=%s ob=%s", strings.Join(s.MatchTypes, ","), nv(s.L4Proto), nv(s.IpVersion), nv(s.Outbound))
}

func c19Run(dir string, s syncSpec) string {
	goOut, hOut := filepath.Join(dir, "g.go"), filepath.Join(dir, "g.h")
	if err := writeGo(goOut, s); err != nil {
		return "go-error:" + err.Error()
	}
	if err := writeHeader(hOut, s); err != nil {
		return "h-error:" + err.Error()
	}
	g, err := c19ReadGo(goOut)
	if err != nil {
		return "go-unreadable:" + err.Error()
	}
	h, err := c19ReadHeader(hOut)
	if err != nil {
		return "h-unreadable:" + err.Error()
	}
	return "go: " + g + " | c: " + h
}

const c19Alpha = "ABCDEFGHIJKLMNOPQRSTUVWXYZabcdefghijklmnopqrstuvwxyz0123456789"

func c19Ident(r *VRand, upper, underscores bool, used map[string]bool) string {
	for {
		n := 1 + r.Intn(8)
		var b strings.Builder
		for i := 0; i < n; i++ {
			if underscores && r.Chance(0.2) {
				b.WriteByte('_')
				continue
			}
			c := c19Alpha[r.Intn(len(c19Alpha))]
			if upper && c >= 'a' && c <= 'z' {
				c -= 32
			}
			b.WriteByte(c)
		}
		s := b.String()
		if !used[s] && strings.Trim(s, "_") != "" {
			used[s] = true
			return s
		}
	}
}

func TestVerifC19Gen(t *testing.T) {
	r := NewVRand(VSeed())
	stats := NewVStats()
	stream := VOpenStream("c19gen")
	defer stream.Close()
	dir := t.TempDir()
	root := os.Getenv("VERIF_REPO")
	if root == "" {
		root = "/repo"
	}

	// (a) the checked-in spec regenerates the checked-in files byte for byte
	raw, err := os.ReadFile(filepath.Join(root, "common", "consts", "ebpf_sync_spec.json"))
	if err != nil {
		t.Fatal(err)
	}
	var spec syncSpec
	if err := json.Unmarshal(raw, &spec); err != nil {
		t.Fatal(err)
	}
	same := func(gen, intree string) string {
		a, e1 := os.ReadFile(gen)
		b, e2 := os.ReadFile(intree)
		if e1 != nil || e2 != nil {
			return "unreadable"
		}
		if bytes.Equal(a, b) {
			return "same"
		}
		return "DIFFERENT"
	}
	out := c19Run(dir, spec)
	stream.Emit("regen", fmt.Sprintf("go=%s c=%s", same(filepath.Join(dir, "g.go"), filepath.Join(root, "common", "consts", "ebpf_generated.go")),
		same(filepath.Join(dir, "g.h"), filepath.Join(root, "control", "kern", "ebpf_sync_defs.h"))))
	stream.Emit(c19SpecOp(spec), out)
	stats.Sample(c19SpecOp(spec))

	// (b) generated specs
	n := 150
	if VThorough() {
		n = 1500
	}
	special := []string{"DIRECT", "BLOCK", "MUST_RULES", "CONTROL_PLANE_ROUTING", "LOGICAL_OR", "LOGICAL_AND", "LOGICAL_MASK"}
	for i := 0; i < n; i++ {
		var s syncSpec
		used := map[string]bool{}
		for k := 1 + r.Intn(20); k > 0; k-- {
			s.MatchTypes = append(s.MatchTypes, c19Ident(r, false, true, used))
		}
		// l4_proto: "X" must exist (the generator always emits the alias L4ProtoType_TCP_UDP = L4ProtoType_X)
		used = map[string]bool{"X": true}
		l4names := []string{"X"}
		for k := r.Intn(4); k > 0; k-- {
			l4names = append(l4names, c19Ident(r, true, false, used))
		}
		for a := len(l4names) - 1; a > 0; a-- {
			b := r.Intn(a + 1)
			l4names[a], l4names[b] = l4names[b], l4names[a]
		}
		for _, nme := range l4names {
			s.L4Proto = append(s.L4Proto, namedValue{nme, uint32(r.Intn(256))})
		}
		used = map[string]bool{}
		for k := 1 + r.Intn(4); k > 0; k-- {
			s.IpVersion = append(s.IpVersion, namedValue{c19Ident(r, false, false, used), uint32(r.Intn(256))})
		}
		// outbound: BLOCK and MUST_RULES must exist (the generator derives UserDefinedMin/Max from them)
		used = map[string]bool{}
		names := []string{"BLOCK", "MUST_RULES"}
		used["BLOCK"], used["MUST_RULES"] = true, true
		for _, sp := range special {
			if !used[sp] && r.Chance(0.5) {
				names = append(names, sp)
				used[sp] = true
				stats.Inc("outbound.special")
			}
		}
		goNames := map[string]bool{}
		for _, nme := range names {
			goNames[goOutboundName(nme)] = true
		}
		for k := r.Intn(5); k > 0; k-- {
			nme := c19Ident(r, true, true, used)
			if gn := goOutboundName(nme); goNames[gn] || gn == "OutboundUserDefinedMin" || gn == "OutboundUserDefinedMax" {
				continue // two C names that camel-case to the same Go name do not compile; not a spec anyone can use
			}
			goNames[goOutboundName(nme)] = true
			names = append(names, nme)
			stats.Inc("outbound.custom")
			if strings.Contains(nme, "__") || strings.HasPrefix(nme, "_") || strings.HasSuffix(nme, "_") {
				stats.Inc("outbound.custom.odd-underscores")
			}
		}
		// shuffle
		for a := len(names) - 1; a > 0; a-- {
			b := r.Intn(a + 1)
			names[a], names[b] = names[b], names[a]
		}
		for _, nme := range names {
			v := uint32(r.Intn(256))
			if nme == "BLOCK" {
				v = uint32(r.Intn(255)) // BLOCK+1 must fit uint8
			}
			if nme == "MUST_RULES" {
				v = uint32(1 + r.Intn(255))
			}
			s.Outbound = append(s.Outbound, namedValue{nme, v})
		}
		stats.Inc("spec")
		stats.Add("spec.match_types", len(s.MatchTypes))
		stream.Emit(c19SpecOp(s), VRecover(func() string { return c19Run(dir, s) }))
	}
	stats.Write("c19gen")
}
