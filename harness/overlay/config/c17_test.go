package config

// C17 correspondence harness, part 2: config.New (reflection-driven SectionParser / ParamParser,
// defaults, required / unknown sections and keys, patches), config.Merger (include merging over a
// real temporary directory tree) and the lexical path functions behind EnsureFileInSubDir, against
// the Lean model (driver c17drv).
//
//   classes …                                   lexer table (the model parses the texts itself)
//   schema K … T … P … O …                      struct schema PROBED by reflection from config.Config
//   c <textHex> <n> (<kind>:<valHex>:<res|!>)*  config.New on Parse(text); oracle = FuzzyDecode answers
//   path <aHex> <bHex>                          Clean / Join / Dir / IsAbs / EnsureFileInSubDir
//   m <entryHex> F <n> (<pathHex> <d|f> <perm> <contentHex>)* G <n> (<patHex> <k|-1> <matchHex>*)*
//                                               Merger.Merge over the described tree

import (
	"encoding/hex"
	"fmt"
	"net/netip"
	"os"
	"path/filepath"
	"reflect"
	"sort"
	"strconv"
	"strings"
	"testing"
	"time"
	"unsafe"

	"golang.org/x/sys/unix"

	"github.com/daeuniverse/dae/common"
	"github.com/daeuniverse/dae/pkg/config_parser"
)

func c17H(s string) string {
	if s == "" {
		return "-"
	}
	return hex.EncodeToString([]byte(s))
}

// ---------------------------------------------------------------- schema probe

type c17Field struct {
	key        string
	kind       string // s<k> l i f t<sid> T<sid>
	dflt       *string
	req, rep   bool
	goType     reflect.Type
	structType reflect.Type
}
type c17Struct struct {
	typ      reflect.Type
	fields   []c17Field
	hasRules bool
}
type c17Schema struct {
	kinds   []reflect.Type // scalar kinds; 0 = string, 1 = bool
	structs []*c17Struct
	specs   []c17Field // name, kind, req
}

func (s *c17Schema) kindID(t reflect.Type) int {
	for i, k := range s.kinds {
		if k == t {
			return i
		}
	}
	s.kinds = append(s.kinds, t)
	return len(s.kinds) - 1
}

func (s *c17Schema) structID(t reflect.Type) int {
	for i, st := range s.structs {
		if st.typ == t {
			return i
		}
	}
	st := &c17Struct{typ: t}
	s.structs = append(s.structs, st)
	id := len(s.structs) - 1
	for i := 0; i < t.NumField(); i++ {
		sf := t.Field(i)
		key := sf.Tag.Get("mapstructure")
		if key == "_" {
			if sf.Name == "Rules" && sf.Type == reflect.TypeFor[[]*config_parser.RoutingRule]() {
				st.hasRules = true
			}
			continue
		}
		if key == "so_mark_from_dae_set" {
			continue
		}
		f := c17Field{key: key, goType: sf.Type}
		f.kind = s.fieldKind(sf.Type, &f)
		if d, ok := sf.Tag.Lookup("default"); ok {
			f.dflt = &d
		}
		_, f.req = sf.Tag.Lookup("required")
		_, f.rep = sf.Tag.Lookup("repeatable")
		s.structs[id].fields = append(s.structs[id].fields, f)
	}
	return id
}

func (s *c17Schema) fieldKind(t reflect.Type, f *c17Field) string {
	switch {
	case t.Kind() == reflect.Interface:
		return "i"
	case t.Kind() == reflect.Slice && t.Elem().Kind() == reflect.String:
		return "l"
	case t == reflect.TypeFor[[][]*config_parser.Function]():
		return "f"
	case t.Kind() == reflect.Slice && t.Elem().Kind() == reflect.Struct:
		f.structType = t.Elem()
		return "T" + strconv.Itoa(s.structID(t.Elem()))
	case t.Kind() == reflect.Struct:
		f.structType = t
		return "t" + strconv.Itoa(s.structID(t))
	default:
		return "s" + strconv.Itoa(s.kindID(t))
	}
}

func c17ProbeSchema() *c17Schema {
	s := &c17Schema{kinds: []reflect.Type{reflect.TypeFor[string](), reflect.TypeFor[bool]()}}
	ct := reflect.TypeFor[Config]()
	for _, spec := range configSectionSpecs {
		for i := 0; i < ct.NumField(); i++ {
			sf := ct.Field(i)
			if sf.Tag.Get("mapstructure") == spec.name {
				f := c17Field{key: spec.name, req: spec.required, goType: sf.Type}
				f.kind = s.fieldKind(sf.Type, &f)
				s.specs = append(s.specs, f)
			}
		}
	}
	return s
}

// the decode oracle: the REAL common.FuzzyDecode into a fresh value of the field's Go type
func (s *c17Schema) oracle(kind int, val string) (string, bool) {
	switch kind {
	case 100:
		_, err := BootstrapResolvers(&Global{BootstrapResolver: val})
		return "ok", err == nil
	case 101:
		return "ok", common.IsValidHttpMethod(val)
	}
	p := reflect.New(s.kinds[kind])
	if !common.FuzzyDecode(p.Interface(), val) {
		return "", false
	}
	return fmt.Sprint(p.Elem().Interface()), true
}

// the answers the MODEL is given for the two kinds it does not specify itself come from the Go
// STANDARD LIBRARY (time.ParseDuration; TrimSpace + netip.ParseAddrPort), not from the code under
// test: a FuzzyDecode / BootstrapResolvers that became lenient or strict is then a difference.
func (s *c17Schema) stdOracle(kind int, val string) (res string, ok bool, independent bool) {
	switch {
	case kind == 100:
		raw := strings.TrimSpace(val)
		if raw == "" {
			return "ok", true, true
		}
		_, err := netip.ParseAddrPort(raw)
		return "ok", err == nil, true
	case kind < len(s.kinds) && s.kinds[kind] == reflect.TypeFor[time.Duration]():
		d, err := time.ParseDuration(val)
		if err != nil {
			return "", false, true
		}
		return fmt.Sprint(d), true, true
	}
	res, ok = s.oracle(kind, val)
	return res, ok, false
}

func (s *c17Schema) oracleEntry(kind int, val string) string {
	res, ok, _ := s.stdOracle(kind, val)
	if !ok {
		return fmt.Sprintf("%d:%s:!", kind, c17H(val))
	}
	return fmt.Sprintf("%d:%s:%s", kind, c17H(val), c17H(res))
}

func c17B(b bool) string {
	if b {
		return "1"
	}
	return "0"
}

func c17SpecTag(k reflect.Type) string {
	switch {
	case k == reflect.TypeFor[time.Duration]():
		return "o"
	case k.Kind() == reflect.String:
		return "s"
	case k.Kind() == reflect.Bool:
		return "b"
	case k.Kind() >= reflect.Int && k.Kind() <= reflect.Int64:
		return fmt.Sprintf("i%d", k.Bits())
	case k.Kind() >= reflect.Uint && k.Kind() <= reflect.Uint64:
		return fmt.Sprintf("u%d", k.Bits())
	}
	return "o"
}

func (s *c17Schema) line() string {
	var w []string
	w = append(w, "schema", "K", strconv.Itoa(len(s.kinds)))
	for _, k := range s.kinds {
		// zero value, and a SPECIFICATION tag for the kinds the model decodes itself instead of asking the
		// function under test: s = string identity, b = the bool word table, i<bits>/u<bits> = Go integer
		// literal syntax (base 0) ranged to the FIELD's type; o = oracle (durations)
		spec := c17SpecTag(k)
		w = append(w, c17H(fmt.Sprint(reflect.Zero(k).Interface())), spec)
	}
	w = append(w, "T", strconv.Itoa(len(s.structs)))
	var oracle []string
	for _, st := range s.structs {
		w = append(w, c17B(st.hasRules), strconv.Itoa(len(st.fields)))
		for _, f := range st.fields {
			d := "!"
			if f.dflt != nil {
				d = c17H(*f.dflt)
				if f.kind[0] == 's' {
					k, _ := strconv.Atoi(f.kind[1:])
					oracle = append(oracle, s.oracleEntry(k, *f.dflt), s.oracleEntry(100, *f.dflt), s.oracleEntry(101, *f.dflt))
				}
			}
			w = append(w, c17H(f.key), f.kind, d, c17B(f.req), c17B(f.rep))
		}
	}
	w = append(w, "P", strconv.Itoa(len(s.specs)))
	for _, sp := range s.specs {
		w = append(w, c17H(sp.key), c17B(sp.req), sp.kind)
	}
	w = append(w, "O", strconv.Itoa(len(oracle)))
	w = append(w, oracle...)
	return strings.Join(w, " ")
}

// ---------------------------------------------------------------- canonical print of the typed config

func c17Leaves(prefix string, v reflect.Value, out *[]string) {
	t := v.Type()
	sub := func(k string) string {
		if prefix == "" {
			return k
		}
		return prefix + "." + k
	}
	for i := 0; i < t.NumField(); i++ {
		sf, fv := t.Field(i), v.Field(i)
		key := sf.Tag.Get("mapstructure")
		if key == "_" {
			switch sf.Name {
			case "Name":
				*out = append(*out, sub("#name")+"=s:"+c17Esc(fv.String()))
			case "Rules":
				rules := fv.Interface().([]*config_parser.RoutingRule)
				if len(rules) > 0 {
					rs := make([]string, len(rules))
					for j, r := range rules {
						rs[j] = c17Fns(r.AndFunctions) + ">" + c17Fn(&r.Outbound)
					}
					*out = append(*out, sub("#rules")+"=r:"+strings.Join(rs, "|"))
				}
			}
			continue
		}
		p := sub(key)
		switch {
		case fv.Kind() == reflect.Interface:
			if fv.IsNil() {
				continue
			}
			switch x := fv.Interface().(type) {
			case string:
				*out = append(*out, p+"=i:"+c17Esc(x))
			case []*config_parser.Function:
				*out = append(*out, p+"=f:"+c17Fns(x))
			case *config_parser.Function:
				*out = append(*out, p+"=F:"+c17Fn(x))
			default:
				*out = append(*out, p+"=?:"+fmt.Sprintf("%T", x))
			}
		case fv.Kind() == reflect.Slice && fv.Type().Elem().Kind() == reflect.String:
			if fv.Len() == 0 {
				continue
			}
			el := make([]string, fv.Len())
			for j := range el {
				el[j] = c17Esc(fv.Index(j).String())
			}
			*out = append(*out, fmt.Sprintf("%s=l:%d:%s", p, len(el), strings.Join(el, ",")))
		case fv.Type() == reflect.TypeFor[[][]*config_parser.Function]():
			fss := fv.Interface().([][]*config_parser.Function)
			if len(fss) == 0 {
				continue
			}
			var anns [][]*config_parser.Param
			if a := v.FieldByName(sf.Name + "Annotation"); a.IsValid() {
				anns, _ = a.Interface().([][]*config_parser.Param)
			}
			a, b := make([]string, len(fss)), make([]string, len(anns))
			for j := range fss {
				a[j] = c17Fns(fss[j])
			}
			for j := range anns {
				b[j] = c17Ann(anns[j])
			}
			*out = append(*out, p+"=L:"+strings.Join(a, "|")+"~"+strings.Join(b, "|"))
		case fv.Kind() == reflect.Slice && fv.Type().Elem().Kind() == reflect.Struct:
			if fv.Len() == 0 {
				continue
			}
			*out = append(*out, fmt.Sprintf("%s=n:%d", p, fv.Len()))
			for j := 0; j < fv.Len(); j++ {
				c17Leaves(fmt.Sprintf("%s.[%d]", p, j), fv.Index(j), out)
			}
		case fv.Kind() == reflect.Struct:
			c17Leaves(p, fv, out)
		case strings.HasSuffix(sf.Name, "Annotation"):
			// printed with its field
		default:
			if fv.IsZero() {
				continue
			}
			*out = append(*out, p+"=s:"+c17Esc(fmt.Sprint(fv.Interface())))
		}
	}
}

func c17ErrClass(err error) string {
	msg := err.Error()
	sec := ""
	if strings.HasPrefix(msg, `failed to parse "`) {
		if i := strings.Index(msg[17:], `"`); i >= 0 {
			sec = "@" + msg[17:17+i]
		}
	}
	type mk struct{ marker, class string }
	best, bestAt := "other:"+msg, len(msg)+1
	for _, m := range []mk{
		{"is required but not provided", "requiredSection"}, {"unknown section", "unknownSection"},
		{"unsupported text without a key", "nokey"}, {"unexpected key", "unexpectedKey"},
		{"cannot be convert to", "convert"}, {"cannot use routing rule in this context", "ruleCtx"},
		{"requires param", "requiredParam"}, {"does not support type", "strlistType"},
		{"unmatched type", "unmatchedType"}, {"unsupported section type", "unsupportedSection"},
		{"failed to decode default", "defaultDecode"},
		{"parse global.bootstrap_resolver", "patch"}, {"expected exactly 1 function", "patch"},
		{"unsupported function-or-string", "patch"},
	} {
		if i := strings.Index(msg, m.marker); i >= 0 && i < bestAt {
			best, bestAt = m.class, i
		}
	}
	if best == "requiredSection" || best == "unknownSection" || best == "patch" {
		sec = ""
	}
	return "err:" + best + sec
}

func c17NewOut(in string) (out string, vals []string) {
	out = VRecover(func() string {
		ss, err := config_parser.Parse(in)
		if err != nil {
			return "err:parse"
		}
		var walk func(items []*config_parser.Item)
		walk = func(items []*config_parser.Item) {
			for _, it := range items {
				switch v := it.Value.(type) {
				case *config_parser.Param:
					vals = append(vals, v.Val)
					vals = append(vals, strings.Split(v.Val, ",")...)
				case *config_parser.Section:
					walk(v.Items)
				}
			}
		}
		for _, s := range ss {
			walk(s.Items)
		}
		conf, err := New(ss)
		if err != nil {
			if conf != nil {
				return "err-with-config"
			}
			return c17ErrClass(err)
		}
		var leaves []string
		c17Leaves("", reflect.ValueOf(conf).Elem(), &leaves)
		sort.Strings(leaves)
		return "ok " + strings.Join(leaves, ";")
	})
	return out, vals
}

// ---------------------------------------------------------------- schema-driven config generator

type c17CGen struct {
	r     *VRand
	s     *c17Schema
	stats *VStats
	b     strings.Builder
	// calm > 0 divides the probability of every rejected-by-design mutation (the split-configuration trees
	// are built from several generated pieces; undamped, three quarters of them would be rejected)
	calm float64
}

// mut decides whether to apply a mutation that config.New must reject
func (g *c17CGen) mut(p float64) bool {
	if g.calm > 0 {
		p /= g.calm
	}
	return g.r.Chance(p)
}

func (g *c17CGen) pick(xs ...string) string { return xs[g.r.Intn(len(xs))] }

func (g *c17CGen) scalarVal(t reflect.Type) string {
	bad := g.mut(0.03)
	if bad {
		g.stats.Inc("cfg.value.invalid")
	}
	switch t {
	case reflect.TypeFor[time.Duration]():
		if bad {
			return g.pick("30", "1d", "abc", "'1 s'", "--1s")
		}
		return g.pick("30s", "0", "1.5h", "100ms", "1m30s", "-5s", ".5s", "0s", "2h45m")
	}
	switch t.Kind() {
	case reflect.String:
		return g.pick("info", "domain", "'a b'", "tls", "x", "HEAD", "GET", "get", "'8.8.8.8:53'", "'1.1.1.1'", "50-100", "''", "debug", "'udp://1.1.1.1:53'", "chrome_auto")
	case reflect.Bool:
		if bad {
			return g.pick("maybe", "2", "''", "tru")
		}
		return g.pick("true", "false", "yes", "no", "on", "off", "1", "0", "t", "f", "TRUE", "Yes", "y", "n")
	case reflect.Uint8, reflect.Uint16:
		if bad {
			return g.pick("65536", "-1", "abc", "1.5", "0x10000", "99999", "''")
		}
		return g.pick("0", "12345", "65535", "0x10", "1_000", "0b101", "0o17", "80", "255", "256", "07")
	case reflect.Uint32, reflect.Uint, reflect.Uint64:
		if bad {
			return g.pick("4294967296000000000000", "-1", "abc", "0x", "1e3")
		}
		return g.pick("0", "4294967295", "0xffffffff", "1", "262144", "0x800", "4294967296")
	default: // ints
		if bad {
			return g.pick("9223372036854775808", "abc", "1.0", "--5", "0x")
		}
		return g.pick("-5", "60", "0", "4", "6", "9223372036854775807", "-0x10", "+7", "1_0")
	}
}

func (g *c17CGen) fn() string {
	neg := ""
	if g.r.Chance(0.2) {
		neg = "!"
	}
	name := g.pick("name", "subtag", "domain", "pname", "dip", "port", "l4proto", "qname", "qtype", "upstream", "fixed", "sip", "mac", "f")
	n := 1 + g.r.Intn(3)
	if g.r.Chance(0.04) {
		n = 7
	}
	ps := make([]string, n)
	for i := range ps {
		v := g.pick("x", "'a b'", "1.1.1.1", "80", "tcp", "curl", "'^a.*$'", "0x1", "cn", "aaaa", "googledns", "10.0.0.0/8")
		if g.r.Chance(0.4) {
			ps[i] = g.pick("keyword", "regex", "suffix", "full", "geosite", "mark", "k") + ": " + v
		} else {
			ps[i] = v
		}
	}
	return neg + name + "(" + strings.Join(ps, ", ") + ")"
}

func (g *c17CGen) fns() string {
	s := g.fn()
	for g.r.Chance(0.3) {
		s += " && " + g.fn()
	}
	return s
}

func (g *c17CGen) outbound() string {
	switch g.r.Intn(8) {
	case 0:
		return g.pick("proxy(mark: 0x1)", "direct(must)", "must_direct(mark: 2)", "x(y)")
	case 1:
		return g.pick("must_direct", "must_proxy", "must_rules", "must_")
	}
	return g.pick("direct", "proxy", "block", "asis", "accept", "reject", "my_group", "googledns")
}

func (g *c17CGen) ifaceVal() string {
	switch g.r.Intn(6) {
	case 0:
		g.stats.Inc("cfg.iface.fn")
		return g.fn()
	case 1:
		g.stats.Inc("cfg.iface.fns")
		return g.fns()
	case 2:
		return g.pick("must_direct", "must_proxy", "must_rules", "'must_x'")
	case 3:
		return g.pick("a, b", "'direct'", "min_moving_avg", "random", "min", "fixed(0)")
	}
	return g.pick("direct", "proxy", "asis", "accept", "min_moving_avg", "block")
}

func (g *c17CGen) indent(d int) { g.b.WriteString(strings.Repeat("  ", d)) }

func (g *c17CGen) field(f c17Field, d int) {
	g.indent(d)
	switch f.kind[0] {
	case 's':
		if g.mut(0.02) {
			g.b.WriteString(f.key + " { x: y }\n") // section where a scalar is expected
			g.stats.Inc("cfg.mut.section-for-scalar")
			return
		}
		if g.mut(0.03) {
			g.b.WriteString(f.key + ": " + g.fn() + "\n") // function where a scalar is expected
			g.stats.Inc("cfg.mut.fn-for-scalar")
			return
		}
		ann := ""
		if g.r.Chance(0.03) { // an annotation on a plain declaration: accepted by the Walker, ignored by ParamParser
			ann = " [x: y]"
			g.stats.Inc("cfg.annotation-on-scalar")
		}
		g.b.WriteString(f.key + ": " + g.scalarVal(f.goType) + ann + "\n")
		g.stats.Inc("cfg.field.scalar")
	case 'l':
		if g.mut(0.03) { // functions where a string list is expected
			g.b.WriteString(f.key + ": " + g.fns() + "\n")
			g.stats.Inc("cfg.mut.fn-for-strlist")
			return
		}
		switch g.r.Intn(5) {
		case 0:
			g.b.WriteString(f.key + " {\n")
			for i, n := 0, g.r.Intn(4); i < n; i++ {
				g.indent(d + 1)
				g.b.WriteString(g.pick("a", "'b c'", "k: v", "'x,y'", "tag: 'ss://LINK'", "f: g(h)", "a", "b", "c", "r(x) -> y", "s { }") + "\n")
			}
			g.indent(d)
			g.b.WriteString("}\n")
			g.stats.Inc("cfg.field.strlist.section")
		case 1:
			g.b.WriteString(f.key + ": " + g.pick("a, b, c", "'a,b', c", "a,'',b") + "\n")
			g.stats.Inc("cfg.field.strlist.commas")
		default:
			g.b.WriteString(f.key + ": " + g.pick("x", "'http://cp.cloudflare.com,1.1.1.1'", "eth0", "'dns.google:53'", "'a,b'", "''") + "\n")
			g.stats.Inc("cfg.field.strlist.single")
		}
	case 'i':
		if g.mut(0.03) { // a section where a function-or-string is expected
			g.b.WriteString(f.key + " { x }\n")
			g.stats.Inc("cfg.mut.section-for-iface")
			return
		}
		g.b.WriteString(f.key + ": " + g.ifaceVal() + "\n")
		g.stats.Inc("cfg.field.iface")
	case 'f':
		ann := ""
		if g.r.Chance(0.4) {
			ann = " [add_latency: 500ms" + g.pick("", ", x: y", ", z") + "]"
		}
		if g.mut(0.04) {
			g.b.WriteString(f.key + " { name(x) }\n") // a section where functions are expected
			g.stats.Inc("cfg.mut.section-for-fnlist")
			return
		}
		if g.mut(0.1) {
			g.b.WriteString(f.key + ": " + g.pick("x", "'a,b'") + "\n") // string where functions are expected
			g.stats.Inc("cfg.mut.string-for-fnlist")
			return
		}
		g.b.WriteString(f.key + ": " + g.fns() + ann + "\n")
		g.stats.Inc("cfg.field.fnlists")
	case 't':
		sid, _ := strconv.Atoi(f.kind[1:])
		if g.mut(0.03) {
			g.b.WriteString(f.key + ": x\n") // string where a section is expected
			g.stats.Inc("cfg.mut.string-for-section")
			return
		}
		g.b.WriteString(f.key + " {\n")
		g.structBody(sid, d+1)
		g.indent(d)
		g.b.WriteString("}\n")
		g.stats.Inc("cfg.field.struct")
	case 'T':
		sid, _ := strconv.Atoi(f.kind[1:])
		g.b.WriteString(f.key + " {\n")
		g.structListBody(sid, d+1)
		g.indent(d)
		g.b.WriteString("}\n")
	}
}

func (g *c17CGen) rule(d int) {
	g.indent(d)
	g.b.WriteString(g.fns() + " -> " + g.outbound() + "\n")
	g.stats.Inc("cfg.rule")
}

func (g *c17CGen) structBody(sid int, d int) {
	st := g.s.structs[sid]
	for _, f := range st.fields {
		p := 0.25
		if f.req {
			p = 0.93
			if g.calm > 0 {
				p = 1 - 0.07/g.calm
			}
		}
		if len(st.fields) > 20 {
			p = 0.12
		}
		if !g.r.Chance(p) {
			if f.req {
				g.stats.Inc("cfg.mut.required-omitted")
			}
			continue
		}
		g.field(f, d)
		if g.r.Chance(0.08) { // duplicate key
			g.field(f, d)
			g.stats.Inc("cfg.mut.duplicate-key")
		}
	}
	if st.hasRules {
		for i, n := 0, g.r.Intn(5); i < n; i++ {
			g.rule(d)
		}
	} else if g.mut(0.03) {
		g.rule(d)
		g.stats.Inc("cfg.mut.rule-in-plain-struct")
	}
	if g.mut(0.04) {
		g.indent(d)
		if len(st.fields) > 0 && g.r.Chance(0.6) { // a near miss of a valid key of this struct
			k := st.fields[g.r.Intn(len(st.fields))].key
			k = g.pick(k+"2", k+"s", "x"+k, strings.ToUpper(k), k[:len(k)-1], strings.ToUpper(k[:1])+k[1:], k+"_", "_"+k, "__"+k, strings.ReplaceAll(k, "_", "-"), "x-"+k, k+"#", "_")
			g.b.WriteString(k + ": " + g.pick("1", "x", "true") + "\n")
			g.stats.Inc("cfg.mut.unknown-key-near-miss")
		} else {
			g.b.WriteString(g.pick("no_such_key: 1", "nope: f(x)", "nope { }") + "\n")
			g.stats.Inc("cfg.mut.unknown-key")
		}
	}
	if g.mut(0.03) {
		g.indent(d)
		g.b.WriteString(g.pick("keyless", "'key less'", "1.2.3.4") + "\n")
		g.stats.Inc("cfg.mut.keyless")
	}
}

func (g *c17CGen) structListBody(sid int, d int) {
	for i, n := 0, g.r.Intn(4); i < n; i++ {
		g.indent(d)
		g.b.WriteString(g.pick("my_group", "g2", "proxy", "my_group") + " {\n")
		g.structBody(sid, d+1)
		g.indent(d)
		g.b.WriteString("}\n")
		g.stats.Inc("cfg.field.structlist.elem")
	}
	if g.mut(0.06) {
		g.indent(d)
		g.b.WriteString(g.pick("x", "k: v", "f(x) -> y") + "\n")
		g.stats.Inc("cfg.mut.nonsection-in-structlist")
	}
}

// section writes one top-level section of the given spec
func (g *c17CGen) section(sp c17Field) {
	switch sp.kind[0] {
	case 't':
		sid, _ := strconv.Atoi(sp.kind[1:])
		g.b.WriteString(sp.key + " {\n")
		g.structBody(sid, 1)
		g.b.WriteString("}\n")
	case 'T':
		sid, _ := strconv.Atoi(sp.kind[1:])
		g.b.WriteString(sp.key + " {\n")
		g.structListBody(sid, 1)
		g.b.WriteString("}\n")
	default: // string list: only the section form exists at top level
		g.b.WriteString(sp.key + " {\n")
		for i, n := 0, g.r.Intn(4); i < n; i++ {
			g.b.WriteString("  " + g.pick("a", "'b c'", "k: v", "'x,y'", "tag: 'ss://LINK'", "f: g(h)", "'https://sub/link'", "f: !g(a, k: b, c, d, e, f, h) && i(j)", "f: g(a, b, c, d, e)") + "\n")
		}
		if g.mut(0.05) {
			g.b.WriteString("  " + g.pick("r(x) -> y", "s { }") + "\n")
			g.stats.Inc("cfg.mut.nonparam-in-strlist")
		}
		g.b.WriteString("}\n")
	}
}

func (g *c17CGen) config() string {
	g.b.Reset()
	for _, sp := range g.s.specs {
		p := 0.5
		if sp.req {
			p = 0.97
		}
		if !g.r.Chance(p) {
			if sp.req {
				g.stats.Inc("cfg.mut.required-section-omitted")
			}
			continue
		}
		reps := 1
		if g.r.Chance(0.06) {
			reps = 2
			g.stats.Inc("cfg.mut.duplicate-section")
		}
		for k := 0; k < reps; k++ {
			g.section(sp)
		}
	}
	if g.r.Chance(0.05) {
		if g.r.Chance(0.6) { // near misses of valid section names, and of "include"
			n := g.s.specs[g.r.Intn(len(g.s.specs))].key
			n = g.pick(n+"2", n+"s", "x"+n, strings.ToUpper(n), n[:len(n)-1], strings.ToUpper(n[:1])+n[1:], "include2", "includes", "include_optional", "Include", "includ", "_"+n, "__"+n, "_", "x-"+n, n+"-", "_include", "_scratch")
			g.b.WriteString(n + " { }\n")
			g.stats.Inc("cfg.mut.unknown-section-near-miss")
		} else {
			g.b.WriteString(g.pick("nosuch { a: b }", "Global { }", "routing2 { }") + "\n")
			g.stats.Inc("cfg.mut.unknown-section")
		}
	}
	if g.r.Chance(0.1) {
		g.b.WriteString("include { a.dae  'b/*.dae' }\n")
		g.stats.Inc("cfg.include-section")
	}
	return g.b.String()
}

var c17FixedConfigs = []string{
	// near misses of section names and of "include" (which alone is skipped by the unknown-section test)
	"global{} routing{} include2{}", "global{} routing{} includes{ a }", "global{} routing{} include_optional{ 'a.dae' }", "global{} routing{} Include{}", "global{} routing{} includ{}",
	"global{} routing{} include{ 'a.dae' }", "global{} routing{} Global{}", "global{} routing{} globals{}", "global{} routing{} dns2{}", "global{} routing{} DNS{}", "global{} routing{} node2{ a }",
	"global{ _tproxy_port: 1 } routing{}", "global{ _note: x } routing{}", "global{} routing{} _scratch{ a: b }", "global{} routing{} _{ }", "global{ tproxy-port: 1 } routing{}", "global{ x-note: 1 } routing{}",
	"global{ log_level: ' info ' } routing{}", "global{ tproxy_port: ' 1' } routing{}", "global{ log_level: 'a\r\nb' } routing{}", "global{ log_level: 'p\xe9ss' } routing{}", "global{ log_level: '\xff' } routing{}",
	"global{ Log_level: info } routing{}", "global{ log_levels: info } routing{}", "global{ log_leve: info } routing{}", "global{} routing{ Fallback: direct }", "global{} routing{} dns{ Upstream{ } }",
	"global{ log_level: info [x: y] } routing{}", "global{ lan_interface: f(x) } routing{}", "global{} routing{ fallback { x } }", "global{} routing{} group{ g { policy: min filter { name(x) } } }",
	"global{} routing{} node{ n: f(a, b, c, d, e, f) }", "global{} routing{} node{ n: f(a, b, c, d, e) && !g(k: v) }",
	"", "global{}", "routing{}", "global{} routing{}", "global{} routing{} dns{}", "global{} routing{} dns{ routing{} }",
	"global{} routing{} dns{ routing{ request{} } }", "global{} routing{ fallback: must_direct }", "global{} routing{ fallback: f(x) && g(y) }",
	"global{} routing{ fallback: my(mark: 1) }", "global{} routing{ a(b) -> must_proxy  a(b) -> must_rules }", "global{ bootstrap_resolver: 'x' } routing{}",
	"global{ bootstrap_resolver: '8.8.8.8:53' } routing{}", "global{ tcp_check_http_method: nope } routing{}", "global{ so_mark_from_dae: 0 } routing{}",
	"global{ so_mark_from_dae_set: true } routing{}", "global{ tcp_check_url: a tcp_check_url: b } routing{}", "global{ tcp_check_url { a b } } routing{}",
	"global{ lan_interface: a,b lan_interface: c } routing{}", "global{} routing{} group{ g { policy: min } }", "global{} routing{} group{ g { } }",
	"global{} routing{} group{ g { policy: min filter: name(a) filter: name(b) [add_latency: 1s] } }", "global{} routing{} node{ a 'b' c: d e: f(g) }",
	"global{} routing{} node{ a { } }", "global{} routing{} subscription{ x(y) -> z }", "global{} global{ log_level: x } routing{}",
	"global{} routing{} dns{ routing{ request{ fallback: a } request { } } }", "global{} routing{} dns { upstream { a: 'udp://1.1.1.1:53' } }",
}

// ---------------------------------------------------------------- include trees

type c17File struct {
	rel     string
	dir     bool
	link    bool   // symbolic link: dangling when target is empty
	target  string // absolute target of a DIRECTORY link
	perm    os.FileMode
	content string
}

func (g *c17CGen) includeTree(root string) (files []c17File, entry string, includeVals []string) {
	names := []string{"config.dae", "a.dae", "b.dae", "sub/c.dae", "sub/d.dae", "sub/deep/e.dae", "sub/notes.txt", "x.conf", "dir.dae", "sub/z.dae",
		// near misses of the ".dae" rule
		"a.dae.bak", "A.DAE", "x.daemon", ".dae", "conf.dae/notes.txt", ".hidden.dae", "my file.dae", "config.dae.bak"}
	entry = filepath.Join(root, "config.dae")
	switch k := g.r.Intn(100); {
	case k < 8:
		entry = filepath.Join(root, "sub", "c.dae") // the entry's directory is not the tree root
		g.stats.Inc("inc.entry-in-subdir")
	case k < 11:
		entry = filepath.Join(root, "config.dae.bak") // wrong suffix on the entry itself
		g.stats.Inc("inc.entry-wrong-suffix")
	case k < 14:
		entry = filepath.Join(root, "dir.dae") // the entry is a directory
		g.stats.Inc("inc.entry-is-directory")
	case k < 16:
		entry = filepath.Join(root, "A.DAE")
		g.stats.Inc("inc.entry-upper-case-suffix")
	}
	if g.r.Chance(0.15) {
		files = append(files, c17File{rel: "broken.dae", link: true})
		g.stats.Inc("inc.dangling-symlink")
	}
	dirLinks := false
	if g.r.Chance(0.12) {
		dirLinks = true
		// a DIRECTORY link inside the entry directory that leads out of it (confinement is lexical: what
		// is included through it is read), and one that leads to a sibling directory inside
		files = append(files, c17File{rel: "sub/outlink", link: true, target: filepath.Join(filepath.Dir(root), "outdir")})
		files = append(files, c17File{rel: "inlink", link: true, target: filepath.Join(root, "sub")})
		g.stats.Inc("inc.directory-symlinks")
	}
	incPool := []string{"sub/outlink/x.dae", "sub/outlink/*.dae", "inlink/c.dae", "inlink/*.dae", "sub/outlink/../outside.dae", "a.dae", "b.dae", "sub/c.dae", "sub/*.dae", "*.dae", "sub/deep/e.dae", "sub/d.dae", "./a.dae", "sub/../b.dae", "../outside.dae", "sub/../../outside.dae",
		"x.conf", "sub/notes.txt", "dir.dae", "*", "sub/*", "nonexistent.dae", "sub/[cd].dae", "sub/?.dae", "[", "config.dae", "sub/z.dae", "*/*.dae", "a.dae/", "",
		"a.dae.bak", "A.DAE", "x.daemon", ".dae", "conf.dae/notes.txt", "conf.dae", "conf.dae/*", ".hidden.dae", "my file.dae", "*.bak", "*.DAE", "a.dae*", ".*", "broken.dae", "config.dae.bak",
		root + "/./a.dae", root + "/sub/../a.dae", root + "//b.dae", root + "/sub/./d.dae", // unclean absolute spellings: not cleaned by Merger
		filepath.Join(root, "a.dae"), filepath.Join(root, "sub", "*.dae"), "/etc/passwd", filepath.Join(filepath.Dir(root), "outside.dae"), filepath.Join(root, "..", filepath.Base(root), "b.dae")}
	for _, n := range names {
		f := c17File{rel: n, perm: 0o640}
		if n == "dir.dae" {
			f.dir = true
			f.perm = 0o750
			files = append(files, f)
			continue
		}
		if g.r.Chance(0.2) && n != "config.dae" {
			continue // file absent
		}
		switch g.r.Intn(14) {
		case 0:
			f.perm = 0o644
			g.stats.Inc("inc.perm.too-open")
		case 1:
			f.perm = 0o600
		case 2:
			f.perm = 0o660
			g.stats.Inc("inc.perm.too-open")
		case 3:
			f.perm = 0o400
		case 4:
			// every bit of the mask 0037 on its own (group write, group exec, other r/w/x), two of them
			// together, and nothing at all
			f.perm = []os.FileMode{0o620, 0o610, 0o604, 0o602, 0o601, 0o630, 0o607, 0o677, 0o777, 0o020, 0o010, 0o001}[g.r.Intn(12)]
			g.stats.Inc(fmt.Sprintf("inc.perm.too-open.%04o", f.perm))
		case 5:
			// accepted: owner bits and group read are free
			f.perm = []os.FileMode{0o640, 0o440, 0o700, 0o740, 0o500, 0o200, 0o040, 0o000, 0o100}[g.r.Intn(9)]
			g.stats.Inc(fmt.Sprintf("inc.perm.accepted.%04o", f.perm))
		}
		var b strings.Builder
		nInc := 0
		if g.r.Chance(0.6) {
			nInc = 1 + g.r.Intn(3)
		}
		if nInc > 0 {
			b.WriteString("include {\n")
			for i := 0; i < nInc; i++ {
				v := incPool[g.r.Intn(len(incPool))]
				if dirLinks && g.r.Chance(0.3) {
					v = incPool[g.r.Intn(5)] // through one of the directory links
				}
				includeVals = append(includeVals, v)
				switch {
				case g.r.Chance(0.03):
					b.WriteString(g.pick("  f(x) -> y\n", "  s { a.dae }\n", "  s { }\n", "  !f(x) && g(y) -> z(k: v)\n"))
					g.stats.Inc("inc.bad-grammar")
				case g.r.Chance(0.04) && !strings.ContainsAny(v, "'"): // keyed item: Param.String gives "k:<v>"
					b.WriteString("  k: '" + v + "'\n")
					includeVals = append(includeVals, "k:"+v)
					g.stats.Inc("inc.keyed-item")
				case g.r.Chance(0.03): // function-valued item, more than five parameters: Function.String elides the rest
					b.WriteString("  f: g(a, b, c, d, e, f, h)\n")
					includeVals = append(includeVals, "f:g(a,b,c,d,e,...)")
					g.stats.Inc("inc.function-item")
				case strings.ContainsAny(v, "*?[ ") || v == "" || g.r.Chance(0.3):
					b.WriteString("  '" + v + "'\n")
				default:
					b.WriteString("  " + v + "\n")
				}
			}
			b.WriteString("}\n")
		}
		tag := "t" + strings.NewReplacer("/", "_", ".", "_", " ", "_").Replace(n)
		if g.r.Chance(0.7) {
			b.WriteString("routing {\n  pname(" + tag + ") -> direct\n  fallback: " + tag + "\n}\n")
		}
		if g.r.Chance(0.5) {
			b.WriteString("node {\n  n_" + tag + ": 'x'\n}\n")
		}
		if g.r.Chance(0.2) {
			b.WriteString("routing {\n  dip(1.1.1.1) -> " + tag + "\n}\n")
		}
		if g.r.Chance(0.04) {
			b.WriteString("broken {\n")
			g.stats.Inc("inc.syntax-error")
		}
		f.content = b.String()
		files = append(files, f)
	}
	return
}

// Directed scenarios for the resolution of RELATIVE include paths: Merger resolves every relative
// include against the ENTRY file's directory (m.entryDir), also when the including file itself lives
// in a sub-directory.  Each tree has same-named files in both places with different content, so a
// resolution against the including file's directory changes the merged result or the error.
type c17Directed struct {
	name     string
	files    map[string]string // rel path -> content
	entryRel string
	incVals  []string // every include value written in the tree (for the glob oracle)
}

func c17DirectedTrees(root string) []c17Directed {
	n := func(tag string) string { return "node {\n  " + tag + ": 'x'\n}\n" }
	inc := func(vals ...string) string {
		out := "include {\n"
		for _, v := range vals {
			out += "  '" + v + "'\n"
		}
		return out + "}\n"
	}
	abs := filepath.Join(root, "sub", "d.dae")
	return []c17Directed{
		{"nested-relative", map[string]string{"config.dae": inc("sub/c.dae") + n("from_config"), "sub/c.dae": inc("d.dae") + n("from_c"),
			"d.dae": n("root_d"), "sub/d.dae": n("sub_d")}, "config.dae", []string{"sub/c.dae", "d.dae"}},
		{"nested-relative-subpath", map[string]string{"config.dae": inc("sub/c.dae") + n("from_config"), "sub/c.dae": inc("sub/d.dae") + n("from_c"),
			"d.dae": n("root_d"), "sub/d.dae": n("sub_d"), "sub/sub/d.dae": n("subsub_d")}, "config.dae", []string{"sub/c.dae", "sub/d.dae"}},
		{"nested-dot", map[string]string{"config.dae": inc("sub/c.dae"), "sub/c.dae": inc("./d.dae") + n("from_c"),
			"d.dae": n("root_d"), "sub/d.dae": n("sub_d")}, "config.dae", []string{"sub/c.dae", "./d.dae"}},
		{"nested-dotdot-escapes", map[string]string{"config.dae": inc("sub/c.dae"), "sub/c.dae": inc("../outside.dae") + n("from_c"),
			"outside.dae": n("root_outside")}, "config.dae", []string{"sub/c.dae", "../outside.dae"}},
		{"nested-glob", map[string]string{"config.dae": inc("sub/c.dae") + n("from_config"), "sub/c.dae": inc("[ab].dae") + n("from_c"),
			"a.dae": n("root_a"), "b.dae": n("root_b"), "sub/a.dae": n("sub_a"), "sub/b.dae": n("sub_b")}, "config.dae", []string{"sub/c.dae", "[ab].dae"}},
		{"nested-glob-cycle", map[string]string{"config.dae": inc("sub/c.dae"), "sub/c.dae": inc("*.dae") + n("from_c"),
			"sub/d.dae": n("sub_d")}, "config.dae", []string{"sub/c.dae", "*.dae"}},
		{"nested-absolute", map[string]string{"config.dae": inc("sub/c.dae"), "sub/c.dae": inc(abs) + n("from_c"),
			"d.dae": n("root_d"), "sub/d.dae": n("sub_d")}, "config.dae", []string{"sub/c.dae", abs}},
		{"three-levels", map[string]string{"config.dae": inc("sub/c.dae") + n("from_config"), "sub/c.dae": inc("sub/deep/e.dae") + n("from_c"),
			"sub/deep/e.dae": inc("a.dae") + n("from_e"), "a.dae": n("root_a"), "sub/a.dae": n("sub_a"), "sub/deep/a.dae": n("deep_a")},
			"config.dae", []string{"sub/c.dae", "sub/deep/e.dae", "a.dae"}},
		{"entry-in-subdir", map[string]string{"sub/c.dae": inc("d.dae", "deep/e.dae") + n("from_c"), "sub/d.dae": n("sub_d"), "d.dae": n("root_d"),
			"sub/deep/e.dae": inc("z.dae") + n("from_e"), "sub/z.dae": n("sub_z"), "sub/deep/z.dae": n("deep_z"), "z.dae": n("root_z")},
			"sub/c.dae", []string{"d.dae", "deep/e.dae", "z.dae"}},
		{"entry-in-subdir-parent", map[string]string{"sub/c.dae": inc("../d.dae") + n("from_c"), "d.dae": n("root_d")},
			"sub/c.dae", []string{"../d.dae"}},
	}
}

// c17Watch observes the REAL opens of regular files below the watched directories (inotify IN_OPEN):
// what Merger actually hands to os.Open, on success and on failure.
type c17Watch struct {
	fd  int
	wds map[int32]string
}

func c17WatchStart(dirs []string) (*c17Watch, error) {
	fd, err := unix.InotifyInit1(unix.IN_NONBLOCK | unix.IN_CLOEXEC)
	if err != nil {
		return nil, err
	}
	w := &c17Watch{fd: fd, wds: map[int32]string{}}
	for _, d := range dirs {
		wd, err := unix.InotifyAddWatch(fd, d, unix.IN_OPEN)
		if err != nil {
			unix.Close(fd)
			return nil, err
		}
		w.wds[int32(wd)] = d
	}
	return w, nil
}

// Drain returns the paths of the non-directory files opened since the watch started, and closes it.
func (w *c17Watch) Drain() (opened []string) {
	defer unix.Close(w.fd)
	buf := make([]byte, 1<<16)
	for {
		n, err := unix.Read(w.fd, buf)
		if err != nil || n <= 0 {
			break
		}
		for off := 0; off+unix.SizeofInotifyEvent <= n; {
			ev := (*unix.InotifyEvent)(unsafe.Pointer(&buf[off]))
			name := ""
			if ev.Len > 0 {
				name = strings.TrimRight(string(buf[off+unix.SizeofInotifyEvent:off+unix.SizeofInotifyEvent+int(ev.Len)]), "\x00")
			}
			if ev.Mask&unix.IN_ISDIR == 0 && ev.Mask&unix.IN_OPEN != 0 && name != "" {
				opened = append(opened, filepath.Join(w.wds[ev.Wd], name))
			}
			off += unix.SizeofInotifyEvent + int(ev.Len)
		}
	}
	// a set: inotify coalesces identical successive events, so the number of opens of one file is not observable
	sort.Strings(opened)
	out := opened[:0]
	for i, p := range opened {
		if i == 0 || p != opened[i-1] {
			out = append(out, p)
		}
	}
	return out
}

func c17QuoteGlob(p string) string {
	var b strings.Builder
	for i := 0; i < len(p); i++ {
		if strings.IndexByte(`*?[\`, p[i]) >= 0 {
			b.WriteByte('\\')
		}
		b.WriteByte(p[i])
	}
	return b.String()
}

func c17MergeErrClass(err error) string {
	msg := err.Error()
	for _, m := range [][2]string{
		{"circular include", "circular"}, {"must has suffix .dae", "suffix"}, {"failed in checking path", "scope"},
		{"failed to read config file", "open"}, {"cannot include a directory", "isDir"}, {"too open", "perm"},
		{"failed to parse config file", "parse"}, {"unsupported include grammar", "includeGrammar"}, {"syntax error in pattern", "glob"},
		{"no such file or directory", "statErr"}, {"too many levels of symbolic links", "statErr"},
	} {
		if strings.Contains(msg, m[0]) {
			return "err:" + m[1]
		}
	}
	return "err:other:" + msg
}

func c17SectionsSorted(ss []*config_parser.Section) string {
	parts := make([]string, len(ss))
	for i, s := range ss {
		parts[i] = C17Sections([]*config_parser.Section{s})
	}
	sort.Strings(parts)
	return strings.Join(parts, "")
}

// ---------------------------------------------------------------- description of a real tree for the model

type c17TreeDesc struct {
	cwd       string
	fw        []string
	nFiles    int
	gw        []string
	nGlobs    int
	watchDirs []string
}

// c17Describe describes the directory trees below `roots` as the real file system shows them (files with
// mode and content, directories, symbolic links with their target) and answers, with the real
// filepath.Glob, every pattern the include values can produce for this entry.
func c17Describe(roots []string, entry string, incVals []string) (d c17TreeDesc) {
	d.cwd, _ = os.Getwd()
	walkAll := func(fn filepath.WalkFunc) {
		for _, r := range roots {
			_ = filepath.Walk(r, fn)
		}
	}
	walkAll(func(p string, fi os.FileInfo, err error) error {
		if err != nil {
			return nil
		}
		kind, content := "f", ""
		if fi.Mode()&os.ModeSymlink != 0 {
			target, _ := os.Readlink(p)
			d.fw = append(d.fw, c17H(p), "l", "0", c17H(target))
			d.nFiles++
			return nil
		}
		if fi.IsDir() {
			kind = "d"
		} else {
			b, _ := os.ReadFile(p)
			content = string(b)
		}
		d.fw = append(d.fw, c17H(p), kind, strconv.Itoa(int(fi.Mode()&0o777)), c17H(content))
		d.nFiles++
		return nil
	})
	// glob oracle for every pattern the include values can produce
	entryDir := filepath.Dir(entry)
	seen := map[string]bool{}
	for _, v := range incVals {
		pat := v
		if !filepath.IsAbs(v) {
			// the pattern Merger must hand to filepath.Glob: only the include VALUE is a pattern, the
			// entry directory is a literal path (its * ? [ \ are quoted) — a harness-side STATEMENT of
			// what is expected, answered by the real filepath.Glob; the model computes the same string
			// itself and a disagreement is a loud glob-miss
			pat = filepath.Join(c17QuoteGlob(entryDir), v)
		}
		if seen[pat] {
			continue
		}
		seen[pat] = true
		matches, err := filepath.Glob(pat)
		d.nGlobs++
		if err != nil {
			d.gw = append(d.gw, c17H(pat), "-1")
			continue
		}
		d.gw = append(d.gw, c17H(pat), strconv.Itoa(len(matches)))
		for _, m := range matches {
			d.gw = append(d.gw, c17H(m))
		}
	}
	walkAll(func(p string, fi os.FileInfo, err error) error {
		if err == nil && fi.IsDir() {
			d.watchDirs = append(d.watchDirs, p)
		}
		return nil
	})
	return d
}

func c17CollectVals(items []*config_parser.Item, vals *[]string) {
	for _, it := range items {
		switch v := it.Value.(type) {
		case *config_parser.Param:
			*vals = append(*vals, v.Val)
			*vals = append(*vals, strings.Split(v.Val, ",")...)
		case *config_parser.Section:
			c17CollectVals(v.Items, vals)
		}
	}
}

// richTree writes a configuration SPLIT over an entry file and up to four included files: every top-level
// section is generated in zero, one or two pieces (required ones mostly one) and each piece lands in a
// random file, so that keys, lists, rules and groups of one section come from several files; the includes
// are a list, a glob, a chain, or a mixture, sometimes with a troublesome member.
func (g *c17CGen) richTree(root string) (entry string, incVals []string) {
	names := []string{"config.dae", "conf.d/10-global.dae", "conf.d/20-routing.dae", "dns.dae", "conf.d/sub/groups.dae"}
	k := 1 + g.r.Intn(len(names))
	names = names[:k]
	body := make([]strings.Builder, k)
	g.calm = 4
	defer func() { g.calm = 0 }()
	for _, sp := range g.s.specs {
		pieces := 0
		switch x := g.r.Intn(100); {
		case sp.req && x < 80, !sp.req && x >= 45 && x < 85:
			pieces = 1
		case sp.req && x < 97, !sp.req && x >= 85:
			pieces = 2
		}
		if sp.req && pieces == 0 {
			g.stats.Inc("read.required-section-nowhere")
		}
		for p := 0; p < pieces; p++ {
			g.b.Reset()
			g.section(sp)
			body[g.r.Intn(k)].WriteString(g.b.String())
		}
		if pieces == 2 {
			g.stats.Inc("read.section-in-two-pieces")
		}
	}
	inc := make([][]string, k)
	if k > 1 {
		switch g.r.Intn(4) {
		case 0: // a list, in random order
			order := make([]int, 0, k-1)
			for j := 1; j < k; j++ {
				order = append(order, j)
			}
			for j := len(order) - 1; j > 0; j-- {
				o := g.r.Intn(j + 1)
				order[j], order[o] = order[o], order[j]
			}
			for _, j := range order {
				inc[0] = append(inc[0], names[j])
			}
			g.stats.Inc("read.layout.list")
		case 1: // globs
			inc[0] = append(inc[0], "conf.d/*.dae")
			if k > 3 {
				inc[0] = append(inc[0], g.pick("*.dae", "dns.dae", "[d]ns.dae"))
			}
			if k > 4 {
				inc[0] = append(inc[0], "conf.d/*/*.dae")
			}
			g.stats.Inc("read.layout.glob")
		case 2: // a chain
			for j := 0; j+1 < k; j++ {
				inc[j] = append(inc[j], names[j+1])
			}
			g.stats.Inc("read.layout.chain")
		default: // a tree: every file is included by an earlier one
			for j := 1; j < k; j++ {
				o := g.r.Intn(j)
				inc[o] = append(inc[o], names[j])
			}
			g.stats.Inc("read.layout.tree")
		}
	} else {
		g.stats.Inc("read.layout.single-file")
	}
	if g.r.Chance(0.12) { // a troublesome member somewhere
		j := g.r.Intn(k)
		v := g.pick("config.dae", "../outside.dae", "notes.txt", "missing.dae", "conf.d", names[j], "/etc/passwd")
		inc[j] = append(inc[j], v)
		_ = os.MkdirAll(filepath.Dir(filepath.Join(root, "notes.txt")), 0o750)
		_ = os.WriteFile(filepath.Join(root, "notes.txt"), []byte("node { 'x' }\n"), 0o600)
		_ = os.WriteFile(filepath.Join(filepath.Dir(root), "outside.dae"), []byte("node { outside }\n"), 0o600)
		g.stats.Inc("read.troublesome-include")
	}
	for j := 0; j < k; j++ {
		text := body[j].String()
		if len(inc[j]) > 0 {
			h := "include {\n"
			for _, v := range inc[j] {
				h += "  '" + v + "'\n"
				incVals = append(incVals, v)
			}
			h += "}\n"
			if g.r.Chance(0.3) {
				text = text + h // the include section may stand anywhere in the file
			} else {
				text = h + text
			}
		}
		perm := os.FileMode(0o600)
		switch x := g.r.Intn(40); {
		case x == 0:
			perm = 0o644
			g.stats.Inc("read.file-too-open")
		case x < 8:
			perm = 0o640
		}
		p := filepath.Join(root, names[j])
		_ = os.MkdirAll(filepath.Dir(p), 0o750)
		_ = os.WriteFile(p, []byte(text), perm)
		_ = os.Chmod(p, perm)
	}
	g.stats.Inc(fmt.Sprintf("read.files.%d", k))
	return filepath.Join(root, names[0]), incVals
}

func TestVerifC17Config(t *testing.T) {
	shard, shards := VEnvInt("VERIF_SHARD", 0), VEnvInt("VERIF_SHARDS", 1)
	r := NewVRand(VSeed()*7919 + 17 + uint64(shard))
	stats := NewVStats()
	name := fmt.Sprintf("c17c%d", shard)
	st := VOpenStream(name)
	defer func() { st.Close(); stats.Write(name) }()

	st.Emit(c17ProbeClasses(t, stats), "classes ok")
	schema := c17ProbeSchema()
	st.Emit(schema.line(), "schema ok")
	g := &c17CGen{r: r, s: schema, stats: stats}

	// ---- config.New
	n := VEnvInt("VERIF_C17_CONFIG_N", 4000)
	if VThorough() {
		n = VEnvInt("VERIF_C17_CONFIG_N", 40000)
	}
	n /= shards
	emitC := func(in string) {
		out, vals := c17NewOut(in)
		seen := map[string]bool{}
		var entries []string
		for _, v := range vals {
			if seen[v] {
				continue
			}
			seen[v] = true
			for k := range schema.kinds {
				entries = append(entries, schema.oracleEntry(k, v))
			}
			entries = append(entries, schema.oracleEntry(100, v), schema.oracleEntry(101, v))
		}
		entries = append(entries, schema.oracleEntry(100, ""), schema.oracleEntry(101, ""))
		switch {
		case strings.HasPrefix(out, "ok"):
			stats.Inc("cfg.result.ok")
		case strings.HasPrefix(out, "crash"):
			stats.Inc("cfg.result.CRASH")
		default:
			cls := out
			if i := strings.Index(cls, "@"); i >= 0 {
				cls = cls[:i]
			}
			stats.Inc("cfg.result." + cls)
		}
		st.Emit(fmt.Sprintf("c %s %d %s", c17H(in), len(entries), strings.Join(entries, " ")), out)
	}
	if shard == 0 {
		for _, s := range c17FixedConfigs {
			emitC(s)
		}
	}
	for i := 0; i < n; i++ {
		in := g.config()
		if i < 3 && shard == 0 {
			stats.Sample("config: " + in)
		}
		emitC(in)
	}

	// ---- FuzzyDecode against its SPECIFICATION (bool word table, Go integer literals ranged to the type)
	if shard == 0 {
		decVals := []string{"", " ", "0", "1", "-0", "+0", "00", "07", "08", "0x", "0x0", "0X1f", "0b", "0b2", "0B101", "0o", "0o17", "0O8", "1_000", "1__0", "_1", "1_", "0x_1", "0_x1", "0_7", "0x1_f", "-_1", "+5", "-5", "--5", "+-5", "5+", "1e3", "1.0", "١", "１",
			"255", "256", "-128", "-129", "127", "128", "65535", "65536", "0x10000", "4294967295", "4294967296", "2147483647", "2147483648", "-2147483648", "-2147483649",
			"9223372036854775807", "9223372036854775808", "-9223372036854775808", "-9223372036854775809", "18446744073709551615", "18446744073709551616", "0xffffffffffffffff", "0x10000000000000000", "99999999999999999999999999",
			"true", "TRUE", "True", "tRuE", "t", "T", "1", "y", "Y", "yes", "YES", "on", "ON", "false", "FALSE", "f", "F", "n", "no", "NO", "off", "OFF", "tru", "yess", " true", "true ", "2", "ye", "oN", "İ", "ｔｒｕｅ",
			"enable", "enabled", "disable", "disabled", "ok", "none", "null", "nil", "si", "ja", "o", "of", "tr", "fa", "fals", "-1", "01", "00", "0x1", "1.0", "+1", "t\x00", "on\n", "\ttrue"}
		for i := 0; i < 600; i++ { // random integer-like strings
			const alpha = "0123456789abcxXoObB_+-"
			n := 1 + r.Intn(8)
			b := make([]byte, n)
			for j := range b {
				b[j] = alpha[r.Intn(len(alpha))]
			}
			decVals = append(decVals, string(b))
		}
		for _, v := range []string{"GET", "POST", "PUT", "PATCH", "DELETE", "COPY", "HEAD", "OPTIONS", "LINK", "UNLINK", "PURGE", "LOCK", "UNLOCK", "PROPFIND", "CONNECT", "TRACE",
			"get", "Head", "CONNECT ", " GET", "", "FOO", "GETS", "HEA", "QUERY", "head", "TRACE\n"} {
			res, ok := schema.oracle(101, v) // common.IsValidHttpMethod against its word list
			out := "err"
			if ok {
				out = "ok " + c17Esc(res)
			}
			st.Emit(fmt.Sprintf("d 101 %s", c17H(v)), out)
		}
		for k := range schema.kinds {
			if c17SpecTag(schema.kinds[k]) == "o" {
				continue
			}
			for _, v := range decVals {
				res, ok := schema.oracle(k, v)
				out := "err"
				if ok {
					out = "ok " + c17Esc(res)
					stats.Inc("dec.accepted")
				} else {
					stats.Inc("dec.rejected")
				}
				st.Emit(fmt.Sprintf("d %d %s", k, c17H(v)), out)
			}
		}
		// the two kinds the model does not specify: the REAL FuzzyDecode / BootstrapResolvers against the
		// standard library's answer (op `do <kind> <val> <answer>`; the driver repeats the answer)
		durVals := []string{"", "0", "0s", "1s", "1.5h", "-1.5h", "+3m", "1h2m3s4ms5us6ns", "1µs", "1μs", "1us", ".5s", "5.s", ".s", "1", "30", "s", "1x", "1d", "1w", "1e3s", " 1s", "1s ", "1 s",
			"9223372036854775807ns", "9223372036854775808ns", "-9223372036854775808ns", "-9223372036854775809ns", "2562047h47m16.854775807s", "2562047h47m16.854775808s", "2562048h",
			"0.000000000000000000000001s", "1.0000000000000000000000000001h", "3000000h", "1H", "1S", "1Ms", "١s", "1m-1s", "--1s", "+-1s", "-+1s", "+", "-", "1_0s", "0x10s", "1s1", "999999999999999999999s",
			"0.9223372036854775807h", "1.5", "ms", "1ms1", "1hh", "5m5", "1h1h", "00001s", "1.s2", "1..5s", "1,5s", "９s", "1ｓ", "1\u00b5s", "100000000000000000000ns", "0.1ns", "0.5ns", "1.999999999ns", "4294967296s", "1n", "1u", "1µ", "1min"}
		for i := 0; i < 400; i++ {
			const alpha = "0123456789.hmsnuµ+- "
			rs := []rune(alpha)
			n := 1 + r.Intn(7)
			b := make([]rune, n)
			for j := range b {
				b[j] = rs[r.Intn(len(rs))]
			}
			durVals = append(durVals, string(b))
		}
		for k := range schema.kinds {
			if schema.kinds[k] != reflect.TypeFor[time.Duration]() {
				continue
			}
			for _, v := range durVals {
				res, ok := schema.oracle(k, v) // common.FuzzyDecode
				out := "err"
				if ok {
					out = "ok " + c17Esc(res)
					stats.Inc("dec.duration.accepted")
				} else {
					stats.Inc("dec.duration.rejected")
				}
				st.Emit(fmt.Sprintf("do %s", schema.oracleEntry(k, v)), out)
			}
		}
		for _, v := range []string{"", " ", "\t\n", "8.8.8.8:53", " 8.8.8.8:53 ", "\t8.8.8.8:53\n", "8.8.8.8", "8.8.8.8:", ":53", "8.8.8.8:053", "8.8.8.8:65535", "8.8.8.8:65536", "8.8.8.8:0", "[::1]:53", "::1:53", "[::1]", "[::1]:",
			"[fe80::1%eth0]:53", "[fe80::1%]:53", "dns.google:53", "localhost:53", "1.2.3:53", "1.2.3.4.5:53", "01.2.3.4:53", "256.1.1.1:53", "[1.2.3.4]:53", "8.8.8.8:53:53", "8.8.8.8:-1", "8.8.8.8:+53",
			"8.8.8.8:5 3", "8.8.8.8 :53", "[::ffff:1.2.3.4]:53", "[::]:0", "[:::]:53", "[1:2:3:4:5:6:7:8]:1", "[1:2:3:4:5:6:7:8:9]:1", "[1::2::3]:1", "8.8.8.8：53", "８.8.8.8:53", "udp://8.8.8.8:53", "8.8.8.8:53/", "x", "119.29.29.29:53,223.5.5.5:53"} {
			res, ok := schema.oracle(100, v) // config.BootstrapResolvers
			out := "err"
			if ok {
				out = "ok " + c17Esc(res)
				stats.Inc("dec.addrport.accepted")
			} else {
				stats.Inc("dec.addrport.rejected")
			}
			st.Emit(fmt.Sprintf("do %s", schema.oracleEntry(100, v)), out)
		}
	}

	// ---- lexical path functions
	comps := []string{"a", "b", "..", ".", "", "sub", "x.dae", "..a", "...", "a.dae"}
	np := 3000 / shards
	if VThorough() {
		np = 40000 / shards
	}
	genPath := func() string {
		k := r.Intn(6)
		parts := make([]string, k)
		for i := range parts {
			parts[i] = comps[r.Intn(len(comps))]
		}
		p := strings.Join(parts, "/")
		if r.Chance(0.4) {
			p = "/" + p
		}
		if r.Chance(0.1) {
			p += "/"
		}
		return p
	}
	for i := 0; i < np; i++ {
		a, b := genPath(), genPath()
		if r.Chance(0.3) { // b = some ancestor-ish of a
			b = filepath.Dir(a)
			if r.Chance(0.5) {
				b = filepath.Dir(b)
			}
		}
		out := VRecover(func() string {
			return fmt.Sprintf("clean=%s join=%s dir=%s abs=%s sub=%s", c17Esc(filepath.Clean(a)), c17Esc(filepath.Join(a, b)), c17Esc(filepath.Dir(a)),
				c17B(filepath.IsAbs(a)), c17B(common.EnsureFileInSubDir(a, b) == nil))
		})
		if common.EnsureFileInSubDir(a, b) == nil {
			stats.Inc("path.sub.accepted")
		} else {
			stats.Inc("path.sub.rejected")
		}
		st.Emit("path "+c17H(a)+" "+c17H(b), out)
	}

	// ---- Merger over real directory trees
	nm := VEnvInt("VERIF_C17_MERGE_N", 1000)
	if VThorough() {
		nm = VEnvInt("VERIF_C17_MERGE_N", 10000)
	}
	nm /= shards
	base, err := os.MkdirTemp("", "c17m")
	if err != nil {
		t.Fatal(err)
	}
	// $TMPDIR may contain a symbolic link: os.Getwd() after Chdir and inotify report the RESOLVED path,
	// so the whole tree is created and described under its resolved name
	if rb, err := filepath.EvalSymlinks(base); err == nil {
		base = rb
	}
	defer os.RemoveAll(base)
	nDirected := 0
	if shard == 0 {
		nDirected = len(c17DirectedTrees("/x"))
	}
	for i := 0; i < nDirected+nm; i++ {
		etcName, sibling := "etc", ""
		if i >= nDirected || i%3 == 2 {
			switch k := r.Intn(100); {
			case k < 4:
				etcName, sibling = "et[c]", "etc"
			case k < 8:
				etcName, sibling = "dae[1]", "dae1"
			case k < 11:
				etcName, sibling = "e?c", "eXc"
			case k < 14:
				etcName, sibling = "e*c", "eXYc"
			case k < 17:
				etcName, sibling = "e\\c", "ec"
			}
		}
		if sibling != "" {
			stats.Inc("inc.entry-dir-with-glob-metacharacter." + etcName)
		}
		root := filepath.Join(base, fmt.Sprintf("t%d", i), etcName)
		var files []c17File
		var entry string
		var incVals []string
		if i < nDirected {
			d := c17DirectedTrees(root)[i]
			for rel, content := range d.files {
				files = append(files, c17File{rel: rel, perm: 0o600, content: content})
			}
			entry, incVals = filepath.Join(root, d.entryRel), d.incVals
			stats.Inc("inc.directed." + d.name)
		} else {
			files, entry, incVals = g.includeTree(root)
		}
		_ = os.MkdirAll(root, 0o750)
		if sibling != "" { // a neighbour directory the unquoted directory name would match as a pattern
			for _, n := range []string{"a.dae", "b.dae", "config.dae", "sub/c.dae", "sub/d.dae"} {
				p := filepath.Join(filepath.Dir(root), sibling, n)
				_ = os.MkdirAll(filepath.Dir(p), 0o750)
				_ = os.WriteFile(p, []byte("node {\n  sibling_"+strings.NewReplacer("/", "_", ".", "_").Replace(n)+": 'x'\n}\n"), 0o600)
			}
		}
		// a directory unrelated to the entry directory ("distribution rule sets"): absolute includes into it
		// must be refused, and it is watched like the tree itself
		trusted := filepath.Join(base, fmt.Sprintf("t%d-share", i), "dae")
		_ = os.MkdirAll(trusted, 0o750)
		_ = os.WriteFile(filepath.Join(trusted, "rules.dae"), []byte("node {\n  shared_rules: 'x'\n}\n"), 0o600)
		outside := filepath.Join(filepath.Dir(root), "outside.dae")
		switch r.Intn(6) { // what lies outside the entry directory varies: readable, too open, broken, a directory, absent
		case 0:
			_ = os.WriteFile(outside, []byte("node { outside }\n"), 0o666)
			_ = os.Chmod(outside, 0o666)
			stats.Inc("inc.outside.too-open")
		case 1:
			_ = os.WriteFile(outside, []byte("node { outside \n"), 0o600)
			stats.Inc("inc.outside.syntax-error")
		case 2:
			_ = os.MkdirAll(outside, 0o750)
			stats.Inc("inc.outside.directory")
		case 3:
			stats.Inc("inc.outside.absent")
		default:
			_ = os.WriteFile(outside, []byte("node { outside }\n"), 0o600)
			stats.Inc("inc.outside.readable")
		}
		for _, f := range files {
			p := filepath.Join(root, f.rel)
			_ = os.MkdirAll(filepath.Dir(p), 0o750)
			if f.dir {
				_ = os.MkdirAll(p, 0o750)
				continue
			}
			if f.link && f.target != "" {
				if filepath.Base(f.target) == "outdir" {
					_ = os.MkdirAll(f.target, 0o750)
					_ = os.WriteFile(filepath.Join(f.target, "x.dae"), []byte("node {\n  through_outlink: 'x'\n}\n"), 0o600)
					_ = os.WriteFile(filepath.Join(f.target, "notes.txt"), []byte("node { 'x' }\n"), 0o600)
				}
				_ = os.MkdirAll(f.target, 0o750)
				_ = os.Symlink(f.target, p)
				continue
			}
			if f.link {
				_ = os.Symlink(filepath.Join(root, "does-not-exist"), p)
				continue
			}
			_ = os.WriteFile(p, []byte(f.content), f.perm)
			_ = os.Chmod(p, f.perm)
		}
		if i >= nDirected && r.Chance(0.08) { // an absolute include into the unrelated directory
			v := g.pick(filepath.Join(trusted, "rules.dae"), filepath.Join(trusted, "*.dae"))
			if b, err := os.ReadFile(entry); err == nil {
				_ = os.WriteFile(entry, append([]byte("include {\n  '"+v+"'\n}\n"), b...), 0)
				incVals = append(incVals, v)
				stats.Inc("inc.absolute-include-into-unrelated-dir")
			}
		}
		if i >= nDirected && r.Chance(0.03) { // a file larger than 64 KiB (1 MiB in thorough): nothing may be cut
			size := 70000
			if VThorough() && r.Chance(0.3) {
				size = 1100000
			}
			if b, err := os.ReadFile(entry); err == nil {
				pad := strings.Repeat("# "+strings.Repeat("x", 61)+"\n", size/64)
				_ = os.WriteFile(entry, append(append([]byte(pad), b...), []byte("node {\n  after_the_padding: 'x'\n}\n")...), 0)
				stats.Inc("inc.large-file")
			}
		}
		if i >= nDirected && r.Chance(0.03) { // invalid UTF-8 in a file
			if b, err := os.ReadFile(entry); err == nil {
				_ = os.WriteFile(entry, append(b, []byte("node {\n  latin1: 'p\xe9ss'\n}\n")...), 0)
				stats.Inc("inc.invalid-utf8-file")
			}
		}
		// the SPELLING of the entry path: production passes whatever the user typed after -c
		origWd, _ := os.Getwd()
		if i >= nDirected || i%2 == 1 {
			dir, baseName := filepath.Dir(entry), filepath.Base(entry)
			_ = os.MkdirAll(filepath.Join(dir, "sub"), 0o750)
			switch k := r.Intn(100); {
			case k < 6: // relative, from the entry's own directory: entryDir = "."
				_ = os.Chdir(dir)
				entry = baseName
				stats.Inc("inc.entry-spelling.relative-here")
			case k < 11: // relative, from the parent directory
				_ = os.Chdir(filepath.Dir(dir))
				entry = filepath.Base(dir) + "/" + baseName
				stats.Inc("inc.entry-spelling.relative-from-parent")
			case k < 16: // relative with a leading ..
				_ = os.Chdir(filepath.Join(dir, "sub"))
				entry = "../" + baseName
				stats.Inc("inc.entry-spelling.relative-dotdot")
			case k < 20:
				entry = dir + "/./" + baseName
				stats.Inc("inc.entry-spelling.abs-dot")
			case k < 24:
				entry = dir + "/sub/../" + baseName
				stats.Inc("inc.entry-spelling.abs-dotdot")
			case k < 27:
				entry = dir + "//" + baseName
				stats.Inc("inc.entry-spelling.abs-double-slash")
			case k < 30:
				entry = entry + "/"
				stats.Inc("inc.entry-spelling.trailing-slash")
			case k < 35: // a symbolic link in the entry directory pointing to the entry file
				link := filepath.Join(dir, "link.dae")
				if os.Symlink(entry, link) == nil {
					entry = link
					stats.Inc("inc.entry-spelling.symlink-inside")
				}
			case k < 38: // a symbolic link pointing OUT of the entry directory (lexical confinement follows it)
				link := filepath.Join(dir, "link.dae")
				if os.Symlink(outside, link) == nil {
					entry = link
					stats.Inc("inc.entry-spelling.symlink-outside")
				}
			default:
				stats.Inc("inc.entry-spelling.clean-absolute")
			}
		}
		steps := 1
		if i >= nDirected && r.Chance(0.1) {
			// a RELOAD HISTORY: the same tree, under the same paths, is merged again after files were edited,
			// removed, created or re-chmod-ed in between (production re-reads the configuration on every
			// reload with a fresh Merger; nothing of an earlier read may survive)
			steps = 3
			stats.Inc("inc.history.trees")
		}
		for step := 0; step < steps; step++ {
			if step > 0 {
				files2, _, inc2 := g.includeTree(root)
				incVals = append(incVals, inc2...)
				for _, f := range files2 {
					if f.dir || f.link {
						continue
					}
					p := filepath.Join(root, f.rel)
					if fi, err := os.Lstat(p); err == nil && !fi.Mode().IsRegular() {
						continue
					}
					switch k := r.Intn(10); {
					case k < 3:
						_ = os.MkdirAll(filepath.Dir(p), 0o750)
						_ = os.Remove(p)
						_ = os.WriteFile(p, []byte(f.content), f.perm)
						_ = os.Chmod(p, f.perm)
						stats.Inc("inc.history.edit")
					case k == 3:
						_ = os.Remove(p)
						stats.Inc("inc.history.remove")
					case k == 4:
						_ = os.Chmod(p, f.perm)
						stats.Inc("inc.history.chmod")
					}
				}
				stats.Inc(fmt.Sprintf("inc.history.step%d", step))
			}
			desc := c17Describe([]string{filepath.Dir(root), filepath.Dir(trusted)}, entry, incVals)
			cwd, fw, nFiles, gw, nGlobs, watchDirs := desc.cwd, desc.fw, desc.nFiles, desc.gw, desc.nGlobs, desc.watchDirs
			watch, werr := c17WatchStart(watchDirs)
			if werr != nil {
				t.Fatalf("inotify: %v", werr)
			}
			out := VRecover(func() string {
				ss, entries, err := NewMerger(entry).Merge()
				if err != nil {
					return c17MergeErrClass(err)
				}
				sort.Strings(entries)
				for j := range entries {
					entries[j] = c17Esc(entries[j])
				}
				return "ok " + c17SectionsSorted(ss) + " entries=" + strings.Join(entries, ",")
			})
			openedReal := watch.Drain()
			for j := range openedReal {
				if !strings.HasSuffix(openedReal[j], ".dae") {
					stats.Inc("inc.opened.NOT-DAE")
				}
				if strings.Contains(openedReal[j], "/outdir/") {
					stats.Inc("inc.opened.through-directory-link-leading-outside")
				}
				absDir, _ := filepath.Abs(filepath.Dir(entry))
				if rel, err := filepath.Rel(absDir, openedReal[j]); err != nil || strings.HasPrefix(rel, "..") {
					stats.Inc("inc.opened.real-file-outside-entry-dir(symlink)")
				}
				openedReal[j] = c17Esc(openedReal[j])
			}
			stats.Add("inc.opened.files", len(openedReal))
			out += " opened=" + strings.Join(openedReal, ",")
			cls, _, _ := strings.Cut(out, " opened=")
			if strings.HasPrefix(out, "ok") {
				cls = "ok"
				stats.Add("inc.files-merged", strings.Count(strings.SplitN(out, " opened=", 2)[0], ",")+1)
			}
			stats.Inc("inc.result." + cls)
			if i < nDirected+2 && shard == 0 {
				stats.Sample("merge: " + out)
			}
			if steps > 1 {
				stats.Inc("inc.history.result." + cls)
			}
			st.Emit(fmt.Sprintf("m %s C %s F %d %s G %d %s", c17H(entry), c17H(cwd), nFiles, strings.Join(fw, " "), nGlobs, strings.Join(gw, " ")), out)
		} // steps
		i += steps - 1 // a history takes its steps out of the merge budget
		_ = os.Chdir(origWd)
		_ = os.RemoveAll(filepath.Join(base, fmt.Sprintf("t%d", i)))
		_ = os.RemoveAll(filepath.Join(base, fmt.Sprintf("t%d-share", i)))
	}

	// ---- the production composition Merger.Merge ; config.New (what cmd.readConfig does) on trees whose
	// files carry REAL configuration content split over the entry and its includes: list keys, scalar keys,
	// rules, groups and whole sections repeated across files
	nr := VEnvInt("VERIF_C17_READ_N", 300)
	if VThorough() {
		nr = VEnvInt("VERIF_C17_READ_N", 3000)
	}
	nr /= shards
	for i := 0; i < nr; i++ {
		root := filepath.Join(base, fmt.Sprintf("r%d", i), "etc")
		entry, incVals := g.richTree(root)
		desc := c17Describe([]string{filepath.Dir(root)}, entry, incVals)
		var vals []string
		out := VRecover(func() string {
			ss, _, err := NewMerger(entry).Merge()
			if err != nil {
				return "err:merge:" + strings.TrimPrefix(c17MergeErrClass(err), "err:")
			}
			for _, s := range ss {
				c17CollectVals(s.Items, &vals)
			}
			conf, err := New(ss)
			if err != nil {
				if conf != nil {
					return "err-with-config"
				}
				return c17ErrClass(err)
			}
			var leaves []string
			c17Leaves("", reflect.ValueOf(conf).Elem(), &leaves)
			sort.Strings(leaves)
			return "ok " + strings.Join(leaves, ";")
		})
		seen := map[string]bool{}
		var entries []string
		for _, v := range vals {
			if seen[v] {
				continue
			}
			seen[v] = true
			for k := range schema.kinds {
				entries = append(entries, schema.oracleEntry(k, v))
			}
			entries = append(entries, schema.oracleEntry(100, v))
		}
		entries = append(entries, schema.oracleEntry(100, ""))
		switch {
		case strings.HasPrefix(out, "ok"):
			stats.Inc("read.result.ok")
		case strings.HasPrefix(out, "err:merge"):
			stats.Inc("read.result.err:merge")
		case strings.HasPrefix(out, "crash"):
			stats.Inc("read.result.CRASH")
		default:
			stats.Inc("read.result.err:new")
		}
		if i < 2 && shard == 0 {
			stats.Sample("read: " + out)
		}
		st.Emit(fmt.Sprintf("r %s C %s F %d %s G %d %s O %d %s", c17H(entry), c17H(desc.cwd), desc.nFiles, strings.Join(desc.fw, " "), desc.nGlobs, strings.Join(desc.gw, " "),
			len(entries), strings.Join(entries, " ")), out)
		_ = os.RemoveAll(filepath.Join(base, fmt.Sprintf("r%d", i)))
	}
}
