package control

// C10 correspondence harness.
//
// Real code under test (from /repo's working tree, compiled in-package):
//   * control/domain_routing_tracker.go  (buildDomainRoutingOwnerSnapshot, syncOwner, applyOwnerSnapshotLocked)
//   * control/control_plane_core.go      (BatchUpdateDomainRouting, BatchRemoveDomainRouting, extractIPsFromDnsCache)
//   * control/control_plane.go           (dnsControllerOption: which callback is wired to which Batch* call)
//   * control/dns_control.go             (UpdateDnsCacheTtlWithKey, RemoveDnsRespCache, RemoveDnsRespCacheFamily,
//                                         LookupDnsRespCache, evictExpiredDnsCache/evictLRUIfFull,
//                                         triggerBpfUpdateIfNeeded, processBpfUpdateTask)
//
// REAL build of package control (no dae_stub_ebpf tag; synthetic bpf2go file from translators/fakebpf).
// The batches that syncOwner sends to domain_routing_map are observed through VerifC10Batch*Hook, three
// package-level variables that exist only in the copy of control/bpf_utils.go that translators/c10wrap generates
// on every run (overlay REPLACE; /repo is not touched): BpfMapBatchUpdate / BpfMapBatchDelete /
// BpfMapBatchDeleteAll are renamed and wrapped, the hook gets a closure running the production function.
// Two table modes per history: `shadow` (DomainRoutingMap is a zero-value *ebpf.Map, the hooks keep a Go map;
// the production batch functions are not run) and `kernel map` (DomainRoutingMap is a real BPF_MAP_TYPE_HASH with
// BPF_F_NO_PREALLOC created by this process, the production batch functions run on it through the hooks, the
// table is read back from the kernel; small max_entries make the kernel refuse batches half-way).
// translators/c10wrap also regenerates the DNS steps of CommitPreparedDatapath / of newControlPlane's non-delayed
// tail from control_plane.go (verifC10CommitPreparedDatapathDNS, verifC10NewControlPlaneTailDNS).
//
// Three streams, all replayed by lean/DaeVerif/C10/Main.lean. Every answer line is `strict ## drift`:
// strict = what the property speaks about (call accepted or not, fingerprint of the whole table, cache
// contents, mirror flag), drift = bookkeeping (batch shapes, refresh queue, expiry/refresh/LRU policy, stamps).
//   c10t : tnew [cap] | order <key>* | tupd <ok|uf|df> <owner> <bmlen> <bits> <ans>* | trm <ok|uf|df> <owner> | tnil upd|rm |
//          tnobpf upd|rm <owner> | tnomap <owner> <bits> <ans>* | tclear | tdump   (uf/df: the update / delete batch syscall fails;
//          cap: max_entries of the real kernel map; order: the order in which the next update batch was sent)
//   c10c : cnew <opt> <optTtl> <max> <real> | [!uf:<owner>|!df:<owner>]* <op> where <op> = put <stored> <key|~> <fqdn> <qtype> <ttl>
//          <fixedTtl|-> <bits> <ans>* | del <key> | fam <base> <evicted keys>* | look <key> <ignoreFixed> <evicted> <queued> |
//          jan <evicted keys>* | sleep <ns> | work | touch <key> | hot <key> <packed> <evicted> <queued> | reload <key=bits>* | cdump
//          (!uf / !df: an injected failure of the update / delete batch fired inside that owner's tracker call)
//   c10s : snew <n> | scall <tid> <owner> <bits|rm> <ans>* | sgo <tid> | sdump   (goroutine schedules; the batch hooks are yield points)
// Virtual time: every cache history runs inside a testing/synctest bubble; every cache op starts 1 ns after
// the previous one (no equal LRU stamps => runs are reproducible for a seed).

import (
	"encoding/binary"
	"encoding/hex"
	"errors"
	"fmt"
	"io"
	"net"
	"os"
	"path/filepath"
	"reflect"
	"runtime"
	"sort"
	"strconv"
	"strings"
	"sync"
	"sync/atomic"
	"testing"
	"testing/synctest"
	"time"
	"unsafe"

	"github.com/cilium/ebpf"
	"github.com/daeuniverse/dae/common/consts"
	dnsmessage "github.com/miekg/dns"
	"github.com/sirupsen/logrus"
)

// ---------------------------------------------------------------------------------------------
// observation of the kernel-map batches

type c10Call struct {
	owner string
	ups   map[[16]byte][32]uint32
	dels  [][16]byte
	nUpd  int // number of BpfMapBatchUpdate invocations inside this call
	nDel  int
	order []string // "u" / "d" in the order the batch functions were invoked
}

type c10Observer struct {
	shadow map[[16]byte][32]uint32 // what domain_routing_map holds (shadow mode)
	// kernel-map mode: the table IS this real BPF hash map, the production batch functions run on it
	kmap  *ebpf.Map
	cur   *c10Call
	calls []*c10Call
	stats *VStats
	// failure injection: the next batch update / delete syscall fails (atomically), or the n-th from now
	failUpd, failDel     bool
	failUpdAt, failDelAt int
	injected             bool // an injected failure fired since the flag was last cleared
	// a delete batch named a key the table does not hold: on a real kernel the batch stops there
	badDelete bool
	fired     []string   // "uf" / "df" for every injected failure that fired
	lastOrder [][16]byte // keys of the last domain update batch, in the order they were sent
	natural   bool       // the kernel refused a batch by itself (capacity)
	sched     *c10Sched  // schedule stream: the hooks are yield points
}

var errC10Injected = errors.New("c10: injected batch failure")

func c10KeyBytes(k [4]uint32) [16]byte { return *(*[16]byte)(unsafe.Pointer(&k)) }

const c10ProductionMaxEntries = 65536 // MAX_DOMAIN_ROUTING_NUM

var c10KmapUnavailable bool

// switch to a fresh real kernel hash map (same type, flags, key and value sizes as domain_routing_map)
func (o *c10Observer) useKernelMap(maxEntries int) bool {
	o.useShadow()
	m, err := ebpf.NewMap(&ebpf.MapSpec{Type: ebpf.Hash, KeySize: 16, ValueSize: uint32(unsafe.Sizeof(bpfDomainRouting{})),
		MaxEntries: uint32(maxEntries), Flags: 1 /* BPF_F_NO_PREALLOC */})
	if err != nil {
		c10KmapUnavailable = true
		o.stats.Inc("kmap.unavailable_no_bpf_privilege")
		return false
	}
	o.kmap = m
	return true
}

func (o *c10Observer) useShadow() {
	if o.kmap != nil {
		_ = o.kmap.Close()
		o.kmap = nil
	}
	o.shadow = map[[16]byte][32]uint32{}
}

// the map handed to the code under test
func (o *c10Observer) domainMap() *ebpf.Map {
	if o.kmap != nil {
		return o.kmap
	}
	return new(ebpf.Map)
}

// what domain_routing_map holds right now
func (o *c10Observer) table() map[[16]byte][32]uint32 {
	if o.kmap == nil {
		return o.shadow
	}
	res := map[[16]byte][32]uint32{}
	var k [4]uint32
	var v bpfDomainRouting
	it := o.kmap.Iterate()
	for it.Next(&k, &v) {
		res[c10KeyBytes(k)] = v.Bitmap
	}
	if err := it.Err(); err != nil {
		panic("c10: iterating the kernel map: " + err.Error())
	}
	return res
}

func (o *c10Observer) noteFired(kind string) {
	o.injected = true
	o.fired = append(o.fired, kind)
}

// the kinds ("uf" / "df") of the injected failures that fired; disarms what did not fire
func (o *c10Observer) takeFired() []string {
	f := o.fired
	o.fired = nil
	o.failUpd, o.failDel, o.failUpdAt, o.failDelAt = false, false, 0, 0
	return f
}

func (o *c10Observer) install() {
	VerifC10BatchUpdateHook = func(m *ebpf.Map, keys interface{}, values interface{}, real func() (int, error)) (int, error) {
		ks, isDomain := keys.([][4]uint32)
		if !isDomain {
			return 0, nil // another map (routing_map during BuildKernspace): not C10's subject
		}
		vs := values.([]bpfDomainRouting)
		if len(ks) != len(vs) {
			panic("c10: keys/values length differ")
		}
		if o.sched != nil {
			o.sched.park(c10ParkedUpd) // yield point: inside syncOwner, before the update batch is written
		}
		fail := o.failUpd
		if o.failUpdAt > 0 {
			if o.failUpdAt--; o.failUpdAt == 0 {
				fail = true
			}
		}
		if fail {
			o.failUpd = false
			o.noteFired("uf")
			o.stats.Inc("inject.update_batch_failed")
			return 0, errC10Injected
		}
		o.lastOrder = o.lastOrder[:0]
		seen := map[[16]byte]bool{}
		for _, k := range ks {
			kb := c10KeyBytes(k)
			if seen[kb] {
				panic("c10: duplicate key in one update batch")
			}
			seen[kb] = true
			o.lastOrder = append(o.lastOrder, kb)
		}
		n := len(ks)
		if o.kmap != nil {
			if m != o.kmap {
				panic("c10: update batch sent to a map that is not this generation's domain_routing_map")
			}
			var err error
			if n, err = real(); err != nil { // the PRODUCTION BpfMapBatchUpdate on the real kernel map
				o.natural = true
				o.stats.Inc("inject.update_batch_refused_by_kernel")
				return n, err
			}
		} else {
			for i, k := range ks {
				o.shadow[c10KeyBytes(k)] = vs[i].Bitmap
			}
		}
		if o.cur != nil {
			o.cur.nUpd++
			o.cur.order = append(o.cur.order, "u")
			for i, k := range ks {
				o.cur.ups[c10KeyBytes(k)] = vs[i].Bitmap
			}
		}
		return n, nil
	}
	VerifC10BatchDeleteHook = func(m *ebpf.Map, keys interface{}, real func() (int, error)) (int, error) {
		ks, isDomain := keys.([][4]uint32)
		if !isDomain {
			return 0, nil // another map: not C10's subject
		}
		if o.sched != nil {
			o.sched.park(c10ParkedDel) // yield point: inside syncOwner, before the delete batch is written
		}
		fail := o.failDel
		if o.failDelAt > 0 {
			if o.failDelAt--; o.failDelAt == 0 {
				fail = true
			}
		}
		if fail {
			o.failDel = false
			o.noteFired("df")
			o.stats.Inc("inject.delete_batch_failed")
			return 0, errC10Injected
		}
		n := len(ks)
		if o.kmap != nil {
			if m != o.kmap {
				panic("c10: delete batch sent to a map that is not this generation's domain_routing_map")
			}
			var err error
			if n, err = real(); err != nil { // the PRODUCTION BpfMapBatchDelete on the real kernel map
				o.natural = true
				return n, err
			}
		} else {
			for _, k := range ks {
				kb := c10KeyBytes(k)
				if _, has := o.shadow[kb]; !has {
					o.badDelete = true
				}
				delete(o.shadow, kb)
			}
		}
		if o.cur != nil {
			o.cur.nDel++
			o.cur.order = append(o.cur.order, "d")
			for _, k := range ks {
				o.cur.dels = append(o.cur.dels, c10KeyBytes(k))
			}
		}
		return n, nil
	}
	VerifC10BatchDeleteAllHook = func(m *ebpf.Map, real func() error) error {
		if o.kmap != nil {
			if m != o.kmap {
				panic("c10: delete-all sent to a map that is not this generation's domain_routing_map")
			}
			// the PRODUCTION BpfMapBatchDeleteAll (batch lookup in chunks of 256, deletes in chunks of 1024); its
			// chunk deletes come back through the delete hook, which must not count them as a syncOwner batch
			saveCur, saveAt, saveSched := o.cur, o.failDelAt, o.sched
			o.cur, o.failDelAt, o.sched = nil, 0, nil
			err := real()
			o.cur, o.failDelAt, o.sched = saveCur, saveAt, saveSched
			return err
		}
		for k := range o.shadow {
			delete(o.shadow, k)
		}
		return nil
	}
}

func (o *c10Observer) begin() { o.cur = &c10Call{ups: map[[16]byte][32]uint32{}} }
func (o *c10Observer) end(owner string, keep bool) {
	c := o.cur
	o.cur = nil
	o.failUpd, o.failDel = false, false
	if !keep && len(c.ups) == 0 && len(c.dels) == 0 {
		return
	}
	c.owner = owner
	o.calls = append(o.calls, c)
}

func c10Bits(words []uint32) string {
	var parts []string
	for w, v := range words {
		for b := 0; b < 32; b++ {
			if v&(1<<uint(b)) != 0 {
				parts = append(parts, strconv.Itoa(32*w+b))
			}
		}
	}
	if len(parts) == 0 {
		return "-"
	}
	return strings.Join(parts, ".")
}

func c10OwnerTok(s string) string {
	if s == "" {
		return "~"
	}
	return s
}

// bookkeeping: a delete batch named a key the table does not hold (harmless since BpfMapBatchDelete
// continues past a missing key, fix 3beb53a)
func (o *c10Observer) absentDelete() string {
	if o.badDelete {
		o.badDelete = false
		return " deleted-absent-key"
	}
	return ""
}

func (o *c10Observer) takeCalls() string {
	calls := o.calls
	o.calls = nil
	if len(calls) == 0 {
		return "calls=none" + o.absentDelete()
	}
	defer o.absentDelete()
	var sb strings.Builder
	sb.WriteString("calls=")
	for _, c := range calls {
		// the real code must send the update batch before the delete batch, each at most once
		if c.nUpd > 1 || c.nDel > 1 || strings.Join(c.order, "") == "du" {
			sb.WriteString("BAD-BATCH-ORDER")
		}
		o.stats.Add("emit.update_entries", len(c.ups))
		o.stats.Add("emit.delete_entries", len(c.dels))
		if len(c.ups) == 0 && len(c.dels) == 0 {
			o.stats.Inc("emit.empty_calls")
		}
		sb.WriteString(fmt.Sprintf("call(%s|u:%d:%d|d:%d:%d)", c10OwnerTok(c.owner), len(c.ups), c10FpPairs(c.ups), len(c.dels), c10FpKeys(c.dels)))
	}
	return sb.String()
}

func c10Mix(h, x uint64) uint64 { return (h ^ x) * 1099511628211 }

// FNV-1a style fingerprint over sorted (key, bitmap) pairs: low and high 64 bits of the key, then the 16
// 64-bit limbs of the bitmap (same function in Main.lean)
func c10FpPairs(m map[[16]byte][32]uint32) uint64 {
	keys := make([][16]byte, 0, len(m))
	for k := range m {
		keys = append(keys, k)
	}
	sort.Slice(keys, func(i, j int) bool { return string(keys[i][:]) < string(keys[j][:]) })
	h := uint64(14695981039346656037)
	for _, k := range keys {
		h = c10Mix(h, binary.BigEndian.Uint64(k[8:]))
		h = c10Mix(h, binary.BigEndian.Uint64(k[:8]))
		v := m[k]
		for j := 0; j < 16; j++ {
			h = c10Mix(h, uint64(v[2*j])|uint64(v[2*j+1])<<32)
		}
	}
	return h
}

func c10FpKeys(ks [][16]byte) uint64 {
	keys := append([][16]byte(nil), ks...)
	sort.Slice(keys, func(i, j int) bool { return string(keys[i][:]) < string(keys[j][:]) })
	h := uint64(14695981039346656037)
	for _, k := range keys {
		h = c10Mix(h, binary.BigEndian.Uint64(k[8:]))
		h = c10Mix(h, binary.BigEndian.Uint64(k[:8]))
	}
	return h
}

// size and fingerprint of the whole table, compared on every line
func (o *c10Observer) tableFp() string {
	t := o.table()
	return fmt.Sprintf("k=%d t=%d", len(t), c10FpPairs(t))
}

func (o *c10Observer) kernelStr() string {
	var ents []string
	for k, v := range o.table() {
		ents = append(ents, hex.EncodeToString(k[:])+"="+c10Bits(v[:]))
	}
	sort.Strings(ents)
	return "kernel{" + strings.Join(ents, " ") + "}"
}

// ---------------------------------------------------------------------------------------------
// answers

// token forms: 4:<8 hex> (A, 4-byte net.IP)  m:<8 hex> (A, 16-byte v4-mapped net.IP)  6:<32 hex> (AAAA)
// bad (A with a 5-byte net.IP)  x (CNAME)
func c10MakeAns(tok, fqdn string) dnsmessage.RR {
	switch {
	case tok == "bad":
		return &dnsmessage.A{Hdr: dnsmessage.RR_Header{Name: fqdn, Rrtype: dnsmessage.TypeA, Class: dnsmessage.ClassINET}, A: net.IP{1, 2, 3, 4, 5}}
	case tok == "x":
		return &dnsmessage.CNAME{Hdr: dnsmessage.RR_Header{Name: fqdn, Rrtype: dnsmessage.TypeCNAME, Class: dnsmessage.ClassINET}, Target: "alias.example."}
	case strings.HasPrefix(tok, "4:"):
		b, _ := hex.DecodeString(tok[2:])
		return &dnsmessage.A{Hdr: dnsmessage.RR_Header{Name: fqdn, Rrtype: dnsmessage.TypeA, Class: dnsmessage.ClassINET}, A: net.IP(b)}
	case strings.HasPrefix(tok, "m:"):
		b, _ := hex.DecodeString(tok[2:])
		ip := make(net.IP, 16)
		ip[10], ip[11] = 0xff, 0xff
		copy(ip[12:], b)
		return &dnsmessage.A{Hdr: dnsmessage.RR_Header{Name: fqdn, Rrtype: dnsmessage.TypeA, Class: dnsmessage.ClassINET}, A: ip}
	case strings.HasPrefix(tok, "6:"):
		b, _ := hex.DecodeString(tok[2:])
		return &dnsmessage.AAAA{Hdr: dnsmessage.RR_Header{Name: fqdn, Rrtype: dnsmessage.TypeAAAA, Class: dnsmessage.ClassINET}, AAAA: net.IP(b)}
	}
	panic("c10: bad answer token " + tok)
}

// Independent oracle (does not call dnsAnswerIP / extractIPsFromDnsCache / netip): the 16-byte kernel keys
// an answer section lists.  A and AAAA payloads of 4 or 16 bytes; 4-byte payloads are v4-mapped; the
// all-zero 4-byte and the all-zero 16-byte payloads are the unspecified addresses and are skipped.
func c10OracleKeys(ans []dnsmessage.RR) map[[16]byte]bool {
	res := map[[16]byte]bool{}
	for _, rr := range ans {
		var raw []byte
		switch b := rr.(type) {
		case *dnsmessage.A:
			raw = b.A
		case *dnsmessage.AAAA:
			raw = b.AAAA
		default:
			continue
		}
		var k [16]byte
		switch len(raw) {
		case 4:
			if raw[0]|raw[1]|raw[2]|raw[3] == 0 {
				continue
			}
			k[10], k[11] = 0xff, 0xff
			copy(k[12:], raw)
		case 16:
			zero := true
			for _, x := range raw {
				if x != 0 {
					zero = false
				}
			}
			if zero {
				continue
			}
			copy(k[:], raw)
		default:
			continue
		}
		res[k] = true
	}
	return res
}

// ---------------------------------------------------------------------------------------------
// generators

type c10Gen struct {
	r     *VRand
	stats *VStats
	addrs []string // address pool of this history (answer tokens)
	bms   []string // bitmap pool
}

var c10SpecialAddrs = []string{
	"4:01020304", "m:01020304", "6:00000000000000000000ffff01020304", // one kernel key, three spellings
	"4:00000000", "6:00000000000000000000000000000000", // unspecified: never listed
	"4:ffffffff", "6:ffffffffffffffffffffffffffffffff",
	"6:00000000000000000000000000000001", "6:20010db8000000000000000000000001",
	"4:0a000001", "4:0a000002", "4:c0a80101", "6:fe800000000000000000000000000001",
}

func (g *c10Gen) newPools() {
	n := g.r.Range(1, 8)
	if g.r.Chance(0.4) {
		n = g.r.Range(1, 3) // small pool: almost every owner shares addresses with the others
	}
	g.addrs = g.addrs[:0]
	for i := 0; i < n; i++ {
		if g.r.Chance(0.75) {
			g.addrs = append(g.addrs, c10SpecialAddrs[g.r.Intn(len(c10SpecialAddrs))])
		} else if g.r.Bool() {
			g.addrs = append(g.addrs, fmt.Sprintf("4:%08x", uint32(g.r.U64())))
		} else {
			g.addrs = append(g.addrs, fmt.Sprintf("6:%016x%016x", g.r.U64(), g.r.U64()))
		}
	}
	g.bms = []string{"-", "0", "31", "32", "1023", "0.1", "5.40.700", "0.31.32.63.1023"}
	for i := 0; i < 3; i++ {
		seen := map[int]bool{}
		for j := g.r.Range(1, 4); j > 0; j-- {
			seen[g.r.Intn(1024)] = true
		}
		var bs []int
		for b := range seen {
			bs = append(bs, b)
		}
		sort.Ints(bs)
		var bits []string
		for _, b := range bs {
			bits = append(bits, strconv.Itoa(b))
		}
		g.bms = append(g.bms, strings.Join(bits, "."))
	}
	if g.r.Chance(0.1) { // all ones
		var bits []string
		for b := 0; b < 1024; b++ {
			bits = append(bits, strconv.Itoa(b))
		}
		g.bms = append(g.bms, strings.Join(bits, "."))
	}
}

func (g *c10Gen) bitmap() string {
	switch {
	case g.r.Chance(0.15):
		g.stats.Inc("gen.bitmap.zero")
		return "-"
	default:
		b := g.bms[1+g.r.Intn(len(g.bms)-1)]
		return b
	}
}

func (g *c10Gen) answers() []string {
	var n int
	switch x := g.r.Intn(100); {
	case x < 10:
		n = 0
		g.stats.Inc("gen.answers.empty")
	case x < 40:
		n = 1
	case x < 90:
		n = g.r.Range(1, 5)
	case x < 96 || g.r.Chance(0.9):
		if x < 96 {
			n = g.r.Range(1, 5)
			break
		}
		n = g.r.Range(6, 64) // CDN-sized RRsets
		g.stats.Inc("gen.answers.large_6_64")
	default:
		n = 300
		g.stats.Inc("gen.answers.huge_300")
	}
	var res []string
	for i := 0; i < n; i++ {
		switch {
		case n > 5 && g.r.Chance(0.8): // large sets need more addresses than the pool has
			res = append(res, fmt.Sprintf("4:%08x", 0x0b000000+uint32(g.r.Intn(400))+1))
		case g.r.Chance(0.05):
			res = append(res, "bad")
			g.stats.Inc("gen.answers.bad_ip")
		case g.r.Chance(0.08):
			res = append(res, "x")
			g.stats.Inc("gen.answers.non_address")
		default:
			a := g.addrs[g.r.Intn(len(g.addrs))]
			if a == "4:00000000" || a == "6:00000000000000000000000000000000" {
				g.stats.Inc("gen.answers.unspecified")
			}
			res = append(res, a)
		}
	}
	if n > 1 && g.r.Chance(0.1) { // duplicate record
		res = append(res, res[0])
		g.stats.Inc("gen.answers.duplicate")
	}
	return res
}

func c10ParseBits(tok string, words int) []uint32 {
	res := make([]uint32, words)
	if tok == "-" {
		return res
	}
	for _, p := range strings.Split(tok, ".") {
		i, _ := strconv.Atoi(p)
		if i/32 < words {
			res[i/32] |= 1 << uint(i%32)
		}
	}
	return res
}

// ---------------------------------------------------------------------------------------------
// stream T : the tracker through BatchUpdateDomainRouting / BatchRemoveDomainRouting

func c10NewCore(m *ebpf.Map) *controlPlaneCore {
	core := &controlPlaneCore{domainRouting: newDomainRoutingTracker()}
	core.bpf.Store(&bpfObjects{bpfMaps: bpfMaps{DomainRoutingMap: m}})
	return core
}

// error class: drift only (the property does not speak about error wording); strict is ok / err
func c10ErrTok(err error) string {
	switch {
	case err == nil:
		return "ok"
	case errors.Is(err, errC10Injected) && strings.Contains(err.Error(), "update"):
		return "update-failed"
	case errors.Is(err, errC10Injected):
		return "delete-failed"
	case strings.HasPrefix(err.Error(), "update domain_routing_map:"): // the kernel refused the batch (capacity)
		return "update-failed"
	case strings.HasPrefix(err.Error(), "delete domain_routing_map:"):
		return "delete-failed"
	case strings.Contains(err.Error(), "domain bitmap length"):
		return "bitmap-len"
	case strings.Contains(err.Error(), "empty domain routing owner key"):
		return "empty-owner"
	}
	return "other:" + err.Error()
}

func c10ErrBit(err error) string {
	if err == nil {
		return "ok"
	}
	return "err"
}

func c10Line(strict, drift string) string { return strict + " ## " + drift }

func c10SharedAddrs(t *domainRoutingTracker) int {
	t.mu.Lock()
	defer t.mu.Unlock()
	n := 0
	for _, s := range t.ips {
		if len(s.owners) > 1 {
			n++
		}
	}
	return n
}

func c10TrackerStr(t *domainRoutingTracker) string {
	t.mu.Lock()
	defer t.mu.Unlock()
	var owners []string
	var okeys []string
	for o := range t.owners {
		okeys = append(okeys, o)
	}
	sort.Strings(okeys)
	for _, o := range okeys {
		s := t.owners[o]
		var ips []string
		for k := range s.ips {
			kb := c10KeyBytes(k)
			ips = append(ips, hex.EncodeToString(kb[:]))
		}
		sort.Strings(ips)
		owners = append(owners, c10OwnerTok(o)+":"+c10Bits(s.bitmap.Bitmap[:])+":"+strings.Join(ips, ","))
	}
	var ips []string
	for k, st := range t.ips {
		kb := c10KeyBytes(k)
		var ows, okeys2 []string
		for o := range st.owners {
			okeys2 = append(okeys2, o)
		}
		sort.Strings(okeys2)
		for _, o := range okeys2 {
			b := st.owners[o]
			ows = append(ows, c10OwnerTok(o)+"="+c10Bits(b.Bitmap[:]))
		}
		ips = append(ips, hex.EncodeToString(kb[:])+":"+c10Bits(st.merged.Bitmap[:])+":"+strings.Join(ows, ","))
	}
	sort.Strings(ips)
	return "owners{" + strings.Join(owners, " ") + "} ips{" + strings.Join(ips, " ") + "}"
}

func c10RunTrackerStream(t *testing.T, stats *VStats) {
	st := VOpenStream("c10t")
	defer st.Close()
	r := NewVRand(VSeed() ^ 0xC10A)
	obs := &c10Observer{stats: stats}
	obs.install()
	g := &c10Gen{r: r, stats: stats}
	histories := 400
	if VThorough() {
		histories = 6000
	}
	for h := 0; h < histories; h++ {
		// table mode of this history: shadow, or a real kernel hash map driven by the production batch functions;
		// a third of the kernel-map histories get a tiny max_entries so that the kernel refuses batches half-way
		capTok, smallCap := "", false
		obs.useShadow()
		if h%2 == 1 {
			cap := c10ProductionMaxEntries
			if r.Chance(0.35) {
				cap = r.Range(1, 6)
				smallCap = true
			}
			if obs.useKernelMap(cap) {
				capTok = " " + strconv.Itoa(cap)
				stats.Inc("t.histories_on_real_kernel_map")
				if smallCap {
					stats.Inc("t.histories_with_small_map_capacity")
				}
			}
		}
		core := c10NewCore(obs.domainMap())
		st.Emit("tnew"+capTok, c10Line("ok", ""))
		g.newPools()
		nOwners := r.Range(1, 6)
		nOps := r.Range(1, 60)
		if r.Chance(0.2) {
			nOps = r.Range(1, 6)
		}
		inject := h%3 == 2 // every third history has failing batch syscalls
		stats.Inc("t.histories")
		if inject {
			stats.Inc("t.histories_with_failure_injection")
		}
		live := map[string][]string{} // owner -> last answers (only for statistics)
		everShared := false
		call := func(f func() error, owner string, keepOnNil bool) string {
			return VRecover(func() string {
				obs.lastOrder, obs.natural = nil, false
				obs.begin()
				err := f()
				obs.end(owner, err == nil && keepOnNil)
				obs.takeFired()
				if capTok != "" && len(obs.lastOrder) > 0 {
					// tell the model in which order the update batch was sent (Go map iteration order): with a
					// small capacity that decides which prefix the kernel applied before refusing
					var ks []string
					for _, k := range obs.lastOrder {
						ks = append(ks, hex.EncodeToString(k[:]))
					}
					st.Emit("order "+strings.Join(ks, " "), c10Line("ok", ""))
				}
				if obs.natural {
					stats.Inc("t.op.refused_by_kernel_for_capacity")
				}
				return c10Line(obs.tableFp(), "e="+c10ErrBit(err)+" class="+c10ErrTok(err)+" "+obs.takeCalls())
			})
		}
		for i := 0; i < nOps; i++ {
			if c10SharedAddrs(core.domainRouting) > 0 {
				everShared = true
				stats.Inc("t.ops_started_with_a_shared_address")
			}
			owner := "o" + strconv.Itoa(1+r.Intn(nOwners))
			if r.Chance(0.02) {
				owner = "~"
				stats.Inc("t.op.empty_owner")
			}
			realOwner := owner
			if owner == "~" {
				realOwner = ""
			}
			oc := "ok"
			if inject && r.Chance(0.25) {
				oc = []string{"uf", "df"}[r.Intn(2)]
			}
			arm := func() {
				obs.failUpd, obs.failDel = oc == "uf", oc == "df"
			}
			switch x := r.Intn(100); {
			case x < 58:
				words := 32
				if r.Chance(0.03) {
					words = []int{0, 1, 31, 33}[r.Intn(4)]
					stats.Inc("t.op.upd_bad_bitmap_len")
				}
				bm := g.bitmap()
				ans := g.answers()
				if prev, ok := live[owner]; ok && r.Chance(0.15) { // refresh with the same answers
					ans = prev
					stats.Inc("t.op.upd_same_answers")
				}
				live[owner] = ans
				cache := &DnsCache{RouteOwnerKey: realOwner, DomainBitmap: c10ParseBits(bm, words)}
				for _, a := range ans {
					cache.Answer = append(cache.Answer, c10MakeAns(a, "h.example."))
				}
				op := strings.TrimRight(fmt.Sprintf("tupd %s %s %d %s %s", oc, owner, words, bm, strings.Join(ans, " ")), " ")
				arm()
				out := call(func() error { return core.BatchUpdateDomainRouting(cache) }, realOwner, true)
				stats.Inc("t.op.upd")
				if oc != "ok" {
					stats.Inc("t.op.upd_" + oc)
					if r.Bool() { // and the retry, with working syscalls
						stats.Inc("t.op.retry_after_failure")
						st.Emit(op, out)
						op = strings.Replace(op, "tupd "+oc, "tupd ok", 1)
						out = call(func() error { return core.BatchUpdateDomainRouting(cache) }, realOwner, true)
					}
				}
				stats.Sample(op)
				st.Emit(op, out)
			case x < 86:
				cache := &DnsCache{RouteOwnerKey: realOwner}
				delete(live, owner)
				arm()
				out := call(func() error { return core.BatchRemoveDomainRouting(cache) }, realOwner, true)
				stats.Inc("t.op.rm")
				if oc != "ok" {
					stats.Inc("t.op.rm_" + oc)
				}
				st.Emit("trm "+oc+" "+owner, out)
			case x < 89:
				which := []string{"upd", "rm"}[r.Intn(2)]
				out := call(func() error {
					if which == "upd" {
						return core.BatchUpdateDomainRouting(nil)
					}
					return core.BatchRemoveDomainRouting(nil)
				}, "", false)
				stats.Inc("t.op.nil_cache")
				st.Emit("tnil "+which, out)
			case x < 91:
				// PeekBpf() == nil: the call is dropped before the tracker is touched
				which := []string{"upd", "rm"}[r.Intn(2)]
				saved := core.bpf.Load()
				core.bpf.Store(nil)
				cache := &DnsCache{RouteOwnerKey: realOwner, DomainBitmap: c10ParseBits("5", 32), Answer: []dnsmessage.RR{c10MakeAns("4:01020304", "h.example.")}}
				out := call(func() error {
					if which == "upd" {
						return core.BatchUpdateDomainRouting(cache)
					}
					return core.BatchRemoveDomainRouting(cache)
				}, realOwner, false)
				core.bpf.Store(saved)
				stats.Inc("t.op.no_bpf_objects")
				st.Emit("tnobpf "+which+" "+owner, out)
			case x < 94:
				// what every reload path does with map and tracker: the real clearReloadDomainRoutingMap (in
				// kernel-map mode: the production BpfMapBatchDeleteAll on the real map) + tracker reset
				out := VRecover(func() string {
					if err := clearReloadDomainRoutingMap(core.bpf.Load()); err != nil {
						return "err:" + err.Error()
					}
					core.domainRouting.reset()
					return c10Line(obs.tableFp(), "e=ok class=ok calls=none")
				})
				live = map[string][]string{}
				stats.Inc("t.op.clear")
				st.Emit("tclear", out)
			default:
				st.Emit("tdump", c10Line(obs.kernelStr(), c10TrackerStr(core.domainRouting)))
				stats.Inc("t.op.dump")
			}
		}
		if everShared {
			stats.Inc("t.histories_with_shared_address")
		}
		if r.Chance(0.05) {
			// DomainRoutingMap == nil (a generation without the map): the tracker is updated, nothing is sent.
			// Last op of the history: afterwards tracker and table disagree by construction.
			owner := "o" + strconv.Itoa(1+r.Intn(nOwners))
			bm, ans := g.bitmap(), g.answers()
			cache := &DnsCache{RouteOwnerKey: owner, DomainBitmap: c10ParseBits(bm, 32)}
			for _, a := range ans {
				cache.Answer = append(cache.Answer, c10MakeAns(a, "h.example."))
			}
			saved := core.bpf.Load()
			core.bpf.Store(&bpfObjects{})
			out := call(func() error { return core.BatchUpdateDomainRouting(cache) }, owner, false)
			core.bpf.Store(saved)
			stats.Inc("t.op.no_domain_routing_map")
			st.Emit(strings.TrimRight(fmt.Sprintf("tnomap %s %s %s", owner, bm, strings.Join(ans, " ")), " "), out)
		}
		st.Emit("tdump", c10Line(obs.kernelStr(), c10TrackerStr(core.domainRouting)))
	}
	obs.useShadow()
}

// ---------------------------------------------------------------------------------------------
// stream C : the DNS cache layer with the production callback wiring

// stands in for the routing matcher's domain matcher (C11's subject): the bitmap is chosen by the generator;
// like the real matcher it returns a fresh slice per call.
type c10Matcher struct {
	next   []uint32            // used by NewCache (put)
	byFqdn map[string][]uint32 // used by the reload replay; nil outside a reload
}

func (m *c10Matcher) AddSet(int, []string, consts.RoutingDomainKey) {}
func (m *c10Matcher) Build() error                                  { return nil }
func (m *c10Matcher) MatchDomainBitmap(domain string) []uint32 {
	src := m.next
	if m.byFqdn != nil {
		src = m.byFqdn[domain]
	}
	return append([]uint32(nil), src...)
}

type c10Cache struct {
	ctrl    *DnsController // the current generation's facade (request paths)
	bg      *DnsController // the facade the background goroutines (janitor, refresh worker) are bound to
	core    *controlPlaneCore
	plane   *ControlPlane
	matcher *c10Matcher
	obs     *c10Observer
	log     *logrus.Logger
	t0      time.Time
	cfg     [3]int
	fixed   map[string]int
	// observation of one op (filled by observe(), relative to the snapshot tick() took):
	order  []string         // keys that left the cache (sorted)
	synced []string         // keys whose cached object got a new lastRouteSyncNano stamp (refresh claimed)
	before map[string]int64 // key -> lastRouteSyncNano before the op
	gen    int
	// real-loops mode: the controller is built by NewDnsController, its janitor ticker, evictor and refresh
	// worker goroutines run for real inside the synctest bubble
	real     bool
	tickBase time.Time
	// race probe only: run once between the cache-map mutation and the tracker sync of the next put / removal
	midAccess func()
	midDelete func()
	stats     *VStats
}

// a control plane of one generation: production dnsControllerOption() wiring (wrapped for observation only),
// production NewCache closure over a stub domain matcher.
func (w *c10Cache) newGeneration(bpf *bpfObjects) (*controlPlaneCore, *ControlPlane, *DnsControllerOption) {
	core := &controlPlaneCore{domainRouting: newDomainRoutingTracker(), log: w.log}
	core.bpf.Store(bpf)
	plane := &ControlPlane{core: core, log: w.log}
	plane.routingMatcher = &RoutingMatcher{domainMatcher: w.matcher}
	plane.dnsOptimisticCache = w.cfg[0] == 1
	plane.dnsOptimisticCacheTtl = w.cfg[1]
	plane.dnsMaxCacheSize = w.cfg[2]
	plane.dnsFixedDomainTtl = w.fixed
	opt := plane.dnsControllerOption()
	// race probe only: a complete operation of "another goroutine" between the cache-map mutation and the sync
	if access := opt.CacheAccessCallback; access != nil {
		opt.CacheAccessCallback = func(c *DnsCache) error {
			if f := w.midAccess; f != nil {
				w.midAccess = nil
				f()
			}
			return access(c)
		}
	}
	if del := opt.CacheDeleteCallback; del != nil {
		opt.CacheDeleteCallback = func(key string, c *DnsCache) error {
			if f := w.midDelete; f != nil {
				w.midDelete = nil
				f()
			}
			return del(key, c)
		}
	}
	return core, plane, opt
}

// The caller chooses the table mode beforehand (obs.useShadow() / obs.useKernelMap(cap)).
func c10NewCacheWorld(obs *c10Observer, stats *VStats, optEnabled bool, optTtl, maxSize int, real ...bool) *c10Cache {
	w := &c10Cache{obs: obs, stats: stats, t0: time.Now(), matcher: &c10Matcher{}, fixed: map[string]int{}}
	w.real = len(real) > 0 && real[0]
	obs.calls, obs.cur, obs.badDelete, obs.injected, obs.fired = nil, nil, false, false, nil
	obs.failUpd, obs.failDel, obs.failUpdAt, obs.failDelAt = false, false, 0, 0
	w.cfg = [3]int{0, optTtl, maxSize}
	if optEnabled {
		w.cfg[0] = 1
	}
	if obs.kmap == nil {
		obs.useShadow()
	}
	w.log = logrus.New()
	w.log.SetOutput(io.Discard)
	var opt *DnsControllerOption
	w.core, w.plane, opt = w.newGeneration(&bpfObjects{bpfMaps: bpfMaps{DomainRoutingMap: obs.domainMap()}})
	ctrl := w.buildController(opt)
	w.ctrl, w.bg = ctrl, ctrl
	w.plane.dnsController = ctrl
	return w
}

// A DNS controller for a generation. Real-loops mode: NewDnsController (janitor ticker, evictor, lazily the
// refresh worker run for real). Otherwise a controller without its background goroutines: janitor runs are
// explicit `jan` ops, the refresh worker's channel is drained by explicit `work` ops (evictExpiredDnsCache /
// processBpfUpdateTask are the real functions, called on the facade the goroutines would be bound to).
func (w *c10Cache) buildController(opt *DnsControllerOption) *DnsController {
	if w.real {
		ctrl, err := NewDnsController(nil, opt)
		if err != nil {
			panic(err)
		}
		synctest.Wait() // janitor and evictor goroutines are parked on their channels
		w.tickBase = time.Now()
		return ctrl
	}
	ctrl := &DnsController{dnsControllerStore: newDnsControllerStore(), log: w.log, dnsForwarderIdleTTL: dnsForwarderIdleTTL}
	if err := ctrl.TryUpdateRuntime(opt, nil); err != nil {
		panic(err)
	}
	ctrl.bpfUpdateOnce.Do(func() {
		ctrl.bpfUpdateCh = make(chan *bpfUpdateTask, 1024) // bpfUpdateQueueSize
		ctrl.bpfUpdateStop = make(chan struct{})
	})
	return ctrl
}

func (w *c10Cache) rel(ns int64) int64 {
	if ns == 0 {
		return 0
	}
	return ns - w.t0.UnixNano()
}

// spec evaluated on the real cache contents vs the shadow of the kernel map
func (w *c10Cache) mirror() (ok bool, n int) {
	want := map[[16]byte][32]uint32{}
	w.ctrl.dnsCache.Range(func(k, v any) bool {
		n++
		c := v.(*DnsCache)
		for key := range c10OracleKeys(c.Answer) {
			cur := want[key]
			for i := range cur {
				if i < len(c.DomainBitmap) {
					cur[i] |= c.DomainBitmap[i]
				}
			}
			want[key] = cur
		}
		return true
	})
	ok = true
	var zero [32]uint32
	table := w.obs.table()
	for k, v := range want {
		if v == zero {
			if _, has := table[k]; has {
				ok = false
			}
			continue
		}
		if got, has := table[k]; !has || got != v {
			ok = false
		}
	}
	for k, v := range table {
		if wv, has := want[k]; !has || wv == zero || v == zero {
			ok = false
		}
	}
	return ok, n
}

func c10B(b bool) string {
	if b {
		return "1"
	}
	return "0"
}

func (w *c10Cache) snapshot() {
	w.before = map[string]int64{}
	w.ctrl.dnsCache.Range(func(k, v any) bool {
		w.before[k.(string)] = v.(*DnsCache).lastRouteSyncNano.Load()
		return true
	})
	w.order, w.synced = nil, nil
}

func (w *c10Cache) observe() {
	w.order, w.synced = nil, nil
	now := map[string]bool{}
	w.ctrl.dnsCache.Range(func(k, v any) bool {
		now[k.(string)] = true
		if st, ok := w.before[k.(string)]; ok && st != v.(*DnsCache).lastRouteSyncNano.Load() {
			w.synced = append(w.synced, k.(string))
		}
		return true
	})
	for k := range w.before {
		if !now[k] {
			w.order = append(w.order, k)
		}
	}
	sort.Strings(w.order)
	sort.Strings(w.synced)
}

func (w *c10Cache) summary(extra string) string {
	if c10SharedAddrs(w.core.domainRouting) > 0 {
		w.stats.Inc("c.ops_ending_with_a_shared_address")
	}
	// what the evictor goroutine would do with anything queued for the remove callback (nothing is ever
	// queued while dnsControllerOption leaves CacheRemoveCallback unset)
	if w.real {
		synctest.Wait() // the real evictor / worker goroutines settle
	} else {
		for len(w.bg.evictorQ) > 0 {
			w.bg.invokeCacheRemoveCallback(<-w.bg.evictorQ)
		}
		w.bg.drainEvictorSpill()
	}
	w.observe()
	ok, n := w.mirror()
	if !ok {
		w.stats.Inc("c.mirror_broken")
	}
	w.obs.takeCalls()
	if w.real { // the real worker drains the queue concurrently: its length is not reported
		return c10Line(fmt.Sprintf("n=%d %s m=%s", n, w.obs.tableFp(), c10B(ok)), extra+"p=~"+w.obs.absentDelete())
	}
	return c10Line(fmt.Sprintf("n=%d %s m=%s", n, w.obs.tableFp(), c10B(ok)),
		fmt.Sprintf("%sp=%d%s", extra, len(w.ctrl.bpfUpdateCh), w.obs.absentDelete()))
}

func (w *c10Cache) dump() string {
	var ents, stamps []string
	var cacheKeys []string
	w.ctrl.dnsCache.Range(func(k, _ any) bool {
		cacheKeys = append(cacheKeys, k.(string))
		return true
	})
	sort.Strings(cacheKeys) // by key, like the driver
	for _, key0 := range cacheKeys {
		k := any(key0)
		v, _ := w.ctrl.dnsCache.Load(key0)
		c := v.(*DnsCache)
		snap, err := buildDomainRoutingOwnerSnapshot(c)
		if err != nil {
			ents = append(ents, k.(string)+":ERR")
			continue
		}
		var ips []string
		for key := range snap.ips {
			kb := c10KeyBytes(key)
			ips = append(ips, hex.EncodeToString(kb[:]))
		}
		sort.Strings(ips)
		ents = append(ents, fmt.Sprintf("%s:%s:%s", k.(string), c10Bits(snap.bitmap.Bitmap[:]), strings.Join(ips, ",")))
		stamps = append(stamps, fmt.Sprintf("%s:dl=%d:odl=%d:sync=%d:acc=%d", k.(string),
			c.Deadline.Sub(w.t0).Nanoseconds(), c.OriginalDeadline.Sub(w.t0).Nanoseconds(), w.rel(c.lastRouteSyncNano.Load()), w.rel(c.lastAccessNano.Load())))
	}
	// peek at the queue without consuming it
	var pend []string
	n := len(w.ctrl.bpfUpdateCh)
	if w.real {
		synctest.Wait()
		n = 0
	}
	for i := 0; i < n; i++ {
		task := <-w.ctrl.bpfUpdateCh
		pend = append(pend, fmt.Sprintf("%s@%d", task.cache.RouteOwnerKey, task.now.Sub(w.t0).Nanoseconds()))
		w.ctrl.bpfUpdateCh <- task
	}
	return c10Line(fmt.Sprintf("cache{%s} %s", strings.Join(ents, " "), w.obs.kernelStr()),
		fmt.Sprintf("now=%d stamps{%s} pending[%s] %s", time.Since(w.t0).Nanoseconds(), strings.Join(stamps, " "), strings.Join(pend, " "),
			c10TrackerStr(w.core.domainRouting)))
}

type c10Key struct {
	name  string // canonical fqdn
	qtype uint16
	scope string
}

func (k c10Key) base() string { return k.name + strconv.Itoa(int(k.qtype)) }
func (k c10Key) key() string  { return k.base() + k.scope }
func (k c10Key) host() string { return strings.TrimSuffix(k.name, ".") }

var c10Names = []string{"a.com.", "b.com.", "c.net.", "a.com.x.org."}
var c10Scopes = []string{"", "|upstream@udp://1.1.1.1:53", "|asis@9.9.9.9:53"}
var c10Qtypes = []uint16{dnsmessage.TypeA, dnsmessage.TypeAAAA, dnsmessage.TypeA, dnsmessage.TypeAAAA, dnsmessage.TypeTXT, dnsmessage.TypeHTTPS}

type c10Hist struct {
	w       *c10Cache
	st      *VStream
	r       *VRand
	g       *c10Gen
	stats   *VStats
	maxSize int
	lastTtl int
	failed  bool // a publish failure was injected in this history
	keys    []c10Key
	noInject bool // probes: no injected failures
}

// every op starts one (virtual) nanosecond after the previous one
func (h *c10Hist) tick() {
	if h.w.real && h.untilJanitor() == time.Nanosecond {
		h.janReal() // the real ticker fires on this very nanosecond: that is an op of its own
	}
	time.Sleep(time.Nanosecond)
	h.w.snapshot()
}

// time until the next tick of the real janitor's ticker
func (h *c10Hist) untilJanitor() time.Duration {
	el := time.Since(h.w.tickBase)
	return dnsCacheJanitorInterval - el%dnsCacheJanitorInterval
}

// one run of the REAL janitor goroutine (its 30 s ticker fires, evictExpiredDnsCache + evictIdleDnsForwarders)
func (h *c10Hist) janReal() {
	w := h.w
	w.snapshot()
	time.Sleep(time.Nanosecond)
	out := VRecover(func() string { return w.summary("legal=1 ") }) // summary waits for the goroutine
	if len(w.order) > 0 {
		h.stats.Add("c.janitor_evictions_by_real_ticker", len(w.order))
	}
	h.stats.Inc("c.op.jan_real_ticker")
	h.st.Emit(strings.TrimRight("jan "+strings.Join(w.order, " "), " "), out)
}

// mixed-case spelling of a host, with or without the trailing dot (what a client may ask)
func (h *c10Hist) spell(name string) string {
	s := name
	if h.r.Chance(0.3) {
		b := []byte(s)
		for i := range b {
			if h.r.Chance(0.4) && b[i] >= 'a' && b[i] <= 'z' {
				b[i] -= 32
			}
		}
		s = string(b)
		h.stats.Inc("gen.host.mixed_case")
	}
	if h.r.Bool() {
		s = strings.TrimSuffix(s, ".")
	}
	return s
}

// Arm an injected batch failure for the operation that follows: the n-th update (or delete) batch the operation
// sends to domain_routing_map fails. Not in real-loops mode (there a callback of a background goroutine could
// consume it at a point that has no line of its own).
func (h *c10Hist) arm(updOnly bool) {
	if h.w.real || h.r == nil || h.noInject || !h.r.Chance(0.07) {
		return
	}
	n := h.r.Range(1, 3)
	if n == 3 {
		n = 1
	}
	if updOnly || h.r.Bool() {
		h.w.obs.failUpdAt = n
	} else {
		h.w.obs.failDelAt = n
	}
}

// The failures that fired inside the operation just executed, as the prefix of its op line: `!uf:<key>` /
// `!df:<key>`. The hooks do not know whose tracker call they are in; the failed call is the one of the touched
// cache key whose tracker snapshot is not what a completed call would have left (cached and effective: the
// entry's snapshot; otherwise: no snapshot).
func (h *c10Hist) firedPrefix(core *controlPlaneCore, touched []string) string {
	kinds := h.w.obs.takeFired()
	if len(kinds) == 0 {
		return ""
	}
	var failed []string
	t := core.domainRouting
	t.mu.Lock()
	for _, key := range touched {
		var want domainRoutingOwnerSnapshot
		if v, ok := h.w.ctrl.dnsCache.Load(key); ok {
			want, _ = buildDomainRoutingOwnerSnapshot(v.(*DnsCache))
		}
		wantEff := len(want.ips) > 0 && !isZeroDomainRoutingBitmap(want.bitmap)
		got, has := t.owners[key]
		same := has == wantEff
		if same && has {
			same = got.bitmap == want.bitmap && len(got.ips) == len(want.ips)
			for k := range want.ips {
				if _, ok := got.ips[k]; !ok {
					same = false
				}
			}
		}
		if !same {
			failed = append(failed, key)
		}
	}
	t.mu.Unlock()
	h.failed = true
	h.stats.Inc("c.ops_with_injected_batch_failure")
	var parts []string
	for i, kind := range kinds {
		owner := "?unattributed"
		if len(failed) == len(kinds) {
			owner = failed[i]
		}
		parts = append(parts, "!"+kind+":"+owner)
		if kind == "df" {
			h.stats.Inc("c.ops_with_failed_delete_batch")
		} else {
			h.stats.Inc("c.ops_with_failed_update_batch")
		}
	}
	return strings.Join(parts, " ") + " "
}

func (h *c10Hist) put(k c10Key, ttl int, bm string, ans []string, unkeyed bool) {
	h.tick()
	w := h.w
	h.lastTtl = ttl
	fttlTok := "-"
	if f, ok := w.fixed[k.host()]; ok {
		fttlTok = strconv.Itoa(f)
	}
	var rrs []dnsmessage.RR
	for _, a := range ans {
		rrs = append(rrs, c10MakeAns(a, k.name))
	}
	w.matcher.next = c10ParseBits(bm, 32)
	keyTok := k.key()
	if unkeyed {
		keyTok = "~"
	}
	host := h.spell(k.name)
	prevObj, _ := w.ctrl.dnsCache.Load(k.key())
	// a batch syscall of this put's publish may fail (if it sends that batch): the entry is stored, the error returned
	h.arm(false)
	prefix := ""
	out := VRecover(func() string {
		var err error
		w.obs.injected = false
		if unkeyed {
			err = w.ctrl.UpdateDnsCacheTtl(host, k.qtype, rrs, nil, nil, ttl)
		} else {
			err = w.ctrl.UpdateDnsCacheTtlWithKey(k.key(), host, k.qtype, rrs, nil, nil, ttl)
		}
		fired := w.obs.injected
		prefix = h.firedPrefix(w.core, []string{k.key()})
		if err != nil {
			if !fired {
				return "err:" + err.Error()
			}
			// entry stored, publish failed: the table lags until the refresh worker retries
			h.stats.Inc("c.op.put_with_failed_publish")
		}
		return w.summary("")
	})
	// did the code store a new object under the key? (whether an answer is cached at all is not C10's subject)
	nowObj, has := w.ctrl.dnsCache.Load(k.key())
	stored := has && nowObj != prevObj
	verb := prefix + "put " + c10B(stored)
	if !stored {
		h.stats.Inc("c.op.put_not_stored")
	}
	op := strings.TrimRight(fmt.Sprintf("%s %s %s %d %d %s %s %s", verb, keyTok, k.name, k.qtype, ttl, fttlTok, bm, strings.Join(ans, " ")), " ")
	h.stats.Inc("c.op.put")
	if unkeyed {
		h.stats.Inc("c.op.put_unkeyed")
	}
	h.stats.Sample(op)
	h.st.Emit(op, out)
}

func (h *c10Hist) del(k c10Key) {
	h.tick()
	h.arm(false)
	prefix := ""
	out := VRecover(func() string {
		h.w.ctrl.RemoveDnsRespCache(k.key())
		prefix = h.firedPrefix(h.w.core, []string{k.key()})
		if prefix != "" {
			h.stats.Inc("c.op.removal_with_failed_batch")
		}
		return h.w.summary("")
	})
	h.stats.Inc("c.op.del")
	h.st.Emit(prefix+"del "+k.key(), out)
}

func (h *c10Hist) fam(k c10Key) {
	h.tick()
	w := h.w
	h.arm(false)
	prefix := ""
	out := VRecover(func() string {
		w.ctrl.RemoveDnsRespCacheFamily(k.base())
		res := w.summary("legal=1 ")
		prefix = h.firedPrefix(w.core, w.order)
		if prefix != "" {
			h.stats.Inc("c.op.removal_with_failed_batch")
		}
		return res
	})
	if len(w.order) > 1 {
		h.stats.Inc("c.op.fam_removed_several_scopes")
	}
	h.stats.Inc("c.op.fam")
	h.st.Emit(prefix+strings.TrimRight("fam "+k.base()+" "+strings.Join(w.order, " "), " "), out)
}

func (h *c10Hist) look(k c10Key, ig bool) {
	h.tick()
	w := h.w
	h.arm(false)
	prefix := ""
	out := VRecover(func() string {
		w.ctrl.LookupDnsRespCache(k.key(), ig)
		prefix = h.firedPrefix(w.core, []string{k.key()})
		if prefix != "" {
			h.stats.Inc("c.op.removal_with_failed_batch")
		}
		return w.summary("pred=1 ")
	})
	queued := len(w.synced) > 0 // NeedsBpfUpdate claimed the refresh (new lastRouteSyncNano stamp)
	evicted := len(w.order) > 0
	if queued {
		h.stats.Inc("c.refresh_queued")
	}
	if evicted {
		h.stats.Inc("c.expired_on_lookup")
	}
	h.stats.Inc("c.op.look")
	h.st.Emit(prefix+fmt.Sprintf("look %s %s %s %s", k.key(), c10B(ig), c10B(evicted), c10B(queued)), out)
	if w.real && queued {
		h.workReal(k.key())
	}
}

func (h *c10Hist) jan() {
	h.tick()
	w := h.w
	_, before := w.mirror()
	// the janitor goroutine is bound to the facade that started it
	h.arm(false)
	prefix := ""
	out := VRecover(func() string {
		w.bg.evictExpiredDnsCache(time.Now())
		res := w.summary("legal=1 ")
		prefix = h.firedPrefix(w.core, w.order)
		if prefix != "" {
			h.stats.Inc("c.op.removal_with_failed_batch")
		}
		return res
	})
	if len(w.order) > 0 {
		h.stats.Add("c.janitor_evictions", len(w.order))
		if h.maxSize > 0 && before > h.maxSize {
			h.stats.Inc("c.janitor_runs_over_lru_limit")
		}
	}
	h.stats.Inc("c.op.jan")
	h.st.Emit(prefix+strings.TrimRight("jan "+strings.Join(w.order, " "), " "), out)
}

func (h *c10Hist) sleep(d time.Duration) {
	for h.w.real && d > 0 { // never sleep across a tick of the real janitor: each tick is a `jan` line
		h.tick()
		chunk := d
		if u := h.untilJanitor() - time.Nanosecond; chunk > u {
			chunk = u
		}
		d -= chunk
		if chunk > 0 {
			time.Sleep(chunk)
		}
		h.stats.Inc("c.op.sleep")
		h.st.Emit("sleep "+strconv.FormatInt(chunk.Nanoseconds(), 10), h.w.summary(""))
		if d == 0 {
			return
		}
	}
	h.tick()
	time.Sleep(d)
	h.stats.Inc("c.op.sleep")
	h.st.Emit("sleep "+strconv.FormatInt(d.Nanoseconds(), 10), h.w.summary(""))
}

// real-loops mode: the worker goroutine has already processed what the last lookup queued; the model needs
// its `work` step
func (h *c10Hist) workReal(key string) {
	h.tick()
	h.stats.Inc("c.op.work_by_real_worker")
	h.st.Emit("work", h.w.summary(""))
}

func (h *c10Hist) work() {
	h.tick()
	w := h.w
	h.arm(false)
	prefix := ""
	out := VRecover(func() string {
		var touched []string
		select {
		case task := <-w.bg.bpfUpdateCh:
			if cur, ok := w.ctrl.dnsCache.Load(task.cache.RouteOwnerKey); ok && cur == any(task.cache) {
				h.stats.Inc("c.refresh_task_for_current_entry")
			} else {
				h.stats.Inc("c.refresh_task_for_replaced_or_removed_entry")
			}
			touched = []string{task.cache.RouteOwnerKey}
			// the worker goroutine is bound to the facade that started it
			w.bg.processBpfUpdateTask(task, false)
		default:
		}
		prefix = h.firedPrefix(w.core, touched)
		if prefix != "" {
			h.stats.Inc("c.op.work_with_failed_batch")
		}
		return w.summary("")
	})
	h.stats.Inc("c.op.work")
	h.st.Emit(prefix+"work", out)
}

func (h *c10Hist) touch(k c10Key) {
	h.tick()
	if v, ok := h.w.ctrl.dnsCache.Load(k.key()); ok {
		v.(*DnsCache).lastAccessNano.Store(time.Now().UnixNano()) // the one line of LookupDnsRespCache_ that feeds the LRU
	}
	h.stats.Inc("c.op.touch")
	h.st.Emit("touch "+k.key(), h.w.summary(""))
}

// the lookup of the DNS hot path (handle -> LookupDnsRespCache_)
func (h *c10Hist) hot(k c10Key) {
	h.tick()
	w := h.w
	before := len(w.ctrl.bpfUpdateCh)
	var entry *DnsCache
	if v, ok := w.ctrl.dnsCache.Load(k.key()); ok {
		entry = v.(*DnsCache)
	}
	h.arm(false)
	prefix := ""
	out := VRecover(func() string {
		msg := new(dnsmessage.Msg)
		msg.SetQuestion(k.name, k.qtype)
		w.ctrl.LookupDnsRespCache_(msg, k.key(), false)
		prefix = h.firedPrefix(w.core, []string{k.key()})
		if prefix != "" {
			h.stats.Inc("c.op.removal_with_failed_batch")
		}
		return w.summary("pred=1 ")
	})
	packed := entry != nil && entry.GetPackedResponse() != nil
	_ = before
	queued := len(w.synced) > 0
	evicted := len(w.order) > 0
	if queued {
		h.stats.Inc("c.refresh_queued")
	}
	if evicted {
		h.stats.Inc("c.expired_on_hot_lookup")
	}
	if entry != nil && !packed {
		h.stats.Inc("c.hot_lookup_without_packed_response")
	}
	h.stats.Inc("c.op.hot")
	h.st.Emit(prefix+fmt.Sprintf("hot %s %s %s %s", k.key(), c10B(packed), c10B(evicted), c10B(queued)), out)
	if w.real && queued {
		h.workReal(k.key())
	}
}

// DnsController.Close of a retired generation. In real-loops mode the real function (its goroutines exit at once).
// The hand-built controller of the other mode has no goroutines to answer Close's wait, which would let 5 s of
// virtual time pass: there only what Close does to the cache is reproduced (emptied WITHOUT callbacks; queued
// refresh tasks die with the controller).
func (w *c10Cache) retire(old *DnsController) {
	if w.real {
		_ = old.Close()
		return
	}
	for len(old.bpfUpdateCh) > 0 {
		<-old.bpfUpdateCh
	}
	old.bpfUpdateClosed.Store(true)
	old.dnsCache.Range(func(key, _ any) bool { old.dnsCache.Delete(key); return true })
}

func (w *c10Cache) cachedKeys() []string {
	var keys []string
	w.ctrl.dnsCache.Range(func(k, _ any) bool { keys = append(keys, k.(string)); return true })
	sort.Strings(keys)
	return keys
}

// the bitmaps of every cached entry, by key (what the model is told a reload / rollback restored)
func (w *c10Cache) assignStr() string {
	var keys []string
	w.ctrl.dnsCache.Range(func(k, _ any) bool { keys = append(keys, k.(string)); return true })
	sort.Strings(keys)
	var parts []string
	for _, k := range keys {
		if v, ok := w.ctrl.dnsCache.Load(k); ok {
			parts = append(parts, k+"="+c10Bits(v.(*DnsCache).DomainBitmap))
		}
	}
	return strings.Join(parts, " ")
}

// A reload in the order PRODUCTION composes it (staged same-port reload, dns section unchanged; cmd/run.go,
// ControlPlane.Serve): CloneDnsCache -> NewControlPlane builds its OWN controller (NewDnsController), pending =
// clones -> [the old generation keeps serving: `between`] -> CommitPreparedDatapath (its statements regenerated
// from control_plane.go in source order by translators/c10wrap, without commitInterfaceBindings, which needs a
// netns, and startConnStateJanitor) -> activatePreparedRuntime -> reuse hook = ControlPlane.ReuseDNSControllerFrom
// (own controller closed, the OLD shared store adopted, republish). All real functions in their real order.
func (h *c10Hist) reload(newBitmaps map[string]string) {
	w := h.w
	var plane2 *ControlPlane
	var core2 *controlPlaneCore
	prep := VRecover(func() string {
		clones := w.plane.CloneDnsCache()
		var opt2 *DnsControllerOption
		core2, plane2, opt2 = w.newGeneration(w.core.bpf.Load())
		own, err := NewDnsController(nil, opt2)
		if err != nil {
			return "err:" + err.Error()
		}
		plane2.dnsController = own
		plane2.pendingDnsReloadCache = clones
		plane2.preparedDatapathCommit = true // newControlPlane with delayDatapathCommit
		plane2.sharedBpfReload = true        // the BPF objects are handed over from the running generation
		return ""
	})
	// while the new generation is prepared (seconds in production) the old one keeps caching and removing
	if h.keys != nil && h.r != nil && h.r.Chance(0.5) {
		for n := h.r.Range(1, 2); n > 0; n-- {
			k := h.keys[h.r.Intn(len(h.keys))]
			if h.r.Bool() {
				h.put(k, 300, h.g.bitmap(), h.g.answers(), false)
			} else {
				h.del(k)
			}
		}
		h.stats.Inc("c.reloads_with_traffic_during_preparation")
	}
	h.tick()
	prefix := ""
	out := VRecover(func() string {
		if prep != "" {
			return prep
		}
		w.matcher.byFqdn = map[string][]uint32{}
		for fqdn, bm := range newBitmaps {
			w.matcher.byFqdn[fqdn] = c10ParseBits(bm, 32)
		}
		if err := plane2.verifC10CommitPreparedDatapathDNS(); err != nil {
			return "err:" + err.Error()
		}
		// what the commit published comes from a throw-away controller and is discarded by the reuse hook's
		// republish: only a failure inside the republish is visible afterwards (update batches only: a failing
		// delete inside clearReloadDomainRoutingMap aborts the republish, which the model has no step for)
		h.arm(true)
		if !plane2.ReuseDNSControllerFrom(w.plane) {
			return "err:ReuseDNSControllerFrom refused"
		}
		w.matcher.byFqdn = nil
		w.core, w.plane, w.ctrl = core2, plane2, plane2.dnsController
		w.gen++
		prefix = h.firedPrefix(w.core, w.cachedKeys())
		if prefix != "" {
			h.stats.Inc("c.op.reload_with_failed_batch")
		}
		return w.summary("legal=1 ")
	})
	h.stats.Inc("c.op.reload")
	h.st.Emit(prefix+strings.TrimRight("reload "+w.assignStr(), " "), out)
}

// A reload WITHOUT controller reuse (staged same-port reload whose dns section changed: no reuse hook; or a
// non-staged reload that hands the BPF objects over): the new generation keeps the controller it built itself,
// filled from the clone; the old generation is closed afterwards. Commit = CommitPreparedDatapath's statements
// or the non-delayed tail of newControlPlane (both regenerated from control_plane.go). Traffic of the old
// generation between the clone and its retirement is a hand-over window (probe c10HandoverProbe), not driven here.
func (h *c10Hist) reloadNoReuse(newBitmaps map[string]string) {
	w := h.w
	h.tick()
	delayed := h.r == nil || h.r.Bool()
	prefix := ""
	out := VRecover(func() string {
		clones := w.plane.CloneDnsCache()
		core2, plane2, opt2 := w.newGeneration(w.core.bpf.Load())
		oldCtrl := w.ctrl
		own := w.buildController(opt2)
		plane2.dnsController = own
		plane2.pendingDnsReloadCache = clones
		plane2.sharedBpfReload = true
		w.matcher.byFqdn = map[string][]uint32{}
		for fqdn, bm := range newBitmaps {
			w.matcher.byFqdn[fqdn] = c10ParseBits(bm, 32)
		}
		h.arm(true)
		var err error
		if delayed {
			plane2.preparedDatapathCommit = true
			err = plane2.verifC10CommitPreparedDatapathDNS()
		} else {
			err = verifC10NewControlPlaneTailDNS(plane2, core2)
		}
		w.matcher.byFqdn = nil
		if err != nil {
			h.w.obs.takeFired()
			return "err:" + err.Error()
		}
		// cut-over: the old generation is retired (ControlPlane.Close -> closeOwnedDNSController -> DnsController.Close)
		w.retire(oldCtrl)
		w.core, w.plane, w.ctrl, w.bg = core2, plane2, own, own
		w.gen++
		prefix = h.firedPrefix(w.core, w.cachedKeys())
		if prefix != "" {
			h.stats.Inc("c.op.reload_with_failed_batch")
		}
		return w.summary("legal=1 ")
	})
	h.stats.Inc("c.op.reload")
	h.stats.Inc("c.op.reload_without_controller_reuse")
	if !delayed {
		h.stats.Inc("c.op.reload_committed_by_constructor_tail")
	}
	h.st.Emit(prefix+strings.TrimRight("reloadx "+w.assignStr(), " "), out)
}

// reload ROLLBACK of the current generation: the real ControlPlane.RebuildReloadDatapath (BuildKernspace of a
// one-rule program, ReplaceLpmIndices, clearReloadDomainRoutingMap, CloneDnsCache, replayDnsReloadCache).
// For the model it is a reload step: a cleared table and the cache restored into it.
func (h *c10Hist) rollback(newBitmaps map[string]string) {
	w := h.w
	if !c10BpfMapsAllowed() {
		// RebuildReloadDatapath writes routing_meta_map with a real syscall: without CAP_BPF the op is skipped
		// (the check then exits 2 on the rollback floor with this counter as the explanation, never a VIOLATION)
		h.stats.Inc("c.rollback_skipped_no_bpf_privilege")
		return
	}
	h.tick()
	prefix := ""
	out := VRecover(func() string {
		if w.plane.routingKernspaceSnapshot == nil {
			w.plane.routingKernspaceSnapshot = &routingKernspaceSnapshot{rules: []bpfMatchSet{{Type: uint8(consts.MatchType_Fallback)}}}
		}
		bpf := w.core.bpf.Load()
		if bpf.RoutingMetaMap == nil {
			m, err := ebpf.NewMap(&ebpf.MapSpec{Type: ebpf.Array, KeySize: 4, ValueSize: 4, MaxEntries: 1})
			if err != nil {
				return "err:" + err.Error()
			}
			bpf.RoutingMetaMap = m
		}
		w.matcher.byFqdn = map[string][]uint32{}
		for fqdn, bm := range newBitmaps {
			w.matcher.byFqdn[fqdn] = c10ParseBits(bm, 32)
		}
		h.arm(true)
		err := w.plane.RebuildReloadDatapath()
		prefix = h.firedPrefix(w.core, w.cachedKeys())
		if prefix != "" {
			h.stats.Inc("c.op.reload_with_failed_batch")
		}
		w.matcher.byFqdn = nil
		if err != nil {
			return "err:" + err.Error()
		}
		return w.summary("legal=1 ")
	})
	h.stats.Inc("c.op.rollback")
	h.st.Emit(prefix+strings.TrimRight("reload "+w.assignStr(), " "), out)
}

var c10BpfProbe struct {
	done, ok bool
}

// can this process create a kernel BPF map at all?
func c10BpfMapsAllowed() bool {
	if !c10BpfProbe.done {
		c10BpfProbe.done = true
		m, err := ebpf.NewMap(&ebpf.MapSpec{Type: ebpf.Array, KeySize: 4, ValueSize: 4, MaxEntries: 1})
		if err == nil {
			c10BpfProbe.ok = true
			_ = m.Close()
		}
	}
	return c10BpfProbe.ok
}

func (h *c10Hist) dump() {
	h.st.Emit("cdump", h.w.dump())
	h.stats.Inc("c.op.dump")
}

func c10RunCacheHistory(st *VStream, r *VRand, obs *c10Observer, stats *VStats, g *c10Gen, scripted, real bool) {
	optEnabled := r.Chance(0.3)
	optTtl := []int{0, 0, 5, 60}[r.Intn(4)]
	maxSize := []int{0, 0, 2, 3, 5}[r.Intn(5)]
	many := r.Chance(0.1) // a larger cache: the LRU heap sees more than a handful of entries
	if many {
		maxSize = []int{0, 8, 20}[r.Intn(3)]
		stats.Inc("c.histories_with_10_to_40_keys")
	}
	w := c10NewCacheWorld(obs, stats, optEnabled, optTtl, maxSize, real)
	st.Emit(fmt.Sprintf("cnew %s %d %d %s", c10B(optEnabled), optTtl, maxSize, c10B(real)), c10Line("ok", ""))
	stats.Inc("c.histories")
	if real {
		stats.Inc("c.histories_with_real_goroutine_loops")
		defer func() { _ = w.ctrl.Close() }()
	}
	if maxSize > 0 {
		stats.Inc("c.histories_with_lru_limit")
	}
	g.newPools()
	h := &c10Hist{w: w, st: st, r: r, g: g, stats: stats, maxSize: maxSize, lastTtl: 10}
	// key pool: names x qtypes x scopes
	nKeys := r.Range(1, 6)
	if many {
		nKeys = r.Range(10, 40)
	}
	var keys []c10Key
	seen := map[string]bool{}
	for tries := 0; len(keys) < nKeys && tries < 400; tries++ {
		k := c10Key{c10Names[r.Intn(len(c10Names))], c10Qtypes[r.Intn(len(c10Qtypes))], c10Scopes[r.Intn(len(c10Scopes))]}
		if many {
			k.name = fmt.Sprintf("h%d.example.", r.Intn(30))
		}
		if !seen[k.key()] || !many {
			seen[k.key()] = true
			keys = append(keys, k)
		}
	}
	h.keys = keys
	randomPut := func(k c10Key) {
		h.put(k, []int{0, 1, 2, 10, 60, 61, 100, 300}[r.Intn(8)], g.bitmap(), g.answers(), k.scope == "" && r.Chance(0.3))
	}
	if scripted {
		// skeleton that reaches the deferred refresh worker: insert with a long TTL, let >= 60 s pass, look the
		// entry up (queues a refresh), then mutate the entry (or not) before the worker runs.
		k := keys[0]
		long := int(3*MaxBpfUpdateInterval/time.Second) + 100 // outlives the skeleton
		h.put(k, long, g.bitmap(), g.answers(), false)
		if len(keys) > 1 && r.Bool() {
			h.put(keys[1], long, g.bitmap(), g.answers(), false)
		}
		h.sleep([]time.Duration{MaxBpfUpdateInterval, MaxBpfUpdateInterval + time.Second, MaxBpfUpdateInterval + MaxBpfUpdateInterval/4}[r.Intn(3)])
		if r.Bool() {
			h.look(k, false)
		} else {
			h.hot(k)
		}
		switch r.Intn(7) {
		case 0:
			h.put(k, 100, g.bitmap(), g.answers(), false)
		case 1:
			h.del(k)
		case 2:
			h.fam(k)
		case 3:
			h.sleep(MaxBpfUpdateInterval + time.Second)
			h.look(k, false) // a second refresh queued behind the first
		case 4:
			h.put(k, 100, g.bitmap(), g.answers(), false)
			h.del(k)
		case 5:
			h.reload(h.newBitmaps()) // the queued task points at an object of the previous generation
		default:
		}
		h.work()
		h.dump()
	}
	if real && r.Chance(0.5) {
		// the refresh worker goroutine is started lazily, by the first refresh: let that happen in a later
		// generation, then reload twice more and refresh again (the worker must still serve the live generation)
		k := keys[0]
		h.reload(h.newBitmaps())
		long := int(3*MaxBpfUpdateInterval/time.Second) + 100
		h.put(k, long, "5.40", []string{"4:0a000001", "4:0a000002"}, false)
		h.sleep(MaxBpfUpdateInterval + time.Second)
		h.look(k, false)
		h.reload(h.newBitmaps())
		h.reload(h.newBitmaps())
		h.sleep(MaxBpfUpdateInterval + time.Second)
		h.look(k, false)
		h.dump()
		stats.Inc("c.histories_with_late_started_worker")
	}
	nOps := r.Range(1, 60)
	if many {
		for _, k := range keys { // fill the cache first
			randomPut(k)
		}
	}
	for i := 0; i < nOps; i++ {
		k := keys[r.Intn(len(keys))]
		switch x := r.Intn(100); {
		case x < 36:
			randomPut(k)
		case x < 44:
			h.del(k)
		case x < 50:
			h.fam(k)
		case x < 56:
			h.look(k, r.Chance(0.3))
		case x < 64:
			h.hot(k)
		case x < 72:
			h.jan()
		case x < 85:
			var d time.Duration
			switch r.Intn(10) {
			case 0:
				d = time.Millisecond
			case 1:
				d = 999 * time.Millisecond
			case 2:
				d = time.Second
			case 3:
				d = time.Duration(h.lastTtl) * time.Second // around the deadline of the last put (ticks included)
			case 4:
				d = time.Duration(h.lastTtl)*time.Second - time.Duration(r.Range(1, 4))*time.Nanosecond
			case 5:
				d = dnsCacheJanitorInterval * time.Duration(r.Range(1, 3)) // the real janitor's period
			case 6:
				d = MaxBpfUpdateInterval - time.Duration(r.Range(1, 4))*time.Nanosecond
			case 7:
				d = MaxBpfUpdateInterval
			default:
				d = time.Duration(r.Range(1, int(2*MaxBpfUpdateInterval/time.Second))) * time.Second
			}
			if d <= 0 {
				d = time.Nanosecond
			}
			h.sleep(d)
		case x < 90:
			h.work()
		case x < 94:
			h.touch(k)
		case x < 96:
			if r.Chance(0.3) {
				h.reloadNoReuse(h.newBitmaps())
			} else {
				h.reload(h.newBitmaps())
			}
		case x < 97:
			h.rollback(h.newBitmaps())
		default:
			if r.Bool() {
				w.fixed[strings.TrimSuffix(c10Names[r.Intn(len(c10Names))], ".")] = []int{0, 1, 5, 600}[r.Intn(4)]
				stats.Inc("c.fixed_ttl_set")
			}
			h.dump()
		}
	}
	h.dump()
	if w.gen >= 2 {
		stats.Inc("c.histories_with_two_or_more_reloads")
	}
	// leave nothing behind in the bubble
	for !real && len(w.ctrl.bpfUpdateCh) > 0 {
		<-w.ctrl.bpfUpdateCh
	}
}

// what the next generation's domain matcher answers for each name ("" = entries without answers)
func (h *c10Hist) newBitmaps() map[string]string {
	res := map[string]string{"": h.g.bitmap()}
	names := append([]string{}, c10Names...)
	for i := 0; i < 30; i++ {
		names = append(names, fmt.Sprintf("h%d.example.", i))
	}
	for _, n := range names {
		res[n] = h.g.bitmap()
	}
	return res
}

// Probe (inside the property): a reload with more cached entries than the refresh queue has slots (1024).
func c10BigReloadProbe(obs *c10Observer, stats *VStats) string {
	w := c10NewCacheWorld(obs, stats, false, 0, 0)
	const n = 1500
	for i := 0; i < n; i++ {
		name := fmt.Sprintf("h%d.example.", i)
		w.matcher.next = c10ParseBits("3", 32)
		rr := c10MakeAns(fmt.Sprintf("4:%08x", 0x0a000000+i+1), name)
		if err := w.ctrl.UpdateDnsCacheTtlWithKey(name+"1", name, dnsmessage.TypeA, []dnsmessage.RR{rr}, nil, nil, 3600); err != nil {
			panic(err)
		}
	}
	h := &c10Hist{w: w, st: VOpenStream("c10big"), stats: stats}
	defer h.st.Close()
	nb := map[string]string{}
	for i := 0; i < n; i++ {
		nb[fmt.Sprintf("h%d.example.", i)] = "7"
	}
	h.reload(nb)
	queued := len(w.ctrl.bpfUpdateCh)
	for len(w.ctrl.bpfUpdateCh) > 0 {
		w.bg.processBpfUpdateTask(<-w.ctrl.bpfUpdateCh, false)
	}
	obs.takeCalls()
	ok, cached := w.mirror()
	return fmt.Sprintf("bigreload entries=%d cached=%d table=%d queued=%d mirror=%s", n, cached, len(obs.table()), queued, c10B(ok))
}

// Probe (a concurrency schedule, outside the sequential histories of the property; reported as a note): the
// cache map mutation and the tracker sync of one operation are two steps without a common lock. Another
// goroutine's complete operation on the same key is run between them (all real code, a legal schedule).
func c10RaceProbe(obs *c10Observer, stats *VStats) string {
	k := c10Key{"a.com.", dnsmessage.TypeA, ""}
	bm := c10ParseBits("7", 32)
	mk := func() (*c10Cache, func(ans string)) {
		w := c10NewCacheWorld(obs, stats, false, 0, 0)
		return w, func(ans string) {
			w.matcher.next = bm
			if err := w.ctrl.UpdateDnsCacheTtlWithKey(k.key(), k.name, k.qtype, []dnsmessage.RR{c10MakeAns(ans, k.name)}, nil, nil, 300); err != nil {
				panic(err)
			}
		}
	}
	// A: removal completes between a replacement's Store and its sync -> table keeps the removed entry's address
	w, put := mk()
	put("4:01020304")
	w.midAccess = func() { w.ctrl.RemoveDnsRespCache(k.key()) }
	put("4:0a000001")
	obs.takeCalls()
	okA, nA := w.mirror()
	resA := fmt.Sprintf("A_mirror=%s A_cache=%d A_table=%d", c10B(okA), nA, len(obs.table()))
	// B: a new answer is stored and synced between a removal's delete and its sync -> table lacks a cached address
	w, put = mk()
	put("4:01020304")
	w.midDelete = func() { put("4:0a000001") }
	w.ctrl.RemoveDnsRespCache(k.key())
	obs.takeCalls()
	okB, nB := w.mirror()
	return fmt.Sprintf("race %s B_mirror=%s B_cache=%d B_table=%d", resA, c10B(okB), nB, len(obs.table()))
}

// Probe (hand-over of a reload WITHOUT controller reuse; real functions in production order): the old generation
// keeps serving between the new generation's CommitPreparedDatapath (clear + replay of the clone, through the NEW
// generation's tracker) and its own retirement; an answer it caches in that window is published through the OLD
// generation's tracker into the SAME kernel map, and the old controller is closed afterwards without callbacks.
// If the old plane offers RetireDomainRoutingPublisher (proposed fix), production calls it before the commit.
func c10HandoverProbe(obs *c10Observer, stats *VStats) string {
	obs.useShadow()
	w := c10NewCacheWorld(obs, stats, false, 0, 0, true) // real controllers (NewDnsController), real Close
	put := func(ctrl *DnsController, name, addr, bits string) {
		w.matcher.next = c10ParseBits(bits, 32)
		if err := ctrl.UpdateDnsCacheTtlWithKey(name+"1", name, dnsmessage.TypeA, []dnsmessage.RR{c10MakeAns(addr, name)}, nil, nil, 3600); err != nil {
			panic(err)
		}
	}
	old := w.ctrl
	put(old, "a.com.", "4:01020304", "0")
	clones := w.plane.CloneDnsCache()
	core2, plane2, opt2 := w.newGeneration(w.core.bpf.Load())
	own := w.buildController(opt2)
	plane2.dnsController = own
	plane2.pendingDnsReloadCache = clones
	plane2.preparedDatapathCommit = true
	plane2.sharedBpfReload = true
	retired := "0"
	if m := reflect.ValueOf(w.plane).MethodByName("RetireDomainRoutingPublisher"); m.IsValid() {
		m.Call(nil)
		retired = "1"
	}
	w.matcher.byFqdn = map[string][]uint32{"a.com.": c10ParseBits("1", 32), "b.com.": c10ParseBits("1", 32)}
	if err := plane2.verifC10CommitPreparedDatapathDNS(); err != nil {
		return "err:" + err.Error()
	}
	w.matcher.byFqdn = nil
	put(old, "b.com.", "4:0a000001", "0") // the old generation still serves: an answer arrives now
	w.retire(old)                         // cut-over: the old generation is retired (DnsController.Close: no callbacks)
	w.core, w.plane, w.ctrl, w.bg = core2, plane2, own, own
	defer func() { _ = own.Close() }()
	obs.takeCalls()
	ok, cached := w.mirror()
	return fmt.Sprintf("handover retired_hook=%s cached=%d table=%d mirror=%s %s", retired, cached, len(obs.table()), c10B(ok), obs.kernelStr())
}

// ---------------------------------------------------------------------------------------------
// stream S : goroutine schedules of syncOwner (the tracker mutex and the two batch syscalls as separate steps)

const (
	c10Idle int32 = iota
	c10Running
	c10ParkedUpd
	c10ParkedDel
)

type c10Thread struct {
	id      int
	state   atomic.Int32
	gid     atomic.Int64
	work    chan func()
	release chan struct{}
}

type c10Sched struct {
	mu      sync.Mutex
	byGid   map[int64]*c10Thread
	threads []*c10Thread
}

func c10Gid() int64 {
	var buf [64]byte
	n := runtime.Stack(buf[:], false)
	f := strings.Fields(string(buf[:n])) // "goroutine 123 [running]:"
	id, _ := strconv.ParseInt(f[1], 10, 64)
	return id
}

func c10NewSched(n int) *c10Sched {
	sc := &c10Sched{byGid: map[int64]*c10Thread{}}
	for i := 0; i < n; i++ {
		th := &c10Thread{id: i, work: make(chan func()), release: make(chan struct{})}
		sc.threads = append(sc.threads, th)
		ready := make(chan struct{})
		go func() {
			gid := c10Gid()
			th.gid.Store(gid)
			sc.mu.Lock()
			sc.byGid[gid] = th
			sc.mu.Unlock()
			close(ready)
			for f := range th.work {
				f()
				th.state.Store(c10Idle)
			}
		}()
		<-ready
	}
	return sc
}

func (sc *c10Sched) stop() {
	for _, th := range sc.threads {
		close(th.work)
	}
}

// called by the batch hooks, i.e. from inside syncOwner with the tracker mutex held (in the unchanged code)
func (sc *c10Sched) park(kind int32) {
	sc.mu.Lock()
	th := sc.byGid[c10Gid()]
	sc.mu.Unlock()
	if th == nil {
		return
	}
	th.state.Store(kind)
	<-th.release
}

// is goroutine gid waiting for a sync.Mutex?
func c10BlockedOnMutex(gid int64) bool {
	buf := make([]byte, 1<<16)
	n := runtime.Stack(buf, true)
	for _, blk := range strings.Split(string(buf[:n]), "\n\n") {
		head, _, _ := strings.Cut(blk, "\n")
		if !strings.HasPrefix(head, "goroutine "+strconv.FormatInt(gid, 10)+" [") {
			continue
		}
		return strings.Contains(head, "Mutex.Lock") || strings.Contains(head, "semacquire")
	}
	return false
}

// wait until every goroutine is idle, parked at a hook, or blocked in t.mu.Lock(); returns the states
func (sc *c10Sched) settle() string {
	deadline := time.Now().Add(60 * time.Second) // generous: only ever turns into a harness failure (exit 2)
	for spins := 0; ; spins++ {
		states := make([]string, len(sc.threads))
		settled := true
		for i, th := range sc.threads {
			switch th.state.Load() {
			case c10Idle:
				states[i] = "idle"
			case c10ParkedUpd:
				states[i] = "pu"
			case c10ParkedDel:
				states[i] = "pd"
			default:
				if spins > 3 && c10BlockedOnMutex(th.gid.Load()) && th.state.Load() == c10Running {
					states[i] = "blocked"
				} else {
					settled = false
				}
			}
		}
		if settled {
			// a goroutine seen waiting for the mutex while NO goroutine is parked inside syncOwner is a transient (the
			// holder has just released and the waiter has not been woken yet): only "blocked behind a parked holder" is
			// a stable state, keep waiting otherwise
			nBlocked, nParked := 0, 0
			for _, s := range states {
				switch s {
				case "blocked":
					nBlocked++
				case "pu", "pd":
					nParked++
				}
			}
			if nBlocked > 0 && nParked == 0 {
				settled = false
			}
		}
		if settled {
			return strings.Join(states, ",")
		}
		if time.Now().After(deadline) {
			panic("c10 schedule stream: goroutines did not settle within 60 s")
		}
		if spins < 50 {
			runtime.Gosched()
		} else {
			time.Sleep(50 * time.Microsecond)
		}
	}
}

func c10RunScheduleStream(t *testing.T, stats *VStats) {
	st := VOpenStream("c10s")
	defer st.Close()
	r := NewVRand(VSeed() ^ 0xC105)
	obs := &c10Observer{stats: stats}
	obs.install()
	g := &c10Gen{r: r, stats: stats}
	histories := 150
	if VThorough() {
		histories = 1200
	}
	for h := 0; h < histories; h++ {
		obs.useShadow()
		nThreads := r.Range(2, 3)
		sc := c10NewSched(nThreads)
		obs.sched = sc
		core := c10NewCore(obs.domainMap())
		st.Emit("snew "+strconv.Itoa(nThreads), c10Line("T="+sc.settle()+" "+obs.tableFp(), ""))
		g.newPools()
		if len(g.addrs) > 3 {
			g.addrs = g.addrs[:3] // force overlap between the goroutines' owners
		}
		nOwners := r.Range(2, 4)
		stats.Inc("s.histories")
		everBlocked, everInterleaved := false, false
		state := func(i int) int32 { return sc.threads[i].state.Load() }
		emit := func(op string) {
			out := VRecover(func() string { return "T=" + sc.settle() + " " + obs.tableFp() })
			st.Emit(op, c10Line(out, ""))
			if strings.Contains(out, "blocked") {
				everBlocked = true
				stats.Inc("s.steps_with_a_goroutine_blocked_on_the_mutex")
			}
		}
		nSteps := r.Range(4, 30)
		for step := 0; step < nSteps; step++ {
			var idle, parked []int
			blocked := 0
			for i := range sc.threads {
				switch state(i) {
				case c10Idle:
					idle = append(idle, i)
				case c10ParkedUpd, c10ParkedDel:
					parked = append(parked, i)
				default:
					blocked++
				}
			}
			// a new call only while nobody waits for the mutex (two waiters would be woken in an unspecified order)
			if len(idle) > 0 && blocked == 0 && (len(parked) == 0 || r.Chance(0.6)) {
				tid := idle[r.Intn(len(idle))]
				owner := "o" + strconv.Itoa(1+r.Intn(nOwners))
				th := sc.threads[tid]
				if r.Chance(0.3) {
					cache := &DnsCache{RouteOwnerKey: owner}
					th.state.Store(c10Running)
					th.work <- func() { _ = core.BatchRemoveDomainRouting(cache) }
					stats.Inc("s.op.call_remove")
					emit(fmt.Sprintf("scall %d %s rm", tid, owner))
				} else {
					bm := g.bms[1+r.Intn(len(g.bms)-1)]
					ans := g.answers()
					cache := &DnsCache{RouteOwnerKey: owner, DomainBitmap: c10ParseBits(bm, 32)}
					for _, a := range ans {
						cache.Answer = append(cache.Answer, c10MakeAns(a, "h.example."))
					}
					th.state.Store(c10Running)
					th.work <- func() { _ = core.BatchUpdateDomainRouting(cache) }
					stats.Inc("s.op.call_update")
					emit(strings.TrimRight(fmt.Sprintf("scall %d %s %s %s", tid, owner, bm, strings.Join(ans, " ")), " "))
				}
				if len(parked) > 0 {
					everInterleaved = true
				}
				continue
			}
			if len(parked) > 0 {
				tid := parked[r.Intn(len(parked))]
				th := sc.threads[tid]
				th.state.Store(c10Running)
				th.release <- struct{}{}
				stats.Inc("s.op.go")
				emit(fmt.Sprintf("sgo %d", tid))
			}
		}
		// let everybody finish
		for {
			tid := -1
			for i := range sc.threads {
				if s := state(i); s == c10ParkedUpd || s == c10ParkedDel {
					tid = i
				}
			}
			if tid < 0 {
				break
			}
			th := sc.threads[tid]
			th.state.Store(c10Running)
			th.release <- struct{}{}
			stats.Inc("s.op.go")
			emit(fmt.Sprintf("sgo %d", tid))
		}
		st.Emit("sdump", c10Line(obs.kernelStr(), c10TrackerStr(core.domainRouting)))
		if everBlocked {
			stats.Inc("s.histories_with_a_blocked_goroutine")
		}
		if everInterleaved {
			stats.Inc("s.histories_with_a_call_started_while_another_is_inside")
		}
		sc.stop()
		obs.sched = nil
	}
}

func TestVerifC10(t *testing.T) {
	stats := NewVStats()
	c10RunTrackerStream(t, stats)
	c10RunScheduleStream(t, stats)

	st := VOpenStream("c10c")
	defer st.Close()
	r := NewVRand(VSeed() ^ 0xC10C)
	obs := &c10Observer{stats: stats}
	obs.install()
	g := &c10Gen{r: r, stats: stats}
	histories := 300
	if VThorough() {
		histories = 5000
	}
	for h := 0; h < histories; h++ {
		scripted := h%4 == 3
		real := h%3 == 1 && !scripted // real janitor ticker, evictor and refresh worker goroutines
		// every second history: the table is a real kernel hash map (production capacity) and the production
		// batch functions run on it
		obs.useShadow()
		if h%2 == 0 && obs.useKernelMap(c10ProductionMaxEntries) {
			stats.Inc("c.histories_on_real_kernel_map")
		}
		synctest.Test(t, func(t *testing.T) {
			c10RunCacheHistory(st, r, obs, stats, g, scripted, real)
		})
	}
	probe := func(name string, kernelMap bool, f func(*c10Observer, *VStats) string) {
		obs.useShadow()
		if kernelMap {
			obs.useKernelMap(c10ProductionMaxEntries)
		}
		synctest.Test(t, func(t *testing.T) {
			line := VRecover(func() string { return f(obs, stats) })
			_ = os.WriteFile(filepath.Join(VOutDir(), name), []byte(line+"\n"), 0o644)
		})
	}
	probe("c10.race.txt", false, c10RaceProbe)
	probe("c10.bigreload.txt", true, c10BigReloadProbe)
	probe("c10.handover.txt", false, c10HandoverProbe)
	obs.useShadow()
	stats.Write("c10")
}
