package control

// C01 extension harness (compiled only by the C01 check, together with the file translators/c01ids
// regenerates from control_plane.go):
//
//   - stream c01ob: one outbound as the user writes it, through the real config_parser.Parse,
//     config.New (→ patchMustOutbound) and routing.ParseOutbound — for a rule and for the fallback — against
//     the model's patch + parse (Outbound.lean).  The answer carries the NAME, so a prefix removed the
//     wrong way shows directly.
//   - stream c01ids: NewControlPlane's own group-table statements (guard, duplicate check, ids) on tables
//     of every size around the limit, against Outbound.assignIds.

import (
	"encoding/hex"
	"fmt"
	"strings"
	"testing"

	"github.com/daeuniverse/dae/common/consts"
	"github.com/daeuniverse/dae/component/routing"
	"github.com/daeuniverse/dae/config"
	"github.com/daeuniverse/dae/pkg/config_parser"
)

func init() { c01AssignIds = c01AssignOutboundIds }

type c01KV struct{ k, v string }

func c01ObText(r *VRand, name string, params []c01KV) string {
	var tp []string
	for _, q := range params {
		val := q.v
		if val == "" || strings.ContainsAny(val, " ,()'\"") || r.Chance(0.15) {
			val = "'" + val + "'"
		}
		if q.k == "" {
			tp = append(tp, val)
		} else {
			tp = append(tp, q.k+[]string{": ", ":", " : "}[r.Intn(3)]+val)
		}
	}
	if len(tp) == 0 {
		return name
	}
	return name + "(" + strings.Join(tp, ", ") + ")"
}

func c01ObTokens(name string, params []c01KV) string {
	t := fmt.Sprintf("%s %d", c01Hex(name), len(params))
	for _, q := range params {
		t += " " + c01Hex(q.k) + " " + c01Hex(q.v)
	}
	return t
}

func c01ObAnswer(f *config_parser.Function) string {
	o, err := routing.ParseOutbound(f)
	if err != nil {
		return "err"
	}
	m := 0
	if o.Must {
		m = 1
	}
	return fmt.Sprintf("name=%s mark=%d must=%d", c01Hex(o.Name), o.Mark, m)
}

func TestVerifC01Ext(t *testing.T) {
	r := NewVRand(VSeed() ^ 0x0b0b)
	stats := NewVStats()
	defer stats.Write("c01ext")

	// ------------------------------------------------------------------ outbounds as written
	ob := VOpenStream("c01ob")
	n := 1500
	if VThorough() {
		n = 12000
	}
	stems := []string{"proxy", "us_proxy", "steam", "m", "t", "_", "su", "mustang", "must", "tt_s", "direct", "block", "rules", "umts", "must_", "s_t_u_m", "g1"}
	for i := 0; i < n; i++ {
		gen := func() (string, []c01KV) {
			name := stems[r.Intn(len(stems))]
			switch r.Intn(10) {
			case 0, 1, 2, 3:
				name = "must_" + name
				stats.Inc("ob.must_prefix")
			case 4:
				name = "must_must_" + name
				stats.Inc("ob.must_prefix_twice")
			}
			if r.Chance(0.04) {
				name = "must_rules"
				stats.Inc("ob.must_rules")
			}
			var ps []c01KV
			for k := r.Intn(4); k > 0; k-- {
				switch r.Intn(12) {
				case 0, 1, 2:
					ps = append(ps, c01KV{"", "must"})
				case 3, 4, 5, 6, 7:
					v := []uint64{0, 1, 7, 8, 0x800, 0xffffffff, r.U64() % (1 << 32), r.U64() % 100}[r.Intn(8)]
					ps = append(ps, c01KV{"mark", c01NumForm(r, v, stats)})
				case 8:
					ps = append(ps, c01KV{"mark", c01BadNum(r, 32)})
					stats.Inc("ob.bad_mark")
				case 9:
					ps = append(ps, []c01KV{{"", "Must"}, {"", "may"}, {"", ""}, {"", "mark"}}[r.Intn(4)])
					stats.Inc("ob.bad_word")
				case 10:
					ps = append(ps, []c01KV{{"must", "1"}, {"fwmark", "1"}, {"Mark", "1"}, {"marks", "1"}}[r.Intn(4)])
					stats.Inc("ob.bad_key")
				default:
					// numbers at the edges of the 32-bit range, in every base
					v := []uint64{1<<32 - 1, 1 << 32, 1<<32 + 1, 1 << 31, 1<<31 - 1}[r.Intn(5)]
					ps = append(ps, c01KV{"mark", c01NumForm(r, v, stats)})
					stats.Inc("ob.mark_at_32bit_edge")
				}
			}
			if len(ps) >= 2 {
				stats.Inc("ob.several_params")
			}
			return name, ps
		}
		rn, rp := gen()
		fn, fp := gen()
		if fn == "must_rules" && r.Chance(0.7) {
			fn = "must_direct"
		}
		text := "global {}\nrouting {\n  dport(1) -> " + c01ObText(r, rn, rp) + "\n  fallback: " + c01ObText(r, fn, fp) + "\n}\n"
		if i < 3 {
			stats.Sample(text)
		}
		var ruleAns, fbAns string
		perr := VRecover(func() string {
			sections, err := config_parser.Parse(text)
			if err != nil {
				return "parse:" + err.Error()
			}
			conf, err := config.New(sections)
			if err != nil {
				ruleAns, fbAns = "err", "err"
				return ""
			}
			if len(conf.Routing.Rules) != 1 {
				return fmt.Sprintf("parse: %d rules", len(conf.Routing.Rules))
			}
			ruleAns = c01ObAnswer(&conf.Routing.Rules[0].Outbound)
			// the fallback, as addFallback reads it
			ff, err := config.ParseFunctionOrString(conf.Routing.Fallback)
			if err != nil {
				fbAns = "err"
			} else {
				fbAns = c01ObAnswer(ff)
			}
			return ""
		})
		if strings.HasPrefix(perr, "crash:") {
			ob.Emit("ob R "+c01ObTokens(rn, rp), perr)
			continue
		}
		if perr != "" {
			// refused by the configuration walker: not this property's subject (C17)
			stats.Inc("ob.refused_by_config_parser")
			continue
		}
		ob.Emit("ob R "+c01ObTokens(rn, rp), ruleAns)
		ob.Emit("ob F "+c01ObTokens(fn, fp), fbAns)
		for _, a := range []string{ruleAns, fbAns} {
			if a == "err" {
				stats.Inc("ob.answer.err")
			} else {
				stats.Inc("ob.answer.ok")
				if strings.HasSuffix(a, "must=1") {
					stats.Inc("ob.answer.must")
				}
			}
		}
	}
	stats.Add("ob.ops", ob.N)
	ob.Close()

	// ------------------------------------------------------------------ the group table
	ids := VOpenStream("c01ids")
	lim := int(consts.OutboundUserDefinedMax)
	sizes := []int{0, 1, 2, 3, 17, lim - 2, lim - 1, lim, lim + 1, lim + 2, 254, 255, 256, 257, 300}
	for round := 0; round < 3; round++ {
		for _, sz := range sizes {
			names := make([]string, sz)
			for i := range names {
				names[i] = fmt.Sprintf("%s%d", stems[(i+round)%len(stems)], i)
			}
			dup := false
			if round == 2 && sz >= 2 {
				names[sz-1] = names[r.Intn(sz-1)]
				dup = true
				stats.Inc("ids.duplicate_name")
			}
			q := "nosuch"
			if sz > 0 {
				q = names[[]int{0, sz - 1, r.Intn(sz)}[r.Intn(3)]]
			}
			var hx []string
			for _, nm := range names {
				hx = append(hx, hex.EncodeToString([]byte(nm)))
			}
			op := "ids " + strings.Join(hx, " ") + " ? " + hex.EncodeToString([]byte(q))
			ans := VRecover(func() string {
				m, err := c01AssignOutboundIds(names)
				if err != nil {
					return "err"
				}
				id := "-"
				if v, ok := m[q]; ok {
					id = fmt.Sprint(v)
				}
				return fmt.Sprintf("ok n=%d id=%s", len(m), id)
			})
			ids.Emit(op, ans)
			switch {
			case sz == lim && !dup && ans != "err":
				stats.Inc("ids.largest_table_accepted")
			case sz == lim+1 && ans == "err":
				stats.Inc("ids.one_too_many_refused")
			}
			if ans == "err" {
				stats.Inc("ids.refused")
			} else {
				stats.Inc("ids.accepted")
			}
		}
	}
	stats.Sample("group-table guard in control_plane.go: " + c01AssignOutboundIdsSource)
	stats.Add("ids.ops", ids.N)
	ids.Close()
}
