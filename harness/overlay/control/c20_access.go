package control

import "github.com/sirupsen/logrus"

// C20 harness accessors (injected by `go test -overlay` only while the C20 check builds package
// cmd's test binary; never part of /repo).  A retiring "old generation" for the real
// startControlPlaneRetirement / waitForControlPlaneDrain: a ControlPlane that has nothing but the
// real drain tracker, so that sessions can be opened and ended from the harness.

func VerifC20NewDrainPlane() *ControlPlane {
	return &ControlPlane{drainTracker: newControlPlaneDrainTracker()}
}

// VerifC20OpenSession opens one live session (the real drain ticket); the returned func ends it.
func (c *ControlPlane) VerifC20OpenSession() func() { return c.acquireDrainTicket() }

// VerifC20Aborted reports whether AbortConnections ran on this generation.
func (c *ControlPlane) VerifC20Aborted() bool { return c.rejectNewConnections.Load() }

// VerifC20NewSuccessor: a "new generation" for RunReloadRetirementCleanup — no BPF objects (every
// map clean-up finds nothing), but the real lock and the real log line.
func VerifC20NewSuccessor(log *logrus.Logger) *ControlPlane {
	return &ControlPlane{log: log, drainTracker: newControlPlaneDrainTracker()}
}
