package control

// C05 correspondence harness, part 1: whole connections through the REAL ControlPlane.handleConn
// (DNS-over-TCP detection, sniff prefetch, ConnSniffer, routeDial with a scripted dialer,
// RelayTCPContextWithRecords = relayCore + defaultRelayCopyEngine) over in-memory duplex conns under
// testing/synctest virtual time, against the Lean model driver c05drv (`conn` ops).
//
// The in-memory conn (c05Conn) keeps the writer's segment boundaries, supports read deadlines with
// the semantics of internal/poll (an expired deadline fails a read even when data is queued),
// CloseWrite, Close and RST, and logs every SetReadDeadline.  Both peers run open-loop timed
// scripts; what each peer received and when, when it saw end-of-stream, when the dial happened and
// whether a read deadline was still armed on the client socket at that moment are compared with the
// model.  Scripts whose events coincide with an armed deadline are discarded (the order of two
// events at one virtual instant is not defined).

import (
	"context"
	"encoding/hex"
	"errors"
	"fmt"
	"io"
	"net"
	"net/netip"
	"os"
	"path/filepath"
	"runtime"
	"sort"
	"strings"
	"sync"
	"syscall"
	"testing"
	"testing/synctest"
	"time"

	"github.com/daeuniverse/dae/common/consts"
	"github.com/daeuniverse/dae/component/outbound"
	componentdialer "github.com/daeuniverse/dae/component/outbound/dialer"
	"github.com/daeuniverse/dae/component/routing"
	"github.com/daeuniverse/dae/component/sniffing"
	"github.com/daeuniverse/dae/config"
	"github.com/daeuniverse/dae/pkg/config_parser"
	D "github.com/daeuniverse/outbound/dialer"
	"github.com/daeuniverse/outbound/netproxy"
	dnsmessage "github.com/miekg/dns"
	"github.com/sirupsen/logrus"
)

// ------------------------------------------------------------------ in-memory duplex conn

type c05World struct {
	t0   time.Time
	mu   sync.Mutex
	arms []int64 // absolute µs of every non-zero, non-past read deadline armed on any conn
}

func (w *c05World) us() int64 { return time.Since(w.t0).Microseconds() }

type c05Half struct {
	mu           sync.Mutex
	q            [][]byte
	eof          bool // writer shut its write side
	rst          bool // writer reset the connection
	readerGone   bool // reader closed: writes fail
	lastWithTerm bool // the read returning the last queued segment also reports the end
	notify       chan struct{}
}

func newC05Half() *c05Half { return &c05Half{notify: make(chan struct{})} }
func (h *c05Half) bump()   { close(h.notify); h.notify = make(chan struct{}) }

type c05Conn struct {
	name       string
	rd, wr     *c05Half
	w          *c05World
	mu         sync.Mutex
	dl         time.Time
	dlCh       chan struct{}
	closed     bool
	eofN       int       // EOF reads in a row at one virtual instant
	eofAt      time.Time // instant of the last EOF read
	local      net.Addr
	remote     net.Addr
	noDeadline bool      // SetReadDeadline fails (a conn without deadline support)
	got        int       // bytes handed to the reader so far
	rlog       []c05Read // every Read call: bytes handed out before it, len(p)
	wcap       int64     // >= 0: Write accepts this many more bytes; the write that exceeds them is partial and fails
}

type c05Read struct{ have, size int }

func c05Pair(w *c05World, a, b string) (*c05Conn, *c05Conn) {
	h1, h2 := newC05Half(), newC05Half()
	return &c05Conn{name: a, rd: h1, wr: h2, w: w, dlCh: make(chan struct{}), wcap: -1},
		&c05Conn{name: b, rd: h2, wr: h1, w: w, dlCh: make(chan struct{}), wcap: -1}
}

type c05Timeout struct{}

func (c05Timeout) Error() string   { return "i/o timeout" }
func (c05Timeout) Timeout() bool   { return true }
func (c05Timeout) Temporary() bool { return true }
func (c05Timeout) Unwrap() error   { return os.ErrDeadlineExceeded }

func c05ResetErr() error {
	return &net.OpError{Op: "read", Net: "tcp", Err: os.NewSyscallError("read", syscall.ECONNRESET)}
}

func (c *c05Conn) Read(p []byte) (int, error) {
	c.mu.Lock()
	if len(c.rlog) < 1<<16 {
		c.rlog = append(c.rlog, c05Read{c.got, len(p)})
	}
	c.mu.Unlock()
	n, err := c.read(p)
	c.mu.Lock()
	c.got += n
	c.mu.Unlock()
	return n, err
}

func (c *c05Conn) read(p []byte) (int, error) {
	for {
		c.mu.Lock()
		closed, dl, dlCh := c.closed, c.dl, c.dlCh
		c.mu.Unlock()
		if closed {
			return 0, net.ErrClosed
		}
		if !dl.IsZero() && !time.Now().Before(dl) {
			return 0, &net.OpError{Op: "read", Net: "tcp", Err: c05Timeout{}}
		}
		c.rd.mu.Lock()
		if len(c.rd.q) > 0 {
			ch := c.rd.q[0]
			n := copy(p, ch)
			if n < len(ch) {
				c.rd.q[0] = ch[n:]
			} else {
				c.rd.q = c.rd.q[1:]
				// a conn that reports the end together with the last segment ((n>0, io.EOF) / (n>0, err))
				if c.rd.lastWithTerm && len(c.rd.q) == 0 && (c.rd.eof || c.rd.rst) {
					rst := c.rd.rst
					c.rd.mu.Unlock()
					if rst {
						return n, c05ResetErr()
					}
					return n, io.EOF
				}
			}
			c.rd.mu.Unlock()
			return n, nil
		}
		if c.rd.rst {
			c.rd.mu.Unlock()
			return 0, c05ResetErr()
		}
		if c.rd.eof {
			c.rd.mu.Unlock()
			if now := time.Now(); now.Equal(c.eofAt) {
				c.eofN++
			} else {
				c.eofN, c.eofAt = 1, now
			}
			if c.eofN >= 3 {
				// a caller spinning on EOF (the sniffer's need-more loop does) must let virtual
				// time advance: burn 50 µs, but never sleep across an armed deadline.
				// …and the longer the spin lasts the bigger the steps (50 µs doubling up to 1 s), so that a caller spinning
				// WITHOUT a deadline reaches the scenario's virtual time limit in a few thousand reads instead of never
				d := 50 * time.Microsecond << min((c.eofN-3)/3, 15)
				if d > time.Second {
					d = time.Second
				}
				if !dl.IsZero() && time.Until(dl) < d {
					d = time.Until(dl)
				}
				if d > 0 {
					time.Sleep(d)
				}
				if !dl.IsZero() && !time.Now().Before(dl) {
					return 0, &net.OpError{Op: "read", Net: "tcp", Err: c05Timeout{}}
				}
				c.eofAt = time.Now()
			}
			return 0, io.EOF
		}
		nt := c.rd.notify
		c.rd.mu.Unlock()
		var tc <-chan time.Time
		var tm *time.Timer
		if !dl.IsZero() {
			tm = time.NewTimer(time.Until(dl))
			tc = tm.C
		}
		select {
		case <-nt:
		case <-dlCh:
		case <-tc:
		}
		if tm != nil {
			tm.Stop()
		}
	}
}

func (c *c05Conn) Write(p []byte) (int, error) {
	c.mu.Lock()
	closed := c.closed
	c.mu.Unlock()
	if closed {
		return 0, net.ErrClosed
	}
	if len(p) == 0 {
		return 0, nil
	}
	c.wr.mu.Lock()
	defer c.wr.mu.Unlock()
	if c.wr.eof || c.wr.readerGone {
		return 0, &net.OpError{Op: "write", Net: "tcp", Err: os.NewSyscallError("write", syscall.EPIPE)}
	}
	if c.wcap >= 0 && int64(len(p)) > c.wcap {
		// fault injection: the peer's receive side broke after c.wcap more bytes — partial write, then an error
		// The failure is TRANSIENT (one shot, like an expired write deadline): correct code never writes again after a
		// write error, so it cannot tell — code that swallows the error or retries the buffer shows a gap / a duplicate.
		n := int(c.wcap)
		c.wcap = -1
		if n > 0 {
			c.wr.q = append(c.wr.q, append([]byte(nil), p[:n]...))
			c.wr.bump()
		}
		return n, &net.OpError{Op: "write", Net: "tcp", Err: os.NewSyscallError("write", syscall.EPIPE)}
	}
	if c.wcap >= 0 {
		c.wcap -= int64(len(p))
	}
	c.wr.q = append(c.wr.q, append([]byte(nil), p...))
	c.wr.bump()
	return len(p), nil
}

func (c *c05Conn) CloseWrite() error {
	c.wr.mu.Lock()
	if !c.wr.eof {
		c.wr.eof = true
		c.wr.bump()
	}
	c.wr.mu.Unlock()
	return nil
}

func (c *c05Conn) shut(rst bool) {
	c.mu.Lock()
	if c.closed {
		c.mu.Unlock()
		return
	}
	c.closed = true
	close(c.dlCh)
	c.dlCh = make(chan struct{})
	c.mu.Unlock()
	c.wr.mu.Lock()
	c.wr.eof = true
	if rst {
		c.wr.rst = true
	}
	c.wr.bump()
	c.wr.mu.Unlock()
	c.rd.mu.Lock()
	c.rd.readerGone = true
	c.rd.mu.Unlock()
}
func (c *c05Conn) Close() error { c.shut(false); return nil }
func (c *c05Conn) Reset()       { c.shut(true) }

func (c *c05Conn) LocalAddr() net.Addr           { return c.local }
func (c *c05Conn) RemoteAddr() net.Addr          { return c.remote }
func (c *c05Conn) SetDeadline(t time.Time) error { return c.SetReadDeadline(t) }
func (c *c05Conn) SetReadDeadline(t time.Time) error {
	if c.noDeadline {
		return errors.New("deadline not supported")
	}
	c.mu.Lock()
	c.dl = t
	close(c.dlCh)
	c.dlCh = make(chan struct{})
	c.mu.Unlock()
	if !t.IsZero() && t.After(c.w.t0) {
		c.w.mu.Lock()
		c.w.arms = append(c.w.arms, t.Sub(c.w.t0).Microseconds())
		c.w.mu.Unlock()
	}
	return nil
}
func (c *c05Conn) SetWriteDeadline(time.Time) error { return nil }
func (c *c05Conn) readDeadlineArmed() bool {
	c.mu.Lock()
	defer c.mu.Unlock()
	return !c.dl.IsZero()
}

// c05NoCW hides CloseWrite (a proxy conn that cannot half-close).
type c05NoCW struct{ c *c05Conn }

func (n c05NoCW) Read(p []byte) (int, error)         { return n.c.Read(p) }
func (n c05NoCW) Write(p []byte) (int, error)        { return n.c.Write(p) }
func (n c05NoCW) Close() error                       { return n.c.Close() }
func (n c05NoCW) LocalAddr() net.Addr                { return n.c.LocalAddr() }
func (n c05NoCW) RemoteAddr() net.Addr               { return n.c.RemoteAddr() }
func (n c05NoCW) SetDeadline(t time.Time) error      { return n.c.SetDeadline(t) }
func (n c05NoCW) SetReadDeadline(t time.Time) error  { return n.c.SetReadDeadline(t) }
func (n c05NoCW) SetWriteDeadline(t time.Time) error { return n.c.SetWriteDeadline(t) }

// ------------------------------------------------------------------ chunks, scripts, op text

type c05Chunk struct {
	gen       bool
	seed, len int
	lit       []byte
}

func c05GenBytes(seed, n int) []byte {
	b := make([]byte, n)
	for i := range b {
		b[i] = byte((seed + 7*i + i/251) % 256)
	}
	return b
}
func (c c05Chunk) bytes() []byte {
	if c.gen {
		return c05GenBytes(c.seed, c.len)
	}
	return c.lit
}
func (c c05Chunk) tok() string {
	if c.gen {
		return fmt.Sprintf("g%d.%d", c.seed, c.len)
	}
	return "h" + hex.EncodeToString(c.lit)
}
func c05Lit(b []byte) c05Chunk { return c05Chunk{lit: b} }

type c05Ev struct {
	t int64
	c c05Chunk
}
type c05Script struct {
	evs   []c05Ev
	finT  int64
	reset bool
}

func (s c05Script) tok() string {
	var sb strings.Builder
	for _, e := range s.evs {
		fmt.Fprintf(&sb, "%d:%s;", e.t, e.c.tok())
	}
	if s.reset {
		fmt.Fprintf(&sb, "%d:R", s.finT)
	} else {
		fmt.Fprintf(&sb, "%d:E", s.finT)
	}
	return sb.String()
}
func (s c05Script) stream() []byte {
	var out []byte
	for _, e := range s.evs {
		out = append(out, e.c.bytes()...)
	}
	return out
}

func c05Fnv(b []byte) uint64 {
	h := uint64(14695981039346656037)
	for _, x := range b {
		h = (h ^ uint64(x)) * 1099511628211
	}
	return h
}
func c05Digest(b []byte) string {
	if len(b) == 0 {
		return "-"
	}
	if len(b) <= 96 {
		return hex.EncodeToString(b)
	}
	return fmt.Sprintf("%d~%d", len(b), c05Fnv(b))
}
func c05B(b bool) string {
	if b {
		return "1"
	}
	return "0"
}

// what one peer saw
type c05Recv struct {
	mu    sync.Mutex
	times []int64
	lens  []int
	data  []byte
	eofT  int64
}

func (r *c05Recv) run(w *c05World, c net.Conn, wg *sync.WaitGroup) {
	defer wg.Done()
	buf := make([]byte, 1<<16)
	for {
		n, err := c.Read(buf)
		r.mu.Lock()
		if n > 0 {
			t := w.us()
			if k := len(r.times); k > 0 && r.times[k-1] == t {
				r.lens[k-1] += n
			} else {
				r.times = append(r.times, t)
				r.lens = append(r.lens, n)
			}
			r.data = append(r.data, buf[:n]...)
		}
		if err != nil {
			r.eofT = w.us()
			r.mu.Unlock()
			return
		}
		r.mu.Unlock()
	}
}

// str renders the deliveries; those at instant `drop` (>= 0) are left out.
func (r *c05Recv) str(drop int64) string {
	r.mu.Lock()
	defer r.mu.Unlock()
	var parts []string
	var data []byte
	off := 0
	for i := range r.times {
		if r.times[i] != drop {
			parts = append(parts, fmt.Sprintf("%d:%d", r.times[i], r.lens[i]))
			data = append(data, r.data[off:off+r.lens[i]]...)
		}
		off += r.lens[i]
	}
	if len(parts) == 0 {
		return "-#-"
	}
	return strings.Join(parts, ",") + "#" + c05Digest(data)
}

func c05Play(w *c05World, c *c05Conn, s c05Script, wg *sync.WaitGroup) {
	defer wg.Done()
	for _, e := range s.evs {
		if d := time.Duration(e.t)*time.Microsecond - time.Since(w.t0); d > 0 {
			time.Sleep(d)
		}
		_, _ = c.Write(e.c.bytes())
	}
	if d := time.Duration(s.finT)*time.Microsecond - time.Since(w.t0); d > 0 {
		time.Sleep(d)
	}
	if s.reset {
		c.Reset()
	} else {
		_ = c.CloseWrite()
	}
}

// ------------------------------------------------------------------ the real control plane around a scripted dialer

type c05Dialer struct {
	mu   sync.Mutex
	dial func(addr string) (netproxy.Conn, error)
}

func (d *c05Dialer) DialContext(_ context.Context, _ string, addr string) (netproxy.Conn, error) {
	d.mu.Lock()
	f := d.dial
	d.mu.Unlock()
	return f(addr)
}

func c05ControlPlane(t *testing.T, ud *c05Dialer) *ControlPlane {
	log := logrus.New()
	log.SetOutput(io.Discard)
	log.SetLevel(logrus.PanicLevel)
	sections, err := config_parser.Parse("global{}\nrouting{\n fallback: myout\n}\n")
	if err != nil {
		t.Fatal(err)
	}
	conf, err := config.New(sections)
	if err != nil {
		t.Fatal(err)
	}
	program, err := routing.NewNormalizedProgram(conf.Routing.Rules, conf.Routing.Fallback)
	if err != nil {
		t.Fatal(err)
	}
	name2id := map[string]uint8{"direct": 0, "block": 1, "myout": uint8(consts.OutboundUserDefinedMin)}
	b, err := NewRoutingMatcherBuilderFromProgram(log, program, name2id, nil)
	if err != nil {
		t.Fatal(err)
	}
	m, err := b.BuildUserspace()
	if err != nil {
		t.Fatal(err)
	}
	gopt := &componentdialer.GlobalOption{Log: log, CheckInterval: time.Second}
	d := componentdialer.NewDialer(ud, gopt, componentdialer.InstanceOption{DisableCheck: true},
		&componentdialer.Property{Property: D.Property{Name: "scripted", Address: "up.example:1", Protocol: "scripted"}})
	// a failing dial makes routeDial notify the dialer's health checker, which looks at the dialer's context: create
	// that context's Done channel here, outside every synctest bubble, so that any bubble may receive from it
	d.NotifyCheckTcp()
	group := outbound.NewDialerGroup(gopt, "myout", []*componentdialer.Dialer{d},
		[]*componentdialer.Annotation{{}},
		outbound.DialerSelectionPolicy{Policy: consts.DialerSelectionPolicy_Fixed, FixedIndex: 0},
		func(bool, *componentdialer.NetworkType, bool) {})
	outbounds := make([]*outbound.DialerGroup, int(consts.OutboundUserDefinedMin)+1)
	outbounds[consts.OutboundUserDefinedMin] = group
	cp := &ControlPlane{log: log, soMarkFromDae: 0x100}
	cp.outbounds = outbounds
	cp.routingMatcher = m
	cp.dialMode = consts.DialMode_DomainPlus
	return cp
}

// ------------------------------------------------------------------ one scenario

type c05Scn struct {
	port    uint16
	window  int64 // µs
	negSkip bool  // negative cache suppresses sniffing
	rcw     bool
	client  c05Script
	up      c05Script
	kind    string
	host    string // unique per scenario: SNI / Host header, i.e. the dial target of a sniffed connection
	// faults (zero value = none)
	noLcw    bool  // the client conn cannot half-close (no CloseWrite)
	ucap     int64 // > 0: the upstream accepts ucap-1 bytes from the relay, then its write fails
	ccap     int64 // > 0: same for the client
	cancel   int64 // > 0: handleConn's context is cancelled at this time (µs)
	dialFail bool  // the dial fails
}

func (s *c05Scn) faulty() bool { return s.ucap > 0 || s.ccap > 0 || s.cancel > 0 }

func (s *c05Scn) faultToks() string {
	out := ""
	if s.ucap > 0 {
		out += fmt.Sprintf(" ucap=%d", s.ucap-1)
	}
	if s.ccap > 0 {
		out += fmt.Sprintf(" ccap=%d", s.ccap-1)
	}
	if s.cancel > 0 {
		out += fmt.Sprintf(" cancel=%d", s.cancel)
	}
	if s.dialFail {
		out += " dialfail=1"
	}
	return out
}

var c05HostSeq int

func c05NextHost() string { c05HostSeq++; return fmt.Sprintf("c%d.example.com", c05HostSeq) }

// c05ProbeConn feeds a fixed prefix to the REAL stream sniffer and notes whether it asked for more.  It is a
// (trivial) net.Conn with working SetReadDeadline, so the sniffer takes its synchronous read-deadline path:
// no goroutines, no context deadline, nothing depends on wall-clock time or load.
type c05ProbeConn struct {
	data []byte
	off  int
	more bool
}

var errC05ProbeStop = errors.New("probe: no more data")

func (r *c05ProbeConn) Read(p []byte) (int, error) {
	if r.off < len(r.data) {
		n := copy(p, r.data[r.off:])
		r.off += n
		return n, nil
	}
	r.more = true
	return 0, errC05ProbeStop
}
func (r *c05ProbeConn) Write(p []byte) (int, error)      { return len(p), nil }
func (r *c05ProbeConn) Close() error                     { return nil }
func (r *c05ProbeConn) LocalAddr() net.Addr              { return &net.TCPAddr{} }
func (r *c05ProbeConn) RemoteAddr() net.Addr             { return &net.TCPAddr{} }
func (r *c05ProbeConn) SetDeadline(time.Time) error      { return nil }
func (r *c05ProbeConn) SetReadDeadline(time.Time) error  { return nil }
func (r *c05ProbeConn) SetWriteDeadline(time.Time) error { return nil }

// c05NeedMore asks the real SniffTcp (real sniffer order) whether a buffer holding exactly `prefix`
// makes it read again, i.e. whether the verdict is ErrNeedMore.
func c05NeedMore(prefix []byte) bool {
	pr := &c05ProbeConn{data: prefix}
	sn := sniffing.NewStreamSniffer(pr, time.Hour)
	_, _ = sn.SniffTcp()
	_ = sn.Close()
	return pr.more
}

// oracles handed to the model, all computed with the real functions: dns.Unpack of the first frame,
// isLikelyHttpOrTLSPrefix of the prefetched bytes, and — after the run, at the buffer lengths the real
// sniffer actually held (plus every cumulative segment length) — ErrNeedMore and the size of the conn
// read the sniffer issued (Buffer.ReadFromOnce offers cap-len).
func c05Oracles(s *c05Scn, detect []c05Read) (unpack, likely bool, needMore []int, offers string) {
	stream := s.client.stream()
	if len(stream) >= 2 {
		l := int(stream[0])<<8 | int(stream[1])
		if l >= 12 && 2+l <= len(stream) {
			var m dnsmessage.Msg
			unpack = m.Unpack(stream[2:2+l]) == nil
		}
	}
	if len(s.client.evs) > 0 {
		first := s.client.evs[0].c.bytes()
		if len(first) > tcpSniffPrefetchBytes {
			first = first[:tcpSniffPrefetchBytes]
		}
		likely = isLikelyHttpOrTLSPrefix(first)
	}
	offers = "-"
	if likely && s.port != 53 {
		lens := map[int]bool{}
		cum := 0
		for _, e := range s.client.evs {
			cum += len(e.c.bytes())
			if cum > 40000 {
				break
			}
			lens[cum] = true
		}
		var ofs []string
		seen := map[int]bool{}
		for _, r := range detect {
			if r.have > 0 && r.have <= len(stream) {
				lens[r.have] = true
				if !seen[r.have] {
					seen[r.have] = true
					ofs = append(ofs, fmt.Sprintf("%d:%d", r.have, r.size))
				}
			}
		}
		if len(ofs) > 0 {
			offers = strings.Join(ofs, ",")
		}
		var ls []int
		for l := range lens {
			ls = append(ls, l)
		}
		sort.Ints(ls)
		for _, l := range ls {
			if c05NeedMore(stream[:l]) {
				needMore = append(needMore, l)
			}
		}
	}
	return
}

func c05Ints(xs []int) string {
	if len(xs) == 0 {
		return "-"
	}
	p := make([]string, len(xs))
	for i, x := range xs {
		p[i] = fmt.Sprint(x)
	}
	return strings.Join(p, ",")
}

type c05Result struct {
	op, impl string
	ok       bool
	why      string // reason of a discard
}

// one scenario while it runs
type c05Live struct {
	s               *c05Scn
	client, left    *c05Conn
	upstream, right *c05Conn
	clRecv, upRecv  c05Recv
	dialT           int64
	armed           bool
	detect          []c05Read
	ret             int64
	crash           string
	wg              sync.WaitGroup
}

// c05RunBatch plays the scenarios SIMULTANEOUSLY (one synctest bubble, one ControlPlane, shared pools)
// against the real handleConn; each scenario has its own destination address and host name, by which
// the scripted dialer finds its upstream.  All scenarios of a batch use the first one's sniffing window.
// ---- bounds on one scenario / batch
//
// virtual: after c05VirtualLimit of virtual time every conn of the batch is closed (a handler that no longer returns by
// itself then returns, hours late, and is compared — and reported — like any other scenario);
// real: a watchdog OUTSIDE the bubble (real clock) ends the process when a batch takes more than c05WallLimit of wall
// clock or the heap grows beyond c05HeapLimit: it flushes the streams, writes <stream>.hang (index + scenario) and
// exits with status 3; checks/c05.py re-runs that scenario alone (VERIF_C05_ONLY) before it says anything.
const (
	c05VirtualLimit = 6 * time.Hour
	c05WallLimit    = 90 * time.Second
	c05HeapLimit    = 2 << 30
)

var (
	c05Stream  string // stream being produced (for the hang record)
	c05Index   int    // index of the scenario / batch being run
	c05FlushFn func()
)

func c05Only() int {
	v := os.Getenv("VERIF_C05_ONLY")
	if v == "" {
		return -1
	}
	n := -1
	fmt.Sscanf(v, "%d", &n)
	return n
}

func (s *c05Scn) describe() string {
	d := fmt.Sprintf("kind=%s port=%d w=%d rcw=%s c=%s u=%s%s", s.kind, s.port, s.window, c05B(s.rcw), s.client.tok(), s.up.tok(), s.faultToks())
	if len(d) > 3000 {
		d = d[:3000] + "…"
	}
	return d
}

func c05Watch(scns []*c05Scn) (stop func()) {
	done := make(chan struct{})
	stream, idx, flush := c05Stream, c05Index, c05FlushFn
	go func() {
		limit := time.NewTimer(c05WallLimit)
		defer limit.Stop()
		tick := time.NewTicker(time.Second)
		defer tick.Stop()
		for {
			why := ""
			select {
			case <-done:
				return
			case <-limit.C:
				why = fmt.Sprintf("no result after %v of wall clock", c05WallLimit)
			case <-tick.C:
				var m runtime.MemStats
				runtime.ReadMemStats(&m)
				if m.HeapAlloc > c05HeapLimit {
					why = fmt.Sprintf("heap grew to %d MiB", m.HeapAlloc>>20)
				}
			}
			if why == "" {
				continue
			}
			var ds []string
			for _, s := range scns {
				ds = append(ds, s.describe())
			}
			_ = os.WriteFile(filepath.Join(VOutDir(), stream+".hang"), []byte(fmt.Sprintf("%d\t%s\t%s\n", idx, why, strings.Join(ds, " || "))), 0o644)
			if flush != nil {
				flush()
			}
			os.Exit(3)
		}
	}()
	return func() { close(done) }
}

func c05RunBatch(t *testing.T, cp *ControlPlane, ud *c05Dialer, scns []*c05Scn) []c05Result {
	res := make([]c05Result, len(scns))
	lives := make([]*c05Live, len(scns))
	defer c05Watch(scns)()
	synctest.Test(t, func(t *testing.T) {
		w := &c05World{t0: time.Now()}
		vlimit := time.AfterFunc(c05VirtualLimit, func() {
			for _, l := range lives {
				if l != nil {
					_ = l.left.Close()
					_ = l.right.Close()
				}
			}
		})
		defer vlimit.Stop()
		cp.sniffingTimeout = time.Duration(scns[0].window) * time.Microsecond
		cp.clearAllTcpSniffNegative()
		byAddr := map[string]*c05Live{}
		for i, s := range scns {
			l := &c05Live{s: s, dialT: -1}
			lives[i] = l
			l.client, l.left = c05Pair(w, "client", "left")
			l.upstream, l.right = c05Pair(w, "up", "right")
			if s.ucap > 0 {
				l.right.wcap = s.ucap - 1
			}
			if s.ccap > 0 {
				l.left.wcap = s.ccap - 1
			}
			dst := netip.AddrPortFrom(netip.AddrFrom4([4]byte{93, 184, byte(1 + i/200), byte(1 + i%200)}), s.port)
			l.left.local = net.TCPAddrFromAddrPort(dst)
			l.left.remote = net.TCPAddrFromAddrPort(netip.AddrPortFrom(netip.MustParseAddr("192.168.1.10"), uint16(40000+i)))
			l.right.local, l.right.remote = l.left.remote, l.left.local
			byAddr[dst.String()] = l
			if s.host != "" {
				byAddr[fmt.Sprintf("%s:%d", s.host, s.port)] = l
			}
			if s.negSkip {
				key := newTcpSniffNegKey(dst, &bpfRoutingResult{Outbound: uint8(consts.OutboundControlPlaneRouting)})
				for k := 0; k < int(tcpSniffFailureThreshold); k++ {
					cp.noteTcpSniffFailure(key, time.Now())
				}
			}
		}
		ud.mu.Lock()
		ud.dial = func(addr string) (netproxy.Conn, error) {
			l := byAddr[addr]
			if l == nil {
				return nil, fmt.Errorf("c05: no scenario for dial target %q", addr)
			}
			l.dialT = w.us()
			l.armed = l.left.readDeadlineArmed()
			l.left.mu.Lock()
			l.detect = append([]c05Read(nil), l.left.rlog...)
			l.left.mu.Unlock()
			if l.s.dialFail {
				return nil, &net.OpError{Op: "dial", Net: "tcp", Err: os.NewSyscallError("connect", syscall.ECONNREFUSED)}
			}
			l.wg.Add(2)
			go l.upRecv.run(w, l.upstream, &l.wg)
			go c05Play(w, l.upstream, l.s.up, &l.wg)
			if l.s.rcw {
				return l.right, nil
			}
			return c05NoCW{l.right}, nil
		}
		ud.mu.Unlock()
		var all sync.WaitGroup
		for _, l := range lives {
			l := l
			all.Add(1)
			l.wg.Add(2)
			go l.clRecv.run(w, l.client, &l.wg)
			go c05Play(w, l.client, l.s.client, &l.wg)
			go func() {
				defer all.Done()
				l.crash = VRecover(func() string {
					ctx := context.Background()
					if l.s.cancel > 0 {
						// the control plane's lifecycle context, cancelled (shutdown / reload) at l.s.cancel
						c2, cancelFn := context.WithCancel(ctx)
						tm := time.AfterFunc(time.Duration(l.s.cancel)*time.Microsecond-time.Since(w.t0), cancelFn)
						defer tm.Stop()
						defer cancelFn()
						ctx = c2
					}
					var lc net.Conn = l.left
					if l.s.noLcw {
						lc = c05NoCW{l.left}
					}
					_ = cp.handleConn(ctx, lc)
					return ""
				})
				l.ret = w.us()
				// safety net: a handler that returns without closing a conn would leave that peer (and this bubble)
				// blocked forever — close both after two idle hours; the peer then records an end of stream two hours
				// late, which is what gets compared
				leak := time.AfterFunc(2*time.Hour, func() { _ = l.left.Close(); _ = l.right.Close() })
				l.wg.Wait()
				leak.Stop()
				if l.dialT >= 0 {
					_ = l.upstream.Close() // its script may outlive the relay
				}
			}()
		}
		all.Wait()
		arm := map[int64]bool{}
		w.mu.Lock()
		for _, a := range w.arms {
			arm[a] = true
		}
		w.mu.Unlock()
		for i, l := range lives {
			s := l.s
			if l.crash != "" {
				res[i].impl, res[i].ok = l.crash, true
				continue
			}
			// two events of different goroutines at one virtual instant have no defined order:
			// a script event exactly on an armed deadline, or the upstream ending before the relay starts
			racy := ""
			for _, sc := range []c05Script{s.client, s.up} {
				for _, e := range sc.evs {
					if arm[e.t] {
						racy = "instant-race"
					}
				}
				if arm[sc.finT] {
					racy = "instant-race"
				}
			}
			if l.dialT >= 0 && s.up.finT <= l.dialT && !s.dialFail {
				racy = "upstream-ended-before-dial"
			}
			if s.cancel > 0 && (l.dialT < 0 || s.cancel <= l.dialT) {
				// cancelled before the relay started: whether the dial still happens is the dialer's business
				racy = "cancelled-before-dial"
			}
			if racy != "" {
				res[i].why = racy
				continue
			}
			res[i].ok = true
			if l.dialT < 0 {
				res[i].impl = fmt.Sprintf("dial=- armed=0 up=-#- upeof=%d cl=%s cleof=%d ret=%d", l.ret, l.clRecv.str(-1), l.clRecv.eofT, l.ret)
				continue
			}
			if s.dialFail {
				res[i].impl = fmt.Sprintf("dial=%d armed=%s up=-#- upeof=%d cl=%s cleof=%d ret=%d", l.dialT, c05B(l.armed), l.ret, l.clRecv.str(-1), l.clRecv.eofT, l.ret)
				continue
			}
			// what reached the client in the very instant the relay both started and collapsed is a
			// scheduling race between the two directions: not compared (the model driver drops it too);
			// when the client had already reset, the failing write towards it may force-close the pair
			// before the buffered prefix is forwarded: same instant, not compared either
			drop, dropUp := int64(-1), int64(-1)
			if l.ret == l.dialT {
				drop = l.ret
				if s.client.reset || s.faulty() {
					dropUp = l.ret
				}
			}
			res[i].impl = fmt.Sprintf("dial=%d armed=%s up=%s upeof=%d cl=%s cleof=%d ret=%d",
				l.dialT, c05B(l.armed), l.upRecv.str(dropUp), l.upRecv.eofT, l.clRecv.str(drop), l.clRecv.eofT, l.ret)
		}
	})
	// op lines (the sniff oracles need what the run observed)
	for i, l := range lives {
		s := l.s
		detect := l.detect
		if l.dialT < 0 {
			detect = l.left.rlog
		}
		unpack, likely, needMore, offers := c05Oracles(s, detect)
		// the real eligibility predicate (port map, dial mode, sniffing timeout, outbound), not a re-implementation
		dstAP := l.left.local.(*net.TCPAddr).AddrPort()
		sniff := cp.shouldTryTcpSniff(dstAP, &bpfRoutingResult{Outbound: uint8(consts.OutboundControlPlaneRouting)}) && !s.negSkip
		res[i].op = fmt.Sprintf("conn t0=%d p53=%s sniff=%s w=%d unpack=%s ctl=0 likely=%s nm=%s or=%s rcw=%s lcw=%s c=%s u=%s%s",
			c05LookupDelay, c05B(s.port == 53), c05B(sniff), scns[0].window, c05B(unpack), c05B(likely), c05Ints(needMore), offers,
			c05B(s.rcw), c05B(!s.noLcw), s.client.tok(), s.up.tok(), s.faultToks())
	}
	return res
}

// c05Run plays one scenario alone.  ok=false: discarded.
func c05Run(t *testing.T, cp *ControlPlane, ud *c05Dialer, s *c05Scn) (op, impl string, ok bool, why string) {
	r := c05RunBatch(t, cp, ud, []*c05Scn{s})[0]
	return r.op, r.impl, r.ok, r.why
}

// handleConn first retries the conn-state lookup (no eBPF maps here: ErrKeyNotExist every time)
var c05LookupDelay = int64(tcpRoutingLookupRetryAttempts-1) * tcpRoutingLookupRetryDelay.Microseconds()

const (
	c05Ms  = int64(1000)
	c05Sec = int64(1000000)
)

func c05ClientHello(r *VRand, sni string, maxPad int) []byte {
	// RFC 8446 §4.1.2 ClientHello with server_name, written from the RFC (not from the sniffer)
	var ext []byte
	add := func(typ int, body []byte) {
		ext = append(ext, byte(typ>>8), byte(typ), byte(len(body)>>8), byte(len(body)))
		ext = append(ext, body...)
	}
	if r.Bool() {
		add(0x0a0a, nil) // GREASE
	}
	name := []byte(sni)
	sn := []byte{byte((len(name) + 3) >> 8), byte(len(name) + 3), 0, byte(len(name) >> 8), byte(len(name))}
	sn = append(sn, name...)
	add(0, sn)
	add(0x002b, []byte{2, 3, 4})
	if pad := r.Intn(maxPad + 1); pad > 0 {
		if maxPad > 1000 {
			pad = maxPad
		}
		add(0x0015, make([]byte, pad))
	}
	body := []byte{3, 3}
	body = append(body, c05GenBytes(r.Intn(256), 32)...)
	sid := r.Intn(33)
	body = append(body, byte(sid))
	body = append(body, c05GenBytes(7, sid)...)
	body = append(body, 0, 4, 0x13, 0x01, 0x13, 0x02, 1, 0)
	body = append(body, byte(len(ext)>>8), byte(len(ext)))
	body = append(body, ext...)
	hs := append([]byte{1, byte(len(body) >> 16), byte(len(body) >> 8), byte(len(body))}, body...)
	return append([]byte{0x16, 3, 1, byte(len(hs) >> 8), byte(len(hs))}, hs...)
}

func c05DnsFrame(r *VRand, response bool, name string) []byte {
	m := new(dnsmessage.Msg)
	m.SetQuestion(dnsmessage.Fqdn(name), dnsmessage.TypeA)
	m.Id = uint16(r.Intn(65536)) // SetQuestion draws a random id: keep the run reproducible from the seed
	m.Response = response
	b, _ := m.Pack()
	return append([]byte{byte(len(b) >> 8), byte(len(b))}, b...)
}

// c05Cut splits b at random points; boundary-heavy around the prefetch size.
func c05Cut(r *VRand, b []byte, maxParts int, maxLen int) [][]byte {
	var cuts []int
	n := r.Intn(maxParts)
	for i := 0; i < n; i++ {
		switch r.Intn(6) {
		case 0:
			cuts = append(cuts, 16)
		case 1:
			cuts = append(cuts, 15+r.Intn(3))
		case 2:
			cuts = append(cuts, 1+r.Intn(5))
		default:
			if len(b) > 1 {
				cuts = append(cuts, 1+r.Intn(len(b)-1))
			}
		}
	}
	sort.Ints(cuts)
	var out [][]byte
	prev := 0
	for _, c := range cuts {
		if c <= prev || c >= len(b) {
			continue
		}
		out = append(out, b[prev:c])
		prev = c
	}
	out = append(out, b[prev:])
	// enforce maxLen
	var res [][]byte
	for _, p := range out {
		for len(p) > maxLen {
			res = append(res, p[:maxLen])
			p = p[maxLen:]
		}
		if len(p) > 0 {
			res = append(res, p)
		}
	}
	return res
}

// c05Gap picks a gap that is interesting relative to the windows.
func c05Gap(r *VRand, window int64, p53 bool) int64 {
	switch r.Intn(10) {
	case 0, 1, 2:
		return 0
	case 3:
		return int64(r.Range(1, 40)) * c05Ms
	case 4:
		return window - int64(r.Range(1, 20))*c05Ms
	case 5:
		return window + int64(r.Range(1, 20))*c05Ms
	case 6:
		return 2*window + int64(r.Range(1, 50))*c05Ms
	case 7:
		if p53 {
			return 5*c05Sec + int64(r.Range(-30, 30))*c05Ms
		}
		return int64(r.Range(1, 900)) * c05Ms
	case 8:
		return int64(r.Range(5100, 9900)) * c05Ms
	default:
		switch r.Intn(5) {
		case 0:
			return int64(r.Range(30, 40)) * c05Sec // far beyond every deadline dae arms
		case 1:
			return int64(r.Range(110, 130)) * c05Sec
		case 2:
			return int64(r.Range(590, 620)) * c05Sec
		}
		return int64(r.Range(10100, 14000)) * c05Ms
	}
}

func c05GenScn(r *VRand, stats *VStats, forcedWindow int64) *c05Scn {
	s := &c05Scn{rcw: !r.Chance(0.2), host: c05NextHost()}
	switch r.Intn(10) {
	case 0, 1, 2:
		s.port = 53
	case 3:
		s.port = 22
	case 4:
		s.port = 443
		s.negSkip = r.Chance(0.3)
	default:
		s.port = []uint16{80, 443, 8080}[r.Intn(3)]
	}
	s.window = []int64{100, 100, 100, 30, 300}[r.Intn(5)] * c05Ms
	if forcedWindow > 0 {
		s.window = forcedWindow
	}
	p53 := s.port == 53

	// ---- client first bytes
	var head []byte
	kind := ""
	partial := false
	if p53 {
		switch r.Intn(11) {
		case 9, 10:
			// a length prefix whose frame (2+len) exceeds the 4096-byte detection reader — or, computed in
			// uint16 as the code once did, wraps to 0/1 (0xFFFE, 0xFFFF): never DNS, relayed intact
			pfx := [][]byte{{0xff, 0xff}, {0xff, 0xfe}, {0xff, 0xfd}, {0xff, 0xfc}, {0xff, 0xf0}, {0x10, 0x00}, {0x0f, 0xff}, {0x0f, 0xfe}, {0x0f, 0xfd}, {0x80, 0x00}, {0x7f, 0xff}}[r.Intn(11)]
			n := []int{0, 1, 2, 40, 4093, 4094, 4095, 5000}[r.Intn(8)]
			kind, head = "dns-len-wraps", append(append([]byte{}, pfx...), c05GenBytes(r.Intn(256), n)...)
		case 0:
			kind, head = "dns-query", c05DnsFrame(r, false, "example.org")
		case 1:
			kind, head = "dns-response", c05DnsFrame(r, true, "example.org")
		case 2:
			kind, head = "dns-short-len", append([]byte{0, byte(r.Intn(12))}, c05GenBytes(r.Intn(200), r.Range(0, 30))...)
		case 3:
			kind, head = "ssh-banner", []byte("SSH-2.0-OpenSSH_9.6\r\n")
		case 4:
			l := r.Range(12, 60)
			kind, head = "dns-garbage", append([]byte{0, byte(l)}, c05GenBytes(0xff-r.Intn(20), l)...)
		case 5:
			kind, head = "none", nil
		case 6:
			// header-only response frame followed by an opaque stream
			kind, head = "resp-header-then-stream", append([]byte{0, 12, 0xab, 0xcd, 0x80, 0, 0, 0, 0, 0, 0, 0, 0, 0}, c05GenBytes(3, r.Range(1, 80))...)
		case 7:
			// length says 4090..5000 bytes: more than the bufio buffer
			l := r.Range(4090, 5000)
			kind, head = "dns-len-over-buffer", append([]byte{byte(l >> 8), byte(l)}, c05GenBytes(9, r.Range(0, 400))...)
		default:
			kind, head = "dns-query-then-more", append(c05DnsFrame(r, false, "a.example"), c05DnsFrame(r, r.Bool(), "b.example")...)
		}
	} else {
		switch r.Intn(12) {
		case 11:
			// only a PART of a ClientHello (record header, or header + some of the hello), usually with nothing after it:
			// the sniffers keep answering need-more, the rest comes late, never, or the client ends / resets after the part —
			// the sniffing window must release the connection, with the part replayed intact
			h := c05ClientHello(r, s.host, 300)
			k := []int{5, 6, 9, 20, len(h) / 2, len(h) - 1, r.Range(5, len(h)-1)}[r.Intn(7)]
			kind, head = "tls-partial", h[:k]
			partial = true
		case 0, 1:
			kind, head = "http", []byte("GET /"+s.host+" HTTP/1.1\r\nHost: "+s.host+"\r\nUser-Agent: x\r\n\r\n")
		case 2:
			kind, head = "http-16", []byte("GET / HTTP/1.1\r\nHost: "+s.host+"\r\n\r\n")
		case 3, 4:
			kind, head = "tls", c05ClientHello(r, s.host, 300)
		case 5:
			kind, head = "ssh-banner", []byte("SSH-2.0-OpenSSH_9.6\r\n")
		case 6:
			kind, head = "none", nil
		case 7:
			kind, head = "tls-junk", append([]byte{0x16, 3, 1, 1, byte(r.Intn(256))}, c05GenBytes(r.Intn(256), r.Range(0, 120))...)
		case 8:
			// a ClientHello of 1.5-6 KB (padding extension): sniff buffer beyond its pre-grown 4 KiB
			kind, head = "tls-big", c05ClientHello(r, s.host, r.Range(1200, 5600))
		case 9:
			// an HTTP request with 2-8 KB of headers before Host
			pad := strings.Repeat("X-Pad: "+strings.Repeat("p", 120)+"\r\n", r.Range(16, 62))
			kind, head = "http-big", []byte("POST /"+s.host+" HTTP/1.1\r\n"+pad+"Host: "+s.host+"\r\n\r\n")
		default:
			kind, head = "random", c05GenBytes(r.Intn(256), r.Range(1, 300))
		}
	}
	s.kind = kind
	stats.Inc("kind." + fmt.Sprint(s.port) + "." + kind)

	// ---- client script: head cut into segments, then bulk data, then FIN/RST
	t := int64(1) // client times ≡ 1 (mod 4)
	step := func(g int64) {
		g -= g % 4
		if g < 4 {
			g = 4
		}
		t += g
	}
	first := true
	if r.Chance(0.25) {
		step(c05Gap(r, s.window, p53)) // late first byte
		stats.Inc("client.first-byte-delayed")
	}
	if len(head) > 0 {
		for _, p := range c05Cut(r, head, 4, []int{512, 2048, 20000}[r.Intn(3)]) {
			if !first {
				step(c05Gap(r, s.window, p53))
			}
			first = false
			s.client.evs = append(s.client.evs, c05Ev{t, c05Lit(append([]byte(nil), p...))})
		}
	}
	nBulk := r.Intn(4)
	if partial && r.Chance(0.7) {
		nBulk = 0
		stats.Inc("sniff.partial-hello-and-nothing-after-it")
	}
	for i := 0; i < nBulk; i++ {
		step(c05Gap(r, s.window, p53))
		var c c05Chunk
		switch r.Intn(6) {
		case 0:
			c = c05Chunk{gen: true, seed: r.Intn(256), len: r.Range(32760, 32776)}
		case 1:
			c = c05Chunk{gen: true, seed: r.Intn(256), len: r.Range(60000, 100000)}
		case 2:
			c = c05Chunk{gen: true, seed: r.Intn(256), len: r.Range(4090, 4100)}
		default:
			c = c05Chunk{gen: true, seed: r.Intn(256), len: r.Range(1, 600)}
		}
		s.client.evs = append(s.client.evs, c05Ev{t, c})
	}
	step(c05Gap(r, s.window, p53))
	s.client.finT = t
	s.client.reset = r.Chance(0.15)

	// ---- upstream script: times ≡ 2 (mod 4); FIN/RST strictly after every detection window
	bound := 2*s.window + 4*c05Ms
	if p53 {
		bound = 5*c05Sec + 4*c05Ms
	}
	u := int64(2)
	ustep := func(g int64) {
		g -= g % 4
		if g < 4 {
			g = 4
		}
		u += g
	}
	nUp := r.Intn(4)
	if r.Chance(0.3) {
		// server-first banner
		s.up.evs = append(s.up.evs, c05Ev{u, c05Lit([]byte("220 hello\r\n"))})
		stats.Inc("up.banner")
	}
	for i := 0; i < nUp; i++ {
		ustep(c05Gap(r, s.window, p53))
		c := c05Chunk{gen: true, seed: r.Intn(256), len: r.Range(1, 900)}
		if r.Chance(0.15) {
			c.len = r.Range(32760, 70000)
		}
		s.up.evs = append(s.up.evs, c05Ev{u, c})
	}
	// where the upstream ends relative to the client's end
	switch r.Intn(6) {
	case 0: // shortly after client's end, inside the grace period
		u = max(u, s.client.finT) + 2 + int64(r.Range(1, 9000))*c05Ms
	case 1: // after the grace period
		u = max(u, s.client.finT) + 2 + int64(r.Range(10001, 15000))*c05Ms
	case 2: // before the client's end (upstream half-closes first)
		ustep(int64(r.Range(1, 2000)) * c05Ms)
	case 3: // around client end + grace
		u = max(u, s.client.finT) + 2 + 10*c05Sec + int64(r.Range(-40, 40))*c05Ms
	default:
		ustep(c05Gap(r, s.window, p53))
	}
	u -= u % 4
	u += 2
	// The upstream must not end before the relay starts (that instant would be a race between the two
	// directions).  Mostly keep it behind the static window bound; one time in three let it end anywhere —
	// in particular within milliseconds of an early dial — and rely on the post-hoc discard
	// "upstream ended before the observed dial".
	switch {
	case r.Chance(0.12):
		// right after the earliest possible dial (routing lookup done at c05LookupDelay)
		u = c05LookupDelay + int64(r.Range(1, 5000))
		u -= u % 4
		u += 2
		s.up.evs = nil
		if r.Bool() {
			s.up.evs = []c05Ev{{2, c05Lit([]byte("220 hello\r\n"))}}
		}
		stats.Inc("up.ends-right-after-earliest-dial")
	case r.Chance(0.3):
		stats.Inc("up.end-unconstrained")
	case u <= bound:
		u = bound + 2 + int64(r.Range(0, 200))*c05Ms
		u -= u % 4
		u += 2
	}
	if n := len(s.up.evs); n > 0 && u <= s.up.evs[n-1].t {
		u = s.up.evs[n-1].t + 4
	}
	s.up.finT = u
	s.up.reset = r.Chance(0.15)
	c05GenFaults(r, stats, s, bound)
	return s
}

// c05GenFaults adds — to about one scenario in four — what can go wrong around a connection besides the peers'
// own behaviour: a client conn without CloseWrite, a write towards either peer failing at a byte offset
// (boundary-heavy: 0, around the prefetch size, last byte, exactly everything), cancellation of handleConn's
// context (times ≡ 3 mod 4: never in the instant of a peer event), a failing dial.
func c05GenFaults(r *VRand, stats *VStats, s *c05Scn, bound int64) {
	capFor := func(total int) int64 {
		switch r.Intn(9) {
		case 0:
			return 0
		case 1:
			return 1
		case 2:
			return int64(15 + r.Intn(3))
		case 3:
			return int64(max(total-1, 0))
		case 4:
			return int64(total) // exactly everything fits: no failure
		case 5:
			return int64(total + 1 + r.Intn(50))
		default:
			return int64(r.Intn(total + 1))
		}
	}
	if r.Chance(0.08) {
		s.noLcw = true
		stats.Inc("fault.client-conn-without-closewrite")
	}
	switch {
	case r.Chance(0.06):
		s.ucap = 1 + capFor(len(s.client.stream()))
		stats.Inc("fault.write-to-upstream-fails")
	case r.Chance(0.05):
		s.ccap = 1 + capFor(len(s.up.stream()))
		stats.Inc("fault.write-to-client-fails")
	}
	if r.Chance(0.07) {
		var x int64
		switch r.Intn(6) {
		case 0: // anywhere, also during detection (discarded when it lands before the dial)
			x = int64(r.Range(1, int(bound)))
		case 1: // around the client's end
			x = s.client.finT + int64(r.Range(-300, 300))*c05Ms
		case 2: // inside the grace period after the first end
			x = min(s.client.finT, s.up.finT) + int64(r.Range(1, 9999))*c05Ms
		case 3: // after everything: no effect
			x = max(s.client.finT, s.up.finT) + 11*c05Sec + int64(r.Range(1, 5000))*c05Ms
		default:
			x = bound + int64(r.Range(1, 20000))*c05Ms
		}
		if x < 8 {
			x = 8
		}
		x -= x % 4
		s.cancel = x + 3
		stats.Inc("fault.context-cancelled")
	}
	if r.Chance(0.025) {
		s.dialFail = true
		stats.Inc("fault.dial-fails")
	}
}

// c05Directed are the named scenarios of the property statement and of the findings.
func c05Directed() []*c05Scn {
	lit := func(t int64, b string) c05Ev { return c05Ev{t, c05Lit([]byte(b))} }
	return []*c05Scn{
		// finding #12 (fixed 28bf897): port 53, first bytes not DNS, client idle > 5 s
		{port: 53, window: 100 * c05Ms, rcw: true, kind: "d.port53-ssh-idle",
			client: c05Script{evs: []c05Ev{lit(1, "SSH-2.0-OpenSSH_9.6\r\n"), lit(7*c05Sec+1, "late-but-healthy")}, finT: 9*c05Sec + 1},
			up:     c05Script{evs: []c05Ev{lit(8*c05Sec+2, "reply")}, finT: 12*c05Sec + 2}},
		// port 53, short non-DNS prefix, then idle > 5 s after the detector gave up
		{port: 53, window: 100 * c05Ms, rcw: true, kind: "d.port53-short-idle",
			client: c05Script{evs: []c05Ev{lit(1, "\x00\x05hello"), lit(6*c05Sec+1, "x")}, finT: 6*c05Sec + 5},
			up:     c05Script{finT: 7*c05Sec + 2}},
		// length prefix 0xFFFF: 2+len wrapped to 1 in uint16, Peek(1) returned one byte and fullData[2:] panicked
		// in the connection handler (fixed 74b17e5); must be relayed intact
		{port: 53, window: 100 * c05Ms, rcw: true, kind: "d.port53-length-prefix-ffff",
			client: c05Script{evs: []c05Ev{lit(1, "\xff\xff\x00")}, finT: 101},
			up:     c05Script{finT: 6*c05Sec + 2}},
		{port: 53, window: 100 * c05Ms, rcw: true, kind: "d.port53-length-prefix-fffe",
			client: c05Script{evs: []c05Ev{lit(1, "\xff\xfe"), lit(200*c05Ms+1, "more")}, finT: 300*c05Ms + 1},
			up:     c05Script{finT: 6*c05Sec + 2}},
		// DNS response frame first
		{port: 53, window: 100 * c05Ms, rcw: true, kind: "d.port53-response",
			client: c05Script{evs: []c05Ev{{1, c05Lit(append([]byte{0, 12, 0xab, 0xcd, 0x80, 0, 0, 0, 0, 0, 0, 0, 0, 0}, []byte("REST-OF-STREAM")...))}}, finT: 101},
			up:     c05Script{finT: 6*c05Sec + 2}},
		// partial HTTP prefix, rest after the sniff window
		{port: 80, window: 100 * c05Ms, rcw: true, kind: "d.sniff-partial-then-late",
			client: c05Script{evs: []c05Ev{lit(1, "GET / HTTP/1.1\r\n"), lit(300*c05Ms+1, "Host: example.com\r\n\r\n"), lit(2300*c05Ms+1, "MORE")}, finT: 2400*c05Ms + 1},
			up:     c05Script{evs: []c05Ev{lit(2350*c05Ms+2, "HTTP/1.1 200 OK\r\n\r\n")}, finT: 2500*c05Ms + 2}},
		// server-first protocol on a sniffable port
		{port: 8080, window: 100 * c05Ms, rcw: true, kind: "d.server-first",
			client: c05Script{evs: []c05Ev{lit(500*c05Ms+1, "EHLO x\r\n")}, finT: 900*c05Ms + 1},
			up:     c05Script{evs: []c05Ev{lit(2, "220 ready\r\n"), lit(600*c05Ms+2, "250 ok\r\n")}, finT: 1200*c05Ms + 2}},
		// upstream half-closes first, client keeps sending inside the grace period (wrapped client conn)
		{port: 80, window: 100 * c05Ms, rcw: true, kind: "d.upstream-eof-first-wrapped",
			client: c05Script{evs: []c05Ev{lit(1, "hello"), lit(3*c05Sec+1, "still-sending")}, finT: 4*c05Sec + 1},
			up:     c05Script{evs: []c05Ev{lit(500*c05Ms+2, "response:hello")}, finT: 600*c05Ms + 2}},
		// same on an unsniffed port: bare client conn
		{port: 22, window: 100 * c05Ms, rcw: true, kind: "d.upstream-eof-first-bare",
			client: c05Script{evs: []c05Ev{lit(1, "hello"), lit(3*c05Sec+1, "still-sending")}, finT: 4*c05Sec + 1},
			up:     c05Script{evs: []c05Ev{lit(500*c05Ms+2, "response:hello")}, finT: 600*c05Ms + 2}},
		// client half-closes, upstream answers inside / after the grace period
		{port: 22, window: 100 * c05Ms, rcw: true, kind: "d.client-eof-grace",
			client: c05Script{evs: []c05Ev{lit(1, "request")}, finT: 101},
			up:     c05Script{evs: []c05Ev{lit(5*c05Sec+2, "inside"), lit(11*c05Sec+2, "outside")}, finT: 12*c05Sec + 2}},
		// a fragmented TLS-looking first flight whose rest never comes: two need-more rounds, then silence, FIN much later —
		// the connection must be released at the sniffing window (seed C05-h: only the first sniffer read had a deadline)
		{port: 443, window: 100 * c05Ms, rcw: true, kind: "d.sniff-fragmented-hello-rest-never-comes",
			client: c05Script{evs: []c05Ev{lit(1, "\x16\x03\x01\x02\x00\x01\x00\x01\xfc\x03\x03"), lit(20*c05Ms+1, "0123456789abcdef"), lit(40*c05Ms+1, "0123456789abcdef")}, finT: 50*c05Sec + 1},
			up:     c05Script{evs: []c05Ev{lit(1*c05Sec+2, "banner")}, finT: 60*c05Sec + 2}},
		// same, the client half-closes right after the second fragment (the sniffer's EOF spin must end at the window)
		{port: 443, window: 100 * c05Ms, rcw: true, kind: "d.sniff-fragmented-hello-then-fin",
			client: c05Script{evs: []c05Ev{lit(1, "\x16\x03\x01\x02\x00\x01\x00\x01\xfc\x03\x03"), lit(20*c05Ms+1, "0123456789abcdef")}, finT: 30*c05Ms + 1},
			up:     c05Script{evs: []c05Ev{lit(1*c05Sec+2, "banner")}, finT: 5*c05Sec + 2}},
		// ---- faults
		// the upstream stops accepting bytes in the middle of the second client segment (partial write, then an error):
		// it has received a prefix, both sides are closed at that moment
		{port: 22, window: 100 * c05Ms, rcw: true, kind: "d.fault-upstream-write-fails-mid-segment", ucap: 1 + 9,
			client: c05Script{evs: []c05Ev{lit(1, "hello"), lit(2*c05Sec+1, "second-segment"), lit(3*c05Sec+1, "never")}, finT: 4*c05Sec + 1},
			up:     c05Script{evs: []c05Ev{lit(500*c05Ms+2, "banner")}, finT: 9*c05Sec + 2}},
		// the write of the sniffed prefix itself fails (gather write of the ConnSniffer's buffer towards a broken upstream)
		{port: 80, window: 100 * c05Ms, rcw: true, kind: "d.fault-upstream-write-fails-in-prefix", ucap: 1 + 7,
			client: c05Script{evs: []c05Ev{lit(1, "GET / HTTP/1.1\r\nHost: fault.example\r\n\r\n")}, finT: 2*c05Sec + 1},
			up:     c05Script{finT: 9*c05Sec + 2}, host: "fault.example"},
		// …and right after the sniffed request went through in one piece
		{port: 80, window: 100 * c05Ms, rcw: true, kind: "d.fault-upstream-write-fails-after-prefix", ucap: 1 + 40,
			client: c05Script{evs: []c05Ev{lit(1, "GET / HTTP/1.1\r\nHost: fault2.example\r\n\r\n"), lit(1*c05Sec+1, "0123456789")}, finT: 2*c05Sec + 1},
			up:     c05Script{finT: 9*c05Sec + 2}, host: "fault2.example"},
		// the client stops accepting bytes after its half-close, inside the grace period
		{port: 22, window: 100 * c05Ms, rcw: true, kind: "d.fault-client-write-fails-in-grace", ccap: 1 + 3,
			client: c05Script{evs: []c05Ev{lit(1, "request")}, finT: 101},
			up:     c05Script{evs: []c05Ev{lit(2*c05Sec+2, "answer")}, finT: 5*c05Sec + 2}},
		// shutdown / reload while both peers are idle: everything sent before is delivered, the relay ends at the cancel
		{port: 443, window: 100 * c05Ms, rcw: true, kind: "d.fault-context-cancelled-while-idle", cancel: 3*c05Sec + 3,
			client: c05Script{evs: []c05Ev{lit(1, "\x16\x03\x01junk-not-a-hello"), lit(1*c05Sec+1, "more")}, finT: 20*c05Sec + 1},
			up:     c05Script{evs: []c05Ev{lit(2*c05Sec+2, "reply")}, finT: 30*c05Sec + 2}},
		// cancelled inside the grace period after the client's half-close
		{port: 22, window: 100 * c05Ms, rcw: true, kind: "d.fault-context-cancelled-in-grace", cancel: 4*c05Sec + 3,
			client: c05Script{evs: []c05Ev{lit(1, "request")}, finT: 1*c05Sec + 1},
			up:     c05Script{evs: []c05Ev{lit(2*c05Sec+2, "early"), lit(6*c05Sec+2, "late")}, finT: 8*c05Sec + 2}},
		// the dial fails after detection buffered bytes: nothing forwarded, client closed at the dial
		{port: 53, window: 100 * c05Ms, rcw: true, kind: "d.fault-dial-fails", dialFail: true,
			client: c05Script{evs: []c05Ev{lit(1, "SSH-2.0-OpenSSH_9.6\r\n")}, finT: 2*c05Sec + 1},
			up:     c05Script{finT: 9*c05Sec + 2}},
		// a client conn that cannot half-close (wrapped and bare): the upstream's FIN reaches it only at the end
		{port: 80, window: 100 * c05Ms, rcw: true, kind: "d.fault-client-without-closewrite-wrapped", noLcw: true,
			client: c05Script{evs: []c05Ev{lit(1, "hello"), lit(3*c05Sec+1, "still-sending")}, finT: 4*c05Sec + 1},
			up:     c05Script{evs: []c05Ev{lit(500*c05Ms+2, "response:hello")}, finT: 600*c05Ms + 2}},
		{port: 22, window: 100 * c05Ms, rcw: true, kind: "d.fault-client-without-closewrite-bare", noLcw: true,
			client: c05Script{evs: []c05Ev{lit(1, "hello"), lit(30*c05Sec+1, "too-late")}, finT: 31*c05Sec + 1},
			up:     c05Script{evs: []c05Ev{lit(500*c05Ms+2, "response:hello")}, finT: 600*c05Ms + 2}},
	}
}

func TestVerifC05Conn(t *testing.T) {
	r := NewVRand(VSeed())
	st := VOpenStream("c05conn")
	defer st.Close()
	stats := NewVStats()
	ud := &c05Dialer{}
	cp := c05ControlPlane(t, ud)
	n := 2500
	if VThorough() {
		n = 60000
	}
	c05Stream, c05FlushFn = "c05conn", func() { st.Close(); stats.Write("c05conn") }
	c05Index = -1
	only := c05Only()
	emit := func(s *c05Scn) {
		c05Index++
		if only >= 0 && c05Index != only {
			return
		}
		op, impl, ok, why := c05Run(t, cp, ud, s)
		if !ok {
			stats.Inc("discard." + why)
			return
		}
		st.Emit(op, impl)
		f := c05Fields(impl)
		stats.Inc("scn.port." + fmt.Sprint(s.port))
		if f["dial"] == "-" {
			stats.Inc("scn.no-dial")
		}
		if nm := c05Fields(op)["nm"]; strings.Count(nm, ",") >= 1 {
			stats.Inc("sniff.several-need-more-rounds")
		}
		if of := c05Fields(op)["or"]; of != "-" && of != "" {
			stats.Inc("sniff.bounded-read-oracle")
			for _, pr := range strings.Split(of, ",") {
				var have, size int
				fmt.Sscanf(pr, "%d:%d", &have, &size)
				if have >= 4096 {
					stats.Inc("sniff.buffer-reaches-4KiB-and-reads-on")
					break
				}
			}
		}
		if strings.HasPrefix(s.kind, "d.") {
			stats.Sample(s.kind + ": " + op + " => " + impl)
		}
	}
	for _, s := range c05Directed() {
		stats.Inc("directed")
		emit(s)
	}
	for i := 0; i < n; i++ {
		emit(c05GenScn(r, stats, 0))
	}
	stats.Write("c05conn")
}

func c05Fields(line string) map[string]string {
	m := map[string]string{}
	for _, tok := range strings.Fields(line) {
		if i := strings.IndexByte(tok, '='); i > 0 {
			m[tok[:i]] = tok[i+1:]
		}
	}
	return m
}

// TestVerifC05Concurrent runs batches of 16 connections at once through the same ControlPlane: whatever is
// shared between connections (prefetch buffer pool, relay copy buffers, the sniffer's pooled buffers,
// slices aliasing them) is now really shared, and every connection must still match its own model line.
func TestVerifC05Concurrent(t *testing.T) {
	r := NewVRand(VSeed() + 991)
	st := VOpenStream("c05par")
	defer st.Close()
	stats := NewVStats()
	ud := &c05Dialer{}
	cp := c05ControlPlane(t, ud)
	c05Stream, c05FlushFn = "c05par", func() { st.Close(); stats.Write("c05par") }
	only := c05Only()
	batches, k := 40, 16
	if VThorough() {
		batches = 700
	}
	for b := 0; b < batches; b++ {
		window := []int64{100, 100, 30, 300}[r.Intn(4)] * c05Ms
		scns := make([]*c05Scn, k)
		for i := range scns {
			scns[i] = c05GenScn(r, stats, window)
		}
		c05Index = b
		if only >= 0 && b != only {
			continue
		}
		for i, res := range c05RunBatch(t, cp, ud, scns) {
			if !res.ok {
				stats.Inc("discard." + res.why)
				continue
			}
			st.Emit(res.op, res.impl)
			stats.Inc("par.conn")
			if b == 0 && i < 2 {
				stats.Sample(res.op + " => " + res.impl)
			}
		}
	}
	stats.Write("c05par")
}
