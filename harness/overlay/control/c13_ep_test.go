package control

// C13 correspondence harness — part 3: the UDP endpoint pool (udp_endpoint_pool.go).
//
// Stream c13_ep: operation sequences on a REAL UdpEndpointPool (own instance, created inside a
// testing/synctest bubble so that time.Now(), NAT expiry, the negative cache and the janitor's
// ticker run on virtual time) with fake dialers / transport conns that count dials and closes, two
// real controlPlaneCore values as conn-state owners (each with its real udpConnStateTracker), and
// two real controlPlaneDrainTrackers.  After every operation the whole observable state is printed
// (`ep st`): pool table, per endpoint flags / close count / expiry / NAT timeout / tracked tuples,
// dial count, both trackers, both drain counts.  The Lean driver executes the same sequence on
// DaeVerif.C13.EP.
//
// A second part replays two concurrency windows through the yield points (concurrent first
// packets -> single dial; retire racing with re-creation) and checks their outcome directly.

import (
	"context"
	"errors"
	"fmt"
	"io"
	"net"
	"net/netip"
	"os"
	"sort"
	"strings"
	"sync"
	"sync/atomic"
	"syscall"
	"testing"
	"testing/synctest"
	"time"

	"github.com/cilium/ebpf"
	"github.com/daeuniverse/dae/common/consts"
	commonerrors "github.com/daeuniverse/dae/common/errors"
	ob "github.com/daeuniverse/dae/component/outbound"
	componentdialer "github.com/daeuniverse/dae/component/outbound/dialer"
	"github.com/daeuniverse/outbound/netproxy"
	"github.com/sirupsen/logrus"
)

type c13Conn struct {
	reads     chan error // nil = a reply packet, non-nil = ReadFrom error
	closeCh   chan struct{}
	closes    atomic.Int32
	writeMode atomic.Int32 // 0 ok, 1 error, 2 short
	from      netip.AddrPort
	tdone     <-chan struct{} // the transport this conn rides on (nil: the conn has no transport life cycle)
}

// netproxy.TransportLifecycle: the pool retires every endpoint of a transport when it ends
func (c *c13Conn) TransportDone() <-chan struct{} { return c.tdone }

func (c *c13Conn) Read(_ []byte) (int, error)  { return 0, io.EOF }
func (c *c13Conn) Write(b []byte) (int, error) { return len(b), nil }
func (c *c13Conn) ReadFrom(p []byte) (int, netip.AddrPort, error) {
	select {
	case <-c.closeCh:
		return 0, netip.AddrPort{}, io.EOF
	case e := <-c.reads:
		if e != nil {
			return 0, netip.AddrPort{}, e
		}
		p[0] = 'r'
		return 1, c.from, nil
	}
}
func (c *c13Conn) WriteTo(b []byte, _ string) (int, error) {
	switch c.writeMode.Load() {
	case 1:
		return 0, errors.New("c13: write failed")
	case 2:
		return len(b) - 1, nil
	}
	return len(b), nil
}
func (c *c13Conn) Close() error {
	if c.closes.Add(1) == 1 {
		close(c.closeCh)
	}
	return nil
}
func (c *c13Conn) SetDeadline(time.Time) error      { return nil }
func (c *c13Conn) SetReadDeadline(time.Time) error  { return nil }
func (c *c13Conn) SetWriteDeadline(time.Time) error { return nil }

type c13Underlay struct {
	mu    sync.Mutex
	dials int
	fail  bool
	from  netip.AddrPort
	gate  func() // optional: called inside DialContext (concurrency replays park here)
	last  *c13Conn
	tch   chan struct{} // current transport of this dialer (nil: none)
	plain     bool           // the next dial yields a conn that is not a PacketConn
	lastPlain *c13PlainConn
	errs      []error // scripted errors of the next dials over this underlay (consumed one per dial)
}

// a transport that can not carry datagrams (netproxy.Conn, but not a PacketConn)
type c13PlainConn struct{ closes atomic.Int32 }

func (c *c13PlainConn) Read(_ []byte) (int, error)        { return 0, io.EOF }
func (c *c13PlainConn) Write(b []byte) (int, error)       { return len(b), nil }
func (c *c13PlainConn) Close() error                      { c.closes.Add(1); return nil }
func (c *c13PlainConn) SetDeadline(time.Time) error      { return nil }
func (c *c13PlainConn) SetReadDeadline(time.Time) error  { return nil }
func (c *c13PlainConn) SetWriteDeadline(time.Time) error { return nil }

func (d *c13Underlay) DialContext(context.Context, string, string) (netproxy.Conn, error) {
	d.mu.Lock()
	d.dials++
	fail := d.fail
	gate := d.gate
	var scripted error
	if len(d.errs) > 0 {
		scripted, d.errs = d.errs[0], d.errs[1:]
	}
	d.mu.Unlock()
	if gate != nil {
		gate()
	}
	if scripted != nil {
		return nil, scripted
	}
	if fail {
		return nil, errors.New("c13: dial failed")
	}
	d.mu.Lock()
	plain := d.plain
	d.mu.Unlock()
	if plain {
		pc := &c13PlainConn{}
		d.mu.Lock()
		d.lastPlain = pc
		d.mu.Unlock()
		return pc, nil
	}
	c := &c13Conn{reads: make(chan error, 16), closeCh: make(chan struct{}), from: d.from}
	d.mu.Lock()
	d.last = c
	if d.tch != nil {
		c.tdone = d.tch
	}
	d.mu.Unlock()
	return c, nil
}

func c13NewDialer(u *c13Underlay) *componentdialer.Dialer {
	logger := logrus.New()
	logger.SetOutput(io.Discard)
	return componentdialer.NewDialer(u,
		&componentdialer.GlobalOption{Log: logger, CheckInterval: time.Hour},
		componentdialer.InstanceOption{DisableCheck: true},
		&componentdialer.Property{})
}

const c13Target = "198.51.100.7:4433"

// lifetime of a negative-cache entry as the real code sets it (a literal in cacheFailureLocked), measured once
var c13FailureTtlOnce sync.Once
var c13FailureTtlVal int64

func c13FailureTtlMs() int64 {
	c13FailureTtlOnce.Do(func() {
		p := NewUdpEndpointPool()
		defer p.Close()
		key := c13EpKey(0, false)
		before := time.Now().UnixNano()
		p.cacheFailureLocked(key, nil)
		sh := p.shardFor(key)
		sh.mu.RLock()
		ue := sh.pool[key]
		sh.mu.RUnlock()
		c13FailureTtlVal = ((ue.expiresAtNano.Load() - before) + 5e5) / 1e6
	})
	return c13FailureTtlVal
}

// set by the sequence runner only: the concurrency replays create thousands of short-lived pools
var c13RealMaps = false

type c13EpEnv struct {
	pool      *UdpEndpointPool
	t0        int64
	under     []*c13Underlay
	dialers   []*componentdialer.Dialer
	cores     []*controlPlaneCore
	trks      []*c13Trk
	drains    []*controlPlaneDrainTracker
	ids       map[*UdpEndpoint]int
	eps       []*UdpEndpoint
	handlerKO map[*UdpEndpoint]bool
	tupleIdx  map[bpfTuplesKey]int
	mu        sync.Mutex
	connState *ebpf.Map // real conn-state map shared by both generations (nil: eBPF unavailable)
	hookGid   int64
	hookWant  map[string]bool
	parked    *c13EpPark
}

func c13EpKey(k int, sym bool) UdpEndpointKey {
	key := UdpEndpointKey{Src: netip.AddrPortFrom(netip.AddrFrom4([4]byte{10, 9, 0, byte(k)}), uint16(30000+k))}
	if sym {
		key.Dst = netip.MustParseAddrPort(c13Target)
	}
	return key
}

func c13PairAddrs(j int) (netip.AddrPort, netip.AddrPort) {
	return netip.AddrPortFrom(netip.AddrFrom4([4]byte{10, 9, 1, byte(j)}), uint16(31000+j)),
		netip.AddrPortFrom(netip.AddrFrom4([4]byte{203, 0, 113, byte(j)}), 443)
}

func c13NewEpEnv() *c13EpEnv {
	e := &c13EpEnv{pool: NewUdpEndpointPool(), ids: map[*UdpEndpoint]int{}, handlerKO: map[*UdpEndpoint]bool{},
		tupleIdx: map[bpfTuplesKey]int{}}
	e.t0 = time.Now().UnixNano()
	from := netip.MustParseAddrPort(c13Target)
	if c13RealMaps {
		e.connState = c13NewConnStateMap()
	}
	defer func() {
		if c13RealMaps { // the sequence stream: dialers whose conns ride on a transport with a life cycle
			for _, u := range e.under {
				u.tch = make(chan struct{})
			}
		}
	}()
	for i := 0; i < 2; i++ {
		u := &c13Underlay{from: from}
		e.under = append(e.under, u)
		e.dialers = append(e.dialers, c13NewDialer(u))
		x := c13NewTrk()
		if e.connState != nil {
			x.core.bpf.Store(&bpfObjects{bpfMaps: bpfMaps{ConnStateMap: e.connState}})
		}
		e.trks = append(e.trks, x)
		e.cores = append(e.cores, x.core)
		e.drains = append(e.drains, newControlPlaneDrainTracker())
	}
	for j := 0; j < 4; j++ {
		s, d := c13PairAddrs(j)
		e.tupleIdx[bpfTuplesKeyFromAddrPorts(s, d, 17)] = 2 * j
		e.tupleIdx[bpfTuplesKeyFromAddrPorts(d, s, 17)] = 2*j + 1
	}
	return e
}

// scan assigns ids to endpoint objects that appeared in the pool (failure entries are never returned)
func (e *c13EpEnv) scan() {
	for k := 0; k < 6; k++ {
		for _, sym := range []bool{false, true} {
			key := c13EpKey(k, sym)
			sh := e.pool.shardFor(key)
			sh.mu.RLock()
			ue := sh.pool[key]
			sh.mu.RUnlock()
			if ue != nil {
				e.id(ue)
			}
		}
	}
}

func (e *c13EpEnv) id(ue *UdpEndpoint) int {
	if i, ok := e.ids[ue]; ok {
		return i
	}
	i := len(e.eps)
	e.ids[ue] = i
	e.eps = append(e.eps, ue)
	return i
}

func (e *c13EpEnv) registered(ue *UdpEndpoint) bool {
	found := false
	e.pool.dialerIndex.Range(func(_, b any) bool {
		bucket := b.(*udpEndpointDialerBucket)
		bucket.mu.RLock()
		_, found = bucket.endpoints[ue]
		bucket.mu.RUnlock()
		return !found
	})
	return found
}

func (e *c13EpEnv) isPooled(ue *UdpEndpoint) bool {
	sh := e.pool.shardFor(ue.poolKey)
	sh.mu.RLock()
	defer sh.mu.RUnlock()
	return sh.pool[ue.poolKey] == ue
}

func (e *c13EpEnv) dials() int {
	n := 0
	for _, u := range e.under {
		u.mu.Lock()
		n += u.dials
		u.mu.Unlock()
	}
	return n
}

func (e *c13EpEnv) digest(symOf map[int]bool) string {
	var pool []string
	for k := 0; k < 6; k++ {
		key := c13EpKey(k, symOf[k])
		sh := e.pool.shardFor(key)
		sh.mu.RLock()
		ue := sh.pool[key]
		sh.mu.RUnlock()
		if ue != nil {
			pool = append(pool, fmt.Sprintf("%d:%d", k, e.id(ue)))
		}
	}
	ps := "-"
	if len(pool) > 0 {
		ps = strings.Join(pool, ",")
	}
	var eps []string
	for i, ue := range e.eps {
		closes := 0
		if c, ok := ue.conn.(*c13Conn); ok && c != nil {
			closes = int(c.closes.Load())
		}
		x := ue.expiresAtNano.Load()
		xs := fmt.Sprint(x)
		if x > 1 {
			xs = fmt.Sprintf("%dms", (x-e.t0)/1e6)
		}
		ue.udpConnStateMu.Lock()
		var tup []int
		for k := range ue.udpConnStateTuples {
			tup = append(tup, e.tupleIdx[k])
		}
		ue.udpConnStateMu.Unlock()
		sort.Ints(tup)
		// expiry, NAT timeout and the traffic flags are compared only while somebody can still reach the
		// endpoint: it is in the table, or it is an open endpoint a holder may write to
		if e.isPooled(ue) || (!ue.failed.Load() && closes == 0) {
			eps = append(eps, fmt.Sprintf("%d:f%sd%sc%dx%ss%sr%sn%dt%s", i, c13B(ue.failed.Load()), c13B(ue.dead.Load()), closes, xs,
				c13B(ue.hasSent.Load()), c13B(ue.hasReply.Load()), int64(ue.natTimeout())/1e6, c13JoinInts(tup)))
		} else {
			eps = append(eps, fmt.Sprintf("%d:f%sd%sc%dt%s", i, c13B(ue.failed.Load()), c13B(ue.dead.Load()), closes, c13JoinInts(tup)))
		}
	}
	es := "-"
	if len(eps) > 0 {
		es = strings.Join(eps, " ")
	}
	// the dialers' buckets (InvalidateDialerNetworkType's reverse index)
	var reg []int
	e.pool.dialerIndex.Range(func(_, b any) bool {
		bucket := b.(*udpEndpointDialerBucket)
		bucket.mu.RLock()
		for ue := range bucket.endpoints {
			reg = append(reg, e.id(ue))
		}
		bucket.mu.RUnlock()
		return true
	})
	sort.Ints(reg)
	return fmt.Sprintf("pool=%s dials=%d drn=%d,%d trk0[%s] trk1[%s] reg=%s eps=%s", ps, e.dials(), e.drains[0].Count(), e.drains[1].Count(),
		e.trks[0].digest(e.tupleIdx), e.trks[1].digest(e.tupleIdx), c13JoinInts(reg), es)
}

func c13OptTok(i int) string {
	if i < 0 {
		return "-"
	}
	return fmt.Sprint(i)
}

// c13DialErr: the error classes createEndpointLocked tells apart
func c13DialErr(kind string) error {
	switch kind {
	case "unreach": // shouldForceMarkUnavailableOnProxyDialError: a second selection + dial inside the same call
		return fmt.Errorf("c13 dial: %w", commonerrors.ErrNetworkUnreachable)
	case "transient": // isTransientLocalUdpDialCreateError: neither reported nor remembered
		return &net.OpError{Op: "dial", Net: "udp", Err: os.NewSyscallError("bind", syscall.EADDRINUSE)}
	case "gen":
		return errors.New("c13: dial failed")
	}
	return nil
}

// outcome: ok | gen | noalive | notpkt | transient | unreach+noalive | unreach+<ok|gen|unreach|transient><d2>
func (e *c13EpEnv) gocCall(k int, sym bool, natMs int, owner, drain, d int, outcome string) (*UdpEndpoint, bool, error) {
	second, d2 := "", d
	if strings.HasPrefix(outcome, "unreach+") {
		second = strings.TrimPrefix(outcome, "unreach+")
		if second != "noalive" {
			d2 = int(second[len(second)-1] - '0')
			second = second[:len(second)-1]
		}
	}
	for i, u := range e.under {
		u.mu.Lock()
		u.fail = outcome == "gen" && i == d
		u.plain = outcome == "notpkt" && i == d
		u.lastPlain = nil
		u.errs = nil
		if outcome == "transient" && i == d {
			u.errs = []error{c13DialErr("transient")}
		}
		if second != "" {
			if i == d {
				u.errs = append(u.errs, c13DialErr("unreach"))
			}
			if i == d2 && second != "noalive" && second != "ok" {
				u.errs = append(u.errs, c13DialErr(second))
			}
		}
		u.mu.Unlock()
	}
	selections := 0
	defer func() {
		for _, u := range e.under {
			u.mu.Lock()
			u.errs = nil
			u.mu.Unlock()
		}
	}()
	opts := &UdpEndpointOptions{
		Ctx: context.Background(),
		Handler: func(ue *UdpEndpoint, data []byte, from netip.AddrPort) error {
			e.mu.Lock()
			ko := e.handlerKO[ue]
			e.mu.Unlock()
			if ko {
				return errors.New("c13: handler failed")
			}
			return nil
		},
		NatTimeout: time.Duration(natMs) * time.Millisecond,
		GetDialOption: func(ctx context.Context) (*DialOption, error) {
			selections++
			if outcome == "noalive" || (selections > 1 && second == "noalive") {
				return nil, ob.ErrNoAliveDialer
			}
			if selections > 1 {
				return &DialOption{Target: c13Target, Dialer: e.dialers[d2], Network: "udp"}, nil
			}
			return &DialOption{Target: c13Target, Dialer: e.dialers[d], Network: "udp"}, nil
		},
	}
	if owner >= 0 {
		opts.ConnStateOwner = e.cores[owner]
	}
	if drain >= 0 {
		opts.DrainTracker = e.drains[drain]
	}
	return e.pool.GetOrCreate(c13EpKey(k, sym), opts)
}

func (e *c13EpEnv) gocFmt(ue *UdpEndpoint, isNew bool, err error) string {
	e.scan()
	switch {
	case err == nil && isNew:
		return fmt.Sprintf("new %d", e.id(ue))
	case err == nil:
		return fmt.Sprintf("hit %d", e.id(ue))
	case errors.Is(err, ErrEndpointFailed):
		return "err-failed"
	default:
		return "err-dial"
	}
}

func (e *c13EpEnv) goc(k int, sym bool, natMs int, owner, drain, d int, outcome string) (string, *UdpEndpoint) {
	ue, isNew, err := e.gocCall(k, sym, natMs, owner, drain, d, outcome)
	synctest.Wait()
	return e.gocFmt(ue, isNew, err), ue
}

// ---- parking ONE chosen goroutine of the pool at chosen yield points (inside the bubble) ----

type c13EpPark struct {
	name   string
	ue     *UdpEndpoint
	resume chan struct{}
}

func (e *c13EpEnv) hook(name string, args ...any) {
	e.mu.Lock()
	gid, want := e.hookGid, e.hookWant[name]
	e.mu.Unlock()
	if gid == 0 || !want || (gid > 0 && c13Goid() != gid) {
		return
	}
	p := &c13EpPark{name: name, resume: make(chan struct{})}
	if len(args) > 0 {
		if ue, ok := args[0].(*UdpEndpoint); ok {
			p.ue = ue
		}
	}
	e.mu.Lock()
	e.parked = p
	e.mu.Unlock()
	<-p.resume
}

func (e *c13EpEnv) setWant(names ...string) {
	e.mu.Lock()
	e.hookWant = map[string]bool{}
	for _, n := range names {
		e.hookWant[n] = true
	}
	e.mu.Unlock()
}

func (e *c13EpEnv) takePark() *c13EpPark {
	e.mu.Lock()
	p := e.parked
	e.parked = nil
	e.mu.Unlock()
	return p
}

// spawn runs f on a new goroutine whose yields are subject to parking
func (e *c13EpEnv) spawn(f func()) {
	go func() {
		e.mu.Lock()
		e.hookGid = c13Goid()
		e.mu.Unlock()
		f()
		e.mu.Lock()
		e.hookGid = 0
		e.mu.Unlock()
	}()
}

// c13Window restricts the operations issued while a pool call is parked half-way
type c13Window struct {
	noInval bool                  // inside a split InvalidateDialerNetworkType
	avoid   *udpEndpointPoolShard // shard whose creation mutex the parked creator holds
	keys    []int                 // keys worth hitting (endpoints of the dialer under invalidation)
	rng     *VRand                // generator for everything drawn inside the window
	reset   bool                  // Reset() may happen inside this window
	fresh   *UdpEndpoint          // published but not registered, read loop not started: no replies / read errors yet
	noTime  bool                  // virtual time must stand still (a janitor pass is parked half-way)
}

func (e *c13EpEnv) keysOfDialer(d int, symOf map[int]bool) []int {
	var ks []int
	for k := 0; k < 6; k++ {
		key := c13EpKey(k, symOf[k])
		sh := e.pool.shardFor(key)
		sh.mu.RLock()
		ue := sh.pool[key]
		sh.mu.RUnlock()
		if ue != nil && ue.Dialer == e.dialers[d] {
			ks = append(ks, k)
		}
	}
	return ks
}

// InvalidateDialerNetworkType step by step: epoch bump | (other operations) | bucket snapshot, then per
// endpoint: mark dead | (other operations) | leave the pool + close.  Hand-out / isNew / dial count of
// every GetOrCreate and Get issued inside the windows are compared with the model.
func c13EpSplitInvalidate(e *c13EpEnv, s *VStream, stats *VStats, r *VRand, symOf map[int]bool,
	emit func(op, out string), doOp func(int, *c13Window)) {
	d := r.Intn(2)
	// The per-endpoint retires come in Go map order. Everything drawn inside the call's windows comes from
	// a forked generator, so the number of draws taken from the sequence's generator does not depend on it.
	rw := r.Fork()
	nt := &componentdialer.NetworkType{L4Proto: consts.L4ProtoStr_UDP, IpVersion: consts.IpVersionStr_4, UdpHealthDomain: componentdialer.UdpHealthDomainData}
	done := make(chan int, 1)
	e.setWant("invalidate.afterEpochBump")
	e.spawn(func() { done <- e.pool.InvalidateDialerNetworkType(e.dialers[d], nt) })
	synctest.Wait()
	p := e.takePark()
	if p == nil {
		panic("c13: InvalidateDialerNetworkType did not reach its yield point")
	}
	emit(fmt.Sprintf("ep ibump %d", d), "ok")
	stats.Inc("ep.split.inval")
	win := &c13Window{noInval: true, keys: e.keysOfDialer(d, symOf), rng: rw}
	for j, n := 0, rw.Intn(4); j < n; j++ {
		doOp(rw.Intn(100), win)
		stats.Inc("ep.split.inval.opAfterBump")
	}
	// how many endpoints the loop is going to retire (bucket members that carried no traffic)
	nvict := 0
	for _, ue := range e.eps {
		if c, ok := ue.conn.(*c13Conn); ok && c != nil && c.closes.Load() == 0 && ue.Dialer == e.dialers[d] &&
			!ue.hasSent.Load() && !ue.hasReply.Load() {
			nvict++
		}
	}
	e.setWant("retire.afterMarkDead")
	close(p.resume)
	synctest.Wait()
	s.Emit(fmt.Sprintf("ep isnap %d", d), "ok")
	cur := e.takePark()
	if nvict > 1 {
		// several victims: they are retired in Go map order, which no seed controls.  Step through without
		// interleaving anything and report the (commuting) retires in endpoint order, so that the stream
		// is the same for every run of a seed.
		var ids []int
		for cur != nil {
			ids = append(ids, e.id(cur.ue))
			close(cur.resume)
			synctest.Wait()
			cur = e.takePark()
		}
		sort.Ints(ids)
		for _, id := range ids {
			s.Emit(fmt.Sprintf("ep markdead %d", id), "ok")
			s.Emit(fmt.Sprintf("ep retirefin %d", id), "ok")
		}
		s.Emit("ep st", e.digest(symOf))
		stats.Inc("ep.split.inval.multiVictim")
	} else {
		if cur != nil {
			s.Emit(fmt.Sprintf("ep markdead %d", e.id(cur.ue)), "ok")
		}
		s.Emit("ep st", e.digest(symOf))
		for cur != nil {
			for j, n := 0, rw.Intn(3); j < n; j++ {
				doOp(rw.Intn(100), win)
				stats.Inc("ep.split.inval.opInsideRetire")
			}
			id := e.id(cur.ue)
			close(cur.resume)
			synctest.Wait()
			s.Emit(fmt.Sprintf("ep retirefin %d", id), "ok")
			cur = e.takePark()
			if cur != nil {
				s.Emit(fmt.Sprintf("ep markdead %d", e.id(cur.ue)), "ok")
			}
			s.Emit("ep st", e.digest(symOf))
		}
	}
	e.setWant()
	emit("ep iend", fmt.Sprintf("removed=%d", <-done))
}

// the transport of dialer d ends: watchTransportLifecycle retires every endpoint riding on it
func c13EpTransportDone(e *c13EpEnv, stats *VStats, d int, emit func(op, out string)) {
	u := e.under[d]
	u.mu.Lock()
	old := u.tch
	u.tch = make(chan struct{})
	u.mu.Unlock()
	if old == nil {
		return
	}
	close(old)
	synctest.Wait()
	stats.Inc("ep.tdone")
	emit(fmt.Sprintf("ep tdone %d", d), "ok")
}

// One janitor pass step by step: the tick | entries leave the table | (other operations) | each removed
// endpoint is closed (yield point janitor.beforeClose sits between removal and Close).
func c13EpSplitJanitor(e *c13EpEnv, s *VStream, stats *VStats, r *VRand, symOf map[int]bool,
	emit func(op, out string), doOp func(int, *c13Window)) {
	rw := r.Fork()
	table := func() map[int]*UdpEndpoint {
		m := map[int]*UdpEndpoint{}
		for k := 0; k < 6; k++ {
			key := c13EpKey(k, symOf[k])
			sh := e.pool.shardFor(key)
			sh.mu.RLock()
			if ue := sh.pool[key]; ue != nil {
				m[k] = ue
			}
			sh.mu.RUnlock()
		}
		return m
	}
	var minExp int64
	for _, ue := range table() {
		if x := ue.expiresAtNano.Load(); x > 1 && (minExp == 0 || x < minExp) {
			minExp = x
		}
	}
	if minExp == 0 {
		return
	}
	now := time.Now().UnixNano()
	iv := int64(udpEndpointJanitorInterval)
	from := minExp
	if from <= now {
		from = now + 1
	}
	tick := e.t0 + ((from-e.t0+iv-1)/iv)*iv
	if dt := (tick-now)/1e6 - 1; dt > 0 {
		time.Sleep(time.Duration(dt) * time.Millisecond)
		synctest.Wait()
		emit(fmt.Sprintf("ep adv %d", dt), "ok")
	}
	if rest := tick - time.Now().UnixNano(); rest != 1e6 {
		return // the tick is not exactly one millisecond ahead (sub-millisecond start): leave it to ordinary ops
	}
	// how many entries this tick is going to remove
	nexp := 0
	for _, ue := range table() {
		x := ue.expiresAtNano.Load()
		if (x > 0 && x <= tick) || (!e.pool.endpointGenerationCurrent(ue) && !e.pool.endpointSurvivesDialerInvalidation(ue)) {
			nexp++
		}
	}
	before := table()
	e.mu.Lock()
	e.hookGid = -1 // the janitor goroutine
	e.mu.Unlock()
	e.setWant("janitor.beforeClose")
	time.Sleep(time.Millisecond)
	synctest.Wait()
	cur := e.takePark()
	if cur == nil {
		e.mu.Lock()
		e.hookGid = 0
		e.mu.Unlock()
		e.setWant()
		emit("ep adv 1", "ok")
		return
	}
	stats.Inc("ep.split.janitor")
	s.Emit("ep jtick 1", "ok")
	removed := func() {
		after := table()
		var ks []int
		for k, ue := range before {
			if after[k] != ue {
				ks = append(ks, k)
			}
		}
		sort.Ints(ks)
		for _, k := range ks {
			s.Emit(fmt.Sprintf("ep jremove %d %d", k, e.id(before[k])), "ok")
		}
		before = after
	}
	win := &c13Window{noInval: true, noTime: true, rng: rw}
	if nexp > 1 {
		// several entries expire at this tick (Go map order inside a shard): no interleaving, report in id order
		var ids []int
		for cur != nil {
			ids = append(ids, e.id(cur.ue))
			close(cur.resume)
			synctest.Wait()
			cur = e.takePark()
		}
		removed()
		sort.Ints(ids)
		for _, id := range ids {
			s.Emit(fmt.Sprintf("ep jclose %d", id), "ok")
		}
		stats.Inc("ep.split.janitor.multi")
	} else {
		for cur != nil {
			removed()
			s.Emit("ep st", e.digest(symOf))
			for j, n := 0, 1+rw.Intn(3); j < n; j++ {
				doOp(rw.Intn(100), win)
				stats.Inc("ep.split.janitor.opBeforeClose")
			}
			before = table()
			id := e.id(cur.ue)
			close(cur.resume)
			synctest.Wait()
			s.Emit(fmt.Sprintf("ep jclose %d", id), "ok")
			cur = e.takePark()
		}
		removed()
	}
	e.mu.Lock()
	e.hookGid = 0
	e.mu.Unlock()
	e.setWant()
	s.Emit("ep st", e.digest(symOf))
	s.Emit("ep jend", "ok")
}

// GetOrCreate's creation step by step: dialled, object built (generation captured) | (other operations,
// typically an invalidation of that dialer) | published.  Afterwards the same key is asked for again.
func c13EpSplitCreate(e *c13EpEnv, s *VStream, stats *VStats, r *VRand, symOf map[int]bool,
	emit func(op, out string), doOp func(int, *c13Window), nats []int) {
	k := r.Intn(6)
	g := r.Intn(3) - 1
	d := r.Intn(2)
	nat := nats[r.Intn(len(nats))]
	type res struct {
		ue    *UdpEndpoint
		isNew bool
		err   error
	}
	done := make(chan res, 1)
	e.setWant("create.beforePublish")
	e.spawn(func() {
		ue, isNew, err := e.gocCall(k, symOf[k], nat, g, g, d, "ok")
		done <- res{ue, isNew, err}
	})
	synctest.Wait()
	p := e.takePark()
	gocOp := fmt.Sprintf("ep goc %d %s %d %s %s %d ok", k, c13B(symOf[k]), nat, c13OptTok(g), c13OptTok(g), d)
	if p == nil { // nothing to create (live endpoint or negative cache): an ordinary GetOrCreate
		x := <-done
		emit(gocOp, e.gocFmt(x.ue, x.isNew, x.err))
		return
	}
	e.scan()
	emit(fmt.Sprintf("ep gocprep %d %s %d %s %s %d", k, c13B(symOf[k]), nat, c13OptTok(g), c13OptTok(g), d), "ok")
	stats.Inc("ep.split.create")
	win := &c13Window{avoid: e.pool.shardFor(c13EpKey(k, symOf[k])), reset: true}
	for j, n := 0, 1+r.Intn(3); j < n; j++ {
		c := r.Intn(100)
		if r.Chance(0.12) {
			// the transport the new conn rides on ends before the endpoint is published / registered
			dd := d
			if r.Chance(0.2) {
				dd = 1 - d
			}
			c13EpTransportDone(e, stats, dd, emit)
			stats.Inc("ep.split.create.tdoneInside")
			continue
		}
		if r.Chance(0.6) {
			// the interesting neighbour: the creator's dialer is invalidated before the object is published
			nt := &componentdialer.NetworkType{L4Proto: consts.L4ProtoStr_UDP, IpVersion: consts.IpVersionStr_4, UdpHealthDomain: componentdialer.UdpHealthDomainData}
			dd := d
			if r.Chance(0.2) {
				dd = 1 - d
			}
			n := e.pool.InvalidateDialerNetworkType(e.dialers[dd], nt)
			synctest.Wait()
			emit(fmt.Sprintf("ep inval %d", dd), fmt.Sprintf("removed=%d", n))
			stats.Inc("ep.split.create.invalInside")
			continue
		}
		doOp(c, win)
	}
	// second park: the object is in the table, but not yet in the dialer's bucket and its read loop has not
	// started (yield point create.afterPublish)
	e.setWant("create.afterPublish")
	close(p.resume)
	synctest.Wait()
	p2 := e.takePark()
	if p2 == nil || p2.ue == nil {
		panic("c13: creator did not reach create.afterPublish")
	}
	newID := e.id(p2.ue)
	// is the endpoint in its dialer's bucket already (registered inside the table write's critical section)?
	pubOp := "ep gocpub"
	// (an endpoint that is closed already at this point was registered too: only the watcher of its ended
	// transport can have retired it, and the watcher knows registered endpoints only)
	if e.registered(p2.ue) || p2.ue.conn.(*c13Conn).closes.Load() > 0 {
		pubOp = "ep gocpubreg"
		stats.Inc("ep.split.create.registeredAtPublish")
	} else {
		stats.Inc("ep.split.create.registeredLater")
	}
	emit(pubOp, fmt.Sprintf("new %d", newID))
	if r.Chance(0.7) {
		// what other packet handlers can do with it already: look it up, send through it
		ueG, okG := e.pool.Get(c13EpKey(k, symOf[k]))
		outG := "none"
		if okG {
			outG = fmt.Sprintf("e%d", e.id(ueG))
		}
		s.Emit(fmt.Sprintf("ep get %d", k), outG)
		if r.Chance(0.5) {
			p2.ue.conn.(*c13Conn).writeMode.Store(0)
			_, werr := p2.ue.WriteTo([]byte("data"), c13Target)
			synctest.Wait()
			wout := "ok"
			if werr != nil {
				wout = "fail"
			}
			emit(fmt.Sprintf("ep write %d ok", newID), wout)
		}
		stats.Inc("ep.split.create.opsAfterPublish")
	}
	// anything else may happen as well: invalidations, Reset, the transport ending, other keys (not this
	// shard: the creator still holds its creation mutex)
	winPub := &c13Window{avoid: e.pool.shardFor(c13EpKey(k, symOf[k])), fresh: p2.ue, noTime: true, reset: true}
	for j, n := 0, r.Intn(3); j < n; j++ {
		if r.Chance(0.3) {
			c13EpTransportDone(e, stats, r.Intn(2), emit)
		} else {
			doOp(r.Intn(100), winPub)
		}
		stats.Inc("ep.split.create.anyOpAfterPublish")
	}
	e.setWant()
	close(p2.resume)
	synctest.Wait()
	x := <-done
	s.Emit("ep gocret", e.gocFmt(x.ue, x.isNew, x.err)) // what the creating call finally returns: the object it published
	// the same key again, and a look-up: a stale-generation never-used endpoint must be replaced, not handed out
	if r.Chance(0.8) {
		res, _ := e.goc(k, symOf[k], nat, g, g, d, "ok")
		emit(gocOp, res)
		stats.Inc("ep.split.create.again." + strings.Fields(res)[0])
	}
	ue, ok := e.pool.Get(c13EpKey(k, symOf[k]))
	out := "none"
	if ok {
		out = fmt.Sprintf("e%d", e.id(ue))
	}
	s.Emit(fmt.Sprintf("ep get %d", k), out)
}

func c13RunEpSeq(t *testing.T, s *VStream, stats *VStats, r *VRand) {
	synctest.Test(t, func(t *testing.T) {
		c13RealMaps = true
		e := c13NewEpEnv()
		c13RealMaps = false
		verifYieldHook = e.hook
		defer func() {
			verifYieldHook = nil
			e.pool.Close()
			// endpoints the pool lost track of would keep their read loop blocked past the bubble's end;
			// the digests above have already shown them as never closed
			for _, ue := range e.eps {
				_ = ue.Close()
			}
			// let the transport watchers end
			for _, u := range e.under {
				u.mu.Lock()
				if u.tch != nil {
					close(u.tch)
					u.tch = nil
				}
				u.mu.Unlock()
			}
			synctest.Wait()
		}()
		s.Emit("ep reset", "ok")
		// tuning constants of the real pool (not part of the property): handed to the model
		s.Emit(fmt.Sprintf("ep consts %d %d %d", udpEndpointJanitorInterval.Milliseconds(), ttlRefreshMinInterval/1e6, c13FailureTtlMs()), "ok")
		symOf := map[int]bool{}
		for k := 0; k < 6; k++ {
			symOf[k] = r.Bool()
		}
		emit := func(op, out string) {
			s.Emit(op, out)
			s.Emit("ep st", e.digest(symOf))
		}
		nats := []int{2000, 30000, 120000, 1000}
		nops := 10 + r.Intn(60)
		var doOp func(c int, win *c13Window)
		doOp = func(c int, win *c13Window) {
			rng := r
			if win != nil && win.rng != nil {
				rng = win.rng
			}
			if win != nil && c >= 88 && c < 95 && (win.noInval || (c >= 93 && !win.reset)) {
				c = rng.Intn(30) // no nested invalidation / Reset inside a window: a GetOrCreate instead
			}
			if win != nil && win.noTime && c >= 77 && c < 88 {
				c = 30 + rng.Intn(35) // look-ups, writes, replies instead of letting time pass
			}
			pickEp := func() int {
				if len(e.eps) == 0 {
					return -1
				}
				// prefer recent endpoints
				if rng.Chance(0.6) {
					return len(e.eps) - 1 - rng.Intn(min(3, len(e.eps)))
				}
				return rng.Intn(len(e.eps))
			}
			switch {
			case c < 30:
				k := rng.Intn(6)
				if rng.Chance(0.5) {
					k = rng.Intn(2) // collide on few keys
				}
				if win != nil && len(win.keys) > 0 && rng.Chance(0.6) {
					k = win.keys[rng.Intn(len(win.keys))] // a key whose endpoint belongs to the dialer under invalidation
				}
				if win != nil && win.avoid != nil && e.pool.shardFor(c13EpKey(k, symOf[k])) == win.avoid {
					return // would block on the creation mutex the parked creator holds
				}
				owner, drain := rng.Intn(3)-1, rng.Intn(3)-1
				if rng.Chance(0.6) { // generations usually come as (owner i, drain i)
					g := rng.Intn(2)
					owner, drain = g, g
				}
				d := rng.Intn(2)
				outcome := "ok"
				switch x := rng.Intn(10); {
				case x == 0:
					outcome = "gen"
				case x == 1:
					outcome = "noalive"
				case x == 2 && rng.Chance(0.5):
					outcome = "notpkt"
				case x == 3 && rng.Chance(0.5):
					outcome = "transient"
				case x == 4:
					// the first dial finds the network unreachable: createEndpointLocked selects and dials again
					switch y := rng.Intn(6); {
					case y < 2:
						outcome = fmt.Sprintf("unreach+ok%d", rng.Intn(2))
					case y == 2:
						outcome = fmt.Sprintf("unreach+gen%d", rng.Intn(2))
					case y == 3:
						outcome = fmt.Sprintf("unreach+unreach%d", rng.Intn(2))
					case y == 4:
						outcome = fmt.Sprintf("unreach+transient%d", rng.Intn(2))
					default:
						outcome = "unreach+noalive"
					}
				}
				nat := nats[rng.Intn(len(nats))]
				res, _ := e.goc(k, symOf[k], nat, owner, drain, d, outcome)
				if outcome == "notpkt" {
					// the dialled transport can not be used: it must have been closed, exactly once
					e.under[d].mu.Lock()
					pc := e.under[d].lastPlain
					e.under[d].mu.Unlock()
					if pc != nil {
						stats.Inc("ep.goc.notPacketConn.dialled")
						if n := pc.closes.Load(); n != 1 {
							res += fmt.Sprintf(" unusable-transport-closed-%d-times", n)
						}
					}
				}
				stats.Inc("ep.goc." + strings.Fields(res)[0])
				if strings.HasPrefix(outcome, "unreach+") {
					stats.Inc("ep.goc.secondDialInCall." + strings.Fields(res)[0])
				}
				if outcome == "transient" {
					stats.Inc("ep.goc.transientLocalError." + strings.Fields(res)[0])
				}
				emit(fmt.Sprintf("ep goc %d %s %d %s %s %d %s", k, c13B(symOf[k]), nat, c13OptTok(owner), c13OptTok(drain), d, outcome), res)
			case c < 38:
				k := rng.Intn(6)
				ue, ok := e.pool.Get(c13EpKey(k, symOf[k]))
				out := "none"
				if ok {
					out = fmt.Sprintf("e%d", e.id(ue))
				}
				stats.Inc("ep.get." + out[:1])
				s.Emit(fmt.Sprintf("ep get %d", k), out)
			case c < 55:
				id := pickEp()
				if id < 0 || e.eps[id].conn == nil {
					return
				}
				ue := e.eps[id]
				mode, tok := 0, "ok"
				switch x := rng.Intn(8); {
				case x == 0:
					mode, tok = 1, "err"
				case x == 1:
					mode, tok = 2, "short"
				}
				ue.conn.(*c13Conn).writeMode.Store(int32(mode))
				_, err := ue.WriteTo([]byte("data"), c13Target)
				synctest.Wait()
				out := "ok"
				if err != nil {
					out = "fail"
				}
				stats.Inc("ep.write." + tok + "." + out)
				emit(fmt.Sprintf("ep write %d %s", id, tok), out)
			case c < 65:
				id := pickEp()
				if id < 0 || e.eps[id].conn == nil {
					return
				}
				ue := e.eps[id]
				if win != nil && ue == win.fresh {
					return
				}
				hok := !rng.Chance(0.15)
				e.mu.Lock()
				e.handlerKO[ue] = !hok
				e.mu.Unlock()
				cn := ue.conn.(*c13Conn)
				if cn.closes.Load() == 0 {
					cn.reads <- nil
					synctest.Wait()
				}
				stats.Inc("ep.reply")
				emit(fmt.Sprintf("ep reply %d %s", id, c13B(hok)), "ok")
			case c < 69:
				id := pickEp()
				if id < 0 || e.eps[id].conn == nil {
					return
				}
				if win != nil && e.eps[id] == win.fresh {
					return
				}
				cn := e.eps[id].conn.(*c13Conn)
				if cn.closes.Load() == 0 {
					cn.reads <- errors.New("c13: read failed")
					synctest.Wait()
				}
				stats.Inc("ep.readerr")
				emit(fmt.Sprintf("ep readerr %d", id), "ok")
			case c < 74:
				id := pickEp()
				if id < 0 {
					return
				}
				ue := e.eps[id]
				k := int(ue.poolKey.Src.Port()) - 30000
				if !e.isPooled(ue) && rng.Chance(0.3) {
					// a stale Remove (the endpoint is gone already) under an arbitrary key: only closes (no-op)
					k = rng.Intn(6)
				}
				err := e.pool.Remove(c13EpKey(k, symOf[k]), ue)
				synctest.Wait()
				out := "removed"
				if err != nil {
					out = "not-in-pool"
				}
				stats.Inc("ep.remove." + out)
				// (Remove's return value is not compared: every caller ignores it; the state after it is)
				emit(fmt.Sprintf("ep remove %d %d", k, id), "ok")
			case c < 77:
				id := pickEp()
				if id < 0 || e.isPooled(e.eps[id]) {
					return // production code closes an endpoint only after taking it out of the pool
				}
				_ = e.eps[id].Close()
				synctest.Wait()
				stats.Inc("ep.close")
				emit(fmt.Sprintf("ep close %d", id), "ok")
			case c < 88:
				dts := []int{50, 250, 200, 1000, 1900, 2100, 400, 29000, 31000, 125000, 249, 1}
				dt := dts[rng.Intn(len(dts))]
				time.Sleep(time.Duration(dt) * time.Millisecond)
				synctest.Wait()
				stats.Inc("ep.adv")
				emit(fmt.Sprintf("ep adv %d", dt), "ok")
			case c < 93:
				d := rng.Intn(2)
				nt := &componentdialer.NetworkType{L4Proto: consts.L4ProtoStr_UDP, IpVersion: consts.IpVersionStr_4, UdpHealthDomain: componentdialer.UdpHealthDomainData}
				n := e.pool.InvalidateDialerNetworkType(e.dialers[d], nt)
				synctest.Wait()
				stats.Inc("ep.inval")
				emit(fmt.Sprintf("ep inval %d", d), fmt.Sprintf("removed=%d", n))
			case c < 95:
				e.pool.Reset()
				synctest.Wait()
				stats.Inc("ep.resetpool")
				emit("ep resetpool", "ok")
			default:
				id := pickEp()
				if id < 0 {
					return
				}
				j := rng.Intn(4)
				a, b := c13PairAddrs(j)
				ue := e.eps[id]
				ue.udpConnStateMu.Lock()
				live := !ue.udpConnStateClosed && ue.udpConnStateOwner != nil
				ue.udpConnStateMu.Unlock()
				if live && e.connState != nil {
					// the datapath has created the flow's conn-state entries (the reverse one only once a
					// reply was seen)
					_ = e.connState.Put(bpfTuplesKeyFromAddrPorts(a, b, 17), uint64(1))
					if rng.Chance(0.7) {
						_ = e.connState.Put(bpfTuplesKeyFromAddrPorts(b, a, 17), uint64(1))
					}
				}
				ue.TrackUdpConnStateTuplePair(a, b)
				stats.Inc("ep.track")
				emit(fmt.Sprintf("ep track %d %d", id, j), "ok")
			}
		}
		for i := 0; i < nops; i++ {
			x := r.Intn(115)
			switch {
			case x < 100:
				doOp(x, nil)
			case x < 105:
				c13EpSplitInvalidate(e, s, stats, r, symOf, emit, doOp)
			case x < 108:
				c13EpSplitJanitor(e, s, stats, r, symOf, emit, doOp)
			case x < 112:
				c13EpSplitCreate(e, s, stats, r, symOf, emit, doOp, nats)
			default:
				c13EpTransportDone(e, stats, r.Intn(2), emit)
			}
		}
		// quiesce: no traffic for longer than any NAT timeout -> the janitor closes what is left
		time.Sleep(130 * time.Second)
		synctest.Wait()
		emit("ep adv 130000", "ok")
		// every owner is gone now: no conn-state entry of a tracked tuple may be left in the kernel map
		if e.connState != nil {
			s.Emit("ep kleft", fmt.Sprint(len(c13KernelKeys(e.connState, e.tupleIdx))))
			e.connState.Close()
		}
	})
}

// ---- concurrency windows of the pool, forced through the yield points and compared with the
// sequential model in linearisation order (stream c13_epc) ----

type c13Gate struct {
	mu     sync.Mutex
	want   map[string]bool // yield names at which goroutines park
	parked chan *c13GatePark
}
type c13GatePark struct {
	name   string
	resume chan struct{}
}

func (g *c13Gate) hook(name string, _ ...any) {
	g.mu.Lock()
	w := g.want[name]
	g.mu.Unlock()
	if !w {
		return
	}
	p := &c13GatePark{name: name, resume: make(chan struct{})}
	g.parked <- p
	<-p.resume
}

func (e *c13EpEnv) digestNoTime(symOf map[int]bool) string {
	var pool []string
	for k := 0; k < 6; k++ {
		key := c13EpKey(k, symOf[k])
		sh := e.pool.shardFor(key)
		sh.mu.RLock()
		ue := sh.pool[key]
		sh.mu.RUnlock()
		if ue != nil {
			pool = append(pool, fmt.Sprintf("%d:%d", k, e.id(ue)))
		}
	}
	ps := "-"
	if len(pool) > 0 {
		ps = strings.Join(pool, ",")
	}
	var eps []string
	for i, ue := range e.eps {
		closes := 0
		if c, ok := ue.conn.(*c13Conn); ok && c != nil {
			closes = int(c.closes.Load())
		}
		eps = append(eps, fmt.Sprintf("%d:f%sd%sc%ds%sr%s", i, c13B(ue.failed.Load()), c13B(ue.dead.Load()), closes,
			c13B(ue.hasSent.Load()), c13B(ue.hasReply.Load())))
	}
	es := "-"
	if len(eps) > 0 {
		es = strings.Join(eps, " ")
	}
	return fmt.Sprintf("pool=%s dials=%d eps=%s", ps, e.dials(), es)
}

func (e *c13EpEnv) gocPlain(k int, d int) (*UdpEndpoint, bool, error) {
	return e.pool.GetOrCreate(c13EpKey(k, false), &UdpEndpointOptions{
		Ctx:        context.Background(),
		Handler:    func(*UdpEndpoint, []byte, netip.AddrPort) error { return nil },
		// (these replays run on the real clock, outside a synctest bubble: a NAT timeout of a day keeps the
		// janitor out of the picture however long the process is stalled)
		NatTimeout: 24 * time.Hour,
		GetDialOption: func(ctx context.Context) (*DialOption, error) {
			return &DialOption{Target: c13Target, Dialer: e.dialers[d], Network: "udp"}, nil
		},
	})
}

func c13RunEpConcurrent(t *testing.T, stats *VStats) {
	s := VOpenStream("c13_epc")
	defer s.Close()
	symOf := map[int]bool{}
	rounds := 30
	if VThorough() {
		rounds = 600
	}
	for round := 0; round < rounds; round++ {
		// (1) concurrent first packets: n goroutines all miss the fast path, then race for the creation lock
		{
			e := c13NewEpEnv()
			g := &c13Gate{want: map[string]bool{"getOrCreate.afterFastPathMiss": true}, parked: make(chan *c13GatePark, 16)}
			verifYieldHook = g.hook
			n := 2 + round%3
			type res struct {
				ue    *UdpEndpoint
				isNew bool
				err   error
			}
			out := make(chan res, n)
			for i := 0; i < n; i++ {
				go func() {
					ue, isNew, err := e.gocPlain(0, 0)
					out <- res{ue, isNew, err}
				}()
			}
			var parks []*c13GatePark
			for i := 0; i < n; i++ {
				parks = append(parks, <-g.parked) // everybody has seen the miss
			}
			g.mu.Lock()
			g.want = map[string]bool{}
			g.mu.Unlock()
			for _, p := range parks {
				close(p.resume)
			}
			s.Emit("ep reset", "ok")
			news := 0
			var results []res
			for i := 0; i < n; i++ {
				results = append(results, <-out)
			}
			verifYieldHook = nil
			// linearisation order: the creator first
			sort.SliceStable(results, func(a, b int) bool { return results[a].isNew && !results[b].isNew })
			for _, r := range results {
				o := "err-dial"
				if r.err == nil {
					if r.isNew {
						news++
						o = fmt.Sprintf("new %d", e.id(r.ue))
					} else {
						o = fmt.Sprintf("hit %d", e.id(r.ue))
					}
				}
				s.Emit("ep goc 0 0 86400000 - - 0 ok", o)
			}
			s.Emit("ep stx", e.digestNoTime(symOf))
			stats.Inc(fmt.Sprintf("epc.firstPackets.n%d", n))
			e.pool.Close()
		}
		// (2) retire (write error) parked after marking the endpoint dead, while the key is re-created
		{
			e := c13NewEpEnv()
			ue1, _, err := e.gocPlain(1, 0)
			if err != nil {
				t.Fatalf("c13: setup dial failed: %v", err)
			}
			s.Emit("ep reset", "ok")
			s.Emit("ep goc 1 0 86400000 - - 0 ok", fmt.Sprintf("new %d", e.id(ue1)))
			where := []string{"retire.afterMarkDead", "retire.afterSelfRemove"}[round%2]
			g := &c13Gate{want: map[string]bool{where: true}, parked: make(chan *c13GatePark, 4)}
			verifYieldHook = g.hook
			done := make(chan error, 1)
			ue1.conn.(*c13Conn).writeMode.Store(1)
			go func() {
				_, err := ue1.WriteTo([]byte("x"), c13Target)
				done <- err
			}()
			p := <-g.parked
			g.mu.Lock()
			g.want = map[string]bool{}
			g.mu.Unlock()
			ue2, isNew, err2 := e.gocPlain(1, 0) // runs to completion inside the window
			close(p.resume)
			werr := <-done
			verifYieldHook = nil
			wout := "ok"
			if werr != nil {
				wout = "fail"
			}
			s.Emit(fmt.Sprintf("ep write %d err", e.id(ue1)), wout)
			o := "err-dial"
			if err2 == nil && isNew {
				o = fmt.Sprintf("new %d", e.id(ue2))
			} else if err2 == nil {
				o = fmt.Sprintf("hit %d", e.id(ue2))
			}
			s.Emit("ep goc 1 0 86400000 - - 0 ok", o)
			s.Emit("ep stx", e.digestNoTime(symOf))
			stats.Inc("epc.retireVsRecreate." + where)
			e.pool.Close()
		}
	}
	stats.Add("epc.ops", s.N)
}

// ---- the lock structure of GetOrCreate, thread by thread (stream c13_lock, model DaeVerif.C13.EPC) ----

type c13LockThread struct {
	id      int
	park    *c13GatePark
	done    bool
	isNew   bool
	started chan struct{}
}

func c13RunEpLock(t *testing.T, stats *VStats) {
	s := VOpenStream("c13_lock")
	defer s.Close()
	r := NewVRand(VSeed() + 505)
	n := 60
	if VThorough() {
		n = 1500
	}
	for round := 0; round < n; round++ {
		e := c13NewEpEnv()
		var mu sync.Mutex
		byGid := map[int64]*c13LockThread{}
		arrive := make(chan *c13LockThread, 64)
		hook := func(name string, _ ...any) {
			if name != "getOrCreate.afterFastPathMiss" && name != "getOrCreate.afterRecheckMiss" && name != "create.beforePublish" {
				return
			}
			mu.Lock()
			th := byGid[c13Goid()]
			mu.Unlock()
			if th == nil {
				return
			}
			p := &c13GatePark{name: name, resume: make(chan struct{})}
			th.park = p
			arrive <- th
			<-p.resume
		}
		verifYieldHook = hook
		s.Emit("epc reset", "ok")
		var threads []*c13LockThread
		holder := -1
		spawn := func() {
			th := &c13LockThread{id: len(threads), started: make(chan struct{})}
			threads = append(threads, th)
			ready := make(chan struct{})
			go func() {
				mu.Lock()
				byGid[c13Goid()] = th
				mu.Unlock()
				close(ready)
				<-th.started
				_, isNew, err := e.gocPlain(0, 0)
				if err != nil {
					panic(err)
				}
				th.isNew = isNew
				th.done = true
				th.park = nil
				arrive <- th
			}()
			<-ready
			s.Emit("epc spawn", fmt.Sprintf("t=%d", th.id))
		}
		show := func(th *c13LockThread) string {
			at := "start"
			switch {
			case th.done && th.isNew:
				at = "return.new"
			case th.done:
				at = "return.hit"
			case th.park != nil:
				at = th.park.name
			}
			key := c13EpKey(0, false)
			sh := e.pool.shardFor(key)
			sh.mu.RLock()
			_, in := sh.pool[key]
			sh.mu.RUnlock()
			return fmt.Sprintf("at=%s dials=%d pool=%s", at, e.dials(), c13B(in))
		}
		nth := 1 + r.Intn(4)
		started := map[int]bool{}
		for steps := 0; steps < 200; steps++ {
			var cand []*c13LockThread
			for _, th := range threads {
				if th.done {
					continue
				}
				// a thread waiting for the creation mutex can only move when nobody holds it
				if started[th.id] && th.park != nil && th.park.name == "getOrCreate.afterFastPathMiss" && holder >= 0 {
					continue
				}
				cand = append(cand, th)
			}
			canSpawn := len(threads) < nth
			if len(cand) == 0 && !canSpawn {
				break
			}
			if canSpawn && (len(cand) == 0 || r.Chance(0.4)) {
				spawn()
				continue
			}
			th := cand[r.Intn(len(cand))]
			if !started[th.id] {
				started[th.id] = true
				close(th.started)
			} else {
				p := th.park
				if p.name == "getOrCreate.afterFastPathMiss" {
					holder = th.id
				}
				th.park = nil
				close(p.resume)
			}
			got := <-arrive
			if got != th {
				panic("c13: another thread moved")
			}
			if th.done && holder == th.id {
				holder = -1
			}
			s.Emit(fmt.Sprintf("epc step %d", th.id), show(th))
			stats.Inc("lock.stop." + strings.Fields(show(th))[0][3:])
		}
		verifYieldHook = nil
		e.pool.Close()
		stats.Inc(fmt.Sprintf("lock.threads%d", nth))
	}
	stats.Add("lock.ops", s.N)
}

func c13RunEp(t *testing.T, stats *VStats) {
	s := VOpenStream("c13_ep")
	defer s.Close()
	r := NewVRand(VSeed() + 404)
	n := 300
	if VThorough() {
		n = 5000
	}
	n = VEnvInt("VERIF_C13_EP_SEQS", n)
	for i := 0; i < n; i++ {
		c13RunEpSeq(t, s, stats, r.Fork())
	}
	stats.Add("ep.ops", s.N)
}
