package control

// C13 correspondence harness — part 3: the UDP endpoint pool (udp_endpoint_pool.go).
//
// Stream c13_ep: operation sequences on a REAL UdpEndpointPool (own instance, created inside a
// testing/synctest bubble so that time.Now(), NAT expiry, the negative cache and the janitor's
// ticker run on virtual time) with fake dialers / transport conns that count dials and closes, two
// real controlPlaneCore values as conn-state owners (each with its real udpConnStateTracker), and
// two real controlPlaneDrainTrackers.  After every operation the whole observable state is printed
// (`ep st`): pool table, per endpoint flags / close count / expiry / NAT timeout / tracked tuples,
// dial count, both trackers, both drain counts.  The Lean driver executes the same sequence on
// DaeVerif.C13.EP.
//
// A second part replays two concurrency windows through the yield points (concurrent first
// packets -> single dial; retire racing with re-creation) and checks their outcome directly.

import (
	"context"
	"errors"
	"fmt"
	"io"
	"net/netip"
	"sort"
	"strings"
	"sync"
	"sync/atomic"
	"testing"
	"testing/synctest"
	"time"

	"github.com/daeuniverse/dae/common/consts"
	ob "github.com/daeuniverse/dae/component/outbound"
	componentdialer "github.com/daeuniverse/dae/component/outbound/dialer"
	"github.com/daeuniverse/outbound/netproxy"
	"github.com/sirupsen/logrus"
)

type c13Conn struct {
	reads     chan error // nil = a reply packet, non-nil = ReadFrom error
	closeCh   chan struct{}
	closes    atomic.Int32
	writeMode atomic.Int32 // 0 ok, 1 error, 2 short
	from      netip.AddrPort
}

func (c *c13Conn) Read(_ []byte) (int, error)  { return 0, io.EOF }
func (c *c13Conn) Write(b []byte) (int, error) { return len(b), nil }
func (c *c13Conn) ReadFrom(p []byte) (int, netip.AddrPort, error) {
	select {
	case <-c.closeCh:
		return 0, netip.AddrPort{}, io.EOF
	case e := <-c.reads:
		if e != nil {
			return 0, netip.AddrPort{}, e
		}
		p[0] = 'r'
		return 1, c.from, nil
	}
}
func (c *c13Conn) WriteTo(b []byte, _ string) (int, error) {
	switch c.writeMode.Load() {
	case 1:
		return 0, errors.New("c13: write failed")
	case 2:
		return len(b) - 1, nil
	}
	return len(b), nil
}
func (c *c13Conn) Close() error {
	if c.closes.Add(1) == 1 {
		close(c.closeCh)
	}
	return nil
}
func (c *c13Conn) SetDeadline(time.Time) error      { return nil }
func (c *c13Conn) SetReadDeadline(time.Time) error  { return nil }
func (c *c13Conn) SetWriteDeadline(time.Time) error { return nil }

type c13Underlay struct {
	mu    sync.Mutex
	dials int
	fail  bool
	from  netip.AddrPort
	gate  func() // optional: called inside DialContext (concurrency replays park here)
	last  *c13Conn
}

func (d *c13Underlay) DialContext(context.Context, string, string) (netproxy.Conn, error) {
	d.mu.Lock()
	d.dials++
	fail := d.fail
	gate := d.gate
	d.mu.Unlock()
	if gate != nil {
		gate()
	}
	if fail {
		return nil, errors.New("c13: dial failed")
	}
	c := &c13Conn{reads: make(chan error, 16), closeCh: make(chan struct{}), from: d.from}
	d.mu.Lock()
	d.last = c
	d.mu.Unlock()
	return c, nil
}

func c13NewDialer(u *c13Underlay) *componentdialer.Dialer {
	logger := logrus.New()
	logger.SetOutput(io.Discard)
	return componentdialer.NewDialer(u,
		&componentdialer.GlobalOption{Log: logger, CheckInterval: time.Hour},
		componentdialer.InstanceOption{DisableCheck: true},
		&componentdialer.Property{})
}

const c13Target = "198.51.100.7:4433"

type c13EpEnv struct {
	pool      *UdpEndpointPool
	t0        int64
	under     []*c13Underlay
	dialers   []*componentdialer.Dialer
	cores     []*controlPlaneCore
	trks      []*c13Trk
	drains    []*controlPlaneDrainTracker
	ids       map[*UdpEndpoint]int
	eps       []*UdpEndpoint
	handlerKO map[*UdpEndpoint]bool
	tupleIdx  map[bpfTuplesKey]int
	mu        sync.Mutex
}

func c13EpKey(k int, sym bool) UdpEndpointKey {
	key := UdpEndpointKey{Src: netip.AddrPortFrom(netip.AddrFrom4([4]byte{10, 9, 0, byte(k)}), uint16(30000+k))}
	if sym {
		key.Dst = netip.MustParseAddrPort(c13Target)
	}
	return key
}

func c13PairAddrs(j int) (netip.AddrPort, netip.AddrPort) {
	return netip.AddrPortFrom(netip.AddrFrom4([4]byte{10, 9, 1, byte(j)}), uint16(31000+j)),
		netip.AddrPortFrom(netip.AddrFrom4([4]byte{203, 0, 113, byte(j)}), 443)
}

func c13NewEpEnv() *c13EpEnv {
	e := &c13EpEnv{pool: NewUdpEndpointPool(), ids: map[*UdpEndpoint]int{}, handlerKO: map[*UdpEndpoint]bool{},
		tupleIdx: map[bpfTuplesKey]int{}}
	e.t0 = time.Now().UnixNano()
	from := netip.MustParseAddrPort(c13Target)
	for i := 0; i < 2; i++ {
		u := &c13Underlay{from: from}
		e.under = append(e.under, u)
		e.dialers = append(e.dialers, c13NewDialer(u))
		x := c13NewTrk()
		e.trks = append(e.trks, x)
		e.cores = append(e.cores, x.core)
		e.drains = append(e.drains, newControlPlaneDrainTracker())
	}
	for j := 0; j < 4; j++ {
		s, d := c13PairAddrs(j)
		e.tupleIdx[bpfTuplesKeyFromAddrPorts(s, d, 17)] = 2 * j
		e.tupleIdx[bpfTuplesKeyFromAddrPorts(d, s, 17)] = 2*j + 1
	}
	return e
}

// scan assigns ids to endpoint objects that appeared in the pool (failure entries are never returned)
func (e *c13EpEnv) scan() {
	for k := 0; k < 6; k++ {
		for _, sym := range []bool{false, true} {
			key := c13EpKey(k, sym)
			sh := e.pool.shardFor(key)
			sh.mu.RLock()
			ue := sh.pool[key]
			sh.mu.RUnlock()
			if ue != nil {
				e.id(ue)
			}
		}
	}
}

func (e *c13EpEnv) id(ue *UdpEndpoint) int {
	if i, ok := e.ids[ue]; ok {
		return i
	}
	i := len(e.eps)
	e.ids[ue] = i
	e.eps = append(e.eps, ue)
	return i
}

func (e *c13EpEnv) dials() int {
	n := 0
	for _, u := range e.under {
		u.mu.Lock()
		n += u.dials
		u.mu.Unlock()
	}
	return n
}

func (e *c13EpEnv) digest(symOf map[int]bool) string {
	var pool []string
	for k := 0; k < 6; k++ {
		key := c13EpKey(k, symOf[k])
		sh := e.pool.shardFor(key)
		sh.mu.RLock()
		ue := sh.pool[key]
		sh.mu.RUnlock()
		if ue != nil {
			pool = append(pool, fmt.Sprintf("%d:%d", k, e.id(ue)))
		}
	}
	ps := "-"
	if len(pool) > 0 {
		ps = strings.Join(pool, ",")
	}
	var eps []string
	for i, ue := range e.eps {
		closes := 0
		if c, ok := ue.conn.(*c13Conn); ok && c != nil {
			closes = int(c.closes.Load())
		}
		x := ue.expiresAtNano.Load()
		xs := fmt.Sprint(x)
		if x > 1 {
			xs = fmt.Sprintf("%dms", (x-e.t0)/1e6)
		}
		ue.udpConnStateMu.Lock()
		var tup []int
		for k := range ue.udpConnStateTuples {
			tup = append(tup, e.tupleIdx[k])
		}
		ue.udpConnStateMu.Unlock()
		sort.Ints(tup)
		eps = append(eps, fmt.Sprintf("%d:f%sd%sc%dx%ss%sr%sn%dt%s", i, c13B(ue.failed.Load()), c13B(ue.dead.Load()), closes, xs,
			c13B(ue.hasSent.Load()), c13B(ue.hasReply.Load()), int64(ue.natTimeout())/1e6, c13JoinInts(tup)))
	}
	es := "-"
	if len(eps) > 0 {
		es = strings.Join(eps, " ")
	}
	return fmt.Sprintf("pool=%s dials=%d drn=%d,%d trk0[%s] trk1[%s] eps=%s", ps, e.dials(), e.drains[0].Count(), e.drains[1].Count(),
		e.trks[0].digest(e.tupleIdx), e.trks[1].digest(e.tupleIdx), es)
}

func c13OptTok(i int) string {
	if i < 0 {
		return "-"
	}
	return fmt.Sprint(i)
}

func (e *c13EpEnv) goc(k int, sym bool, natMs int, owner, drain, d int, outcome string) (string, *UdpEndpoint) {
	for i, u := range e.under {
		u.mu.Lock()
		u.fail = outcome == "gen" && i == d
		u.mu.Unlock()
	}
	opts := &UdpEndpointOptions{
		Ctx: context.Background(),
		Handler: func(ue *UdpEndpoint, data []byte, from netip.AddrPort) error {
			e.mu.Lock()
			ko := e.handlerKO[ue]
			e.mu.Unlock()
			if ko {
				return errors.New("c13: handler failed")
			}
			return nil
		},
		NatTimeout: time.Duration(natMs) * time.Millisecond,
		GetDialOption: func(ctx context.Context) (*DialOption, error) {
			if outcome == "noalive" {
				return nil, ob.ErrNoAliveDialer
			}
			return &DialOption{Target: c13Target, Dialer: e.dialers[d], Network: "udp"}, nil
		},
	}
	if owner >= 0 {
		opts.ConnStateOwner = e.cores[owner]
	}
	if drain >= 0 {
		opts.DrainTracker = e.drains[drain]
	}
	ue, isNew, err := e.pool.GetOrCreate(c13EpKey(k, sym), opts)
	synctest.Wait()
	e.scan()
	switch {
	case err == nil && isNew:
		return fmt.Sprintf("new %d", e.id(ue)), ue
	case err == nil:
		return fmt.Sprintf("hit %d", e.id(ue)), ue
	case errors.Is(err, ErrEndpointFailed):
		return "err-failed", nil
	default:
		return "err-dial", nil
	}
}

func c13RunEpSeq(t *testing.T, s *VStream, stats *VStats, r *VRand) {
	synctest.Test(t, func(t *testing.T) {
		e := c13NewEpEnv()
		defer func() {
			e.pool.Close()
			synctest.Wait()
		}()
		s.Emit("ep reset", "ok")
		symOf := map[int]bool{}
		for k := 0; k < 6; k++ {
			symOf[k] = r.Bool()
		}
		emit := func(op, out string) {
			s.Emit(op, out)
			s.Emit("ep st", e.digest(symOf))
		}
		nats := []int{2000, 30000, 120000, 1000}
		nops := 10 + r.Intn(60)
		for i := 0; i < nops; i++ {
			pickEp := func() int {
				if len(e.eps) == 0 {
					return -1
				}
				// prefer recent endpoints
				if r.Chance(0.6) {
					return len(e.eps) - 1 - r.Intn(min(3, len(e.eps)))
				}
				return r.Intn(len(e.eps))
			}
			switch c := r.Intn(100); {
			case c < 30:
				k := r.Intn(6)
				if r.Chance(0.5) {
					k = r.Intn(2) // collide on few keys
				}
				owner, drain := r.Intn(3)-1, r.Intn(3)-1
				if r.Chance(0.6) { // generations usually come as (owner i, drain i)
					g := r.Intn(2)
					owner, drain = g, g
				}
				d := r.Intn(2)
				outcome := "ok"
				switch x := r.Intn(10); {
				case x == 0:
					outcome = "gen"
				case x == 1:
					outcome = "noalive"
				}
				nat := nats[r.Intn(len(nats))]
				res, _ := e.goc(k, symOf[k], nat, owner, drain, d, outcome)
				stats.Inc("ep.goc." + strings.Fields(res)[0])
				emit(fmt.Sprintf("ep goc %d %s %d %s %s %d %s", k, c13B(symOf[k]), nat, c13OptTok(owner), c13OptTok(drain), d, outcome), res)
			case c < 38:
				k := r.Intn(6)
				ue, ok := e.pool.Get(c13EpKey(k, symOf[k]))
				out := "none"
				if ok {
					out = fmt.Sprintf("e%d", e.id(ue))
				}
				stats.Inc("ep.get." + out[:1])
				s.Emit(fmt.Sprintf("ep get %d", k), out)
			case c < 55:
				id := pickEp()
				if id < 0 || e.eps[id].conn == nil {
					continue
				}
				ue := e.eps[id]
				mode, tok := 0, "ok"
				switch x := r.Intn(8); {
				case x == 0:
					mode, tok = 1, "err"
				case x == 1:
					mode, tok = 2, "short"
				}
				ue.conn.(*c13Conn).writeMode.Store(int32(mode))
				_, err := ue.WriteTo([]byte("data"), c13Target)
				synctest.Wait()
				out := "ok"
				if err != nil {
					out = "fail"
				}
				stats.Inc("ep.write." + tok + "." + out)
				emit(fmt.Sprintf("ep write %d %s", id, tok), out)
			case c < 65:
				id := pickEp()
				if id < 0 || e.eps[id].conn == nil {
					continue
				}
				ue := e.eps[id]
				hok := !r.Chance(0.15)
				e.mu.Lock()
				e.handlerKO[ue] = !hok
				e.mu.Unlock()
				cn := ue.conn.(*c13Conn)
				if cn.closes.Load() == 0 {
					cn.reads <- nil
					synctest.Wait()
				}
				stats.Inc("ep.reply")
				emit(fmt.Sprintf("ep reply %d %s", id, c13B(hok)), "ok")
			case c < 69:
				id := pickEp()
				if id < 0 || e.eps[id].conn == nil {
					continue
				}
				cn := e.eps[id].conn.(*c13Conn)
				if cn.closes.Load() == 0 {
					cn.reads <- errors.New("c13: read failed")
					synctest.Wait()
				}
				stats.Inc("ep.readerr")
				emit(fmt.Sprintf("ep readerr %d", id), "ok")
			case c < 74:
				id := pickEp()
				if id < 0 {
					continue
				}
				ue := e.eps[id]
				k := r.Intn(6)
				if r.Chance(0.8) {
					k = int(ue.poolKey.Src.Port()) - 30000
				}
				err := e.pool.Remove(c13EpKey(k, symOf[k]), ue)
				synctest.Wait()
				out := "removed"
				if err != nil {
					out = "not-in-pool"
				}
				stats.Inc("ep.remove." + out)
				emit(fmt.Sprintf("ep remove %d %d", k, id), out)
			case c < 77:
				id := pickEp()
				if id < 0 {
					continue
				}
				_ = e.eps[id].Close()
				synctest.Wait()
				stats.Inc("ep.close")
				emit(fmt.Sprintf("ep close %d", id), "ok")
			case c < 88:
				dts := []int{50, 250, 200, 1000, 1900, 2100, 400, 29000, 31000, 125000, 249, 1}
				dt := dts[r.Intn(len(dts))]
				time.Sleep(time.Duration(dt) * time.Millisecond)
				synctest.Wait()
				stats.Inc("ep.adv")
				emit(fmt.Sprintf("ep adv %d", dt), "ok")
			case c < 93:
				d := r.Intn(2)
				nt := &componentdialer.NetworkType{L4Proto: consts.L4ProtoStr_UDP, IpVersion: consts.IpVersionStr_4, UdpHealthDomain: componentdialer.UdpHealthDomainData}
				n := e.pool.InvalidateDialerNetworkType(e.dialers[d], nt)
				synctest.Wait()
				stats.Inc("ep.inval")
				emit(fmt.Sprintf("ep inval %d", d), fmt.Sprintf("removed=%d", n))
			case c < 95:
				e.pool.Reset()
				synctest.Wait()
				stats.Inc("ep.resetpool")
				emit("ep resetpool", "ok")
			default:
				id := pickEp()
				if id < 0 {
					continue
				}
				j := r.Intn(4)
				a, b := c13PairAddrs(j)
				e.eps[id].TrackUdpConnStateTuplePair(a, b)
				stats.Inc("ep.track")
				emit(fmt.Sprintf("ep track %d %d", id, j), "ok")
			}
		}
		// quiesce: no traffic for longer than any NAT timeout -> the janitor closes what is left
		time.Sleep(130 * time.Second)
		synctest.Wait()
		emit("ep adv 130000", "ok")
	})
}

func c13RunEp(t *testing.T, stats *VStats) {
	s := VOpenStream("c13_ep")
	defer s.Close()
	r := NewVRand(VSeed() + 404)
	n := 120
	if VThorough() {
		n = 1500
	}
	n = VEnvInt("VERIF_C13_EP_SEQS", n)
	for i := 0; i < n; i++ {
		c13RunEpSeq(t, s, stats, r.Fork())
	}
	stats.Add("ep.ops", s.N)
}
