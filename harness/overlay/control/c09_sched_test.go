//go:build verif

package control

// C09 schedule replay (needs the verif-tagged yield points of commit a7e5501): real goroutines run
// the real beginUse / endUse / retire / retireCachedDnsForwarder / evictIdleDnsForwarders and the real
// pipelinedConn (readLoop, RoundTrip, closeWithErr); a scheduler parks every managed goroutine at
// every yield point and releases exactly one at a time, following a seeded random schedule.  Each
// released segment is one atomic operation of the code = one step of the Lean transition system
// (`F step t` / `P …` lines), and the observable state after every step is compared.

import (
	"bytes"
	"context"
	"encoding/binary"
	"fmt"
	"io"
	"runtime"
	"strconv"
	"strings"
	"sync"
	"testing"
	"time"

	dnsmessage "github.com/miekg/dns"
)

func c09Goid() int64 {
	var buf [64]byte
	n := runtime.Stack(buf[:], false)
	f := bytes.Fields(buf[:n])
	id, _ := strconv.ParseInt(string(f[1]), 10, 64)
	return id
}

// c09Sched parks managed goroutines at yield points.
type c09Sched struct {
	mu     sync.Mutex
	names  map[int64]int // goroutine id -> logical thread
	parked map[int]chan struct{}
	event  chan c09Ev
	// pipelined connections: readLoop / close loops are identified by connection, not by goroutine
	pipeGate func(name string, args []any) (int, bool)
}
type c09Ev struct {
	t  int
	at string // yield name, or "ret:<value>"
}

func newC09Sched() *c09Sched {
	return &c09Sched{names: map[int64]int{}, parked: map[int]chan struct{}{}, event: make(chan c09Ev, 256)}
}

func (h *c09Sched) hook(name string, args ...any) {
	h.mu.Lock()
	t, ok := h.names[c09Goid()]
	if !ok && h.pipeGate != nil {
		t, ok = h.pipeGate(name, args)
	}
	if !ok {
		h.mu.Unlock()
		return
	}
	ch := make(chan struct{})
	h.parked[t] = ch
	h.mu.Unlock()
	h.event <- c09Ev{t, name}
	<-ch
}

// spawn runs f as logical thread t and reports its return value as an event.
func (h *c09Sched) spawn(t int, f func() string) {
	started := make(chan struct{})
	go func() {
		id := c09Goid()
		h.mu.Lock()
		h.names[id] = t
		h.mu.Unlock()
		close(started)
		ret := f()
		h.mu.Lock()
		delete(h.names, id)
		h.mu.Unlock()
		h.event <- c09Ev{t, "ret:" + ret}
	}()
	<-started
}

func (h *c09Sched) release(t int) {
	h.mu.Lock()
	ch := h.parked[t]
	delete(h.parked, t)
	h.mu.Unlock()
	close(ch)
}

// next waits for the next event of thread t.
func (h *c09Sched) next(t int) string {
	select {
	case e := <-h.event:
		if e.t != t {
			return fmt.Sprintf("unexpected-event:%d@%s", e.t, e.at)
		}
		return e.at
	case <-time.After(10 * time.Second):
		return "stuck"
	}
}

var c09YieldPc = map[string]string{
	"dnsfwd.beginUse.afterCheck":     "b2",
	"dnsfwd.beginUse.afterInc":       "b3",
	"dnsfwd.beginUse.afterRecheck":   "b4",
	"dnsfwd.beginUse.afterDec":       "b5",
	"dnsfwd.endUse.afterDec":         "e2",
	"dnsfwd.endUse.afterRetiredLoad": "e2r",
	"dnsfwd.endUse.afterRecheck":     "e3",
	"dnsfwd.retire.afterStore":       "r2",
	"dnsfwd.retire.afterLoad":        "r3",
	"ret:true":                       "busy",
	"ret:false":                      "idle",
	"ret:":                           "idle",
}

func TestVerifC09Sched(t *testing.T) {
	st := VOpenStream("c09sched")
	defer st.Close()
	stat := NewVStats()
	r := NewVRand(VSeed() + 41)
	hist := 500
	if VThorough() {
		hist = 7000
	}
	for hi := 0; hi < hist; hi++ {
		n := 2 + r.Intn(3)
		w := newC09FwdWorld(n)
		h := newC09Sched()
		verifYieldHook = h.hook
		st.Emit(fmt.Sprintf("F reset %d recheck 1", n), w.obs("idle"))
		// thread states as the harness sees them: idle / busy / mid (parked inside a call)
		state := make([]string, n)
		for i := range state {
			state[i] = "idle"
		}
		pcName := func(at string) string {
			if p, ok := c09YieldPc[at]; ok {
				return p
			}
			return "?" + at
		}
		after := func(tt int, op string) {
			at := h.next(tt)
			pc := pcName(at)
			switch {
			case strings.HasPrefix(at, "ret:"):
				state[tt] = pc // idle or busy
			default:
				state[tt] = "mid"
			}
			st.Emit(op, w.obs(pc))
			stat.Inc("sched.at." + pc)
		}
		nops := 6 + r.Intn(40)
		retireBias := r.Chance(0.7)
		for i := 0; i < nops; i++ {
			tt := r.Intn(n)
			switch state[tt] {
			case "mid":
				h.release(tt)
				after(tt, fmt.Sprintf("F step %d", tt))
			case "busy":
				if r.Chance(0.3) {
					out := VRecover(func() string {
						_, _ = w.entry.forwarder.ForwardDNS(context.Background(), nil)
						return w.obs("busy")
					})
					st.Emit(fmt.Sprintf("F fwd %d", tt), out)
					continue
				}
				h.spawn(tt, func() string { w.entry.endUse(); return "" })
				after(tt, fmt.Sprintf("F start end %d", tt))
			default:
				kind := "begin"
				if retireBias && r.Chance(0.3) || r.Chance(0.05) {
					kind = []string{"retire", "retirec", "evict"}[r.Intn(3)]
				}
				stat.Inc("sched.call." + kind)
				switch kind {
				case "begin":
					h.spawn(tt, func() string { return fmt.Sprint(w.entry.beginUse()) })
				case "retire":
					h.spawn(tt, func() string { _ = w.entry.retire(); return "" })
				case "retirec":
					h.spawn(tt, func() string { w.c.retireCachedDnsForwarder(w.key, w.entry); return "" })
				case "evict":
					h.spawn(tt, func() string {
						w.entry.lastUsedNano.Store(1)
						w.c.evictIdleDnsForwarders(time.Now())
						return ""
					})
				}
				after(tt, fmt.Sprintf("F start %s %d", kind, tt))
			}
		}
		// drain: finish every call, end every use
		for pass := 0; pass < 2; pass++ {
			for tt := 0; tt < n; tt++ {
				for state[tt] == "mid" {
					h.release(tt)
					after(tt, fmt.Sprintf("F step %d", tt))
				}
				if state[tt] == "busy" {
					h.spawn(tt, func() string { w.entry.endUse(); return "" })
					after(tt, fmt.Sprintf("F start end %d", tt))
				}
			}
		}
		verifYieldHook = nil
		if w.entry.retired.Load() {
			stat.Inc("sched.hist.retired")
		}
	}
	stat.Write("c09sched")
}

var _ = binary.BigEndian
var _ = io.EOF
var _ = dnsmessage.TypeA
