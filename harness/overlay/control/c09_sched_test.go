//go:build verif

package control

// C09 schedule replay (needs the verif-tagged yield points of commit a7e5501): real goroutines run
// the real beginUse / endUse / retire / retireCachedDnsForwarder / evictIdleDnsForwarders and the real
// pipelinedConn (readLoop, RoundTrip, closeWithErr); a scheduler parks every managed goroutine at
// every yield point and releases exactly one at a time, following a seeded random schedule.  Each
// released segment is one atomic operation of the code = one step of the Lean transition system
// (`F step t` / `P …` lines), and the observable state after every step is compared.

import (
	"bytes"
	"context"
	"encoding/binary"
	"errors"
	"fmt"
	"io"
	"net/netip"
	"os"
	"runtime"
	"sort"
	"strconv"
	"strings"
	"sync"
	"sync/atomic"
	"testing"
	"time"

	"github.com/daeuniverse/dae/common/consts"
	componentdns "github.com/daeuniverse/dae/component/dns"
	dnsmessage "github.com/miekg/dns"
	"github.com/sirupsen/logrus"
)

func c09Goid() int64 {
	var buf [64]byte
	n := runtime.Stack(buf[:], false)
	f := bytes.Fields(buf[:n])
	id, _ := strconv.ParseInt(string(f[1]), 10, 64)
	return id
}

// c09Sched parks managed goroutines at yield points.
type c09Sched struct {
	mu     sync.Mutex
	names  map[int64]int // goroutine id -> logical thread
	parked map[int]chan struct{}
	event  chan c09Ev
	// pipelined connections: readLoop / close loops are identified by connection, not by goroutine
	pipeGate func(name string, args []any) (int, bool)
}
type c09Ev struct {
	t    int
	at   string // yield name, or "ret:<value>"
	arg  any
	arg0 any // first argument of the yield (the entry, for the dnsfwd.* points)
}

func newC09Sched() *c09Sched {
	return &c09Sched{names: map[int64]int{}, parked: map[int]chan struct{}{}, event: make(chan c09Ev, 256)}
}

func (h *c09Sched) hook(name string, args ...any) {
	h.mu.Lock()
	t, ok := h.names[c09Goid()]
	if !ok && h.pipeGate != nil {
		t, ok = h.pipeGate(name, args)
	}
	if !ok {
		h.mu.Unlock()
		return
	}
	ch := make(chan struct{})
	h.parked[t] = ch
	h.mu.Unlock()
	var arg, arg0 any
	if len(args) > 1 {
		arg = args[1]
	}
	if len(args) > 0 {
		arg0 = args[0]
	}
	h.event <- c09Ev{t, name, arg, arg0}
	<-ch
}

// spawn runs f as logical thread t and reports its return value as an event.
func (h *c09Sched) spawn(t int, f func() string) {
	started := make(chan struct{})
	go func() {
		id := c09Goid()
		h.mu.Lock()
		h.names[id] = t
		h.mu.Unlock()
		close(started)
		ret := f()
		h.mu.Lock()
		delete(h.names, id)
		h.mu.Unlock()
		h.event <- c09Ev{t, "ret:" + ret, nil, nil}
	}()
	<-started
}

func (h *c09Sched) release(t int) {
	h.mu.Lock()
	ch := h.parked[t]
	delete(h.parked, t)
	h.mu.Unlock()
	if ch != nil {
		close(ch)
	}
}

// releaseAll frees every parked goroutine (end of a history; no hook is installed any more).
func (h *c09Sched) releaseAll() {
	h.mu.Lock()
	for t, ch := range h.parked {
		close(ch)
		delete(h.parked, t)
	}
	h.mu.Unlock()
}

// c09Budget: how long the harness waits for a synchronisation event of the real code (a yield, a
// return, a frame) before it gives the history up.  Every such wait is on a channel the real code
// signals; the budget only bounds a machine that does not schedule the goroutine at all.  Its expiry is
// NEVER evidence about the property: the history is abandoned as "inconclusive" and counted.
var c09Budget = c09BudgetFromEnv()

// c09Inconclusive is the panic value that abandons a history whose real goroutines did not get to run
// within c09Budget.
type c09Inconclusive struct{ why string }

// number of abandoned histories in this run (a few are tolerated, then the stream stops early)
var c09Abandoned atomic.Int32

// c09RunHistory runs one seeded history.  An attempt that had to be abandoned (budget expired) is run
// again from the same seed, at most twice.  Three attempts abandoned at the SAME point are a definite
// observation - the real code does not progress there (lost wake-up, deadlock) - and are reported as a
// hang (`H hang` line, a violation with the history as replay).  Attempts abandoned at different points
// say the machine is not scheduling the goroutines: the stream stops and the check reports "no evidence".
// Returns false when the stream must stop.
func c09RunHistory(kind string, seed uint64, st *VStream, stat *VStats, run func(r *VRand) (bool, string)) bool {
	var wheres []string
	for attempt := 0; attempt < 3; attempt++ {
		before := st.N
		ok, where := run(NewVRand(seed))
		if ok {
			if attempt > 0 {
				stat.Inc(kind + ".recovered-by-retry")
			}
			return true
		}
		wheres = append(wheres, fmt.Sprintf("%s@op%d", where, st.N-before))
		if os.Getenv("VERIF_C09_DEBUG") != "" {
			fmt.Fprintf(os.Stderr, "c09 %s attempt %d abandoned: %s\n", kind, attempt, wheres[len(wheres)-1])
		}
	}
	if wheres[0] == wheres[1] && wheres[1] == wheres[2] {
		stat.Inc(kind + ".hang")
		st.Emit("H hang "+kind+" "+wheres[0], "hang: three attempts of the same history stopped at the same point")
		return false
	}
	stat.Inc(kind + ".inconclusive-unrecovered")
	return false
}

// me: the logical thread of the calling goroutine.
func (h *c09Sched) me() (int, bool) {
	h.mu.Lock()
	defer h.mu.Unlock()
	t, ok := h.names[c09Goid()]
	return t, ok
}

// nextEv waits for the next event of thread t.
func (h *c09Sched) nextEv(t int) c09Ev {
	select {
	case e := <-h.event:
		if e.t != t {
			e.at = fmt.Sprintf("unexpected-event:%d@%s", e.t, e.at)
		}
		return e
	case <-time.After(c09Budget):
		panic(c09Inconclusive{fmt.Sprintf("no event of goroutine %d within %v", t, c09Budget)})
	}
}

// next waits for the next event of thread t.
func (h *c09Sched) next(t int) string {
	select {
	case e := <-h.event:
		if e.t != t {
			return fmt.Sprintf("unexpected-event:%d@%s", e.t, e.at)
		}
		return e.at
	case <-time.After(c09Budget):
		panic(c09Inconclusive{fmt.Sprintf("no event of goroutine %d within %v", t, c09Budget)})
	}
}

var c09YieldPc = map[string]string{
	"dnsfwd.beginUse.afterCheck":     "b2",
	"dnsfwd.beginUse.afterInc":       "b3",
	"dnsfwd.beginUse.afterRecheck":   "b4",
	"dnsfwd.beginUse.afterDec":       "b5",
	"dnsfwd.endUse.afterDec":         "e2",
	"dnsfwd.endUse.afterRetiredLoad": "e2r",
	"dnsfwd.endUse.afterRecheck":     "e3",
	"dnsfwd.retire.afterStore":       "r2",
	"dnsfwd.retire.afterLoad":        "r3",
	"ret:true":                       "busy",
	"ret:false":                      "idle",
	"ret:":                           "idle",
}

func TestVerifC09Sched(t *testing.T) {
	st := VOpenStream("c09sched")
	defer st.Close()
	stat := NewVStats()
	r := NewVRand(VSeed() + 41)
	hist := 3000
	if VThorough() {
		hist = 100000
	}
	for hi := 0; hi < hist; hi++ {
		if !c09RunHistory("sched", r.U64(), st, stat, func(rr *VRand) (bool, string) { return c09SchedHistory(rr, st, stat) }) {
			break
		}
	}
	stat.Write("c09sched")
}

func c09SchedHistory(r *VRand, st *VStream, stat *VStats) (ok bool, where string) {
	ok = true
	{
		n := 2 + r.Intn(3)
		w := newC09FwdWorld(n)
		h := newC09Sched()
		defer func() {
			verifYieldHook = nil
			h.releaseAll()
			if e := recover(); e != nil {
				inc, isInc := e.(c09Inconclusive)
				if !isInc {
					panic(e)
				}
				c09Abandoned.Add(1)
				stat.Inc("sched.abandoned-attempt")
				st.Emit("X inconclusive sched "+strings.ReplaceAll(inc.why, " ", "_"), "inconclusive")
				ok, where = false, strings.ReplaceAll(inc.why, " ", "_")
			}
		}()
		verifYieldHook = h.hook
		st.Emit(fmt.Sprintf("F reset %d recheck 1", n), w.obs("idle"))
		// thread states as the harness sees them: idle / busy / mid (parked inside a call)
		state := make([]string, n)
		for i := range state {
			state[i] = "idle"
		}
		pcName := func(at string) string {
			if p, ok := c09YieldPc[at]; ok {
				return p
			}
			return "?" + at
		}
		after := func(tt int, op string) {
			at := h.next(tt)
			for !strings.HasPrefix(at, "ret:") && c09YieldPc[at] == "" {
				// a yield point this harness does not know (added later to /repo): transparent
				h.release(tt)
				at = h.next(tt)
			}
			pc := pcName(at)
			switch {
			case strings.HasPrefix(at, "ret:"):
				state[tt] = pc // idle or busy
			default:
				state[tt] = "mid"
			}
			w.busy[tt] = state[tt] == "busy"
			st.Emit(op, w.obs(pc))
			stat.Inc("sched.at." + pc)
		}
		nops := 6 + r.Intn(40)
		retireBias := r.Chance(0.7)
		for i := 0; i < nops; i++ {
			tt := r.Intn(n)
			switch state[tt] {
			case "mid":
				h.release(tt)
				after(tt, fmt.Sprintf("F step %d", tt))
			case "busy":
				if r.Chance(0.3) {
					out := VRecover(func() string {
						_, _ = w.entry.forwarder.ForwardDNS(context.Background(), nil)
						return w.obs("busy")
					})
					st.Emit(fmt.Sprintf("F fwd %d", tt), out)
					continue
				}
				w.busy[tt] = false
				h.spawn(tt, func() string { w.entry.endUse(); return "" })
				after(tt, fmt.Sprintf("F start end %d", tt))
			default:
				kind := "begin"
				if retireBias && r.Chance(0.3) || r.Chance(0.05) {
					kind = []string{"retire", "retirec", "evict"}[r.Intn(3)]
				}
				stat.Inc("sched.call." + kind)
				switch kind {
				case "begin":
					h.spawn(tt, func() string { return fmt.Sprint(w.entry.beginUse()) })
				case "retire":
					h.spawn(tt, func() string { _ = w.entry.retire(); return "" })
				case "retirec":
					h.spawn(tt, func() string { w.c.retireCachedDnsForwarder(w.key, w.entry); return "" })
				case "evict":
					h.spawn(tt, func() string {
						w.entry.lastUsedNano.Store(1)
						w.c.evictIdleDnsForwarders(time.Now())
						return ""
					})
				}
				after(tt, fmt.Sprintf("F start %s %d", kind, tt))
			}
		}
		// drain: finish every call, end every use
		for pass := 0; pass < 2; pass++ {
			for tt := 0; tt < n; tt++ {
				for state[tt] == "mid" {
					h.release(tt)
					after(tt, fmt.Sprintf("F step %d", tt))
				}
				if state[tt] == "busy" {
					w.busy[tt] = false
					h.spawn(tt, func() string { w.entry.endUse(); return "" })
					after(tt, fmt.Sprintf("F start end %d", tt))
				}
			}
		}
		if w.entry.retired.Load() {
			stat.Inc("sched.hist.retired")
		}
	}
	return
}


// ------------------------------------------------------------------------------------------
// stream c09loop: forwardWithDialArg / getOrCreateDnsForwarder / retireAllDnsForwarders / evictIdleDnsForwarders
// over every forwarder created for one cache key (Lean model `Loop`), by schedule replay: the goroutines are
// parked at the yield points of the entry's methods and, in addition, inside dnsForwarderFactory and inside
// ForwardDNS (both are the harness's own code, reached through the production hooks of the controller).

type c09LoopFwd struct {
	idx        int
	w          *c09LoopWorld
	closes     atomic.Int32
	inFlight   atomic.Int32
	afterClose atomic.Int32
}

func (f *c09LoopFwd) ForwardDNS(ctx context.Context, data []byte) (*dnsmessage.Msg, error) {
	if f.closes.Load() > 0 {
		f.afterClose.Add(1)
	}
	f.inFlight.Add(1)
	f.w.h.hook("c09loop.forward", f)
	f.inFlight.Add(-1)
	t, _ := f.w.h.me()
	f.w.mu.Lock()
	res := f.w.script[t]
	f.w.mu.Unlock()
	switch res {
	case "trunc":
		return &dnsmessage.Msg{}, ErrDNSTruncated
	case "fail":
		return nil, errors.New("connection reset by peer")
	case "cancel":
		return nil, context.Canceled
	}
	return &dnsmessage.Msg{}, nil
}
func (f *c09LoopFwd) Close() error { f.closes.Add(1); return nil }

type c09LoopWorld struct {
	c       *DnsController
	h       *c09Sched
	mu      sync.Mutex
	fwds    []*c09LoopFwd
	entries map[int]*cachedDnsForwarder // forwarder index -> the entry that wraps it, once seen
	script  map[int]string
	up      *componentdns.Upstream
	da      *dialArgument
	key     dnsForwarderKey
}

func (w *c09LoopWorld) see(e *cachedDnsForwarder) int {
	if e == nil {
		return -1
	}
	f, ok := e.forwarder.(*c09LoopFwd)
	if !ok {
		return -1
	}
	w.mu.Lock()
	w.entries[f.idx] = e
	w.mu.Unlock()
	return f.idx
}

func (w *c09LoopWorld) cached() (int, *cachedDnsForwarder) {
	if v, ok := w.c.dnsForwarderCache.Load(w.key); ok {
		if e, ok := v.(*cachedDnsForwarder); ok {
			return w.see(e), e
		}
	}
	return -1, nil
}

func (w *c09LoopWorld) obs(at string, on int, ret string) string {
	ci, _ := w.cached()
	cs, es := "-", "-"
	if ci >= 0 {
		cs = strconv.Itoa(ci)
	}
	if on >= 0 {
		es = strconv.Itoa(on)
	}
	w.mu.Lock()
	defer w.mu.Unlock()
	var fw []string
	for i, f := range w.fwds {
		inf, rt := int32(0), false
		if e := w.entries[i]; e != nil {
			inf, rt = e.inFlight.Load(), e.retired.Load()
		}
		fw = append(fw, fmt.Sprintf("%d/%s/%d/%d/%d", inf, c09B(rt), f.closes.Load(), f.inFlight.Load(), f.afterClose.Load()))
	}
	return fmt.Sprintf("at=%s e=%s cached=%s ret=%s fw=%s", at, es, cs, ret, strings.Join(fw, ","))
}

func TestVerifC09Loop(t *testing.T) {
	st := VOpenStream("c09loop")
	defer st.Close()
	stat := NewVStats()
	r := NewVRand(VSeed() + 47)
	hist := 2500
	if VThorough() {
		hist = 40000
	}
	for hi := 0; hi < hist; hi++ {
		if !c09RunHistory("loop", r.U64(), st, stat, func(rr *VRand) (bool, string) { return c09LoopHistory(rr, st, stat) }) {
			break
		}
	}
	stat.Write("c09loop")
}

func c09LoopHistory(r *VRand, st *VStream, stat *VStats) (ok bool, where string) {
	ok = true
	n := 2 + r.Intn(3)
	c := &DnsController{dnsControllerStore: &dnsControllerStore{prefWaitRegistry: newPreferenceWaitRegistry()}}
	c.log = c09Quiet()
	c.dnsForwarderIdleTTL = time.Millisecond
	h := newC09Sched()
	w := &c09LoopWorld{c: c, h: h, entries: map[int]*cachedDnsForwarder{}, script: map[int]string{},
		up: &componentdns.Upstream{Scheme: componentdns.UpstreamScheme_UDP, Hostname: "dns.example", Port: 53},
		da: &dialArgument{l4proto: consts.L4ProtoStr_UDP, ipversion: consts.IpVersionStr_4, bestTarget: netip.MustParseAddrPort("192.0.2.53:53")}}
	w.key = newDnsForwarderKey(w.up, w.da)
	oldFactory := dnsForwarderFactory
	defer func() {
		verifYieldHook = nil
		h.releaseAll()
		dnsForwarderFactory = oldFactory
		if e := recover(); e != nil {
			inc, isInc := e.(c09Inconclusive)
			if !isInc {
				panic(e)
			}
			c09Abandoned.Add(1)
			stat.Inc("loop.abandoned-attempt")
			st.Emit("X inconclusive loop "+strings.ReplaceAll(inc.why, " ", "_"), "inconclusive")
			ok, where = false, strings.ReplaceAll(inc.why, " ", "_")
		}
	}()
	dnsForwarderFactory = func(up *componentdns.Upstream, da dialArgument, _ *logrus.Logger) (DnsForwarder, error) {
		w.mu.Lock()
		f := &c09LoopFwd{idx: len(w.fwds), w: w}
		w.fwds = append(w.fwds, f)
		w.mu.Unlock()
		h.hook("c09loop.factory", f)
		return f, nil
	}
	verifYieldHook = h.hook
	st.Emit(fmt.Sprintf("L reset %d", n), w.obs("idle", -1, "-"))
	state := make([]string, n) // idle / mid
	for i := range state {
		state[i] = "idle"
	}
	after := func(tt int, op string) {
		ev := h.nextEv(tt)
		for !strings.HasPrefix(ev.at, "ret:") && c09YieldPc[ev.at] == "" && !strings.HasPrefix(ev.at, "c09loop.") && !strings.HasPrefix(ev.at, "unexpected") {
			h.release(tt) // a yield point this harness does not know: transparent
			ev = h.nextEv(tt)
		}
		at, on, ret := "?"+ev.at, -1, "-"
		switch {
		case strings.HasPrefix(ev.at, "ret:"):
			at, ret = "idle", strings.TrimPrefix(ev.at, "ret:")
			state[tt] = "idle"
		case ev.at == "c09loop.factory":
			at, on = "factory", ev.arg0.(*c09LoopFwd).idx
			state[tt] = "mid"
		case ev.at == "c09loop.forward":
			at, on = "busy", ev.arg0.(*c09LoopFwd).idx
			state[tt] = "mid"
		case c09YieldPc[ev.at] != "":
			at = c09YieldPc[ev.at]
			if e, isEntry := ev.arg0.(*cachedDnsForwarder); isEntry {
				on = w.see(e)
			}
			state[tt] = "mid"
		default:
			state[tt] = "mid"
		}
		st.Emit(op, w.obs(at, on, ret))
		stat.Inc("loop.at." + at)
		if ret != "-" {
			stat.Inc("loop.ret." + ret)
		}
	}
	start := func(tt int) {
		switch x := r.Intn(100); {
		case x < 76:
			res := []string{"ok", "ok", "ok", "ok", "fail", "fail", "fail", "trunc", "cancel", "fail"}[r.Intn(10)]
			w.mu.Lock()
			w.script[tt] = res
			w.mu.Unlock()
			stat.Inc("loop.call." + res)
			h.spawn(tt, func() string {
				_, err := c.forwardWithDialArg(context.Background(), w.up, w.da, []byte{0, 1})
				switch {
				case err == nil:
					return "ok"
				case errors.Is(err, ErrDNSTruncated):
					return "trunc"
				case errors.Is(err, context.Canceled):
					return "cancel"
				case strings.Contains(err.Error(), "retired before request could start"):
					return "retired-twice"
				}
				return "err"
			})
			after(tt, fmt.Sprintf("L call %d %s", tt, res))
		case x < 88:
			stat.Inc("loop.call.reset")
			h.spawn(tt, func() string { _ = c.ResetDnsForwarders(); return "-" })
			after(tt, fmt.Sprintf("L reset-fwd %d", tt))
		default:
			stat.Inc("loop.call.evict")
			h.spawn(tt, func() string {
				if _, e := w.cached(); e != nil {
					e.lastUsedNano.Store(1) // idle for ever: the model's evictor always finds the entry idle
				}
				c.evictIdleDnsForwarders(time.Now())
				return "-"
			})
			after(tt, fmt.Sprintf("L evict %d", tt))
		}
	}
	nops := 8 + r.Intn(50)
	for i := 0; i < nops; i++ {
		tt := r.Intn(n)
		if state[tt] == "mid" {
			h.release(tt)
			after(tt, fmt.Sprintf("L step %d", tt))
		} else {
			start(tt)
		}
	}
	// drain: every call returns
	for pass := 0; pass < 3; pass++ {
		for tt := 0; tt < n; tt++ {
			for guard := 0; state[tt] == "mid" && guard < 40; guard++ {
				h.release(tt)
				after(tt, fmt.Sprintf("L step %d", tt))
			}
		}
	}
	// quiescent: every forwarder but the cached one has been closed exactly once (oracle on the implementation)
	ci, _ := w.cached()
	for i, f := range w.fwds {
		switch {
		case f.closes.Load() > 1:
			st.Emit(fmt.Sprintf("L life forwarder_%d_closed_%d_times", i, f.closes.Load()), "violated")
		case f.afterClose.Load() > 0:
			st.Emit(fmt.Sprintf("L life an_exchange_was_started_on_forwarder_%d_after_Close()", i), "violated")
		case i != ci && f.closes.Load() == 0:
			st.Emit(fmt.Sprintf("L life forwarder_%d_left_the_cache_(or_never_entered_it)_and_was_never_closed", i), "violated")
		case i == ci && f.closes.Load() != 0:
			st.Emit(fmt.Sprintf("L life forwarder_%d_is_in_the_cache_and_closed", i), "violated")
		}
		stat.Inc("loop.forwarders")
	}
	stat.Add("loop.forwarders-per-history", len(w.fwds))
	return
}

// ------------------------------------------------------------------------------------------
// stream c09pipe: pipelined connections sharing the global response-slot pool

// c09PipeConn is the upstream side of one pipelined connection.
type c09PipeConn struct {
	idx    int
	in     chan []byte   // frames to be read by readLoop
	idle   chan struct{} // readLoop is blocked in Read with nothing buffered
	out    chan []byte   // frames written by RoundTrip
	closed chan struct{}
	once   sync.Once
	buf    []byte
	eof    chan struct{}

	gateArmed   atomic.Bool
	gateEntered chan []byte
	gateResult  chan error
}

func newC09PipeConn(idx int) *c09PipeConn {
	return &c09PipeConn{idx: idx, in: make(chan []byte, 4), idle: make(chan struct{}, 64), out: make(chan []byte, 64),
		closed: make(chan struct{}), eof: make(chan struct{}), gateEntered: make(chan []byte, 1), gateResult: make(chan error, 1)}
}
func (c *c09PipeConn) Read(b []byte) (int, error) {
	for len(c.buf) == 0 {
		select {
		case p := <-c.in:
			c.buf = p
			continue
		default:
		}
		select {
		case c.idle <- struct{}{}:
		default:
		}
		select {
		case p := <-c.in:
			c.buf = p
		case <-c.closed:
			return 0, io.ErrClosedPipe
		case <-c.eof:
			return 0, io.EOF
		}
	}
	n := copy(b, c.buf)
	c.buf = c.buf[n:]
	return n, nil
}
func (c *c09PipeConn) Write(b []byte) (int, error) {
	select {
	case <-c.closed:
		return 0, io.ErrClosedPipe
	default:
	}
	if c.gateArmed.CompareAndSwap(true, false) {
		// a slow write: the harness sees the request registered but not yet written, and decides how it ends
		c.gateEntered <- append([]byte(nil), b...)
		if err := <-c.gateResult; err != nil {
			return 0, err
		}
	}
	c.out <- append([]byte(nil), b...)
	return len(b), nil
}
func (c *c09PipeConn) Close() error                     { c.once.Do(func() { close(c.closed) }); return nil }
func (c *c09PipeConn) SetDeadline(time.Time) error      { return nil }
func (c *c09PipeConn) SetReadDeadline(time.Time) error  { return nil }
func (c *c09PipeConn) SetWriteDeadline(time.Time) error { return nil }

// c09FlipCtx is a context that is alive at the first Err() (RoundTrip's entry check) and over at the second (its
// check after registering, in front of the write); the second call stops until the harness lets it go, so the
// harness can look at the registration and send frames for its id meanwhile.
type c09FlipCtx struct {
	context.Context
	n       atomic.Int32
	entered chan struct{}
	goOn    chan struct{}
}

func (c *c09FlipCtx) Err() error {
	switch c.n.Add(1) {
	case 1:
		return nil
	case 2:
		c.entered <- struct{}{}
		<-c.goOn
	}
	return context.Canceled
}

// c09PipeWait: see c09Budget (same rule: expiry abandons the history, it is not an observation)
var c09PipeWait = c09Budget

// lost abandons the current history.
func c09Lost(why string) { panic(c09Inconclusive{why}) }

func c09PipeQuery(tag int) []byte {
	m := new(dnsmessage.Msg)
	m.SetQuestion(fmt.Sprintf("t%d.test.", tag), dnsmessage.TypeA)
	b, _ := m.Pack()
	return b
}
func c09PipeFrame(id, tag int) []byte {
	m := new(dnsmessage.Msg)
	m.SetQuestion(fmt.Sprintf("t%d.test.", tag), dnsmessage.TypeA)
	m.Response = true
	m.Id = uint16(id)
	b, _ := m.Pack()
	out := make([]byte, 2+len(b))
	binary.BigEndian.PutUint16(out, uint16(len(b)))
	copy(out[2:], b)
	return out
}
func c09PipeTag(m *dnsmessage.Msg) int {
	var t int
	if m != nil && len(m.Question) > 0 {
		fmt.Sscanf(m.Question[0].Name, "t%d.test.", &t)
	}
	return t
}

type c09PipeRes struct {
	msg *dnsmessage.Msg
	err error
}

type c09PipeWaiter struct {
	c      int
	id     int
	slot   int
	state  string // idle writing waiting cancelled done
	boxed  bool   // a value was put into its slot while it was still writing
	cancel context.CancelFunc
	done   chan c09PipeRes
}

type c09PipeWorld struct {
	st     *VStream
	stat   *VStats
	h      *c09Sched
	conns  []*c09PipeConn
	pcs    []*pipelinedConn
	ws     []*c09PipeWaiter
	slots  map[*responseSlot]int
	dead   []bool      // harness view: connection closed
	holder map[int]int // logical holder thread -> slot token it is parked with
}

func (w *c09PipeWorld) slotTok(s *responseSlot) int {
	if t, ok := w.slots[s]; ok {
		return t
	}
	t := len(w.slots)
	w.slots[s] = t
	return t
}

func (w *c09PipeWorld) resStr(r c09PipeRes, conn int) string {
	switch {
	case r.err == nil && r.msg == nil:
		c09Lost("a RoundTrip did not return within the budget")
		return ""
	case r.err == nil:
		tag := c09PipeTag(r.msg)
		return fmt.Sprintf("msg:%d.%d.%d", r.msg.Id, tag, tag/1000)
	case r.err == io.ErrUnexpectedEOF:
		return "eof"
	case r.err == context.Canceled || r.err == context.DeadlineExceeded:
		return "ctx"
	default:
		return "write-err"
	}
}

// waitIdle: readLoop of connection c is blocked reading (or the connection is closed).
func (w *c09PipeWorld) waitIdle(c int) {
	select {
	case <-w.conns[c].idle:
	case <-w.conns[c].closed:
	case <-time.After(c09PipeWait):
		c09Lost("readLoop did not come back to Read within the budget")
	}
}

// finishWaiter: the waiter's RoundTrip has returned: model steps take (when it received a value) + leave.
func (w *c09PipeWorld) finishWaiter(i int, r c09PipeRes) {
	wt := w.ws[i]
	res := w.resStr(r, wt.c)
	if r.err == nil || r.err == io.ErrUnexpectedEOF {
		got := res
		if res == "eof" {
			got = "nil"
		}
		w.st.Emit(fmt.Sprintf("P take %d", i), "got="+got)
	}
	w.st.Emit(fmt.Sprintf("P leave %d", i), "pc=done:"+res)
	wt.state = "done"
	w.stat.Inc("pipe.result." + strings.SplitN(res, ":", 2)[0])
}

// pendingOn: slots still registered in pending of connection c (what closeWithErr will visit).
func (w *c09PipeWorld) pendingOn(c int) int {
	n := 0
	for _, wt := range w.ws {
		if (wt.state == "waiting" || wt.state == "cancelled" || wt.state == "writing" || wt.state == "aborting") && wt.c == c && w.pcs[c].pending[wt.id].Load() != nil {
			n++
		}
	}
	return n
}

func (w *c09PipeWorld) waitEvent() c09Ev {
	select {
	case e := <-w.h.event:
		return e
	case <-time.After(c09PipeWait):
		c09Lost("no yield of the closing goroutine within the budget")
		return c09Ev{}
	}
}

// runCloser: the goroutine executing closeWithErr(c) stops at k afterSwap yields; every yield is one
// `closeswap` + `set` pair of the model.
func (w *c09PipeWorld) runCloser(c, k int) {
	for n := 0; n < k; n++ {
		ev := w.waitEvent()
		if ev.at != "dnspipe.close.afterSwap" {
			w.st.Emit(fmt.Sprintf("P closeswap %d -1", c), "unexpected:"+ev.at)
			return
		}
		slot := w.slotTok(ev.arg.(*responseSlot))
		id := -1
		for _, wt := range w.ws {
			if wt.slot == slot && wt.c == c && (wt.state == "waiting" || wt.state == "cancelled" || wt.state == "writing" || wt.state == "aborting") {
				id = wt.id
				if wt.state == "writing" {
					wt.boxed = true
				}
			}
		}
		w.st.Emit(fmt.Sprintf("P closeswap %d %d", c, id), fmt.Sprintf("held=%d", slot))
		w.stat.Inc("pipe.closeswap")
		w.h.release(2000 + c)
		// slot.set(nil) happens now; a waiter blocked on that slot returns with ErrUnexpectedEOF
		w.st.Emit(fmt.Sprintf("P set %d", slot), "box=nil")
		for i, wt := range w.ws {
			if wt.state == "waiting" && wt.slot == slot {
				select {
				case res := <-wt.done:
					w.finishWaiter(i, res)
				case <-time.After(c09PipeWait):
					c09Lost("a waiter woken by closeWithErr did not return within the budget")
				}
			}
		}
	}
}

func TestVerifC09Pipe(t *testing.T) {
	st := VOpenStream("c09pipe")
	defer st.Close()
	stat := NewVStats()
	r := NewVRand(VSeed() + 53)
	hist := 2000
	if VThorough() {
		hist = 70000
	}
	// idBitmap.Allocate against the model's allocate
	for i := 0; i < 40; i++ {
		b := newIdBitmap()
		var used []string
		n := r.Intn(200)
		if i%8 == 0 {
			n = 64 * (1 + r.Intn(3))
		}
		live := map[int]bool{}
		for k := 0; k < n; k++ {
			id, err := b.Allocate()
			if err == nil {
				live[int(id)] = true
			}
			if r.Chance(0.3) && len(live) > 0 {
				ids := make([]int, 0, len(live))
				for x := range live {
					ids = append(ids, x)
				}
				sort.Ints(ids)
				x := ids[r.Intn(len(ids))]
				b.Release(uint16(x))
				delete(live, x)
			}
		}
		ids := make([]int, 0, len(live))
		for x := range live {
			ids = append(ids, x)
		}
		sort.Ints(ids)
		for _, x := range ids {
			used = append(used, strconv.Itoa(x))
		}
		next := int(b.next.Load())
		u := "-"
		if len(used) > 0 {
			u = strings.Join(used, ",")
		}
		id, err := b.Allocate()
		out := fmt.Sprintf("id=%d", id)
		if err != nil {
			out = "id=none"
		}
		st.Emit(fmt.Sprintf("P alloc %d %s", next, u), out)
		stat.Inc("pipe.alloc")
	}
	for hi := 0; hi < hist; hi++ {
		if !c09RunHistory("pipe", r.U64(), st, stat, func(rr *VRand) (bool, string) { return c09PipeScenario(rr, st, stat) }) {
			break
		}
	}
	stat.Write("c09pipe")
}

func c09PipeScenario(r *VRand, st *VStream, stat *VStats) (ok bool, where string) {
	ok = true
	var world *c09PipeWorld
	defer func() {
		if e := recover(); e != nil {
			verifYieldHook = nil
			if world != nil {
				world.h.releaseAll()
			}
			if inc, isInc := e.(c09Inconclusive); isInc {
				c09Abandoned.Add(1)
				stat.Inc("pipe.abandoned-attempt")
				st.Emit("X inconclusive pipe "+strings.ReplaceAll(inc.why, " ", "_"), "inconclusive")
				ok, where = false, strings.ReplaceAll(inc.why, " ", "_")
				return
			}
			st.Emit("P harness", fmt.Sprintf("crash: %v", e))
		}
	}()
	{
		w := &c09PipeWorld{st: st, stat: stat, h: newC09Sched(), slots: map[*responseSlot]int{}, holder: map[int]int{}}
		world = w
		nconn := 1 + r.Intn(2)
		for c := 0; c < nconn; c++ {
			w.conns = append(w.conns, newC09PipeConn(c))
		}
		// park readLoops and closers at their afterSwap yields
		w.h.pipeGate = func(name string, args []any) (int, bool) {
			// only the two yield points this replay knows are parked; any other (added later) is transparent
			if name != "dnspipe.readLoop.afterSwap" && name != "dnspipe.close.afterSwap" || len(args) < 2 {
				return 0, false
			}
			pc, ok := args[0].(*pipelinedConn)
			if _, ok2 := args[1].(*responseSlot); !ok || !ok2 {
				return 0, false // arguments of another shape: not ours
			}
			for c, p := range w.pcs {
				if p == pc {
					if name == "dnspipe.readLoop.afterSwap" {
						return 1000 + c, true
					}
					return 2000 + c, true
				}
			}
			return 0, false
		}
		verifYieldHook = w.h.hook
		for c := 0; c < nconn; c++ {
			w.pcs = append(w.pcs, newPipelinedConn(w.conns[c]))
			w.dead = append(w.dead, false)
			w.waitIdle(c)
		}
		st.Emit("P reset released", "ok")
		nw := 2 + r.Intn(4)
		for i := 0; i < nw; i++ {
			w.ws = append(w.ws, &c09PipeWaiter{state: "idle", slot: -1})
		}
		held := map[int]bool{}            // connections whose readLoop is parked holding a slot
		writing := map[int]int{}          // connection -> waiter whose request write is being held
		aborting := map[int]*c09FlipCtx{} // waiter -> its context, stopped in the check in front of the write
		tagSeq := 0
		nops := 6 + r.Intn(26)
		for op := 0; op < nops; op++ {
			k := r.Intn(12)
			if k == 9 && !r.Chance(0.25) {
				k = r.Intn(9)
			}
			switch k {
			case 0, 1, 2: // start a RoundTrip
				i := r.Intn(nw)
				c := r.Intn(nconn)
				if w.ws[i].state != "idle" || w.dead[c] {
					continue
				}
				wt := w.ws[i]
				ctx, cancel := context.WithCancel(context.Background())
				wt.cancel, wt.c, wt.done = cancel, c, make(chan c09PipeRes, 1)
				tagSeq++
				tag := c*1000 + tagSeq
				pcn := w.pcs[c]
				if _, busy := writing[c]; busy {
					continue // writeMu is held by the slow write
				}
				slow := r.Chance(0.25)
				if slow {
					w.conns[c].gateArmed.Store(true)
				}
				wt.boxed = false
				go func() {
					m, err := pcn.RoundTrip(ctx, c09PipeQuery(tag))
					wt.done <- c09PipeRes{m, err}
				}()
				if slow {
					select {
					case frame := <-w.conns[c].gateEntered:
						wt.id = int(binary.BigEndian.Uint16(frame[2:4]))
						wt.slot = w.slotTok(pcn.pending[wt.id].Load())
						wt.state = "writing"
						writing[c] = i
						st.Emit(fmt.Sprintf("P start %d %d %d %d", i, c, wt.id, wt.slot), "ok")
						stat.Inc("pipe.start.slow-write")
					case <-time.After(c09PipeWait):
						c09Lost("a RoundTrip did not reach its write within the budget")
					}
					continue
				}
				select {
				case frame := <-w.conns[c].out:
					wt.id = int(binary.BigEndian.Uint16(frame[2:4]))
					wt.slot = w.slotTok(pcn.pending[wt.id].Load())
					wt.state = "waiting"
					st.Emit(fmt.Sprintf("P start %d %d %d %d", i, c, wt.id, wt.slot), "ok")
					stat.Inc("pipe.start")
				case <-time.After(c09PipeWait):
					c09Lost("a RoundTrip did not write its request within the budget")
				}
			case 3, 4, 5: // the upstream sends a frame
				c := r.Intn(nconn)
				if w.dead[c] || held[c] {
					continue
				}
				// mostly an ID in flight on this connection; sometimes a finished / foreign / out-of-range one
				id := r.Intn(8)
				var live []int
				for _, wt := range w.ws {
					if wt.c == c && wt.state != "idle" {
						live = append(live, wt.id)
					}
				}
				if len(live) > 0 && r.Chance(0.8) {
					id = live[r.Intn(len(live))]
				}
				if r.Chance(0.05) {
					id = 4096 + r.Intn(100)
				}
				tagSeq++
				tag := c*1000 + tagSeq
				for len(w.conns[c].idle) > 0 {
					<-w.conns[c].idle
				}
				w.conns[c].in <- c09PipeFrame(id, tag)
				select {
				case ev := <-w.h.event:
					slot := w.slotTok(ev.arg.(*responseSlot))
					held[c] = true
					w.holder[1000+c] = slot
					st.Emit(fmt.Sprintf("P recv %d %d %d", c, id, tag), fmt.Sprintf("held=%d", slot))
					stat.Inc("pipe.recv.held")
				case <-w.conns[c].idle:
					st.Emit(fmt.Sprintf("P recv %d %d %d", c, id, tag), "held=-")
					stat.Inc("pipe.recv.dropped")
				case <-time.After(c09PipeWait):
					c09Lost("readLoop neither parked nor went back to Read within the budget")
				}
			case 6, 7: // the parked readLoop performs slot.set
				var cs []int
				for c := range held {
					if held[c] {
						cs = append(cs, c)
					}
				}
				if len(cs) == 0 {
					continue
				}
				c := cs[r.Intn(len(cs))]
				slot := w.holder[1000+c]
				held[c] = false
				w.h.release(1000 + c)
				w.waitIdle(c)
				delivered := false
				for _, wt := range w.ws {
					if wt.state == "waiting" && wt.slot == slot {
						delivered = true
					}
					if wt.state == "writing" && wt.slot == slot {
						wt.boxed = true
					}
				}
				// nobody waits on that slot any more: look into its channel (the send has happened once the
				// channel is non-empty; a non-blocking send into an empty one-element channel always succeeds)
				val := "none"
				if !delivered {
					for s, tok := range w.slots {
						if tok != slot {
							continue
						}
						deadline := time.Now().Add(c09PipeWait)
						for {
							if !time.Now().Before(deadline) {
								c09Lost("the released readLoop did not perform slot.set within the budget")
							}
							select {
							case m := <-s.result:
								if m == nil {
									val = "nil"
								} else {
									tag := c09PipeTag(m)
									val = fmt.Sprintf("msg:%d.%d.%d", m.Id, tag, tag/1000)
								}
								s.result <- m // put it back
							default:
								time.Sleep(200 * time.Microsecond)
								continue
							}
							break
						}
					}
				}
				if delivered {
					// the waiter may already have taken it: report what it got
					for i, wt := range w.ws {
						if wt.state == "waiting" && wt.slot == slot {
							select {
							case res := <-wt.done:
								got := w.resStr(res, wt.c)
								st.Emit(fmt.Sprintf("P set %d", slot), "box="+got)
								w.finishWaiter(i, res)
							case <-time.After(c09PipeWait):
								c09Lost("a waiter whose slot was set did not return within the budget")
							}
						}
					}
				} else {
					st.Emit(fmt.Sprintf("P set %d", slot), "box="+val)
				}
				stat.Inc("pipe.set")
			case 11: // a RoundTrip whose context ends between its registration and its write
				if len(aborting) > 0 && r.Chance(0.6) {
					var is []int
					for i := range aborting {
						is = append(is, i)
					}
					sort.Ints(is)
					i := is[r.Intn(len(is))]
					fc := aborting[i]
					delete(aborting, i)
					wt := w.ws[i]
					close(fc.goOn)
					st.Emit(fmt.Sprintf("P abort %d", i), fmt.Sprintf("pc=leaving:%d.%d.%d.0.ctx", wt.c, wt.id, wt.slot))
					stat.Inc("pipe.abort-before-write")
					select {
					case res := <-wt.done:
						st.Emit(fmt.Sprintf("P leave %d", i), "pc=done:"+w.resStr(res, wt.c))
						wt.state = "done"
					case <-time.After(c09PipeWait):
						c09Lost("a RoundTrip whose context ended before the write did not return within the budget")
					}
					continue
				}
				i := r.Intn(nw)
				c := r.Intn(nconn)
				if w.ws[i].state != "idle" || w.dead[c] {
					continue
				}
				wt := w.ws[i]
				known := map[int]bool{}
				for _, o := range w.ws {
					if o.c == c && (o.state == "waiting" || o.state == "writing" || o.state == "cancelled" || o.state == "aborting") {
						known[o.id] = true
					}
				}
				fc := &c09FlipCtx{Context: context.Background(), entered: make(chan struct{}, 1), goOn: make(chan struct{})}
				wt.cancel, wt.c, wt.done, wt.boxed = func() {}, c, make(chan c09PipeRes, 1), false
				tagSeq++
				tag := c*1000 + tagSeq
				pcn := w.pcs[c]
				go func() {
					m, err := pcn.RoundTrip(fc, c09PipeQuery(tag))
					wt.done <- c09PipeRes{m, err}
				}()
				select {
				case <-fc.entered:
				case <-time.After(c09PipeWait):
					c09Lost("a RoundTrip did not reach its context check in front of the write within the budget")
				}
				found := -1
				for id := 0; id < dnsPipelineMaxIDs; id++ {
					if !known[id] && pcn.pending[id].Load() != nil {
						found = id
						break
					}
				}
				if found < 0 {
					c09Lost("registration of an aborting RoundTrip not found")
				}
				wt.id, wt.slot, wt.state = found, w.slotTok(pcn.pending[found].Load()), "aborting"
				aborting[i] = fc
				st.Emit(fmt.Sprintf("P start %d %d %d %d", i, c, wt.id, wt.slot), "ok")
				stat.Inc("pipe.start.abort-pending")
			case 10: // the held write ends: with an error, or the request goes out
				var cs []int
				for c := range writing {
					cs = append(cs, c)
				}
				if len(cs) == 0 {
					continue
				}
				sort.Ints(cs)
				c := cs[r.Intn(len(cs))]
				i := writing[c]
				wt := w.ws[i]
				delete(writing, c)
				if r.Chance(0.6) {
					w.conns[c].gateResult <- errors.New("write failed")
					st.Emit(fmt.Sprintf("P writefail %d", i), fmt.Sprintf("pc=leaving:%d.%d.%d.0.write-err", c, wt.id, wt.slot))
					stat.Inc("pipe.writefail")
					select {
					case res := <-wt.done:
						st.Emit(fmt.Sprintf("P leave %d", i), "pc=done:"+w.resStr(res, c))
						wt.state = "done"
					case <-time.After(c09PipeWait):
						c09Lost("a RoundTrip whose write failed did not return within the budget")
					}
					continue
				}
				w.conns[c].gateResult <- nil
				select {
				case <-w.conns[c].out:
				case <-time.After(c09PipeWait):
					c09Lost("a released write did not complete within the budget")
				}
				wt.state = "waiting"
				stat.Inc("pipe.slow-write.completed")
				if wt.boxed { // its answer (or the nil of a close) is already in the slot: it returns at once
					select {
					case res := <-wt.done:
						w.finishWaiter(i, res)
					case <-time.After(c09PipeWait):
						c09Lost("a RoundTrip whose slot was already filled did not return within the budget")
					}
				}
			case 8: // a waiter's context ends: pc.Close() runs closeWithErr in its goroutine
				i := r.Intn(nw)
				wt := w.ws[i]
				if wt.state != "waiting" {
					continue
				}
				c := wt.c
				stat.Inc("pipe.cancel")
				wt.state = "cancelled"
				alreadyDead := w.dead[c]
				w.dead[c] = true
				k := 0
				if !alreadyDead {
					k = w.pendingOn(c)
				}
				wt.cancel()
				// a RoundTrip whose context ended closes its connection (closeWithErr closes pc.closed
				// before it walks the pending slots)
				// closeWithErr closes pc.closed before it walks the pending slots, so "closed" is signalled
				// before the first yield; a RoundTrip that returns WITHOUT having closed is a definite observation
				closed := "0"
				var early *c09PipeRes
				var pendingEv *c09Ev
				select {
				case <-w.pcs[c].closed:
					closed = "1"
				case ev := <-w.h.event:
					// the closer reached its first yield before signalling closed (sweep first, close(pc.closed) last):
					// the connection is being closed by this call all the same
					pendingEv = &ev
					closed = "1"
				case res := <-wt.done:
					early = &res
					select {
					case <-w.pcs[c].closed:
						closed = "1"
					default:
					}
				case <-time.After(c09PipeWait):
					c09Lost("a cancelled RoundTrip neither closed its connection nor returned within the budget")
				}
				st.Emit(fmt.Sprintf("P cancel %d", i), fmt.Sprintf("pc=leaving:%d.%d.%d.0.ctx closed=%s", c, wt.id, wt.slot, closed))
				var res c09PipeRes
				if early != nil {
					res = *early
				} else {
					if pendingEv != nil {
						w.h.event <- *pendingEv // hand it to runCloser
					}
					w.runCloser(c, k)
					// the closer is the cancelled waiter itself: it now returns
					select {
					case res = <-wt.done:
					case <-time.After(c09PipeWait):
						c09Lost("a cancelled RoundTrip did not return within the budget")
					}
				}
				st.Emit(fmt.Sprintf("P leave %d", i), "pc=done:"+w.resStr(res, c))
				wt.state = "done"
			case 9: // the peer closes the connection: readLoop runs closeWithErr
				c := r.Intn(nconn)
				if w.dead[c] || held[c] {
					continue
				}
				w.dead[c] = true
				k := w.pendingOn(c)
				close(w.conns[c].eof)
				st.Emit(fmt.Sprintf("P close %d", c), "closed=1")
				stat.Inc("pipe.eof")
				w.runCloser(c, k)
			}
		}
		// drain: release parked readLoops and held writes, close everything, collect waiters
		verifYieldHook = nil
		w.h.releaseAll()
		for c, i := range writing {
			w.conns[c].gateResult <- errors.New("write failed")
			w.ws[i].state = "waiting"
		}
		for i, fc := range aborting {
			close(fc.goOn)
			w.ws[i].state = "waiting"
		}
		for c := range w.pcs {
			pcn := w.pcs[c]
			closed := make(chan struct{})
			go func() { pcn.Close(); close(closed) }()
			for waited := time.Duration(0); waited < c09PipeWait; waited += 20 * time.Millisecond {
				select {
				case <-closed:
					waited = c09PipeWait
				case <-time.After(20 * time.Millisecond):
					w.h.releaseAll() // a goroutine that had read the hook before it was removed may park late
				}
			}
		}
		for _, wt := range w.ws {
			if wt.state == "waiting" || wt.state == "cancelled" {
				select {
				case <-wt.done:
				case <-time.After(c09PipeWait):
					c09Lost("after Close() of its connection a waiting RoundTrip did not return within the budget")
				}
			}
		}
	}
	return
}

var _ = bytes.Fields
