package control

// C12 correspondence harness: real pkg/trie (Prefix2bin128, NewTrieFromPrefixes, HasPrefix), real
// cidrToBpfLpmKey (real-build variant: no dae_stub_ebpf tag, synthetic bpf2go file), real
// canonicalizePrefixes / addIp sharing decisions, real DNS response ip() matcher — against the
// Lean model driver c12drv.  One op per line; see lean/DaeVerif/C12/Main.lean.

import (
	"github.com/daeuniverse/dae/config"
	"encoding/binary"
	"encoding/hex"
	"fmt"
	"net/netip"
	"strings"
	"testing"
	"unsafe"

	"github.com/daeuniverse/dae/component/routing"
	"github.com/daeuniverse/dae/pkg/config_parser"
	"github.com/daeuniverse/dae/pkg/trie"
	"github.com/sirupsen/logrus"
)

func c12Tok(p netip.Prefix) string {
	if p.Addr().Is4() {
		b := p.Addr().As4()
		return fmt.Sprintf("4:%s/%d", hex.EncodeToString(b[:]), p.Bits())
	}
	b := p.Addr().As16()
	return fmt.Sprintf("6:%s/%d", hex.EncodeToString(b[:]), p.Bits())
}

func c12Bool(b bool) string {
	if b {
		return "1"
	}
	return "0"
}

// independent oracle: net/netip's own containment, with IPv4 treated as IPv4-mapped.
func c12Contains(p netip.Prefix, a netip.Addr) bool {
	a16 := netip.AddrFrom16(a.As16())
	if p.Addr().Is4() {
		return a16.Is4In6() && p.Contains(a16.Unmap())
	}
	return p.Contains(a16)
}

// kernel LPM-trie contract on the REAL key bytes written by cidrToBpfLpmKey: compare the first
// PrefixLen bits of Data (as laid out in memory) with the probe's 16 bytes.
func c12LpmLookup(keys []_bpfLpmKey, probe [16]byte) bool {
	for _, k := range keys {
		data := *(*[16]byte)(unsafe.Pointer(&k.Data[0]))
		n := int(k.PrefixLen)
		ok := n <= 128
		for i := 0; ok && i < n; i++ {
			if (data[i/8]>>(7-i%8))&1 != (probe[i/8]>>(7-i%8))&1 {
				ok = false
			}
		}
		if ok {
			return true
		}
	}
	return false
}

func c12RandAddr(r *VRand) netip.Addr {
	switch r.Intn(10) {
	case 0:
		return netip.AddrFrom4([4]byte{})
	case 1:
		return netip.AddrFrom16([16]byte{})
	case 2:
		return netip.AddrFrom4([4]byte{255, 255, 255, 255})
	case 3:
		var b [16]byte
		for i := range b {
			b[i] = 0xff
		}
		return netip.AddrFrom16(b)
	case 4, 5, 6:
		var b [4]byte
		binary.BigEndian.PutUint32(b[:], uint32(r.U64()))
		if r.Chance(0.3) { // clustered: few distinct high bytes → overlapping prefixes
			b[0] = byte(10 + r.Intn(2))
			b[1] = byte(r.Intn(3))
		}
		return netip.AddrFrom4(b)
	default:
		var b [16]byte
		binary.BigEndian.PutUint64(b[:8], r.U64())
		binary.BigEndian.PutUint64(b[8:], r.U64())
		switch r.Intn(5) {
		case 0: // IPv4-mapped literal written as IPv6
			copy(b[:12], []byte{0, 0, 0, 0, 0, 0, 0, 0, 0, 0, 0xff, 0xff})
		case 1:
			copy(b[:4], []byte{0x20, 0x01, 0x0d, 0xb8})
			for i := 4; i < 14; i++ {
				b[i] = 0
			}
		}
		return netip.AddrFrom16(b)
	}
}

func c12RandPrefix(r *VRand, stats *VStats) netip.Prefix {
	a := c12RandAddr(r)
	max := a.BitLen()
	var bits int
	switch r.Intn(8) {
	case 0:
		if r.Chance(0.15) { // a /0 makes every probe of its set a hit: keep it rare
			bits = 0
			stats.Inc("prefix.len0")
		} else {
			bits = r.Intn(max + 1)
		}
	case 1:
		bits = max
		stats.Inc("prefix.host")
	case 2:
		bits = 1
	case 3:
		bits = max - 1
	default:
		bits = r.Intn(max + 1)
	}
	p := netip.PrefixFrom(a, bits)
	if r.Chance(0.7) {
		p = p.Masked()
	} else {
		stats.Inc("prefix.unmasked")
	}
	if a.Is4() {
		stats.Inc("prefix.v4")
	} else if a.Is4In6() {
		stats.Inc("prefix.v4in6")
	} else {
		stats.Inc("prefix.v6")
	}
	return p
}

// probes around a prefix: first / last address inside, neighbours just outside, the mapped twin.
func c12Probes(r *VRand, p netip.Prefix) []netip.Addr {
	b := p.Masked().Addr().As16()
	n := p.Bits()
	if p.Addr().Is4() {
		n += 96
	}
	first := b
	last := b
	for i := n; i < 128; i++ {
		last[i/8] |= 1 << (7 - i%8)
	}
	dec := func(x [16]byte) [16]byte {
		for i := 15; i >= 0; i-- {
			x[i]--
			if x[i] != 0xff {
				break
			}
		}
		return x
	}
	inc := func(x [16]byte) [16]byte {
		for i := 15; i >= 0; i-- {
			x[i]++
			if x[i] != 0 {
				break
			}
		}
		return x
	}
	out := []netip.Addr{netip.AddrFrom16(first), netip.AddrFrom16(last), netip.AddrFrom16(dec(first)), netip.AddrFrom16(inc(last))}
	if n > 0 { // flip the last prefix bit: sibling block
		s := first
		s[(n-1)/8] ^= 1 << (7 - (n-1)%8)
		out = append(out, netip.AddrFrom16(s))
	}
	return out
}

func TestVerifC12(t *testing.T) {
	r := NewVRand(VSeed())
	stats := NewVStats()
	st := VOpenStream("c12")
	defer func() { st.Close(); stats.Write("c12") }()

	nSets := 400
	if VThorough() {
		nSets = 6000
	}
	log := logrus.New()
	log.SetLevel(logrus.PanicLevel)

	// --- stream 1: bit strings, kernel keys, set membership three ways
	// every prefix length of both families once, as a singleton set, with the boundary probes
	// (first / last address inside, both neighbours outside, sibling block): no length is left to chance
	var sweep []netip.Prefix
	for L := 0; L <= 128; L++ {
		a := c12RandAddr(r)
		for !a.Is6() || a.Is4In6() {
			a = c12RandAddr(r)
		}
		sweep = append(sweep, netip.PrefixFrom(a, L).Masked())
	}
	for L := 0; L <= 32; L++ {
		var b [4]byte
		binary.BigEndian.PutUint32(b[:], uint32(r.U64()))
		sweep = append(sweep, netip.PrefixFrom(netip.AddrFrom4(b), L).Masked())
		// and the same length written in IPv4-mapped form
		sweep = append(sweep, netip.PrefixFrom(netip.AddrFrom16(netip.AddrFrom4(b).As16()), L+96).Masked())
	}
	for si := 0; si < nSets+len(sweep); si++ {
		k := 1 + r.Intn(6)
		if r.Chance(0.1) {
			k = 20 + r.Intn(200)
		}
		ps := make([]netip.Prefix, 0, k)
		if si < len(sweep) {
			ps = append(ps, sweep[si])
			k = 0
			stats.Inc("set.length_sweep")
		}
		for i := 0; i < k; i++ {
			p := c12RandPrefix(r, stats)
			ps = append(ps, p)
			if r.Chance(0.2) { // nested / duplicated
				nb := r.Intn(p.Bits() + 1)
				if nb == 0 && p.Bits() > 0 && r.Chance(0.8) {
					nb = 1 + r.Intn(p.Bits())
				}
				q := netip.PrefixFrom(p.Addr(), nb)
				ps = append(ps, q)
				stats.Inc("prefix.nested")
			}
			if p.Addr().Is4() && r.Chance(0.25) {
				// the IPv4 prefix together with its twins written as IPv6: ::ffff:a.b.c.d/N (the first N
				// bits of the 128-bit form, a much larger set) and /N+96 (the same address set)
				m := netip.AddrFrom16(p.Addr().As16())
				ps = append(ps, netip.PrefixFrom(m, p.Bits()+96))
				if r.Bool() {
					ps = append(ps, netip.PrefixFrom(m, p.Bits()))
				}
				stats.Inc("prefix.v4_with_mapped_twin")
			}
		}
		toks := make([]string, len(ps))
		for i, p := range ps {
			toks[i] = c12Tok(p)
		}
		if si < 3 {
			stats.Sample("set " + strings.Join(toks, " "))
		}
		// bin + key per prefix (first few)
		for i, p := range ps {
			if i >= 4 {
				break
			}
			p := p
			st.Emit("bin "+toks[i], VRecover(func() string { return "bin=" + trie.Prefix2bin128(p) }))
			st.Emit("key "+toks[i], VRecover(func() string {
				key := cidrToBpfLpmKey(p)
				data := *(*[16]byte)(unsafe.Pointer(&key.Data[0]))
				return fmt.Sprintf("key=%d:%s", key.PrefixLen, hex.EncodeToString(data[:]))
			}))
		}
		var tr *trie.Trie
		buildErr := VRecover(func() string {
			var err error
			tr, err = trie.NewTrieFromPrefixes(ps)
			if err != nil {
				return "err:" + err.Error()
			}
			return ""
		})
		keys := make([]_bpfLpmKey, len(ps))
		for i, p := range ps {
			keys[i] = cidrToBpfLpmKey(p)
		}
		var probes []netip.Addr
		for _, p := range ps {
			if len(probes) > 60 {
				break
			}
			probes = append(probes, c12Probes(r, p)...)
		}
		for i := 0; i < 4; i++ {
			probes = append(probes, c12RandAddr(r))
		}
		for _, p := range ps {
			if p.Addr().Is4() && len(probes) < 90 {
				a4 := p.Addr().As4()
				var compat, nat64 [16]byte
				copy(compat[12:], a4[:]) // ::a.b.c.d
				copy(nat64[:4], []byte{0x00, 0x64, 0xff, 0x9b})
				copy(nat64[12:], a4[:]) // 64:ff9b::a.b.c.d
				probes = append(probes, netip.AddrFrom16(compat), netip.AddrFrom16(nat64))
			}
		}
		if si%16 == 0 {
			probes = append(probes, netip.MustParseAddr("::ffff:0.0.0.0"), netip.MustParseAddr("::ffff:255.255.255.255"))
		}
		for _, a := range probes {
			a16 := a.As16()
			op := "match " + hex.EncodeToString(a16[:]) + " " + strings.Join(toks, " ")
			out := buildErr
			if out == "" {
				out = VRecover(func() string {
					// exactly what RoutingMatcher.Match does with an address
					bin := trie.Prefix2bin128(netip.PrefixFrom(netip.AddrFrom16(a16), 128))
					tm := tr.HasPrefix(bin)
					lm := c12LpmLookup(keys, a16)
					sp := false
					for _, p := range ps {
						if c12Contains(p, a) {
							sp = true
						}
					}
					if tm {
						stats.Inc("match.hit")
					} else {
						stats.Inc("match.miss")
					}
					if si < len(sweep) {
						fam := "v6"
						if ps[0].Addr().Is4() {
							fam = "v4"
						}
						stats.Inc(fmt.Sprintf("sweep.%s.len%03d.%s", fam, ps[0].Bits(), c12Bool(tm)))
					}
					return fmt.Sprintf("trie=%s lpm=%s spec=%s", c12Bool(tm), c12Bool(lm), c12Bool(sp))
				})
			}
			st.Emit(op, out)
		}
		// canonicalize
		st.Emit("canon "+strings.Join(toks, " "), VRecover(func() string {
			c := canonicalizePrefixes(ps)
			o := make([]string, len(c))
			for i, p := range c {
				o[i] = c12Tok(p)
			}
			return "canon=" + strings.Join(o, " ")
		}))
	}

	// --- stream 1b: text -> prefix (routing.IpParserFactory / parsePrefixes): every way of writing a
	// prefix or a bare address, incl. IPv6 literals with an embedded dotted quad
	nText := 600
	if VThorough() {
		nText = 12000
	}
	for i := 0; i < nText; i++ {
		p := c12RandPrefix(r, stats)
		if r.Chance(0.4) {
			p = netip.PrefixFrom(p.Addr(), p.Addr().BitLen()) // host route: may be written bare
		}
		var text string
		a := p.Addr()
		switch {
		case p.Bits() == a.BitLen() && r.Chance(0.6):
			text = a.String() // bare address
			if a.Is4In6() && r.Chance(0.5) {
				b := a.As16()
				text = fmt.Sprintf("::ffff:%x:%x", uint16(b[12])<<8|uint16(b[13]), uint16(b[14])<<8|uint16(b[15])) // mapped, pure hex form
			}
			stats.Inc("ptext.bare")
		default:
			text = p.String()
		}
		if a.Is6() && !a.Is4In6() && r.Chance(0.3) {
			// IPv6 literal with an embedded dotted quad (e.g. NAT64 64:ff9b::192.0.2.1)
			b := a.As16()
			full := fmt.Sprintf("%x:%x:%x:%x:%x:%x:%d.%d.%d.%d", uint16(b[0])<<8|uint16(b[1]), uint16(b[2])<<8|uint16(b[3]), uint16(b[4])<<8|uint16(b[5]),
				uint16(b[6])<<8|uint16(b[7]), uint16(b[8])<<8|uint16(b[9]), uint16(b[10])<<8|uint16(b[11]), b[12], b[13], b[14], b[15])
			if p.Bits() == 128 && r.Bool() {
				text = full
			} else {
				text = fmt.Sprintf("%s/%d", full, p.Bits())
			}
			stats.Inc("ptext.v6_dotted_quad")
		}
		if strings.Contains(text, ".") && strings.Contains(text, ":") {
			stats.Inc("ptext.colon_and_dot")
		}
		if r.Chance(0.2) {
			text = strings.ToUpper(text)
		}
		st.Emit("ptext "+c12Tok(p), VRecover(func() string {
			var got []netip.Prefix
			parser := routing.IpParserFactory(func(f *config_parser.Function, cidrs []netip.Prefix, o *routing.Outbound) error {
				got = cidrs
				return nil
			})
			if err := parser(log, &config_parser.Function{Name: "dip"}, "", []string{text}, &routing.Outbound{Name: "direct"}); err != nil {
				return "err:" + text + ":" + err.Error()
			}
			if len(got) != 1 {
				return fmt.Sprintf("err:%d prefixes", len(got))
			}
			return "pfx=" + c12Tok(got[0])
		}))
	}

	// --- stream 2: sharing decisions of the real builder (addIp / addSourceIp / addSourceMac share lpmDedup)
	nShare := 150
	if VThorough() {
		nShare = 2000
	}
	for si := 0; si < nShare; si++ {
		pool := make([][]netip.Prefix, 0)
		nDistinct := 1 + r.Intn(4)
		for i := 0; i < nDistinct; i++ {
			k := 1 + r.Intn(4)
			s := make([]netip.Prefix, k)
			for j := range s {
				s[j] = c12RandPrefix(r, stats)
			}
			pool = append(pool, s)
		}
		nUse := 2 + r.Intn(6)
		if si%4 == 1 {
			nDistinct, nUse = 6+r.Intn(6), 8+r.Intn(8) // more than 4 distinct sets: BuildUserspace takes its parallel path
			for len(pool) < nDistinct {
				k := 1 + r.Intn(4)
				s := make([]netip.Prefix, k)
				for j := range s {
					s[j] = c12RandPrefix(r, stats)
				}
				pool = append(pool, s)
			}
		}
		var sets [][]netip.Prefix
		if si%3 == 0 {
			// Constructed FNV collisions: the hash runs over an undelimited stream of
			// (prefix length, address bytes) items, 5 bytes for IPv4 and 17 for IPv6, so the canonical
			// lists {v4, v6} and {v6, v4} cut from the same 22 bytes hash equal although they differ.
			// Sequences over such pairs drive the collision branch of addIp/addSourceIp.
			var b [22]byte
			for i := range b {
				b[i] = byte(r.U64())
			}
			b[0] = byte(r.Intn(32))                        // bits of A's v4 and of B's v6
			b[17] = b[0] + 1 + byte(r.Intn(int(32-b[0]))) // bits of B's v4, > b[0] so B stays [v6, v4]
			b[5] = b[0] + byte(r.Intn(int(129-int(b[0])))) // bits of A's v6, >= b[0] so A stays [v4, v6]
			var a4, b4 [4]byte
			var a16, b16 [16]byte
			copy(a4[:], b[1:5])
			copy(a16[:], b[6:22])
			copy(b16[:], b[1:17])
			copy(b4[:], b[18:22])
			A := []netip.Prefix{netip.PrefixFrom(netip.AddrFrom4(a4), int(b[0])), netip.PrefixFrom(netip.AddrFrom16(a16), int(b[5]))}
			B := []netip.Prefix{netip.PrefixFrom(netip.AddrFrom16(b16), int(b[0])), netip.PrefixFrom(netip.AddrFrom4(b4), int(b[17]))}
			if hashLpmSet(canonicalizePrefixes(A)) == hashLpmSet(canonicalizePrefixes(B)) && !prefixesEqual(canonicalizePrefixes(A), canonicalizePrefixes(B)) {
				stats.Inc("share.constructed_collision")
				pool = append(pool, A, B)
				// make sure the colliding pair is used repeatedly and alternately
				pat := [][]int{{0, 1, 1}, {0, 1, 0, 1}, {1, 0, 0, 1, 1}, {0, 1, 1, 0, 0}}[r.Intn(4)]
				for _, k := range pat {
					src := A
					if k == 1 {
						src = B
					}
					s := append([]netip.Prefix(nil), src...)
					if r.Bool() {
						s[0], s[1] = s[1], s[0]
					}
					sets = append(sets, s)
				}
			}
		}
		for i := 0; i < nUse; i++ {
			base := pool[r.Intn(len(pool))]
			s := append([]netip.Prefix(nil), base...)
			switch r.Intn(4) {
			case 0: // permuted + duplicated → same canonical list
				r2 := r.Intn(len(s))
				s = append(s, s[r2])
				s[0], s[len(s)-1] = s[len(s)-1], s[0]
				stats.Inc("share.permuted")
			case 1: // one prefix differs by one bit of length → must not share
				if s[0].Bits() > 0 {
					s[0] = netip.PrefixFrom(s[0].Addr(), s[0].Bits()-1)
				}
				stats.Inc("share.nearmiss")
			}
			sets = append(sets, s)
		}
		// MAC sets (addSourceMac) interleaved: they take slots of the same table but are never shared,
		// and a negated rule gets the zero MAC appended
		type macSet struct {
			macs [][6]byte
			neg  bool
		}
		macAt := map[int]macSet{}
		var macPool [][6]byte
		for i := 0; i < 3; i++ {
			var m [6]byte
			binary.BigEndian.PutUint32(m[2:], uint32(r.U64()))
			macPool = append(macPool, m)
		}
		for i := range sets {
			if r.Chance(0.25) {
				ms := macSet{neg: r.Bool()}
				for j := 0; j <= r.Intn(3); j++ {
					ms.macs = append(ms.macs, macPool[r.Intn(len(macPool))])
				}
				macAt[i] = ms
				stats.Inc("share.mac_set")
			}
		}
		var toks []string
		for i, s := range sets {
			if i > 0 {
				toks = append(toks, "|")
			}
			if ms, ok := macAt[i]; ok {
				if ms.neg {
					toks = append(toks, "mac1")
				} else {
					toks = append(toks, "mac0")
				}
				for _, m := range ms.macs {
					toks = append(toks, hex.EncodeToString(m[:]))
				}
				continue
			}
			for _, p := range s {
				toks = append(toks, c12Tok(p))
			}
		}
		st.Emit("share "+strings.Join(toks, " "), VRecover(func() string {
			b := &RoutingMatcherBuilder{
				log:                 log,
				outboundName2Id:     map[string]uint8{"direct": 0, "block": 1, "proxy": 2},
				lpmDedup:            make(map[uint64]lpmDedupEntry),
				referencedOutbounds: make(map[string]struct{}),
			}
			var idx []string
			for i, s := range sets {
				f := &config_parser.Function{Name: "dip"}
				ob := &routing.Outbound{Name: "proxy"}
				var err error
				if ms, ok := macAt[i]; ok {
					f = &config_parser.Function{Name: "mac", Not: ms.neg}
					if err = b.addSourceMac(f, append([][6]byte(nil), ms.macs...), ob); err != nil {
						return "err:" + err.Error()
					}
					li := b.compiledRules[len(b.compiledRules)-1].lpmIndex
					// property-level check on the real builder: the slot holds exactly the listed MACs as
					// host routes in the 16-byte form (+ the zero MAC for a negated rule)
					want := len(ms.macs)
					if ms.neg {
						want++
					}
					if int(li) >= len(b.simulatedLpmTries) || len(b.simulatedLpmTries[li]) != want {
						return fmt.Sprintf("mac-slot-differs set=%d idx=%d", i, li)
					}
					for k, pf := range b.simulatedLpmTries[li] {
						var m [6]byte
						if k < len(ms.macs) {
							m = ms.macs[k]
						}
						var a16 [16]byte
						copy(a16[10:], m[:])
						if pf != netip.PrefixFrom(netip.AddrFrom16(a16), 128) {
							return fmt.Sprintf("mac-slot-differs set=%d idx=%d entry=%d", i, li, k)
						}
					}
					idx = append(idx, fmt.Sprint(li))
					continue
				}
				if (i+si)%2 == 0 {
					err = b.addIp(f, s, ob)
				} else {
					err = b.addSourceIp(f, s, ob)
				}
				if err != nil {
					return "err:" + err.Error()
				}
				li := b.compiledRules[len(b.compiledRules)-1].lpmIndex
				// the slot must hold this set's canonical list (property-level check on the real builder)
				if int(li) >= len(b.simulatedLpmTries) || !prefixesEqual(b.simulatedLpmTries[li], canonicalizePrefixes(s)) {
					return fmt.Sprintf("shared-slot-differs set=%d idx=%d", i, li)
				}
				idx = append(idx, fmt.Sprint(li))
			}
			out := "idx=" + strings.Join(idx, ",") + " tries=" + fmt.Sprint(len(b.simulatedLpmTries))
			// Walk the production order of a (re)load: the kernel-side snapshot is taken BEFORE the
			// userspace matcher is built and written to the kernel maps AFTER it
			// (CommitPreparedDatapath / RebuildReloadDatapath).  Whatever BuildUserspace does, the sets
			// the snapshot hands to the kernel key writer and the userspace tries must still be the
			// sets the rules list — for few sets (serial build) and many (parallel build).
			ruleSlots := make([]uint32, len(b.compiledRules))
			for i := range b.compiledRules {
				ruleSlots[i] = b.compiledRules[i].lpmIndex
			}
			if err := b.addFallback(config.FunctionOrString("direct")); err != nil {
				return "err:fallback:" + err.Error()
			}
			nTries := len(b.simulatedLpmTries)
			snap := b.KernspaceSnapshot()
			m, err := b.BuildUserspace()
			if err != nil {
				return "err:build:" + err.Error()
			}
			if nTries > 4 {
				stats.Inc("walk.parallel_build")
			} else {
				stats.Inc("walk.serial_build")
			}
			for i, s := range sets {
				li := ruleSlots[i]
				if int(li) >= len(snap.simulatedLpmTries) || int(li) >= len(m.lpmMatcher) {
					return fmt.Sprintf("walk: slot %d of set %d missing after BuildUserspace", li, i)
				}
				var want []netip.Prefix
				if ms, ok := macAt[i]; ok {
					for _, mc := range ms.macs {
						var a16 [16]byte
						copy(a16[10:], mc[:])
						want = append(want, netip.PrefixFrom(netip.AddrFrom16(a16), 128))
					}
					if ms.neg {
						want = append(want, netip.PrefixFrom(netip.AddrFrom16([16]byte{}), 128))
					}
				} else {
					want = s
				}
				keys := make([]_bpfLpmKey, 0, len(snap.simulatedLpmTries[li]))
				for _, p := range snap.simulatedLpmTries[li] {
					keys = append(keys, cidrToBpfLpmKey(p))
				}
				var probes []netip.Addr
				for _, p := range want {
					if len(probes) < 20 {
						probes = append(probes, c12Probes(r, p)...)
					}
				}
				for _, a := range probes {
					a16 := a.As16()
					sp := false
					for _, p := range want {
						if c12Contains(p, a) {
							sp = true
						}
					}
					um := m.lpmMatcher[li].HasPrefix(trie.Prefix2bin128(netip.PrefixFrom(netip.AddrFrom16(a16), 128)))
					km := c12LpmLookup(keys, a16)
					stats.Inc("walk.probe")
					if um != sp || km != sp {
						return fmt.Sprintf("walk: after snapshot+BuildUserspace set %d (slot %d) probe %s: listed=%v userspace=%v kernel-keys=%v", i, li, a, sp, um, km)
					}
				}
			}
			return out
		}))
	}
	stats.Add("ops", st.N)
}
