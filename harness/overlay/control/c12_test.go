package control

// C12 correspondence harness: real pkg/trie (Prefix2bin128, NewTrieFromPrefixes, HasPrefix), real
// cidrToBpfLpmKey (real-build variant: no dae_stub_ebpf tag, synthetic bpf2go file), real
// canonicalizePrefixes / addIp sharing decisions, real DNS response ip() matcher — against the
// Lean model driver c12drv.  One op per line; see lean/DaeVerif/C12/Main.lean.

import (
	"encoding/binary"
	"encoding/hex"
	"errors"
	"fmt"
	"net/netip"
	"sort"
	"strings"
	"sync"
	"testing"
	"unsafe"

	"github.com/cilium/ebpf"
	"github.com/daeuniverse/dae/common/assets"
	"github.com/daeuniverse/dae/common/consts"
	"github.com/daeuniverse/dae/component/routing"
	"github.com/daeuniverse/dae/config"
	"github.com/daeuniverse/dae/pkg/config_parser"
	"github.com/daeuniverse/dae/pkg/trie"
	"github.com/sirupsen/logrus"
)

// ---------------------------------------------------------------------------------------------
// REAL kernel LPM tries: the keys of production cidrToBpfLpmKey go through production
// bpfObjects.newLpmMap (ebpf.NewMap + BpfMapBatchUpdate, genuine batch or the simulated loop) into a
// BPF_MAP_TYPE_LPM_TRIE of the running kernel, and probes are looked up the way tproxy.c does it
// (prefixlen 128, the 16 address bytes as they are in the packet).  When the sandbox has no bpf(2)
// the stream is reported as unavailable (the LPM contract then stays a trusted assumption).
type c12Kern struct {
	bpf    *bpfObjects
	ok     bool
	why    string
	detSim bool // what the production feature detection chose for LPM batch updates
}

func c12LpmSpec(maxEntries uint32) *ebpf.MapSpec {
	// as declared in control/kern/tproxy.c (unused_lpm_type): key = struct lpm_key, value = __u32
	return &ebpf.MapSpec{Type: ebpf.LPMTrie, KeySize: uint32(unsafe.Sizeof(_bpfLpmKey{})), ValueSize: 4, MaxEntries: maxEntries, Flags: 1 /* BPF_F_NO_PREALLOC */}
}

func c12NewKern(stats *VStats) *c12Kern {
	m, err := ebpf.NewMap(c12LpmSpec(2048000))
	if err != nil {
		stats.Inc("kern.unavailable")
		stats.Sample("kernel LPM stream unavailable: " + err.Error())
		return &c12Kern{why: err.Error()}
	}
	k := &c12Kern{bpf: &bpfObjects{}, ok: true}
	k.bpf.UnusedLpmType = m
	// let the production feature detection run once, through the production path
	var a16 [16]byte
	a16[15] = 1
	mm, err := k.bpf.newLpmMap([]_bpfLpmKey{cidrToBpfLpmKey(netip.PrefixFrom(netip.AddrFrom16(a16), 128))}, []uint32{1})
	if err != nil {
		// the sandbox lets us create a trie but not fill it the production way: environment, not a verdict
		stats.Inc("kern.unavailable")
		stats.Sample("kernel LPM stream unavailable (first production newLpmMap): " + err.Error())
		_ = m.Close()
		return &c12Kern{why: err.Error()}
	}
	_ = mm.Close()
	k.detSim = SimulateBatchUpdateLpmTrie
	if k.detSim {
		stats.Inc("kern.detected_simulated_batch")
	} else {
		stats.Inc("kern.detected_genuine_batch")
	}
	return k
}

// build: production newLpmMap; mode 1 forces the simulated (per-key Update) path of BpfMapBatchUpdate,
// mode 0 is what the feature detection chose.
func (k *c12Kern) build(keys []_bpfLpmKey, mode int, stats *VStats) (*ebpf.Map, error) {
	values := make([]uint32, len(keys))
	for i := range values {
		values[i] = 1
	}
	old := SimulateBatchUpdateLpmTrie
	if mode == 1 {
		SimulateBatchUpdateLpmTrie = true
	}
	defer func() { SimulateBatchUpdateLpmTrie = old }()
	if SimulateBatchUpdateLpmTrie {
		stats.Inc("kern.map.simulated_batch")
	} else {
		stats.Inc("kern.map.genuine_batch")
	}
	return k.bpf.newLpmMap(keys, values)
}

func c12KernLookup(m *ebpf.Map, a16 [16]byte) string {
	var hk _bpfLpmKey
	hk.PrefixLen = 128
	*(*[16]byte)(unsafe.Pointer(&hk.Data[0])) = a16
	var v uint32
	err := m.Lookup(&hk, &v)
	switch {
	case err == nil && v == 1:
		return "1"
	case err == nil:
		return fmt.Sprintf("val%d", v)
	case errors.Is(err, ebpf.ErrKeyNotExist):
		return "0"
	}
	return "err:" + err.Error()
}

func c12Tok(p netip.Prefix) string {
	if p.Addr().Is4() {
		b := p.Addr().As4()
		return fmt.Sprintf("4:%s/%d", hex.EncodeToString(b[:]), p.Bits())
	}
	b := p.Addr().As16()
	return fmt.Sprintf("6:%s/%d", hex.EncodeToString(b[:]), p.Bits())
}

func c12Bool(b bool) string {
	if b {
		return "1"
	}
	return "0"
}

// independent oracle: net/netip's own containment, with IPv4 treated as IPv4-mapped.
func c12Contains(p netip.Prefix, a netip.Addr) bool {
	a16 := netip.AddrFrom16(a.As16())
	if p.Addr().Is4() {
		return a16.Is4In6() && p.Contains(a16.Unmap())
	}
	return p.Contains(a16)
}

// kernel LPM-trie contract on the REAL key bytes written by cidrToBpfLpmKey: compare the first
// PrefixLen bits of Data (as laid out in memory) with the probe's 16 bytes.
func c12LpmLookup(keys []_bpfLpmKey, probe [16]byte) bool {
	for _, k := range keys {
		data := *(*[16]byte)(unsafe.Pointer(&k.Data[0]))
		n := int(k.PrefixLen)
		ok := n <= 128
		for i := 0; ok && i < n; i++ {
			if (data[i/8]>>(7-i%8))&1 != (probe[i/8]>>(7-i%8))&1 {
				ok = false
			}
		}
		if ok {
			return true
		}
	}
	return false
}

func c12RandAddr(r *VRand) netip.Addr {
	switch r.Intn(10) {
	case 0:
		return netip.AddrFrom4([4]byte{})
	case 1:
		return netip.AddrFrom16([16]byte{})
	case 2:
		return netip.AddrFrom4([4]byte{255, 255, 255, 255})
	case 3:
		var b [16]byte
		for i := range b {
			b[i] = 0xff
		}
		return netip.AddrFrom16(b)
	case 4, 5, 6:
		var b [4]byte
		binary.BigEndian.PutUint32(b[:], uint32(r.U64()))
		if r.Chance(0.3) { // clustered: few distinct high bytes → overlapping prefixes
			b[0] = byte(10 + r.Intn(2))
			b[1] = byte(r.Intn(3))
		}
		return netip.AddrFrom4(b)
	default:
		var b [16]byte
		binary.BigEndian.PutUint64(b[:8], r.U64())
		binary.BigEndian.PutUint64(b[8:], r.U64())
		switch r.Intn(5) {
		case 0: // IPv4-mapped literal written as IPv6
			copy(b[:12], []byte{0, 0, 0, 0, 0, 0, 0, 0, 0, 0, 0xff, 0xff})
		case 1:
			copy(b[:4], []byte{0x20, 0x01, 0x0d, 0xb8})
			for i := 4; i < 14; i++ {
				b[i] = 0
			}
		}
		return netip.AddrFrom16(b)
	}
}

func c12RandPrefix(r *VRand, stats *VStats) netip.Prefix {
	a := c12RandAddr(r)
	max := a.BitLen()
	var bits int
	switch r.Intn(8) {
	case 0:
		if r.Chance(0.15) { // a /0 makes every probe of its set a hit: keep it rare
			bits = 0
			stats.Inc("prefix.len0")
		} else {
			bits = r.Intn(max + 1)
		}
	case 1:
		bits = max
		stats.Inc("prefix.host")
	case 2:
		bits = 1
	case 3:
		bits = max - 1
	default:
		bits = r.Intn(max + 1)
	}
	p := netip.PrefixFrom(a, bits)
	if r.Chance(0.7) {
		p = p.Masked()
	} else {
		stats.Inc("prefix.unmasked")
	}
	if a.Is4() {
		stats.Inc("prefix.v4")
	} else if a.Is4In6() {
		stats.Inc("prefix.v4in6")
	} else {
		stats.Inc("prefix.v6")
	}
	return p
}

// probes around a prefix: first / last address inside, neighbours just outside, the mapped twin.
func c12Probes(r *VRand, p netip.Prefix) []netip.Addr {
	b := p.Masked().Addr().As16()
	n := p.Bits()
	if p.Addr().Is4() {
		n += 96
	}
	first := b
	last := b
	for i := n; i < 128; i++ {
		last[i/8] |= 1 << (7 - i%8)
	}
	dec := func(x [16]byte) [16]byte {
		for i := 15; i >= 0; i-- {
			x[i]--
			if x[i] != 0xff {
				break
			}
		}
		return x
	}
	inc := func(x [16]byte) [16]byte {
		for i := 15; i >= 0; i-- {
			x[i]++
			if x[i] != 0 {
				break
			}
		}
		return x
	}
	out := []netip.Addr{netip.AddrFrom16(first), netip.AddrFrom16(last), netip.AddrFrom16(dec(first)), netip.AddrFrom16(inc(last))}
	if n > 0 { // flip the last prefix bit: sibling block
		s := first
		s[(n-1)/8] ^= 1 << (7 - (n-1)%8)
		out = append(out, netip.AddrFrom16(s))
	}
	return out
}

func TestVerifC12(t *testing.T) {
	r := NewVRand(VSeed())
	stats := NewVStats()
	st := VOpenStream("c12")
	defer func() { st.Close(); stats.Write("c12") }()

	nSets := 400
	if VThorough() {
		nSets = 6000
	}
	log := logrus.New()
	log.SetLevel(logrus.PanicLevel)
	kern := c12NewKern(stats)
	if kern.ok {
		defer kern.bpf.UnusedLpmType.Close()
	}

	// --- stream 1: bit strings, kernel keys, set membership three ways
	// every prefix length of both families once, as a singleton set, with the boundary probes
	// (first / last address inside, both neighbours outside, sibling block): no length is left to chance
	var sweep []netip.Prefix
	for L := 0; L <= 128; L++ {
		a := c12RandAddr(r)
		for !a.Is6() || a.Is4In6() {
			a = c12RandAddr(r)
		}
		sweep = append(sweep, netip.PrefixFrom(a, L).Masked())
	}
	for L := 0; L <= 32; L++ {
		var b [4]byte
		binary.BigEndian.PutUint32(b[:], uint32(r.U64()))
		sweep = append(sweep, netip.PrefixFrom(netip.AddrFrom4(b), L).Masked())
		// and the same length written in IPv4-mapped form
		sweep = append(sweep, netip.PrefixFrom(netip.AddrFrom16(netip.AddrFrom4(b).As16()), L+96).Masked())
	}
	for si := 0; si < nSets+len(sweep); si++ {
		k := 1 + r.Intn(6)
		if r.Chance(0.1) {
			k = 20 + r.Intn(200)
		}
		ps := make([]netip.Prefix, 0, k)
		if si < len(sweep) {
			ps = append(ps, sweep[si])
			k = 0
			stats.Inc("set.length_sweep")
		}
		for i := 0; i < k; i++ {
			p := c12RandPrefix(r, stats)
			ps = append(ps, p)
			if r.Chance(0.2) { // nested / duplicated
				nb := r.Intn(p.Bits() + 1)
				if nb == 0 && p.Bits() > 0 && r.Chance(0.8) {
					nb = 1 + r.Intn(p.Bits())
				}
				q := netip.PrefixFrom(p.Addr(), nb)
				ps = append(ps, q)
				stats.Inc("prefix.nested")
			}
			if p.Addr().Is4() && r.Chance(0.25) {
				// the IPv4 prefix together with its twins written as IPv6: ::ffff:a.b.c.d/N (the first N
				// bits of the 128-bit form, a much larger set) and /N+96 (the same address set)
				m := netip.AddrFrom16(p.Addr().As16())
				ps = append(ps, netip.PrefixFrom(m, p.Bits()+96))
				if r.Bool() {
					ps = append(ps, netip.PrefixFrom(m, p.Bits()))
				}
				stats.Inc("prefix.v4_with_mapped_twin")
			}
		}
		toks := make([]string, len(ps))
		for i, p := range ps {
			toks[i] = c12Tok(p)
		}
		if si < 3 {
			stats.Sample("set " + strings.Join(toks, " "))
		}
		// bin + key per prefix (first few)
		for i, p := range ps {
			if i >= 4 {
				break
			}
			p := p
			st.Emit("bin "+toks[i], VRecover(func() string { return "bin=" + trie.Prefix2bin128(p) }))
			st.Emit("key "+toks[i], VRecover(func() string {
				key := cidrToBpfLpmKey(p)
				data := *(*[16]byte)(unsafe.Pointer(&key.Data[0]))
				return fmt.Sprintf("key=%d:%s", key.PrefixLen, hex.EncodeToString(data[:]))
			}))
		}
		var tr *trie.Trie
		buildErr := VRecover(func() string {
			var err error
			tr, err = trie.NewTrieFromPrefixes(ps)
			if err != nil {
				return "err:" + err.Error()
			}
			return ""
		})
		keys := make([]_bpfLpmKey, len(ps))
		for i, p := range ps {
			keys[i] = cidrToBpfLpmKey(p)
		}
		var kmap *ebpf.Map
		kerr := ""
		matchOp := "match "
		if kern.ok {
			matchOp = "matchk "
			var err error
			if kmap, err = kern.build(keys, si%2, stats); err != nil {
				kerr = "err:newLpmMap:" + err.Error()
			}
		}
		var probes []netip.Addr
		for _, p := range ps {
			if len(probes) > 60 {
				break
			}
			probes = append(probes, c12Probes(r, p)...)
		}
		for i := 0; i < 4; i++ {
			probes = append(probes, c12RandAddr(r))
		}
		for _, p := range ps {
			if p.Addr().Is4() && len(probes) < 90 {
				a4 := p.Addr().As4()
				var compat, nat64 [16]byte
				copy(compat[12:], a4[:]) // ::a.b.c.d
				copy(nat64[:4], []byte{0x00, 0x64, 0xff, 0x9b})
				copy(nat64[12:], a4[:]) // 64:ff9b::a.b.c.d
				probes = append(probes, netip.AddrFrom16(compat), netip.AddrFrom16(nat64))
			}
		}
		if si%16 == 0 {
			probes = append(probes, netip.MustParseAddr("::ffff:0.0.0.0"), netip.MustParseAddr("::ffff:255.255.255.255"))
		}
		for _, a := range probes {
			a16 := a.As16()
			op := matchOp + hex.EncodeToString(a16[:]) + " " + strings.Join(toks, " ")
			out := buildErr
			if out == "" {
				out = VRecover(func() string {
					// exactly what RoutingMatcher.Match does with an address
					bin := trie.Prefix2bin128(netip.PrefixFrom(netip.AddrFrom16(a16), 128))
					tm := tr.HasPrefix(bin)
					lm := c12LpmLookup(keys, a16)
					sp := false
					for _, p := range ps {
						if c12Contains(p, a) {
							sp = true
						}
					}
					if tm {
						stats.Inc("match.hit")
					} else {
						stats.Inc("match.miss")
					}
					if si < len(sweep) {
						fam := "v6"
						if ps[0].Addr().Is4() {
							fam = "v4"
						}
						stats.Inc(fmt.Sprintf("sweep.%s.len%03d.%s", fam, ps[0].Bits(), c12Bool(tm)))
					}
					res := fmt.Sprintf("trie=%s lpm=%s spec=%s", c12Bool(tm), c12Bool(lm), c12Bool(sp))
					if kern.ok {
						kv := kerr
						if kv == "" {
							kv = c12KernLookup(kmap, a16)
						}
						if kv == "1" {
							stats.Inc("kern.hit")
						} else if kv == "0" {
							stats.Inc("kern.miss")
						}
						res += " kern=" + kv
					}
					return res
				})
			}
			st.Emit(op, out)
		}
		if kmap != nil {
			_ = kmap.Close()
		}
		// canonicalize
		st.Emit("canon "+strings.Join(toks, " "), VRecover(func() string {
			c := canonicalizePrefixes(ps)
			o := make([]string, len(c))
			for i, p := range c {
				o[i] = c12Tok(p)
			}
			return "canon=" + strings.Join(o, " ")
		}))
	}

	// --- stream 1b: text -> prefix (routing.IpParserFactory / parsePrefixes): every way of writing a
	// prefix or a bare address, incl. IPv6 literals with an embedded dotted quad
	nText := 600
	if VThorough() {
		nText = 12000
	}
	for i := 0; i < nText; i++ {
		p := c12RandPrefix(r, stats)
		if r.Chance(0.4) {
			p = netip.PrefixFrom(p.Addr(), p.Addr().BitLen()) // host route: may be written bare
		}
		var text string
		a := p.Addr()
		switch {
		case p.Bits() == a.BitLen() && r.Chance(0.6):
			text = a.String() // bare address
			if a.Is4In6() && r.Chance(0.5) {
				b := a.As16()
				text = fmt.Sprintf("::ffff:%x:%x", uint16(b[12])<<8|uint16(b[13]), uint16(b[14])<<8|uint16(b[15])) // mapped, pure hex form
			}
			stats.Inc("ptext.bare")
		default:
			text = p.String()
		}
		if a.Is6() && !a.Is4In6() && r.Chance(0.3) {
			// IPv6 literal with an embedded dotted quad (e.g. NAT64 64:ff9b::192.0.2.1)
			b := a.As16()
			full := fmt.Sprintf("%x:%x:%x:%x:%x:%x:%d.%d.%d.%d", uint16(b[0])<<8|uint16(b[1]), uint16(b[2])<<8|uint16(b[3]), uint16(b[4])<<8|uint16(b[5]),
				uint16(b[6])<<8|uint16(b[7]), uint16(b[8])<<8|uint16(b[9]), uint16(b[10])<<8|uint16(b[11]), b[12], b[13], b[14], b[15])
			if p.Bits() == 128 && r.Bool() {
				text = full
			} else {
				text = fmt.Sprintf("%s/%d", full, p.Bits())
			}
			stats.Inc("ptext.v6_dotted_quad")
		}
		if strings.Contains(text, ".") && strings.Contains(text, ":") {
			stats.Inc("ptext.colon_and_dot")
		}
		if r.Chance(0.2) {
			text = strings.ToUpper(text)
		}
		st.Emit("ptext "+c12Tok(p), VRecover(func() string {
			var got []netip.Prefix
			parser := routing.IpParserFactory(func(f *config_parser.Function, cidrs []netip.Prefix, o *routing.Outbound) error {
				got = cidrs
				return nil
			})
			if err := parser(log, &config_parser.Function{Name: "dip"}, "", []string{text}, &routing.Outbound{Name: "direct"}); err != nil {
				return "err:" + text + ":" + err.Error()
			}
			if len(got) != 1 {
				return fmt.Sprintf("err:%d prefixes", len(got))
			}
			return "pfx=" + c12Tok(got[0])
		}))
		// the same text, parsed by the MODEL of parsePrefixes / netip.ParsePrefix
		st.Emit("ptxt "+hex.EncodeToString([]byte(text)), c12ParseText(log, text))
		stats.Inc("ptxt.valid_spelling")
	}
	c12TextStream(r, stats, st, log, nText)

	// --- stream 2: sharing decisions of the real builder (addIp / addSourceIp / addSourceMac share lpmDedup)
	nShare := 150
	if VThorough() {
		nShare = 2000
	}
	for si := 0; si < nShare; si++ {
		pool := make([][]netip.Prefix, 0)
		nDistinct := 1 + r.Intn(4)
		for i := 0; i < nDistinct; i++ {
			k := 1 + r.Intn(4)
			s := make([]netip.Prefix, k)
			for j := range s {
				s[j] = c12RandPrefix(r, stats)
			}
			pool = append(pool, s)
		}
		nUse := 2 + r.Intn(6)
		if si%4 == 1 {
			nDistinct, nUse = 6+r.Intn(6), 8+r.Intn(8) // more than 4 distinct sets: BuildUserspace takes its parallel path
			for len(pool) < nDistinct {
				k := 1 + r.Intn(4)
				s := make([]netip.Prefix, k)
				for j := range s {
					s[j] = c12RandPrefix(r, stats)
				}
				pool = append(pool, s)
			}
		}
		var sets [][]netip.Prefix
		if si%3 == 0 {
			// Constructed FNV collisions: the hash runs over an undelimited stream of
			// (prefix length, address bytes) items, 5 bytes for IPv4 and 17 for IPv6, so the canonical
			// lists {v4, v6} and {v6, v4} cut from the same 22 bytes hash equal although they differ.
			// Sequences over such pairs drive the collision branch of addIp/addSourceIp.
			var b [22]byte
			for i := range b {
				b[i] = byte(r.U64())
			}
			b[0] = byte(r.Intn(32))                        // bits of A's v4 and of B's v6
			b[17] = b[0] + 1 + byte(r.Intn(int(32-b[0]))) // bits of B's v4, > b[0] so B stays [v6, v4]
			b[5] = b[0] + byte(r.Intn(int(129-int(b[0])))) // bits of A's v6, >= b[0] so A stays [v4, v6]
			var a4, b4 [4]byte
			var a16, b16 [16]byte
			copy(a4[:], b[1:5])
			copy(a16[:], b[6:22])
			copy(b16[:], b[1:17])
			copy(b4[:], b[18:22])
			A := []netip.Prefix{netip.PrefixFrom(netip.AddrFrom4(a4), int(b[0])), netip.PrefixFrom(netip.AddrFrom16(a16), int(b[5]))}
			B := []netip.Prefix{netip.PrefixFrom(netip.AddrFrom16(b16), int(b[0])), netip.PrefixFrom(netip.AddrFrom4(b4), int(b[17]))}
			if hashLpmSet(canonicalizePrefixes(A)) == hashLpmSet(canonicalizePrefixes(B)) && !prefixesEqual(canonicalizePrefixes(A), canonicalizePrefixes(B)) {
				stats.Inc("share.constructed_collision")
				pool = append(pool, A, B)
				// make sure the colliding pair is used repeatedly and alternately
				pat := [][]int{{0, 1, 1}, {0, 1, 0, 1}, {1, 0, 0, 1, 1}, {0, 1, 1, 0, 0}}[r.Intn(4)]
				for _, k := range pat {
					src := A
					if k == 1 {
						src = B
					}
					s := append([]netip.Prefix(nil), src...)
					if r.Bool() {
						s[0], s[1] = s[1], s[0]
					}
					sets = append(sets, s)
				}
			}
		}
		for i := 0; i < nUse; i++ {
			base := pool[r.Intn(len(pool))]
			s := append([]netip.Prefix(nil), base...)
			switch r.Intn(4) {
			case 0: // permuted + duplicated → same canonical list
				r2 := r.Intn(len(s))
				s = append(s, s[r2])
				s[0], s[len(s)-1] = s[len(s)-1], s[0]
				stats.Inc("share.permuted")
			case 1: // one prefix differs by one bit of length → must not share
				if s[0].Bits() > 0 {
					s[0] = netip.PrefixFrom(s[0].Addr(), s[0].Bits()-1)
				}
				stats.Inc("share.nearmiss")
			}
			sets = append(sets, s)
		}
		// MAC sets (addSourceMac) interleaved: they take slots of the same table but are never shared,
		// and a negated rule gets the zero MAC appended
		type macSet struct {
			macs [][6]byte
			neg  bool
		}
		macAt := map[int]macSet{}
		var macPool [][6]byte
		for i := 0; i < 3; i++ {
			var m [6]byte
			binary.BigEndian.PutUint32(m[2:], uint32(r.U64()))
			macPool = append(macPool, m)
		}
		for i := range sets {
			if r.Chance(0.25) {
				ms := macSet{neg: r.Bool()}
				for j := 0; j <= r.Intn(3); j++ {
					ms.macs = append(ms.macs, macPool[r.Intn(len(macPool))])
				}
				macAt[i] = ms
				stats.Inc("share.mac_set")
			}
		}
		var toks []string
		for i, s := range sets {
			if i > 0 {
				toks = append(toks, "|")
			}
			if ms, ok := macAt[i]; ok {
				if ms.neg {
					toks = append(toks, "mac1")
				} else {
					toks = append(toks, "mac0")
				}
				for _, m := range ms.macs {
					toks = append(toks, hex.EncodeToString(m[:]))
				}
				continue
			}
			for _, p := range s {
				toks = append(toks, c12Tok(p))
			}
		}
		st.Emit("share "+strings.Join(toks, " "), VRecover(func() string {
			b := &RoutingMatcherBuilder{
				log:                 log,
				outboundName2Id:     map[string]uint8{"direct": 0, "block": 1, "proxy": 2},
				lpmDedup:            make(map[uint64]lpmDedupEntry),
				referencedOutbounds: make(map[string]struct{}),
			}
			var idx []string
			for i, s := range sets {
				f := &config_parser.Function{Name: "dip"}
				ob := &routing.Outbound{Name: "proxy"}
				var err error
				if ms, ok := macAt[i]; ok {
					f = &config_parser.Function{Name: "mac", Not: ms.neg}
					if err = b.addSourceMac(f, append([][6]byte(nil), ms.macs...), ob); err != nil {
						return "err:" + err.Error()
					}
					li := b.compiledRules[len(b.compiledRules)-1].lpmIndex
					// property-level check on the real builder: the slot holds exactly the listed MACs as
					// host routes in the 16-byte form (+ the zero MAC for a negated rule)
					want := len(ms.macs)
					if ms.neg {
						want++
					}
					if int(li) >= len(b.simulatedLpmTries) || len(b.simulatedLpmTries[li]) != want {
						return fmt.Sprintf("mac-slot-differs set=%d idx=%d", i, li)
					}
					for k, pf := range b.simulatedLpmTries[li] {
						var m [6]byte
						if k < len(ms.macs) {
							m = ms.macs[k]
						}
						var a16 [16]byte
						copy(a16[10:], m[:])
						if pf != netip.PrefixFrom(netip.AddrFrom16(a16), 128) {
							return fmt.Sprintf("mac-slot-differs set=%d idx=%d entry=%d", i, li, k)
						}
					}
					idx = append(idx, fmt.Sprint(li))
					continue
				}
				if (i+si)%2 == 0 {
					err = b.addIp(f, s, ob)
				} else {
					err = b.addSourceIp(f, s, ob)
				}
				if err != nil {
					return "err:" + err.Error()
				}
				li := b.compiledRules[len(b.compiledRules)-1].lpmIndex
				// the slot must hold this set's canonical list (property-level check on the real builder)
				if int(li) >= len(b.simulatedLpmTries) || !prefixesEqual(b.simulatedLpmTries[li], canonicalizePrefixes(s)) {
					return fmt.Sprintf("shared-slot-differs set=%d idx=%d", i, li)
				}
				idx = append(idx, fmt.Sprint(li))
			}
			out := "idx=" + strings.Join(idx, ",") + " tries=" + fmt.Sprint(len(b.simulatedLpmTries))
			// Walk the production order of a (re)load: the kernel-side snapshot is taken BEFORE the
			// userspace matcher is built and written to the kernel maps AFTER it
			// (CommitPreparedDatapath / RebuildReloadDatapath).  Whatever BuildUserspace does, the sets
			// the snapshot hands to the kernel key writer and the userspace tries must still be the
			// sets the rules list — for few sets (serial build) and many (parallel build).
			ruleSlots := make([]uint32, len(b.compiledRules))
			for i := range b.compiledRules {
				ruleSlots[i] = b.compiledRules[i].lpmIndex
			}
			if err := b.addFallback(config.FunctionOrString("direct")); err != nil {
				return "err:fallback:" + err.Error()
			}
			nTries := len(b.simulatedLpmTries)
			snap := b.KernspaceSnapshot()
			m, err := b.BuildUserspace()
			if err != nil {
				return "err:build:" + err.Error()
			}
			if nTries > 4 {
				stats.Inc("walk.parallel_build")
			} else {
				stats.Inc("walk.serial_build")
			}
			for i, s := range sets {
				li := ruleSlots[i]
				if int(li) >= len(snap.simulatedLpmTries) || int(li) >= len(m.lpmMatcher) {
					return fmt.Sprintf("walk: slot %d of set %d missing after BuildUserspace", li, i)
				}
				var want []netip.Prefix
				if ms, ok := macAt[i]; ok {
					for _, mc := range ms.macs {
						var a16 [16]byte
						copy(a16[10:], mc[:])
						want = append(want, netip.PrefixFrom(netip.AddrFrom16(a16), 128))
					}
					if ms.neg {
						want = append(want, netip.PrefixFrom(netip.AddrFrom16([16]byte{}), 128))
					}
				} else {
					want = s
				}
				keys := make([]_bpfLpmKey, 0, len(snap.simulatedLpmTries[li]))
				for _, p := range snap.simulatedLpmTries[li] {
					keys = append(keys, cidrToBpfLpmKey(p))
				}
				var probes []netip.Addr
				for _, p := range want {
					if len(probes) < 20 {
						probes = append(probes, c12Probes(r, p)...)
					}
				}
				for _, a := range probes {
					a16 := a.As16()
					sp := false
					for _, p := range want {
						if c12Contains(p, a) {
							sp = true
						}
					}
					um := m.lpmMatcher[li].HasPrefix(trie.Prefix2bin128(netip.PrefixFrom(netip.AddrFrom16(a16), 128)))
					km := c12LpmLookup(keys, a16)
					stats.Inc("walk.probe")
					if um != sp || km != sp {
						return fmt.Sprintf("walk: after snapshot+BuildUserspace set %d (slot %d) probe %s: listed=%v userspace=%v kernel-keys=%v", i, li, a, sp, um, km)
					}
				}
			}
			return out
		}))
	}
	// --- stream 3: a failing batch update must fail the build, never leave a truncated set behind
	if kern.ok {
		for mode := 0; mode < 2; mode++ {
			mode := mode
			st.Emit(fmt.Sprintf("kfault 4 9 %d", mode), VRecover(func() string {
				small, err := ebpf.NewMap(c12LpmSpec(4))
				if err != nil {
					return "refused" // environment: nothing to observe
				}
				defer small.Close()
				k2 := &c12Kern{bpf: &bpfObjects{}, ok: true}
				k2.bpf.UnusedLpmType = small
				keys := make([]_bpfLpmKey, 9)
				for i := range keys {
					keys[i] = cidrToBpfLpmKey(netip.PrefixFrom(netip.AddrFrom4([4]byte{10, 0, byte(i), 1}), 32))
				}
				m, err := k2.build(keys, mode, stats)
				stats.Inc("kern.fault_injected")
				if err != nil {
					return "refused"
				}
				defer m.Close()
				n := 0
				for i := range keys {
					var v uint32
					if m.Lookup(&keys[i], &v) == nil {
						n++
					}
				}
				return fmt.Sprintf("accepted a set of 9 into a trie of capacity 4: %d keys present", n)
			}))
		}
	}
	// --- stream 4: address-set rules end to end, generation after generation
	c12RouteStream(r, stats, st, log, kern)
	stats.Add("ops", st.N)
}


// ---------------------------------------------------------------------------------------------
// text of a set entry: the real routing.IpParserFactory (parsePrefixes) on one value
func c12ParseText(log *logrus.Logger, text string) string {
	return VRecover(func() string {
		var got []netip.Prefix
		parser := routing.IpParserFactory(func(f *config_parser.Function, cidrs []netip.Prefix, o *routing.Outbound) error {
			got = cidrs
			return nil
		})
		if err := parser(log, &config_parser.Function{Name: "ip"}, "", []string{text}, &routing.Outbound{Name: "direct"}); err != nil {
			return "err"
		}
		if len(got) != 1 {
			return fmt.Sprintf("err:%d prefixes", len(got))
		}
		return "pfx=" + c12Tok(got[0])
	})
}

// c12Spell renders a typed prefix in one of the spellings the configuration admits.
func c12Spell(r *VRand, p netip.Prefix, stats *VStats) string {
	a := p.Addr()
	host := p.Bits() == a.BitLen()
	text := p.String()
	if host && r.Chance(0.5) {
		text = a.String()
	}
	if a.Is6() && r.Chance(0.35) {
		b := a.As16()
		g := func(i int) uint16 { return uint16(b[i])<<8 | uint16(b[i+1]) }
		var t string
		switch r.Intn(3) {
		case 0: // all eight groups, no ellipsis
			t = fmt.Sprintf("%x:%x:%x:%x:%x:%x:%x:%x", g(0), g(2), g(4), g(6), g(8), g(10), g(12), g(14))
		case 1: // embedded dotted quad in the last position
			t = fmt.Sprintf("%x:%x:%x:%x:%x:%x:%d.%d.%d.%d", g(0), g(2), g(4), g(6), g(8), g(10), b[12], b[13], b[14], b[15])
			stats.Inc("spell.v6_dotted_quad")
		default: // zero-padded groups
			t = fmt.Sprintf("%04x:%04x:%04x:%04x:%04x:%04x:%04x:%04x", g(0), g(2), g(4), g(6), g(8), g(10), g(12), g(14))
		}
		if host && r.Bool() {
			text = t
		} else {
			text = fmt.Sprintf("%s/%d", t, p.Bits())
		}
	}
	if r.Chance(0.2) {
		text = strings.ToUpper(text)
	}
	return text
}

// c12TextStream: boundary lengths, malformed and mutated texts — what the real parser refuses the model
// must refuse, and what it accepts must be the same prefix.
func c12TextStream(r *VRand, stats *VStats, st *VStream, log *logrus.Logger, n int) {
	emit := func(class, text string) {
		out := c12ParseText(log, text)
		if strings.HasPrefix(out, "pfx=") {
			stats.Inc("ptxt." + class + ".accepted")
		} else {
			stats.Inc("ptxt." + class + ".refused")
		}
		st.Emit("ptxt "+hex.EncodeToString([]byte(text)), out)
	}
	directed := []string{
		"0.0.0.0/0", "::/0", "255.255.255.255/32", "255.255.255.255/33", "1.2.3.4/128", "1.2.3.4/96",
		"ffff:ffff:ffff:ffff:ffff:ffff:ffff:ffff/128", "ffff:ffff:ffff:ffff:ffff:ffff:ffff:ffff/129",
		"::ffff:1.2.3.4", "::ffff:1.2.3.4/96", "::ffff:1.2.3.4/32", "::1.2.3.4", "64:ff9b::192.0.2.1", "64:ff9b::192.0.2.1/96",
		"1:2:3:4:5:6:7.8.9.10", "1:2:3:4:5:6:7:8.9.10.11", "1:2:3:4:5:7.8.9.10", "::1:2:3:4:5:6:7.8.9.10", "1.2.3.4::", "::1.2.3.4:5",
		"1.2.3.4/08", "1.2.3.4/+8", "1.2.3.4/-0", "1.2.3.4/", "1.2.3.4/ 8", "1.2.3.4/8 ", " 1.2.3.4", "1.2.3.4/0x8", "1.2.3.4/8/8", "1.2.3.4//8",
		"01.2.3.4", "1.2.3.04", "1.2.3.256", "1.2.3", "1.2.3.4.5", "1..3.4", ".1.2.3", "1.2.3.", "1.2.3.4.", "0.0.0.0", "00.0.0.0",
		"::", ":::", "::/128", "1::", "1::/16", "::1", ":1", "1:", "1:2:3:4:5:6:7:8", "1:2:3:4:5:6:7:8:9", "1:2:3:4:5:6:7::8", "1:2:3:4:5:6:7::",
		"::2:3:4:5:6:7:8", "1:2:3:4:5:6:7:8::", "1::2::3", "1:::2", "12345::", "1234::", "g::", "::g", "fe80::1%eth0", "fe80::1%eth0/64", "fe80::1%/64", "%eth0",
		"1.2.3.4%eth0", "", "/", "/8", "abc", "1234", "::/", "::/00", "::/1", "::/128", "::/0128", "10.0.0.0/8", "10.1.2.3/8", "2001:DB8::/32", "2001:db8::/032",
		"1:2:3:4:5:6:77777:8", "1:2:3:4:5:6:1.2.3.4/128", "1:2:3:4:5:6:1.2.3.4/129", "::ffff:256.1.1.1", "::ffff:1.2.3", "::ffff:01.2.3.4", "::a.1.2.3", "::1.2.3.4.5",
		"\xff.1.2.3", "1.2.3.4\x00", "::ffff:0:0/96", "0::0", "0:0:0:0:0:0:0:0", "0:0:0:0:0:0:0:0:0", "::0.0.0.0", "::1/127", "1.1.1.1/31", "1.1.1.1/32", "1.1.1.1/1", "128.0.0.0/1",
	}
	for _, t := range directed {
		emit("directed", t)
	}
	// every length at and just beyond the limits of both families
	for _, L := range []int{0, 1, 7, 8, 9, 31, 32, 33, 95, 96, 97, 127, 128, 129, 255, 256, 1000} {
		emit("limit", fmt.Sprintf("10.1.2.3/%d", L))
		emit("limit", fmt.Sprintf("2001:db8::1/%d", L))
		emit("limit", fmt.Sprintf("::ffff:10.1.2.3/%d", L))
	}
	// mutated spellings: one or two edits of a valid text (most become invalid, some stay valid and mean
	// something else)
	alphabet := "0123456789abcdefABCDEF::..//%g +-"
	for i := 0; i < n; i++ {
		b := []byte(c12Spell(r, c12RandPrefix(r, stats), stats))
		for e := 0; e <= r.Intn(2); e++ {
			pos := r.Intn(len(b) + 1)
			c := alphabet[r.Intn(len(alphabet))]
			switch r.Intn(5) {
			case 0:
				if pos < len(b) {
					b = append(b[:pos:pos], b[pos+1:]...)
				}
			case 1:
				b = append(b[:pos:pos], append([]byte{c}, b[pos:]...)...)
			case 2:
				if pos < len(b) {
					b[pos] = c
				}
			case 3:
				if pos < len(b) {
					b = append(b[:pos:pos], append([]byte{b[pos]}, b[pos:]...)...)
				}
			default:
				b = append(b, []byte(fmt.Sprintf("/%d", r.Intn(140)))...)
			}
		}
		emit("mutated", string(b))
	}
}

// ---------------------------------------------------------------------------------------------
// Address-set rules end to end, in the shape production drives them: routing text -> config_parser ->
// config.New -> NewNormalizedProgram (optimizer chain) -> NewRoutingMatcherBuilderFromProgram ->
// KernspaceSnapshot -> BuildUserspace -> ControlPlane.Route, generation after generation; the kernel
// form of every compiled set (index bytes of the rule image -> snapshot set -> production keys -> REAL
// kernel trie) against the userspace trie the matcher reads for the same rule; older generations are
// revisited after newer builders ran (RebuildReloadDatapath re-installs from an OLD snapshot), and the
// matcher is queried from many goroutines at once.

type c12Rule struct {
	kind byte // 'D' dip/ip, 'S' sip, 'M' mac
	neg  bool
	out  int
	pfx  []netip.Prefix
	macs [][6]byte
}

type c12Pkt struct {
	src, dst netip.Addr
	mac      [6]byte
}

type c12Gen struct {
	id      int
	cp      *ControlPlane
	snap    *routingKernspaceSnapshot
	pkts    []c12Pkt
	outs    []string
	keyHash []string // per LPM slot: the production keys generated from the snapshot right after the build
	probes  [][]netip.Addr
	setAns  [][]bool // userspace answers per slot / probe
}

var c12OutNames = []string{"direct", "block", "pa", "pb", "pc"}

func c12RouteText(r *VRand, rules []c12Rule, fb int, alias bool, stats *VStats) string {
	var sb strings.Builder
	sb.WriteString("global {}\nrouting {\n")
	for _, ru := range rules {
		var vs []string
		name := "sip"
		switch ru.kind {
		case 'D':
			name = "ip"
			if alias {
				name = "dip"
			}
			fallthrough
		case 'S':
			for _, p := range ru.pfx {
				vs = append(vs, "'"+c12Spell(r, p, stats)+"'")
			}
		case 'M':
			name = "mac"
			for _, m := range ru.macs {
				t := fmt.Sprintf("%02x:%02x:%02x:%02x:%02x:%02x", m[0], m[1], m[2], m[3], m[4], m[5])
				if r.Chance(0.3) {
					t = strings.ToUpper(t)
				}
				vs = append(vs, "'"+t+"'")
			}
		}
		neg := ""
		if ru.neg {
			neg = "!"
		}
		fmt.Fprintf(&sb, "  %s%s(%s) -> %s\n", neg, name, strings.Join(vs, ", "), c12OutNames[ru.out])
	}
	fmt.Fprintf(&sb, "  fallback: %s\n}\n", c12OutNames[fb])
	return sb.String()
}

func c12RuleTokens(rules []c12Rule) string {
	var toks []string
	for _, ru := range rules {
		h := string(ru.kind)
		if ru.neg {
			h += "!"
		}
		toks = append(toks, fmt.Sprintf("%s:%d", h, ru.out))
		if ru.kind == 'M' {
			for _, m := range ru.macs {
				toks = append(toks, hex.EncodeToString(m[:]))
			}
		} else {
			for _, p := range ru.pfx {
				toks = append(toks, c12Tok(p))
			}
		}
	}
	return strings.Join(toks, " ")
}

func c12RouteOnce(cp *ControlPlane, pk c12Pkt) string {
	return VRecover(func() string {
		rr := &bpfRoutingResult{Mac: pk.mac}
		out, _, _, err := cp.Route(netip.AddrPortFrom(pk.src, 40000), netip.AddrPortFrom(pk.dst, 443), "", consts.L4ProtoType_TCP, rr)
		if err != nil {
			return "err:" + err.Error()
		}
		return fmt.Sprintf("out=%d", int(out))
	})
}

func c12KeysHash(keys []_bpfLpmKey) string {
	o := make([]string, len(keys))
	for i := range keys {
		d := *(*[16]byte)(unsafe.Pointer(&keys[i].Data[0]))
		o[i] = fmt.Sprintf("%d:%x", keys[i].PrefixLen, d)
	}
	return strings.Join(o, ",")
}

func c12RouteStream(r *VRand, stats *VStats, st *VStream, log *logrus.Logger, kern *c12Kern) {
	nProg, nPkt := 70, 24
	if VThorough() {
		nProg, nPkt = 900, 40
	}
	name2id := map[string]uint8{}
	for i, n := range c12OutNames {
		name2id[n] = uint8(i)
	}
	var window []*c12Gen
	var prevRules []c12Rule
	for gi := 0; gi < nProg; gi++ {
		nr := 1 + r.Intn(5)
		if gi%3 == 1 {
			nr = 6 + r.Intn(10) // more than 4 address sets: parallel paths
		}
		var macPool [][6]byte
		for i := 0; i < 3; i++ {
			var m [6]byte
			binary.BigEndian.PutUint32(m[2:], uint32(r.U64()))
			m[0] = byte(r.Intn(256))
			macPool = append(macPool, m)
		}
		var rules []c12Rule
		if prevRules != nil && r.Chance(0.4) {
			// a reload is usually the previous configuration, slightly edited
			for _, ru := range prevRules {
				cp := ru
				cp.pfx = append([]netip.Prefix(nil), ru.pfx...)
				cp.macs = append([][6]byte(nil), ru.macs...)
				rules = append(rules, cp)
			}
			k := r.Intn(len(rules))
			switch e := r.Intn(4); {
			case e == 0 && len(rules[k].pfx) > 0:
				j := r.Intn(len(rules[k].pfx))
				q := rules[k].pfx[j]
				nb := q.Bits() + 1 - 2*r.Intn(2)
				if nb < 1 || nb > q.Addr().BitLen() {
					nb = q.Bits()/2 + 1
				}
				rules[k].pfx[j] = netip.PrefixFrom(q.Addr(), nb)
			case e == 1:
				rules[k].neg = !rules[k].neg
			case e == 2 && len(rules[k].macs) > 0:
				rules[k].macs[r.Intn(len(rules[k].macs))][5] ^= byte(1 + r.Intn(255))
			default:
				rules[k].out = (rules[k].out + 1 + r.Intn(len(c12OutNames)-1)) % len(c12OutNames)
			}
			nr = 0
			stats.Inc("route.prog.edited_reload")
		}
		for i := 0; i < nr; i++ {
			ru := c12Rule{neg: r.Chance(0.25), out: r.Intn(len(c12OutNames))}
			switch r.Intn(5) {
			case 0, 1:
				ru.kind = 'D'
			case 2, 3:
				ru.kind = 'S'
			default:
				ru.kind = 'M'
			}
			if ru.kind == 'M' {
				for j := 0; j <= r.Intn(3); j++ {
					ru.macs = append(ru.macs, macPool[r.Intn(len(macPool))])
				}
				stats.Inc("route.rule.mac")
			} else {
				np := 1 + r.Intn(4)
				for j := 0; j < np; j++ {
					p := c12RandPrefix(r, stats)
					for p.Bits() == 0 && r.Chance(0.9) {
						p = c12RandPrefix(r, stats)
					}
					ru.pfx = append(ru.pfx, p)
				}
				if i > 0 && r.Chance(0.3) { // the same set again (dip and sip share slots), permuted, or a near twin
					for k := i - 1; k >= 0; k-- {
						if rules[k].kind != 'M' {
							ru.pfx = append([]netip.Prefix(nil), rules[k].pfx...)
							switch r.Intn(3) {
							case 0:
								ru.pfx = append(ru.pfx, ru.pfx[0])
								ru.pfx[0], ru.pfx[len(ru.pfx)-1] = ru.pfx[len(ru.pfx)-1], ru.pfx[0]
								stats.Inc("route.set.same_again")
							case 1:
								q := ru.pfx[0]
								if q.Bits() > 1 {
									ru.pfx[0] = netip.PrefixFrom(q.Addr(), q.Bits()-1)
								}
								stats.Inc("route.set.near_twin")
							default:
								stats.Inc("route.set.same_again")
							}
							break
						}
					}
				}
				stats.Inc("route.rule.ip")
			}
			if ru.neg {
				stats.Inc("route.rule.negated")
			}
			rules = append(rules, ru)
		}
		prevRules = rules
		fb := r.Intn(len(c12OutNames))
		alias := r.Bool()
		text := c12RouteText(r, rules, fb, alias, stats)
		if gi < 2 {
			stats.Sample(text)
		}
		ruleToks := c12RuleTokens(rules)
		g := &c12Gen{id: gi}
		var b *RoutingMatcherBuilder
		var m *RoutingMatcher
		buildOut := VRecover(func() string {
			sections, err := config_parser.Parse(text)
			if err != nil {
				return "err:parse:" + err.Error()
			}
			conf, err := config.New(sections)
			if err != nil {
				return "err:config:" + err.Error()
			}
			var opts []routing.RulesOptimizer
			if alias {
				opts = append(opts, &routing.AliasOptimizer{})
			}
			if r.Chance(0.7) {
				opts = append(opts, &routing.DatReaderOptimizer{Logger: log, LocationFinder: assets.NewLocationFinder(nil)},
					&routing.MergeAndSortRulesOptimizer{}, &routing.DeduplicateParamsOptimizer{})
				stats.Inc("route.prog.production_optimizers")
			}
			program, err := routing.NewNormalizedProgram(conf.Routing.Rules, conf.Routing.Fallback, opts...)
			if err != nil {
				return "err:program:" + err.Error()
			}
			if b, err = NewRoutingMatcherBuilderFromProgram(log, program, name2id, nil); err != nil {
				return "err:builder:" + err.Error()
			}
			// production order of a staged (re)load: snapshot first, userspace build second, kernel install last
			g.snap = b.KernspaceSnapshot()
			if m, err = b.BuildUserspace(); err != nil {
				return "err:build:" + err.Error()
			}
			return "ok"
		})
		if buildOut != "ok" {
			// a generated program is well-formed: the model routes it
			st.Emit(fmt.Sprintf("route 00 00 00 %d %s", fb, ruleToks), buildOut)
			continue
		}
		stats.Inc("route.prog")
		nSlots := len(g.snap.simulatedLpmTries)
		if nSlots > 4 {
			stats.Inc("route.prog.parallel_build")
		} else {
			stats.Inc("route.prog.serial_build")
		}
		g.cp = &ControlPlane{}
		g.cp.routingMatcher = m

		// --- whole-program decisions: real Route vs the model (compile with sharing, match through slots)
		for k := 0; k < nPkt; k++ {
			pk := c12Pkt{src: c12RandAddr(r), dst: c12RandAddr(r)}
			aim := rules[r.Intn(len(rules))]
			if len(aim.pfx) > 0 {
				pr := c12Probes(r, aim.pfx[r.Intn(len(aim.pfx))])
				a := pr[r.Intn(len(pr))]
				if a.Is4In6() && r.Chance(0.6) {
					a = a.Unmap()
				}
				if aim.kind == 'D' {
					pk.dst = a
				} else {
					pk.src = a
				}
			}
			switch r.Intn(4) {
			case 0: // zero MAC (no source MAC known)
			case 1:
				binary.BigEndian.PutUint32(pk.mac[2:], uint32(r.U64()))
			default:
				pk.mac = macPool[r.Intn(len(macPool))]
			}
			s16, d16 := pk.src.As16(), pk.dst.As16()
			out := c12RouteOnce(g.cp, pk)
			stats.Inc("route.decision." + out)
			g.pkts = append(g.pkts, pk)
			g.outs = append(g.outs, out)
			st.Emit(fmt.Sprintf("route %s %s %s %d %s", hex.EncodeToString(s16[:]), hex.EncodeToString(d16[:]), hex.EncodeToString(pk.mac[:]), fb, ruleToks), out)
		}

		// --- every compiled address set three ways: index bytes of the kernel rule image == index the userspace
		// matcher reads; snapshot set -> production keys -> REAL kernel trie == userspace trie == netip containment
		st.Emit(fmt.Sprintf("kcheck %d", gi), VRecover(func() string {
			if len(g.snap.rules) != len(m.compiledMatches) {
				return fmt.Sprintf("kernel image has %d rules, userspace %d", len(g.snap.rules), len(m.compiledMatches))
			}
			if len(m.lpmMatcher) != nSlots {
				return fmt.Sprintf("userspace has %d tries, snapshot %d sets", len(m.lpmMatcher), nSlots)
			}
			for i, ru := range g.snap.rules {
				switch consts.MatchType(ru.Type) {
				case consts.MatchType_IpSet, consts.MatchType_SourceIpSet, consts.MatchType_Mac:
					kidx := binary.LittleEndian.Uint32(ru.Value[:4])
					if kidx != m.compiledMatches[i].lpmIndex || int(kidx) >= nSlots {
						return fmt.Sprintf("match set %d: kernel image says slot %d, userspace reads slot %d (%d slots)", i, kidx, m.compiledMatches[i].lpmIndex, nSlots)
					}
					stats.Inc("route.kcheck.rule_index")
				}
			}
			g.keyHash = make([]string, nSlots)
			g.probes = make([][]netip.Addr, nSlots)
			g.setAns = make([][]bool, nSlots)
			for si := 0; si < nSlots; si++ {
				set := g.snap.simulatedLpmTries[si]
				if len(set) == 0 {
					return fmt.Sprintf("slot %d: the snapshot's set is empty", si)
				}
				keys := make([]_bpfLpmKey, len(set))
				for j, p := range set {
					keys[j] = cidrToBpfLpmKey(p)
				}
				g.keyHash[si] = c12KeysHash(keys)
				var kmap *ebpf.Map
				if kern.ok {
					var err error
					if kmap, err = kern.build(keys, (gi+si)%2, stats); err != nil {
						return fmt.Sprintf("slot %d: newLpmMap: %v", si, err)
					}
				}
				var probes []netip.Addr
				for _, p := range set {
					if len(probes) < 24 {
						probes = append(probes, c12Probes(r, p)...)
					}
				}
				probes = append(probes, c12RandAddr(r), c12RandAddr(r))
				for _, a := range probes {
					a16 := a.As16()
					um := m.lpmMatcher[si].HasPrefix(trie.Prefix2bin128(netip.PrefixFrom(netip.AddrFrom16(a16), 128)))
					sp := false
					for _, p := range set {
						if c12Contains(p, a) {
							sp = true
						}
					}
					km := c12Bool(c12LpmLookup(keys, a16))
					if kern.ok {
						km = c12KernLookup(kmap, a16)
					}
					stats.Inc("route.kcheck.probe")
					if c12Bool(um) != km || um != sp {
						if kmap != nil {
							_ = kmap.Close()
						}
						return fmt.Sprintf("slot %d probe %s: contained=%v userspace=%v kernel=%s", si, a, sp, um, km)
					}
					g.setAns[si] = append(g.setAns[si], um)
				}
				g.probes[si] = probes
				if kmap != nil {
					_ = kmap.Close()
				}
			}
			return "ok"
		}))

		// --- the matcher is shared by every connection handler: the same questions from 8 goroutines at once
		st.Emit(fmt.Sprintf("conc %d", gi), VRecover(func() string {
			var wg sync.WaitGroup
			var mu sync.Mutex
			var diffs []string
			for w := 0; w < 8; w++ {
				wg.Add(1)
				go func(w int) {
					defer wg.Done()
					for rep := 0; rep < 3; rep++ {
						for k := range g.pkts {
							kk := (k + w*7) % len(g.pkts)
							if out := c12RouteOnce(g.cp, g.pkts[kk]); out != g.outs[kk] {
								mu.Lock()
								diffs = append(diffs, fmt.Sprintf("packet %d: alone %s, concurrently %s", kk, g.outs[kk], out))
								mu.Unlock()
							}
						}
						for si := range g.probes {
							for pi, a := range g.probes[si] {
								a16 := a.As16()
								um := m.lpmMatcher[si].HasPrefix(trie.Prefix2bin128(netip.PrefixFrom(netip.AddrFrom16(a16), 128)))
								if um != g.setAns[si][pi] {
									mu.Lock()
									diffs = append(diffs, fmt.Sprintf("slot %d probe %s: alone %v, concurrently %v", si, a, g.setAns[si][pi], um))
									mu.Unlock()
								}
							}
						}
					}
				}(w)
			}
			wg.Wait()
			stats.Inc("route.concurrent_replay")
			if len(diffs) > 0 {
				sort.Strings(diffs)
				return "changed: " + diffs[0]
			}
			return "stable"
		}))

		// --- an OLDER generation, after newer builders ran: its matcher still answers the same, and a kernel
		// install from its (old) snapshot would write the same keys (RebuildReloadDatapath / a late commit)
		window = append(window, g)
		if len(window) > 3 {
			window = window[1:]
		}
		if len(window) >= 2 {
			old := window[r.Intn(len(window)-1)]
			st.Emit(fmt.Sprintf("regen %d %d", old.id, gi), VRecover(func() string {
				for k, pk := range old.pkts {
					if out := c12RouteOnce(old.cp, pk); out != old.outs[k] {
						return fmt.Sprintf("changed: generation %d packet %d answered %s, now %s", old.id, k, old.outs[k], out)
					}
				}
				if len(old.snap.simulatedLpmTries) != len(old.keyHash) {
					return fmt.Sprintf("changed: generation %d snapshot had %d sets, now %d", old.id, len(old.keyHash), len(old.snap.simulatedLpmTries))
				}
				for si, set := range old.snap.simulatedLpmTries {
					keys := make([]_bpfLpmKey, len(set))
					for j, p := range set {
						keys[j] = cidrToBpfLpmKey(p)
					}
					if c12KeysHash(keys) != old.keyHash[si] {
						return fmt.Sprintf("changed: generation %d slot %d: the snapshot now yields other kernel keys", old.id, si)
					}
				}
				stats.Inc("route.old_generation_revisited")
				return "stable"
			}))
		}
	}
}
