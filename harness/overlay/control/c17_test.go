package control

// C17 correspondence harness, part 3: rule-program compilation.
//
//   classes …                         lexer table (the model parses the texts itself)
//   z r|q|s <maxLen> <textHex>        compile the routing rules written in the text with the real
//                                     builders: r = NewRoutingMatcherBuilder + BuildUserspace,
//                                     q = dns.NewRequestMatcherBuilder + Build, s = dns.NewResponseMatcherBuilder + Build
//                                     answer: "ok sets=<n>" (r) | "ok" (q, s) | "err:oversize" | "err:unknownFunction" | …
//   n <textHex>                       whole pipeline Parse → config.New → optimizers → matcher builders
//                                     (traffic + DNS) under recover; answer "done" (anything else = panic)

import (
	"fmt"
	"strings"
	"testing"

	"github.com/daeuniverse/dae/common/assets"
	"github.com/daeuniverse/dae/common/consts"
	"github.com/daeuniverse/dae/component/dns"
	"github.com/daeuniverse/dae/component/routing"
	"github.com/daeuniverse/dae/config"
	"github.com/daeuniverse/dae/pkg/config_parser"
	"github.com/sirupsen/logrus"
)

func c17RulesOf(ss []*config_parser.Section) (rules []*config_parser.RoutingRule) {
	for _, s := range ss {
		for _, it := range s.Items {
			if r, ok := it.Value.(*config_parser.RoutingRule); ok {
				rules = append(rules, r)
			}
		}
	}
	return
}

func c17CompileErr(err error) string {
	msg := err.Error()
	switch {
	case strings.Contains(msg, "too many routing rules"):
		return "err:oversize"
	case strings.Contains(msg, "unknown function"):
		return "err:unknownFunction"
	case strings.Contains(msg, "function has no parameters"):
		return "err:noParams"
	}
	return "err:other:" + msg
}

var c17Name2Id = map[string]uint8{"direct": 0, "block": 1, "proxy": 2, "my_group": 3, "googledns": 4, "alidns": 5}

func c17Compile(log *logrus.Logger, which string, in string) string {
	return VRecover(func() string {
		ss, err := config_parser.Parse(in)
		if err != nil {
			return "err:parse"
		}
		rules := c17RulesOf(ss)
		switch which {
		case "r":
			b, err := NewRoutingMatcherBuilder(log, rules, c17Name2Id, nil, "direct")
			if err != nil {
				return c17CompileErr(err)
			}
			n := len(b.rules) // BuildUserspace releases b.rules
			if _, err = b.BuildUserspace(); err != nil {
				return c17CompileErr(err)
			}
			return fmt.Sprintf("ok sets=%d", n)
		case "q":
			b, err := dns.NewRequestMatcherBuilder(log, rules, c17Name2Id, "asis")
			if err != nil {
				return c17CompileErr(err)
			}
			if _, err = b.Build(); err != nil {
				return c17CompileErr(err)
			}
			return "ok"
		default:
			b, err := dns.NewResponseMatcherBuilder(log, rules, c17Name2Id, "accept")
			if err != nil {
				return c17CompileErr(err)
			}
			if _, err = b.Build(); err != nil {
				return c17CompileErr(err)
			}
			return "ok"
		}
	})
}

type c17ZGen struct {
	r     *VRand
	stats *VStats
}

func (g *c17ZGen) pick(xs ...string) string { return xs[g.r.Intn(len(xs))] }

// one condition; returns its text and the number of match sets it lowers to
func (g *c17ZGen) cond(which string) (string, int, bool) {
	neg := ""
	if g.r.Chance(0.15) {
		neg = "!"
	}
	domFn := "domain"
	if which != "r" {
		domFn = "qname"
	}
	k := g.r.Intn(9)
	if g.r.Chance(0.0003) {
		k = 9
	}
	if which == "q" && k >= 3 && k != 9 {
		k = 3 + g.r.Intn(2)
	}
	switch {
	case k < 3: // domain set(s): one per key group
		keys := []string{"suffix", "full", "keyword", "regex"}
		n := 1 + g.r.Intn(3)
		var ps []string
		used := map[string]bool{}
		for i := 0; i < n; i++ {
			key := keys[g.r.Intn(4)]
			used[key] = true
			ps = append(ps, key+": "+g.pick("example.com", "'a.b'", "x.org", "google"))
		}
		return neg + domFn + "(" + strings.Join(ps, ", ") + ")", len(used), true
	case k < 5 && which != "r": // qtype: one set per value
		n := 1 + g.r.Intn(3)
		ps := make([]string, n)
		for i := range ps {
			ps[i] = g.pick("a", "aaaa", "28", "cname", "0x10")
		}
		return neg + "qtype(" + strings.Join(ps, ", ") + ")", n, false
	case which == "s" && k < 7:
		return neg + "ip(" + g.pick("1.1.1.1", "10.0.0.0/8, '2001:db8::/32'", "'::1'") + ")", 1, false
	case which == "s":
		n := 1 + g.r.Intn(2)
		ps := make([]string, n)
		for i := range ps {
			ps[i] = g.pick("googledns", "alidns")
		}
		return neg + "upstream(" + strings.Join(ps, ", ") + ")", n, false
	case k < 5: // per value
		fn := g.pick("port", "sport", "pname", "dscp")
		n := 1 + g.r.Intn(4)
		ps := make([]string, n)
		for i := range ps {
			switch fn {
			case "pname":
				ps[i] = g.pick("curl", "'my proc'", "sshd")
			case "dscp":
				ps[i] = g.pick("8", "0x2e", "0")
			default:
				ps[i] = g.pick("80", "443", "1000-2000", "53")
			}
		}
		return neg + fn + "(" + strings.Join(ps, ", ") + ")", n, false
	case k < 9: // per group
		switch g.r.Intn(5) {
		case 0:
			return neg + "ip(" + g.pick("1.1.1.1", "10.0.0.0/8, '2001:db8::/32'", "'::1'") + ")", 1, false
		case 1:
			return neg + "sip(" + g.pick("192.168.0.0/16", "10.1.2.3") + ")", 1, false
		case 2:
			return neg + "l4proto(" + g.pick("tcp", "udp", "tcp, udp") + ")", 1, false
		case 3:
			return neg + "mac('02:42:ac:11:00:02')", 1, false
		default:
			return neg + "ipversion(" + g.pick("4", "6") + ")", 1, false
		}
	default:
		g.stats.Inc("z.unknown-function")
		return neg + g.pick("dip", "dport", "nosuch", "geosite") + "(x)", 0, false
	}
}

func (g *c17ZGen) rule(which string) (string, int, []int) {
	var conds []string
	total := 0
	var domAt []int
	n := 1
	for g.r.Chance(0.3) {
		n++
	}
	for i := 0; i < n; i++ {
		c, k, dom := g.cond(which)
		conds = append(conds, c)
		if dom {
			for j := 0; j < k; j++ {
				domAt = append(domAt, total+j)
			}
		}
		total += k
	}
	out := g.pick("direct", "proxy", "block", "my_group")
	if which == "q" {
		out = g.pick("asis", "reject", "googledns", "alidns")
	} else if which == "s" {
		out = g.pick("accept", "reject", "googledns")
	}
	return strings.Join(conds, " && ") + " -> " + out, total, domAt
}

// a program of about `target` match sets
func (g *c17ZGen) program(which string, target int) string {
	var b strings.Builder
	b.WriteString("routing {\n")
	total := 0
	lastDom := -1
	for total < target {
		r, k, domAt := g.rule(which)
		b.WriteString("  " + r + "\n")
		for _, d := range domAt {
			lastDom = total + d
		}
		total += k
	}
	b.WriteString("}\n")
	switch {
	case lastDom >= consts.MaxMatchSetLen:
		g.stats.Inc("z." + which + ".domain-set-past-limit")
	case total+1 > consts.MaxMatchSetLen:
		g.stats.Inc("z." + which + ".oversize-without-late-domain-set")
	case lastDom == consts.MaxMatchSetLen-1:
		g.stats.Inc("z." + which + ".domain-set-at-last-slot")
	default:
		g.stats.Inc("z." + which + ".within-limit")
	}
	return b.String()
}

var c17PipelineFixed = []string{
	"global{} routing{}", "global{} routing{ fallback: must_direct }", "global{} routing{ pname(x) -> must_rules }",
	"global{} routing{ domain(geosite: cn) -> direct }", "global{} routing{ domain(x) && !domain(y) -> direct(mark: 0x10000000000) }",
	"global{} routing{ dip(300.1.1.1) -> direct }", "global{} routing{ port(70000) -> direct }", "global{} routing{ port(5-1) -> direct }",
	"global{} routing{ mac(x) -> direct }", "global{} routing{ l4proto(icmp) -> direct }", "global{} routing{ dscp(999) -> direct }",
	"global{} routing{ domain(regex: '(') -> direct }", "global{} routing{ domain(regex: '\\\\') -> direct }", "global{} routing{ fallback: f(x) && g(y) }",
	"global{} routing{} dns{ upstream{ g: 'udp://8.8.8.8:53' } routing{ request{ qname(x) -> g  fallback: asis } response{ upstream(g) && ip(1.1.1.1) -> accept  fallback: g } } }",
	"global{} routing{} dns{ upstream{ 'noTag' } }", "global{} routing{} dns{ upstream{ g: '::::' } }", "global{} routing{} dns{ routing{ request{ fallback: must_asis } } }",
	"global{} routing{} dns{ routing{ request{ qtype(zzz) -> asis } } }", "global{} routing{} dns{ routing{ response{ upstream(nosuch) -> accept } } }",
	"global{} routing{} dns{ routing{ request{ fallback: f(x) && g(y) } } }", "global{} routing{} group{ g { policy: fixed(99) filter: name(x) [add_latency: zz] } }",
	"global{} routing{ domain(full: a) -> x }", "global{} routing{ domain(nokey: a) -> direct }", "global{} routing{ a() -> b }",
}

func c17Pipeline(log *logrus.Logger, stats *VStats, in string) string {
	return VRecover(func() string {
		ss, err := config_parser.Parse(in)
		if err != nil {
			return "done"
		}
		stats.Inc("pipeline.parsed")
		conf, err := config.New(ss)
		if err != nil {
			return "done"
		}
		stats.Inc("pipeline.typed")
		finder := assets.NewLocationFinder(nil)
		rules, err := routing.ApplyRulesOptimizers(conf.Routing.Rules,
			&routing.AliasOptimizer{},
			&routing.DatReaderOptimizer{Logger: log, LocationFinder: finder},
			&routing.MergeAndSortRulesOptimizer{},
			&routing.DeduplicateParamsOptimizer{},
		)
		if err == nil {
			stats.Inc("pipeline.routing.optimized")
			if b, err := NewRoutingMatcherBuilder(log, rules, c17Name2Id, nil, conf.Routing.Fallback); err == nil {
				stats.Inc("pipeline.routing.lowered")
				if _, err = b.BuildUserspace(); err == nil {
					stats.Inc("pipeline.routing.built")
				} else if strings.Contains(err.Error(), "too many routing rules") {
					stats.Inc("pipeline.routing.oversize-error")
				}
			}
		}
		_, err = dns.New(&conf.Dns, &dns.NewOption{
			Logger:                log,
			LocationFinder:        finder,
			UpstreamReadyCallback: func(*dns.Upstream) error { return nil },
		})
		if err == nil {
			stats.Inc("pipeline.dns.built")
		} else if strings.Contains(err.Error(), "too many routing rules") {
			stats.Inc("pipeline.dns.oversize-error")
		}
		return "done"
	})
}

func (g *c17ZGen) pipelineConfig() string {
	var b strings.Builder
	line := func(s string) { b.WriteString("  " + s + "\n") }
	b.WriteString("global {\n")
	for i, n := 0, g.r.Intn(4); i < n; i++ {
		line(g.pick("tproxy_port: 12345", "log_level: debug", "dial_mode: domain", "wan_interface: auto", "lan_interface: eth0,eth1", "check_interval: 30s",
			"tcp_check_url: 'http://cp.cloudflare.com,1.1.1.1'", "so_mark_from_dae: 0x800", "bootstrap_resolver: '8.8.8.8:53'", "tls_fragment_length: '50-100'", "bandwidth_max_tx: '200 mbps'"))
	}
	b.WriteString("}\n")
	if g.r.Chance(0.6) {
		b.WriteString("group {\n")
		for i, n := 0, 1+g.r.Intn(2); i < n; i++ {
			b.WriteString("  " + g.pick("proxy", "my_group") + " {\n")
			line("  policy: " + g.pick("min_moving_avg", "random", "fixed(0)", "min", "min_avg10", "fixed(x)", "f(1) && g(2)"))
			if g.r.Chance(0.5) {
				line("  filter: " + g.pick("name(keyword: 'HK')", "!name(regex: '^a')", "subtag(my_sub) && !name(x)", "name(x) [add_latency: 500ms]", "name(x) [add_latency: -1]"))
			}
			b.WriteString("  }\n")
		}
		b.WriteString("}\n")
	}
	b.WriteString("routing {\n")
	vals := func(pool ...string) string {
		n := 1 + g.r.Intn(3)
		ps := make([]string, n)
		for i := range ps {
			ps[i] = pool[g.r.Intn(len(pool))]
		}
		return strings.Join(ps, ", ")
	}
	cond := func() string {
		neg := ""
		if g.r.Chance(0.2) {
			neg = "!"
		}
		switch g.r.Intn(12) {
		case 0:
			return neg + "domain(" + vals("suffix: example.com", "full: a.b", "keyword: goo", "regex: '^a.*$'", "x.com", "domain: y.org", "contains: z", "geosite: cn", "regex: '(['", "suffix: 'É.com'", "nokey: v") + ")"
		case 1:
			return neg + "dip(" + vals("1.1.1.1", "10.0.0.0/8", "'::1'", "'2001:db8::/32'", "geoip: private", "300.1.1.1", "1.1.1.1/33", "x") + ")"
		case 2:
			return neg + "sip(" + vals("192.168.0.0/16", "10.1.2.3", "'fe80::/10'", "bad/ip") + ")"
		case 3:
			return neg + "dport(" + vals("80", "443", "1000-2000", "0", "65535", "65536", "5-1", "a-b", "-1") + ")"
		case 4:
			return neg + "sport(" + vals("80", "1-65535", "x") + ")"
		case 5:
			return neg + "l4proto(" + vals("tcp", "udp", "icmp") + ")"
		case 6:
			return neg + "pname(" + vals("curl", "'a very long process name beyond sixteen'", "''", "'é'") + ")"
		case 7:
			return neg + "mac(" + vals("'02:42:ac:11:00:02'", "'zz:zz'", "x") + ")"
		case 8:
			return neg + "ipversion(" + vals("4", "6", "5") + ")"
		case 9:
			return neg + "dscp(" + vals("8", "0x2e", "64", "999", "x") + ")"
		case 10:
			return neg + "ip(" + vals("1.1.1.1", "geoip: cn") + ")"
		default:
			return neg + g.pick("nosuch(x)", "qname(x)", "domain(k: v, k2: v2)", "port(80)")
		}
	}
	nr := g.r.Intn(8)
	if g.r.Chance(0.03) {
		nr = 300 + g.r.Intn(1200)
	}
	for i := 0; i < nr; i++ {
		s := cond()
		for g.r.Chance(0.3) {
			s += " && " + cond()
		}
		line(s + " -> " + g.pick("direct", "proxy", "block", "must_direct", "must_rules", "my_group", "proxy(mark: 0x1)", "direct(must)", "direct(mark: x)", "direct(nope: 1)", "direct(zzz)", "nosuch", "!direct(x)"))
	}
	if g.r.Chance(0.7) {
		line("fallback: " + g.pick("direct", "proxy", "must_direct", "my_group", "proxy(mark: 1)", "nosuch", "f(x) && g(y)", "'direct'"))
	}
	b.WriteString("}\n")
	if g.r.Chance(0.6) {
		b.WriteString("dns {\n")
		if g.r.Chance(0.7) {
			line("upstream {")
			for i, n := 0, 1+g.r.Intn(3); i < n; i++ {
				line("  " + g.pick("googledns: 'tcp+udp://dns.google:53'", "alidns: 'udp://dns.alidns.com:53'", "'notag'", "bad: '::::'", "g: 'https://dns.google/dns-query'", "x: ''"))
			}
			line("}")
		}
		if g.r.Chance(0.7) {
			line("routing {")
			if g.r.Chance(0.8) {
				line("  request {")
				nq := g.r.Intn(4)
				if g.r.Chance(0.03) {
					nq = 400 + g.r.Intn(900)
				}
				for i := 0; i < nq; i++ {
					line("    " + g.pick("qname(suffix: x.com)", "qname(geosite: cn)", "qtype(a, aaaa)", "qtype(zzz)", "!qname(full: a.b, keyword: c)", "qname(regex: '(')", "qname(x) && qtype(28)", "nosuch(x)", "qtype(65536)") + " -> " + g.pick("googledns", "alidns", "asis", "reject", "nosuch", "asis(must)", "googledns(mark: 1)"))
				}
				line("    fallback: " + g.pick("asis", "googledns", "reject", "nosuch", "must_asis", "asis(mark: 1)"))
				line("  }")
			}
			if g.r.Chance(0.8) {
				line("  response {")
				ns := g.r.Intn(4)
				if g.r.Chance(0.03) {
					ns = 400 + g.r.Intn(900)
				}
				for i := 0; i < ns; i++ {
					line("    " + g.pick("upstream(googledns)", "upstream(nosuch)", "upstream(k: googledns)", "ip(geoip: private)", "ip(1.1.1.1, 10.0.0.0/8)", "ip(x)", "qname(suffix: y.com)", "!qname(keyword: z) && upstream(alidns)", "qtype(a)") + " -> " + g.pick("accept", "reject", "googledns", "alidns", "nosuch", "accept(must)"))
				}
				line("    fallback: " + g.pick("accept", "reject", "googledns", "nosuch"))
				line("  }")
			}
			line("}")
		}
		line(g.pick("ipversion_prefer: 4", "ipversion_prefer: 5", "optimistic_cache_ttl: 0", "max_cache_size: 10", "bind: '127.0.0.1:5353'", "fixed_domain_ttl { a.com: 60 }", "fixed_domain_ttl { 'b.com': x }"))
		b.WriteString("}\n")
	}
	return b.String()
}

func TestVerifC17Compile(t *testing.T) {
	shard, shards := VEnvInt("VERIF_SHARD", 0), VEnvInt("VERIF_SHARDS", 1)
	r := NewVRand(VSeed()*104729 + 5 + uint64(shard))
	stats := NewVStats()
	name := fmt.Sprintf("c17z%d", shard)
	st := VOpenStream(name)
	defer func() { st.Close(); stats.Write(name) }()
	log := logrus.New()
	log.SetLevel(logrus.PanicLevel)
	g := &c17ZGen{r: r, stats: stats}
	st.Emit(c17ProbeClasses(t, stats), "classes ok")

	nz := VEnvInt("VERIF_C17_COMPILE_N", 120)
	if VThorough() {
		nz = VEnvInt("VERIF_C17_COMPILE_N", 1600)
	}
	nz /= shards
	max := consts.MaxMatchSetLen
	for i := 0; i < nz; i++ {
		which := []string{"r", "r", "q", "s"}[i%4]
		var target int
		switch g.r.Intn(6) {
		case 0:
			target = 1 + g.r.Intn(30)
		case 1:
			target = max - 40 + g.r.Intn(30) // just below
		case 2, 3:
			target = max - 6 + g.r.Intn(12) // straddling the limit
		case 4:
			target = max + 1 + g.r.Intn(60)
		default:
			target = 100 + g.r.Intn(800)
		}
		in := g.program(which, target)
		out := c17Compile(log, which, in)
		cls := out
		if strings.HasPrefix(out, "ok") {
			cls = "ok"
		} else if strings.HasPrefix(out, "err:other") {
			cls = "err:other"
		}
		stats.Inc("z." + which + ".result." + cls)
		if i < 8 && shard == 0 && len(in) < 400 {
			stats.Sample("compile " + which + ": " + in)
		}
		st.Emit(fmt.Sprintf("z %s %d %s", which, max, c17Hex(in)), out)
	}

	np := VEnvInt("VERIF_C17_PIPELINE_N", 600)
	if VThorough() {
		np = VEnvInt("VERIF_C17_PIPELINE_N", 12000)
	}
	np /= shards
	emitN := func(in string) {
		out := c17Pipeline(log, stats, in)
		if out != "done" {
			stats.Inc("pipeline.CRASH")
		}
		stats.Inc("pipeline.inputs")
		st.Emit("n "+c17Hex(in), out)
	}
	if shard == 0 {
		for _, s := range c17PipelineFixed {
			emitN(s)
		}
	}
	for i := 0; i < np; i++ {
		in := g.pipelineConfig()
		if g.r.Chance(0.15) { // delete / duplicate a random line
			lines := strings.Split(in, "\n")
			j := g.r.Intn(len(lines))
			if g.r.Bool() {
				lines = append(lines[:j], lines[j+1:]...)
			} else {
				lines = append(lines[:j+1], lines[j:]...)
			}
			in = strings.Join(lines, "\n")
			stats.Inc("pipeline.line-mutated")
		}
		if i < 2 && shard == 0 {
			stats.Sample("pipeline: " + in)
		}
		emitN(in)
	}
}
