package control

// C17 correspondence harness, part 3: rule-program compilation.
//
//   classes …                         lexer table (the model parses the texts itself)
//   z r|q|s <maxLen> <textHex>        compile the routing rules written in the text with the real
//                                     builders: r = NewRoutingMatcherBuilder + BuildUserspace,
//                                     q = dns.NewRequestMatcherBuilder + Build, s = dns.NewResponseMatcherBuilder + Build
//                                     answer: "ok sets=<n>" (r) | "ok" (q, s) | "err:oversize" | "err:unknownFunction" | …
//   y r|s <maxLen> <textHex>          the PRODUCTION path of a configuration text: Parse → config.New → the optimizer chain of
//                                     NewControlPlane (regenerated from control_plane.go: c01ProductionOptimizers) →
//                                     NewRoutingMatcherBuilderFromProgram + BuildUserspace (r) | dns.New (s: response rules);
//                                     model: parse → routing rules with patchMustOutbound → alias / merge / dedup → compileSize
//   n <textHex>                       whole pipeline Parse → config.New → optimizers (alias, geodata .dat reader over a
//                                     temp dir, merge/sort, dedup) → matcher builders (traffic + DNS);
//                                     answer "done" (anything else = panic)
//
// The z and n ops are evaluated in a CHILD process (the test binary re-executed): several stages
// spawn goroutines (DatReaderOptimizer workers, parallel LPM-trie builds) whose panics no recover
// in the harness could catch; a child that dies marks the op it was working on as `crash:…`.

import (
	"bufio"
	"bytes"
	"encoding/hex"
	"fmt"
	"os"
	"os/exec"
	"path/filepath"
	"strings"
	"testing"

	"github.com/daeuniverse/dae/common/assets"
	"github.com/daeuniverse/dae/common/consts"
	"github.com/daeuniverse/dae/component/dns"
	"github.com/daeuniverse/dae/component/outbound"
	"github.com/daeuniverse/dae/component/routing"
	"github.com/daeuniverse/dae/config"
	"github.com/daeuniverse/dae/pkg/config_parser"
	"github.com/daeuniverse/dae/pkg/geodata"
	"github.com/sirupsen/logrus"
	"google.golang.org/protobuf/proto"
)

func c17RulesOf(ss []*config_parser.Section) (rules []*config_parser.RoutingRule) {
	for _, s := range ss {
		for _, it := range s.Items {
			if r, ok := it.Value.(*config_parser.RoutingRule); ok {
				rules = append(rules, r)
			}
		}
	}
	return
}

func c17CompileErr(err error) string {
	msg := err.Error()
	switch {
	case strings.Contains(msg, "too many routing rules"):
		return "err:oversize"
	case strings.Contains(msg, "unknown function"):
		return "err:unknownFunction"
	case strings.Contains(msg, "function has no parameters"):
		return "err:noParams"
	}
	return "err:other:" + msg
}

var c17Name2Id = map[string]uint8{"direct": 0, "block": 1, "proxy": 2, "my_group": 3, "googledns": 4, "alidns": 5}

func c17Compile(log *logrus.Logger, which string, in string) string {
	return VRecover(func() string {
		ss, err := config_parser.Parse(in)
		if err != nil {
			return "err:parse"
		}
		rules := c17RulesOf(ss)
		switch which {
		case "r":
			b, err := NewRoutingMatcherBuilder(log, rules, c17Name2Id, nil, "direct")
			if err != nil {
				return c17CompileErr(err)
			}
			n := len(b.rules) // BuildUserspace releases b.rules
			if _, err = b.BuildUserspace(); err != nil {
				return c17CompileErr(err)
			}
			return fmt.Sprintf("ok sets=%d", n)
		case "q":
			b, err := dns.NewRequestMatcherBuilder(log, rules, c17Name2Id, "asis")
			if err != nil {
				return c17CompileErr(err)
			}
			if _, err = b.Build(); err != nil {
				return c17CompileErr(err)
			}
			return "ok"
		default:
			b, err := dns.NewResponseMatcherBuilder(log, rules, c17Name2Id, "accept")
			if err != nil {
				return c17CompileErr(err)
			}
			if _, err = b.Build(); err != nil {
				return c17CompileErr(err)
			}
			return "ok"
		}
	})
}

// c17Production compiles the rules of a configuration text the way the daemon does.
func c17Production(log *logrus.Logger, finder *assets.LocationFinder, which string, in string) string {
	return VRecover(func() string {
		ss, err := config_parser.Parse(in)
		if err != nil {
			return "err:parse"
		}
		conf, err := config.New(ss)
		if err != nil {
			return "err:new:" + err.Error()
		}
		if which == "r" {
			program, err := routing.NewNormalizedProgram(conf.Routing.Rules, conf.Routing.Fallback, c01ProductionOptimizers(log, finder)...)
			if err != nil {
				return "err:optimize:" + err.Error()
			}
			b, err := NewRoutingMatcherBuilderFromProgram(log, program, c17Name2Id, nil)
			if err != nil {
				return c17CompileErr(err)
			}
			n := len(b.rules)
			if _, err = b.BuildUserspace(); err != nil {
				return c17CompileErr(err)
			}
			return fmt.Sprintf("ok sets=%d", n)
		}
		if _, err = dns.New(&conf.Dns, &dns.NewOption{Logger: log, LocationFinder: finder, UpstreamReadyCallback: func(*dns.Upstream) error { return nil }}); err != nil {
			return c17CompileErr(err)
		}
		return "ok"
	})
}

// yProgram writes a configuration whose rule section is shaped for the optimizers: runs of mergeable
// single-condition rules (same function, same outbound - also `must_x` next to `x(must)`, which
// patchMustOutbound makes equal), runs that must NOT merge (negated, different outbound parameters, two
// conditions), repeated values, the aliases dip / dport and the domain keys "" / domain / contains / suffix.
// `target` is about the number of match sets BEFORE the optimizers.
func (g *c17ZGen) yProgram(which string, target int) string {
	var b strings.Builder
	if which == "r" {
		b.WriteString("global {}\nrouting {\n")
	} else {
		b.WriteString("global {}\nrouting {}\ndns {\n  upstream {\n    googledns: 'udp://8.8.8.8:53'\n    alidns: 'udp://223.5.5.5:53'\n  }\n  routing {\n    response {\n")
	}
	outs := []string{"direct", "proxy", "block", "my_group", "must_direct", "direct(must)", "proxy(mark: 1)", "proxy(mark: 2)", "must_proxy(mark: 1)", "proxy(mark: 1, must)"}
	if which != "r" {
		outs = []string{"accept", "reject", "googledns", "alidns"}
	}
	val := func(fn string, i int) string {
		switch fn {
		case "port", "dport", "sport":
			return fmt.Sprint(1 + i%60000)
		case "ip", "dip", "sip":
			if i%5 == 4 {
				return fmt.Sprintf("'2001:db8::%x'", i%65536)
			}
			return fmt.Sprintf("10.%d.%d.%d", (i>>16)&255, (i>>8)&255, i&255)
		case "pname":
			return fmt.Sprintf("p%d", i%3000)
		case "dscp":
			return fmt.Sprint(i % 64)
		case "qtype":
			return fmt.Sprint(1 + i%250)
		case "upstream":
			return []string{"googledns", "alidns"}[i%2]
		case "mac":
			return fmt.Sprintf("'02:42:ac:11:%02x:%02x'", (i>>8)&255, i&255)
		case "l4proto":
			return []string{"tcp", "udp"}[i%2]
		case "ipversion":
			return []string{"4", "6"}[i%2]
		}
		return fmt.Sprintf("d%d.example.com", i)
	}
	fns := []string{"dport", "port", "dip", "ip", "sip", "sport", "pname", "dscp", "domain", "domain", "l4proto", "mac", "ipversion"}
	if which != "r" {
		fns = []string{"qtype", "qtype", "ip", "upstream", "qname", "qname"}
	}
	cond := func(fn string, i *int, neg bool) (string, int) {
		n := 1 + g.r.Intn(3)
		var ps []string
		sets := 0
		keys := map[string]bool{}
		seen := map[string]bool{}
		for j := 0; j < n; j++ {
			v := val(fn, *i)
			if g.r.Chance(0.25) && j > 0 { // a repeated value: removed by the dedup stage
				v = val(fn, *i-1)
			} else {
				*i++
			}
			key := ""
			if fn == "domain" || fn == "qname" {
				key = g.pick("", "suffix", "full", "keyword", "domain", "contains", "regex")
				if fn == "qname" && (key == "domain" || key == "contains" || key == "") {
					key = "suffix" // the DNS chain has no alias stage: qname takes the authoritative keys only
				}
			}
			if key != "" {
				ps = append(ps, key+": "+v)
			} else {
				ps = append(ps, v)
			}
			keys[key] = true
			if !seen[key+":"+v] {
				seen[key+":"+v] = true
				sets++
			}
		}
		switch fn {
		case "domain", "qname", "ip", "dip", "sip", "l4proto", "mac", "ipversion":
			sets = len(keys)
		}
		s := fn + "(" + strings.Join(ps, ", ") + ")"
		if neg {
			s = "!" + s
		}
		return s, sets
	}
	total, i := 0, 0
	for total < target {
		fn := fns[g.r.Intn(len(fns))]
		out := outs[g.r.Intn(len(outs))]
		run := 1
		switch g.r.Intn(4) {
		case 0:
			run = 2 + g.r.Intn(6)
		case 1:
			run = 10 + g.r.Intn(60)
		}
		kind := g.r.Intn(10)
		for k := 0; k < run && total < target; k++ {
			neg := kind == 0
			c, n := cond(fn, &i, neg)
			o := out
			switch kind {
			case 1: // the outbound alternates: nothing merges
				o = outs[(k+i)%len(outs)]
			case 2: // two conditions: never merged, sorted by function name
				fn2 := fns[g.r.Intn(len(fns))]
				c2, n2 := cond(fn2, &i, g.r.Chance(0.2))
				c, n = c+" && "+c2, n+n2
			case 3: // equal after patchMustOutbound
				if which == "r" {
					o = []string{"must_direct", "direct(must)"}[k%2]
				}
			}
			b.WriteString("  " + c + " -> " + o + "\n")
			total += n
		}
		g.stats.Inc(fmt.Sprintf("y.run.kind%d", kind))
	}
	if which == "r" {
		b.WriteString("  fallback: " + g.pick("direct", "proxy", "must_direct", "my_group") + "\n}\n")
	} else {
		b.WriteString("      fallback: " + g.pick("accept", "googledns") + "\n    }\n  }\n}\n")
	}
	return b.String()
}

type c17ZGen struct {
	r     *VRand
	stats *VStats
}

func (g *c17ZGen) pick(xs ...string) string { return xs[g.r.Intn(len(xs))] }

// one condition; returns its text and the number of match sets it lowers to
func (g *c17ZGen) cond(which string) (string, int, bool) {
	neg := ""
	if g.r.Chance(0.15) {
		neg = "!"
	}
	domFn := "domain"
	if which != "r" {
		domFn = "qname"
	}
	k := g.r.Intn(9)
	if g.r.Chance(0.0003) {
		k = 9
	}
	if which == "q" && k >= 3 && k != 9 {
		k = 3 + g.r.Intn(2)
	}
	switch {
	case k < 3: // domain set(s): one per key group
		keys := []string{"suffix", "full", "keyword", "regex"}
		n := 1 + g.r.Intn(3)
		var ps []string
		used := map[string]bool{}
		for i := 0; i < n; i++ {
			key := keys[g.r.Intn(4)]
			used[key] = true
			ps = append(ps, key+": "+g.pick("example.com", "'a.b'", "x.org", "google"))
		}
		return neg + domFn + "(" + strings.Join(ps, ", ") + ")", len(used), true
	case k < 5 && which != "r": // qtype: one set per value
		n := 1 + g.r.Intn(3)
		ps := make([]string, n)
		for i := range ps {
			ps[i] = g.pick("a", "aaaa", "28", "cname", "0x10")
		}
		return neg + "qtype(" + strings.Join(ps, ", ") + ")", n, false
	case which == "s" && k < 7:
		return neg + "ip(" + g.pick("1.1.1.1", "10.0.0.0/8, '2001:db8::/32'", "'::1'") + ")", 1, false
	case which == "s":
		n := 1 + g.r.Intn(2)
		ps := make([]string, n)
		for i := range ps {
			ps[i] = g.pick("googledns", "alidns")
		}
		return neg + "upstream(" + strings.Join(ps, ", ") + ")", n, false
	case k < 5: // per value
		fn := g.pick("port", "sport", "pname", "dscp")
		n := 1 + g.r.Intn(4)
		ps := make([]string, n)
		for i := range ps {
			switch fn {
			case "pname":
				ps[i] = g.pick("curl", "'my proc'", "sshd")
			case "dscp":
				ps[i] = g.pick("8", "0x2e", "0")
			default:
				ps[i] = g.pick("80", "443", "1000-2000", "53")
			}
		}
		return neg + fn + "(" + strings.Join(ps, ", ") + ")", n, false
	case k < 9: // per group
		switch g.r.Intn(5) {
		case 0:
			return neg + "ip(" + g.pick("1.1.1.1", "10.0.0.0/8, '2001:db8::/32'", "'::1'") + ")", 1, false
		case 1:
			return neg + "sip(" + g.pick("192.168.0.0/16", "10.1.2.3") + ")", 1, false
		case 2:
			return neg + "l4proto(" + g.pick("tcp", "udp", "tcp, udp") + ")", 1, false
		case 3:
			return neg + "mac('02:42:ac:11:00:02')", 1, false
		default:
			return neg + "ipversion(" + g.pick("4", "6") + ")", 1, false
		}
	default:
		g.stats.Inc("z.unknown-function")
		return neg + g.pick("dip", "dport", "nosuch", "geosite") + "(x)", 0, false
	}
}

func (g *c17ZGen) rule(which string) (string, int, []int) {
	var conds []string
	total := 0
	var domAt []int
	n := 1
	for g.r.Chance(0.3) {
		n++
	}
	for i := 0; i < n; i++ {
		c, k, dom := g.cond(which)
		conds = append(conds, c)
		if dom {
			for j := 0; j < k; j++ {
				domAt = append(domAt, total+j)
			}
		}
		total += k
	}
	out := g.pick("direct", "proxy", "block", "my_group")
	if which == "q" {
		out = g.pick("asis", "reject", "googledns", "alidns")
	} else if which == "s" {
		out = g.pick("accept", "reject", "googledns")
	}
	return strings.Join(conds, " && ") + " -> " + out, total, domAt
}

// a program of about `target` match sets
func (g *c17ZGen) program(which string, target int) string {
	var b strings.Builder
	b.WriteString("routing {\n")
	total := 0
	lastDom := -1
	for total < target {
		r, k, domAt := g.rule(which)
		b.WriteString("  " + r + "\n")
		for _, d := range domAt {
			lastDom = total + d
		}
		total += k
	}
	b.WriteString("}\n")
	switch {
	case lastDom >= consts.MaxMatchSetLen:
		g.stats.Inc("z." + which + ".domain-set-past-limit")
	case total+1 > consts.MaxMatchSetLen:
		g.stats.Inc("z." + which + ".oversize-without-late-domain-set")
	case lastDom == consts.MaxMatchSetLen-1:
		g.stats.Inc("z." + which + ".domain-set-at-last-slot")
	default:
		g.stats.Inc("z." + which + ".within-limit")
	}
	return b.String()
}

var c17PipelineFixed = []string{
	"global{} routing{}", "global{} routing{ fallback: must_direct }", "global{} routing{ pname(x) -> must_rules }",
	"global{} routing{ domain(geosite: cn) -> direct }", "global{} routing{ domain(x) && !domain(y) -> direct(mark: 0x10000000000) }",
	"global{} routing{ dip(300.1.1.1) -> direct }", "global{} routing{ port(70000) -> direct }", "global{} routing{ port(5-1) -> direct }",
	"global{} routing{ mac(x) -> direct }", "global{} routing{ l4proto(icmp) -> direct }", "global{} routing{ dscp(999) -> direct }",
	"global{} routing{ domain(regex: '(') -> direct }", "global{} routing{ domain(regex: '\\\\') -> direct }", "global{} routing{ fallback: f(x) && g(y) }",
	"global{} routing{} dns{ upstream{ g: 'udp://8.8.8.8:53' } routing{ request{ qname(x) -> g  fallback: asis } response{ upstream(g) && ip(1.1.1.1) -> accept  fallback: g } } }",
	"global{} routing{} dns{ upstream{ 'noTag' } }", "global{} routing{} dns{ upstream{ g: '::::' } }", "global{} routing{} dns{ routing{ request{ fallback: must_asis } } }",
	"global{} routing{} dns{ routing{ request{ qtype(zzz) -> asis } } }", "global{} routing{} dns{ routing{ response{ upstream(nosuch) -> accept } } }",
	"global{} routing{} dns{ routing{ request{ fallback: f(x) && g(y) } } }", "global{} routing{} group{ g { policy: fixed(99) filter: name(x) [add_latency: zz] } }",
	"global{} routing{ domain(full: a) -> x }", "global{} routing{ domain(ext: foo) -> direct }", "global{} routing{ dip(ext: foo) -> direct }", "global{} routing{ domain(ext: '') -> direct }",
	"global{} routing{ domain(ext: 'custom.dat:cn') -> direct }", "global{} routing{ domain(geosite: cn) && dip(geoip: private) -> direct }", "global{} routing{} dns{ routing{ request{ qname(ext: foo) -> asis } } }",
	"global{} routing{} dns{ routing{ response{ ip(ext: foo) -> accept } } }", "global{} routing{ dport(ext: 'a:b') -> direct }", "global{} routing{ domain(geosite: badre) -> direct }", "global{} routing{ domain(nokey: a) -> direct }", "global{} routing{ a() -> b }",
}

// c17Counters collects the stage counters of one op (the child process reports them to the parent)
type c17Counters struct{ names []string }

func (c *c17Counters) Inc(k string) { c.names = append(c.names, k) }

func c17Pipeline(log *logrus.Logger, stats *c17Counters, finder *assets.LocationFinder, in string) string {
	return VRecover(func() string {
		ss, err := config_parser.Parse(in)
		if err != nil {
			return "done"
		}
		stats.Inc("pipeline.parsed")
		conf, err := config.New(ss)
		if err != nil {
			return "done"
		}
		stats.Inc("pipeline.typed")
		rules, err := routing.ApplyRulesOptimizers(conf.Routing.Rules,
			&routing.AliasOptimizer{},
			&routing.DatReaderOptimizer{Logger: log, LocationFinder: finder},
			&routing.MergeAndSortRulesOptimizer{},
			&routing.DeduplicateParamsOptimizer{},
		)
		if err == nil {
			stats.Inc("pipeline.routing.optimized")
			if b, err := NewRoutingMatcherBuilder(log, rules, c17Name2Id, nil, conf.Routing.Fallback); err == nil {
				stats.Inc("pipeline.routing.lowered")
				if _, err = b.BuildUserspace(); err == nil {
					stats.Inc("pipeline.routing.built")
				} else if strings.Contains(err.Error(), "too many routing rules") {
					stats.Inc("pipeline.routing.oversize-error")
				}
			}
		}
		for i := range conf.Group { // group policy / filters / annotations, as ControlPlane does before dialing
			if _, err := outbound.NewDialerSelectionPolicyFromGroupParam(&conf.Group[i]); err == nil {
				stats.Inc("pipeline.group.policy-ok")
			}
			if _, _, err := (&outbound.DialerSet{}).FilterAndAnnotate(conf.Group[i].Filter, conf.Group[i].FilterAnnotation); err == nil {
				stats.Inc("pipeline.group.filter-ok")
			}
		}
		_, err = dns.New(&conf.Dns, &dns.NewOption{
			Logger:                log,
			LocationFinder:        finder,
			UpstreamReadyCallback: func(*dns.Upstream) error { return nil },
		})
		if err == nil {
			stats.Inc("pipeline.dns.built")
		} else if strings.Contains(err.Error(), "too many routing rules") {
			stats.Inc("pipeline.dns.oversize-error")
		}
		return "done"
	})
}

func (g *c17ZGen) pipelineConfig() string {
	var b strings.Builder
	line := func(s string) { b.WriteString("  " + s + "\n") }
	b.WriteString("global {\n")
	for i, n := 0, g.r.Intn(4); i < n; i++ {
		line(g.pick("tproxy_port: 12345", "log_level: debug", "dial_mode: domain", "wan_interface: auto", "lan_interface: eth0,eth1", "check_interval: 30s",
			"tcp_check_url: 'http://cp.cloudflare.com,1.1.1.1'", "so_mark_from_dae: 0x800", "bootstrap_resolver: '8.8.8.8:53'", "tls_fragment_length: '50-100'", "bandwidth_max_tx: '200 mbps'"))
	}
	b.WriteString("}\n")
	if g.r.Chance(0.6) {
		b.WriteString("group {\n")
		for i, n := 0, 1+g.r.Intn(2); i < n; i++ {
			b.WriteString("  " + g.pick("proxy", "my_group") + " {\n")
			line("  policy: " + g.pick("min_moving_avg", "random", "fixed(0)", "min", "min_avg10", "fixed(x)", "f(1) && g(2)"))
			if g.r.Chance(0.5) {
				line("  filter: " + g.pick("name(keyword: 'HK')", "!name(regex: '^a')", "subtag(my_sub) && !name(x)", "name(x) [add_latency: 500ms]", "name(x) [add_latency: -1]"))
			}
			b.WriteString("  }\n")
		}
		b.WriteString("}\n")
	}
	b.WriteString("routing {\n")
	// pool entries before "|" are well-formed, those after it are not (taken with probability 4%)
	vals := func(pool ...string) string {
		cut := len(pool)
		for i, p := range pool {
			if p == "|" {
				cut = i
			}
		}
		n := 1 + g.r.Intn(3)
		ps := make([]string, n)
		for i := range ps {
			if cut+1 < len(pool) && g.r.Chance(0.04) {
				ps[i] = pool[cut+1+g.r.Intn(len(pool)-cut-1)]
				g.stats.Inc("pipeline.value.malformed")
			} else {
				ps[i] = pool[g.r.Intn(cut)]
			}
		}
		return strings.Join(ps, ", ")
	}
	cond := func() string {
		neg := ""
		if g.r.Chance(0.2) {
			neg = "!"
		}
		switch g.r.Intn(12) {
		case 0:
			return neg + "domain(" + vals("suffix: example.com", "full: a.b", "keyword: goo", "regex: '^a.*$'", "x.com", "domain: y.org", "contains: z", "geosite: cn", "geosite: 'cn@ads'", "ext: 'custom.dat:cn'", "ext: 'custom:cn@ads'", "geosite: empty",
				"|", "regex: '(['", "suffix: 'É.com'", "nokey: v", "geosite: nosuch", "geosite: badre", "ext: foo", "ext: 'missing.dat:cn'", "ext: 'empty.dat:cn'", "ext: ':'", "ext: ''", "ext: 'custom.dat:'", "ext: 'customip.dat:cn'") + ")"
		case 1:
			return neg + "dip(" + vals("1.1.1.1", "10.0.0.0/8", "'::1'", "'2001:db8::/32'", "geoip: private", "geoip: cn", "ext: 'customip.dat:cn'", "ext: 'customip:private'",
				"|", "300.1.1.1", "1.1.1.1/33", "x", "geoip: inv", "geoip: badip", "geoip: nosuch", "ext: foo", "ext: 'custom.dat:cn'", "ext: 'missing:x'") + ")"
		case 2:
			return neg + "sip(" + vals("192.168.0.0/16", "10.1.2.3", "'fe80::/10'", "|", "bad/ip") + ")"
		case 3:
			return neg + "dport(" + vals("80", "443", "1000-2000", "0", "65535", "|", "65536", "5-1", "a-b", "-1") + ")"
		case 4:
			return neg + "sport(" + vals("80", "1-65535", "|", "x") + ")"
		case 5:
			return neg + "l4proto(" + vals("tcp", "udp", "|", "icmp") + ")"
		case 6:
			return neg + "pname(" + vals("curl", "'a very long process name beyond sixteen'", "sshd", "|", "''", "'é'") + ")"
		case 7:
			return neg + "mac(" + vals("'02:42:ac:11:00:02'", "|", "'zz:zz'", "x") + ")"
		case 8:
			return neg + "ipversion(" + vals("4", "6", "|", "5") + ")"
		case 9:
			return neg + "dscp(" + vals("8", "0x2e", "|", "64", "999", "x") + ")"
		case 10:
			return neg + "ip(" + vals("1.1.1.1", "geoip: cn") + ")"
		default:
			if g.r.Chance(0.85) {
				return neg + "dport(" + vals("80", "443") + ")"
			}
			return neg + g.pick("nosuch(x)", "qname(x)", "domain(k: v, k2: v2)", "port(80)", "dport(ext: 'a:b')", "pname(ext: x)", "sip(geoip: private)", "mac(geosite: cn)")
		}
	}
	nr := g.r.Intn(8)
	if g.r.Chance(0.03) {
		nr = 300 + g.r.Intn(1200)
	}
	for i := 0; i < nr; i++ {
		s := cond()
		for g.r.Chance(0.3) {
			s += " && " + cond()
		}
		out := g.pick("direct", "proxy", "block", "must_direct", "must_rules", "my_group", "proxy(mark: 0x1)", "direct(must)")
		if g.r.Chance(0.02) {
			out = g.pick("direct(mark: x)", "direct(nope: 1)", "direct(zzz)", "nosuch", "!direct(x)")
		}
		line(s + " -> " + out)
	}
	if g.r.Chance(0.7) {
		line("fallback: " + g.pick("direct", "proxy", "must_direct", "my_group", "proxy(mark: 1)", "'direct'", "direct", "proxy", g.pick("nosuch", "f(x) && g(y)", "direct")))
	}
	b.WriteString("}\n")
	if g.r.Chance(0.6) {
		b.WriteString("dns {\n")
		if g.r.Chance(0.7) {
			line("upstream {")
			for i, n := 0, 1+g.r.Intn(3); i < n; i++ {
				line("  " + g.pick("googledns: 'tcp+udp://dns.google:53'", "alidns: 'udp://dns.alidns.com:53'", "'notag'", "bad: '::::'", "g: 'https://dns.google/dns-query'", "x: ''"))
			}
			line("}")
		}
		if g.r.Chance(0.7) {
			line("routing {")
			if g.r.Chance(0.8) {
				line("  request {")
				nq := g.r.Intn(4)
				if g.r.Chance(0.03) {
					nq = 400 + g.r.Intn(900)
				}
				for i := 0; i < nq; i++ {
					line("    " + g.pick("qname(suffix: x.com)", "qname(geosite: cn)", "qname(ext: foo)", "qname(ext: 'custom.dat:cn', geosite: nosuch)", "qtype(ext: 'a:b')", "qtype(a, aaaa)", "qtype(zzz)", "!qname(full: a.b, keyword: c)", "qname(regex: '(')", "qname(x) && qtype(28)", "nosuch(x)", "qtype(65536)") + " -> " + g.pick("googledns", "alidns", "asis", "reject", "nosuch", "asis(must)", "googledns(mark: 1)"))
				}
				line("    fallback: " + g.pick("asis", "googledns", "reject", "nosuch", "must_asis", "asis(mark: 1)"))
				line("  }")
			}
			if g.r.Chance(0.8) {
				line("  response {")
				ns := g.r.Intn(4)
				if g.r.Chance(0.03) {
					ns = 400 + g.r.Intn(900)
				}
				for i := 0; i < ns; i++ {
					line("    " + g.pick("upstream(googledns)", "upstream(nosuch)", "upstream(k: googledns)", "ip(geoip: private)", "ip(ext: 'customip.dat:cn')", "ip(ext: bar)", "qname(ext: foo)", "upstream(ext: 'a:b')", "ip(1.1.1.1, 10.0.0.0/8)", "ip(x)", "qname(suffix: y.com)", "!qname(keyword: z) && upstream(alidns)", "qtype(a)") + " -> " + g.pick("accept", "reject", "googledns", "alidns", "nosuch", "accept(must)"))
				}
				line("    fallback: " + g.pick("accept", "reject", "googledns", "nosuch"))
				line("  }")
			}
			line("}")
		}
		line(g.pick("ipversion_prefer: 4", "ipversion_prefer: 5", "optimistic_cache_ttl: 0", "max_cache_size: 10", "bind: '127.0.0.1:5353'", "fixed_domain_ttl { a.com: 60 }", "fixed_domain_ttl { 'b.com': x }"))
		b.WriteString("}\n")
	}
	return b.String()
}

// ---------------------------------------------------------------- geodata files for the .dat reader stage

func c17WriteGeodata(dir string) error {
	ads := &geodata.Domain_Attribute{Key: "ads", TypedValue: &geodata.Domain_Attribute_BoolValue{BoolValue: true}}
	site := &geodata.GeoSiteList{Entry: []*geodata.GeoSite{
		{CountryCode: "CN", Domain: []*geodata.Domain{
			{Type: geodata.Domain_Full, Value: "a.cn"}, {Type: geodata.Domain_RootDomain, Value: "b.cn"},
			{Type: geodata.Domain_Plain, Value: "key", Attribute: []*geodata.Domain_Attribute{ads}}, {Type: geodata.Domain_Regex, Value: "^c[0-9]+\\.cn$"},
		}},
		{CountryCode: "EMPTY"},
		{CountryCode: "BADRE", Domain: []*geodata.Domain{{Type: geodata.Domain_Regex, Value: "(["}}},
	}}
	ip := &geodata.GeoIPList{Entry: []*geodata.GeoIP{
		{CountryCode: "PRIVATE", Cidr: []*geodata.CIDR{{Ip: []byte{10, 0, 0, 0}, Prefix: 8}, {Ip: []byte{0xfc, 0, 0, 0, 0, 0, 0, 0, 0, 0, 0, 0, 0, 0, 0, 0}, Prefix: 7}}},
		{CountryCode: "CN", Cidr: []*geodata.CIDR{{Ip: []byte{1, 2, 3, 0}, Prefix: 24}}},
		{CountryCode: "INV", InverseMatch: true, Cidr: []*geodata.CIDR{{Ip: []byte{1, 2, 3, 0}, Prefix: 24}}},
		{CountryCode: "BADIP", Cidr: []*geodata.CIDR{{Ip: []byte{1, 2, 3}, Prefix: 24}}},
	}}
	for name, m := range map[string]proto.Message{"geosite.dat": site, "custom.dat": site, "geoip.dat": ip, "customip.dat": ip} {
		b, err := proto.Marshal(m)
		if err != nil {
			return err
		}
		if err = os.WriteFile(filepath.Join(dir, name), b, 0o600); err != nil {
			return err
		}
	}
	return os.WriteFile(filepath.Join(dir, "empty.dat"), nil, 0o600)
}

// ---------------------------------------------------------------- child process: evaluates z / n ops

func c17EvalOp(log *logrus.Logger, finder *assets.LocationFinder, op string, cnt *c17Counters) string {
	w := strings.Fields(op)
	unhex := func(h string) string {
		b, _ := hex.DecodeString(h)
		return string(b)
	}
	switch {
	case len(w) == 4 && w[0] == "z":
		return c17Compile(log, w[1], unhex(w[3]))
	case len(w) == 4 && w[0] == "y":
		return c17Production(log, finder, w[1], unhex(w[3]))
	case len(w) == 2 && w[0] == "n":
		return c17Pipeline(log, cnt, finder, unhex(w[1]))
	case len(w) == 1 && w[0] == "n":
		return c17Pipeline(log, cnt, finder, "")
	case len(w) == 3 && w[0] == "k":
		var n int
		fmt.Sscan(w[2], &n)
		return c17Pipeline(log, cnt, finder, c17StressInput(w[1], n))
	}
	return "bad-op"
}

func TestVerifC17Child(t *testing.T) {
	in := os.Getenv("VERIF_C17_CHILD_IN")
	if in == "" {
		t.Skip("child mode only")
	}
	log := logrus.New()
	log.SetLevel(logrus.PanicLevel)
	finder := assets.NewLocationFinder([]string{os.Getenv("VERIF_C17_GEODIR")})
	f, err := os.Open(in)
	if err != nil {
		t.Fatal(err)
	}
	defer f.Close()
	out, err := os.OpenFile(os.Getenv("VERIF_C17_CHILD_OUT"), os.O_APPEND|os.O_CREATE|os.O_WRONLY, 0o600)
	if err != nil {
		t.Fatal(err)
	}
	defer out.Close()
	sc := bufio.NewScanner(f)
	sc.Buffer(make([]byte, 1<<20), 1<<28)
	for sc.Scan() {
		var cnt c17Counters
		res := c17EvalOp(log, finder, sc.Text(), &cnt)
		// one line per op, written before the next op starts: "<result>\t<counters>"
		if _, err = out.WriteString(strings.ReplaceAll(res, "\n", "\\n") + "\t" + strings.Join(cnt.names, " ") + "\n"); err != nil {
			t.Fatal(err)
		}
	}
}

// c17StressInput builds a LONG or DEEP input for the "never crashes, whatever the input" clause (no model:
// the driver answers `done`; a dead child or a panic is the violation).
func c17StressInput(kind string, n int) string {
	rep := func(s string, k int) string { return strings.Repeat(s, k) }
	switch kind {
	case "params": // one function with n parameters (the Walker recurses once per parameter)
		return "global{} routing{ domain(" + strings.TrimSuffix(rep("suffix: a.com, ", n), ", ") + ") -> direct }"
	case "andchain":
		return "global{} routing{ " + strings.TrimSuffix(rep("dport(80) && ", n), " && ") + " -> direct }"
	case "nest":
		return rep("a{", n) + rep("}", n)
	case "nest-unclosed":
		return rep("a{", n)
	case "litlist":
		return "global{ lan_interface: " + strings.TrimSuffix(rep("eth0, ", n), ", ") + " } routing{}"
	case "items":
		return "global{} routing{} node{ " + rep("'ss://x' ", n) + "}"
	case "rules":
		return "global{} routing{ " + rep("dport(80) -> direct\n", n) + "}"
	case "annotation":
		return "global{} routing{} group{ g { policy: min filter: name(x) [" + strings.TrimSuffix(rep("k: v, ", n), ", ") + "] } }"
	case "quote":
		return "global{ log_level: '" + rep("x", n) + "' } routing{}"
	case "quote-unclosed":
		return "global{ log_level: '" + rep("x\\'", n)
	case "comment-unclosed":
		return "global{} /*" + rep(" * /", n)
	case "word":
		return "global{ log_level: " + rep("a#", n) + " } routing{}"
	case "bangs":
		return "a{" + rep("!", n) + "}"
	case "closers":
		return rep("}", n)
	case "bytes":
		r := NewVRand(uint64(n))
		b := make([]byte, n)
		for i := range b {
			b[i] = byte(r.Intn(256))
		}
		return string(b)
	}
	return ""
}

// c17RunInChild evaluates the ops in child processes; an op during which the child died is answered
// "crash:<first panic line>".
func c17RunInChild(t *testing.T, ops []string, geodir string, stats *VStats, tag string) []string {
	res := make([]string, 0, len(ops))
	dir, err := os.MkdirTemp("", "c17child")
	if err != nil {
		t.Fatal(err)
	}
	defer os.RemoveAll(dir)
	for start := 0; start < len(ops); {
		inF, outF := filepath.Join(dir, "in"), filepath.Join(dir, "out")
		_ = os.WriteFile(inF, []byte(strings.Join(ops[start:], "\n")+"\n"), 0o600)
		_ = os.Remove(outF)
		cmd := exec.Command(os.Args[0], "-test.run", "^TestVerifC17Child$", "-test.timeout", "2400s")
		cmd.Env = append(os.Environ(), "VERIF_C17_CHILD_IN="+inF, "VERIF_C17_CHILD_OUT="+outF, "VERIF_C17_GEODIR="+geodir)
		var stderr bytes.Buffer
		cmd.Stdout, cmd.Stderr = &stderr, &stderr
		runErr := cmd.Run()
		if _, isExit := runErr.(*exec.ExitError); runErr != nil && !isExit {
			// the child could not even be started (binary missing, fork failure): an environment
			// problem of the harness, never a panic of the code under test
			t.Fatalf("cannot run the child harness process %s: %v", os.Args[0], runErr)
		}
		stats.Inc("child.processes." + tag)
		b, _ := os.ReadFile(outF)
		lines := strings.Split(strings.TrimSuffix(string(b), "\n"), "\n")
		if len(b) == 0 {
			lines = nil
		}
		for _, l := range lines {
			r, c, _ := strings.Cut(l, "\t")
			res = append(res, r)
			for _, k := range strings.Fields(c) {
				stats.Inc(k)
			}
		}
		start += len(lines)
		if start >= len(ops) {
			break
		}
		// the child died while evaluating ops[start]
		msg := "child exited: " + fmt.Sprint(runErr)
		for _, l := range strings.Split(stderr.String(), "\n") {
			if strings.HasPrefix(l, "panic:") || strings.HasPrefix(l, "fatal error:") {
				msg = l
				break
			}
		}
		if !strings.HasPrefix(msg, "panic:") && !strings.HasPrefix(msg, "fatal error:") {
			t.Fatalf("the child harness process died without a Go panic trace (%s) while evaluating op %d: environment problem, not a verdict\n%s", msg, start, stderr.String())
		}
		res = append(res, "crash:goroutine:"+msg)
		stats.Inc("child.DIED." + tag)
		start++
	}
	return res
}

func TestVerifC17Compile(t *testing.T) {
	if os.Getenv("VERIF_C17_CHILD_IN") != "" {
		t.Skip("parent mode only")
	}
	shard, shards := VEnvInt("VERIF_SHARD", 0), VEnvInt("VERIF_SHARDS", 1)
	r := NewVRand(VSeed()*104729 + 5 + uint64(shard))
	stats := NewVStats()
	name := fmt.Sprintf("c17z%d", shard)
	st := VOpenStream(name)
	defer func() { st.Close(); stats.Write(name) }()
	g := &c17ZGen{r: r, stats: stats}
	st.Emit(c17ProbeClasses(t, stats), "classes ok")

	geodir, err := os.MkdirTemp("", "c17geo")
	if err != nil {
		t.Fatal(err)
	}
	defer os.RemoveAll(geodir)
	if err = c17WriteGeodata(geodir); err != nil {
		t.Fatal(err)
	}

	var ops []string
	nz := VEnvInt("VERIF_C17_COMPILE_N", 120)
	if VThorough() {
		nz = VEnvInt("VERIF_C17_COMPILE_N", 1200)
	}
	nz /= shards
	max := consts.MaxMatchSetLen
	for i := 0; i < nz; i++ {
		which := []string{"r", "r", "q", "s"}[i%4]
		var target int
		switch g.r.Intn(6) {
		case 0:
			target = 1 + g.r.Intn(30)
		case 1:
			target = max - 40 + g.r.Intn(30) // just below
		case 2, 3:
			target = max - 6 + g.r.Intn(12) // straddling the limit
		case 4:
			target = max + 1 + g.r.Intn(60)
		default:
			target = 100 + g.r.Intn(800)
		}
		in := g.program(which, target)
		if i < 8 && shard == 0 && len(in) < 400 {
			stats.Sample("compile " + which + ": " + in)
		}
		ops = append(ops, fmt.Sprintf("z %s %d %s", which, max, c17Hex(in)))
	}
	if shard == 0 { // the exact boundary: a domain set in the last slot (accepted) and one past it (rejected)
		for _, which := range []string{"r", "q", "s"} {
			for _, idx := range []int{max - 1, max} {
				fn, v, dom, out := "port", "80", "domain", "direct"
				if which != "r" {
					fn, v, dom, out = "qtype", "a", "qname", "reject"
				}
				in := "routing {\n  " + fn + "(" + strings.TrimSuffix(strings.Repeat(v+", ", idx), ", ") + ") -> " + out + "\n  " + dom + "(full: x.com) -> " + out + "\n}\n"
				ops = append(ops, fmt.Sprintf("z %s %d %s", which, max, c17Hex(in)))
				stats.Inc(fmt.Sprintf("z.boundary.domain-set-at-index-%d", idx))
			}
			// total length without any domain set: exactly MaxMatchSetLen match sets (fallback included) is
			// accepted, one more is rejected by the traffic builder (51cbe59) and accepted by the DNS matchers
			for _, total := range []int{max, max + 1} {
				fn, v, out := "port", "80", "direct"
				if which != "r" {
					fn, v, out = "qtype", "a", "reject"
				}
				in := "routing {\n  " + fn + "(" + strings.TrimSuffix(strings.Repeat(v+", ", total-1), ", ") + ") -> " + out + "\n}\n"
				ops = append(ops, fmt.Sprintf("z %s %d %s", which, max, c17Hex(in)))
				stats.Inc(fmt.Sprintf("z.boundary.total-%d", total))
			}
		}
	}
	nzOps := len(ops)

	// the production path (config.New, the optimizer chain, the builder): programs whose size BEFORE the
	// optimizers is small, around the limit, or far beyond it (merging and dedup bring many of them back)
	ny := VEnvInt("VERIF_C17_PRODUCTION_N", 80)
	if VThorough() {
		ny = VEnvInt("VERIF_C17_PRODUCTION_N", 400)
	}
	ny /= shards
	for i := 0; i < ny; i++ {
		which := []string{"r", "r", "r", "s"}[i%4]
		var target int
		switch g.r.Intn(5) {
		case 0:
			target = 1 + g.r.Intn(40)
		case 1:
			target = max - 30 + g.r.Intn(60)
		case 2:
			target = max + 1 + g.r.Intn(400)
		case 3:
			target = 2*max + g.r.Intn(2000)
		default:
			target = 200 + g.r.Intn(800)
		}
		in := g.yProgram(which, target)
		if i < 2 && shard == 0 && len(in) < 600 {
			stats.Sample("production " + which + ": " + in)
		}
		ops = append(ops, fmt.Sprintf("y %s %d %s", which, max, c17Hex(in)))
	}
	if shard == 0 { // directed: the same 1100 conditions, merged into few sets or kept apart
		rep := func(f func(i int) string, n int) string {
			var b strings.Builder
			b.WriteString("global {}\nrouting {\n")
			for i := 0; i < n; i++ {
				b.WriteString("  " + f(i) + "\n")
			}
			b.WriteString("}\n")
			return b.String()
		}
		for _, n := range []int{max - 2, max - 1, max, max + 76} {
			type dir struct {
				name string
				f    func(i int) string
			}
			for _, d := range []dir{
				{"ports-one-outbound", func(i int) string { return fmt.Sprintf("dport(%d) -> direct", 1+i) }},                                // one rule, n values: n sets
				{"ports-same-value", func(i int) string { return "dport(80) -> direct" }},                                                    // one rule, one value
				{"ips-one-outbound", func(i int) string { return fmt.Sprintf("dip(10.0.%d.%d) -> proxy", i>>8, i&255) }},                     // one rule, one group: 1 set
				{"ports-two-outbounds", func(i int) string { return fmt.Sprintf("dport(%d) -> %s", 1+i, []string{"direct", "proxy"}[i%2]) }}, // nothing merges: n sets
				{"ports-negated", func(i int) string { return fmt.Sprintf("!dport(%d) -> direct", 1+i) }},                                    // negated: never merged
				{"must-spellings", func(i int) string {
					return fmt.Sprintf("dport(%d) -> %s", 1+i, []string{"must_direct", "direct(must)"}[i%2])
				}},
				{"domain-keys-aliased", func(i int) string {
					return fmt.Sprintf("domain(%sd%d.com) -> direct", []string{"", "domain: ", "suffix: "}[i%3], i)
				}}, // one suffix group
				{"domain-keys-distinct", func(i int) string {
					return fmt.Sprintf("domain(%sd%d.com) -> direct", []string{"full: ", "keyword: ", "suffix: "}[i%3], i)
				}},
			} {
				ops = append(ops, fmt.Sprintf("y r %d %s", max, c17Hex(rep(d.f, n))))
				stats.Inc("y.directed." + d.name)
			}
		}
	}
	nyOps := len(ops)

	np := VEnvInt("VERIF_C17_PIPELINE_N", 600)
	if VThorough() {
		np = VEnvInt("VERIF_C17_PIPELINE_N", 10000)
	}
	np /= shards
	if shard == 0 {
		for _, s := range c17PipelineFixed {
			ops = append(ops, "n "+c17Hex(s))
		}
	}
	for i := 0; i < np; i++ {
		in := g.pipelineConfig()
		if g.r.Chance(0.15) { // delete / duplicate a random line
			lines := strings.Split(in, "\n")
			j := g.r.Intn(len(lines))
			if g.r.Bool() {
				lines = append(lines[:j], lines[j+1:]...)
			} else {
				lines = append(lines[:j+1], lines[j:]...)
			}
			in = strings.Join(lines, "\n")
			stats.Inc("pipeline.line-mutated")
		}
		if i < 2 && shard == 0 {
			stats.Sample("pipeline: " + in)
		}
		ops = append(ops, "n "+c17Hex(in))
	}

	if shard == 0 { // long / deep inputs
		big := 2000
		if VThorough() {
			big = 5000
		}
		for _, kind := range []string{"params", "andchain", "litlist", "items", "rules", "annotation", "quote", "quote-unclosed", "comment-unclosed", "word", "bangs", "closers", "bytes"} {
			ops = append(ops, fmt.Sprintf("k %s %d", kind, big))
			stats.Inc("stress." + kind)
		}
		for _, kind := range []string{"nest", "nest-unclosed"} {
			ops = append(ops, fmt.Sprintf("k %s %d", kind, big/10))
			stats.Inc("stress." + kind)
		}
	}
	res := c17RunInChild(t, ops, geodir, stats, "all")
	for i, op := range ops {
		out := "crash:no-answer"
		if i < len(res) {
			out = res[i]
		}
		if i >= nzOps && i < nyOps {
			which := strings.Fields(op)[1]
			cls := out
			if strings.HasPrefix(out, "ok") {
				cls = "ok"
			} else if strings.HasPrefix(out, "err:new") || strings.HasPrefix(out, "err:optimize") || strings.HasPrefix(out, "err:other") {
				cls = strings.Join(strings.SplitN(out, ":", 3)[:2], ":")
			} else if strings.HasPrefix(out, "crash") {
				cls = "CRASH"
			}
			stats.Inc("y." + which + ".result." + cls)
		} else if i < nzOps {
			which := strings.Fields(op)[1]
			cls := out
			if strings.HasPrefix(out, "ok") {
				cls = "ok"
			} else if strings.HasPrefix(out, "err:other") {
				cls = "err:other"
			} else if strings.HasPrefix(out, "crash") {
				cls = "CRASH"
			}
			stats.Inc("z." + which + ".result." + cls)
		} else {
			stats.Inc("pipeline.inputs")
			if out != "done" {
				stats.Inc("pipeline.CRASH")
			}
		}
		st.Emit(op, out)
	}
}
