package control

// C13 correspondence harness — part 4: the REAL ControlPlane.handlePkt (udp.go).
//
// Stream c13_hp: packet sequences of a few client sources and destinations, with every flow
// classification (plain / QUIC Initial / sniffer session on sniff-eligible ports), scope-sensitive
// routing on and off, different marks, scripted transport write failures (retry loop) and read errors
// in between, against a private DefaultUdpEndpointPool inside a synctest bubble.  For every packet the
// harness prints WHICH endpoint's transport carried it, the dial count, the pool table and each
// endpoint's dead/closed flags; the Lean driver evaluates DaeVerif.C13.Route.handle on the same line.
// Sniffing is switched off for the packet (skipSniffing) and the outbound group has a fixed policy,
// see the model's header.

import (
	"context"
	"errors"
	"fmt"
	"io"
	"net/netip"
	"sort"
	"strings"
	"sync"
	"sync/atomic"
	"testing"
	"testing/synctest"
	"time"

	"github.com/daeuniverse/dae/common/consts"
	ob "github.com/daeuniverse/dae/component/outbound"
	componentdialer "github.com/daeuniverse/dae/component/outbound/dialer"
	"github.com/daeuniverse/outbound/netproxy"
	"github.com/sirupsen/logrus"
)

type c13HpScript struct {
	mu     sync.Mutex
	writes []bool // outcome of the next transport writes (missing = success)
	dials  []bool // outcome of the next transport dials (missing = success)
	fails  int    // dials that failed
	last   int    // id of the conn that carried the last successful write
}

type c13HpConn struct {
	id      int
	sc      *c13HpScript
	reads   chan error
	closeCh chan struct{}
	closes  atomic.Int32
}

func (c *c13HpConn) Read(_ []byte) (int, error)  { return 0, io.EOF }
func (c *c13HpConn) Write(b []byte) (int, error) { return len(b), nil }
func (c *c13HpConn) ReadFrom(p []byte) (int, netip.AddrPort, error) {
	select {
	case <-c.closeCh:
		return 0, netip.AddrPort{}, io.EOF
	case e := <-c.reads:
		return 0, netip.AddrPort{}, e
	}
}
func (c *c13HpConn) WriteTo(b []byte, _ string) (int, error) {
	c.sc.mu.Lock()
	defer c.sc.mu.Unlock()
	ok := true
	if len(c.sc.writes) > 0 {
		ok, c.sc.writes = c.sc.writes[0], c.sc.writes[1:]
	}
	if c.closes.Load() > 0 {
		ok = false // a closed socket does not send
	}
	if !ok {
		return 0, errors.New("c13: write failed")
	}
	c.sc.last = c.id
	return len(b), nil
}
func (c *c13HpConn) Close() error {
	if c.closes.Add(1) == 1 {
		close(c.closeCh)
	}
	return nil
}
func (c *c13HpConn) SetDeadline(time.Time) error      { return nil }
func (c *c13HpConn) SetReadDeadline(time.Time) error  { return nil }
func (c *c13HpConn) SetWriteDeadline(time.Time) error { return nil }

type c13HpDialer struct {
	sc    *c13HpScript
	conns []*c13HpConn
}

func (d *c13HpDialer) DialContext(context.Context, string, string) (netproxy.Conn, error) {
	d.sc.mu.Lock()
	ok := true
	if len(d.sc.dials) > 0 {
		ok, d.sc.dials = d.sc.dials[0], d.sc.dials[1:]
	}
	if !ok {
		d.sc.fails++
	}
	d.sc.mu.Unlock()
	if !ok {
		return nil, errors.New("c13: dial failed")
	}
	c := &c13HpConn{id: len(d.conns), sc: d.sc, reads: make(chan error, 4), closeCh: make(chan struct{})}
	d.conns = append(d.conns, c)
	return c, nil
}

func c13HpDigest(u *c13HpDialer) string {
	var pool []string
	for i := range udpEndpointCreateShardCount {
		sh := &DefaultUdpEndpointPool.shards[i]
		sh.mu.RLock()
		for k, ue := range sh.pool {
			id := -1
			if c, ok := ue.conn.(*c13HpConn); ok {
				id = c.id
			}
			pool = append(pool, fmt.Sprintf("%s=%d", c13KeyShow(k), id))
		}
		sh.mu.RUnlock()
	}
	sort.Strings(pool)
	ps := "-"
	if len(pool) > 0 {
		ps = strings.Join(pool, ",")
	}
	// endpoint objects are reachable through their conns only; dead is read from the pool's view:
	// an endpoint is dead exactly when retire() ran, which also closes the conn; Remove closes without dead
	var eps []string
	for _, c := range u.conns {
		ue := c13HpEndpointOf[c]
		dead := ue != nil && ue.dead.Load()
		eps = append(eps, fmt.Sprintf("%d:d%sc%s", c.id, c13B(dead), c13B(c.closes.Load() > 0)))
	}
	es := "-"
	if len(eps) > 0 {
		es = strings.Join(eps, " ")
	}
	// what handlePkt registered with the generation's conn-state tracker: tracked tuples and holdings
	ents, refs := 0, 0
	if c13HpCore != nil {
		tr := c13HpCore.getUdpConnStateTracker()
		tr.mu.Lock()
		for _, e := range tr.entries {
			ents++
			refs += e.refs
		}
		tr.mu.Unlock()
	}
	u.sc.mu.Lock()
	fails := u.sc.fails
	u.sc.mu.Unlock()
	return fmt.Sprintf("dials=%d fails=%d eps=%s pool=%s trk=%d:%d", len(u.conns), fails, es, ps, ents, refs)
}

// the control plane's core (conn-state owner of every endpoint handlePkt creates)
var c13HpCore *controlPlaneCore

// conn -> endpoint, learnt at the yield point create.beforePublish (every endpoint object passes it)
var c13HpEndpointOf = map[*c13HpConn]*UdpEndpoint{}

func c13HpHook(name string, args ...any) {
	if name != "create.beforePublish" || len(args) == 0 {
		return
	}
	if ue, ok := args[0].(*UdpEndpoint); ok {
		if c, ok := ue.conn.(*c13HpConn); ok {
			c13HpEndpointOf[c] = ue
		}
	}
}

func c13RunHp(t *testing.T, stats *VStats) {
	s := VOpenStream("c13_hp")
	defer s.Close()
	r := NewVRand(VSeed() + 707)
	logger := logrus.New()
	logger.SetOutput(io.Discard)
	nseq := 150
	if VThorough() {
		nseq = 3000
	}
	nseq = VEnvInt("VERIF_C13_HP_SEQS", nseq)
	srcs := []netip.AddrPort{netip.MustParseAddrPort("192.168.89.3:42687"), netip.MustParseAddrPort("192.168.89.3:42688"), netip.MustParseAddrPort("[fd00::7]:5353")}
	dsts := []netip.AddrPort{netip.MustParseAddrPort("52.199.194.44:443"), netip.MustParseAddrPort("52.199.194.45:443"),
		netip.MustParseAddrPort("52.199.194.44:8443"), netip.MustParseAddrPort("52.199.194.44:27015"), netip.MustParseAddrPort("[2001:db8::9]:443")}
	for seq := 0; seq < nseq; seq++ {
		rr := r.Fork()
		synctest.Test(t, func(t *testing.T) {
			old := DefaultUdpEndpointPool
			DefaultUdpEndpointPool = NewUdpEndpointPool()
			c13HpEndpointOf = map[*c13HpConn]*UdpEndpoint{}
			verifYieldHook = c13HpHook
			sc := &c13HpScript{}
			u := &c13HpDialer{sc: sc}
			defer func() {
				DefaultUdpEndpointPool.Close()
				for _, c := range u.conns {
					if ue := c13HpEndpointOf[c]; ue != nil {
						_ = ue.Close()
					}
					_ = c.Close()
				}
				synctest.Wait()
				DefaultUdpEndpointPool = old
				verifYieldHook = nil
			}()
			// fixed-policy groups ignore dialer health (their endpoints sit in transport buckets only); the
			// others register their endpoints with the dialer so that an invalidation can find them
			policy := ob.DialerSelectionPolicy{Policy: consts.DialerSelectionPolicy_Fixed, FixedIndex: 0}
			healthAware := rr.Chance(0.5)
			if healthAware {
				policy = ob.DialerSelectionPolicy{Policy: consts.DialerSelectionPolicy_Random}
				stats.Inc("hp.seq.healthAwareGroup")
			} else {
				stats.Inc("hp.seq.fixedGroup")
			}
			d := componentdialer.NewDialer(u, &componentdialer.GlobalOption{Log: logger, CheckInterval: time.Hour},
				componentdialer.InstanceOption{DisableCheck: true}, &componentdialer.Property{})
			grp := ob.NewDialerGroup(&componentdialer.GlobalOption{Log: logger, CheckInterval: time.Hour}, "g",
				[]*componentdialer.Dialer{d}, []*componentdialer.Annotation{{}},
				policy,
				func(bool, *componentdialer.NetworkType, bool) {})
			outbounds := make([]*ob.DialerGroup, int(consts.OutboundUserDefinedMin)+1)
			outbounds[consts.OutboundUserDefinedMin] = grp
			c13HpCore = &controlPlaneCore{log: logger}
			c13HpCore.udpConnStateTracker.Store(newUdpConnStateTracker())
			cp := &ControlPlane{log: logger, core: c13HpCore, controlPlaneGenerationState: controlPlaneGenerationState{outbounds: outbounds}}
			cp.udpRouteScopeSensitive = rr.Chance(0.4)
			s.Emit(fmt.Sprintf("hp consts %d %s %d %d", MaxRetry, c13SniffPortRanges(), udpEndpointJanitorInterval.Milliseconds(), c13FailureTtlMs()), "ok")
			s.Emit("hp reset", "ok")
			// a sequence concentrates on one or two flows so that classification changes hit live endpoints
			nsrc, ndst := 1+rr.Intn(2), 1+rr.Intn(3)
			nops := 4 + rr.Intn(16)
			elapsedMs := 0
			for i := 0; i < nops; i++ {
				// virtual time passes (the negative cache forgets a failed dial after its lifetime, the janitor
				// collects the marker at its next tick); a sequence stays shorter than the shortest NAT timeout
				if rr.Chance(0.12) && elapsedMs < 18000 {
					f := int(c13FailureTtlMs())
					ms := []int{100, 250, 1000, f - 1, f, f + 1, f + 250, 3000}[rr.Intn(8)]
					elapsedMs += ms
					time.Sleep(time.Duration(ms) * time.Millisecond)
					synctest.Wait()
					stats.Inc("hp.adv")
					s.Emit(fmt.Sprintf("hp adv %d", ms), c13HpDigest(u))
					continue
				}
				if len(u.conns) > 0 && rr.Chance(0.1) {
					c := u.conns[rr.Intn(len(u.conns))]
					if c.closes.Load() == 0 {
						c.reads <- errors.New("c13: read failed")
						synctest.Wait()
					}
					stats.Inc("hp.kill")
					s.Emit(fmt.Sprintf("hp kill %d", c.id), c13HpDigest(u))
					continue
				}
				if rr.Chance(0.07) {
					// the dialer's health flips: endpoints that carried traffic survive (all of handlePkt's have
					// sent by the time it returns), so the flows keep their endpoints
					nt := &componentdialer.NetworkType{L4Proto: consts.L4ProtoStr_UDP, IpVersion: consts.IpVersionStr_4, UdpHealthDomain: componentdialer.UdpHealthDomainData}
					if rr.Bool() {
						nt.IpVersion = consts.IpVersionStr_6
					}
					n := DefaultUdpEndpointPool.InvalidateDialerNetworkType(d, nt)
					synctest.Wait()
					stats.Inc("hp.inval")
					s.Emit("hp inval", fmt.Sprintf("removed=%d %s", n, c13HpDigest(u)))
					continue
				}
				src, dst := srcs[rr.Intn(nsrc)], dsts[rr.Intn(ndst)]
				if rr.Chance(0.1) {
					src, dst = srcs[rr.Intn(len(srcs))], dsts[rr.Intn(len(dsts))]
				}
				// the packet's classification comes from the production classifier (payload: plain bytes or
				// something that looks like a QUIC Initial); whether a sniffer session exists for the flow
				// is the one input set by hand
				x := rr.Intn(4)
				payload, ptok := []byte{1, 2, 3, 4, 5, 6, 7, 8}, "plain"
				if x == 0 || x == 2 {
					payload, ptok = []byte{0xC0, 0, 0, 0, 1, 8, 1, 2, 3, 4, 5, 6, 7, 8, 0}, "quic"
				}
				fd := ClassifyUdpFlow(src, dst, payload)
				s.Emit(fmt.Sprintf("hp classify %s %s %s", c13ApTok(src), c13ApTok(dst), ptok),
					fmt.Sprintf("al=%s qi=%s hs=%s sameKey=%s", c13B(fd.AllowsSniffing), c13B(fd.IsQuicInitial), c13B(fd.HasSnifferSession),
						c13B(fd.Key == NewUdpFlowKey(src, dst))))
				stats.Inc("hp.classify." + ptok)
				cls := "plain"
				if fd.AllowsSniffing {
					switch x {
					case 0:
						cls = "initial"
					case 1:
						fd.HasSnifferSession, cls = true, "session"
					case 2:
						fd.HasSnifferSession, cls = true, "initial+session"
					}
				} else {
					cls = "notEligible"
				}
				rt := &bpfRoutingResult{Outbound: uint8(consts.OutboundUserDefinedMin), Mark: uint32(rr.Intn(2))}
				ws := "-"
				sc.mu.Lock()
				sc.writes = nil
				if rr.Chance(0.25) {
					var b strings.Builder
					for j, n := 0, 1+rr.Intn(4); j < n; j++ {
						ok := rr.Chance(0.35)
						sc.writes = append(sc.writes, ok)
						b.WriteString(c13B(ok))
					}
					ws = b.String()
					stats.Inc("hp.pkt.withWriteFailures")
				}
				// scripted dial outcomes (a failing dial at the first or at a later attempt of the retry loop);
				// only with a fixed-policy group: a health-aware group would also react to the reported failure
				ds := "-"
				sc.dials = nil
				if !healthAware && rr.Chance(0.4) {
					var b strings.Builder
					for j, n := 0, 1+rr.Intn(3); j < n; j++ {
						ok := rr.Chance(0.3)
						sc.dials = append(sc.dials, ok)
						b.WriteString(c13B(ok))
					}
					ds = b.String()
					stats.Inc("hp.pkt.withDialScript")
				}
				failsBefore := sc.fails
				sc.last = -1
				sc.mu.Unlock()
				rtTok := fmt.Sprintf("%d %d %d %s %s", rt.Outbound, rt.Mark, rt.Dscp, "00000000000000000000000000000000", "000000000000")
				before := len(u.conns)
				err := cp.handlePkt(nil, []byte{1, 2, 3, 4}, src, dst, rt, fd, true)
				synctest.Wait()
				sc.mu.Lock()
				carried := "none"
				if sc.last >= 0 {
					carried = fmt.Sprintf("e%d", sc.last)
				}
				failedDials := sc.fails - failsBefore
				sc.dials = nil
				sc.mu.Unlock()
				// an error with the packet sent is a disagreement; a packet dropped without an error is what the
				// negative cache does (ErrEndpointFailed is swallowed; dial errors are logged rate-limited)
				if err != nil && carried != "none" {
					carried += fmt.Sprintf(" err=%v", err)
				}
				if failedDials > 0 {
					stats.Inc("hp.pkt.dialFailed")
				}
				if carried == "none" && failedDials == 0 && ds == "-" && ws == "-" {
					stats.Inc("hp.pkt.blockedByNegativeCache")
				}
				stats.Inc("hp.pkt." + cls)
				switch {
				case carried == "none":
					stats.Inc("hp.outcome.dropped")
				case len(u.conns) > before:
					stats.Inc("hp.outcome.dialled")
				default:
					stats.Inc("hp.outcome.reused")
				}
				s.Emit(fmt.Sprintf("hp pkt %s %s %s %s %s %s %s %s %s", c13ApTok(src), c13ApTok(dst), c13B(fd.HasSnifferSession),
					c13B(fd.IsQuicInitial), c13B(fd.AllowsSniffing), c13B(cp.udpRouteScopeSensitive), ws, ds, rtTok),
					fmt.Sprintf("carried=%s %s", carried, c13HpDigest(u)))
			}
		})
	}
	stats.Add("hp.ops", s.N)
}
