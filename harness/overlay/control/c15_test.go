package control

// C15 correspondence harness, control/dial.go part: the REAL ControlPlane.chooseProxyDialer
// (selection type from the flow's addresses, strictness from the dial mode, the caller-side
// "retry the other family" step, the exclusion passed through) over a real DialerGroup whose
// members are driven through the production state-changing paths (dialer shim, see
// harness/overlay/component/outbound/dialer/c15_shim.go).  Model side: `chooseSelectAll`.
//
// Ops (same driver as the outbound harness): world / group / sample / told / pen / policy, and
//   choose <t|u> <4|6> 0 2 <strict> <excl|->     the selection network type chooseProxyDialer derives
// answered with `ok d:sel:fam` (node, admitting domain, family handed to the dial) for every admissible answer.

import (
	"context"
	"errors"
	"fmt"
	"io"
	"net/netip"
	"sort"
	"strconv"
	"strings"
	"testing"
	"time"

	"github.com/daeuniverse/dae/common/consts"
	ob "github.com/daeuniverse/dae/component/outbound"
	"github.com/daeuniverse/dae/component/outbound/dialer"
	"github.com/daeuniverse/outbound/netproxy"
	"github.com/sirupsen/logrus"
)

type c15cNoop struct{}

func (c15cNoop) DialContext(context.Context, string, string) (netproxy.Conn, error) {
	return nil, errors.New("not implemented")
}

type c15cWorld struct {
	n       int
	opt     *dialer.GlobalOption
	dialers []*dialer.Dialer
	types   [6]*dialer.NetworkType
	g       *ob.DialerGroup
	cp      *ControlPlane
	cbs     []string
	pens    [][6]int64
	policy  consts.DialerSelectionPolicy
	lastSel int
	st      *VStream
	stats   *VStats
}

func c15cNewDialer(opt *dialer.GlobalOption, name string) *dialer.Dialer {
	ctx, cancel := context.WithCancel(context.Background())
	cancel()
	p := &dialer.Property{}
	p.Name = name
	return dialer.NewDialerContext(ctx, c15cNoop{}, opt, dialer.InstanceOption{DisableCheck: true}, p)
}

func c15cNewWorld(st *VStream, stats *VStats, n int) *c15cWorld {
	lg := logrus.New()
	lg.SetOutput(io.Discard)
	lg.SetLevel(logrus.PanicLevel)
	w := &c15cWorld{n: n, st: st, stats: stats, lastSel: -1}
	w.opt = &dialer.GlobalOption{Log: lg, CheckInterval: 30 * time.Second}
	for i := 0; i < n; i++ {
		w.dialers = append(w.dialers, c15cNewDialer(w.opt, "n"+strconv.Itoa(i)))
	}
	for i, k := range dialer.StandardHealthKeys() {
		w.types[i] = k.NetworkType()
	}
	w.pens = make([][6]int64, n)
	st.Emit(fmt.Sprintf("world %d", n), "ok")
	return w
}

func (w *c15cWorld) takeCbs() string {
	s := "cb=[" + strings.Join(w.cbs, ",") + "]"
	w.cbs = w.cbs[:0]
	return s
}

func (w *c15cWorld) setDump(t int) string {
	set := w.g.MustGetAliveDialerSet(w.types[t])
	if set == nil {
		return "nosets"
	}
	return dialer.VerifC15SetDump(set, w.dialers)
}

func (w *c15cWorld) groupDump() string {
	if w.g.MustGetAliveDialerSet(w.types[0]) == nil {
		return "nosets"
	}
	parts := make([]string, 6)
	for t := 0; t < 6; t++ {
		parts[t] = w.setDump(t)
	}
	return strings.Join(parts, " | ")
}

func (w *c15cWorld) makeGroup(tol int64, pol consts.DialerSelectionPolicy, fixedIdx int, offs []int64) {
	w.opt.CheckTolerance = time.Duration(tol)
	ann := make([]*dialer.Annotation, w.n)
	os := make([]string, w.n)
	for i := range ann {
		ann[i] = &dialer.Annotation{AddLatency: time.Duration(offs[i])}
		os[i] = strconv.FormatInt(offs[i], 10)
	}
	op := fmt.Sprintf("group %d %s %d %s", tol, pol, fixedIdx, strings.Join(os, ","))
	out := VRecover(func() string {
		w.g = ob.NewDialerGroup(w.opt, "g", w.dialers, ann, ob.DialerSelectionPolicy{Policy: pol, FixedIndex: fixedIdx},
			func(alive bool, nt *dialer.NetworkType, isInit bool) {
				s := strconv.Itoa(nt.Index() - 2)
				if alive {
					s += "+"
				} else {
					s += "-"
				}
				if isInit {
					s += "i"
				}
				w.cbs = append(w.cbs, s)
			})
		w.policy = pol
		return w.takeCbs() + " " + w.groupDump()
	})
	w.st.Emit(op, out)
	// outbounds[0], [1] are the reserved direct/block slots; the group under test is user outbound 2.
	w.cp = &ControlPlane{log: w.opt.Log}
	w.cp.outbounds = []*ob.DialerGroup{w.g, w.g, w.g}
	w.cp.dialMode = consts.DialMode_DomainPlus
}

func (w *c15cWorld) syncPens(d int) {
	for t := 0; t < 6; t++ {
		v := int64(dialer.VerifC15Penalty(w.dialers[d], w.types[t]))
		if v != w.pens[d][t] {
			w.pens[d][t] = v
			w.st.Emit(fmt.Sprintf("pen %d %d %d", t, d, v), "ok")
		}
	}
}

func (w *c15cWorld) sample(t, d int, lat int64) {
	out := VRecover(func() string {
		dialer.VerifC15Sample(w.dialers[d], w.types[t], time.Duration(lat))
		return w.takeCbs() + " " + w.setDump(t)
	})
	w.st.Emit(fmt.Sprintf("sample %d %d %d", t, d, lat), out)
	w.syncPens(d)
}

func (w *c15cWorld) kill(t, d int, force bool) {
	alive, _, inform := dialer.VerifC15Fail(w.dialers[d], w.types[t], force, false)
	w.syncPens(d)
	a := "0"
	if alive {
		a = "1"
	}
	out := VRecover(func() string {
		inform()
		return w.takeCbs() + " " + w.setDump(t)
	})
	w.st.Emit(fmt.Sprintf("told %d %d %s", t, d, a), out)
}

func (w *c15cWorld) setPolicy(pol consts.DialerSelectionPolicy, fixedIdx int) {
	out := VRecover(func() string {
		w.g.SetSelectionPolicy(ob.DialerSelectionPolicy{Policy: pol, FixedIndex: fixedIdx})
		w.policy = pol
		return w.takeCbs() + " " + w.groupDump()
	})
	w.st.Emit(fmt.Sprintf("policy %s %d", pol, fixedIdx), out)
}

var (
	c15cV4a = netip.MustParseAddrPort("10.1.2.3:40000")
	c15cV4b = netip.MustParseAddrPort("93.184.216.34:443")
	c15cV6a = netip.MustParseAddrPort("[fd00::5]:40000")
	c15cV6b = netip.MustParseAddrPort("[2606:2800:220:1::1]:443")
)

func (w *c15cWorld) choose(udp, src6, dst6, withDomain bool, excl int) {
	p := &proxyDialParam{Outbound: consts.OutboundUserDefinedMin, Network: "tcp", Src: c15cV4a, Dest: c15cV4b}
	if udp {
		p.Network = "udp"
	}
	if src6 {
		p.Src = c15cV6a
	}
	if dst6 {
		p.Dest = c15cV6b
	}
	if withDomain {
		p.Domain = "example.com" // dial_mode domain+ : dial by name, so the IP family is not binding
	}
	exs := "-"
	if excl >= 0 {
		p.Excluded = w.dialers[excl]
		exs = strconv.Itoa(excl)
	}
	// what chooseProxyDialer derives (dial.go): family of the destination, except UDP follows the client
	sel6 := dst6
	if udp && src6 != dst6 {
		sel6 = src6
	}
	l4, ip := "t", "4"
	if udp {
		l4 = "u"
	}
	if sel6 {
		ip = "6"
	}
	strict := !withDomain
	op := fmt.Sprintf("choose %s %s 0 2 %s %s", l4, ip, map[bool]string{true: "1", false: "0"}[strict], exs)
	draws := 1
	if w.policy == consts.DialerSelectionPolicy_Random {
		draws = 6
	}
	out := VRecover(func() string {
		seen := map[string]bool{}
		for i := 0; i < draws; i++ {
			res, err := w.cp.chooseProxyDialer(context.Background(), p)
			if err != nil {
				switch {
				case errors.Is(err, ob.ErrNoAliveDialer):
					seen["err=noalive"] = true
					w.stats.Inc("choose.noalive")
				default:
					seen["err=other"] = true
				}
				continue
			}
			if res == nil || res.Dialer == nil || res.AdmissionNetworkTypeObj == nil {
				seen["err=ok-with-nil"] = true
				continue
			}
			if res.IsDialIp != strict {
				seen["err=strictness-differs"] = true
			}
			di := -7
			for j, x := range w.dialers {
				if x == res.Dialer {
					di = j
				}
			}
			w.lastSel = di
			// node, admitting domain, family handed to the dial (SelectionNetworkTypeObj and, for UDP, the
			// magic network string must agree)
			fam := "?"
			if res.SelectionNetworkTypeObj != nil {
				fam = string(res.SelectionNetworkTypeObj.IpVersion)
				if udp {
					if mn, err := netproxy.ParseMagicNetwork(res.Network); err != nil || mn.IPVersion != fam {
						fam = "network-string-disagrees"
					}
				}
			}
			seen[fmt.Sprintf("%d:%d:%s", di, res.AdmissionNetworkTypeObj.Index()-2, fam)] = true
			if i == 0 {
				w.stats.Inc("choose.ok")
				if res.SelectionNetworkTypeObj != nil && (res.SelectionNetworkTypeObj.IpVersion == consts.IpVersionStr_6) != sel6 {
					w.stats.Inc("choose.other_family")
				}
				if di == excl {
					w.stats.Inc("choose.returned_excluded")
				}
			}
		}
		var oks, errs []string
		for k := range seen {
			if strings.HasPrefix(k, "err=") {
				errs = append(errs, k)
			} else {
				oks = append(oks, k)
			}
		}
		sort.Strings(oks)
		sort.Strings(errs)
		switch {
		case len(errs) == 0:
			return "ok " + strings.Join(oks, ",")
		case len(oks) == 0 && len(errs) == 1:
			return errs[0]
		default:
			return "mixed:" + strings.Join(append(oks, errs...), ",")
		}
	})
	w.st.Emit(op, out)
	w.stats.Inc("op.choose")
}

func TestVerifC15Dial(t *testing.T) {
	r := NewVRand(VSeed() + 77)
	stats := NewVStats()
	st := VOpenStream("c15dial")
	defer func() { st.Close(); stats.Write("c15dial") }()

	nScen := 120
	if VThorough() {
		nScen = 3000
	}
	pols := []consts.DialerSelectionPolicy{
		consts.DialerSelectionPolicy_MinLastLatency, consts.DialerSelectionPolicy_MinLastLatency,
		consts.DialerSelectionPolicy_MinAverage10Latencies, consts.DialerSelectionPolicy_MinMovingAverageLatencies,
		consts.DialerSelectionPolicy_Random, consts.DialerSelectionPolicy_Fixed,
	}
	for si := 0; si < nScen; si++ {
		n := 1 + r.Intn(4)
		if r.Chance(0.3) {
			n = 1
		}
		w := c15cNewWorld(st, stats, n)
		tol := []int64{0, 10, 50}[r.Intn(3)]
		offs := make([]int64, n)
		for i := range offs {
			if r.Chance(0.3) {
				offs[i] = []int64{5, 50, -3}[r.Intn(3)]
			}
		}
		w.makeGroup(tol, pols[r.Intn(len(pols))], r.Intn(n), offs)
		fam := r.Intn(2)
		nOps := 15 + r.Intn(40)
		for i := 0; i < nOps; i++ {
			ty := []int{0, 2, 4}[r.Intn(3)] + fam
			if r.Chance(0.3) {
				ty = r.Intn(6)
			}
			switch x := r.Intn(100); {
			case x < 20:
				w.sample(ty, r.Intn(n), []int64{1, 10, 49, 50, 51, 60, 100, 110}[r.Intn(8)])
			case x < 42:
				w.kill(ty, r.Intn(n), true)
			case x < 50:
				for d := 0; d < n; d++ {
					w.kill(ty, d, true)
				}
			case x < 55:
				w.setPolicy(pols[r.Intn(len(pols))], r.Intn(n))
			default:
				excl := -1
				switch y := r.Intn(10); {
				case y < 4:
				case y < 7:
					if w.lastSel >= 0 && w.lastSel < n {
						excl = w.lastSel
					}
				default:
					excl = r.Intn(n)
				}
				src6 := fam == 1
				dst6 := fam == 1
				if r.Chance(0.25) {
					dst6 = !dst6
				}
				if r.Chance(0.15) {
					src6 = !src6
				}
				w.choose(r.Chance(0.6), src6, dst6, r.Chance(0.5), excl)
			}
		}
		_ = w.g.Close()
	}
	stats.Add("ops", st.N)
}
