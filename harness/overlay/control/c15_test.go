package control

// C15 correspondence harness, control/dial.go part: the REAL ControlPlane.chooseProxyDialer
// (selection type from the flow's addresses, strictness from the dial mode, the caller-side
// "retry the other family" step, the exclusion passed through) over a real DialerGroup whose
// members are driven through the production state-changing paths (dialer shim, see
// harness/overlay/component/outbound/dialer/c15_shim.go).  Model side: `chooseSelectAll`.
//
// Ops (same driver as the outbound harness): world / group / sample / told / pen / policy, and
//   choose <t|u> <4|6> 0 2 <strict> <excl|->     the selection network type chooseProxyDialer derives
//   dial <i|p|c> <u|r|x> <n|d|l> <routedReserved> <t|u> <src 4|6> <dst 4|6> <excl|-> <o|u|e>
//        the real routeDial: dial mode, outbound handed over, sniffed domain kind, whether the matcher routes it
//        to a reserved outbound, flow, exclusion, scripted outcome of the first dial
// answered with `ok d:sel:fam` (node, admitting domain, family handed to the dial) for every admissible answer.

import (
	"context"
	"errors"
	"fmt"
	"io"
	"net"
	"net/netip"
	"os"
	"sort"
	"strconv"
	"strings"
	"syscall"
	"testing"
	"time"

	"github.com/daeuniverse/dae/common/consts"
	ob "github.com/daeuniverse/dae/component/outbound"
	"github.com/daeuniverse/dae/component/outbound/dialer"
	"github.com/daeuniverse/dae/config"
	"github.com/daeuniverse/dae/pkg/config_parser"
	"github.com/daeuniverse/outbound/netproxy"
	"github.com/sirupsen/logrus"
)

// the members' transport: what a dial does is scripted per attempt by the harness
type c15cStub struct{ w *c15cWorld }

func (s c15cStub) DialContext(context.Context, string, string) (netproxy.Conn, error) {
	w := s.w
	o := byte('e')
	if w != nil && len(w.dialScript) > 0 {
		o = w.dialScript[0]
		w.dialScript = w.dialScript[1:]
	}
	if w != nil {
		w.dialed++
	}
	switch o {
	case 'o':
		a, b := net.Pipe()
		_ = b.Close()
		return a, nil
	case 'u':
		return nil, &net.OpError{Op: "dial", Net: "tcp", Err: os.NewSyscallError("connect", syscall.ENETUNREACH)}
	default:
		return nil, errors.New("verif: connection refused by script")
	}
}

type c15cWorld struct {
	n       int
	opt     *dialer.GlobalOption
	dialers []*dialer.Dialer
	types   [6]*dialer.NetworkType
	g       *ob.DialerGroup
	cp      *ControlPlane
	cbs     []string
	pens    [][6]int64
	policy  consts.DialerSelectionPolicy
	lastSel int
	// routeDial: scripted dial outcomes ('o' ok, 'u' network unreachable, 'e' other error), dial counter
	dialScript []byte
	dialed     int
	matcher    *RoutingMatcher
	st         *VStream
	stats      *VStats
}

func c15cNewDialer(w *c15cWorld, opt *dialer.GlobalOption, name string) *dialer.Dialer {
	ctx, cancel := context.WithCancel(context.Background())
	cancel()
	p := &dialer.Property{}
	p.Name = name
	return dialer.NewDialerContext(ctx, c15cStub{w}, opt, dialer.InstanceOption{DisableCheck: true}, p)
}

// routing rules built by the real builder: names under g2.test -> user outbound 2, under
// direct.test -> reserved outbound direct, everything else (IP literals included) -> user outbound 3.
// (What the matcher decides is C01's subject; here it only has to send flows somewhere.)
func c15cBuildMatcher(log *logrus.Logger) *RoutingMatcher {
	dom := func(val, out string) *config_parser.RoutingRule {
		return &config_parser.RoutingRule{
			AndFunctions: []*config_parser.Function{{Name: consts.Function_Domain, Params: []*config_parser.Param{{Key: "suffix", Val: val}}}},
			Outbound:     config_parser.Function{Name: out},
		}
	}
	b, err := NewRoutingMatcherBuilder(log, []*config_parser.RoutingRule{dom("g2.test", "g2"), dom("direct.test", "direct")},
		map[string]uint8{"direct": 0, "block": 1, "g2": 2, "g3": 3}, nil, config.FunctionOrString("g3"))
	if err != nil {
		panic(err)
	}
	m, err := b.BuildUserspace()
	if err != nil {
		panic(err)
	}
	return m
}

func c15cNewWorld(st *VStream, stats *VStats, n int) *c15cWorld {
	lg := logrus.New()
	lg.SetOutput(io.Discard)
	lg.SetLevel(logrus.PanicLevel)
	w := &c15cWorld{n: n, st: st, stats: stats, lastSel: -1}
	w.opt = &dialer.GlobalOption{Log: lg, CheckInterval: 30 * time.Second}
	for i := 0; i < n; i++ {
		w.dialers = append(w.dialers, c15cNewDialer(w, w.opt, "n"+strconv.Itoa(i)))
	}
	for i, k := range dialer.StandardHealthKeys() {
		w.types[i] = k.NetworkType()
	}
	w.pens = make([][6]int64, n)
	st.Emit(fmt.Sprintf("world %d", n), "ok")
	return w
}

// position of the health domain in StandardHealthKeys order
func (w *c15cWorld) typeIdx(nt *dialer.NetworkType) int {
	for i, t := range w.types {
		if t.Index() == nt.Index() {
			return i
		}
	}
	return -9
}

func (w *c15cWorld) takeCbs() string {
	s := "cb=[" + strings.Join(w.cbs, ",") + "]"
	w.cbs = w.cbs[:0]
	return s
}

func (w *c15cWorld) setDump(t int) string {
	set := w.g.MustGetAliveDialerSet(w.types[t])
	if set == nil {
		return "nosets"
	}
	return dialer.VerifC15SetDump(set, w.dialers)
}

func (w *c15cWorld) groupDump() string {
	if w.g.MustGetAliveDialerSet(w.types[0]) == nil {
		return "nosets"
	}
	parts := make([]string, 6)
	for t := 0; t < 6; t++ {
		parts[t] = w.setDump(t)
	}
	return strings.Join(parts, " | ")
}

func c15cParsePolicy(pol consts.DialerSelectionPolicy, fixedIdx int) ob.DialerSelectionPolicy {
	var param config.FunctionListOrString = string(pol)
	if pol == consts.DialerSelectionPolicy_Fixed {
		param = &config_parser.Function{Name: "fixed", Params: []*config_parser.Param{{Val: strconv.Itoa(fixedIdx)}}}
	}
	p, err := ob.NewDialerSelectionPolicyFromGroupParam(&config.Group{Policy: param})
	if err != nil || p == nil {
		panic(fmt.Sprintf("policy %v(%d) rejected by the parser: %v", pol, fixedIdx, err))
	}
	return *p
}

func (w *c15cWorld) makeGroup(tol int64, pol consts.DialerSelectionPolicy, fixedIdx int, offs []int64) {
	w.opt.CheckTolerance = time.Duration(tol)
	ann := make([]*dialer.Annotation, w.n)
	os := make([]string, w.n)
	for i := range ann {
		ann[i] = &dialer.Annotation{AddLatency: time.Duration(offs[i])}
		os[i] = strconv.FormatInt(offs[i], 10)
	}
	op := fmt.Sprintf("group %d %s %d %s", tol, pol, fixedIdx, strings.Join(os, ","))
	out := VRecover(func() string {
		w.g = ob.NewDialerGroup(w.opt, "g", w.dialers, ann, c15cParsePolicy(pol, fixedIdx),
			func(alive bool, nt *dialer.NetworkType, isInit bool) {
				s := strconv.Itoa(w.typeIdx(nt))
				if alive {
					s += "+"
				} else {
					s += "-"
				}
				if isInit {
					s += "i"
				}
				w.cbs = append(w.cbs, s)
			})
		w.policy = pol
		return w.takeCbs() + " " + w.groupDump()
	})
	w.st.Emit(op, out)
	// outbounds[0], [1] are the reserved direct/block slots; the group under test is user outbound 2.
	// The production constructor loads eBPF objects; the pieces chooseProxyDialer / routeDial read are
	// put together here from their real constructors (routing matcher from the real builder). All four
	// outbound slots (direct, block, g2, g3) hold the group under test: which group a flow is routed
	// to is not C15's subject, whether the routed outbound is reserved (=> dial by IP, strict) is.
	if w.matcher == nil {
		w.matcher = c15cBuildMatcher(w.opt.Log)
	}
	w.cp = &ControlPlane{log: w.opt.Log}
	w.cp.outbounds = []*ob.DialerGroup{w.g, w.g, w.g, w.g}
	w.cp.routingMatcher = w.matcher
	w.cp.dialMode = consts.DialMode_DomainPlus
}

func (w *c15cWorld) syncPens(d int) {
	for t := 0; t < 6; t++ {
		v := int64(dialer.VerifC15Penalty(w.dialers[d], w.types[t]))
		if v != w.pens[d][t] {
			w.pens[d][t] = v
			w.st.Emit(fmt.Sprintf("pen %d %d %d", t, d, v), "ok")
		}
	}
}

func (w *c15cWorld) sample(t, d int, lat int64) {
	out := VRecover(func() string {
		dialer.VerifC15Sample(w.dialers[d], w.types[t], time.Duration(lat))
		return w.takeCbs() + " " + w.setDump(t)
	})
	w.st.Emit(fmt.Sprintf("sample %d %d %d", t, d, lat), out)
	w.syncPens(d)
}

func (w *c15cWorld) kill(t, d int, force bool) {
	alive, inform := dialer.VerifC15Fail(w.dialers[d], w.types[t], force, false)
	w.syncPens(d)
	a := "0"
	if alive {
		a = "1"
	}
	out := VRecover(func() string {
		inform()
		return w.takeCbs() + " " + w.setDump(t)
	})
	w.st.Emit(fmt.Sprintf("told %d %d %s", t, d, a), out)
}

func (w *c15cWorld) setPolicy(pol consts.DialerSelectionPolicy, fixedIdx int) {
	out := VRecover(func() string {
		w.g.SetSelectionPolicy(c15cParsePolicy(pol, fixedIdx))
		w.policy = pol
		return w.takeCbs() + " " + w.groupDump()
	})
	w.st.Emit(fmt.Sprintf("policy %s %d", pol, fixedIdx), out)
}

var (
	c15cV4a = netip.MustParseAddrPort("10.1.2.3:40000")
	c15cV4b = netip.MustParseAddrPort("93.184.216.34:443")
	c15cV6a = netip.MustParseAddrPort("[fd00::5]:40000")
	c15cV6b = netip.MustParseAddrPort("[2606:2800:220:1::1]:443")
)

func (w *c15cWorld) choose(udp, src6, dst6, withDomain bool, excl int) {
	p := &proxyDialParam{Outbound: consts.OutboundUserDefinedMin, Network: "tcp", Src: c15cV4a, Dest: c15cV4b}
	if udp {
		p.Network = "udp"
	}
	if src6 {
		p.Src = c15cV6a
	}
	if dst6 {
		p.Dest = c15cV6b
	}
	if withDomain {
		p.Domain = "example.com" // dial_mode domain+ : dial by name, so the IP family is not binding
	}
	exs := "-"
	if excl >= 0 {
		p.Excluded = w.dialers[excl]
		exs = strconv.Itoa(excl)
	}
	// what chooseProxyDialer derives (dial.go): family of the destination, except UDP follows the client
	sel6 := dst6
	if udp && src6 != dst6 {
		sel6 = src6
	}
	l4, ip := "t", "4"
	if udp {
		l4 = "u"
	}
	if sel6 {
		ip = "6"
	}
	strict := !withDomain
	op := fmt.Sprintf("choose %s %s 0 2 %s %s", l4, ip, map[bool]string{true: "1", false: "0"}[strict], exs)
	draws := 1
	if w.policy == consts.DialerSelectionPolicy_Random {
		draws = 6
	}
	out := VRecover(func() string {
		seen := map[string]bool{}
		for i := 0; i < draws; i++ {
			res, err := w.cp.chooseProxyDialer(context.Background(), p)
			if err != nil {
				switch {
				case errors.Is(err, ob.ErrNoAliveDialer):
					seen["err=noalive"] = true
					w.stats.Inc("choose.noalive")
				default:
					seen["err=other"] = true
				}
				continue
			}
			if res == nil || res.Dialer == nil || res.AdmissionNetworkTypeObj == nil {
				seen["err=ok-with-nil"] = true
				continue
			}
			if res.IsDialIp != strict {
				seen["err=strictness-differs"] = true
			}
			di := -7
			for j, x := range w.dialers {
				if x == res.Dialer {
					di = j
				}
			}
			w.lastSel = di
			// node, admitting domain, family handed to the dial (SelectionNetworkTypeObj and, for UDP, the
			// magic network string must agree)
			fam := "?"
			if res.SelectionNetworkTypeObj != nil {
				fam = string(res.SelectionNetworkTypeObj.IpVersion)
				if udp {
					if mn, err := netproxy.ParseMagicNetwork(res.Network); err != nil || mn.IPVersion != fam {
						fam = "network-string-disagrees"
					}
				}
			}
			seen[fmt.Sprintf("%d:%d:%s", di, w.typeIdx(res.AdmissionNetworkTypeObj), fam)] = true
			if i == 0 {
				w.stats.Inc("choose.ok")
				if res.SelectionNetworkTypeObj != nil && (res.SelectionNetworkTypeObj.IpVersion == consts.IpVersionStr_6) != sel6 {
					w.stats.Inc("choose.other_family")
				}
				if di == excl {
					w.stats.Inc("choose.returned_excluded")
				}
			}
		}
		var oks, errs []string
		for k := range seen {
			if strings.HasPrefix(k, "err=") {
				errs = append(errs, k)
			} else {
				oks = append(oks, k)
			}
		}
		sort.Strings(oks)
		sort.Strings(errs)
		switch {
		case len(errs) == 0:
			return "ok " + strings.Join(oks, ",")
		case len(oks) == 0 && len(errs) == 1:
			return errs[0]
		default:
			return "mixed:" + strings.Join(append(oks, errs...), ",")
		}
	})
	w.st.Emit(op, out)
	w.stats.Inc("op.choose")
}

// dial = the REAL ControlPlane.routeDial: chooseProxyDialer (dial mode, re-route through the real
// matcher, strictness re-derived for the routed outbound, selection type from the flow's families),
// the scripted dial, ReportUnavailableForced on "network unreachable" and the second attempt.
func (w *c15cWorld) dial(r *VRand) {
	modes := []struct {
		m consts.DialMode
		c string
	}{{consts.DialMode_Ip, "i"}, {consts.DialMode_DomainPlus, "p"}, {consts.DialMode_DomainCao, "c"}}
	mo := modes[r.Intn(3)]
	w.cp.dialMode = mo.m
	p := &proxyDialParam{Network: "tcp", Src: c15cV4a, Dest: c15cV4b}
	udp := r.Chance(0.5)
	if udp {
		p.Network = "udp"
	}
	fam6 := r.Chance(0.5)
	src6, dst6 := fam6, fam6
	if r.Chance(0.25) {
		dst6 = !dst6
	}
	if src6 {
		p.Src = c15cV6a
	}
	if dst6 {
		p.Dest = c15cV6b
	}
	// outbound the kernel handed over
	outC := "u"
	switch r.Intn(4) {
	case 0:
		p.Outbound, outC = consts.OutboundDirect, "r"
	case 1:
		p.Outbound, outC = consts.OutboundControlPlaneRouting, "x"
	default:
		p.Outbound = consts.OutboundUserDefinedMin + consts.OutboundIndex(r.Intn(2))
	}
	// sniffed domain and where the matcher sends it
	domC, routedReserved := "n", false
	switch r.Intn(5) {
	case 0:
		// no domain: a routed flow falls to the fallback outbound g3
	case 1:
		p.Domain, domC = "93.184.216.34", "l"
	case 2:
		p.Domain, domC, routedReserved = "www.direct.test", "d", true
	default:
		p.Domain, domC = "a.g2.test", "d"
	}
	excl, exs := -1, "-"
	if w.n > 0 && r.Chance(0.3) {
		excl = r.Intn(w.n)
		p.Excluded = w.dialers[excl]
		exs = strconv.Itoa(excl)
	}
	b0 := []byte{'o', 'o', 'e', 'u', 'u'}[r.Intn(5)]
	if w.policy == consts.DialerSelectionPolicy_Random && b0 == 'u' {
		b0 = 'o' // which node dies would depend on the draw
	}
	w.dialScript = []byte{b0, 'o'}
	w.dialed = 0
	fam := func(b bool) string {
		if b {
			return "6"
		}
		return "4"
	}
	l4 := "t"
	if udp {
		l4 = "u"
	}
	op := fmt.Sprintf("dial %s %s %s %s %s %s %s %s %c", mo.c, outC, domC, map[bool]string{true: "1", false: "0"}[routedReserved], l4, fam(src6), fam(dst6), exs, b0)
	out := VRecover(func() string {
		// what the attempts chose is observed through chooseProxyDialer's results: routeDial returns the last one
		conn, res, err := w.cp.routeDial(context.Background(), p)
		if conn != nil {
			_ = conn.Close()
		}
		desc := func(res *proxyDialResult, err error) string {
			if res == nil {
				return "err=other"
			}
			if res.Dialer == nil {
				if err != nil && errors.Is(err, ob.ErrNoAliveDialer) {
					return "err=noalive"
				}
				return "err=other"
			}
			di := -7
			for j, x := range w.dialers {
				if x == res.Dialer {
					di = j
				}
			}
			f := "?"
			if res.SelectionNetworkTypeObj != nil {
				f = string(res.SelectionNetworkTypeObj.IpVersion)
			}
			return fmt.Sprintf("ok %d:%d:%s", di, w.typeIdx(res.AdmissionNetworkTypeObj), f)
		}
		strict := "?"
		if res != nil {
			strict = map[bool]string{true: "1", false: "0"}[res.IsDialIp]
		}
		// the first attempt's choice is recoverable from the callbacks/dump only; print the final
		// attempt and the number of dials, the model prints the same projection
		return fmt.Sprintf("strict=%s dials=%d last=%s %s %s", strict, w.dialed, desc(res, err), w.takeCbs(), w.groupDump())
	})
	w.st.Emit(op, out)
	w.stats.Inc("op.dial")
	w.stats.Inc("dial.mode_" + mo.c + ".out_" + outC + ".dom_" + domC)
	if w.dialed == 2 {
		w.stats.Inc("dial.retry_after_unreachable")
	}
	w.cp.dialMode = consts.DialMode_DomainPlus
}

func TestVerifC15Dial(t *testing.T) {
	r := NewVRand(VSeed() + 77)
	stats := NewVStats()
	st := VOpenStream("c15dial")
	defer func() { st.Close(); stats.Write("c15dial") }()

	nScen := 120
	if VThorough() {
		nScen = 3000
	}
	pols := []consts.DialerSelectionPolicy{
		consts.DialerSelectionPolicy_MinLastLatency, consts.DialerSelectionPolicy_MinLastLatency,
		consts.DialerSelectionPolicy_MinAverage10Latencies, consts.DialerSelectionPolicy_MinMovingAverageLatencies,
		consts.DialerSelectionPolicy_Random, consts.DialerSelectionPolicy_Fixed,
	}
	for si := 0; si < nScen; si++ {
		n := 1 + r.Intn(4)
		if r.Chance(0.3) {
			n = 1
		}
		w := c15cNewWorld(st, stats, n)
		tol := []int64{0, 10, 50}[r.Intn(3)]
		offs := make([]int64, n)
		for i := range offs {
			if r.Chance(0.3) {
				offs[i] = []int64{5, 50, -3}[r.Intn(3)]
			}
		}
		w.makeGroup(tol, pols[r.Intn(len(pols))], r.Intn(n), offs)
		fam := r.Intn(2)
		nOps := 15 + r.Intn(40)
		for i := 0; i < nOps; i++ {
			ty := []int{0, 2, 4}[r.Intn(3)] + fam
			if r.Chance(0.3) {
				ty = r.Intn(6)
			}
			switch x := r.Intn(100); {
			case x < 20:
				w.sample(ty, r.Intn(n), []int64{1, 10, 49, 50, 51, 60, 100, 110}[r.Intn(8)])
			case x < 42:
				w.kill(ty, r.Intn(n), true)
			case x < 50:
				for d := 0; d < n; d++ {
					w.kill(ty, d, true)
				}
			case x < 55:
				w.setPolicy(pols[r.Intn(len(pols))], r.Intn(n))
			case x < 75:
				w.dial(r)
			default:
				excl := -1
				switch y := r.Intn(10); {
				case y < 4:
				case y < 7:
					if w.lastSel >= 0 && w.lastSel < n {
						excl = w.lastSel
					}
				default:
					excl = r.Intn(n)
				}
				src6 := fam == 1
				dst6 := fam == 1
				if r.Chance(0.25) {
					dst6 = !dst6
				}
				if r.Chance(0.15) {
					src6 = !src6
				}
				w.choose(r.Chance(0.6), src6, dst6, r.Chance(0.5), excl)
			}
		}
		_ = w.g.Close()
	}
	stats.Add("ops", st.N)
}
