package control

// C13 correspondence harness — part 2: the sequential components.
//
//   c13_trk   real udpConnStateTracker (and controlPlaneCore.TransferRetainedUdpConnStateTuplesFrom)
//   c13_drn   real controlPlaneDrainTracker
//   c13_key   real endpoint-key functions of udp_flow.go
//
// Op grammar: see lean/DaeVerif/C13/Main.lean (handleTrk / handleDrn / handleKey).

import (
	"bytes"
	"context"
	"encoding/hex"
	"fmt"
	"io"
	"math/big"
	"net"
	"net/netip"
	"sort"
	"strings"
	"sync"
	"sync/atomic"
	"testing"
	"testing/synctest"
	"unsafe"

	"github.com/cilium/ebpf"
	"github.com/daeuniverse/outbound/pool"
	"github.com/sirupsen/logrus"
	"golang.org/x/net/ipv6"
)

// ---------------------------------------------------------------- tracker

func c13TupleKey(i int) bpfTuplesKey {
	return bpfTuplesKeyFromAddrPorts(
		netip.AddrPortFrom(netip.AddrFrom4([4]byte{10, 1, 0, byte(i)}), uint16(2000+i)),
		netip.MustParseAddrPort("203.0.113.9:443"), 17)
}

type c13Trk struct {
	t        *udpConnStateTracker
	core     *controlPlaneCore
	blocked  atomic.Int32
	pendRels map[int]udpConnStateTrackedRelease // key index -> release handed out by BeginRelease
	own      map[int]int                        // harness-side owner count (to generate disciplined ops)
	deleting map[int]bool
}

func c13NewTrk() *c13Trk {
	tr := newUdpConnStateTracker()
	core := &controlPlaneCore{}
	core.udpConnStateTracker.Store(tr)
	return &c13Trk{t: tr, core: core, pendRels: map[int]udpConnStateTrackedRelease{}, own: map[int]int{}, deleting: map[int]bool{}}
}

func (x *c13Trk) digest(idx map[bpfTuplesKey]int) string {
	x.t.mu.Lock()
	var es []string
	type ent struct {
		k, refs int
		del     bool
	}
	var l []ent
	for k, e := range x.t.entries {
		l = append(l, ent{idx[k], e.refs, e.deleting})
	}
	x.t.mu.Unlock()
	sort.Slice(l, func(i, j int) bool { return l[i].k < l[j].k })
	for _, e := range l {
		d := "0"
		if e.del {
			d = "1"
		}
		es = append(es, fmt.Sprintf("%d:%d:%s", e.k, e.refs, d))
	}
	s := "-"
	if len(es) > 0 {
		s = strings.Join(es, ",")
	}
	return fmt.Sprintf("e=%s blocked=%d", s, x.blocked.Load())
}

func c13RunTrk(t *testing.T, stats *VStats) {
	s := VOpenStream("c13_trk")
	defer s.Close()
	r := NewVRand(VSeed() + 101)
	const nkeys = 6
	keys := make([]bpfTuplesKey, nkeys)
	idx := map[bpfTuplesKey]int{}
	for i := range keys {
		keys[i] = c13TupleKey(i)
		idx[keys[i]] = i
	}
	nseq := 300
	if VThorough() {
		nseq = 6000
	}
	for seq := 0; seq < nseq; seq++ {
		rr := r.Fork()
		synctest.Test(t, func(t *testing.T) {
			trk := []*c13Trk{c13NewTrk(), c13NewTrk()}
			s.Emit("trk reset", "ok")
			nops := 5 + rr.Intn(40)
			undisciplined := rr.Chance(0.25)
			retain := func(ti, k int) {
				x := trk[ti]
				if x.deleting[k] {
					x.blocked.Add(1)
					go func() {
						x.t.Retain([]bpfTuplesKey{keys[k]})
						x.blocked.Add(-1)
					}()
					synctest.Wait()
					stats.Inc("trk.retain.blocked")
				} else {
					x.t.Retain([]bpfTuplesKey{keys[k]})
					x.own[k]++
					stats.Inc("trk.retain")
				}
				s.Emit(fmt.Sprintf("trk retain %d %d", ti, k), x.digest(idx))
			}
			begin := func(ti int, ks []int) {
				x := trk[ti]
				kk := make([]bpfTuplesKey, len(ks))
				for i, k := range ks {
					kk[i] = keys[k]
				}
				rels := x.t.BeginRelease(kk)
				var out []int
				for _, rel := range rels {
					k := idx[rel.key]
					out = append(out, k)
					x.pendRels[k] = rel
					x.deleting[k] = true
				}
				for _, k := range ks {
					if x.own[k] > 0 && !(x.deleting[k] && !c13Contains(out, k)) {
						x.own[k]--
					}
				}
				if len(out) > 0 {
					stats.Inc("trk.begin.lastOwner")
				} else {
					stats.Inc("trk.begin.noDelete")
				}
				s.Emit(fmt.Sprintf("trk begin %d %s", ti, c13JoinInts(ks)), fmt.Sprintf("rel=%s %s", c13JoinInts(out), x.digest(idx)))
			}
			finalize := func(ti int, ks []int) {
				x := trk[ti]
				var rels []udpConnStateTrackedRelease
				for _, k := range ks {
					rels = append(rels, x.pendRels[k])
					delete(x.pendRels, k)
				}
				nb := int(x.blocked.Load())
				x.t.FinalizeRelease(rels)
				for _, k := range ks {
					x.deleting[k] = false
				}
				synctest.Wait() // woken goroutines re-run their loop
				// every formerly blocked retain that completed now owns its key
				x.t.mu.Lock()
				for k := range keys {
					if e, ok := x.t.entries[keys[k]]; ok && !e.deleting {
						x.own[k] = e.refs
					}
				}
				x.t.mu.Unlock()
				if nb > 0 {
					stats.Inc("trk.finalize.withWaiters")
				} else {
					stats.Inc("trk.finalize")
				}
				s.Emit(fmt.Sprintf("trk finalize %d %s", ti, c13JoinInts(ks)), x.digest(idx))
			}
			for i := 0; i < nops; i++ {
				ti := rr.Intn(2)
				x := trk[ti]
				switch c := rr.Intn(10); {
				case c < 4:
					retain(ti, rr.Intn(nkeys))
				case c < 7:
					// release a set of distinct keys; disciplined: only held, non-deleting keys
					var ks []int
					for k := 0; k < nkeys; k++ {
						if rr.Chance(0.35) && (undisciplined || (x.own[k] > 0 && !x.deleting[k])) {
							ks = append(ks, k)
						}
					}
					rr2 := rr.Fork()
					sort.Slice(ks, func(a, b int) bool { return rr2.Bool() })
					if len(ks) == 0 {
						continue
					}
					begin(ti, ks)
					// usually finalize at once (as ReleaseUdpConnStateTuples does), sometimes leave the
					// deleting window open so that later retains park
					if len(x.pendRels) > 0 && rr.Chance(0.6) {
						var fk []int
						for k := range x.pendRels {
							fk = append(fk, k)
						}
						sort.Ints(fk)
						finalize(ti, fk)
					}
				case c < 8:
					if len(x.pendRels) > 0 {
						var all, fk []int
						for k := range x.pendRels {
							all = append(all, k)
						}
						sort.Ints(all) // (draw in key order, not in Go's map order: the stream is reproducible per seed)
						for _, k := range all {
							if rr.Chance(0.7) {
								fk = append(fk, k)
							}
						}
						if len(fk) > 0 {
							finalize(ti, fk)
						}
					}
				case c < 9:
					k := rr.Intn(nkeys)
					if x.deleting[k] || (!undisciplined && x.own[k] == 0) {
						continue // a forget that would park: excluded by the client discipline
					}
					x.t.Forget([]bpfTuplesKey{keys[k]})
					if x.own[k] > 0 {
						x.own[k]--
					}
					stats.Inc("trk.forget")
					s.Emit(fmt.Sprintf("trk forget %d %d", ti, k), x.digest(idx))
				default:
					// reload hand-over through the real controlPlaneCore method: keys held in `prev`
					cur, prev := trk[ti], trk[1-ti]
					var ks []int
					for k := 0; k < nkeys; k++ {
						if prev.own[k] > 0 && !prev.deleting[k] && !cur.deleting[k] && rr.Chance(0.5) {
							ks = append(ks, k)
						}
					}
					if len(ks) == 0 {
						continue
					}
					kk := make([]bpfTuplesKey, len(ks))
					for i, k := range ks {
						kk[i] = keys[k]
					}
					cur.core.TransferRetainedUdpConnStateTuplesFrom(prev.core, kk)
					for _, k := range ks {
						cur.own[k]++
						prev.own[k]--
					}
					stats.Inc("trk.transfer")
					s.Emit(fmt.Sprintf("trk transfer %d %d %s", ti, 1-ti, c13JoinInts(ks)),
						fmt.Sprintf("cur %s prev %s", cur.digest(idx), prev.digest(idx)))
				}
			}
			// close every deleting window so that parked goroutines finish
			for round := 0; round < 8; round++ {
				open := false
				for ti, x := range trk {
					if len(x.pendRels) > 0 {
						var fk []int
						for k := range x.pendRels {
							fk = append(fk, k)
						}
						sort.Ints(fk)
						finalize(ti, fk)
						open = true
					}
				}
				if !open {
					break
				}
			}
			synctest.Wait()
		})
	}
	stats.Add("trk.ops", s.N)
}

func c13Contains(l []int, x int) bool {
	for _, v := range l {
		if v == x {
			return true
		}
	}
	return false
}

// ---------------------------------------------------------------- kernel conn-state map
//
// Stream c13_krn: the REAL controlPlaneCore.RetainUdpConnStateTuples / ReleaseUdpConnStateTuples /
// TransferRetainedUdpConnStateTuplesFrom on cores that own a REAL eBPF hash map as ConnStateMap
// (ebpf.NewMap works in this sandbox; the build is the real-bpf variant, so BpfMapBatchDelete is the
// production function).  `flow` = the datapath created the tuple's entry and an endpoint tracks it.
// Digest: both trackers and the keys present in both maps.  `shared` = both generations hold the same
// bpf objects, hence (through the registry) the same tracker and map, as after an ordinary reload.

func c13NewConnStateMap() *ebpf.Map {
	m, err := ebpf.NewMap(&ebpf.MapSpec{Type: ebpf.Hash, KeySize: uint32(unsafe.Sizeof(bpfTuplesKey{})), ValueSize: 8, MaxEntries: 64})
	if err != nil {
		return nil
	}
	return m
}

func c13KernelKeys(m *ebpf.Map, idx map[bpfTuplesKey]int) []int {
	var out []int
	var k bpfTuplesKey
	var v uint64
	it := m.Iterate()
	for it.Next(&k, &v) {
		out = append(out, idx[k])
	}
	sort.Ints(out)
	return out
}

func c13KrnCore(bpf *bpfObjects) *controlPlaneCore {
	log := logrus.New()
	log.SetOutput(io.Discard)
	core := &controlPlaneCore{log: log, outboundId2Name: map[uint8]string{}}
	core.closed, core.close = context.WithCancel(context.Background())
	core.bpf.Store(bpf)
	return core
}

// One ReleaseUdpConnStateTuples call step by step (yield points releaseConnState.afterBeginRelease and
// .afterKernelDelete): while the tuples are being deleted a new owner's Retain of one of them parks; it must
// still be parked after the kernel delete and complete only with FinalizeRelease.  Returns false when the
// yield points are not in the tree (then the caller performs the release in one go).
// goroutines currently parked in Retain inside a release window (the tracker has no counter of its own)
var c13KrnBlocked, c13KrnBlockedCore = 0, -1

func c13KrnWindow(t *testing.T, s *VStream, stats *VStats, core *controlPlaneCore, c int, ks []int, kk []bpfTuplesKey,
	keys []bpfTuplesKey, own map[int]int, digest func() string) bool {
	var mu sync.Mutex
	var gid int64
	var parked chan struct{}
	var at string
	verifYieldHook = func(name string, _ ...any) {
		if !strings.HasPrefix(name, "releaseConnState.") {
			return
		}
		mu.Lock()
		mine := c13Goid() == gid
		mu.Unlock()
		if !mine {
			return
		}
		ch := make(chan struct{})
		mu.Lock()
		parked, at = ch, name
		mu.Unlock()
		<-ch
	}
	defer func() { verifYieldHook = nil }()
	take := func() (chan struct{}, string) {
		mu.Lock()
		defer mu.Unlock()
		ch, a := parked, at
		parked, at = nil, ""
		return ch, a
	}
	done := make(chan error, 1)
	go func() {
		mu.Lock()
		gid = c13Goid()
		mu.Unlock()
		done <- core.ReleaseUdpConnStateTuples(kk)
	}()
	synctest.Wait()
	ch, a := take()
	if ch == nil {
		// no yield point in this tree: the release ran to completion
		<-done
		stats.Inc("krn.window.unavailable")
		s.Emit(fmt.Sprintf("krn release %d %s", c, c13JoinInts(ks)), digest())
		return true
	}
	if a != "releaseConnState.afterBeginRelease" {
		t.Fatalf("c13: release parked at %s first", a)
	}
	stats.Inc("krn.window")
	s.Emit(fmt.Sprintf("krn rbegin %d %s", c, c13JoinInts(ks)), digest())
	// a new flow with one of the tuples whose last owner is leaving
	victim := -1
	for _, k := range ks {
		if own[k] == 0 {
			victim = k
			break
		}
	}
	retained := make(chan struct{})
	if victim >= 0 {
		go func() {
			core.RetainUdpConnStateTuples([]bpfTuplesKey{keys[victim]})
			close(retained)
		}()
		synctest.Wait()
		select {
		case <-retained: // not parked: a Retain completed while the tuple's kernel entry is being deleted
		default:
			c13KrnBlocked, c13KrnBlockedCore = 1, c
		}
		s.Emit(fmt.Sprintf("krn retain %d %d", c, victim), digest())
	}
	stillParked := func() {
		select {
		case <-retained:
			c13KrnBlocked = 0
		default:
		}
	}
	close(ch)
	synctest.Wait()
	if ch2, a2 := take(); ch2 != nil {
		if a2 != "releaseConnState.afterKernelDelete" {
			t.Fatalf("c13: release parked at %s second", a2)
		}
		stillParked()
		s.Emit(fmt.Sprintf("krn rdelete %d", c), digest())
		close(ch2)
	} else {
		stillParked()
		s.Emit(fmt.Sprintf("krn rdelete %d", c), digest())
	}
	if err := <-done; err != nil {
		t.Fatalf("c13: ReleaseUdpConnStateTuples: %v", err)
	}
	synctest.Wait()
	if victim >= 0 {
		<-retained
		own[victim]++
	}
	c13KrnBlocked, c13KrnBlockedCore = 0, -1
	s.Emit(fmt.Sprintf("krn rfinal %d", c), digest())
	return true
}

func c13RunKrn(t *testing.T, stats *VStats) {
	probe := c13NewConnStateMap()
	if probe == nil {
		stats.Inc("krn.unavailable")
		return
	}
	probe.Close()
	s := VOpenStream("c13_krn")
	defer s.Close()
	r := NewVRand(VSeed() + 606)
	const nkeys = 6
	keys := make([]bpfTuplesKey, nkeys)
	idx := map[bpfTuplesKey]int{}
	for i := range keys {
		keys[i] = c13TupleKey(i)
		idx[keys[i]] = i
	}
	nseq := 150
	if VThorough() {
		nseq = 3000
	}
	for seq := 0; seq < nseq; seq++ {
		r := r.Fork()
		synctest.Test(t, func(t *testing.T) {
			shared := r.Chance(0.4)
			maps := []*ebpf.Map{c13NewConnStateMap(), nil}
			bpfs := []*bpfObjects{{bpfMaps: bpfMaps{ConnStateMap: maps[0]}}, nil}
			if shared {
				maps[1], bpfs[1] = maps[0], bpfs[0]
			} else {
				maps[1] = c13NewConnStateMap()
				bpfs[1] = &bpfObjects{bpfMaps: bpfMaps{ConnStateMap: maps[1]}}
			}
			cores := []*controlPlaneCore{c13KrnCore(bpfs[0]), c13KrnCore(bpfs[1])}
			closedCore, lateUse := -1, false
			own := []map[int]int{{}, {}} // harness-side count of holders per core (to generate disciplined releases)
			if shared {
				own[1] = own[0]
			}
			digest := func() string {
				part := func(c int) string {
					src := c
					if c == closedCore {
						src = 1 - c // (shared: the same tracker; do not re-acquire through the closed core)
					}
					x := &c13Trk{t: cores[src].getUdpConnStateTracker()}
					if shared || c == c13KrnBlockedCore {
						x.blocked.Store(int32(c13KrnBlocked))
					}
					return fmt.Sprintf("t%d[%s] k%d=%s", c, x.digest(idx), c, c13JoinInts(c13KernelKeys(maps[c], idx)))
				}
				return part(0) + " " + part(1)
			}
			mode := "distinct"
			if shared {
				mode = "shared"
				stats.Inc("krn.seq.shared")
			} else {
				stats.Inc("krn.seq.distinct")
			}
			s.Emit("krn reset "+mode, "ok")
			nops := 5 + r.Intn(30)
			for i := 0; i < nops; i++ {
				c := r.Intn(2)
				if shared && closedCore < 0 && i > 3 && r.Chance(0.06) {
					// the old generation's core is closed after the hand-over; its endpoints live on and
					// release (or even track) through it later: the shared tracker must still count them
					closedCore = c
					_ = cores[c].Close()
					stats.Inc("krn.coreClose")
					s.Emit(fmt.Sprintf("krn close %d", c), digest())
					continue
				}
				if c == closedCore {
					stats.Inc("krn.opThroughClosedCore")
					lateUse = true
				}
				switch x := r.Intn(10); {
				case x < 3:
					k := r.Intn(nkeys)
					if err := maps[c].Put(keys[k], uint64(1)); err != nil {
						t.Fatalf("c13: map put: %v", err)
					}
					cores[c].RetainUdpConnStateTuples([]bpfTuplesKey{keys[k]})
					own[c][k]++
					stats.Inc("krn.flow")
					s.Emit(fmt.Sprintf("krn flow %d %d", c, k), digest())
				case x < 5:
					k := r.Intn(nkeys)
					cores[c].RetainUdpConnStateTuples([]bpfTuplesKey{keys[k]})
					own[c][k]++
					stats.Inc("krn.retain")
					s.Emit(fmt.Sprintf("krn retain %d %d", c, k), digest())
				case x < 9:
					var ks []int
					for k := 0; k < nkeys; k++ {
						if own[c][k] > 0 && r.Chance(0.5) {
							ks = append(ks, k)
						}
					}
					if len(ks) == 0 {
						continue
					}
					kk := make([]bpfTuplesKey, len(ks))
					last := false
					for j, k := range ks {
						kk[j] = keys[k]
						if own[c][k] == 1 {
							last = true
						}
						own[c][k]--
					}
					if last && r.Chance(0.5) && c13KrnWindow(t, s, stats, cores[c], c, ks, kk, keys, own[c], digest) {
						continue
					}
					if err := cores[c].ReleaseUdpConnStateTuples(kk); err != nil {
						t.Fatalf("c13: ReleaseUdpConnStateTuples: %v", err)
					}
					if last {
						stats.Inc("krn.release.lastOwner")
					} else {
						stats.Inc("krn.release.sharedTupleSurvives")
					}
					s.Emit(fmt.Sprintf("krn release %d %s", c, c13JoinInts(ks)), digest())
				default:
					var ks []int
					for k := 0; k < nkeys; k++ {
						if own[1-c][k] > 0 && r.Chance(0.5) {
							ks = append(ks, k)
						}
					}
					if len(ks) == 0 {
						continue
					}
					kk := make([]bpfTuplesKey, len(ks))
					for j, k := range ks {
						kk[j] = keys[k]
					}
					cores[c].TransferRetainedUdpConnStateTuplesFrom(cores[1-c], kk)
					if !shared {
						for _, k := range ks {
							own[c][k]++
							own[1-c][k]--
						}
					}
					stats.Inc("krn.transfer." + mode)
					s.Emit(fmt.Sprintf("krn transfer %d %d %s", c, 1-c, c13JoinInts(ks)), digest())
				}
			}
			for _, c := range cores {
				_ = c.Close()
			}
			if lateUse {
				// observation (not a property clause): a use through the closed core re-acquired the shared
				// tracker; that reference is never given back, so the registry keeps the entry of this bpf object
				sharedUdpConnStateTrackerRegistry.mu.Lock()
				if _, ok := sharedUdpConnStateTrackerRegistry.entries[bpfs[0]]; ok {
					stats.Inc("krn.observation.registryEntryKeptAfterLateUse")
					delete(sharedUdpConnStateTrackerRegistry.entries, bpfs[0])
				}
				sharedUdpConnStateTrackerRegistry.mu.Unlock()
			}
			maps[0].Close()
			if !shared {
				maps[1].Close()
			}
		})
	}
	stats.Add("krn.ops", s.N)
}

// ---------------------------------------------------------------- ingress batch reader
//
// Stream c13_ib: the REAL udpIngressBatchReader (ReadBatch / Take / Close) over a fake batch socket.
// Taken buffers are kept by the harness like queued packet tasks keep them; after every ReadBatch the
// harness checks that none of them was overwritten and that a newly taken buffer is not one of them.

type c13IbSock struct {
	next [][]byte
	src  []*net.UDPAddr
}

func (f *c13IbSock) ReadBatch(msgs []ipv6.Message, _ int) (int, error) {
	n := len(f.next)
	if n > len(msgs) {
		n = len(msgs)
	}
	for i := 0; i < n; i++ {
		msgs[i].N = copy(msgs[i].Buffers[0], f.next[i])
		msgs[i].Addr = f.src[i]
		// the control message of THIS datagram (in production: its original destination): derived from the
		// payload so that the model can tell which datagram's control message Take hands out
		msgs[i].NN = copy(msgs[i].OOB, []byte{f.next[i][0], byte(len(f.next[i])), 77})
	}
	return n, nil
}

func c13RunIb(t *testing.T, stats *VStats) {
	s := VOpenStream("c13_ib")
	defer s.Close()
	r := NewVRand(VSeed() + 808)
	nseq := 100
	if VThorough() {
		nseq = 2000
	}
	type held struct {
		pb   pool.PB
		want []byte
	}
	for seq := 0; seq < nseq; seq++ {
		size := 1 + r.Intn(8)
		sock := &c13IbSock{}
		var rd *udpIngressBatchReader
		if conn, err := net.ListenUDP("udp", &net.UDPAddr{IP: net.IPv4(127, 0, 0, 1)}); err == nil {
			rd = newUDPIngressBatchReader(conn, size) // the real constructor; only the socket is replaced
			conn.Close()
		}
		if rd == nil {
			stats.Inc("ib.noSocket")
			return
		}
		rd.pc = sock
		s.Emit(fmt.Sprintf("ib reset %d", size), "ok")
		var hold []held
		got := 0
		serial := byte(1)
		for i, nops := 0, 4+r.Intn(30); i < nops; i++ {
			switch x := r.Intn(10); {
			case x < 4:
				n := r.Intn(size + 2)
				sock.next, sock.src = nil, nil
				var toks []string
				for j := 0; j < n; j++ {
					l := 1 + r.Intn(4)
					b := make([]byte, l)
					var bs []int
					for q := range b {
						b[q] = serial
						bs = append(bs, int(serial))
						serial++
						if serial == 0 {
							serial = 1
						}
					}
					sock.next = append(sock.next, b)
					sock.src = append(sock.src, &net.UDPAddr{IP: net.IPv4(10, 0, 0, byte(j+1)), Port: 4000 + j})
					toks = append(toks, c13JoinInts(bs))
				}
				var err error
				got, err = rd.ReadBatch()
				if err != nil {
					t.Fatalf("c13: ReadBatch: %v", err)
				}
				stats.Inc("ib.read")
				s.Emit(strings.TrimSpace("ib read "+strings.Join(toks, " ")), fmt.Sprintf("n=%d", got))
			case x < 8:
				i := r.Intn(size + 1)
				if i >= got && i < size {
					continue // a slot without a datagram: production never takes it
				}
				pb, src, oob, ok := rd.Take(i)
				out := "none"
				if ok {
					var bs []int
					for _, v := range pb {
						bs = append(bs, int(v))
					}
					alias, heldOK := 0, 1
					for _, h := range hold {
						if &h.pb[:1][0] == &pb[:1][0] {
							alias = 1
						}
						if !bytes.Equal(h.pb, h.want) {
							heldOK = 0
						}
					}
					var ob []int
					for _, v := range oob {
						ob = append(ob, int(v))
					}
					out = fmt.Sprintf("ok data=%s oob=%s alias=%d held_ok=%d", c13JoinInts(bs), c13JoinInts(ob), alias, heldOK)
					if src.Port() != uint16(4000+i) {
						out += " src=wrong"
					}
					hold = append(hold, held{pb: pb, want: append([]byte(nil), pb...)})
					stats.Inc("ib.take")
				} else {
					stats.Inc("ib.take.none")
				}
				s.Emit(fmt.Sprintf("ib take %d", i), out)
			default:
				// a queued task finishes: its buffer goes back to the pool
				if len(hold) > 0 {
					j := r.Intn(len(hold))
					hold[j].pb.Put()
					hold = append(hold[:j], hold[j+1:]...)
					stats.Inc("ib.taskDone")
				}
			}
		}
		rd.Close()
		for _, h := range hold {
			h.pb.Put()
		}
	}
	stats.Add("ib.ops", s.N)
}

// ---------------------------------------------------------------- drain tickets

func c13RunDrn(t *testing.T, stats *VStats) {
	s := VOpenStream("c13_drn")
	defer s.Close()
	r := NewVRand(VSeed() + 202)
	nseq := 300
	if VThorough() {
		nseq = 6000
	}
	for seq := 0; seq < nseq; seq++ {
		tr := newControlPlaneDrainTracker()
		last := tr.IdleCh()
		gen := 0
		show := func() string {
			ch := tr.IdleCh()
			if ch != last {
				gen++
				last = ch
			}
			idle := "0"
			select {
			case <-ch:
				idle = "1"
			default:
			}
			return fmt.Sprintf("active=%d idle=%s gen=%d", tr.Count(), idle, gen)
		}
		s.Emit("drn reset", show())
		var rel []func()
		n := 3 + r.Intn(30)
		for i := 0; i < n; i++ {
			if len(rel) == 0 || r.Chance(0.45) {
				rel = append(rel, tr.Acquire())
				stats.Inc("drn.acquire")
				s.Emit("drn acquire", show())
			} else {
				j := r.Intn(len(rel) + 1) // may be one past the end: no such ticket
				if j < len(rel) {
					rel[j]()
				}
				stats.Inc("drn.release")
				s.Emit(fmt.Sprintf("drn release %d", j), show())
			}
		}
	}
	stats.Add("drn.ops", s.N)
}

// ---------------------------------------------------------------- endpoint keys

func c13ApTok(a netip.AddrPort) string {
	if !a.IsValid() && a == (netip.AddrPort{}) {
		return "-"
	}
	var h string
	if a.Addr().Is4() {
		b := a.Addr().As4()
		h = "4" + hex.EncodeToString(b[:])
	} else {
		b := a.Addr().As16()
		h = "6" + hex.EncodeToString(b[:])
	}
	return fmt.Sprintf("%s/%d", h, a.Port())
}

func c13ApShow(a netip.AddrPort) string {
	tok := c13ApTok(a)
	if tok == "-" {
		return "-"
	}
	parts := strings.SplitN(tok, "/", 2)
	n, _ := new(big.Int).SetString(parts[0], 16)
	return n.String() + "/" + parts[1]
}

func c13ScopeShow(sc udpEndpointRouteScope) string {
	return fmt.Sprintf("%d.%d.%d.%s.%s", sc.Outbound, sc.Mark, sc.Dscp,
		new(big.Int).SetBytes(sc.Pname[:]).String(), new(big.Int).SetBytes(sc.Mac[:]).String())
}

func c13KeyShow(k UdpEndpointKey) string {
	return fmt.Sprintf("[%s %s %s]", c13ApShow(k.Src), c13ApShow(k.Dst), c13ScopeShow(k.RouteScope))
}

func c13RandAP(r *VRand) netip.AddrPort {
	ports := []uint16{53, 443, 8443, 5004, 5060, 3478, 80, 1, 65535, 5061, 5003, 4433}
	port := ports[r.Intn(len(ports))]
	if r.Chance(0.3) {
		port = uint16(r.Intn(65536))
	}
	var a netip.Addr
	switch r.Intn(4) {
	case 0:
		a = netip.AddrFrom4([4]byte{10, 0, 0, byte(r.Intn(3))})
	case 1:
		a = netip.AddrFrom4([4]byte{192, 168, byte(r.Intn(2)), 1})
	case 2:
		var b [16]byte
		b[0], b[1], b[15] = 0x20, 0x01, byte(r.Intn(3))
		a = netip.AddrFrom16(b)
	default:
		a = netip.AddrFrom16(netip.AddrFrom4([4]byte{10, 0, 0, byte(r.Intn(3))}).As16()) // v4-mapped: a different Addr value
	}
	return netip.AddrPortFrom(a, port)
}

func c13B(b bool) string {
	if b {
		return "1"
	}
	return "0"
}

// c13PortRanges: the set {p | in(p)} over all 65536 ports as "a,b-c,..." ("-" = empty)
func c13PortRanges(in func(uint16) bool) string {
	var parts []string
	for p := 0; p < 65536; {
		if !in(uint16(p)) {
			p++
			continue
		}
		q := p
		for q+1 < 65536 && in(uint16(q+1)) {
			q++
		}
		if q == p {
			parts = append(parts, fmt.Sprint(p))
		} else {
			parts = append(parts, fmt.Sprintf("%d-%d", p, q))
		}
		p = q + 1
	}
	if len(parts) == 0 {
		return "-"
	}
	return strings.Join(parts, ",")
}

// the two port sets are tuning constants: read off the production predicates (the model checks the rule
// "one of the two ports is in the set", and that ordered ingress is the complement of direct dispatch)
var c13SniffRangesCache string

func c13SniffPortRanges() string {
	if c13SniffRangesCache == "" {
		c13SniffRangesCache = c13PortRanges(udpPortAllowsSniffing)
	}
	return c13SniffRangesCache
}

func c13DirectPortRanges() string {
	direct := func(sp, dp uint16) bool {
		dd := UdpFlowDecision{Key: NewUdpFlowKey(netip.AddrPortFrom(netip.AddrFrom4([4]byte{10, 0, 0, 1}), sp),
			netip.AddrPortFrom(netip.AddrFrom4([4]byte{10, 0, 0, 2}), dp))}
		return dd.ShouldUseGoroutineDirectly()
	}
	neutral := uint16(1)
	for direct(neutral, neutral) {
		neutral++
	}
	return c13PortRanges(func(p uint16) bool { return direct(p, neutral) })
}

func c13RunKey(t *testing.T, stats *VStats) {
	s := VOpenStream("c13_key")
	defer s.Close()
	s.Emit(fmt.Sprintf("key consts %s %s", c13SniffPortRanges(), c13DirectPortRanges()), "ok")
	r := NewVRand(VSeed() + 303)
	n := 8000
	if VThorough() {
		n = 150000
	}
	for i := 0; i < n; i++ {
		src, dst := c13RandAP(r), c13RandAP(r)
		d := UdpFlowDecision{
			Key:               NewUdpFlowKey(src, dst),
			HasSnifferSession: r.Chance(0.3),
			IsQuicInitial:     r.Chance(0.3),
			AllowsSniffing:    r.Bool(),
		}
		dom := r.Chance(0.3)
		domain := ""
		if dom {
			domain = "example.org"
		}
		var rt *bpfRoutingResult
		rtTok := "nil"
		if !r.Chance(0.15) {
			rt = &bpfRoutingResult{Mark: uint32(r.Intn(3)), Dscp: uint8(r.Intn(3))}
			switch r.Intn(4) {
			case 0:
				rt.Outbound = 0xFD
			case 1:
				rt.Outbound = 0xFC
			default:
				rt.Outbound = uint8(r.Intn(4))
			}
			if r.Chance(0.6) {
				rt.Pname[0], rt.Pname[15] = byte('a'+r.Intn(2)), byte(r.Intn(2))
				rt.Mac[5] = byte(r.Intn(3))
			}
			rtTok = fmt.Sprintf("%d %d %d %s %s", rt.Outbound, rt.Mark, rt.Dscp, hex.EncodeToString(rt.Pname[:]), hex.EncodeToString(rt.Mac[:]))
			if rt.Outbound == 0xFD {
				stats.Inc("key.scope.controlPlaneRouting")
			} else {
				stats.Inc("key.scope.plain")
			}
		} else {
			stats.Inc("key.scope.nil")
		}
		sc := newUdpEndpointRouteScope(rt)
		force := udpRouteScopeNeedsDestinationAffinity(rt)
		fb, fbOk := d.InitialLookupFallbackKeyWithScope(sc, force)
		fbs := "none"
		if fbOk {
			fbs = c13KeyShow(fb)
		}
		cfb, cfbOk := d.CachedRoutingFallbackKey()
		cfbs := "none"
		if cfbOk {
			cfbs = c13KeyShow(cfb)
		}
		dial := d.EndpointKeyForDialWithScope(domain, sc, force)
		if dial.Dst.IsValid() {
			stats.Inc("key.dial.symmetric")
		} else {
			stats.Inc("key.dial.fullcone")
		}
		out := fmt.Sprintf("scope=%s force=%s lookup=%s fallback=%s dial=%s cached=%s cachedfb=%s quicnat=%s",
			c13ScopeShow(sc), c13B(force), c13KeyShow(d.EndpointKeyForInitialLookupWithScope(sc, force)), fbs,
			c13KeyShow(dial), c13KeyShow(d.CachedRoutingEndpointKey()), cfbs,
			c13B(d.NatTimeoutForDial(domain) == QuicNatTimeout))
		s.Emit(fmt.Sprintf("key flow %s %s %s %s %s %s %s", c13ApTok(src), c13ApTok(dst),
			c13B(d.HasSnifferSession), c13B(d.IsQuicInitial), c13B(d.AllowsSniffing), c13B(dom), rtTok), out)

		if i%4 == 0 {
			sp, dp := src.Port(), dst.Port()
			dd := UdpFlowDecision{Key: NewUdpFlowKey(src, dst)}
			s.Emit(fmt.Sprintf("key ports %d %d", sp, dp), fmt.Sprintf("allows=%s direct=%s ordered=%s",
				c13B(udpFlowAllowsSniffing(src, dst)), c13B(dd.ShouldUseGoroutineDirectly()), c13B(dd.ShouldUseOrderedIngress())))
			if dd.ShouldUseOrderedIngress() {
				stats.Inc("key.ports.ordered")
			} else {
				stats.Inc("key.ports.direct")
			}
		}
	}
	// port boundaries of the dispatch rule, exhaustively around every constant
	for _, p := range []int{52, 53, 54, 442, 443, 444, 3477, 3478, 3479, 5003, 5004, 5005, 5059, 5060, 5061, 8442, 8443, 8444, 0, 65535} {
		for _, q := range []int{53, 80, 5004, 5060, 5061, 3478, 443} {
			for _, swap := range []bool{false, true} {
				sp, dp := p, q
				if swap {
					sp, dp = q, p
				}
				src := netip.AddrPortFrom(netip.AddrFrom4([4]byte{10, 0, 0, 1}), uint16(sp))
				dst := netip.AddrPortFrom(netip.AddrFrom4([4]byte{10, 0, 0, 2}), uint16(dp))
				dd := UdpFlowDecision{Key: NewUdpFlowKey(src, dst)}
				s.Emit(fmt.Sprintf("key ports %d %d", sp, dp), fmt.Sprintf("allows=%s direct=%s ordered=%s",
					c13B(udpFlowAllowsSniffing(src, dst)), c13B(dd.ShouldUseGoroutineDirectly()), c13B(dd.ShouldUseOrderedIngress())))
			}
		}
	}
	stats.Add("key.ops", s.N)
}
